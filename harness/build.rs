//! Probes /repo/src for the DEPRECATED public functions the harness exercises, so that a crate which has
//! dropped one of them (a change no property speaks about) still builds: each use is behind `cfg(has_<fn>)`.
use std::fs;

fn main() {
    let probes: [(&str, &str); 12] = [
        ("board.rs", "from_fen"),
        ("board.rs", "enumerate_moves"),
        ("board.rs", "add_castle_rights"),
        ("board.rs", "remove_castle_rights"),
        ("board.rs", "add_my_castle_rights"),
        ("board.rs", "remove_my_castle_rights"),
        ("board.rs", "add_their_castle_rights"),
        ("board.rs", "remove_their_castle_rights"),
        ("board.rs", "set_piece"),
        ("board.rs", "clear_square"),
        ("game.rs", "new_from_fen"),
        ("square.rs", "from_string"),
    ];
    for (file, name) in probes.iter() {
        println!("cargo:rustc-check-cfg=cfg(has_{})", name);
        let path = format!("/repo/src/{}", file);
        println!("cargo:rerun-if-changed={}", path);
        if let Ok(src) = fs::read_to_string(&path) {
            let pat = format!("pub fn {}", name);
            let found = src.match_indices(&pat).any(|(i, _)| {
                let rest = &src[i + pat.len()..];
                !rest.starts_with(|c: char| c.is_alphanumeric() || c == '_')
            });
            if found {
                println!("cargo:rustc-cfg=has_{}", name);
            }
        }
    }
}
