//! TBL / ROOK / BISHOP / BB* operations: exhaustive accessor calls.

use crate::enc::*;
use chess::*;

const SQ_CONSTS: [Square; 64] = [
    Square::A1,
    Square::B1,
    Square::C1,
    Square::D1,
    Square::E1,
    Square::F1,
    Square::G1,
    Square::H1,
    Square::A2,
    Square::B2,
    Square::C2,
    Square::D2,
    Square::E2,
    Square::F2,
    Square::G2,
    Square::H2,
    Square::A3,
    Square::B3,
    Square::C3,
    Square::D3,
    Square::E3,
    Square::F3,
    Square::G3,
    Square::H3,
    Square::A4,
    Square::B4,
    Square::C4,
    Square::D4,
    Square::E4,
    Square::F4,
    Square::G4,
    Square::H4,
    Square::A5,
    Square::B5,
    Square::C5,
    Square::D5,
    Square::E5,
    Square::F5,
    Square::G5,
    Square::H5,
    Square::A6,
    Square::B6,
    Square::C6,
    Square::D6,
    Square::E6,
    Square::F6,
    Square::G6,
    Square::H6,
    Square::A7,
    Square::B7,
    Square::C7,
    Square::D7,
    Square::E7,
    Square::F7,
    Square::G7,
    Square::H7,
    Square::A8,
    Square::B8,
    Square::C8,
    Square::D8,
    Square::E8,
    Square::F8,
    Square::G8,
    Square::H8,
];

fn h(b: BitBoard) -> String {
    hx(b.0)
}
fn d(v: usize) -> String {
    v.to_string()
}
fn osq(s: Option<Square>) -> String {
    opt_sq(s)
}
fn bit(v: bool) -> String {
    if v { "1".into() } else { "0".into() }
}

fn num(a: &[&str], i: usize, lim: usize) -> Option<usize> {
    let v: usize = a.get(i)?.parse().ok()?;
    if v < lim {
        Some(v)
    } else {
        None
    }
}
fn col(a: &[&str], i: usize) -> Option<Color> {
    parse_color(a.get(i)?)
}
fn hexa(a: &[&str], i: usize) -> Option<u64> {
    parse_hex(a.get(i)?)
}

/// Evaluate one TBL accessor. `None` = unknown name / malformed arguments.
fn tbl_eval(name: &str, a: &[&str]) -> Option<String> {
    let s0 = || num(a, 0, 64).map(sq);
    let s1 = || num(a, 1, 64).map(sq);
    Some(match name {
        "king" => h(get_king_moves(s0()?)),
        "knight" => h(get_knight_moves(s0()?)),
        "rookrays" => h(get_rook_rays(s0()?)),
        "bishoprays" => h(get_bishop_rays(s0()?)),
        "between" => h(between(s0()?, s1()?)),
        "line" => h(line(s0()?, s1()?)),
        "pawnattacks" => h(get_pawn_attacks(s1()?, col(a, 0)?, bb(hexa(a, 2)?))),
        "pawnquiets" => h(get_pawn_quiets(s1()?, col(a, 0)?, bb(hexa(a, 2)?))),
        "pawnmoves" => h(get_pawn_moves(s1()?, col(a, 0)?, bb(hexa(a, 2)?))),
        "rank" => h(get_rank(rank_of(num(a, 0, 8)?))),
        "file" => h(get_file(file_of(num(a, 0, 8)?))),
        "adjfiles" => h(get_adjacent_files(file_of(num(a, 0, 8)?))),
        "edges" => h(EDGES),
        "up" => osq(s0()?.up()),
        "down" => osq(s0()?.down()),
        "left" => osq(s0()?.left()),
        "right" => osq(s0()?.right()),
        "forward" => osq(s1()?.forward(col(a, 0)?)),
        "backward" => osq(s1()?.backward(col(a, 0)?)),
        "uup" => d(s0()?.uup().to_index()),
        "udown" => d(s0()?.udown().to_index()),
        "uleft" => d(s0()?.uleft().to_index()),
        "uright" => d(s0()?.uright().to_index()),
        "uforward" => d(s1()?.uforward(col(a, 0)?).to_index()),
        "ubackward" => d(s1()?.ubackward(col(a, 0)?).to_index()),
        "mksq" => d(Square::make_square(rank_of(num(a, 0, 8)?), file_of(num(a, 1, 8)?)).to_index()),
        "getrank" => d(s0()?.get_rank().to_index()),
        "getfile" => d(s0()?.get_file().to_index()),
        "fileleft" => d(file_of(num(a, 0, 8)?).left().to_index()),
        "fileright" => d(file_of(num(a, 0, 8)?).right().to_index()),
        "rankup" => d(rank_of(num(a, 0, 8)?).up().to_index()),
        "rankdown" => d(rank_of(num(a, 0, 8)?).down().to_index()),
        "fileidx" => d(File::from_index(num(a, 0, 1 << 20)?).to_index()),
        "rankidx" => d(Rank::from_index(num(a, 0, 1 << 20)?).to_index()),
        "sq2cr" => d(CastleRights::square_to_castle_rights(col(a, 0)?, s1()?).to_index()),
        "unmoved" => h(cr(num(a, 0, 4)?).unmoved_rooks(col(a, 1)?)),
        "crks" => bit(cr(num(a, 0, 4)?).has_kingside()),
        "crqs" => bit(cr(num(a, 0, 4)?).has_queenside()),
        "cradd" => d(cr(num(a, 0, 4)?).add(cr(num(a, 1, 4)?)).to_index()),
        "crrm" => d(cr(num(a, 0, 4)?).remove(cr(num(a, 1, 4)?)).to_index()),
        "backrank" => d(col(a, 0)?.to_my_backrank().to_index()),
        "theirbackrank" => d(col(a, 0)?.to_their_backrank().to_index()),
        "second" => d(col(a, 0)?.to_second_rank().to_index()),
        "fourth" => d(col(a, 0)?.to_fourth_rank().to_index()),
        "seventh" => d(col(a, 0)?.to_seventh_rank().to_index()),
        "sqnew" => d(Square::new(num(a, 0, 256)? as u8).to_index()),
        "ksq" => h(CastleRights::NoRights.kingside_squares(col(a, 0)?)),
        "qsq" => h(CastleRights::NoRights.queenside_squares(col(a, 0)?)),
        "crstr" => hex_text(&cr(num(a, 0, 4)?).to_string(col(a, 1)?)),
        "pcstr" => hex_text(&ALL_PIECES[num(a, 0, 6)?].to_string(col(a, 1)?)),
        "rsq2cr" => d(CastleRights::rook_square_to_castle_rights(s0()?).to_index()),
        "toint" => d(s0()?.to_int() as usize),
        "sqdefault" => d(Square::default().to_index()),
        "sqconst" => d(SQ_CONSTS[num(a, 0, 64)?].to_index()),
        "allsq" => d(ALL_SQUARES[num(a, 0, 64)?].to_index()),
        "allfiles" => d(ALL_FILES[num(a, 0, 8)?].to_index()),
        "allranks" => d(ALL_RANKS[num(a, 0, 8)?].to_index()),
        "allpieces" => d(ALL_PIECES[num(a, 0, 6)?].to_index()),
        "allcolors" => d(ALL_COLORS[num(a, 0, 2)?].to_index()),
        "allcr" => d(ALL_CASTLE_RIGHTS[num(a, 0, 4)?].to_index()),
        "promo" => d(PROMOTION_PIECES[num(a, 0, 4)?].to_index()),
        "nums" => format!("{},{},{},{},{},{},{}", NUM_SQUARES, NUM_FILES, NUM_RANKS, NUM_PIECES, NUM_COLORS, NUM_CASTLE_RIGHTS, NUM_PROMOTION_PIECES),
        "empty" => h(EMPTY),
        "tosize" => d(bb(hexa(a, 0)?).to_size(num(a, 1, 64)? as u8)),
        _ => return None,
    })
}

/// `args` = the tokens after `TBL` (name first).
pub fn tbl(args: &[&str]) -> String {
    let head = format!("TBL {}", args.join(" "));
    if args.is_empty() {
        return format!("{} => BADLINE", head);
    }
    let r = guard(|| tbl_eval(args[0], &args[1..]));
    format!(
        "{} => {}",
        head,
        match r {
            None => "PANIC".to_string(),
            Some(None) => "BADLINE".to_string(),
            Some(Some(s)) => s,
        }
    )
}

pub fn tbl_s(s: String) -> String {
    let v: Vec<&str> = s.split(' ').collect();
    tbl(&v)
}

/// ROOK / BISHOP / ROOKBMI / BISHOPBMI. `None` for the BMI names in a build without bmi2.
pub fn slider(name: &str, s: usize, occ: u64) -> Option<String> {
    let r: Option<BitBoard> = match name {
        "ROOK" => guard(|| get_rook_moves(sq(s), bb(occ))),
        "BISHOP" => guard(|| get_bishop_moves(sq(s), bb(occ))),
        #[cfg(target_feature = "bmi2")]
        "ROOKBMI" => guard(|| get_rook_moves_bmi(sq(s), bb(occ))),
        #[cfg(target_feature = "bmi2")]
        "BISHOPBMI" => guard(|| get_bishop_moves_bmi(sq(s), bb(occ))),
        _ => return None,
    };
    Some(format!(
        "{} {} {:x} => {}",
        name,
        s,
        occ,
        match r {
            Some(x) => h(x),
            None => "PANIC".to_string(),
        }
    ))
}

pub fn has_bmi() -> bool {
    cfg!(target_feature = "bmi2")
}

/// `BB <op> <a> <b>`: every owned/borrowed impl and the assigning forms must agree.
pub fn bbop(op: &str, a: u64, b: u64) -> String {
    let head = format!("BB {} {:x} {:x}", op, a, b);
    let x = bb(a);
    let y = bb(b);
    let r: Option<Option<Vec<BitBoard>>> = guard(|| {
        Some(match op {
            "and" => {
                let mut v = vec![x & y, &x & &y, x & &y, &x & y];
                let mut t = x;
                t &= y;
                v.push(t);
                let mut t = x;
                t &= &y;
                v.push(t);
                v
            }
            "or" => {
                let mut v = vec![x | y, &x | &y, x | &y, &x | y];
                let mut t = x;
                t |= y;
                v.push(t);
                let mut t = x;
                t |= &y;
                v.push(t);
                v
            }
            "xor" => {
                let mut v = vec![x ^ y, &x ^ &y, x ^ &y, &x ^ y];
                let mut t = x;
                t ^= y;
                v.push(t);
                let mut t = x;
                t ^= &y;
                v.push(t);
                v
            }
            "mul" => vec![x * y, &x * &y, x * &y, &x * y],
            "not" => vec![!x, !&x],
            _ => return None,
        })
    });
    format!(
        "{} => {}",
        head,
        match r {
            None => "PANIC".to_string(),
            Some(None) => "BADLINE".to_string(),
            Some(Some(v)) => {
                if v.iter().all(|z| *z == v[0]) {
                    h(v[0])
                } else {
                    "DIFF".to_string()
                }
            }
        }
    )
}

/// every way of consuming the iterator must agree with repeated `next()`
fn bb_adaptors_agree(a: u64) -> Option<&'static str> {
    let mut it = bb(a);
    let mut l = Vec::new();
    while let Some(s) = it.next() {
        l.push(s);
        if l.len() > 64 { return Some("next-does-not-terminate"); }
    }
    if it.next().is_some() { return Some("next-after-none"); }
    let n = l.len();
    for k in 0..(n + 2) {
        if bb(a).nth(k) != l.get(k).cloned() { return Some("nth"); }
        let sk: Vec<_> = bb(a).skip(k).collect();
        if sk[..] != l[k.min(n)..] { return Some("skip"); }
        let tk: Vec<_> = bb(a).take(k).collect();
        if tk[..] != l[..k.min(n)] { return Some("take"); }
    }
    for st in 1..4usize {
        let sb: Vec<_> = bb(a).step_by(st).collect();
        let ex: Vec<_> = l.iter().cloned().step_by(st).collect();
        if sb != ex { return Some("step_by"); }
    }
    if bb(a).count() != n { return Some("count"); }
    if bb(a).last() != l.last().cloned() { return Some("last"); }
    if bb(a).min() != l.iter().cloned().min() { return Some("min"); }
    if bb(a).max() != l.iter().cloned().max() { return Some("max"); }
    let (lo, hi) = bb(a).size_hint();
    if lo > n || hi.map(|h| h < n).unwrap_or(false) { return Some("size_hint"); }
    let fl: Vec<_> = bb(a).fold(Vec::new(), |mut v, s| { v.push(s); v });
    if fl != l { return Some("fold"); }
    let mut via_for = Vec::new();
    for s in bb(a) { via_for.push(s); }
    if via_for != l { return Some("for"); }
    if bb(a).position(|s| Some(s) == l.last().cloned()) != if n == 0 { None } else { Some(n - 1) } { return Some("position"); }
    None
}

pub fn bbiter(a: u64) -> String {
    let r = guard(|| {
        if let Some(which) = bb_adaptors_agree(a) {
            return format!("DIFF:{}", which);
        }
        let v: Vec<String> = bb(a).map(|s| s.to_index().to_string()).collect();
        if v.is_empty() {
            "-".to_string()
        } else {
            v.join(",")
        }
    });
    format!("BBITER {:x} => {}", a, r.unwrap_or_else(|| "PANIC".into()))
}

pub fn bbcnt(a: u64) -> String {
    let r = guard(|| bb(a).popcnt().to_string());
    format!("BBCNT {:x} => {}", a, r.unwrap_or_else(|| "PANIC".into()))
}

pub fn bbtosq(a: u64) -> String {
    let r = guard(|| bb(a).to_square().to_index().to_string());
    format!("BBTOSQ {:x} => {}", a, r.unwrap_or_else(|| "PANIC".into()))
}

pub fn bbfromsq(s: usize) -> String {
    let r = guard(|| {
        let b = BitBoard::from_square(sq(s));
        if BitBoard::from_maybe_square(Some(sq(s))) != Some(b) || BitBoard::from_maybe_square(None).is_some() {
            return "DIFF:from_maybe_square".to_string();
        }
        h(b)
    });
    format!("BBFROMSQ {} => {}", s, r.unwrap_or_else(|| "PANIC".into()))
}

pub fn bbrev(a: u64) -> String {
    let r = guard(|| h(bb(a).reverse_colors()));
    format!("BBREV {:x} => {}", a, r.unwrap_or_else(|| "PANIC".into()))
}

pub fn bbset(r: usize, f: usize) -> String {
    let v = guard(|| h(BitBoard::set(rank_of(r), file_of(f))));
    format!("BBSET {} {} => {}", r, f, v.unwrap_or_else(|| "PANIC".into()))
}
