//! `harness keyrel <keys.txt> <max>`: search (native, not a proof) the regenerated Zobrist keys for xor
//! relations among up to `max` (≤ 6) keys, and turn a relation into two distinct valid positions with the
//! same `get_hash()` on the real crate when it can be realised that way.
//!
//! Key order in the file (one hex number per line, 793 lines): pieces `[colour][piece][square]`
//! (768), castles `[colour][rights]` (8), en passant `[colour][file]` (16), side to move (1).

use chess::{Board, BoardBuilder, CastleRights, Color, File, Piece, Square, ALL_PIECES};
use std::collections::HashMap;
use std::convert::TryFrom;

fn combos3(n: usize, mut f: impl FnMut(usize, usize, usize)) {
    for i in 0..n {
        for j in (i + 1)..n {
            for k in (j + 1)..n {
                f(i, j, k);
            }
        }
    }
}

/// All relations (sorted index sets whose keys xor to zero) of size ≤ max, smallest sizes first; at most `limit`.
pub fn relations(keys: &[u64], max: usize, limit: usize) -> Vec<Vec<usize>> {
    let n = keys.len();
    let mut out: Vec<Vec<usize>> = Vec::new();
    let mut push = |v: Vec<usize>, out: &mut Vec<Vec<usize>>| {
        let mut v = v;
        v.sort();
        v.dedup();
        if !out.contains(&v) && out.len() < limit {
            out.push(v);
        }
    };
    for i in 0..n {
        if keys[i] == 0 {
            push(vec![i], &mut out);
        }
    }
    let mut single: HashMap<u64, usize> = HashMap::new();
    for i in 0..n {
        if let Some(j) = single.get(&keys[i]) {
            if max >= 2 {
                push(vec![*j, i], &mut out);
            }
        } else {
            single.insert(keys[i], i);
        }
    }
    let mut pairs: HashMap<u64, (usize, usize)> = HashMap::with_capacity(n * n / 2);
    let mut filter = vec![0u64; 1 << 18]; // 2^24 bits
    for i in 0..n {
        for j in (i + 1)..n {
            let x = keys[i] ^ keys[j];
            if max >= 3 {
                if let Some(k) = single.get(&x) {
                    if *k != i && *k != j {
                        push(vec![i, j, *k], &mut out);
                    }
                }
            }
            if let Some((a, b)) = pairs.get(&x) {
                if max >= 4 && *a != i && *a != j && *b != i && *b != j {
                    push(vec![*a, *b, i, j], &mut out);
                }
            } else {
                pairs.insert(x, (i, j));
                let h = (x & 0xFF_FFFF) as usize;
                filter[h >> 6] |= 1u64 << (h & 63);
            }
        }
    }
    if max >= 5 && out.len() < limit {
        let mut found: Vec<Vec<usize>> = Vec::new();
        combos3(n, |i, j, k| {
            let x = keys[i] ^ keys[j] ^ keys[k];
            let h = (x & 0xFF_FFFF) as usize;
            if filter[h >> 6] & (1u64 << (h & 63)) != 0 {
                if let Some((a, b)) = pairs.get(&x) {
                    if ![i, j, k].contains(a) && ![i, j, k].contains(b) {
                        found.push(vec![i, j, k, *a, *b]);
                    }
                }
            }
        });
        for v in found {
            push(v, &mut out);
        }
    }
    if max >= 6 && out.len() < limit {
        // triples against triples: 16 buckets by the top four bits, one thread each
        let keys_arc = std::sync::Arc::new(keys.to_vec());
        let mut handles = Vec::new();
        for bucket in 0..16u64 {
            let ks = keys_arc.clone();
            handles.push(std::thread::spawn(move || {
                let n = ks.len();
                let mut v: Vec<u64> = Vec::with_capacity(6_000_000);
                combos3(n, |i, j, k| {
                    let x = ks[i] ^ ks[j] ^ ks[k];
                    if x >> 60 == bucket {
                        v.push(x);
                    }
                });
                v.sort_unstable();
                let mut dups: Vec<u64> = Vec::new();
                for w in v.windows(2) {
                    if w[0] == w[1] && dups.last() != Some(&w[0]) {
                        dups.push(w[0]);
                    }
                }
                dups
            }));
        }
        let mut dups: Vec<u64> = Vec::new();
        for h in handles {
            if let Ok(d) = h.join() {
                dups.extend(d);
            }
        }
        if !dups.is_empty() {
            let mut by_val: HashMap<u64, Vec<(usize, usize, usize)>> = HashMap::new();
            for d in dups.iter() {
                by_val.insert(*d, Vec::new());
            }
            combos3(n, |i, j, k| {
                let x = keys[i] ^ keys[j] ^ keys[k];
                if let Some(l) = by_val.get_mut(&x) {
                    l.push((i, j, k));
                }
            });
            for (_, l) in by_val {
                for a in 0..l.len() {
                    for b in (a + 1)..l.len() {
                        let (t, u) = (l[a], l[b]);
                        let s = vec![t.0, t.1, t.2, u.0, u.1, u.2];
                        let mut d = s.clone();
                        d.sort();
                        d.dedup();
                        if d.len() == 6 {
                            push(s, &mut out);
                        }
                    }
                }
            }
        }
    }
    out.sort_by_key(|v| v.len());
    out
}

pub fn key_name(i: usize) -> String {
    let pcs = ["Pawn", "Knight", "Bishop", "Rook", "Queen", "King"];
    let cols = ["White", "Black"];
    if i < 768 {
        format!("ZOBRIST_PIECES[{}][{}][sq {}]", cols[i / 384], pcs[(i / 64) % 6], i % 64)
    } else if i < 776 {
        format!("ZOBRIST_CASTLES[{}][{}]", cols[(i - 768) / 4], ["NoRights", "KingSide", "QueenSide", "Both"][(i - 768) % 4])
    } else if i < 792 {
        format!("ZOBRIST_EP[{}][file {}]", cols[(i - 776) / 8], (i - 776) % 8)
    } else {
        "SIDE_TO_MOVE".to_string()
    }
}

/// Two distinct valid positions whose key sets differ in exactly the relation's keys, confirmed to
/// collide on the real crate.  Only relations made of piece keys (at most two per square) and the
/// side key are realised; kings are added where the relation names none.
pub fn realise(rel: &[usize]) -> Option<(String, String, u64)> {
    let mut per_sq: HashMap<usize, Vec<(Piece, Color)>> = HashMap::new();
    let mut side = false;
    for &i in rel {
        if i < 768 {
            let c = if i / 384 == 0 { Color::White } else { Color::Black };
            per_sq.entry(i % 64).or_default().push((ALL_PIECES[(i / 64) % 6], c));
        } else if i == 792 {
            side = true;
        } else {
            return None;
        }
    }
    if per_sq.values().any(|v| v.len() > 2) {
        return None;
    }
    let mut a: [Option<(Piece, Color)>; 64] = [None; 64];
    let mut b: [Option<(Piece, Color)>; 64] = [None; 64];
    for (s, v) in per_sq.iter() {
        a[*s] = Some(v[0]);
        if v.len() == 2 {
            b[*s] = Some(v[1]);
        }
    }
    let kings = |p: &[Option<(Piece, Color)>; 64], c: Color| p.iter().filter(|x| **x == Some((Piece::King, c))).count();
    // common extra kings on free squares, tried over all pairs of free squares
    let need_w = kings(&a, Color::White) == 0 && kings(&b, Color::White) == 0;
    let need_b = kings(&a, Color::Black) == 0 && kings(&b, Color::Black) == 0;
    let free: Vec<usize> = (0..64).filter(|s| a[*s].is_none() && b[*s].is_none()).collect();
    let wopts: Vec<Option<usize>> = if need_w { free.iter().map(|s| Some(*s)).collect() } else { vec![None] };
    let bopts: Vec<Option<usize>> = if need_b { free.iter().map(|s| Some(*s)).collect() } else { vec![None] };
    let build = |p: &[Option<(Piece, Color)>; 64], stm: Color| -> Option<Board> {
        let mut bb = BoardBuilder::new();
        for s in 0..64 {
            if let Some((pc, c)) = p[s] {
                bb.piece(unsafe { Square::new(s as u8) }, pc, c);
            }
        }
        bb.side_to_move(stm);
        bb.castle_rights(Color::White, CastleRights::NoRights);
        bb.castle_rights(Color::Black, CastleRights::NoRights);
        bb.en_passant(None::<File>);
        std::panic::catch_unwind(|| Board::try_from(&bb).ok()).ok().flatten()
    };
    for wk in wopts.iter() {
        for bk in bopts.iter() {
            if wk.is_some() && wk == bk {
                continue;
            }
            let (mut pa, mut pb) = (a, b);
            if let Some(s) = wk {
                pa[*s] = Some((Piece::King, Color::White));
                pb[*s] = Some((Piece::King, Color::White));
            }
            if let Some(s) = bk {
                pa[*s] = Some((Piece::King, Color::Black));
                pb[*s] = Some((Piece::King, Color::Black));
            }
            for stm in [Color::White, Color::Black].iter() {
                let stm2 = if side { !*stm } else { *stm };
                if let (Some(x), Some(y)) = (build(&pa, *stm), build(&pb, stm2)) {
                    if x != y && x.get_hash() == y.get_hash() {
                        return Some((format!("{}", x), format!("{}", y), x.get_hash()));
                    }
                }
            }
        }
    }
    None
}

pub fn main(path: &str, max: usize) {
    let text = match std::fs::read_to_string(path) {
        Ok(t) => t,
        Err(e) => {
            println!("KEYREL-ERROR cannot read {}: {}", path, e);
            return;
        }
    };
    let keys: Vec<u64> = text.split_whitespace().filter_map(|t| u64::from_str_radix(t.trim_start_matches("0x"), 16).ok()).collect();
    if keys.len() != 793 {
        println!("KEYREL-ERROR expected 793 keys, found {}", keys.len());
        return;
    }
    let t0 = std::time::Instant::now();
    let rels = relations(&keys, max.min(6), 24);
    for r in rels.iter() {
        let names: Vec<String> = r.iter().map(|i| key_name(*i)).collect();
        match realise(r) {
            Some((f1, f2, h)) => println!("WITNESS size={} keys={} fen1={} | fen2={} | hash={:x}", r.len(), names.join(" ^ "), f1, f2, h),
            None => println!("RELATION size={} keys={}", r.len(), names.join(" ^ ")),
        }
    }
    println!("KEYREL-DONE max={} relations={} seconds={:.2}", max.min(6), rels.len(), t0.elapsed().as_secs_f64());
}
