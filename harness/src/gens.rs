//! Position generators: corpus, weighted playouts, synthesized valid set-ups, invalid builder states.

use crate::enc::*;
use crate::ops::{moves_of, transform};
use crate::rng::Rng;
use chess::{Board, ChessMove, Color, Piece, Square, ALL_PIECES};
use std::convert::TryFrom;
use std::str::FromStr;

pub const CORPUS_DEFAULT: &str = "/verif/corpus/roots.txt";
const CORPUS_BUILTIN: &str = include_str!("../../corpus/roots.txt");

pub struct Corpus {
    pub ep_without_predecessor: usize,
    pub fens: Vec<String>,
    pub boards: Vec<Board>,
    pub rejected: usize,
    pub derived: usize,
}

pub fn load_corpus() -> Corpus {
    let path = std::env::var("VERIF_CORPUS").unwrap_or_else(|_| CORPUS_DEFAULT.to_string());
    let text = std::fs::read_to_string(&path).unwrap_or_else(|_| CORPUS_BUILTIN.to_string());
    let mut c = Corpus { ep_without_predecessor: 0, fens: vec![], boards: vec![], rejected: 0, derived: 0 };
    for l in text.lines() {
        let l = l.trim();
        if l.is_empty() || l.starts_with('#') {
            continue;
        }
        match guard(|| Board::from_str(l).ok()) {
            Some(Some(b)) => {
                if !ep_has_predecessor(&b) {
                    if std::env::var("HDEBUG").is_ok() {
                        eprintln!("corpus ep mark without predecessor: {}", l);
                    }
                    c.ep_without_predecessor += 1;
                }
                c.fens.push(l.to_string());
                c.boards.push(b);
            }
            _ => c.rejected += 1,
        }
    }
    // derived roots: the colour mirror of every curated root (so both colours see every motif)
    let n = c.boards.len();
    for i in 0..n {
        let d = transform(&BD::of_board(&c.boards[i]), 'm');
        if let Some(Some(b)) = guard(|| Board::try_from(&d.builder()).ok()) {
            if !c.boards.contains(&b) {
                c.boards.push(b);
                c.derived += 1;
            }
        }
    }
    c
}

// ------------------------------------------------------------------ move classes

#[derive(Clone, Copy, PartialEq, Debug)]
pub struct MoveInfo {
    pub capture: bool,
    pub ep: bool,
    pub castle: bool,
    pub promo: bool,
    pub king: bool,
    pub pawn: bool,
    pub double_push: bool,
}

pub fn classify(b: &Board, m: ChessMove) -> MoveInfo {
    let p = b.piece_on(m.get_source());
    let s = m.get_source().to_index();
    let d = m.get_dest().to_index();
    let pawn = p == Some(Piece::Pawn);
    let occupied = b.piece_on(m.get_dest()).is_some();
    let ep = pawn && (s & 7) != (d & 7) && !occupied;
    let king = p == Some(Piece::King);
    let castle = king && ((s & 7) as i32 - (d & 7) as i32).abs() == 2;
    MoveInfo {
        capture: occupied || ep,
        ep,
        castle,
        promo: m.get_promotion().is_some(),
        king,
        pawn,
        double_push: pawn && ((s >> 3) as i32 - (d >> 3) as i32).abs() == 2,
    }
}

pub fn is_reversible(b: &Board, m: ChessMove) -> bool {
    let i = classify(b, m);
    !i.pawn && !i.capture
}

#[derive(Clone, Copy, PartialEq)]
pub enum Style {
    /// captures, checks, castling, ep, promotions, king walks over-weighted
    Tactical,
    /// additionally drive toward mate / stalemate (few replies for the opponent)
    Terminal,
    /// uniform over legal moves
    Uniform,
    /// prefer quiet, reversible moves (long games, many repetitions)
    Quiet,
}

/// Weighted choice among `ms` (non-empty).
pub fn choose_move(rng: &mut Rng, b: &Board, ms: &[ChessMove], style: Style) -> ChessMove {
    if style == Style::Uniform || ms.len() == 1 {
        return ms[rng.below(ms.len())];
    }
    let mut w: Vec<u32> = Vec::with_capacity(ms.len());
    for m in ms {
        let i = classify(b, *m);
        let mut x: u32 = 8;
        match style {
            Style::Quiet => {
                if !i.pawn && !i.capture {
                    x += 40;
                }
                if i.castle {
                    x += 10;
                }
            }
            _ => {
                if i.capture {
                    x += 5;
                }
                if i.ep {
                    x += 60;
                }
                if i.castle {
                    x += 60;
                }
                if i.promo {
                    x += 24;
                }
                if i.king {
                    x += 4;
                }
                if i.double_push {
                    x += 6;
                }
                if let Some(n) = guard(|| b.make_move_new(*m)) {
                    let chk = n.checkers().popcnt();
                    if n.en_passant().is_some() {
                        x += 60;
                    }
                    if chk == 1 {
                        x += 14;
                    } else if chk >= 2 {
                        x += 80;
                    }
                    if style == Style::Terminal {
                        let replies = moves_of(&n).map(|v| v.len()).unwrap_or(99);
                        x += match replies {
                            0 => 4000,
                            1 => 120,
                            2 => 60,
                            3..=5 => 20,
                            _ => 0,
                        };
                    }
                }
            }
        }
        w.push(x);
    }
    ms[rng.weighted(&w)]
}

#[derive(Clone, Copy)]
pub struct Step {
    pub before: Board,
    /// `None` = null move
    pub mv: Option<ChessMove>,
    pub after: Board,
}

/// A playout of at most `plies` steps; null moves are interleaved with probability
/// `null_pct` percent where legal. Stops at a terminal position or on a library panic.
pub fn playout(rng: &mut Rng, root: &Board, plies: usize, style: Style, null_pct: usize) -> Vec<Step> {
    let mut v = Vec::new();
    let mut b = *root;
    let mut bare = 0;
    for _ in 0..plies {
        // bare kings: nothing more to see after a few plies
        if b.combined().popcnt() <= 2 {
            bare += 1;
            if bare > 3 {
                break;
            }
        }
        if null_pct > 0 && rng.chance(null_pct, 100) {
            if let Some(Some(n)) = guard(|| b.null_move()) {
                // only keep the null move when the result is still something the crate accepts
                v.push(Step { before: b, mv: None, after: n });
                if !guard(|| n.is_sane()).unwrap_or(false) {
                    break;
                }
                b = n;
                continue;
            }
        }
        let ms = match moves_of(&b) {
            Some(ms) if !ms.is_empty() => ms,
            _ => break,
        };
        let m = choose_move(rng, &b, &ms, style);
        match guard(|| b.make_move_new(m)) {
            Some(n) => {
                v.push(Step { before: b, mv: Some(m), after: n });
                // a successor the crate itself calls insane is evidence (it is emitted by the
                // caller), but nothing sensible can be played from it
                if !guard(|| n.is_sane()).unwrap_or(false) {
                    break;
                }
                b = n;
            }
            None => break,
        }
    }
    v
}

// ------------------------------------------------------------------ synthesized positions

fn king_adjacent(a: usize, b: usize) -> bool {
    let df = ((a & 7) as i32 - (b & 7) as i32).abs();
    let dr = ((a >> 3) as i32 - (b >> 3) as i32).abs();
    df <= 1 && dr <= 1
}

/// One candidate "sane" set-up (two kings, `men` men in total, pawns on ranks 2..7, at most 16 men
/// and 8 pawns per side, plausible rights and ep). Not yet filtered by the crate.
pub fn synth_candidate(rng: &mut Rng, men: usize) -> BD {
    let mut d = BD::empty();
    d.stm = if rng.chance(1, 2) { Color::White } else { Color::Black };
    let want_castle = rng.chance(1, 3);
    // kings
    let wk = if want_castle && rng.chance(2, 3) { 4 } else { rng.below(64) };
    let mut bk;
    loop {
        bk = if want_castle && rng.chance(2, 3) { 60 } else { rng.below(64) };
        if bk != wk && !king_adjacent(wk, bk) {
            break;
        }
    }
    d.sq[wk] = Some((Piece::King, Color::White));
    d.sq[bk] = Some((Piece::King, Color::Black));
    // rights backed by rooks
    if want_castle {
        if wk == 4 {
            if rng.chance(2, 3) {
                d.sq[7] = Some((Piece::Rook, Color::White));
                d.wcr |= 1;
            }
            if rng.chance(2, 3) {
                d.sq[0] = Some((Piece::Rook, Color::White));
                d.wcr |= 2;
            }
        }
        if bk == 60 {
            if rng.chance(2, 3) {
                d.sq[63] = Some((Piece::Rook, Color::Black));
                d.bcr |= 1;
            }
            if rng.chance(2, 3) {
                d.sq[56] = Some((Piece::Rook, Color::Black));
                d.bcr |= 2;
            }
        }
    }
    // en passant: a pawn of the side that just moved on its fourth rank, two empty squares behind
    if rng.chance(1, 4) {
        let f = rng.below(8);
        let (pawn_sq, behind1, behind2, mover) = if d.stm == Color::White {
            (32 + f, 40 + f, 48 + f, Color::Black)
        } else {
            (24 + f, 16 + f, 8 + f, Color::White)
        };
        if d.sq[pawn_sq].is_none() && d.sq[behind1].is_none() && d.sq[behind2].is_none() {
            d.sq[pawn_sq] = Some((Piece::Pawn, mover));
            d.ep = Some(f);
            // usually put a capturer next to it
            if rng.chance(3, 4) {
                let side = if f == 0 { 1 } else if f == 7 { 6 } else if rng.chance(1, 2) { f - 1 } else { f + 1 };
                let s = (pawn_sq & !7) + side;
                if d.sq[s].is_none() {
                    d.sq[s] = Some((Piece::Pawn, !mover));
                }
            }
        }
    }
    let keep_empty: Vec<usize> = match d.ep {
        Some(f) => {
            if d.stm == Color::White { vec![40 + f, 48 + f] } else { vec![16 + f, 8 + f] }
        }
        None => vec![],
    };
    let mut count = [0usize; 2];
    let mut pawns = [0usize; 2];
    for i in 0..64 {
        if let Some((p, c)) = d.sq[i] {
            count[c.to_index()] += 1;
            if p == Piece::Pawn {
                pawns[c.to_index()] += 1;
            }
        }
    }
    let mut tries = 0;
    while d.men() < men && tries < 400 {
        tries += 1;
        let s = rng.below(64);
        if d.sq[s].is_some() || keep_empty.contains(&s) {
            continue;
        }
        let c = if rng.chance(1, 2) { Color::White } else { Color::Black };
        if count[c.to_index()] >= 16 {
            continue;
        }
        let p = match rng.below(10) {
            0..=3 => Piece::Pawn,
            4 | 5 => Piece::Knight,
            6 => Piece::Bishop,
            7 | 8 => Piece::Rook,
            _ => Piece::Queen,
        };
        if p == Piece::Pawn {
            let r = s >> 3;
            if r == 0 || r == 7 || pawns[c.to_index()] >= 8 {
                continue;
            }
            pawns[c.to_index()] += 1;
        }
        d.sq[s] = Some((p, c));
        count[c.to_index()] += 1;
    }
    d
}

/// The en-passant mark of `b` has a predecessor: with the marked pawn put back on its start square
/// (both squares behind it empty) and the other side to move, the crate accepts the position, i.e.
/// the king of the side now to move was not attacked before the double push. Vacuously true
/// without a mark.
pub fn ep_has_predecessor(b: &Board) -> bool {
    let s = match b.en_passant() {
        Some(s) => s.to_index(),
        None => return true,
    };
    let mut d = BD::of_board(b);
    let pusher = !d.stm;
    let (mid, origin) = if pusher == Color::White { (s.wrapping_sub(8), s.wrapping_sub(16)) } else { (s + 8, s + 16) };
    if origin >= 64 || d.sq[s] != Some((Piece::Pawn, pusher)) || d.sq[mid].is_some() || d.sq[origin].is_some() {
        return false;
    }
    d.sq[s] = None;
    d.sq[origin] = Some((Piece::Pawn, pusher));
    d.stm = pusher;
    d.ep = None;
    matches!(guard(|| Board::try_from(&d.builder()).ok()), Some(Some(_)))
}

/// A synthesized position the crate accepts (density 2..=32 men) and whose en-passant mark, if any,
/// has a predecessor. `None` after 200 failed tries.
pub fn synth_valid(rng: &mut Rng, men: usize) -> Option<Board> {
    for _ in 0..200 {
        let d = synth_candidate(rng, men);
        if let Some(Some(b)) = guard(|| Board::try_from(&d.builder()).ok()) {
            if ep_has_predecessor(&b) {
                return Some(b);
            }
        }
    }
    None
}

pub fn random_density(rng: &mut Rng) -> usize {
    match rng.below(4) {
        0 => rng.range(2, 6),
        1 => rng.range(3, 12),
        _ => rng.range(2, 32),
    }
}

/// Small endgame: the given white/black extra men on random squares.
pub fn small_endgame(rng: &mut Rng) -> Option<Board> {
    const KITS: [&[(Piece, Color)]; 10] = [
        &[(Piece::Queen, Color::White)],
        &[(Piece::Rook, Color::White)],
        &[(Piece::Pawn, Color::White)],
        &[(Piece::Queen, Color::Black)],
        &[(Piece::Rook, Color::Black)],
        &[(Piece::Pawn, Color::Black)],
        &[(Piece::Bishop, Color::White), (Piece::Knight, Color::White)],
        &[(Piece::Rook, Color::White), (Piece::Rook, Color::Black)],
        &[(Piece::Queen, Color::White), (Piece::Pawn, Color::Black)],
        &[(Piece::Bishop, Color::Black), (Piece::Bishop, Color::Black)],
    ];
    for _ in 0..100 {
        let kit = KITS[rng.below(KITS.len())];
        let mut d = BD::empty();
        // kings near each other / near an edge to favour terminal positions
        let wk = rng.below(64);
        let bk = if rng.chance(1, 2) {
            [0usize, 7, 56, 63, 1, 8, 6, 15][rng.below(8)]
        } else {
            rng.below(64)
        };
        if wk == bk || king_adjacent(wk, bk) {
            continue;
        }
        d.sq[wk] = Some((Piece::King, Color::White));
        d.sq[bk] = Some((Piece::King, Color::Black));
        let mut ok = true;
        for (p, c) in kit.iter() {
            let s = rng.below(64);
            if d.sq[s].is_some() || (*p == Piece::Pawn && (s < 8 || s >= 56)) {
                ok = false;
                break;
            }
            d.sq[s] = Some((*p, *c));
        }
        if !ok {
            continue;
        }
        d.stm = if rng.chance(1, 2) { Color::White } else { Color::Black };
        if let Some(Some(b)) = guard(|| Board::try_from(&d.builder()).ok()) {
            return Some(b);
        }
    }
    None
}

// ------------------------------------------------------------------ invalid / arbitrary builder states

/// Unfiltered builder state: 2..=64 men, 0..=5 kings per side, random rights, random ep file.
pub fn random_builder_state(rng: &mut Rng) -> BD {
    let mut d = BD::empty();
    let men = match rng.below(5) {
        0 => rng.range(2, 8),
        1 => rng.range(30, 40),
        2 => rng.range(41, 64),
        _ => rng.range(2, 34),
    };
    d.stm = if rng.chance(1, 2) { Color::White } else { Color::Black };
    let kings = |rng: &mut Rng| -> usize {
        match rng.below(10) {
            0 => 0,
            1 => 2,
            2 => rng.range(3, 5),
            _ => 1,
        }
    };
    let wkn = kings(rng);
    let bkn = kings(rng);
    let mut order: Vec<usize> = (0..64).collect();
    rng.shuffle(&mut order);
    let mut it = order.into_iter();
    let home_kings = rng.chance(1, 2);
    for k in 0..wkn {
        let s = if k == 0 && home_kings { 4 } else { it.next().unwrap_or(0) };
        d.sq[s] = Some((Piece::King, Color::White));
    }
    for k in 0..bkn {
        let s = if k == 0 && home_kings { 60 } else { it.next().unwrap_or(63) };
        if d.sq[s].is_none() {
            d.sq[s] = Some((Piece::King, Color::Black));
        }
    }
    let one_sided = rng.chance(1, 6);
    let side_bias = if rng.chance(1, 2) { Color::White } else { Color::Black };
    while d.men() < men {
        let s = match it.next() {
            Some(s) => s,
            None => break,
        };
        if d.sq[s].is_some() {
            continue;
        }
        let c = if one_sided && rng.chance(5, 6) {
            side_bias
        } else if rng.chance(1, 2) {
            Color::White
        } else {
            Color::Black
        };
        let p = ALL_PIECES[rng.below(5)]; // no extra kings here
        d.sq[s] = Some((p, c));
    }
    match rng.below(3) {
        0 => {
            d.wcr = rng.below(4);
            d.bcr = rng.below(4);
        }
        1 => {
            // rights backed by rooks more often than not
            if rng.chance(1, 2) {
                d.wcr = rng.below(4);
                if d.wcr & 1 != 0 && rng.chance(3, 4) { d.sq[7] = Some((Piece::Rook, Color::White)); }
                if d.wcr & 2 != 0 && rng.chance(3, 4) { d.sq[0] = Some((Piece::Rook, Color::White)); }
            }
            if rng.chance(1, 2) {
                d.bcr = rng.below(4);
                if d.bcr & 1 != 0 && rng.chance(3, 4) { d.sq[63] = Some((Piece::Rook, Color::Black)); }
                if d.bcr & 2 != 0 && rng.chance(3, 4) { d.sq[56] = Some((Piece::Rook, Color::Black)); }
            }
        }
        _ => {}
    }
    if rng.chance(1, 3) {
        let f = rng.below(8);
        d.ep = Some(f);
        if rng.chance(1, 2) {
            // make the ep mark plausible
            let (ps, mover) = if d.stm == Color::White { (32 + f, Color::Black) } else { (24 + f, Color::White) };
            if !matches!(d.sq[ps], Some((Piece::King, _))) {
                d.sq[ps] = Some((Piece::Pawn, mover));
            }
        }
    }
    d
}

// ------------------------------------------------------------------ special-move scenarios
//
// Positions built around ONE special move with the kings and a few other men placed where that
// move matters (direct / discovered check by an en-passant capture, a king next to an unmoved rook,
// castling with an attacked transit square, promotion next to the enemy king, double check with
// the king's neighbourhood crowded).  Returned as a short forced chain: the root and the moves to
// play from it; callers emit POS / MAKE for every position of the chain and for every legal move of
// its last position.

fn sqi(rank: usize, file: usize) -> usize { rank * 8 + file }

fn near(rng: &mut Rng, s: usize, radius: i32) -> usize {
    let r = (s / 8) as i32 + rng.below((2 * radius + 1) as usize) as i32 - radius;
    let f = (s % 8) as i32 + rng.below((2 * radius + 1) as usize) as i32 - radius;
    (r.max(0).min(7) * 8 + f.max(0).min(7)) as usize
}

fn sprinkle(rng: &mut Rng, d: &mut BD, count: usize, around: Option<usize>) {
    let kinds = [Piece::Queen, Piece::Rook, Piece::Bishop, Piece::Knight, Piece::Pawn, Piece::Rook, Piece::Bishop, Piece::Knight];
    for _ in 0..count {
        let s = match around { Some(a) if rng.chance(2, 3) => near(rng, a, 2), _ => rng.below(64) };
        if d.sq[s].is_some() { continue; }
        let p = kinds[rng.below(kinds.len())];
        if p == Piece::Pawn && (s < 8 || s >= 56) { continue; }
        let c = if rng.chance(1, 2) { Color::White } else { Color::Black };
        d.sq[s] = Some((p, c));
    }
}


/// Independent of the crate: is square `t` attacked by a man of colour `by` in the builder state?
pub fn bd_attacked(d: &BD, t: usize, by: Color) -> bool {
    let (tr, tf) = ((t / 8) as i32, (t % 8) as i32);
    let at = |r: i32, f: i32| -> Option<Option<(Piece, Color)>> {
        if r < 0 || r >= 8 || f < 0 || f >= 8 { None } else { Some(d.sq[(r * 8 + f) as usize]) }
    };
    for (dr, df) in [(1, 2), (2, 1), (-1, 2), (-2, 1), (1, -2), (2, -1), (-1, -2), (-2, -1)].iter() {
        if at(tr + dr, tf + df) == Some(Some((Piece::Knight, by))) { return true; }
    }
    for dr in -1..=1 {
        for df in -1..=1 {
            if (dr, df) != (0, 0) && at(tr + dr, tf + df) == Some(Some((Piece::King, by))) { return true; }
        }
    }
    // a pawn of `by` attacks diagonally forward: it stands one rank behind the target (from its view)
    let pr = if by == Color::White { tr - 1 } else { tr + 1 };
    for df in [-1, 1].iter() {
        if at(pr, tf + df) == Some(Some((Piece::Pawn, by))) { return true; }
    }
    for (i, (dr, df)) in [(0, 1), (1, 0), (0, -1), (-1, 0), (1, 1), (1, -1), (-1, 1), (-1, -1)].iter().enumerate() {
        let (mut r, mut f) = (tr + dr, tf + df);
        while let Some(x) = at(r, f) {
            if let Some((p, c)) = x {
                if c == by && (p == Piece::Queen || (i < 4 && p == Piece::Rook) || (i >= 4 && p == Piece::Bishop)) { return true; }
                break;
            }
            r += dr; f += df;
        }
    }
    false
}

/// Valid-by-construction set-ups with extreme material for one side: nine to fifteen men of one
/// kind (ten knights, bishops or rooks = the two original ones plus eight promoted pawns; nine
/// queens; and beyond, which the validity conditions of the properties still allow up to 16 men),
/// sometimes with a pawn about to promote to one more.  The crate is NOT consulted: whether it
/// accepts them is what the completeness oracle decides.  `stm_heavy` = the heavy side is to move.
pub fn material_extreme(rng: &mut Rng) -> BD {
    for _ in 0..60 {
        let mut d = BD::empty();
        let white = rng.chance(1, 2);
        let (h, l) = if white { (Color::White, Color::Black) } else { (Color::Black, Color::White) };
        let kind = [Piece::Knight, Piece::Bishop, Piece::Rook, Piece::Queen][rng.below(4)];
        let count = match rng.below(8) { 0 => 9, 1 | 2 | 3 => 10, 4 => 11, 5 => 12, 6 => 15, _ => 9 + rng.below(7) };
        let hk = rng.below(64);
        d.sq[hk] = Some((Piece::King, h));
        let mut placed = 0;
        let mut tries = 0;
        while placed < count && tries < 400 {
            tries += 1;
            let s = rng.below(64);
            if d.sq[s].is_none() { d.sq[s] = Some((kind, h)); placed += 1; }
        }
        // the rest of the sixteen: a few pawns (one of them often on its seventh rank) and other pieces
        let mut men = 1 + placed;
        let seventh = if white { 6 } else { 1 };
        let last = if white { 7 } else { 0 };
        if men < 16 && rng.chance(2, 3) {
            let f = rng.below(8);
            if d.sq[sqi(seventh, f)].is_none() && d.sq[sqi(last, f)].is_none() { d.sq[sqi(seventh, f)] = Some((Piece::Pawn, h)); men += 1; }
        }
        for _ in 0..rng.below(4) {
            if men >= 16 { break; }
            let s = rng.below(64);
            if d.sq[s].is_some() { continue; }
            let p = [Piece::Pawn, Piece::Knight, Piece::Bishop, Piece::Rook, Piece::Queen][rng.below(5)];
            if p == Piece::Pawn && (s < 8 || s >= 56) { continue; }
            d.sq[s] = Some((p, h)); men += 1;
        }
        // light side: king and zero to three men
        let mut lk = rng.below(64);
        let mut t = 0;
        while d.sq[lk].is_some() && t < 50 { lk = rng.below(64); t += 1; }
        if d.sq[lk].is_some() { continue; }
        d.sq[lk] = Some((Piece::King, l));
        for _ in 0..rng.below(4) {
            let s = rng.below(64);
            if d.sq[s].is_some() { continue; }
            let p = [Piece::Pawn, Piece::Knight, Piece::Bishop, Piece::Rook, Piece::Queen][rng.below(5)];
            if p == Piece::Pawn && (s < 8 || s >= 56) { continue; }
            d.sq[s] = Some((p, l));
        }
        d.stm = if rng.chance(1, 2) { h } else { l };
        // valid iff the king of the side NOT to move is not attacked (and the kings are apart)
        let (idle, idle_k) = if d.stm == h { (l, lk) } else { (h, hk) };
        let mover = if idle == h { l } else { h };
        if bd_attacked(&d, idle_k, mover) { continue; }
        return d;
    }
    BD::empty()
}

/// (root, forced first moves). `None` when the random draw is not accepted by the crate / not valid.
pub fn special_scenario(rng: &mut Rng) -> Option<(Board, Vec<ChessMove>)> {
    let kind = rng.below(12);
    if kind >= 10 {
        // extreme material with the heavy side to move (often with a pawn about to promote to one more)
        let mut d = material_extreme(rng);
        for _ in 0..6 { if d.men() >= 2 { break; } d = material_extreme(rng); }
        let b = guard(|| Board::try_from(&d.builder()).ok()).flatten()?;
        if !b.is_sane() { return None; }
        return Some((b, Vec::new()));
    }
    let mut d = BD::empty();
    let white = rng.chance(1, 2);
    let (c, o) = if white { (Color::White, Color::Black) } else { (Color::Black, Color::White) };
    // ranks from the point of view of colour c
    let rk = |r: usize| if white { r } else { 7 - r };
    let mut first: Vec<(usize, usize)> = Vec::new();
    let mut focus: Option<usize> = None;
    match kind {
        0 | 1 => {
            // c double-pushes on file f, an o-pawn on an adjacent file can capture en passant; c's king
            // often stands where the capturing pawn gives check (or is uncovered by the two vanishing pawns)
            let f = rng.below(8);
            let af = if f == 0 { 1 } else if f == 7 { 6 } else if rng.chance(1, 2) { f - 1 } else { f + 1 };
            d.sq[sqi(rk(1), f)] = Some((Piece::Pawn, c));
            d.sq[sqi(rk(3), af)] = Some((Piece::Pawn, o));
            if rng.chance(1, 3) && f > 0 && f < 7 { d.sq[sqi(rk(3), 2 * f - af)] = Some((Piece::Pawn, o)); }
            let landing = sqi(rk(2), f);
            let ck = match rng.below(4) {
                0 => { let kf = if f == 0 { 1 } else if f == 7 { 6 } else if rng.chance(1, 2) { f - 1 } else { f + 1 }; sqi(rk(1), kf) } // checked by the capture
                1 => sqi(rk(3), rng.below(8)),   // on the rank the two pawns leave
                2 => near(rng, landing, 2),
                _ => rng.below(64),
            };
            if d.sq[ck].is_none() { d.sq[ck] = Some((Piece::King, c)); } else { return None; }
            let ok = match rng.below(3) { 0 => near(rng, landing, 3), 1 => sqi(rk(3), rng.below(8)), _ => rng.below(64) };
            if d.sq[ok].is_none() { d.sq[ok] = Some((Piece::King, o)); } else { return None; }
            // sometimes the capturing pawn is pinned: its king and an enemy slider on one line through it
            if rng.chance(1, 3) {
                let psq = sqi(rk(3), af) as i32;
                let dirs = [(0, 1), (1, 0), (0, -1), (-1, 0), (1, 1), (1, -1), (-1, 1), (-1, -1)];
                let mut di = rng.below(8);
                let (mut dr, mut df) = dirs[di];
                // half of the time the pin runs along the CAPTURE diagonal (capturing pawn - passed-over square): the
                // en-passant capture then stays on the pin line and is legal although the pawn is pinned
                if rng.chance(1, 2) {
                    let sgn = if rng.chance(1, 2) { 1 } else { -1 };
                    dr = sgn * (rk(2) as i32 - rk(3) as i32);
                    df = sgn * (f as i32 - af as i32);
                    di = 4;
                }
                let (kd, sd) = (1 + rng.below(3) as i32, 1 + rng.below(3) as i32);
                let (kr, kf) = (psq / 8 + dr * kd, psq % 8 + df * kd);
                let (sr, sf) = (psq / 8 - dr * sd, psq % 8 - df * sd);
                if kr >= 0 && kr < 8 && kf >= 0 && kf < 8 && sr >= 0 && sr < 8 && sf >= 0 && sf < 8 {
                    let (ks, ss) = ((kr * 8 + kf) as usize, (sr * 8 + sf) as usize);
                    // the pusher's path (the two squares in front of the pawn) stays free
                    let on_path = |x: usize| x == sqi(rk(2), f) || x == sqi(rk(3), f);
                    if !on_path(ks) && !on_path(ss) && d.sq[ss].is_none() && (d.sq[ks].is_none() || d.sq[ks] == Some((Piece::King, o))) {
                        // move o's king there (remove the old one)
                        for i in 0..64 { if d.sq[i] == Some((Piece::King, o)) { d.sq[i] = None; } }
                        d.sq[ks] = Some((Piece::King, o));
                        let p = if di < 4 { if rng.chance(1, 2) { Piece::Rook } else { Piece::Queen } } else { if rng.chance(1, 2) { Piece::Bishop } else { Piece::Queen } };
                        d.sq[ss] = Some((p, c));
                    }
                }
            }
            // sometimes o's king and one of c's rooks / queens stand on the PUSHED PAWN'S FILE on either side of it: the
            // pushed pawn shields the king, and after the en-passant capture the capturing pawn (landing on that file)
            // still does - the capture is legal, and only an occupancy that forgets the landing square says otherwise
            if rng.chance(1, 5) {
                let far: Vec<usize> = (4..8).map(|r| sqi(rk(r), f)).filter(|x| d.sq[*x].is_none()).collect();
                let home = sqi(rk(0), f);
                if !far.is_empty() && d.sq[home].is_none() {
                    let fs = far[rng.below(far.len())];
                    let (ks, ss) = if rng.chance(2, 3) { (fs, home) } else { (home, fs) };
                    for i in 0..64 { if d.sq[i] == Some((Piece::King, o)) { d.sq[i] = None; } }
                    d.sq[ks] = Some((Piece::King, o));
                    d.sq[ss] = Some((if rng.chance(1, 2) { Piece::Rook } else { Piece::Queen }, c));
                }
            }
            // sometimes the double push itself UNCOVERS a check: o's king and one of c's sliders on a line through the
            // pawn's start square (its home rank, or a diagonal) with only that pawn between them - the en-passant
            // capture is then offered to a side that is in check by a slider on another line
            if rng.chance(1, 4) {
                let start_sq = sqi(rk(1), f) as i32;
                let dirs = [(0, 1), (0, -1), (1, 1), (1, -1), (-1, 1), (-1, -1)];
                let di = rng.below(6);
                let (dr, df) = dirs[di];
                let (kd, sd) = (1 + rng.below(4) as i32, 1 + rng.below(4) as i32);
                let (kr, kf) = (start_sq / 8 + dr * kd, start_sq % 8 + df * kd);
                let (sr, sf) = (start_sq / 8 - dr * sd, start_sq % 8 - df * sd);
                if kr >= 0 && kr < 8 && kf >= 0 && kf < 8 && sr >= 0 && sr < 8 && sf >= 0 && sf < 8 {
                    let (ks, ss) = ((kr * 8 + kf) as usize, (sr * 8 + sf) as usize);
                    let mut clear = d.sq[ss].is_none() && (d.sq[ks].is_none() || d.sq[ks] == Some((Piece::King, o)));
                    for t in 1..kd { let q = ((start_sq / 8 + dr * t) * 8 + start_sq % 8 + df * t) as usize; if d.sq[q].is_some() { clear = false; } }
                    for t in 1..sd { let q = ((start_sq / 8 - dr * t) * 8 + start_sq % 8 - df * t) as usize; if d.sq[q].is_some() { clear = false; } }
                    if clear {
                        for i in 0..64 { if d.sq[i] == Some((Piece::King, o)) { d.sq[i] = None; } }
                        d.sq[ks] = Some((Piece::King, o));
                        let p = if di < 2 { if rng.chance(1, 2) { Piece::Rook } else { Piece::Queen } } else { if rng.chance(1, 2) { Piece::Bishop } else { Piece::Queen } };
                        d.sq[ss] = Some((p, c));
                    }
                }
            }
            let extra = rng.below(5); sprinkle(rng, &mut d, extra, Some(landing));
            first.push((sqi(rk(1), f), sqi(rk(3), f)));
            focus = Some(landing);
        }
        8 | 9 => {
            // both full armies; o's men all mobile (every pawn advanced one step, two of them on the
            // fifth rank beside the file on which c now double-pushes): 16 mobile men plus two
            // en-passant captures = the 18-entry limit of the move list
            let f = 1 + rng.below(6);
            let back = [Piece::Rook, Piece::Knight, Piece::Bishop, Piece::Queen, Piece::King, Piece::Bishop, Piece::Knight, Piece::Rook];
            let ork = |r: usize| if white { 7 - r } else { r };   // ranks from o's point of view
            for file in 0..8 {
                d.sq[sqi(rk(0), file)] = Some((back[file], c));
                d.sq[sqi(rk(1), file)] = Some((Piece::Pawn, c));
                d.sq[sqi(ork(0), file)] = Some((back[file], o));
                let r = if file + 1 == f || file == f + 1 { 4 } else { 2 };
                d.sq[sqi(ork(r), file)] = Some((Piece::Pawn, o));
            }
            d.wcr = 3; d.bcr = 3;
            if rng.chance(1, 2) {
                // thin out c's army a little (keeps o's 18 entries)
                for _ in 0..rng.below(4) { let s = sqi(rk(0), [1usize, 2, 3, 5, 6][rng.below(5)]); d.sq[s] = None; }
            }
            d.stm = c;
            first.push((sqi(rk(1), f), sqi(rk(3), f)));
            focus = Some(sqi(rk(2), f));
        }
        2 => {
            // a king next to an unmoved rook whose owner still has the right; king on its home square
            let ks = rng.chance(1, 2);
            let home = rk(0);
            d.sq[sqi(home, 4)] = Some((Piece::King, c));
            let rf = if ks { 7 } else { 0 };
            d.sq[sqi(home, rf)] = Some((Piece::Rook, c));
            if rng.chance(1, 2) { d.sq[sqi(home, 7 - rf)] = Some((Piece::Rook, c)); }
            let rook_sq = sqi(home, rf);
            let ok = near(rng, rook_sq, 1);
            if d.sq[ok].is_none() { d.sq[ok] = Some((Piece::King, o)); } else { return None; }
            if white { d.wcr = if ks { 1 } else { 2 }; } else { d.bcr = if ks { 1 } else { 2 }; }
            if d.sq[sqi(home, 7 - rf)].is_some() { if white { d.wcr = 3 } else { d.bcr = 3 } }
            let extra = rng.below(4); sprinkle(rng, &mut d, extra, None);
            d.stm = if rng.chance(2, 3) { o } else { c };
            focus = Some(rook_sq);
        }
        3 => {
            // castling with attackers aimed at the king's path
            let home = rk(0);
            d.sq[sqi(home, 4)] = Some((Piece::King, c));
            d.sq[sqi(home, 0)] = Some((Piece::Rook, c));
            d.sq[sqi(home, 7)] = Some((Piece::Rook, c));
            if white { d.wcr = 3 } else { d.bcr = 3 }
            let ok = sqi(rk(7), rng.below(8));
            d.sq[ok] = Some((Piece::King, o));
            for _ in 0..(1 + rng.below(3)) {
                let file = rng.below(8);
                let s = sqi(rk(2 + rng.below(5)), file);
                if d.sq[s].is_none() { d.sq[s] = Some(([Piece::Rook, Piece::Bishop, Piece::Queen, Piece::Knight][rng.below(4)], o)); }
            }
            d.stm = c;
            focus = Some(sqi(home, 4));
        }
        4 => {
            // promotion (quiet and capturing) next to the enemy king, sometimes with the pawn pinned
            let f = rng.below(8);
            d.sq[sqi(rk(6), f)] = Some((Piece::Pawn, c));
            let last = sqi(rk(7), f);
            let ok = near(rng, last, 2);
            if d.sq[ok].is_none() && ok != last { d.sq[ok] = Some((Piece::King, o)); } else { return None; }
            let ck = match rng.below(3) { 0 => near(rng, sqi(rk(6), f), 2), _ => rng.below(64) };
            if d.sq[ck].is_none() { d.sq[ck] = Some((Piece::King, c)); } else { return None; }
            if f > 0 && rng.chance(1, 2) && d.sq[sqi(rk(7), f - 1)].is_none() { d.sq[sqi(rk(7), f - 1)] = Some(([Piece::Rook, Piece::Bishop, Piece::Knight, Piece::Queen][rng.below(4)], o)); }
            if f < 7 && rng.chance(1, 2) && d.sq[sqi(rk(7), f + 1)].is_none() { d.sq[sqi(rk(7), f + 1)] = Some(([Piece::Rook, Piece::Bishop, Piece::Knight, Piece::Queen][rng.below(4)], o)); }
            let extra = rng.below(4); sprinkle(rng, &mut d, extra, Some(last));
            d.stm = c;
            focus = Some(last);
        }
        6 | 7 => {
            // o's king is in double check right now (knight + slider, or two sliders), its neighbourhood
            // crowded with c's men, some of them unprotected: the only replies may be king captures
            let ok = rng.below(64);
            d.sq[ok] = Some((Piece::King, o));
            let (kr, kf) = ((ok / 8) as i32, (ok % 8) as i32);
            let mut placed = 0;
            if rng.chance(2, 3) {
                let offs = [(1, 2), (2, 1), (-1, 2), (-2, 1), (1, -2), (2, -1), (-1, -2), (-2, -1)];
                let (dr, df) = offs[rng.below(8)];
                let (r, f) = (kr + dr, kf + df);
                if r >= 0 && r < 8 && f >= 0 && f < 8 { d.sq[(r * 8 + f) as usize] = Some((Piece::Knight, c)); placed += 1; }
            }
            let dirs = [(0, 1), (1, 0), (0, -1), (-1, 0), (1, 1), (1, -1), (-1, 1), (-1, -1)];
            let mut guard_i = 0;
            while placed < 2 && guard_i < 12 {
                guard_i += 1;
                let di = rng.below(8);
                let (dr, df) = dirs[di];
                let dist = 1 + rng.below(4) as i32;
                let (r, f) = (kr + dr * dist, kf + df * dist);
                if r < 0 || r >= 8 || f < 0 || f >= 8 { continue; }
                // path must be empty
                let mut clear = true;
                for t in 1..dist { if d.sq[((kr + dr * t) * 8 + kf + df * t) as usize].is_some() { clear = false; } }
                let s = (r * 8 + f) as usize;
                if !clear || d.sq[s].is_some() { continue; }
                let p = if di < 4 { if rng.chance(1, 2) { Piece::Rook } else { Piece::Queen } } else { if rng.chance(1, 2) { Piece::Bishop } else { Piece::Queen } };
                d.sq[s] = Some((p, c));
                placed += 1;
            }
            let mut ck = rng.below(64);
            let mut tries = 0;
            while (d.sq[ck].is_some() || ((ck / 8) as i32 - kr).abs() <= 1 && ((ck % 8) as i32 - kf).abs() <= 1) && tries < 30 { ck = rng.below(64); tries += 1; }
            if d.sq[ck].is_some() { return None; }
            d.sq[ck] = Some((Piece::King, c));
            let kinds = [Piece::Rook, Piece::Bishop, Piece::Knight, Piece::Queen, Piece::Pawn];
            for _ in 0..(1 + rng.below(5)) {
                let s = near(rng, ok, 2);
                // do not block the checking rays: only squares not aligned strictly between are rarely hit; accept blocking
                if d.sq[s].is_none() { let p = kinds[rng.below(kinds.len())]; if !(p == Piece::Pawn && (s < 8 || s >= 56)) { d.sq[s] = Some((p, c)); } }
            }
            for _ in 0..rng.below(3) {
                let s = near(rng, ok, 2);
                if d.sq[s].is_none() { let p = [Piece::Pawn, Piece::Knight, Piece::Bishop, Piece::Rook][rng.below(4)]; if !(p == Piece::Pawn && (s < 8 || s >= 56)) { d.sq[s] = Some((p, o)); } }
            }
            d.stm = o;
            focus = Some(ok);
        }
        _ => {
            // a crowded neighbourhood of o's king with c to move: discovered / double checks,
            // contact checks that can only be answered by capturing
            let ok = rng.below(64);
            d.sq[ok] = Some((Piece::King, o));
            let mut ck = rng.below(64);
            let mut tries = 0;
            while (d.sq[ck].is_some() || ((ck / 8) as i32 - (ok / 8) as i32).abs() <= 1 && ((ck % 8) as i32 - (ok % 8) as i32).abs() <= 1) && tries < 20 { ck = rng.below(64); tries += 1; }
            if d.sq[ck].is_some() { return None; }
            d.sq[ck] = Some((Piece::King, c));
            let kinds = [Piece::Queen, Piece::Rook, Piece::Bishop, Piece::Knight, Piece::Knight, Piece::Rook];
            for _ in 0..(3 + rng.below(4)) {
                let s = near(rng, ok, 3);
                if d.sq[s].is_none() { d.sq[s] = Some((kinds[rng.below(kinds.len())], c)); }
            }
            for _ in 0..rng.below(3) {
                let s = near(rng, ok, 2);
                if d.sq[s].is_none() { let p = [Piece::Pawn, Piece::Knight, Piece::Bishop][rng.below(3)]; if !(p == Piece::Pawn && (s < 8 || s >= 56)) { d.sq[s] = Some((p, o)); } }
            }
            d.stm = c;
            focus = Some(ok);
        }
    }
    let _ = focus;
    if kind <= 1 { d.stm = c; }
    let b = guard(|| Board::try_from(&d.builder()).ok()).flatten()?;
    if !b.is_sane() { return None; }
    let mut moves = Vec::new();
    let mut cur = b;
    for (s, t) in first {
        let m = ChessMove::new(unsafe_sq(s), unsafe_sq(t), None);
        if !guard(|| cur.legal(m)).unwrap_or(false) { return None; }
        moves.push(m);
        cur = guard(|| cur.make_move_new(m))?;
    }
    Some((b, moves))
}

fn unsafe_sq(i: usize) -> Square { chess::ALL_SQUARES[i & 63] }

// ------------------------------------------------------------------ no-move positions with extra men
//
// Stalemates (and mates) in which the side to move owns more than a bare king: pawns blocked by enemy
// pawns, knights and bishops boxed in by their own immobile men, a king in a corner.  Found by
// rejection sampling in a biased family (the crate only SELECTS candidates; the oracle is independent).

pub fn synth_no_move_position(rng: &mut Rng, tries: usize) -> Option<Board> {
    for _ in 0..tries {
        let mut d = BD::empty();
        let white = rng.chance(1, 2);
        let (c, o) = if white { (Color::White, Color::Black) } else { (Color::Black, Color::White) };
        let rk = |r: usize| if white { r } else { 7 - r };
        // c's king near a corner / edge
        let kf = [0usize, 0, 1, 6, 7, 7, rng.below(8)][rng.below(7)];
        let kr = [0usize, 0, 0, 1, 7, rng.below(8)][rng.below(6)];
        let ks = rk(kr) * 8 + kf;
        d.sq[ks] = Some((Piece::King, c));
        // blocked pawn pairs: c pawn with an o pawn right in front of it
        for _ in 0..(1 + rng.below(4)) {
            let f = rng.below(8);
            let r = 1 + rng.below(5);
            let (a, b) = (rk(r) * 8 + f, rk(r + 1) * 8 + f);
            if d.sq[a].is_none() && d.sq[b].is_none() { d.sq[a] = Some((Piece::Pawn, c)); d.sq[b] = Some((Piece::Pawn, o)); }
        }
        // a knight or bishop of c close to its own king / pawns
        for _ in 0..rng.below(3) {
            let s = near(rng, ks, 2);
            if d.sq[s].is_none() { d.sq[s] = Some(([Piece::Knight, Piece::Knight, Piece::Bishop][rng.below(3)], c)); }
        }
        // box the knights: every square a c-knight could jump to gets an own blocked pawn (an o pawn
        // right in front of it) where that is possible
        if rng.chance(2, 3) {
            let offs = [(1i32, 2i32), (2, 1), (-1, 2), (-2, 1), (1, -2), (2, -1), (-1, -2), (-2, -1)];
            for s in 0..64usize {
                if d.sq[s] != Some((Piece::Knight, c)) { continue; }
                for (dr, df) in offs.iter() {
                    let (r, f) = ((s / 8) as i32 + dr, (s % 8) as i32 + df);
                    if r < 0 || r >= 8 || f < 0 || f >= 8 { continue; }
                    let t = (r * 8 + f) as usize;
                    if d.sq[t].is_some() { continue; }
                    // pawn of c on t, o pawn one step further in c's direction
                    let ahead = if white { t + 8 } else { t.wrapping_sub(8) };
                    if t >= 8 && t < 56 && ahead < 64 && ahead >= 8 && ahead < 56 && d.sq[ahead].is_none() {
                        d.sq[t] = Some((Piece::Pawn, c));
                        d.sq[ahead] = Some((Piece::Pawn, o));
                    } else if d.sq[t].is_none() && rng.chance(1, 2) {
                        // a bishop of c hemmed in is too much to ask: leave the square; the candidate may fail
                    }
                }
            }
        }
        // o: king and one to three pieces taking away the squares around c's king
        let oks = near(rng, ks, 3);
        if d.sq[oks].is_none() { d.sq[oks] = Some((Piece::King, o)); } else { continue; }
        for _ in 0..(1 + rng.below(3)) {
            let s = near(rng, ks, 3);
            if d.sq[s].is_none() { d.sq[s] = Some(([Piece::Queen, Piece::Rook, Piece::Knight, Piece::Bishop, Piece::Queen][rng.below(5)], o)); }
        }
        d.stm = c;
        if let Some(Some(b)) = guard(|| Board::try_from(&d.builder()).ok()) {
            if b.is_sane() && moves_of(&b).map(|v| v.is_empty()).unwrap_or(false) && b.color_combined(c).popcnt() >= 3 {
                return Some(b);
            }
        }
    }
    None
}
