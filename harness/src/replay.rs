//! `harness replay`: recompute full lines from their input part against the current crate.

use crate::enc::*;
use crate::ops;
use crate::props;
use crate::tables;
use chess::Board;

fn board(tok: &str) -> Result<Board, &'static str> {
    let d = Dump::parse(tok).ok_or("BADLINE")?;
    d.rebuild().ok_or("REPLAY-MISMATCH")
}

/// The input part of a line (text before ` => `, or the whole line) -> the recomputed full line.
pub fn eval(input: &str) -> String {
    let input = match input.find(" => ") {
        Some(i) => &input[..i],
        None => input.trim_end(),
    };
    let t: Vec<&str> = input.split(' ').collect();
    let bad = |why: &str| format!("{} => {}", input, why);
    let need = |n: usize| t.len() == n;
    macro_rules! brd {
        ($tok:expr) => {
            match board($tok) {
                Ok(b) => b,
                Err(e) => return bad(e),
            }
        };
    }
    macro_rules! some {
        ($e:expr) => {
            match $e {
                Some(x) => x,
                None => return bad("BADLINE"),
            }
        };
    }
    match t[0] {
        "POS" if need(2) => ops::pos(&brd!(t[1])),
        "LEGAL" if need(2) => ops::legal(&brd!(t[1])),
        "MAKE" if need(3) => ops::make(&brd!(t[1]), some!(parse_mv(t[2]))).0,
        "NULL" if need(2) => ops::null(&brd!(t[1])).0,
        "EDIT" if need(3) => ops::edit(&brd!(t[1]), t[2]),
        "FENP" if need(2) => ops::fenp(&some!(unhex_text(t[1]))),
        "BLD" if need(2) => ops::bld(&some!(BD::parse(t[1]))),
        "BFEN" if need(2) => ops::bfen(&some!(BD::parse(t[1]))),
        "BPARSE" if need(2) => ops::bparse(&some!(unhex_text(t[1]))),
        "SAN" if need(4) => {
            if t[3] != "?" && t[3] != "!" && parse_mv(t[3]).is_none() {
                return bad("BADLINE");
            }
            ops::san(&brd!(t[1]), &some!(unhex_text(t[2])), t[3])
        }
        "UCI" if need(2) => ops::uci(&some!(unhex_text(t[1]))),
        "SQ" if need(2) => ops::sqp(&some!(unhex_text(t[1]))),
        "SHOWM" if need(4) => {
            let s = some!(parse_sq(t[1])).to_index();
            let d = some!(parse_sq(t[2])).to_index();
            ops::showm(s, d, some!(ops::parse_promo_tok(t[3])))
        }
        "SHOWSQ" if need(2) => ops::showsq(some!(parse_sq(t[1])).to_index()),
        "GEN" if need(3) => ops::gen(&brd!(t[1]), &some!(ops::parse_genprog(t[2]))),
        "GAME" if need(3) => ops::game(&brd!(t[1]), &some!(ops::parse_acts(t[2]))),
        "CACHE" if need(3) => {
            let size: u64 = some!(t[1].parse().ok());
            ops::cache(size, &some!(ops::parse_cacheprog(t[2])))
        }
        "TBL" => tables::tbl(&t[1..]),
        "ROOK" | "BISHOP" | "ROOKBMI" | "BISHOPBMI" if need(3) => {
            let s = some!(parse_sq(t[1])).to_index();
            let occ = some!(parse_hex(t[2]));
            match tables::slider(t[0], s, occ) {
                Some(l) => l,
                None => bad("UNAVAILABLE"),
            }
        }
        "BB" if need(4) => tables::bbop(t[1], some!(parse_hex(t[2])), some!(parse_hex(t[3]))),
        "BBITER" if need(2) => tables::bbiter(some!(parse_hex(t[1]))),
        "BBCNT" if need(2) => tables::bbcnt(some!(parse_hex(t[1]))),
        "BBTOSQ" if need(2) => tables::bbtosq(some!(parse_hex(t[1]))),
        "BBREV" if need(2) => tables::bbrev(some!(parse_hex(t[1]))),
        "BBFROMSQ" if need(2) => tables::bbfromsq(some!(parse_sq(t[1])).to_index()),
        "BBSET" if need(3) => {
            let r: usize = some!(t[1].parse().ok());
            let f: usize = some!(t[2].parse().ok());
            if r > 7 || f > 7 {
                return bad("BADLINE");
            }
            tables::bbset(r, f)
        }
        "SYM" if need(3) && (t[1] == "m" || t[1] == "f") => {
            ops::sym(some!(t[1].chars().next()), &brd!(t[2]))
        }
        "VAR" if need(4) => ops::var(&brd!(t[1]), &brd!(t[2]), t[3]),
        "COLL" if need(2) => props::coll(some!(t[1].parse().ok())),
        _ => bad("BADLINE"),
    }
}
