//! Operation programs for GEN (MoveGen), GAME and CACHE lines.

use crate::enc::*;
use crate::gens::{choose_move, classify, is_reversible, Style};
use crate::ops::{moves_of, Act, CacheOp, GenOp, Pred};
use crate::rng::Rng;
use chess::{Board, ChessMove, Color, Piece};

// ------------------------------------------------------------------ GEN

fn random_move(rng: &mut Rng) -> ChessMove {
    let p = match rng.below(8) {
        0 => Some(Piece::Queen),
        1 => Some(Piece::Knight),
        _ => None,
    };
    ChessMove::new(sq(rng.below(64)), sq(rng.below(64)), p)
}

fn interesting_removal(rng: &mut Rng, b: &Board, ms: &[ChessMove]) -> ChessMove {
    // ep captures and promotions are over-represented among removed moves
    let special: Vec<ChessMove> = ms
        .iter()
        .cloned()
        .filter(|m| {
            let i = classify(b, *m);
            i.ep || i.promo || i.castle
        })
        .collect();
    // a pawn that has an ep capture: also its ordinary moves
    let ep_src: Vec<ChessMove> = ms
        .iter()
        .cloned()
        .filter(|m| special.iter().any(|s| classify(b, *s).ep && s.get_source() == m.get_source()))
        .collect();
    if !ep_src.is_empty() && rng.chance(1, 3) {
        return ep_src[rng.below(ep_src.len())];
    }
    if !special.is_empty() && rng.chance(1, 2) {
        return special[rng.below(special.len())];
    }
    if ms.is_empty() || rng.chance(1, 10) {
        return random_move(rng);
    }
    ms[rng.below(ms.len())]
}

fn mask_sequence(rng: &mut Rng, b: &Board, ms: &[ChessMove]) -> Vec<u64> {
    let targets = b.color_combined(!b.side_to_move()).0;
    let dests: u64 = ms.iter().fold(0, |a, m| a | (1u64 << m.get_dest().to_index()));
    match rng.below(7) {
        0 => vec![targets, !0],
        1 => vec![targets, !targets],
        2 => {
            let a = rng.next_u64();
            vec![a, !a]
        }
        3 => {
            let a = rng.next_u64();
            let b2 = rng.next_u64();
            vec![a & b2, a & !b2, !a & b2, !a & !b2]
        }
        4 => {
            // overlapping masks, then everything
            vec![rng.next_u64(), rng.next_u64(), !0]
        }
        5 => {
            // one destination at a time for a few destinations, then the rest
            let mut v = Vec::new();
            let mut dd = dests;
            let mut k = 0;
            while dd != 0 && k < 4 {
                let low = dd & dd.wrapping_neg();
                v.push(low);
                dd ^= low;
                k += 1;
            }
            v.push(0);
            v.push(!0);
            v
        }
        _ => vec![!0],
    }
}

fn drain_ops(rng: &mut Rng, prog: &mut Vec<GenOp>, upper: usize) {
    // `L`/`H` before every `N`, until the generator says `-` (upper bound on the count is the
    // number of legal moves; the final N is expected to return `-`)
    if rng.chance(1, 3) {
        prog.push(GenOp::L);
        prog.push(GenOp::H);
        prog.push(GenOp::D);
        prog.push(GenOp::L);
        prog.push(GenOp::N);
        return;
    }
    for _ in 0..(upper + 1) {
        prog.push(GenOp::L);
        if rng.chance(1, 2) {
            prog.push(GenOp::H);
        }
        prog.push(GenOp::N);
    }
    prog.push(GenOp::L);
    prog.push(GenOp::D);
}

/// A program within the contract's scope: removals only before iteration, a mask is changed only
/// after the previous one has been drained.
pub fn gen_program(rng: &mut Rng, b: &Board) -> Vec<GenOp> {
    let ms = moves_of(b).unwrap_or_default();
    let mut prog = Vec::new();
    let kind = rng.below(4);
    if kind >= 2 {
        // removals first
        let n = 1 + rng.below(4);
        for _ in 0..n {
            if rng.chance(1, 4) {
                let m = match rng.below(3) {
                    0 => rng.next_u64() & rng.next_u64(),
                    1 => b.color_combined(!b.side_to_move()).0,
                    _ => 1u64 << rng.below(64),
                };
                prog.push(GenOp::Y(m));
            } else {
                prog.push(GenOp::X(interesting_removal(rng, b, &ms)));
            }
        }
        prog.push(GenOp::L);
        prog.push(GenOp::H);
    }
    let masks = if kind == 2 { vec![!0u64] } else { mask_sequence(rng, b, &ms) };
    let mut first_mask = true;
    for m in masks {
        // staged use (captures first, then drop the hash move, then the rest): a removal made BETWEEN two masks,
        // i.e. after the previous mask was exhausted and before the next one is set, is "beforehand" too
        if !first_mask && rng.chance(1, 3) {
            let n = 1 + rng.below(2);
            for _ in 0..n {
                if rng.chance(1, 4) {
                    let mm = match rng.below(3) {
                        0 => rng.next_u64() & rng.next_u64(),
                        1 => m & rng.next_u64(),
                        _ => 1u64 << rng.below(64),
                    };
                    prog.push(GenOp::Y(mm));
                } else {
                    let inmask: Vec<ChessMove> = ms.iter().cloned().filter(|x| (1u64 << x.get_dest().to_index()) & m != 0).collect();
                    if !inmask.is_empty() && rng.chance(2, 3) {
                        prog.push(GenOp::X(inmask[rng.below(inmask.len())]));
                    } else {
                        prog.push(GenOp::X(interesting_removal(rng, b, &ms)));
                    }
                }
            }
            if rng.chance(1, 2) {
                prog.push(GenOp::L);
            }
        }
        first_mask = false;
        if rng.chance(1, 6) {
            // a mask that is set and replaced again before anything is yielded under it (sometimes queried)
            let junk = match rng.below(3) { 0 => 0u64, 1 => rng.next_u64(), _ => !m };
            prog.push(GenOp::K(junk));
            if rng.chance(1, 2) {
                prog.push(GenOp::L);
            }
        }
        prog.push(GenOp::K(m));
        // removals are also "beforehand" when they come after a mask was set (or after the previous
        // mask was exhausted) but before any move is yielded under it
        if rng.chance(1, 3) {
            let n = 1 + rng.below(3);
            for _ in 0..n {
                if rng.chance(1, 3) {
                    let mm = match rng.below(3) {
                        0 => rng.next_u64() & rng.next_u64(),
                        1 => m & rng.next_u64(),
                        _ => 1u64 << rng.below(64),
                    };
                    prog.push(GenOp::Y(mm));
                } else {
                    // prefer a move landing in the mask
                    let inmask: Vec<ChessMove> = ms.iter().cloned().filter(|x| (1u64 << x.get_dest().to_index()) & m != 0).collect();
                    if !inmask.is_empty() && rng.chance(2, 3) {
                        prog.push(GenOp::X(inmask[rng.below(inmask.len())]));
                    } else {
                        prog.push(GenOp::X(interesting_removal(rng, b, &ms)));
                    }
                }
            }
            prog.push(GenOp::L);
            prog.push(GenOp::H);
        }
        let under = ms.iter().filter(|x| (1u64 << x.get_dest().to_index()) & m != 0).count();
        let bound = if rng.chance(1, 4) { 6 } else { 300 };
        drain_ops(rng, &mut prog, under.min(bound));
        // when the bounded N-loop did not exhaust the mask, D at the end of drain_ops does
    }
    prog
}

// ------------------------------------------------------------------ GAME (C10)

fn illegal_move(rng: &mut Rng, b: &Board, ms: &[ChessMove]) -> ChessMove {
    for _ in 0..20 {
        let m = match rng.below(4) {
            0 => random_move(rng),
            1 => {
                // a legal move with a promotion piece added / removed
                if ms.is_empty() {
                    random_move(rng)
                } else {
                    let x = ms[rng.below(ms.len())];
                    let p = if x.get_promotion().is_some() { None } else { Some(Piece::Queen) };
                    ChessMove::new(x.get_source(), x.get_dest(), p)
                }
            }
            2 => {
                // move an enemy man
                let them = b.color_combined(!b.side_to_move()).0;
                if them == 0 {
                    random_move(rng)
                } else {
                    let mut s = rng.below(64);
                    while them & (1u64 << s) == 0 {
                        s = (s + 1) & 63;
                    }
                    ChessMove::new(sq(s), sq(rng.below(64)), None)
                }
            }
            _ => {
                // reverse of a legal move
                if ms.is_empty() {
                    random_move(rng)
                } else {
                    let x = ms[rng.below(ms.len())];
                    ChessMove::new(x.get_dest(), x.get_source(), None)
                }
            }
        };
        if !ms.contains(&m) {
            return m;
        }
    }
    random_move(rng)
}

fn col(rng: &mut Rng) -> Color {
    if rng.chance(1, 2) { Color::White } else { Color::Black }
}

/// Random / adversarial action program. The harness tracks the board itself (legal moves are
/// assumed accepted while no result-bearing action has been emitted) only to pick plausible moves;
/// the truth is whatever the crate answers.
pub fn game_program(rng: &mut Rng, start: &Board, len: usize) -> Vec<Act> {
    let mut acts = Vec::new();
    let mut b = *start;
    let mut over = false;
    let style = if rng.chance(1, 3) { Style::Terminal } else { Style::Tactical };
    let end_kind = rng.below(6);
    let mut i = 0;
    while i < len {
        i += 1;
        let ms = moves_of(&b).unwrap_or_default();
        if ms.is_empty() {
            over = true;
        }
        let r = rng.below(100);
        if over {
            // actions after the end: everything must be refused
            acts.push(match rng.below(8) {
                0 => Act::Offer(col(rng)),
                1 => Act::Accept,
                2 => Act::Resign(col(rng)),
                3 => Act::Declare,
                4 => Act::Can,
                5 if !ms.is_empty() => Act::M(ms[rng.below(ms.len())]),
                _ => Act::M(illegal_move(rng, &b, &ms)),
            });
            if acts.len() > len + 6 {
                break;
            }
            continue;
        }
        if r < 70 {
            let m = choose_move(rng, &b, &ms, style);
            acts.push(Act::M(m));
            if let Some(n) = guard(|| b.make_move_new(m)) {
                b = n;
            }
        } else if r < 78 {
            acts.push(Act::M(illegal_move(rng, &b, &ms)));
        } else if r < 83 {
            acts.push(Act::Offer(col(rng)));
            // often followed by a move and/or an accept
            match rng.below(10) {
                0 => {
                    acts.push(Act::Accept);
                    over = true;
                }
                1 | 2 => {
                    let m = choose_move(rng, &b, &ms, style);
                    acts.push(Act::M(m));
                    if let Some(n) = guard(|| b.make_move_new(m)) {
                        b = n;
                    }
                    if rng.chance(1, 2) {
                        acts.push(Act::Accept); // may or may not be in time
                        // whether this ended the game depends on who offered: keep playing; later
                        // actions then probe "after the end" when it did
                    }
                }
                _ => {}
            }
        } else if r < 87 {
            acts.push(Act::Accept); // premature accept
        } else if r < 93 {
            acts.push(Act::Can);
        } else if r < 96 {
            acts.push(Act::Declare);
        } else if i * 3 > len {
            match end_kind {
                0 | 1 => {
                    acts.push(Act::Resign(col(rng)));
                    over = true;
                }
                2 => {
                    acts.push(Act::Offer(col(rng)));
                    acts.push(Act::Accept);
                    over = true;
                }
                _ => {}
            }
        }
    }
    if !over {
        acts.push(Act::Can);
        acts.push(Act::Declare);
        if rng.chance(1, 3) {
            acts.push(Act::Resign(col(rng)));
            acts.push(Act::Offer(col(rng)));
            acts.push(Act::Can);
        }
    }
    acts
}

// ------------------------------------------------------------------ GAME (C11): long reversible histories

pub struct DrawPlan {
    /// number of reversible half-moves to reach (98..=102 for the boundary, smaller for shuffles)
    pub target: usize,
    /// ply at which a castling right is given up by a king/rook move (if the position has rights)
    pub lose_rights_at: Option<usize>,
    /// ply at which one irreversible move (pawn move or capture) is inserted
    pub irreversible_at: Option<usize>,
    /// percentage of plies that undo the mover's previous move (creates repetitions)
    pub undo_pct: usize,
    /// from this ply on, a move that mates or stalemates is played as soon as one exists and the
    /// history ends there (a finished game exactly at / around the fifty-move boundary)
    pub finish_terminal_from: Option<usize>,
    /// `c` (can_declare_draw) after every `query_every`-th move (1 = after every move)
    pub query_every: usize,
    /// moves played first, whatever they are (e.g. the double push of an en-passant scenario)
    pub prefix: Vec<ChessMove>,
    /// which irreversible move to prefer at `irreversible_at`: 0 en passant, 1 capture by a pawn,
    /// 2 capture by a piece, 3 single pawn push, 4 double push, 5 promotion, 6 anything
    pub irreversible_kind: usize,
}

/// Builds `m…;c;m…;c;…;d` with `c` after every action.
/// A history whose third occurrence of the start position lies FAR from the first two, inside one quiet stretch:
/// a short loop (each side one reversible move out and back: second occurrence after 4 half-moves), then a long loop
/// (each side `k` reversible moves out, then the same moves undone in reverse order: third occurrence after 4 + 4k
/// half-moves, 13 <= k <= 23, so the fifty-move count stays below 100).  `can_declare_draw` is queried after every move.
/// `None` when an undo is not legal on the way back (a slider's way home blocked, a check) - the caller tries again.
pub fn far_repetition_program(rng: &mut Rng, start: &Board) -> Option<Vec<Act>> {
    fn walk(rng: &mut Rng, b0: &Board, k: usize, acts: &mut Vec<Act>) -> Option<Board> {
        let mut b = *b0;
        let mut outw: [Vec<ChessMove>; 2] = [Vec::new(), Vec::new()];
        for _ in 0..(2 * k) {
            let ms = moves_of(&b)?;
            let me = b.side_to_move().to_index();
            // reversible, and not the undo of the mover's previous move (the walk should wander)
            let cand: Vec<ChessMove> = ms
                .iter()
                .cloned()
                .filter(|m| is_reversible(&b, *m) && b.castle_rights(b.side_to_move()).to_index() == 0 || {
                    let p = b.piece_on(m.get_source());
                    is_reversible(&b, *m) && p != Some(Piece::King) && p != Some(Piece::Rook)
                })
                .filter(|m| outw[me].last().map(|l| !(l.get_source() == m.get_dest() && l.get_dest() == m.get_source())).unwrap_or(true))
                .collect();
            if cand.is_empty() {
                return None;
            }
            let m = cand[rng.below(cand.len())];
            acts.push(Act::M(m));
            acts.push(Act::Can);
            outw[me].push(m);
            b = guard(|| b.make_move_new(m))?;
        }
        // back: each side undoes its own moves in reverse order
        for _ in 0..(2 * k) {
            let me = b.side_to_move().to_index();
            let l = outw[me].pop()?;
            let u = ChessMove::new(l.get_dest(), l.get_source(), None);
            if !guard(|| b.legal(u)).unwrap_or(false) || !is_reversible(&b, u) {
                return None;
            }
            acts.push(Act::M(u));
            acts.push(Act::Can);
            b = guard(|| b.make_move_new(u))?;
        }
        Some(b)
    }
    let mut acts = vec![Act::Can];
    let b1 = walk(rng, start, 1, &mut acts)?;
    let k = 13 + rng.below(11);
    let b2 = walk(rng, &b1, k, &mut acts)?;
    if b2 != *start {
        return None;
    }
    // sometimes go on: a few more moves and the claim itself
    if rng.chance(1, 2) {
        acts.push(Act::Declare);
    }
    Some(acts)
}

pub fn draw_program(rng: &mut Rng, start: &Board, plan: &DrawPlan) -> Vec<Act> {
    let mut acts = Vec::new();
    let mut b = *start;
    let mut last: [Option<ChessMove>; 2] = [None, None]; // last move of each colour
    let mut ply = 0usize;
    let mut guard_iter = 0;
    acts.push(Act::Can);
    for m in plan.prefix.iter() {
        if !guard(|| b.legal(*m)).unwrap_or(false) {
            break;
        }
        acts.push(Act::M(*m));
        acts.push(Act::Can);
        last[b.side_to_move().to_index()] = Some(*m);
        match guard(|| b.make_move_new(*m)) {
            Some(n) => b = n,
            None => break,
        }
        ply += 1;
    }
    while ply < plan.target && guard_iter < 1200 {
        guard_iter += 1;
        let ms = match moves_of(&b) {
            Some(v) if !v.is_empty() => v,
            _ => break,
        };
        let me = b.side_to_move().to_index();
        let rev: Vec<ChessMove> = ms.iter().cloned().filter(|m| is_reversible(&b, *m)).collect();
        let mut chosen: Option<ChessMove> = None;
        if plan.finish_terminal_from.map(|p| ply >= p).unwrap_or(false) {
            // a reversible move after which the opponent has no legal move (mate or stalemate)
            let fin: Vec<ChessMove> = rev
                .iter()
                .cloned()
                .filter(|m| guard(|| moves_of(&b.make_move_new(*m)).map(|v| v.is_empty()).unwrap_or(false)).unwrap_or(false))
                .collect();
            if !fin.is_empty() {
                let m = fin[rng.below(fin.len())];
                acts.push(Act::M(m));
                acts.push(Act::Can);
                break;
            }
        }
        if plan.irreversible_at == Some(ply) {
            let irr: Vec<ChessMove> = ms.iter().cloned().filter(|m| !is_reversible(&b, *m)).collect();
            let pref: Vec<ChessMove> = irr
                .iter()
                .cloned()
                .filter(|m| {
                    let i = classify(&b, *m);
                    match plan.irreversible_kind {
                        0 => i.ep,
                        1 => i.capture && i.pawn && !i.ep,
                        2 => i.capture && !i.pawn,
                        3 => i.pawn && !i.capture && !i.double_push && !i.promo,
                        4 => i.double_push,
                        5 => i.promo,
                        _ => true,
                    }
                })
                .collect();
            if !pref.is_empty() {
                chosen = Some(pref[rng.below(pref.len())]);
            } else if !irr.is_empty() {
                chosen = Some(irr[rng.below(irr.len())]);
            }
        }
        if chosen.is_none() && plan.lose_rights_at.map(|p| ply >= p && ply < p + 2).unwrap_or(false) {
            // a king or rook leaves its home square while the right still exists
            let rights = b.castle_rights(b.side_to_move()).to_index();
            if rights != 0 {
                let home_rank = if b.side_to_move() == Color::White { 0 } else { 56 };
                let cands: Vec<ChessMove> = rev
                    .iter()
                    .cloned()
                    .filter(|m| {
                        let s = m.get_source().to_index();
                        !classify(&b, *m).castle
                            && ((s == home_rank + 4)
                                || (s == home_rank + 7 && rights & 1 != 0)
                                || (s == home_rank && rights & 2 != 0))
                    })
                    .collect();
                if !cands.is_empty() {
                    chosen = Some(cands[rng.below(cands.len())]);
                }
            }
        }
        if chosen.is_none() {
            // undo my previous move when possible (A->B then B->A): repetition every 4 plies
            if let Some(prev) = last[me] {
                let back = ChessMove::new(prev.get_dest(), prev.get_source(), None);
                if rev.contains(&back) && rng.chance(plan.undo_pct, 100) {
                    chosen = Some(back);
                }
            }
        }
        if chosen.is_none() {
            // keep rights unless the plan says otherwise; avoid mating / stalemating moves
            let rights = b.castle_rights(b.side_to_move()).to_index();
            let mut cands: Vec<ChessMove> = rev
                .iter()
                .cloned()
                .filter(|m| {
                    if classify(&b, *m).castle {
                        return false;
                    }
                    if rights != 0 && plan.lose_rights_at.map(|p| ply < p).unwrap_or(true) {
                        let p = b.piece_on(m.get_source());
                        if p == Some(Piece::King) {
                            return false;
                        }
                        let s = m.get_source().to_index();
                        if p == Some(Piece::Rook) && (s == 0 || s == 7 || s == 56 || s == 63) {
                            return false;
                        }
                    }
                    true
                })
                .collect();
            cands.retain(|m| {
                guard(|| {
                    let n = b.make_move_new(*m);
                    moves_of(&n).map(|v| v.iter().any(|x| is_reversible(&n, *x))).unwrap_or(false)
                })
                .unwrap_or(false)
            });
            if !cands.is_empty() {
                chosen = Some(cands[rng.below(cands.len())]);
            } else if !rev.is_empty() {
                chosen = Some(rev[rng.below(rev.len())]);
            } else {
                chosen = Some(ms[rng.below(ms.len())]);
            }
        }
        let m = chosen.unwrap();
        acts.push(Act::M(m));
        if plan.query_every <= 1 || ply % plan.query_every == 0 || (ply + 8 >= 100 && ply <= 104) || (ply + 3 >= 256 && ply <= 260) {
            acts.push(Act::Can);
        }
        last[me] = Some(m);
        match guard(|| b.make_move_new(m)) {
            Some(n) => b = n,
            None => break,
        }
        ply += 1;
    }
    acts.push(Act::Declare);
    acts.push(Act::Can);
    acts
}

// ------------------------------------------------------------------ CACHE

pub const CACHE_BAD_SIZES: [u64; 14] = [0, 3, 5, 6, 7, 9, 12, 100, 255, 1000, 65535, 65537, 98304, 3 << 40];

pub fn cache_program(rng: &mut Rng) -> (u64, Vec<CacheOp>) {
    let size: u64 = if rng.chance(1, 8) {
        CACHE_BAD_SIZES[rng.below(CACHE_BAD_SIZES.len())]
    } else {
        1u64 << rng.below(17)
    };
    (size, cache_program_for(rng, size))
}

pub fn cache_program_for(rng: &mut Rng, size: u64) -> Vec<CacheOp> {
    let bits = if size.count_ones() == 1 { size.trailing_zeros() } else { 4 };
    let n = rng.range(3, 60);
    // a few slots, several hashes per slot (colliding in the index, different in the high bits)
    let nslots = 1 + rng.below(4);
    let slots: Vec<u64> = (0..nslots).map(|_| rng.next_u64() & (size.wrapping_sub(1))).collect();
    let mut hashes: Vec<u64> = vec![0];
    for s in slots.iter() {
        for _ in 0..(1 + rng.below(3)) {
            let hi = match rng.below(4) {
                0 => 0,
                1 => 1,
                2 => rng.below(4) as u64,
                _ => rng.next_u64(),
            };
            let h = if bits >= 64 { *s } else { (hi << bits) | *s };
            hashes.push(h);
        }
    }
    hashes.push(rng.next_u64());
    hashes.push(!0);
    // near-equal hashes: every stored hash also with ONE bit flipped at each of a few positions
    // spread over the whole word (bits 0..63), so that a comparison that ignores any part of the
    // hash (low word only, high word only, a byte) is exercised on the same slot or a neighbour
    let base: Vec<u64> = hashes.clone();
    for h in base.iter() {
        for _ in 0..2 {
            let b = match rng.below(4) { 0 => 32 + rng.below(32), 1 => rng.below(32), 2 => 63, _ => rng.below(64) };
            hashes.push(*h ^ (1u64 << b));
        }
        if rng.chance(1, 3) { hashes.push(*h ^ 0xFFFF_FFFF_0000_0000); }
        if rng.chance(1, 3) { hashes.push((*h).swap_bytes()); }
        // differences with repeated structure (same pattern in both halves / all four quarters /
        // all bytes), kept above the slot bits; rotations
        let keep = if bits >= 32 { 0 } else { !0u64 << bits };
        let d32 = (rng.next_u64() & 0xFFFF_FFFF) | (1 << (rng.below(32)));
        hashes.push(*h ^ ((d32 | (d32 << 32)) & keep));
        let d16 = (rng.next_u64() & 0xFFFF) | (1 << rng.below(16));
        if rng.chance(1, 2) { hashes.push(*h ^ ((d16 | (d16 << 16) | (d16 << 32) | (d16 << 48)) & keep)); }
        let d8 = (rng.next_u64() & 0xFF) | 1;
        if rng.chance(1, 2) { hashes.push(*h ^ ((d8 * 0x0101_0101_0101_0101) & keep)); }
        if rng.chance(1, 3) { hashes.push((*h).rotate_left(32)); }
        if rng.chance(1, 3) { hashes.push((*h).rotate_left(16)); }
        let b = rng.below(32);
        if rng.chance(1, 2) { hashes.push(*h ^ (((1u64 << b) | (1u64 << (b + 32))) & keep)); }
    }
    let val = |rng: &mut Rng| -> u32 {
        match rng.below(5) {
            0 => 7,
            1 => 0,
            2 => u32::MAX,
            3 => rng.below(10) as u32,
            _ => rng.next_u64() as u32,
        }
    };
    let mut prog = Vec::new();
    for _ in 0..n {
        let h = hashes[rng.below(hashes.len())];
        prog.push(match rng.below(10) {
            0..=2 => CacheOp::A(h, val(rng)),
            3..=6 => CacheOp::G(h),
            _ => {
                let p = match rng.below(4) {
                    0 => Pred::T,
                    1 => Pred::F,
                    2 => Pred::Lt(val(rng)),
                    _ => Pred::Eq(val(rng)),
                };
                CacheOp::R(h, val(rng), p)
            }
        });
    }
    // read every hash at the end
    for h in hashes.iter() {
        prog.push(CacheOp::G(*h));
    }
    prog
}
