//! Per-property transcript composition (which operations on which generator streams).
//! All sizes are the QUICK-tier sizes; the thorough tier multiplies them by `THOROUGH_MULT`.

use crate::enc::*;
use crate::gens::*;
use crate::ops;
use crate::programs::*;
use crate::rng::Rng;
use crate::sink::Sink;
use crate::strings::*;
use crate::tables;
use chess::{Board, ChessMove, Color, Piece, ALL_PIECES};
use std::collections::{HashMap, HashSet};
use std::convert::TryFrom;
use std::str::FromStr;

// ------------------------------------------------------------------ tunable sizes (quick tier)
pub const THOROUGH_MULT: usize = 10;
pub const PLAYOUT_PLIES: usize = 300;

pub const SCENARIOS: usize = 1500; // synthesized special-move scenarios per stream
pub const C01_POS: usize = 80000;
pub const C01_LEGAL_QUICK: usize = 400;
pub const C01_LEGAL_THOROUGH: usize = 3000;
pub const C02_POSITIONS: usize = 4500; // x ~30 legal moves = MAKE lines
pub const C03_POS: usize = 60000;
pub const C04_POS: usize = 60000;
pub const C05_PLAYOUTS: usize = 200; // x <=300 plies
pub const C05_TREES: usize = 40; // complete trees, depth 3 quick / 4 thorough (thorough: x2 trees)
pub const C05_TREE_MAX_LINES: usize = 3_000; // roots whose complete tree is bigger are not used (thorough: x8)
pub const C06_POS: usize = 24000;
pub const C06_FENP: usize = 30000;
pub const C06_BFEN: usize = 20000;
pub const C07_FENP: usize = 90000;
pub const C07_BLD: usize = 45000;
pub const C07_BPARSE: usize = 45000;
pub const C08_POS: usize = 48000;
pub const C09_POSITIONS: usize = 120; // x several hundred single-component variants
pub const C09_COLL: u64 = 2_000_000;
pub const C09_COLL_THOROUGH: u64 = 30_000_000;
pub const C10_PROGRAMS: usize = 1200;
pub const C11_PROGRAMS: usize = 160;
pub const C12_POSITIONS: usize = 1000; // x all spellings of all moves
pub const C12_MUTATED: usize = 24000;
pub const C12_REJECT_PER_POS: usize = 12;
pub const C13_RANDOM: usize = 60000;
pub const C14_PROGRAMS: usize = 20000;
pub const C15_FILLINGS_QUICK: usize = 2;
pub const C15_FILLINGS_THOROUGH: usize = 16;
pub const C16_NOISE_QUICK: usize = 2;
pub const C16_NOISE_THOROUGH: usize = 8;
pub const C17_POSITIONS: usize = 12000;
pub const C18_NULL: usize = 60000;
pub const C19_PROGRAMS: usize = 10000;
pub const C20_RANDOM: usize = 12000;

pub struct Ctx {
    pub rng: Rng,
    pub sink: Sink,
    pub corpus: Corpus,
    pub thorough: bool,
}

impl Ctx {
    fn n(&self, quick: usize) -> usize {
        if self.thorough { quick * THOROUGH_MULT } else { quick }
    }
    fn root(&mut self) -> Board {
        // one third corpus root, one third crowded corpus root (>= 24 men), one third random set-up
        let k = self.rng.below(3);
        if k == 0 && !self.corpus.boards.is_empty() {
            let i = self.rng.below(self.corpus.boards.len());
            return self.corpus.boards[i];
        }
        if k == 1 {
            let full: Vec<usize> = (0..self.corpus.boards.len())
                .filter(|i| self.corpus.boards[*i].combined().popcnt() >= 24)
                .collect();
            if !full.is_empty() {
                return self.corpus.boards[full[self.rng.below(full.len())]];
            }
        }
        let men = self.rng.range(4, 32);
        synth_valid(&mut self.rng, men).unwrap_or_default()
    }
}

/// Generic position stream: corpus roots, then playouts (from corpus roots and random set-ups) and
/// synthesized set-ups, until `n` positions were handed to `f`. `f` gets (ctx, board, via_null).
fn position_stream<F: FnMut(&mut Ctx, &Board, bool)>(
    cx: &mut Ctx,
    n: usize,
    style: Style,
    null_pct: usize,
    synth_share_pct: usize,
    mut f: F,
) {
    let mut count = 0usize;
    let mut seen: HashSet<Key> = HashSet::new();
    let roots: Vec<Board> = cx.corpus.boards.clone();
    for b in roots.iter() {
        if count >= n {
            return;
        }
        seen.insert(key_of(b));
        f(cx, b, false);
        count += 1;
    }
    let mut ri = 0usize;
    while count < n {
        if cx.rng.chance(synth_share_pct, 100) {
            // a burst of synthesized set-ups, density uniform in 2..=32
            for _ in 0..12 {
                if count >= n {
                    break;
                }
                let men = if cx.rng.chance(1, 4) { random_density(&mut cx.rng) } else { cx.rng.range(2, 32) };
                if let Some(b) = synth_valid(&mut cx.rng, men) {
                    if !seen.insert(key_of(&b)) {
                        continue;
                    }
                    cx.sink.count("stream_synth_positions");
                    f(cx, &b, false);
                    count += 1;
                }
            }
            continue;
        }
        // every corpus root once (short playouts), then random roots
        let (root, from_corpus_pass) = if ri < roots.len() {
            ri += 1;
            (roots[ri - 1], true)
        } else {
            (cx.root(), false)
        };
        let small = root.combined().popcnt() <= 6;
        let plies = if from_corpus_pass || small {
            cx.rng.range(6, 40)
        } else if cx.rng.chance(1, 4) {
            PLAYOUT_PLIES
        } else {
            cx.rng.range(10, 120)
        };
        let st = if cx.rng.chance(1, 6) { Style::Uniform } else { style };
        let steps = playout(&mut cx.rng, &root, plies, st, null_pct);
        cx.sink.count("stream_playouts");
        cx.sink.hist("playout_len", format!("{:03}", (steps.len() / 25) * 25));
        for s in steps.iter() {
            if count >= n {
                break;
            }
            if !seen.insert(key_of(&s.after)) {
                cx.sink.count("stream_duplicates_skipped");
                continue;
            }
            f(cx, &s.after, s.mv.is_none());
            count += 1;
        }
    }
}

fn emit_pos(cx: &mut Ctx, b: &Board) {
    cx.sink.note_position(b);
    cx.sink.emit(ops::pos(b));
}


// ------------------------------------------------------------------ special-move scenarios (gens::special_scenario)

/// For `n` synthesized scenarios: the root, the forced chain, every legal move of the last chain
/// position and every successor, as POS / MAKE / NULL lines according to the flags.
fn emit_scenarios(cx: &mut Ctx, n: usize, pos: bool, makes: bool, nulls: bool) {
    let mut done = 0usize;
    let mut tries = 0usize;
    while done < n && tries < n * 40 {
        tries += 1;
        let (root, forced) = match special_scenario(&mut cx.rng) { Some(x) => x, None => continue };
        done += 1;
        cx.sink.count("special_scenarios");
        if makes { cx.sink.begin_group(); }
        let mut cur = root;
        if pos { emit_pos(cx, &cur); }
        for m in forced.iter() {
            if makes { cx.sink.emit(ops::make(&cur, *m).0); }
            cur = match guard(|| cur.make_move_new(*m)) { Some(b) => b, None => break };
            if pos { emit_pos(cx, &cur); }
        }
        let ms = ops::moves_of(&cur).unwrap_or_default();
        if makes { emit_makes(cx, &cur); }
        if nulls { cx.sink.emit(ops::null(&cur).0); }
        for m in ms.iter() {
            let info = classify(&cur, *m);
            if info.ep { cx.sink.count("scenario_ep_captures"); }
            if let Some(nb) = guard(|| cur.make_move_new(*m)) {
                if nb.checkers().popcnt() > 0 && info.ep { cx.sink.count("scenario_ep_captures_giving_check"); }
                if nb.checkers().popcnt() > 1 { cx.sink.count("scenario_double_checks"); }
                if pos && (info.ep || info.castle || info.promo || info.capture || nb.checkers().popcnt() > 0 || cx.rng.chance(1, 6)) { emit_pos(cx, &nb); }
                if nulls && (info.ep || cx.rng.chance(1, 4)) { cx.sink.emit(ops::null(&nb).0); }
            }
        }
        if makes { cx.sink.end_group(); }
    }
}

// ------------------------------------------------------------------ C01

fn c01(cx: &mut Ctx) {
    let sc = cx.n(SCENARIOS);
    emit_scenarios(cx, sc, true, false, false);
    let n = cx.n(C01_POS);
    let nlegal = if cx.thorough { C01_LEGAL_THOROUGH } else { C01_LEGAL_QUICK };
    let every = (n / nlegal).max(1);
    let mut i = 0usize;
    let mut legal_done = 0usize;
    position_stream(cx, n, Style::Tactical, 0, 25, |cx, b, _| {
        emit_pos(cx, b);
        if i % every == 0 && legal_done < nlegal {
            cx.sink.emit(ops::legal(b));
            legal_done += 1;
        }
        i += 1;
    });
}

// ------------------------------------------------------------------ C02

fn emit_makes(cx: &mut Ctx, b: &Board) -> usize {
    let ms = ops::moves_of(b).unwrap_or_default();
    cx.sink.note_position_with(b, &ms);
    cx.sink.count("positions");
    for m in ms.iter() {
        let i = classify(b, *m);
        if i.ep { cx.sink.count("make_ep"); }
        if i.castle { cx.sink.count("make_castle"); }
        if i.promo { cx.sink.count("make_promotion"); }
        if i.capture { cx.sink.count("make_capture"); }
        if i.double_push { cx.sink.count("make_double_push"); }
        let (line, _) = ops::make(b, *m);
        cx.sink.emit(line);
    }
    ms.len()
}

fn c02(cx: &mut Ctx) {
    let sc = cx.n(SCENARIOS);
    emit_scenarios(cx, sc, false, true, false);
    let n = cx.n(C02_POSITIONS);
    // positions are thinned along the playouts, but positions offering ep / castling / promotion
    // are always taken
    let mut taken = 0usize;
    let roots = cx.corpus.boards.clone();
    for b in roots.iter() {
        if taken >= n / 3 { break; }
        emit_makes(cx, b);
        taken += 1;
    }
    while taken < n {
        let root = cx.root();
        let plies = cx.rng.range(20, PLAYOUT_PLIES);
        let steps = playout(&mut cx.rng, &root, plies, Style::Tactical, 0);
        for s in steps.iter() {
            if taken >= n { break; }
            let ms = ops::moves_of(&s.after).unwrap_or_default();
            let special = ms.iter().any(|m| {
                let i = classify(&s.after, *m);
                i.ep || i.castle || i.promo
            });
            if special || cx.rng.chance(1, 8) {
                emit_makes(cx, &s.after);
                taken += 1;
            }
        }
    }
}

// ------------------------------------------------------------------ C03

fn c03(cx: &mut Ctx) {
    let sc = cx.n(SCENARIOS);
    emit_scenarios(cx, sc, true, true, true);
    let n = cx.n(C03_POS);
    position_stream(cx, n, Style::Tactical, 12, 10, |cx, b, via_null| {
        if via_null {
            cx.sink.count("reached_by_null_move");
        }
        emit_pos(cx, b);
        if cx.rng.chance(1, 4) {
            emit_edits(cx, b, 1);
        }
    });
}

// ------------------------------------------------------------------ C04

fn exhaustive_3men(cx: &mut Ctx, p: Piece) {
    // white K + white `p` vs black K, both sides to move, every placement the crate accepts
    for wk in 0..64 {
        for bk in 0..64 {
            if wk == bk { continue; }
            for x in 0..64 {
                if x == wk || x == bk { continue; }
                if p == Piece::Pawn && (x < 8 || x >= 56) { continue; }
                for stm in [Color::White, Color::Black].iter() {
                    let mut d = BD::empty();
                    d.sq[wk] = Some((Piece::King, Color::White));
                    d.sq[bk] = Some((Piece::King, Color::Black));
                    d.sq[x] = Some((p, Color::White));
                    d.stm = *stm;
                    match guard(|| Board::try_from(&d.builder()).ok()) {
                        Some(Some(b)) => {
                            cx.sink.count("exhaustive_accepted");
                            emit_pos(cx, &b);
                        }
                        _ => cx.sink.count("exhaustive_rejected"),
                    }
                }
            }
        }
    }
}

fn c04(cx: &mut Ctx) {
    let sc = cx.n(SCENARIOS);
    emit_scenarios(cx, sc * 2, true, false, false);
    // stalemates / mates where the side to move owns more than its king
    let want = cx.n(SCENARIOS) / 3;
    let mut got = 0usize;
    for _ in 0..(want * 4) {
        if got >= want { break; }
        if let Some(b) = synth_no_move_position(&mut cx.rng, 4000) {
            got += 1;
            if b.checkers().popcnt() == 0 { cx.sink.count("synth_stalemates_with_extra_men"); } else { cx.sink.count("synth_mates_with_extra_men"); }
            emit_pos(cx, &b);
        }
    }
    let n = cx.n(C04_POS);
    let mut count = 0usize;
    let roots = cx.corpus.boards.clone();
    for b in roots.iter() {
        emit_pos(cx, b);
        count += 1;
    }
    while count < n {
        let kind = cx.rng.below(10);
        let (root, plies) = if kind < 4 {
            match small_endgame(&mut cx.rng) {
                Some(b) => (b, 60),
                None => continue,
            }
        } else {
            (cx.root(), 160)
        };
        let steps = playout(&mut cx.rng, &root, plies, Style::Terminal, 0);
        let len = steps.len();
        let ended = steps
            .last()
            .map(|s| ops::moves_of(&s.after).map(|v| v.is_empty()).unwrap_or(false))
            .unwrap_or(false);
        if ended {
            cx.sink.count("playouts_ending_terminal");
        } else {
            cx.sink.count("playouts_not_ending_terminal");
            // unfinished playouts contribute only a thin sample
            if !cx.rng.chance(1, 4) {
                continue;
            }
        }
        for (i, s) in steps.iter().enumerate() {
            // the terminal position, its two predecessors (mate-in-one / forced lines), and a
            // thin sample of the rest
            if i + 3 >= len || cx.rng.chance(1, 16) {
                emit_pos(cx, &s.after);
                count += 1;
            }
        }
    }
    if cx.thorough {
        exhaustive_3men(cx, Piece::Queen);
        exhaustive_3men(cx, Piece::Rook);
        exhaustive_3men(cx, Piece::Pawn);
    }
}

// ------------------------------------------------------------------ C05

fn tree(cx: &mut Ctx, b: &Board, depth: usize, budget: &mut usize) {
    if depth == 0 || *budget == 0 {
        return;
    }
    let ms = ops::moves_of(b).unwrap_or_default();
    for m in ms {
        if *budget == 0 {
            cx.sink.count("tree_budget_cuts");
            return;
        }
        let (line, succ) = ops::make(b, m);
        cx.sink.emit(line);
        *budget -= 1;
        if let Some(n) = succ {
            tree(cx, &n, depth - 1, budget);
        }
    }
}

fn tree_size(b: &Board, depth: usize, cap: usize) -> usize {
    if depth == 0 { return 0; }
    let ms = ops::moves_of(b).unwrap_or_default();
    let mut t = ms.len();
    if depth > 1 {
        for m in ms {
            if t > cap { return t; }
            if let Some(n) = guard(|| b.make_move_new(m)) {
                t += tree_size(&n, depth - 1, cap - t.min(cap));
            }
        }
    }
    t
}

fn c05(cx: &mut Ctx) {
    let sc = cx.n(SCENARIOS);
    emit_scenarios(cx, sc, false, true, false);
    let playouts = cx.n(C05_PLAYOUTS);
    let roots = cx.corpus.boards.clone();
    for i in 0..playouts {
        let root = if i < roots.len() { roots[i] } else { cx.root() };
        let st = match i % 3 { 0 => Style::Tactical, 1 => Style::Uniform, _ => Style::Quiet };
        let steps = playout(&mut cx.rng, &root, PLAYOUT_PLIES, st, 0);
        cx.sink.hist("playout_len", format!("{:03}", (steps.len() / 25) * 25));
        cx.sink.begin_group();
        for s in steps.iter() {
            if let Some(m) = s.mv {
                cx.sink.note_position(&s.before);
                cx.sink.emit(ops::make(&s.before, m).0);
            }
        }
        cx.sink.end_group();
    }
    let depth = if cx.thorough { 4 } else { 3 };
    let trees = if cx.thorough { C05_TREES * 2 } else { C05_TREES };
    let cap = C05_TREE_MAX_LINES * if cx.thorough { 8 } else { 1 };
    let mut done = 0;
    let mut tries = 0;
    while done < trees && tries < trees * 50 {
        tries += 1;
        // small roots keep complete trees affordable
        let b = if cx.rng.chance(1, 2) {
            match small_endgame(&mut cx.rng) { Some(b) => b, None => continue }
        } else {
            let men = cx.rng.range(3, 9);
            match synth_valid(&mut cx.rng, men) { Some(b) => b, None => continue }
        };
        let sz = tree_size(&b, depth, cap);
        if sz == 0 || sz > cap {
            continue;
        }
        cx.sink.hist("tree_lines", format!("{:05}", (sz / 1000) * 1000));
        cx.sink.note_position(&b);
        cx.sink.begin_group();
        let mut budget = cap;
        tree(cx, &b, depth, &mut budget);
        cx.sink.end_group();
        done += 1;
    }
    cx.sink.add("complete_trees", done as u64);
    cx.sink.add("tree_depth", depth as u64);
}

// ------------------------------------------------------------------ C06

fn c06(cx: &mut Ctx) {
    // POS with ep / partial-rights positions over-represented: take every such position of the
    // playouts, thin out the others
    let n = cx.n(C06_POS);
    let nfen = cx.n(C06_FENP);
    let mut pos_done = 0usize;
    let mut fen_done = 0usize;
    let roots = cx.corpus.boards.clone();
    for b in roots.iter() {
        emit_pos(cx, b);
        pos_done += 1;
    }
    // the FEN rendered straight after a move (MAKE lines carry `fen=`): the en-passant field depends on the
    // move just made — special-move scenarios (double pushes beside pinned / unpinned capturers) and, below,
    // every double push of the playouts
    let sc = cx.n(SCENARIOS) / 3;
    emit_scenarios(cx, sc, false, true, false);
    while pos_done < n || fen_done < nfen {
        let root = cx.root();
        let plies = cx_plies(&mut cx.rng);
        let steps = playout(&mut cx.rng, &root, plies, Style::Tactical, 3);
        for s in steps.iter() {
            let b = &s.after;
            if let Some(m) = s.mv {
                if classify(&s.before, m).double_push && pos_done < n {
                    cx.sink.count("make_double_push_fen");
                    cx.sink.emit(ops::make(&s.before, m).0);
                }
            }
            let partial = {
                let w = b.castle_rights(Color::White).to_index();
                let k = b.castle_rights(Color::Black).to_index();
                (w != 0 && w != 3) || (k != 0 && k != 3) || (w != k)
            };
            let dbl = s.mv.map(|m| classify(&s.before, m).double_push).unwrap_or(false);
            if pos_done < n && (b.en_passant().is_some() || dbl || partial || cx.rng.chance(1, 10)) {
                emit_pos(cx, b);
                pos_done += 1;
            }
            if fen_done < nfen && (dbl || cx.rng.chance(1, 6)) {
                // the harness's own standard FEN: ep target after EVERY double push
                let target = match s.mv {
                    Some(m) if dbl => Some((m.get_source().to_index() + m.get_dest().to_index()) / 2),
                    _ => None,
                };
                if dbl {
                    cx.sink.count("stdfen_after_double_push");
                    if b.en_passant().is_none() {
                        cx.sink.count("stdfen_ep_target_without_capturer");
                    }
                }
                let half = match cx.rng.below(4) { 0 => 0, 1 => cx.rng.below(10), 2 => cx.rng.below(151), _ => 99 + cx.rng.below(3) };
                let full = match cx.rng.below(5) { 0 => 1, 1 => 1 + cx.rng.below(60), 2 => 1 + cx.rng.below(400), 3 => [127usize, 128, 255, 256, 257, 999, 1000, 5949, 32767, 32768, 65535, 65536][cx.rng.below(12)], _ => 1 + cx.rng.below(6000) };
                let half = if cx.rng.chance(1, 12) { [100usize, 127, 128, 149, 150, 255, 256, 300][cx.rng.below(8)] } else { half };
                let text = std_fen(b, target, half, full);
                let line = ops::fenp(&text);
                cx.sink.note_result(&line);
                cx.sink.emit(line);
                fen_done += 1;
            }
        }
    }
    for _ in 0..cx.n(C06_BFEN) {
        let d = if cx.rng.chance(1, 3) {
            let men = 2 + cx.rng_below(31);
            synth_candidate(&mut cx.rng, men)
        } else {
            random_builder_state(&mut cx.rng)
        };
        cx.sink.hist("builder_men", format!("{:02}", d.men()));
        cx.sink.emit(ops::bfen(&d));
    }
}

fn cx_plies(rng: &mut Rng) -> usize {
    if rng.chance(1, 4) { PLAYOUT_PLIES } else { rng.range(10, 100) }
}

impl Ctx {
    fn rng_below(&mut self, n: usize) -> usize {
        self.rng.below(n)
    }
}

// ------------------------------------------------------------------ C07

fn fen_text(cx: &mut Ctx) -> String {
    let base = match cx.rng.below(4) {
        0 => random_builder_state(&mut cx.rng),
        1 => {
            let men = random_density(&mut cx.rng);
            synth_candidate(&mut cx.rng, men)
        }
        _ => {
            let b = cx.root();
            BD::of_board(&b)
        }
    };
    if cx.rng.chance(1, 3) {
        return fen_clean(&mut cx.rng, &base);
    }
    let g = fen_grammar(&mut cx.rng, &base);
    match cx.rng.below(12) {
        0 | 1 | 2 => mutate(&mut cx.rng, &g, &FEN_ALPHA),
        3 => {
            let m = mutate(&mut cx.rng, &g, &FEN_ALPHA);
            mutate(&mut cx.rng, &m, &FEN_ALPHA)
        }
        4 => {
            let v: Vec<char> = g.chars().collect();
            let k = cx.rng.below(v.len() + 1);
            v[..k].iter().collect()
        }
        5 => {
            if cx.rng.chance(1, 3) { overlong(&mut cx.rng, &g) } else { random_text(&mut cx.rng, &FEN_ALPHA, 90) }
        }
        _ => g,
    }
}

fn c07(cx: &mut Ctx) {
    let nf = cx.n(C07_FENP);
    let nb = cx.n(C07_BPARSE);
    for i in 0..nf {
        let t = fen_text(cx);
        let line = ops::fenp(&t);
        cx.sink.note_result(&line);
        cx.sink.emit(line);
        if i < nb {
            let line = ops::bparse(&t);
            cx.sink.note_result(&line);
            cx.sink.emit(line);
        }
    }
    // valid-by-construction set-ups with extreme material (never filtered through the crate):
    // builder route and FEN route
    for _ in 0..cx.n(400) {
        let d = material_extreme(&mut cx.rng);
        if d.men() < 2 { continue; }
        cx.sink.count("material_extremes");
        cx.sink.emit(ops::bld(&d));
        if let Some(t) = guard(|| format!("{}", d.builder())) {
            cx.sink.emit(ops::fenp(&t));
        }
    }
    for _ in 0..cx.n(C07_BLD) {
        let d = random_builder_state(&mut cx.rng);
        cx.sink.hist("builder_men", format!("{:02}", d.men()));
        let wk = d.sq.iter().filter(|x| **x == Some((Piece::King, Color::White))).count();
        let bk = d.sq.iter().filter(|x| **x == Some((Piece::King, Color::Black))).count();
        cx.sink.hist("builder_kings", format!("{}w{}b", wk, bk));
        let line = ops::bld(&d);
        cx.sink.note_result(&line);
        cx.sink.emit(line);
    }
}

// ------------------------------------------------------------------ C08

fn c08(cx: &mut Ctx) {
    let n = cx.n(C08_POS);
    let mut count = 0usize;
    while count < n {
        let root = cx.root();
        let mut b = root;
        let plies = cx.rng.range(10, 80);
        for _ in 0..plies {
            if count >= n { break; }
            let ms = match ops::moves_of(&b) { Some(v) if !v.is_empty() => v, _ => break };
            match cx.rng.below(6) {
                0 => {
                    // commuting pair: a, x, c  versus  c, x, a
                    let a = ms[cx.rng.below(ms.len())];
                    let c = ms[cx.rng.below(ms.len())];
                    if a.get_source() != c.get_source() {
                        if let Some(ba) = guard(|| b.make_move_new(a)) {
                            let xs = ops::moves_of(&ba).unwrap_or_default();
                            if !xs.is_empty() {
                                let x = xs[cx.rng.below(xs.len())];
                                let path1 = guard(|| {
                                    let n1 = ba.make_move_new(x);
                                    if n1.legal(c) { Some(n1.make_move_new(c)) } else { None }
                                }).flatten();
                                let path2 = guard(|| {
                                    let n0 = b.make_move_new(c);
                                    if !n0.legal(x) { return None; }
                                    let n1 = n0.make_move_new(x);
                                    if n1.legal(a) { Some(n1.make_move_new(a)) } else { None }
                                }).flatten();
                                if let (Some(p1), Some(p2)) = (path1, path2) {
                                    cx.sink.count("transposition_pairs");
                                    if BD::of_board(&p1) == BD::of_board(&p2) {
                                        cx.sink.count("transposition_pairs_same_position");
                                    }
                                    emit_pos(cx, &p1);
                                    emit_pos(cx, &p2);
                                    count += 2;
                                    b = p1;
                                    continue;
                                }
                            }
                        }
                    }
                }
                1 => {
                    // null-move detour: null, null returns to the same position minus ep
                    if let Some(Some(n1)) = guard(|| b.null_move()) {
                        emit_pos(cx, &n1);
                        count += 1;
                        if let Some(Some(n2)) = guard(|| n1.null_move()) {
                            cx.sink.count("null_detours");
                            emit_pos(cx, &n2);
                            count += 1;
                            b = n2;
                            continue;
                        }
                    }
                }
                2 => {
                    // triangulation: a piece goes A->B->A while the opponent does the same
                    let revs: Vec<ChessMove> = ms.iter().cloned().filter(|m| is_reversible(&b, *m)).collect();
                    if !revs.is_empty() {
                        let a = revs[cx.rng.below(revs.len())];
                        let r = guard(|| {
                            let n1 = b.make_move_new(a);
                            let ys: Vec<ChessMove> = ops::moves_of(&n1)?.into_iter().filter(|m| is_reversible(&n1, *m)).collect();
                            if ys.is_empty() { return None; }
                            let y = ys[0];
                            let n2 = n1.make_move_new(y);
                            let ab = ChessMove::new(a.get_dest(), a.get_source(), None);
                            if !n2.legal(ab) { return None; }
                            let n3 = n2.make_move_new(ab);
                            let yb = ChessMove::new(y.get_dest(), y.get_source(), None);
                            if !n3.legal(yb) { return None; }
                            Some(n3.make_move_new(yb))
                        }).flatten();
                        if let Some(n4) = r {
                            cx.sink.count("round_trips");
                            emit_pos(cx, &n4);
                            count += 1;
                            b = n4;
                            continue;
                        }
                    }
                }
                3 => {
                    // FEN rebuild of the current position
                    if let Some(Some(r)) = guard(|| Board::from_str(&format!("{}", b)).ok()) {
                        cx.sink.count("fen_rebuilds");
                        emit_pos(cx, &r);
                        count += 1;
                    }
                }
                _ => {}
            }
            let m = choose_move(&mut cx.rng, &b, &ms, Style::Tactical);
            match guard(|| b.make_move_new(m)) {
                Some(n1) => {
                    b = n1;
                    emit_pos(cx, &b);
                    count += 1;
                }
                None => break,
            }
            if cx.rng.chance(1, 3) {
                emit_edits(cx, &b, 2);
            }
        }
    }
}

/// positions obtained through the deprecated mutators (`set_piece`, `clear_square`, castle-rights
/// setters): EDIT lines
fn emit_edits(cx: &mut Ctx, b: &Board, n: usize) {
    for cmd in ops::edit_cmds(b, &mut cx.rng, n) {
        cx.sink.count("edits");
        cx.sink.emit(ops::edit(b, &cmd));
    }
}

// ------------------------------------------------------------------ C09

fn try_build(d: &BD) -> Option<Board> {
    guard(|| Board::try_from(&d.builder()).ok()).flatten()
}

fn c09(cx: &mut Ctx) {
    let npos = cx.n(C09_POSITIONS);
    let mut done = 0usize;
    let mut i = 0usize;
    while done < npos {
        // sampled positions: corpus roots, playout positions with ep set, with castling rights, any
        let b = if i % 4 == 0 && !cx.corpus.boards.is_empty() {
            cx.corpus.boards[(i * 7) % cx.corpus.boards.len()]
        } else if i % 4 == 3 {
            // a synthesized special-move scenario after its forced chain (en-passant state with pinned / unpinned
            // capturers, kings on the lines the capture opens, castling under fire, crowded boards): the single-
            // component variants of exactly those positions
            let mut pick: Option<Board> = None;
            for _ in 0..80 {
                if let Some((root, forced)) = special_scenario(&mut cx.rng) {
                    let mut cur = root;
                    let mut ok = true;
                    for m in forced.iter() {
                        match guard(|| cur.make_move_new(*m)) { Some(n) => cur = n, None => { ok = false; break; } }
                    }
                    if ok && (cur.en_passant().is_some() || cx.rng.chance(1, 4)) { pick = Some(cur); break; }
                }
            }
            match pick { Some(b) => { cx.sink.count("var_roots_from_scenarios"); b } None => cx.root() }
        } else {
            let mut pick: Option<Board> = None;
            for _ in 0..60 {
                let root = cx.root();
                let plies = cx.rng.range(4, 80);
                let steps = playout(&mut cx.rng, &root, plies, Style::Tactical, 0);
                let want_ep = i % 4 == 1;
                let want_cr = i % 4 == 2;
                let cands: Vec<&Step> = steps
                    .iter()
                    .filter(|s| {
                        (!want_ep || s.after.en_passant().is_some())
                            && (!want_cr
                                || s.after.castle_rights(Color::White).to_index()
                                    + s.after.castle_rights(Color::Black).to_index()
                                    > 0)
                    })
                    .collect();
                if !cands.is_empty() {
                    pick = Some(cands[cx.rng.below(cands.len())].after);
                    break;
                }
            }
            match pick {
                Some(b) => b,
                None => cx.root(),
            }
        };
        i += 1;
        cx.sink.note_position(&b);
        let base = BD::of_board(&b);
        // the base must itself be rebuildable to the same position
        for s in 0..64 {
            for c in [Color::White, Color::Black].iter() {
                for p in ALL_PIECES.iter() {
                    let mut d = base.clone();
                    if d.sq[s] == Some((*p, *c)) { continue; }
                    d.sq[s] = Some((*p, *c));
                    var_line(cx, &b, &base, &d, "sq");
                }
            }
            if base.sq[s].is_some() {
                let mut d = base.clone();
                d.sq[s] = None;
                var_line(cx, &b, &base, &d, "sq");
            }
        }
        let mut d = base.clone();
        d.stm = !d.stm;
        var_line(cx, &b, &base, &d, "stm");
        for r in 0..4 {
            if r != base.wcr {
                let mut d = base.clone();
                d.wcr = r;
                var_line(cx, &b, &base, &d, "wcr");
            }
            if r != base.bcr {
                let mut d = base.clone();
                d.bcr = r;
                var_line(cx, &b, &base, &d, "bcr");
            }
        }
        for f in 0..9 {
            let e = if f == 8 { None } else { Some(f) };
            if e != base.ep {
                let mut d = base.clone();
                d.ep = e;
                var_line(cx, &b, &base, &d, "ep");
            }
        }
        done += 1;
    }
    // COLL: n carries a seed-derived jitter; the internal stream of COLL is a function of n alone,
    // so the line is reproducible by `replay`
    let base = if cx.thorough { C09_COLL_THOROUGH } else { C09_COLL };
    let n = base + (cx.rng.below(1000) as u64);
    cx.sink.emit(coll(n));
}

fn var_line(cx: &mut Ctx, b: &Board, base: &BD, d: &BD, what: &str) {
    match try_build(d) {
        Some(b2) => {
            // exactly one component may differ in the built board too (e.g. an ep mark the crate
            // drops makes the variant equal to the base: skip it)
            let got = BD::of_board(&b2);
            if got != *d {
                cx.sink.count(&format!("var_{}_normalised_away", what));
                return;
            }
            let _ = base;
            cx.sink.count(&format!("var_{}", what));
            cx.sink.emit(ops::var(b, &b2, what));
        }
        None => cx.sink.count(&format!("var_{}_rejected", what)),
    }
}

/// Position key without the hash: 6 piece boards, white, and the small fields.
type Key = ([u64; 7], u32);

fn key_of(b: &Board) -> Key {
    let mut k = [0u64; 7];
    for p in ALL_PIECES.iter() {
        k[p.to_index()] = b.pieces(*p).0;
    }
    k[6] = b.color_combined(Color::White).0;
    let small = (b.side_to_move().to_index() as u32)
        | ((b.castle_rights(Color::White).to_index() as u32) << 1)
        | ((b.castle_rights(Color::Black).to_index() as u32) << 3)
        | (match b.en_passant() { Some(s) => 1 + (s.to_index() as u32 & 7), None => 0 } << 5);
    (k, small)
}

/// `COLL <n>`: hashes `n` distinct positions (distinct by full dump minus hash) from playouts whose
/// PRNG is seeded by `n` alone; counts pairs of distinct positions with equal `get_hash()`.
pub fn coll(n: u64) -> String {
    let mut rng = Rng::new(n ^ 0xC011_C011_C011_C011);
    let corpus = load_corpus();
    let mut seen: HashSet<Key> = HashSet::with_capacity((n as usize).min(1 << 26));
    let mut by_hash: HashMap<u64, u32> = HashMap::with_capacity((n as usize).min(1 << 26));
    let mut stale = 0u64;
    'outer: while (seen.len() as u64) < n && stale < 50_000_000 {
        let root = if !corpus.boards.is_empty() && rng.chance(1, 2) {
            corpus.boards[rng.below(corpus.boards.len())]
        } else {
            let men = random_density(&mut rng);
            synth_valid(&mut rng, men).unwrap_or_default()
        };
        let mut b = root;
        for _ in 0..200 {
            if seen.insert(key_of(&b)) {
                let h = guard(|| b.get_hash()).unwrap_or(0);
                *by_hash.entry(h).or_insert(0) += 1;
                if seen.len() as u64 >= n { break 'outer; }
            } else {
                stale += 1;
            }
            let ms = match ops::moves_of(&b) { Some(v) if !v.is_empty() => v, _ => break };
            let m = ms[rng.below(ms.len())];
            match guard(|| b.make_move_new(m)) { Some(x) => b = x, None => break }
        }
    }
    let collisions: u64 = by_hash.values().map(|c| (*c as u64) * (*c as u64 - 1) / 2).sum();
    format!("COLL {} => distinct={} collisions={}", n, seen.len(), collisions)
}

// ------------------------------------------------------------------ C10 / C11

fn c10(cx: &mut Ctx) {
    let n = cx.n(C10_PROGRAMS);
    for i in 0..n {
        let start = match i % 10 {
            0 => Board::default(),
            1 | 2 => {
                // finished (or nearly finished) start positions
                let root = cx.root();
                let steps = playout(&mut cx.rng, &root, 200, Style::Terminal, 0);
                match steps.last() {
                    Some(s) => { if cx.rng.chance(1, 2) { s.after } else { s.before } }
                    None => root,
                }
            }
            _ => cx.root(),
        };
        let len = match cx.rng.below(4) { 0 => cx.rng.range(1, 10), 1 => cx.rng.range(10, 40), 2 => cx.rng.range(40, 100), _ => cx.rng.range(100, 200) };
        let acts = game_program(&mut cx.rng, &start, len);
        cx.sink.hist("program_len", format!("{:03}", (acts.len() / 20) * 20));
        if ops::status_of(&start).map(|s| s != chess::BoardStatus::Ongoing).unwrap_or(false) {
            cx.sink.count("finished_start_positions");
        }
        let line = ops::game(&start, &acts);
        note_game(cx, &line);
        cx.sink.emit(line);
    }
}

fn note_game(cx: &mut Ctx, line: &str) {
    if let Some(i) = line.find(" => ") {
        let mut last = "-";
        let mut claim = false;
        for o in line[i + 4..].split(';') {
            let f: Vec<&str> = o.split(',').collect();
            if f.len() == 5 {
                last = f[1];
            }
            if o == "PANIC" { last = "PANIC"; }
        }
        // `c` answers of 1
        let acts: Vec<&str> = line[..i].split(' ').nth(2).unwrap_or("").split(';').collect();
        for (a, o) in acts.iter().zip(line[i + 4..].split(';')) {
            if *a == "c" && o.starts_with("1,") { claim = true; }
        }
        cx.sink.hist("final_result", last.to_string());
        if claim { cx.sink.count("programs_with_claimable_draw"); }
    }
}

fn c11(cx: &mut Ctx) {
    let n = cx.n(C11_PROGRAMS);
    // start positions rich in shuffling material; with and without castling rights
    let starts: Vec<Board> = [
        "rnbqkbnr/pppppppp/8/8/8/8/PPPPPPPP/RNBQKBNR w KQkq - 0 1",
        "r3k2r/pppppppp/8/8/8/8/PPPPPPPP/R3K2R w KQkq - 0 1",
        "r3k2r/8/8/8/8/8/8/R3K2R w KQkq - 0 1",
        "r3k2r/p6p/8/8/8/8/P6P/R3K2R b KQkq - 0 1",
        "1n2k1n1/8/8/8/8/8/8/1N2K1N1 w - - 0 1",
        "4k3/8/8/8/8/8/8/R3K2R w KQ - 0 1",
        "r3k3/8/8/8/8/8/8/4K2R b Kq - 0 1",
        "4k3/3r4/8/8/8/8/3R4/4K3 w - - 0 1",
        "r1bqkb1r/pppp1ppp/2n2n2/4p3/4P3/2N2N2/PPPP1PPP/R1BQKB1R w KQkq - 0 1",
        "8/8/4k3/8/8/4K3/8/R6r w - - 0 1",
        "k7/p7/8/8/8/8/7P/7K w - - 0 1",
        "4k2r/7p/8/8/8/8/P7/R3K3 w Qk - 0 1",
    ]
    .iter()
    .filter_map(|f| Board::from_str(f).ok())
    .collect();
    for i in 0..n {
        let start = if i % 5 == 4 { cx.root() } else { starts[cx.rng.below(starts.len())] };
        let kind = i % 8;
        let target = match kind {
            0 | 1 | 2 => 98 + cx.rng.below(5),          // the fifty-move boundary
            3 => 103 + cx.rng.below(12),
            4 | 5 => cx.rng.range(8, 30),               // short repetition games
            _ => cx.rng.range(30, 97),
        };
        let has_rights = start.castle_rights(Color::White).to_index() + start.castle_rights(Color::Black).to_index() > 0;
        let lose = if has_rights && cx.rng.chance(1, 2) { Some(cx.rng.below(target.max(2) - 1)) } else { None };
        let irr = if cx.rng.chance(1, 5) { Some(cx.rng.below(target.max(2) - 1)) } else { None };
        let undo = match cx.rng.below(4) { 0 => 0, 1 => 30, 2 => 60, _ => 90 };
        // every seventh program: a small mating net, shuffled up to the fifty-move boundary and then
        // finished by mate or stalemate on half-move 97..103 (a result and a full counter together)
        let terminal = i % 7 == 6;
        let (start, target, lose, irr, undo, fin) = if terminal {
            let nets = [
                "7k/8/6K1/8/8/8/8/R7 w - - 0 1", "7k/8/6K1/8/8/8/8/R7 b - - 0 1",
                "k7/8/1K6/8/8/8/8/7R b - - 0 1", "8/8/8/8/8/1k6/8/K6r w - - 0 1",
                "8/8/8/8/8/6k1/8/r6K b - - 0 1", "7k/5K2/2Q5/8/8/8/8/8 b - - 0 1",
                "k7/2K5/5Q2/8/8/8/8/8 b - - 0 1", "8/8/8/8/8/5q2/2k5/K7 w - - 0 1",
                "6k1/8/5K2/8/8/8/8/1Q6 w - - 0 1", "5k2/8/5K2/8/8/8/8/4R3 w - - 0 1",
            ];
            let st = Board::from_str(nets[cx.rng.below(nets.len())]).unwrap_or(start);
            let fin_from = 95 + cx.rng.below(8);
            (st, fin_from + 12, None, None, 90, Some(fin_from))
        } else {
            (start, target, lose, irr, undo, None)
        };
        // a few very long reversible histories (beyond 255 half-moves), queried sparsely
        let very_long = i % 25 == 24;
        let (target, undo, irr, query_every) = if very_long && !terminal { (250 + cx.rng.below(170), if cx.rng.chance(1, 2) { 0 } else { 20 }, None, 16) } else { (target, undo, irr, 1) };
        if very_long && !terminal { cx.sink.count("plans_beyond_255_halfmoves"); }
        let mut plan = DrawPlan { target, lose_rights_at: lose, irreversible_at: irr, undo_pct: undo, finish_terminal_from: fin, query_every, prefix: Vec::new(), irreversible_kind: 6 };
        let mut start = start;
        // every fourth program: the fifty-move boundary counted from an irreversible move of a chosen
        // KIND played early (en-passant capture, capture by pawn / by piece, single / double push,
        // promotion), then 98..102 reversible half-moves without deliberate repetition
        if i % 4 == 3 && !terminal && !very_long {
            let kind = (i / 4) % 6;
            let mut found = false;
            for _ in 0..200 {
                let (root, forced) = match special_scenario(&mut cx.rng) { Some(x) => x, None => continue };
                let mut cur = root;
                for m in forced.iter() { cur = match guard(|| cur.make_move_new(*m)) { Some(n) => n, None => break }; }
                let ms = ops::moves_of(&cur).unwrap_or_default();
                let has = ms.iter().any(|m| { let c = classify(&cur, *m); match kind { 0 => c.ep, 1 => c.capture && c.pawn && !c.ep, 2 => c.capture && !c.pawn, 3 => c.pawn && !c.capture && !c.double_push && !c.promo, 4 => c.double_push, _ => c.promo } });
                if has && root.combined().popcnt() <= 12 {
                    start = root;
                    plan.prefix = forced;
                    found = true;
                    break;
                }
            }
            if found {
                let k = plan.prefix.len();
                plan.irreversible_at = Some(k);
                plan.irreversible_kind = kind;
                plan.lose_rights_at = None;
                plan.undo_pct = 0;
                plan.target = k + 1 + 98 + cx.rng.below(5);
                cx.sink.hist("boundary_after_irreversible_kind", ["en_passant", "pawn_capture", "piece_capture", "single_push", "double_push", "promotion"][kind].to_string());
            }
        }
        let lose = plan.lose_rights_at;
        let irr = plan.irreversible_at;
        // every eighth program: the third occurrence far (52..96 half-moves) from the first two, inside one quiet stretch
        let far = if kind == 5 && !terminal && !very_long && i % 4 != 3 {
            let mut r = None;
            for _ in 0..40 {
                let st = starts[cx.rng.below(starts.len())];
                if let Some(a) = far_repetition_program(&mut cx.rng, &st) { r = Some((st, a)); break; }
            }
            r
        } else { None };
        if let Some((st, a)) = far {
            cx.sink.count("plans_third_occurrence_far_apart");
            let line = ops::game(&st, &a);
            note_game(cx, &line);
            cx.sink.emit(line);
            continue;
        }
        let acts = draw_program(&mut cx.rng, &start, &plan);
        if terminal { cx.sink.count("plans_finishing_by_mate_or_stalemate_at_boundary"); }
        let moves = acts.iter().filter(|a| matches!(a, ops::Act::M(_))).count();
        cx.sink.hist("history_halfmoves", format!("{:03}", if (96..=104).contains(&moves) { moves } else { (moves / 10) * 10 }));
        if lose.is_some() { cx.sink.count("plans_with_rights_loss"); }
        if irr.is_some() { cx.sink.count("plans_with_irreversible_move"); }
        let line = ops::game(&start, &acts);
        note_game(cx, &line);
        cx.sink.emit(line);
    }
}

// ------------------------------------------------------------------ C12

/// SAN texts built from the PLACEMENT alone (never from the library's move list): every pawn step, double step,
/// capture, en-passant-shaped capture and promotion, every king step, and the ray / jump destinations of the other men
/// up to and including the first blocker.  The driver's oracle decides by the rules what each text denotes (an
/// admissible spelling of exactly one legal move must be parsed to that move), so a move the library fails to
/// generate is still asked for.
fn san_candidates(b: &Board) -> Vec<(String, bool)> {
    let d = BD::of_board(b);
    let me = d.stm;
    let mut out: Vec<(String, bool)> = Vec::new(); // (text, special)
    let name = |i: usize| -> String { format!("{}{}", (b'a' + (i & 7) as u8) as char, (b'1' + (i >> 3) as u8) as char) };
    let filech = |i: usize| -> char { (b'a' + (i & 7) as u8) as char };
    let on = |r: i32, f: i32| -> Option<usize> { if r >= 0 && r < 8 && f >= 0 && f < 8 { Some((r * 8 + f) as usize) } else { None } };
    for s in 0..64usize {
        let (p, c) = match d.sq[s] { Some(x) => x, None => continue };
        if c != me { continue; }
        let (r, f) = ((s >> 3) as i32, (s & 7) as i32);
        match p {
            Piece::Pawn => {
                let fw: i32 = if me == Color::White { 1 } else { -1 };
                let last = if me == Color::White { 7 } else { 0 };
                let start = if me == Color::White { 1 } else { 6 };
                let mut dests: Vec<(usize, bool)> = Vec::new(); // (dest, capture-shaped)
                if let Some(t) = on(r + fw, f) { if d.sq[t].is_none() { dests.push((t, false)); } }
                if r == start { if let (Some(m), Some(t)) = (on(r + fw, f), on(r + 2 * fw, f)) { if d.sq[m].is_none() && d.sq[t].is_none() { dests.push((t, false)); } } }
                for df in [-1i32, 1].iter() {
                    if let Some(t) = on(r + fw, f + df) {
                        match d.sq[t] { Some((_, oc)) if oc != me => dests.push((t, true)), None => dests.push((t, true)), _ => {} }
                    }
                }
                for (t, cap) in dests {
                    let base = if cap { format!("{}x{}", filech(s), name(t)) } else { name(t) };
                    let promos: Vec<&str> = if (t >> 3) as i32 == last { vec!["Q", "R", "B", "N"] } else { vec![""] };
                    for q in promos {
                        out.push((format!("{}{}", base, q), true));
                        if cap && d.sq[t].is_none() { out.push((format!("{}{} e.p.", base, q), true)); }
                        out.push((format!("{}{}+", base, q), true));
                    }
                }
            }
            _ => {
                let letter = match p { Piece::Knight => 'N', Piece::Bishop => 'B', Piece::Rook => 'R', Piece::Queen => 'Q', _ => 'K' };
                let mut dests: Vec<usize> = Vec::new();
                let steps: &[(i32, i32)] = match p {
                    Piece::Knight => &[(1, 2), (2, 1), (-1, 2), (-2, 1), (1, -2), (2, -1), (-1, -2), (-2, -1)],
                    Piece::King => &[(0, 1), (1, 0), (0, -1), (-1, 0), (1, 1), (1, -1), (-1, 1), (-1, -1)],
                    Piece::Bishop => &[(1, 1), (1, -1), (-1, 1), (-1, -1)],
                    Piece::Rook => &[(0, 1), (1, 0), (0, -1), (-1, 0)],
                    _ => &[(0, 1), (1, 0), (0, -1), (-1, 0), (1, 1), (1, -1), (-1, 1), (-1, -1)],
                };
                let slider = p == Piece::Bishop || p == Piece::Rook || p == Piece::Queen;
                for (dr, df) in steps.iter() {
                    let mut k = 1;
                    loop {
                        match on(r + dr * k, f + df * k) {
                            None => break,
                            Some(t) => {
                                match d.sq[t] { Some((_, oc)) if oc == me => break, Some(_) => { dests.push(t); break; } None => dests.push(t) }
                            }
                        }
                        if !slider { break; }
                        k += 1;
                    }
                }
                for t in dests {
                    let x = if d.sq[t].is_some() { "x" } else { "" };
                    out.push((format!("{}{}{}", letter, x, name(t)), p == Piece::King));
                    out.push((format!("{}{}{}{}", letter, filech(s), x, name(t)), false));
                    out.push((format!("{}{}{}{}", letter, (b'1' + (s >> 3) as u8) as char, x, name(t)), false));
                }
            }
        }
    }
    out
}

fn c12(cx: &mut Ctx) {
    let npos = cx.n(C12_POSITIONS);
    let mut goods: Vec<(Board, String)> = Vec::new();
    let mut count = 0usize;
    let roots = cx.corpus.boards.clone();
    let handle = |cx: &mut Ctx, b: &Board, goods: &mut Vec<(Board, String)>| {
        let ms = ops::moves_of(b).unwrap_or_default();
        cx.sink.note_position_with(b, &ms);
        cx.sink.count("positions");
        for m in ms.iter() {
            for t in san_spellings(b, &ms, *m) {
                let line = ops::san(b, &t, &mv(*m));
                cx.sink.note_result(&line);
                cx.sink.emit(line);
                if goods.len() < 4000 || cx.rng.chance(1, 50) {
                    if goods.len() < 4000 { goods.push((*b, t)); } else { let k = cx.rng.below(goods.len()); goods[k] = (*b, t); }
                }
            }
        }
        let (amb, mut rej) = san_rejections(b, &ms);
        cx.rng.shuffle(&mut rej);
        // every under-disambiguated spelling, and a bounded sample of the unreachable ones
        for t in amb.into_iter() {
            let line = ops::san(b, &t, "!");
            cx.sink.note_result(&line);
            cx.sink.count("must_reject_ambiguous");
            cx.sink.emit(line);
        }
        for t in rej.into_iter().take(C12_REJECT_PER_POS) {
            let line = ops::san(b, &t, "!");
            cx.sink.note_result(&line);
            cx.sink.count("must_reject_unreachable");
            cx.sink.emit(line);
        }
        // texts from the placement alone (the oracle decides what they denote): all pawn and king texts, a sample of the others
        {
            let mut cands = san_candidates(b);
            cx.rng.shuffle(&mut cands);
            let mut plain = 0usize;
            for (t, special) in cands.into_iter() {
                if !special {
                    if plain >= 10 { continue; }
                    plain += 1;
                }
                let line = ops::san(b, &t, "?");
                cx.sink.note_result(&line);
                cx.sink.count("placement_derived_texts");
                cx.sink.emit(line);
            }
        }
        // castling text in EVERY sampled position, whether or not castling is legal there (the
        // driver's oracle decides by the rules: it denotes the castling move or nothing)
        if cx.rng.chance(1, 3) {
            for base in ["O-O", "O-O-O"].iter() {
                let t = match cx.rng.below(4) { 0 => format!("{}+", base), 1 => format!("{}#", base), _ => base.to_string() };
                let line = ops::san(b, &t, "?");
                cx.sink.note_result(&line);
                cx.sink.count("castle_text_anywhere");
                cx.sink.emit(line);
            }
        }
    };
    // positions where a rook / queen (or nothing) stands on the king's home square and can reach the
    // castling destinations, with the king elsewhere
    {
        let n = cx.n(SCENARIOS) / 2;
        let mut done = 0usize; let mut tries = 0usize;
        while done < n && tries < n * 40 {
            tries += 1;
            let mut d = BD::empty();
            let white = cx.rng.chance(1, 2);
            let (c, o) = if white { (Color::White, Color::Black) } else { (Color::Black, Color::White) };
            let home = if white { 0 } else { 7 };
            let pc = [Piece::Rook, Piece::Queen, Piece::Rook, Piece::King][cx.rng.below(4)];
            d.sq[home * 8 + 4] = Some((pc, c));
            if pc != Piece::King { let ks = cx.rng.below(64); if d.sq[ks].is_none() { d.sq[ks] = Some((Piece::King, c)); } else { continue; } }
            let oks = cx.rng.below(64); if d.sq[oks].is_none() { d.sq[oks] = Some((Piece::King, o)); } else { continue; }
            if cx.rng.chance(1, 2) { let s = home * 8 + 7; if d.sq[s].is_none() { d.sq[s] = Some((Piece::Rook, c)); } }
            if cx.rng.chance(1, 2) { let s = home * 8; if d.sq[s].is_none() { d.sq[s] = Some((Piece::Rook, c)); } }
            for _ in 0..cx.rng.below(4) { let s = cx.rng.below(64); if d.sq[s].is_none() { let p = [Piece::Knight, Piece::Bishop, Piece::Pawn, Piece::Rook][cx.rng.below(4)]; if !(p == Piece::Pawn && (s < 8 || s >= 56)) { d.sq[s] = Some((p, if cx.rng.chance(1, 2) { c } else { o })); } } }
            d.stm = c;
            if pc == Piece::King && cx.rng.chance(2, 3) { let r = 1 + cx.rng.below(3); if white { d.wcr = r } else { d.bcr = r } }
            let b = match guard(|| Board::try_from(&d.builder()).ok()).flatten() { Some(b) => b, None => continue };
            done += 1;
            cx.sink.note_position(&b);
            for base in ["O-O", "O-O-O", "O-O+", "O-O-O#"].iter() {
                let line = ops::san(&b, base, "?");
                cx.sink.note_result(&line);
                cx.sink.count("castle_text_home_square_scenarios");
                cx.sink.emit(line);
            }
        }
    }
    for (i, b) in roots.iter().enumerate() {
        if count >= npos { break; }
        if i % 2 == 0 || i >= roots.len() - cx.corpus.derived { continue; }
        handle(cx, b, &mut goods);
        count += 1;
    }
    // positions with three to five men of ONE kind for the side to move (many spellings are ambiguous
    // between two, three or four of them; some of the candidates pinned)
    {
        let n = cx.n(SCENARIOS) / 5;
        let mut done = 0usize; let mut tries = 0usize;
        while done < n && tries < n * 40 {
            tries += 1;
            let mut d = BD::empty();
            let white = cx.rng.chance(1, 2);
            let (c, o) = if white { (Color::White, Color::Black) } else { (Color::Black, Color::White) };
            let kind = [Piece::Knight, Piece::Queen, Piece::Rook, Piece::Bishop][cx.rng.below(4)];
            let centre = 18 + cx.rng.below(4) + 8 * cx.rng.below(4);
            for _ in 0..(3 + cx.rng.below(3)) {
                let s = { let r = (centre / 8) as i32 + cx.rng.below(5) as i32 - 2; let f = (centre % 8) as i32 + cx.rng.below(5) as i32 - 2; (r.max(0).min(7) * 8 + f.max(0).min(7)) as usize };
                if d.sq[s].is_none() { d.sq[s] = Some((kind, c)); }
            }
            let ks = cx.rng.below(64); if d.sq[ks].is_none() { d.sq[ks] = Some((Piece::King, c)); } else { continue; }
            let oks = cx.rng.below(64); if d.sq[oks].is_none() { d.sq[oks] = Some((Piece::King, o)); } else { continue; }
            for _ in 0..cx.rng.below(4) { let s = cx.rng.below(64); if d.sq[s].is_none() { let p = [Piece::Rook, Piece::Bishop, Piece::Queen, Piece::Knight, Piece::Pawn][cx.rng.below(5)]; if !(p == Piece::Pawn && (s < 8 || s >= 56)) { d.sq[s] = Some((p, o)); } } }
            d.stm = c;
            let b = match guard(|| Board::try_from(&d.builder()).ok()).flatten() { Some(b) => b, None => continue };
            done += 1;
            cx.sink.count("many_same_kind_positions");
            handle(cx, &b, &mut goods);
        }
    }
    while count < npos {
        let root = cx.root();
        let plies = cx.rng.range(6, 120);
        let steps = playout(&mut cx.rng, &root, plies, Style::Tactical, 0);
        for s in steps.iter() {
            if count >= npos { break; }
            let ms = ops::moves_of(&s.after).unwrap_or_default();
            let special = ms.iter().any(|m| { let i = classify(&s.after, *m); i.ep || i.promo || i.castle });
            if special || cx.rng.chance(1, 12) {
                handle(cx, &s.after, &mut goods);
                count += 1;
            }
        }
    }
    // mutated / random / non-ASCII text against the positions the good spellings came from
    let nm = cx.n(C12_MUTATED);
    for _ in 0..nm {
        if goods.is_empty() { break; }
        let (b, good) = goods[cx.rng.below(goods.len())].clone();
        let t = match cx.rng.below(8) {
            0 | 1 | 2 => mutate(&mut cx.rng, &good, &SAN_ALPHA),
            3 => san_lenient(&mut cx.rng, &good),
            4 => random_text(&mut cx.rng, &SAN_ALPHA, 8),
            5 => {
                let v: Vec<char> = good.chars().collect();
                let k = cx.rng.below(v.len() + 1);
                v[..k].iter().collect()
            }
            6 => {
                if cx.rng.chance(1, 4) { overlong(&mut cx.rng, &good) } else { format!("{}{}", MULTI[cx.rng.below(MULTI.len())], good) }
            }
            _ => {
                // a good spelling of another position
                goods[cx.rng.below(goods.len())].1.clone()
            }
        };
        let line = ops::san(&b, &t, "?");
        cx.sink.note_result(&line);
        cx.sink.emit(line);
    }
}

// ------------------------------------------------------------------ C13

fn c13(cx: &mut Ctx) {
    for s in 0..64 {
        for d in 0..64 {
            for p in ops::PROMOS.iter() {
                cx.sink.emit(ops::showm(s, d, *p));
                // UCI on the rendering the harness itself writes
                let t = format!("{}{}{}", sq_name(sq(s)), sq_name(sq(d)), promo_ch(*p));
                cx.sink.emit(ops::uci(&t));
            }
        }
    }
    for s in 0..64 {
        cx.sink.emit(ops::showsq(s));
        cx.sink.emit(ops::sqp(&sq_name(sq(s))));
    }
    for f in "abcdefghi`AH".chars() {
        for r in "0123456789".chars() {
            cx.sink.emit(ops::sqp(&format!("{}{}", f, r)));
        }
    }
    // text that a lenient reader might skip (white space, byte-order mark, zero-width and formatting
    // characters, signs, quotes, upper case): in front of every square, and in front of / inside moves.
    // The result's rendering must be a prefix of the input, so none of these may be skipped.
    const SKIPPABLE: [&str; 30] = [
        " ", "\t", "\n", "\r", "\u{feff}", "\u{200b}", "\u{200c}", "\u{200d}", "\u{2060}", "\u{a0}", "\u{3000}", "\u{85}",
        "\u{0}", "\u{7f}", "+", "-", "0", "\"", "'", "(", "[", ".", ",", ":", "=", "x", "\u{202a}", "\u{e0001}", "\u{fe0f}", "  ",
    ];
    for s in 0..64 {
        for pre in SKIPPABLE.iter() {
            cx.sink.emit(ops::sqp(&format!("{}{}", pre, sq_name(sq(s)))));
        }
        let name = sq_name(sq(s));
        let (f, r) = name.split_at(1);
        for mid in SKIPPABLE.iter().take(14) {
            cx.sink.emit(ops::sqp(&format!("{}{}{}", f, mid, r)));
        }
        cx.sink.emit(ops::sqp(&name.to_uppercase()));
    }
    for _ in 0..cx.n(120) {
        let a = sq_name(sq(cx.rng.below(64)));
        let b = sq_name(sq(cx.rng.below(64)));
        let pr = ["", "", "q", "r", "b", "n"][cx.rng.below(6)];
        for pre in SKIPPABLE.iter() {
            cx.sink.emit(ops::uci(&format!("{}{}{}{}", pre, a, b, pr)));
            cx.sink.emit(ops::uci(&format!("{}{}{}{}", a, pre, b, pr)));
            if !pr.is_empty() {
                cx.sink.emit(ops::uci(&format!("{}{}{}{}", a, b, pre, pr)));
            }
        }
        cx.sink.emit(ops::uci(&format!("{}{}{}", a, b, pr).to_uppercase()));
    }
    let n = cx.n(C13_RANDOM);
    for i in 0..n {
        let base = format!(
            "{}{}{}",
            sq_name(sq(cx.rng.below(64))),
            sq_name(sq(cx.rng.below(64))),
            ["", "", "q", "r", "b", "n", "k", "Q", "p"][cx.rng.below(9)]
        );
        let t = match cx.rng.below(8) {
            0 | 1 | 2 => mutate(&mut cx.rng, &base, &UCI_ALPHA),
            3 => random_text(&mut cx.rng, &UCI_ALPHA, 7),
            4 => {
                let v: Vec<char> = base.chars().collect();
                let k = cx.rng.below(v.len() + 1);
                v[..k].iter().collect()
            }
            5 => overlong(&mut cx.rng, &base),
            6 => format!("{}{}", base, MULTI[cx.rng.below(MULTI.len())]),
            _ => {
                // multi-byte char inside the first four bytes
                let mut v: Vec<char> = base.chars().collect();
                let k = cx.rng.below(v.len().min(4) + 1);
                v.insert(k, MULTI[cx.rng.below(MULTI.len())]);
                v.into_iter().collect()
            }
        };
        let line = if i % 3 == 2 {
            let sqt: String = if cx.rng.chance(1, 2) { t.chars().take(cx.rng.range(0, 3)).collect() } else { t.clone() };
            ops::sqp(&sqt)
        } else {
            ops::uci(&t)
        };
        cx.sink.note_result(&line);
        cx.sink.emit(line);
    }
}

// ------------------------------------------------------------------ C14

fn c14(cx: &mut Ctx) {
    let n = cx.n(C14_PROGRAMS);
    let mut count = 0usize;
    let roots = cx.corpus.boards.clone();
    let one = |cx: &mut Ctx, b: &Board| {
        let prog = gen_program(&mut cx.rng, b);
        cx.sink.hist("program_len", format!("{:03}", (prog.len() / 20) * 20));
        for o in prog.iter() {
            match o {
                ops::GenOp::X(m) => {
                    let i = classify(b, *m);
                    cx.sink.count("removed_moves");
                    if i.ep { cx.sink.count("removed_ep_captures"); }
                    if i.promo { cx.sink.count("removed_promotions"); }
                }
                ops::GenOp::Y(_) => cx.sink.count("removed_masks"),
                ops::GenOp::K(_) => cx.sink.count("masks_set"),
                _ => {}
            }
        }
        cx.sink.emit(ops::gen(b, &prog));
    };
    for b in roots.iter() {
        if count >= n { break; }
        cx.sink.note_position(b);
        one(cx, b);
        count += 1;
    }
    // the last position of synthesized special-move scenarios (en passant available, promotions,
    // double checks, the 18-entry positions)
    let sc = cx.n(SCENARIOS) / 2;
    let mut done = 0usize;
    let mut tries = 0usize;
    while done < sc && tries < sc * 40 {
        tries += 1;
        if let Some((root, forced)) = special_scenario(&mut cx.rng) {
            let mut cur = root;
            let mut ok = true;
            for m in forced.iter() { match guard(|| cur.make_move_new(*m)) { Some(b) => cur = b, None => { ok = false; break; } } }
            if !ok { continue; }
            cx.sink.note_position(&cur);
            cx.sink.count("special_scenarios");
            one(cx, &cur);
            done += 1;
            count += 1;
        }
    }
    while count < n {
        let root = cx.root();
        let plies = cx.rng.range(6, 150);
        let steps = playout(&mut cx.rng, &root, plies, Style::Tactical, 0);
        for s in steps.iter() {
            if count >= n { break; }
            let ms = ops::moves_of(&s.after).unwrap_or_default();
            let special = ms.iter().any(|m| { let i = classify(&s.after, *m); i.ep || i.promo });
            if special || cx.rng.chance(1, 5) {
                cx.sink.note_position_with(&s.after, &ms);
                cx.sink.count("positions");
                one(cx, &s.after);
                count += 1;
                if special {
                    one(cx, &s.after);
                    count += 1;
                }
            }
        }
    }
}

// ------------------------------------------------------------------ C15

/// Relevant mask of a slider on `s`: ray squares without the last square of each ray direction
/// (computed geometrically here, never taken from the crate).
pub fn relevant_mask(s: usize, rook: bool) -> u64 {
    let dirs: [(i32, i32); 4] = if rook { [(1, 0), (-1, 0), (0, 1), (0, -1)] } else { [(1, 1), (1, -1), (-1, 1), (-1, -1)] };
    let mut m = 0u64;
    for (dr, df) in dirs.iter() {
        let mut r = (s >> 3) as i32 + dr;
        let mut f = (s & 7) as i32 + df;
        while r >= 0 && r < 8 && f >= 0 && f < 8 {
            let nr = r + dr;
            let nf = f + df;
            if nr >= 0 && nr < 8 && nf >= 0 && nf < 8 {
                m |= 1u64 << (r * 8 + f);
            }
            r = nr;
            f = nf;
        }
    }
    m
}

fn c15(cx: &mut Ctx) {
    let k = if cx.thorough { C15_FILLINGS_THOROUGH } else { C15_FILLINGS_QUICK };
    let bmi = tables::has_bmi();
    cx.sink.add("bmi2_build", bmi as u64);
    cx.sink.add("fillings", k as u64);
    for rook in [true, false].iter() {
        let (name, bname) = if *rook { ("ROOK", "ROOKBMI") } else { ("BISHOP", "BISHOPBMI") };
        for s in 0..64 {
            let mask = relevant_mask(s, *rook);
            cx.sink.hist("mask_bits", format!("{}{:02}", if *rook { "r" } else { "b" }, mask.count_ones()));
            let mut sub = 0u64;
            loop {
                for j in 0..k {
                    // first filling: exactly the subset; others: random content elsewhere
                    let occ = if j == 0 { sub } else { sub | (cx.rng.sparse() & !mask) };
                    if let Some(l) = tables::slider(name, s, occ) { cx.sink.emit(l); }
                    if bmi {
                        if let Some(l) = tables::slider(bname, s, occ) { cx.sink.emit(l); }
                    }
                }
                cx.sink.count("mask_subsets");
                sub = sub.wrapping_sub(mask) & mask;
                if sub == 0 { break; }
            }
        }
    }
}

// ------------------------------------------------------------------ C16

fn pawn_relevant(c: char, s: usize) -> Vec<usize> {
    // squares whose occupancy can matter to a pawn of colour c on s: two attack squares, one and
    // two steps ahead (wrapping like the crate's unchecked arithmetic is NOT assumed: plain geometry)
    let dir: i32 = if c == 'w' { 1 } else { -1 };
    let r = (s >> 3) as i32;
    let f = (s & 7) as i32;
    let mut v = Vec::new();
    for (dr, df) in [(dir, -1), (dir, 1), (dir, 0), (2 * dir, 0)].iter() {
        let nr = r + dr;
        let nf = f + df;
        if nr >= 0 && nr < 8 && nf >= 0 && nf < 8 {
            v.push((nr * 8 + nf) as usize);
        }
    }
    v
}

fn c16(cx: &mut Ctx) {
    let noise = if cx.thorough { C16_NOISE_THOROUGH } else { C16_NOISE_QUICK };
    let t = |cx: &mut Ctx, s: String| cx.sink.emit(tables::tbl_s(s));
    for s in 0..64 {
        for name in ["king", "knight", "rookrays", "bishoprays", "up", "down", "left", "right", "uup", "udown", "uleft", "uright", "getrank", "getfile"].iter() {
            t(cx, format!("{} {}", name, s));
        }
        for c in ["w", "b"].iter() {
            for name in ["forward", "backward", "uforward", "ubackward", "sq2cr"].iter() {
                t(cx, format!("{} {} {}", name, c, s));
            }
        }
        for s2 in 0..64 {
            t(cx, format!("between {} {}", s, s2));
            t(cx, format!("line {} {}", s, s2));
        }
    }
    for c in ['w', 'b'].iter() {
        for s in 0..64 {
            let rel = pawn_relevant(*c, s);
            for sub in 0..(1usize << rel.len()) {
                let mut occ = 0u64;
                for (i, q) in rel.iter().enumerate() {
                    if sub & (1 << i) != 0 { occ |= 1u64 << q; }
                }
                let relmask: u64 = rel.iter().fold(0, |a, q| a | (1u64 << q));
                for j in 0..(noise + 1) {
                    let o = if j == 0 { occ } else { occ | (cx.rng.sparse() & !relmask) };
                    for name in ["pawnattacks", "pawnquiets", "pawnmoves"].iter() {
                        t(cx, format!("{} {} {} {:x}", name, c, s, o));
                    }
                }
            }
        }
    }
    for i in 0..8 {
        for name in ["rank", "file", "adjfiles", "fileleft", "fileright", "rankup", "rankdown"].iter() {
            t(cx, format!("{} {}", name, i));
        }
        for j in 0..8 {
            t(cx, format!("mksq {} {}", i, j));
        }
    }
    t(cx, "edges".to_string());
    t(cx, "sqdefault".to_string());
    t(cx, "nums".to_string());
    t(cx, "empty".to_string());
    for (name, n) in [("sqconst", 64), ("allsq", 64), ("allfiles", 8), ("allranks", 8), ("allpieces", 6), ("allcolors", 2), ("allcr", 4), ("promo", 4)].iter() {
        for i in 0..*n {
            t(cx, format!("{} {}", name, i));
        }
    }
    for s in 0..64 {
        t(cx, format!("rsq2cr {}", s));
        t(cx, format!("toint {}", s));
    }
    for _ in 0..64 {
        let v = cx.rng.next_u64();
        let sh = (cx.rng.next_u64() % 64) as usize;
        t(cx, format!("tosize {:x} {}", v, sh));
    }
    for i in 0..=20 {
        t(cx, format!("fileidx {}", i));
        t(cx, format!("rankidx {}", i));
    }
    for i in 0..256 {
        t(cx, format!("sqnew {}", i));
    }
    for a in 0..4 {
        t(cx, format!("crks {}", a));
        t(cx, format!("crqs {}", a));
        for b in 0..4 {
            t(cx, format!("cradd {} {}", a, b));
            t(cx, format!("crrm {} {}", a, b));
        }
        for c in ["w", "b"].iter() {
            t(cx, format!("unmoved {} {}", a, c));
            t(cx, format!("crstr {} {}", a, c));
        }
    }
    for c in ["w", "b"].iter() {
        for name in ["backrank", "theirbackrank", "second", "fourth", "seventh", "ksq", "qsq"].iter() {
            t(cx, format!("{} {}", name, c));
        }
        for p in 0..6 {
            t(cx, format!("pcstr {} {}", p, c));
        }
    }
}

// ------------------------------------------------------------------ C17 / C18

fn c17(cx: &mut Ctx) {
    let n = cx.n(C17_POSITIONS);
    let mut i = 0usize;
    position_stream(cx, n, Style::Tactical, 2, 30, |cx, b, _| {
        // the corpus is taken completely, playout positions thinned by the stream size itself
        cx.sink.note_position(b);
        cx.sink.emit(ops::sym('m', b));
        let norights = b.castle_rights(Color::White).to_index() == 0 && b.castle_rights(Color::Black).to_index() == 0;
        if norights {
            cx.sink.count("file_flips");
            cx.sink.emit(ops::sym('f', b));
        }
        i += 1;
    });
}

fn c18(cx: &mut Ctx) {
    let sc = cx.n(SCENARIOS);
    emit_scenarios(cx, sc, false, false, true);
    let n = cx.n(C18_NULL);
    position_stream(cx, n, Style::Tactical, 8, 20, |cx, b, via_null| {
        cx.sink.note_position(b);
        if via_null { cx.sink.count("reached_by_null_move"); }
        let (line, _) = ops::null(b);
        if line.ends_with("NONE") { cx.sink.count("null_refused"); } else { cx.sink.count("null_made"); }
        if b.en_passant().is_some() && !line.ends_with("NONE") { cx.sink.count("null_made_with_ep_set"); }
        cx.sink.emit(line);
    });
}

// ------------------------------------------------------------------ C19 / C20

fn c19(cx: &mut Ctx) {
    let n = cx.n(C19_PROGRAMS);
    // every valid size once, every listed invalid size once, then random
    for k in 0..17 {
        let (_, prog) = cache_program(&mut cx.rng);
        cx.sink.emit(ops::cache(1u64 << k, &prog));
    }
    for s in CACHE_BAD_SIZES.iter() {
        let (_, prog) = cache_program(&mut cx.rng);
        cx.sink.emit(ops::cache(*s, &prog));
    }
    // sizes beyond 2^16 (the index no longer fits 16 bits): programs whose hashes have their
    // distinguishing index bits at the TOP of the index range
    let top = if cx.thorough { 23 } else { 21 };
    for k in 17..=top {
        for _ in 0..2 {
            let prog = cache_program_for(&mut cx.rng, 1u64 << k);
            cx.sink.hist("size_kind", format!("2^{:02}", k));
            cx.sink.emit(ops::cache(1u64 << k, &prog));
        }
    }
    for _ in 0..n {
        let (size, prog) = cache_program(&mut cx.rng);
        cx.sink.hist("program_len", format!("{:03}", (prog.len() / 10) * 10));
        cx.sink.hist("size_kind", if size.count_ones() == 1 { format!("2^{:02}", size.trailing_zeros()) } else { "invalid".to_string() });
        let line = ops::cache(size, &prog);
        if line.ends_with("PANIC") { cx.sink.count("panics"); }
        cx.sink.emit(line);
    }
}

fn structured_values(rng: &mut Rng, n: usize) -> Vec<u64> {
    let mut v: Vec<u64> = vec![0, !0, 1, 1 << 63, 0x00FF_0000_0000_FF00, 0x8142_2418_1824_4281, 0x5555_5555_5555_5555, 0xAAAA_AAAA_AAAA_AAAA, 0x0101_0101_0101_0101, 0xFF];
    for i in 0..64 {
        v.push(1u64 << i);
        v.push(!(1u64 << i));
    }
    for i in 0..8 {
        v.push(0xFFu64 << (8 * i));
        v.push(0x0101_0101_0101_0101u64 << i);
    }
    for _ in 0..n {
        v.push(rng.sparse());
    }
    v
}

fn c20(cx: &mut Ctx) {
    let nrand = cx.n(C20_RANDOM);
    let vals = structured_values(&mut cx.rng, nrand);
    cx.sink.add("values", vals.len() as u64);
    for s in 0..64 {
        cx.sink.emit(tables::bbfromsq(s));
    }
    for r in 0..8 {
        for f in 0..8 {
            cx.sink.emit(tables::bbset(r, f));
        }
    }
    for a in vals.iter() {
        cx.sink.emit(tables::bbiter(*a));
        cx.sink.emit(tables::bbcnt(*a));
        cx.sink.emit(tables::bbtosq(*a));
        cx.sink.emit(tables::bbrev(*a));
        cx.sink.emit(tables::bbop("not", *a, 0));
        let b = vals[cx.rng.below(vals.len())];
        for op in ["and", "or", "xor", "mul"].iter() {
            cx.sink.emit(tables::bbop(op, *a, b));
        }
    }
}

pub fn run(prop: &str, cx: &mut Ctx) -> bool {
    match prop {
        "C01" => c01(cx),
        "C02" => c02(cx),
        "C03" => c03(cx),
        "C04" => c04(cx),
        "C05" => c05(cx),
        "C06" => c06(cx),
        "C07" => c07(cx),
        "C08" => c08(cx),
        "C09" => c09(cx),
        "C10" => c10(cx),
        "C11" => c11(cx),
        "C12" => c12(cx),
        "C13" => c13(cx),
        "C14" => c14(cx),
        "C15" => c15(cx),
        "C16" => c16(cx),
        "C17" => c17(cx),
        "C18" => c18(cx),
        "C19" => c19(cx),
        "C20" => c20(cx),
        _ => return false,
    }
    true
}
