//! Differential-testing harness for the `chess` crate (see /verif/PROTOCOL.md).
//!
//!   harness gen <Cxx> <quick|thorough> <seed> <outdir> [--shards N]
//!   harness replay            (lines on stdin -> recomputed full lines on stdout)

mod enc;
mod gens;
mod keyrel;
mod ops;
mod programs;
mod props;
mod replay;
mod rng;
mod sink;
mod strings;
mod tables;

use std::io::{BufRead, Write};

fn usage() -> ! {
    eprintln!("usage: harness gen <C01..C20> <quick|thorough> <seed> <outdir> [--shards N]\n       harness replay < lines");
    std::process::exit(2);
}

fn parse_seed(s: &str) -> Option<u64> {
    if let Some(h) = s.strip_prefix("0x") {
        u64::from_str_radix(h, 16).ok()
    } else {
        s.parse::<u64>().ok()
    }
}

fn main() {
    // a panic inside the library is data: keep stderr quiet
    std::panic::set_hook(Box::new(|info| {
        if enc::GUARD_DEPTH.load(std::sync::atomic::Ordering::SeqCst) == 0 {
            eprintln!("harness: internal panic: {}", info);
        }
    }));
    let args: Vec<String> = std::env::args().collect();
    if args.len() < 2 {
        usage();
    }
    match args[1].as_str() {
        "keyrel" => {
            if args.len() < 4 {
                usage();
            }
            keyrel::main(&args[2], args[3].parse().unwrap_or(6));
        }
        "replay" => {
            let stdin = std::io::stdin();
            let stdout = std::io::stdout();
            let mut out = std::io::BufWriter::new(stdout.lock());
            for line in stdin.lock().lines() {
                let line = match line {
                    Ok(l) => l,
                    Err(_) => break,
                };
                if line.trim().is_empty() {
                    continue;
                }
                let r = std::panic::catch_unwind(|| replay::eval(&line)).unwrap_or_else(|_| format!("{} => HARNESS-PANIC", line));
                if writeln!(out, "{}", r).is_err() {
                    break;
                }
            }
            let _ = out.flush();
        }
        "gen" => {
            if args.len() < 6 {
                usage();
            }
            let prop = args[2].to_uppercase();
            let valid = prop.len() == 3
                && prop.starts_with('C')
                && prop[1..].parse::<u32>().map(|n| (1..=20).contains(&n)).unwrap_or(false);
            if !valid {
                eprintln!("harness: unknown property {}", prop);
                std::process::exit(2);
            }
            let thorough = match args[3].as_str() {
                "quick" => false,
                "thorough" => true,
                _ => usage(),
            };
            let seed = match parse_seed(&args[4]) {
                Some(s) => s,
                None => usage(),
            };
            let outdir = args[5].clone();
            let mut shards = 16usize;
            let mut i = 6;
            while i < args.len() {
                if args[i] == "--shards" && i + 1 < args.len() {
                    shards = args[i + 1].parse().unwrap_or(16).max(1);
                    i += 2;
                } else {
                    usage();
                }
            }
            let t0 = std::time::Instant::now();
            let corpus = gens::load_corpus();
            let sink = match sink::Sink::new(&outdir, shards) {
                Ok(s) => s,
                Err(e) => {
                    eprintln!("harness: {}", e);
                    std::process::exit(1);
                }
            };
            // the property id is mixed into the seed so that properties sharing generators do not
            // see identical streams
            let pnum: u64 = prop[1..].parse().unwrap_or(0);
            let mut cx = props::Ctx {
                rng: rng::Rng::new(seed ^ pnum.wrapping_mul(0xA076_1D64_78BD_642F)),
                sink,
                corpus,
                thorough,
            };
            cx.sink.add("corpus_fens_accepted", cx.corpus.fens.len() as u64);
            cx.sink.add("corpus_fens_rejected", cx.corpus.rejected as u64);
            cx.sink.add("corpus_mirrored_roots", cx.corpus.derived as u64);
            cx.sink.add("corpus_ep_mark_without_predecessor", cx.corpus.ep_without_predecessor as u64);
            let known = match std::panic::catch_unwind(std::panic::AssertUnwindSafe(|| props::run(&prop, &mut cx))) {
                Ok(k) => k,
                Err(_) => {
                    eprintln!("harness: internal panic while generating {}", prop);
                    std::process::exit(3);
                }
            };
            if !known {
                eprintln!("harness: unknown property {}", prop);
                std::process::exit(2);
            }
            let lines = cx.sink.lines;
            let header = [
                ("property", format!("\"{}\"", prop)),
                ("tier", format!("\"{}\"", args[3])),
                ("seed", seed.to_string()),
                ("shards", shards.to_string()),
                ("bmi2", (tables::has_bmi() as u8).to_string()),
                ("checked_build", (cfg!(debug_assertions) as u8).to_string()),
                ("gen_seconds", format!("{:.3}", t0.elapsed().as_secs_f64())),
            ];
            if let Err(e) = cx.sink.finish(&outdir, &header) {
                eprintln!("harness: {}", e);
                std::process::exit(1);
            }
            println!("{} {} seed={} lines={} seconds={:.2}", prop, args[3], seed, lines, t0.elapsed().as_secs_f64());
        }
        _ => usage(),
    }
}
