fn main(){ println!("{}", chess::Board::default()); }
