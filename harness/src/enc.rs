//! Encodings of the line protocol (PROTOCOL.md) and the inverse parsers used by `replay`.

use chess::{
    BitBoard, Board, BoardBuilder, BoardStatus, CastleRights, ChessMove, Color, File, GameResult,
    Piece, Rank, Square, ALL_PIECES, ALL_SQUARES,
};
use std::convert::TryFrom;
use std::hash::{Hash, Hasher};
use std::panic::{catch_unwind, AssertUnwindSafe};

/// Nesting depth of `guard`: the panic hook stays silent inside (a library panic is data) and
/// reports panics of the harness's own code outside.
pub static GUARD_DEPTH: std::sync::atomic::AtomicUsize = std::sync::atomic::AtomicUsize::new(0);

/// Run a closure that calls into the library; a panic is data (`None`).
pub fn guard<T, F: FnOnce() -> T>(f: F) -> Option<T> {
    use std::sync::atomic::Ordering;
    GUARD_DEPTH.fetch_add(1, Ordering::SeqCst);
    let r = catch_unwind(AssertUnwindSafe(f)).ok();
    GUARD_DEPTH.fetch_sub(1, Ordering::SeqCst);
    r
}

// ---------------------------------------------------------------- text

pub fn hex_text(s: &str) -> String {
    if s.is_empty() {
        return "-".to_string();
    }
    let mut out = String::with_capacity(s.len() * 2);
    for b in s.as_bytes() {
        out.push(char::from_digit((*b >> 4) as u32, 16).unwrap());
        out.push(char::from_digit((*b & 15) as u32, 16).unwrap());
    }
    out
}

/// Inverse of `hex_text`; `None` when the token is not hex or not valid UTF-8.
pub fn unhex_text(s: &str) -> Option<String> {
    if s == "-" {
        return Some(String::new());
    }
    let b = s.as_bytes();
    if b.len() % 2 != 0 {
        return None;
    }
    let mut out = Vec::with_capacity(b.len() / 2);
    for i in 0..b.len() / 2 {
        let h = (b[2 * i] as char).to_digit(16)?;
        let l = (b[2 * i + 1] as char).to_digit(16)?;
        out.push((h * 16 + l) as u8);
    }
    String::from_utf8(out).ok()
}

pub fn hx(v: u64) -> String {
    format!("{:x}", v)
}

pub fn parse_hex(s: &str) -> Option<u64> {
    u64::from_str_radix(s, 16).ok()
}

// ---------------------------------------------------------------- small enums

pub fn color_ch(c: Color) -> char {
    if c == Color::White {
        'w'
    } else {
        'b'
    }
}

pub fn parse_color(s: &str) -> Option<Color> {
    match s {
        "w" => Some(Color::White),
        "b" => Some(Color::Black),
        _ => None,
    }
}

pub fn sq(i: usize) -> Square {
    ALL_SQUARES[i & 63]
}

pub fn parse_sq(s: &str) -> Option<Square> {
    let v: usize = s.parse().ok()?;
    if v < 64 {
        Some(sq(v))
    } else {
        None
    }
}

pub fn opt_sq(s: Option<Square>) -> String {
    match s {
        None => "-".to_string(),
        Some(x) => x.to_index().to_string(),
    }
}

pub fn status_ch(s: BoardStatus) -> char {
    match s {
        BoardStatus::Ongoing => 'o',
        BoardStatus::Stalemate => 's',
        BoardStatus::Checkmate => 'c',
    }
}

pub fn result_str(r: Option<GameResult>) -> &'static str {
    match r {
        None => "-",
        Some(GameResult::WhiteCheckmates) => "WC",
        Some(GameResult::WhiteResigns) => "WR",
        Some(GameResult::BlackCheckmates) => "BC",
        Some(GameResult::BlackResigns) => "BR",
        Some(GameResult::Stalemate) => "SM",
        Some(GameResult::DrawAccepted) => "DA",
        Some(GameResult::DrawDeclared) => "DD",
    }
}

pub const PIECE_CHARS: &str = ".PNBRQKpnbrqk";

pub fn piece_char(pc: Option<(Piece, Color)>) -> char {
    match pc {
        None => '.',
        Some((p, c)) => {
            let i = p.to_index() + 1 + if c == Color::White { 0 } else { 6 };
            PIECE_CHARS.as_bytes()[i] as char
        }
    }
}

pub fn char_piece(ch: char) -> Option<Option<(Piece, Color)>> {
    let i = PIECE_CHARS.find(ch)?;
    if i == 0 {
        Some(None)
    } else if i <= 6 {
        Some(Some((ALL_PIECES[i - 1], Color::White)))
    } else {
        Some(Some((ALL_PIECES[i - 7], Color::Black)))
    }
}

// ---------------------------------------------------------------- moves

pub fn promo_ch(p: Option<Piece>) -> &'static str {
    match p {
        None => "",
        Some(Piece::Queen) => "q",
        Some(Piece::Rook) => "r",
        Some(Piece::Bishop) => "b",
        Some(Piece::Knight) => "n",
        Some(Piece::Pawn) => "p",
        Some(Piece::King) => "k",
    }
}

pub fn sq_name(s: Square) -> String {
    let i = s.to_index();
    let mut o = String::new();
    o.push((b'a' + (i & 7) as u8) as char);
    o.push((b'1' + (i >> 3) as u8) as char);
    o
}

/// UCI text of a move, written by the harness itself (not through `Display`).
pub fn mv(m: ChessMove) -> String {
    format!(
        "{}{}{}",
        sq_name(m.get_source()),
        sq_name(m.get_dest()),
        promo_ch(m.get_promotion())
    )
}

pub fn mvlist(v: &[ChessMove]) -> String {
    if v.is_empty() {
        return "-".to_string();
    }
    let mut o = String::with_capacity(v.len() * 6);
    for (i, m) in v.iter().enumerate() {
        if i > 0 {
            o.push(',');
        }
        o.push_str(&mv(*m));
    }
    o
}

/// Own strict parser of the protocol's move token (never calls the library's `from_str`).
pub fn parse_mv(s: &str) -> Option<ChessMove> {
    let b = s.as_bytes();
    if b.len() != 4 && b.len() != 5 {
        return None;
    }
    let f = |c: u8| if (b'a'..=b'h').contains(&c) { Some((c - b'a') as usize) } else { None };
    let r = |c: u8| if (b'1'..=b'8').contains(&c) { Some((c - b'1') as usize) } else { None };
    let s1 = r(b[1])? * 8 + f(b[0])?;
    let s2 = r(b[3])? * 8 + f(b[2])?;
    let p = if b.len() == 5 {
        Some(match b[4] {
            b'q' => Piece::Queen,
            b'r' => Piece::Rook,
            b'b' => Piece::Bishop,
            b'n' => Piece::Knight,
            _ => return None,
        })
    } else {
        None
    };
    Some(ChessMove::new(sq(s1), sq(s2), p))
}

// ---------------------------------------------------------------- board dump

struct Capture(u64, u32);
impl Hasher for Capture {
    fn finish(&self) -> u64 {
        self.0
    }
    fn write(&mut self, bytes: &[u8]) {
        let mut v = [0u8; 8];
        for (i, b) in bytes.iter().take(8).enumerate() {
            v[i] = *b;
        }
        self.0 = u64::from_ne_bytes(v);
        self.1 += 1;
    }
    fn write_u64(&mut self, i: u64) {
        self.0 = i;
        self.1 += 1;
    }
}

/// The raw `Board.hash` field, observed through `impl Hash for Board`.
pub fn raw_hash(b: &Board) -> u64 {
    let mut h = Capture(0, 0);
    b.hash(&mut h);
    h.0
}

pub fn std_hash(b: &Board) -> u64 {
    let mut h = std::collections::hash_map::DefaultHasher::new();
    b.hash(&mut h);
    h.finish()
}

#[derive(Clone, PartialEq, Eq, Debug)]
pub struct Dump {
    pub pieces: [u64; 6],
    pub white: u64,
    pub black: u64,
    pub combined: u64,
    pub stm: Color,
    pub wcr: usize,
    pub bcr: usize,
    pub pinned: u64,
    pub checkers: u64,
    pub hash: u64,
    pub ep: Option<usize>,
}

impl Dump {
    pub fn of(b: &Board) -> Dump {
        let mut pieces = [0u64; 6];
        for p in ALL_PIECES.iter() {
            pieces[p.to_index()] = b.pieces(*p).0;
        }
        Dump {
            pieces,
            white: b.color_combined(Color::White).0,
            black: b.color_combined(Color::Black).0,
            combined: b.combined().0,
            stm: b.side_to_move(),
            wcr: b.castle_rights(Color::White).to_index(),
            bcr: b.castle_rights(Color::Black).to_index(),
            pinned: b.pinned().0,
            checkers: b.checkers().0,
            // the *observable* hash `get_hash()`; the driver derives the private `hash` field of the model from it
            // (raw = get_hash ^ side ^ castle ^ ep keys), so `impl Hash` is never relied on for the state
            hash: guard(|| b.get_hash()).unwrap_or(0),
            ep: b.en_passant().map(|s| s.to_index()),
        }
    }

    pub fn text(&self) -> String {
        format!(
            "{:x},{:x},{:x},{:x},{:x},{:x},{:x},{:x},{:x},{},{},{},{:x},{:x},{:x},{}",
            self.pieces[0],
            self.pieces[1],
            self.pieces[2],
            self.pieces[3],
            self.pieces[4],
            self.pieces[5],
            self.white,
            self.black,
            self.combined,
            color_ch(self.stm),
            self.wcr,
            self.bcr,
            self.pinned,
            self.checkers,
            self.hash,
            match self.ep {
                None => "-".to_string(),
                Some(x) => x.to_string(),
            }
        )
    }

    pub fn parse(s: &str) -> Option<Dump> {
        let f: Vec<&str> = s.split(',').collect();
        if f.len() != 16 {
            return None;
        }
        let mut pieces = [0u64; 6];
        for i in 0..6 {
            pieces[i] = parse_hex(f[i])?;
        }
        let small = |t: &str| -> Option<usize> {
            let v: usize = t.parse().ok()?;
            if v < 4 {
                Some(v)
            } else {
                None
            }
        };
        Some(Dump {
            pieces,
            white: parse_hex(f[6])?,
            black: parse_hex(f[7])?,
            combined: parse_hex(f[8])?,
            stm: parse_color(f[9])?,
            wcr: small(f[10])?,
            bcr: small(f[11])?,
            pinned: parse_hex(f[12])?,
            checkers: parse_hex(f[13])?,
            hash: parse_hex(f[14])?,
            ep: if f[15] == "-" {
                None
            } else {
                let v: usize = f[15].parse().ok()?;
                if v >= 64 {
                    return None;
                }
                Some(v)
            },
        })
    }

    /// Rebuild a `Board` through `BoardBuilder` + `try_from`; `None` when the crate refuses it or
    /// the rebuilt board does not dump to exactly `self` (REPLAY-MISMATCH).
    pub fn rebuild(&self) -> Option<Board> {
        let mut bb = BoardBuilder::new();
        for i in 0..64 {
            let bit = 1u64 << i;
            let color = if self.white & bit != 0 {
                Color::White
            } else if self.black & bit != 0 {
                Color::Black
            } else {
                continue;
            };
            for p in ALL_PIECES.iter() {
                if self.pieces[p.to_index()] & bit != 0 {
                    bb.piece(sq(i), *p, color);
                    break;
                }
            }
        }
        bb.side_to_move(self.stm);
        bb.castle_rights(Color::White, cr(self.wcr));
        bb.castle_rights(Color::Black, cr(self.bcr));
        bb.en_passant(self.ep.map(|s| File::from_index(s & 7)));
        let b = guard(|| Board::try_from(&bb).ok())??;
        if Dump::of(&b) == *self {
            Some(b)
        } else {
            None
        }
    }
}

pub fn dump(b: &Board) -> String {
    Dump::of(b).text()
}

pub fn cr(i: usize) -> CastleRights {
    CastleRights::from_index(i)
}

// ---------------------------------------------------------------- builder dump

/// Plain-data picture of a `BoardBuilder` (the crate's type has no `PartialEq`).
#[derive(Clone, PartialEq, Eq, Debug)]
pub struct BD {
    pub sq: [Option<(Piece, Color)>; 64],
    pub stm: Color,
    pub wcr: usize,
    pub bcr: usize,
    pub ep: Option<usize>,
}

impl BD {
    pub fn empty() -> BD {
        BD {
            sq: [None; 64],
            stm: Color::White,
            wcr: 0,
            bcr: 0,
            ep: None,
        }
    }

    pub fn of_builder(b: &BoardBuilder) -> BD {
        let mut sqs = [None; 64];
        for i in 0..64 {
            sqs[i] = b[sq(i)];
        }
        BD {
            sq: sqs,
            stm: b.get_side_to_move(),
            wcr: b.get_castle_rights(Color::White).to_index(),
            bcr: b.get_castle_rights(Color::Black).to_index(),
            ep: b.get_en_passant().map(|s| s.get_file().to_index()),
        }
    }

    pub fn of_board(b: &Board) -> BD {
        let mut sqs = [None; 64];
        for i in 0..64 {
            let s = sq(i);
            if let (Some(p), Some(c)) = (b.piece_on(s), b.color_on(s)) {
                sqs[i] = Some((p, c));
            }
        }
        BD {
            sq: sqs,
            stm: b.side_to_move(),
            wcr: b.castle_rights(Color::White).to_index(),
            bcr: b.castle_rights(Color::Black).to_index(),
            ep: b.en_passant().map(|s| s.get_file().to_index()),
        }
    }

    pub fn builder(&self) -> BoardBuilder {
        let mut bb = BoardBuilder::new();
        for i in 0..64 {
            if let Some((p, c)) = self.sq[i] {
                bb.piece(sq(i), p, c);
            }
        }
        bb.side_to_move(self.stm);
        bb.castle_rights(Color::White, cr(self.wcr));
        bb.castle_rights(Color::Black, cr(self.bcr));
        bb.en_passant(self.ep.map(File::from_index));
        bb
    }

    /// The same state through a state-determined order of the setter calls (one of the 24 orders of the four
    /// field groups, squares ascending or descending, optionally preceded by junk values that are overwritten).
    pub fn builder_shuffled(&self) -> BoardBuilder {
        let mut h: u64 = 0xcbf29ce484222325;
        for b in self.text().bytes() {
            h = (h ^ b as u64).wrapping_mul(0x100000001b3);
        }
        let mut bb = BoardBuilder::new();
        if h & 1 != 0 {
            bb.side_to_move(!self.stm);
            bb.en_passant(Some(File::from_index(((h >> 8) & 7) as usize)));
            bb.castle_rights(Color::White, cr(((h >> 12) & 3) as usize));
            bb.castle_rights(Color::Black, cr(((h >> 14) & 3) as usize));
            bb.piece(sq(((h >> 16) & 63) as usize), Piece::Knight, Color::White);
        }
        let mut order = [0usize, 1, 2, 3];
        let mut k = (h >> 24) % 24;
        for i in 0..3 {
            let n = 4 - i as u64;
            let j = i + (k % n) as usize;
            k /= n;
            order.swap(i, j);
        }
        for step in order.iter() {
            match *step {
                0 => {
                    bb.side_to_move(self.stm);
                }
                1 => {
                    bb.en_passant(self.ep.map(File::from_index));
                }
                2 => {
                    if h & 2 != 0 {
                        bb.castle_rights(Color::Black, cr(self.bcr));
                        bb.castle_rights(Color::White, cr(self.wcr));
                    } else {
                        bb.castle_rights(Color::White, cr(self.wcr));
                        bb.castle_rights(Color::Black, cr(self.bcr));
                    }
                }
                _ => {
                    for i in 0..64 {
                        let i = if h & 4 != 0 { 63 - i } else { i };
                        match self.sq[i] {
                            Some((p, c)) => {
                                bb.piece(sq(i), p, c);
                            }
                            None => {
                                bb.clear_square(sq(i));
                            }
                        }
                    }
                }
            }
        }
        bb
    }

    /// The same state through `BoardBuilder::setup`.
    pub fn builder_setup(&self) -> BoardBuilder {
        let mut v: Vec<(Square, Piece, Color)> = Vec::new();
        for i in 0..64 {
            if let Some((p, c)) = self.sq[i] {
                v.push((sq(i), p, c));
            }
        }
        BoardBuilder::setup(&v, self.stm, cr(self.wcr), cr(self.bcr), self.ep.map(File::from_index))
    }

    pub fn text(&self) -> String {
        let mut o = String::with_capacity(80);
        for i in 0..64 {
            o.push(piece_char(self.sq[i]));
        }
        o.push(',');
        o.push(color_ch(self.stm));
        o.push_str(&format!(",{},{},", self.wcr, self.bcr));
        match self.ep {
            None => o.push('-'),
            Some(f) => o.push_str(&f.to_string()),
        }
        o
    }

    pub fn parse(s: &str) -> Option<BD> {
        let f: Vec<&str> = s.split(',').collect();
        if f.len() != 5 {
            return None;
        }
        let chars: Vec<char> = f[0].chars().collect();
        if chars.len() != 64 {
            return None;
        }
        let mut sqs = [None; 64];
        for i in 0..64 {
            sqs[i] = char_piece(chars[i])?;
        }
        let small = |t: &str, lim: usize| -> Option<usize> {
            let v: usize = t.parse().ok()?;
            if v < lim {
                Some(v)
            } else {
                None
            }
        };
        Some(BD {
            sq: sqs,
            stm: parse_color(f[1])?,
            wcr: small(f[2], 4)?,
            bcr: small(f[3], 4)?,
            ep: if f[4] == "-" { None } else { Some(small(f[4], 8)?) },
        })
    }

    pub fn men(&self) -> usize {
        self.sq.iter().filter(|x| x.is_some()).count()
    }
}

pub fn rank_of(i: usize) -> Rank {
    Rank::from_index(i)
}
pub fn file_of(i: usize) -> File {
    File::from_index(i)
}
pub fn bb(v: u64) -> BitBoard {
    BitBoard(v)
}
