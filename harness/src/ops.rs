//! The operations of the line protocol, executed against the real crate. Every function returns the
//! complete line `OP args => result`. Every call into the crate is under `guard` (catch_unwind).

use crate::enc::*;
use chess::{
    Board, BoardBuilder, BoardStatus, CacheTable, ChessMove, Color, Error, Game, MoveGen, Piece,
    Square,
};
use std::convert::TryFrom;
use std::str::FromStr;

pub const KIWIPETE: &str = "r3k2r/p1ppqpb1/bn2pnp1/3PN3/1p2P3/2N2Q1p/PPPBBPPP/R3K2R w KQkq - 0 1";
const PREFILL3: &str = "4k3/8/8/3pP3/8/8/8/4K3 w - d6 0 1";

/// Legal moves in generator order; `None` on panic.
pub fn moves_of(b: &Board) -> Option<Vec<ChessMove>> {
    guard(|| MoveGen::new_legal(b).collect::<Vec<ChessMove>>())
}

pub fn status_of(b: &Board) -> Option<BoardStatus> {
    guard(|| b.status())
}

fn opt<T: ToString>(v: Option<T>) -> String {
    match v {
        Some(x) => x.to_string(),
        None => "PANIC".to_string(),
    }
}

fn b01(v: bool) -> &'static str {
    if v {
        "1"
    } else {
        "0"
    }
}

fn hint_str(h: (usize, Option<usize>)) -> String {
    match h.1 {
        Some(hi) => format!("{}/{}", h.0, hi),
        None => format!("{}/none", h.0),
    }
}

// ------------------------------------------------------------------ POS

pub fn pos(b: &Board) -> String {
    let moves = moves_of(b);
    let len = guard(|| MoveGen::new_legal(b).len());
    let hint = guard(|| MoveGen::new_legal(b).size_hint());
    let status = status_of(b);
    let sane = guard(|| b.is_sane());
    let fen = guard(|| format!("{}", b));
    let reparse: Option<Option<Board>> = match &fen {
        Some(f) => guard(|| Board::from_str(f).ok()),
        None => Some(None),
    };
    let ghash = guard(|| b.get_hash());
    let hc = guard(|| {
        let c = b.clone();
        let mut ok = std_hash(&c) == std_hash(b) && raw_hash(&c) == raw_hash(b);
        if let Some(Some(r)) = &reparse {
            if *r == *b && std_hash(r) != std_hash(b) {
                ok = false;
            }
        }
        ok
    });
    let wk = guard(|| b.king_square(Color::White).to_index());
    let bk = guard(|| b.king_square(Color::Black).to_index());
    let lq = match &moves {
        Some(ms) => guard(|| ms.iter().all(|m| MoveGen::legal_quick(b, *m))),
        None => None,
    };
    let en = match &moves {
        None => "PANIC".to_string(),
        Some(ms) if ms.len() > 256 => "SKIP".to_string(),
        #[cfg(not(has_enumerate_moves))]
        Some(_) => "SKIP".to_string(),
        #[cfg(has_enumerate_moves)]
        Some(ms) => {
            #[allow(deprecated)]
            let r = guard(|| {
                let mut buf = [ChessMove::default(); 256];
                let n = b.enumerate_moves(&mut buf);
                (n, buf)
            });
            match r {
                None => "PANIC".to_string(),
                Some((n, buf)) => {
                    if n == ms.len() && buf[..n] == ms[..] {
                        n.to_string()
                    } else {
                        "DIFF".to_string()
                    }
                }
            }
        }
    };
    let po = guard(|| {
        let mut s = String::with_capacity(64);
        for i in 0..64 {
            let p = b.piece_on(sq(i));
            let c = b.color_on(sq(i));
            s.push(match (p, c) {
                (None, None) => '.',
                (Some(p), Some(c)) => piece_char(Some((p, c))),
                _ => '?',
            });
        }
        s
    });
    // the single-move legality query on every geometrically plausible triple of this position: own man on the
    // source, destination on a common rank/file/diagonal or a knight's jump away, all five promotion options
    // (a superset of every legal move; ~2-3 thousand of the 20480 triples).  `SAME` = accepted exactly the
    // generated moves; otherwise the accepted triples are listed.
    let lgq = match &moves {
        None => "PANIC".to_string(),
        Some(ms) => match guard(|| {
            let own = b.color_combined(b.side_to_move()).0;
            let mut acc: Vec<ChessMove> = Vec::new();
            for s in 0..64usize {
                if own & (1u64 << s) == 0 {
                    continue;
                }
                for d in 0..64usize {
                    if d == s {
                        continue;
                    }
                    let df = ((s & 7) as i32 - (d & 7) as i32).abs();
                    let dr = ((s >> 3) as i32 - (d >> 3) as i32).abs();
                    if !(df == 0 || dr == 0 || df == dr || (df == 1 && dr == 2) || (df == 2 && dr == 1)) {
                        continue;
                    }
                    for p in PROMOS.iter() {
                        let m = ChessMove::new(sq(s), sq(d), *p);
                        if b.legal(m) {
                            acc.push(m);
                        }
                    }
                }
            }
            acc
        }) {
            None => "PANIC".to_string(),
            Some(acc) => {
                let mut a: Vec<String> = acc.iter().map(|m| mv(*m)).collect();
                let mut g: Vec<String> = ms.iter().map(|m| mv(*m)).collect();
                a.sort();
                g.sort();
                if a == g { "SAME".to_string() } else { mvlist(&acc) }
            }
        },
    };
    let alt = pos_alt(b, &moves);
    format!(
        "POS {} => moves={} len={} hint={} status={} sane={} fen={} reparse={} ghash={} hc={} wk={} bk={} lq={} enum={} po={} lgq={} alt={}",
        dump(b),
        match &moves { Some(m) => mvlist(m), None => "PANIC".into() },
        opt(len),
        match hint { Some(h) => hint_str(h), None => "PANIC".into() },
        opt(status.map(status_ch)),
        opt(sane.map(b01)),
        match &fen { Some(f) => hex_text(f), None => "PANIC".into() },
        match &reparse { Some(Some(r)) => dump(r), Some(None) => "ERR".into(), None => "PANIC".into() },
        opt(ghash.map(hx)),
        opt(hc.map(b01)),
        opt(wk),
        opt(bk),
        opt(lq.map(b01)),
        en,
        opt(po),
        lgq,
        alt,
    )
}

/// Sort key that `impl Ord for ChessMove` is documented by its code to follow: source, destination,
/// then promotion with `None` first and the pieces in their declaration order.
fn cmp_key(m: &ChessMove) -> (usize, usize, usize) {
    (
        m.get_source().to_index(),
        m.get_dest().to_index(),
        match m.get_promotion() {
            None => 0,
            Some(p) => 1 + p.to_index(),
        },
    )
}

/// Agreement of the thin wrappers and alternative entry points with the primary ones on one
/// position: `OK`, or `DIFF:<which>` for the first that disagrees (`PANIC:<which>` if it panicked).
fn pos_alt(b: &Board, moves: &Option<Vec<ChessMove>>) -> String {
    macro_rules! chk {
        ($name:expr, $e:expr) => {
            match guard(|| $e) {
                None => return format!("PANIC:{}", $name),
                Some(false) => return format!("DIFF:{}", $name),
                Some(true) => {}
            }
        };
    }
    chk!("my_castle_rights", b.my_castle_rights() == b.castle_rights(b.side_to_move()));
    chk!("their_castle_rights", b.their_castle_rights() == b.castle_rights(!b.side_to_move()));
    chk!("get_pawn_hash", b.get_pawn_hash() == 0);
    chk!("Board::default", {
        let start = "rnbqkbnr/pppppppp/8/8/8/8/PPPPPPPP/RNBQKBNR w KQkq - 0 1";
        Board::from_str(start).ok() == Some(Board::default())
            && BD::of_builder(&BoardBuilder::default()) == BD::of_board(&Board::default())
            && Game::new().current_position() == Board::default()
    });
    chk!("From<Board>", {
        let a: BoardBuilder = (*b).into();
        let c: BoardBuilder = b.into();
        BD::of_builder(&a) == BD::of_builder(&c) && format!("{}", a) == format!("{}", c)
    });
    if let Some(ms) = moves {
        chk!("perft1", MoveGen::movegen_perft_test(b, 1) == ms.len());
        if ms.len() <= 60 {
            chk!("perft2", {
                let mut n = 0usize;
                for m in ms.iter() {
                    n += MoveGen::new_legal(&b.make_move_new(*m)).len();
                }
                MoveGen::movegen_perft_test(b, 2) == n
            });
        }
        chk!("ChessMove::cmp", {
            let mut a = ms.clone();
            a.sort();
            let mut c = ms.clone();
            c.sort_by_key(cmp_key);
            let pairwise = ms.iter().take(12).all(|x| {
                ms.iter().take(12).all(|y| {
                    x.cmp(y) == cmp_key(x).cmp(&cmp_key(y)) && x.partial_cmp(y) == Some(x.cmp(y))
                })
            });
            a == c && pairwise
        });
    }
    "OK".to_string()
}

// ------------------------------------------------------------------ LEGAL

pub const PROMOS: [Option<Piece>; 5] = [
    None,
    Some(Piece::Queen),
    Some(Piece::Rook),
    Some(Piece::Bishop),
    Some(Piece::Knight),
];

pub fn legal(b: &Board) -> String {
    let r = guard(|| {
        let mut v = Vec::new();
        for s in 0..64 {
            for d in 0..64 {
                for p in PROMOS.iter() {
                    let m = ChessMove::new(sq(s), sq(d), *p);
                    if b.legal(m) {
                        v.push(m);
                    }
                }
            }
        }
        v
    });
    format!(
        "LEGAL {} => {}",
        dump(b),
        match r {
            Some(v) => mvlist(&v),
            None => "PANIC".into(),
        }
    )
}

// ------------------------------------------------------------------ MAKE / NULL

/// Returns the line and the successor (when no panic).
pub fn make(b: &Board, m: ChessMove) -> (String, Option<Board>) {
    let before = dump(b);
    let succ = guard(|| b.make_move_new(m));
    let res = match &succ {
        None => "PANIC same=0 sane=0".to_string(),
        Some(n) => {
            let same = guard(|| {
                let mut ok = true;
                for f in [
                    "rnbqkbnr/pppppppp/8/8/8/8/PPPPPPPP/RNBQKBNR w KQkq - 0 1",
                    KIWIPETE,
                    PREFILL3,
                ]
                .iter()
                {
                    let mut target = match Board::from_str(f) {
                        Ok(t) => t,
                        Err(_) => Board::default(),
                    };
                    if f == &PREFILL3 {
                        // a black-to-move, in-check, ep-less variant as third prior content
                        if let Some(t) = target.null_move() {
                            target = t;
                        }
                    }
                    b.make_move(m, &mut target);
                    if target != *n || dump(&target) != dump(n) {
                        ok = false;
                    }
                }
                ok && dump(b) == before
            })
            .unwrap_or(false);
            let sane = guard(|| n.is_sane()).unwrap_or(false);
            let gh = guard(|| n.get_hash());
            let fen = guard(|| format!("{}", n));
            format!(
                "{} same={} sane={} gh={} fen={}",
                dump(n),
                b01(same),
                b01(sane),
                opt(gh.map(hx)),
                match fen {
                    Some(t) => hex_text(&t),
                    None => "PANIC".to_string(),
                }
            )
        }
    };
    (format!("MAKE {} {} => {}", before, mv(m), res), succ)
}

pub fn null(b: &Board) -> (String, Option<Board>) {
    let r = guard(|| b.null_move());
    let (res, nb) = match r {
        None => ("PANIC".to_string(), None),
        Some(None) => ("NONE".to_string(), None),
        Some(Some(n)) => {
            let sane = guard(|| n.is_sane()).unwrap_or(false);
            let gh = guard(|| n.get_hash());
            (format!("{} sane={} gh={}", dump(&n), b01(sane), opt(gh.map(hx))), Some(n))
        }
    };
    (format!("NULL {} => {}", dump(b), res), nb)
}

// ------------------------------------------------------------------ FENP / BLD / BFEN / BPARSE

/// Everything a caller may do with an accepted board, each step under catch_unwind.
pub fn safe_board(b: &Board) -> bool {
    guard(|| {
        let ms: Vec<ChessMove> = MoveGen::new_legal(b).collect();
        let _ = MoveGen::new_legal(b).len();
        let _ = b.status();
        let _ = format!("{}", b);
        #[cfg(has_enumerate_moves)]
        if ms.len() <= 256 {
            let mut buf = [ChessMove::default(); 256];
            #[allow(deprecated)]
            let _ = b.enumerate_moves(&mut buf);
        }
        for m in ms.iter() {
            let n = b.make_move_new(*m);
            let _ = n.status();
            let _ = MoveGen::new_legal(&n).count();
        }
    })
    .is_some()
}

fn board_result(r: Option<Result<Board, Error>>) -> String {
    match r {
        None => "PANIC".into(),
        Some(Ok(b)) => format!("OK {} safe={}", dump(&b), b01(safe_board(&b))),
        Some(Err(Error::InvalidFen { .. })) => "ERRFEN".into(),
        Some(Err(Error::InvalidBoard)) => "ERRBOARD".into(),
        Some(Err(_)) => "ERR".into(),
    }
}

fn fenp_alt(text: &str, r: &Option<Result<Board, Error>>) -> String {
    let prim: Option<Board> = match r {
        Some(Ok(b)) => Some(*b),
        Some(Err(_)) => None,
        None => return "OK".to_string(), // the primary panicked: reported on its own channel
    };
    macro_rules! chk {
        ($name:expr, $e:expr) => {
            match guard(|| $e) {
                None => return format!("PANIC:{}", $name),
                Some(false) => return format!("DIFF:{}", $name),
                Some(true) => {}
            }
        };
    }
    #[cfg(has_from_fen)]
    #[allow(deprecated)]
    {
        chk!("Board::from_fen", Board::from_fen(text.to_string()) == prim);
    }
    #[cfg(has_new_from_fen)]
    #[allow(deprecated)]
    {
        chk!("Game::new_from_fen", Game::new_from_fen(text).map(|g| g.current_position()) == prim);
    }
    chk!("Game::from_str", {
        match Game::from_str(text) {
            Ok(g) => Some(g.current_position()) == prim && g.actions().is_empty(),
            Err(_) => prim.is_none(),
        }
    });
    chk!("BoardBuilder::from_str+try_from", {
        match BoardBuilder::from_str(text) {
            Ok(bb) => Board::try_from(&bb).ok() == prim,
            Err(_) => prim.is_none(),
        }
    });
    "OK".to_string()
}

pub fn fenp(text: &str) -> String {
    let r = guard(|| Board::from_str(text));
    let alt = fenp_alt(text, &r);
    format!("FENP {} => {} alt={}", hex_text(text), board_result(r), alt)
}

fn bld_alt(d: &BD, r: &Option<Result<Board, Error>>) -> String {
    let prim: Option<Board> = match r {
        Some(Ok(b)) => Some(*b),
        Some(Err(_)) => None,
        None => return "OK".to_string(),
    };
    macro_rules! chk {
        ($name:expr, $e:expr) => {
            match guard(|| $e) {
                None => return format!("PANIC:{}", $name),
                Some(false) => return format!("DIFF:{}", $name),
                Some(true) => {}
            }
        };
    }
    chk!("TryFrom<BoardBuilder>", Board::try_from(d.builder()).ok() == prim);
    chk!("TryFrom<&mut_BoardBuilder>", {
        let mut bb = d.builder();
        Board::try_from(&mut bb).ok() == prim
    });
    chk!("BoardBuilder::setup", {
        let bb = d.builder_setup();
        BD::of_builder(&bb) == *d && Board::try_from(&bb).ok() == prim
    });
    chk!("BoardBuilder::clear_square", {
        // fill the empty squares, clear them again: the same builder state must result
        let mut bb = d.builder();
        for i in 0..64 {
            if d.sq[i].is_none() {
                bb.piece(sq(i), Piece::Queen, Color::Black);
            }
        }
        for i in 0..64 {
            if d.sq[i].is_none() {
                bb.clear_square(sq(i));
            }
        }
        BD::of_builder(&bb) == *d && Board::try_from(&bb).ok() == prim
    });
    chk!("Index/IndexMut", {
        let mut bb = BoardBuilder::new();
        for i in 0..64 {
            bb[sq(i)] = d.sq[i];
        }
        bb.side_to_move(d.stm)
            .castle_rights(Color::White, cr(d.wcr))
            .castle_rights(Color::Black, cr(d.bcr))
            .en_passant(d.ep.map(chess::File::from_index));
        BD::of_builder(&bb) == *d && Board::try_from(&bb).ok() == prim
    });
    chk!("BoardBuilder::setter-order", {
        // the builder state is "the last value given to each field": any order of the setter calls, with
        // earlier junk values overwritten later, must give the same state, the same text and the same board
        let bb = d.builder_shuffled();
        let prim_bb = d.builder();
        BD::of_builder(&bb) == *d
            && format!("{}", bb) == format!("{}", prim_bb)
            && bb.get_en_passant() == prim_bb.get_en_passant()
            && bb.get_side_to_move() == prim_bb.get_side_to_move()
            && Board::try_from(&bb).ok() == prim
    });
    "OK".to_string()
}

pub fn bld(d: &BD) -> String {
    let r = guard(|| {
        let bb = d.builder();
        Board::try_from(&bb)
    });
    let alt = bld_alt(d, &r);
    format!("BLD {} => {} alt={}", d.text(), board_result(r), alt)
}

pub fn bfen(d: &BD) -> String {
    let text = guard(|| format!("{}", d.builder()));
    let res = match &text {
        None => "PANIC rt=PANIC".to_string(),
        Some(t) => {
            let rt = guard(|| BoardBuilder::from_str(t).ok().map(|b| BD::of_builder(&b)));
            format!(
                "{} rt={}",
                hex_text(t),
                match rt {
                    None => "PANIC".to_string(),
                    Some(None) => "ERR".to_string(),
                    Some(Some(x)) => x.text(),
                }
            )
        }
    };
    // the same state reached through another order of setter calls renders the same way
    let alt = match guard(|| {
        let bb = d.builder_shuffled();
        Some(format!("{}", bb)) == text && BD::of_builder(&bb) == *d
    }) {
        None => "PANIC:BoardBuilder::setter-order",
        Some(false) => "DIFF:BoardBuilder::setter-order",
        Some(true) => "OK",
    };
    format!("BFEN {} => {} alt={}", d.text(), res, alt)
}

pub fn bparse(text: &str) -> String {
    let r = guard(|| BoardBuilder::from_str(text).ok().map(|b| BD::of_builder(&b)));
    format!(
        "BPARSE {} => {}",
        hex_text(text),
        match r {
            None => "PANIC".to_string(),
            Some(None) => "ERR".to_string(),
            Some(Some(x)) => format!("OK {}", x.text()),
        }
    )
}

// ------------------------------------------------------------------ text of moves and squares

fn mres(r: Option<Option<ChessMove>>) -> String {
    match r {
        None => "PANIC".into(),
        Some(None) => "ERR".into(),
        Some(Some(m)) => format!("OK {}", mv(m)),
    }
}

/// `tag` = the move the harness's SAN writer spelled, `?` or `!`.
pub fn san(b: &Board, text: &str, tag: &str) -> String {
    let r = guard(|| ChessMove::from_san(b, text).ok());
    format!("SAN {} {} {} => {}", dump(b), hex_text(text), tag, mres(r))
}

pub fn uci(text: &str) -> String {
    let r = guard(|| ChessMove::from_str(text).ok());
    format!("UCI {} => {}", hex_text(text), mres(r))
}

pub fn sqp(text: &str) -> String {
    let r = guard(|| Square::from_str(text).ok());
    #[cfg(not(has_from_string))]
    let alt = "OK";
    #[cfg(has_from_string)]
    #[allow(deprecated)]
    let alt = match (&r, guard(|| Square::from_string(text.to_string()))) {
        (None, _) => "OK",
        (_, None) => "PANIC:Square::from_string",
        (Some(a), Some(b)) => {
            if *a == b {
                "OK"
            } else {
                "DIFF:Square::from_string"
            }
        }
    };
    format!(
        "SQ {} => {} alt={}",
        hex_text(text),
        match r {
            None => "PANIC".to_string(),
            Some(None) => "ERR".to_string(),
            Some(Some(s)) => format!("OK {}", s.to_index()),
        },
        alt
    )
}

pub fn promo_tok(p: Option<Piece>) -> &'static str {
    match p {
        None => "-",
        Some(_) => promo_ch(p),
    }
}

pub fn parse_promo_tok(s: &str) -> Option<Option<Piece>> {
    match s {
        "-" => Some(None),
        "q" => Some(Some(Piece::Queen)),
        "r" => Some(Some(Piece::Rook)),
        "b" => Some(Some(Piece::Bishop)),
        "n" => Some(Some(Piece::Knight)),
        _ => None,
    }
}

pub fn showm(s: usize, d: usize, p: Option<Piece>) -> String {
    let r = guard(|| format!("{}", ChessMove::new(sq(s), sq(d), p)));
    // `impl Ord`: against the same squares with every promotion, and against neighbours in source/destination
    let alt = match guard(|| {
        let m = ChessMove::new(sq(s), sq(d), p);
        let mut others: Vec<ChessMove> = PROMOS.iter().map(|q| ChessMove::new(sq(s), sq(d), *q)).collect();
        others.push(ChessMove::new(sq(s), sq(d), Some(Piece::King)));
        others.push(ChessMove::new(sq(s), sq(d), Some(Piece::Pawn)));
        others.push(ChessMove::new(sq((s + 1) % 64), sq(d), p));
        others.push(ChessMove::new(sq(s), sq((d + 63) % 64), p));
        others.push(ChessMove::new(sq((s + 9) % 64), sq((d + 5) % 64), None));
        others.iter().all(|o| {
            m.cmp(o) == cmp_key(&m).cmp(&cmp_key(o))
                && o.cmp(&m) == cmp_key(o).cmp(&cmp_key(&m))
                && m.partial_cmp(o) == Some(m.cmp(o))
                && ((m == *o) == (m.cmp(o) == std::cmp::Ordering::Equal))
        })
    }) {
        Some(true) => "OK",
        Some(false) => "DIFF:ChessMove::cmp",
        None => "PANIC:ChessMove::cmp",
    };
    format!(
        "SHOWM {} {} {} => {} alt={}",
        s,
        d,
        promo_tok(p),
        match r {
            Some(t) => hex_text(&t),
            None => "PANIC".into(),
        },
        alt
    )
}

pub fn showsq(s: usize) -> String {
    let r = guard(|| format!("{}", sq(s)));
    format!(
        "SHOWSQ {} => {}",
        s,
        match r {
            Some(t) => hex_text(&t),
            None => "PANIC".into(),
        }
    )
}

// ------------------------------------------------------------------ GEN programs

#[derive(Clone, Debug)]
pub enum GenOp {
    K(u64),
    N,
    L,
    H,
    D,
    X(ChessMove),
    Y(u64),
}

pub fn genprog_text(p: &[GenOp]) -> String {
    let v: Vec<String> = p
        .iter()
        .map(|o| match o {
            GenOp::K(m) => format!("K{:x}", m),
            GenOp::N => "N".to_string(),
            GenOp::L => "L".to_string(),
            GenOp::H => "H".to_string(),
            GenOp::D => "D".to_string(),
            GenOp::X(m) => format!("X{}", mv(*m)),
            GenOp::Y(m) => format!("Y{:x}", m),
        })
        .collect();
    if v.is_empty() {
        "-".to_string()
    } else {
        v.join(";")
    }
}

pub fn parse_genprog(s: &str) -> Option<Vec<GenOp>> {
    if s == "-" {
        return Some(vec![]);
    }
    let mut v = Vec::new();
    for t in s.split(';') {
        let (h, rest) = t.split_at(if t.is_empty() { 0 } else { 1 });
        v.push(match h {
            "K" => GenOp::K(parse_hex(rest)?),
            "Y" => GenOp::Y(parse_hex(rest)?),
            "X" => GenOp::X(parse_mv(rest)?),
            "N" if rest.is_empty() => GenOp::N,
            "L" if rest.is_empty() => GenOp::L,
            "H" if rest.is_empty() => GenOp::H,
            "D" if rest.is_empty() => GenOp::D,
            _ => return None,
        });
    }
    Some(v)
}

/// Runs the program; the outputs stop after the first step that panicked (printed as `PANIC`).
pub fn gen(b: &Board, prog: &[GenOp]) -> String {
    let mut outs: Vec<String> = Vec::new();
    let g0 = guard(|| MoveGen::new_legal(b));
    match g0 {
        None => outs.push("PANIC".into()),
        Some(mut g) => {
            for o in prog {
                let r: Option<String> = match o {
                    GenOp::K(m) => guard(|| {
                        g.set_iterator_mask(bb(*m));
                        "k".to_string()
                    }),
                    GenOp::N => guard(|| match g.next() {
                        Some(m) => mv(m),
                        None => "-".to_string(),
                    }),
                    GenOp::L => guard(|| g.len().to_string()),
                    GenOp::H => guard(|| hint_str(g.size_hint())),
                    GenOp::D => guard(|| {
                        let mut v = Vec::new();
                        // a correct generator yields at most 218 moves; the cap keeps a broken
                        // one from looping forever
                        while let Some(m) = g.next() {
                            v.push(m);
                            if v.len() > 4096 {
                                break;
                            }
                        }
                        mvlist(&v)
                    }),
                    GenOp::X(m) => guard(|| b01(g.remove_move(*m)).to_string()),
                    GenOp::Y(m) => guard(|| {
                        g.remove_mask(bb(*m));
                        "y".to_string()
                    }),
                };
                match r {
                    Some(s) => outs.push(s),
                    None => {
                        outs.push("PANIC".into());
                        break;
                    }
                }
            }
        }
    }
    format!(
        "GEN {} {} => {}",
        dump(b),
        genprog_text(prog),
        if outs.is_empty() { "-".to_string() } else { outs.join(";") }
    )
}

// ------------------------------------------------------------------ GAME programs

#[derive(Clone, Debug, PartialEq)]
pub enum Act {
    M(ChessMove),
    Offer(Color),
    Accept,
    Resign(Color),
    Declare,
    Can,
}

pub fn acts_text(p: &[Act]) -> String {
    let v: Vec<String> = p
        .iter()
        .map(|a| match a {
            Act::M(m) => format!("m{}", mv(*m)),
            Act::Offer(c) => format!("o{}", color_ch(*c)),
            Act::Accept => "a".to_string(),
            Act::Resign(c) => format!("r{}", color_ch(*c)),
            Act::Declare => "d".to_string(),
            Act::Can => "c".to_string(),
        })
        .collect();
    if v.is_empty() {
        "-".to_string()
    } else {
        v.join(";")
    }
}

pub fn parse_acts(s: &str) -> Option<Vec<Act>> {
    if s == "-" {
        return Some(vec![]);
    }
    let mut v = Vec::new();
    for t in s.split(';') {
        v.push(match t {
            "a" => Act::Accept,
            "d" => Act::Declare,
            "c" => Act::Can,
            "ow" => Act::Offer(Color::White),
            "ob" => Act::Offer(Color::Black),
            "rw" => Act::Resign(Color::White),
            "rb" => Act::Resign(Color::Black),
            _ => {
                if let Some(rest) = t.strip_prefix('m') {
                    Act::M(parse_mv(rest)?)
                } else {
                    return None;
                }
            }
        });
    }
    Some(v)
}

/// Run the action list on a game; one output token per action (stops after a panic).
fn run_game(mut g: Game, acts: &[Act]) -> Vec<String> {
    let mut outs: Vec<String> = Vec::new();
    for a in acts {
        let r = guard(|| {
            let flag = match a {
                Act::M(m) => g.make_move(*m),
                Act::Offer(c) => g.offer_draw(*c),
                Act::Accept => g.accept_draw(),
                Act::Resign(c) => g.resign(*c),
                Act::Declare => g.declare_draw(),
                Act::Can => g.can_declare_draw(),
            };
            format!(
                "{},{},{},{},{:x}",
                b01(flag),
                result_str(g.result()),
                color_ch(g.side_to_move()),
                g.actions().len(),
                g.current_position().get_hash()
            )
        });
        match r {
            Some(s) => outs.push(s),
            None => {
                outs.push("PANIC".into());
                break;
            }
        }
    }
    outs
}

pub fn game(b: &Board, acts: &[Act]) -> String {
    let outs = run_game(Game::new_with_board(*b), acts);
    // the other constructors must give a game that behaves identically
    let alt = match guard(|| {
        let fen = format!("{}", b);
        let via_fen = Board::from_str(&fen).ok() == Some(*b);
        if via_fen {
            match Game::from_str(&fen) {
                Ok(g) => {
                    if run_game(g, acts) != outs {
                        return "DIFF:Game::from_str";
                    }
                }
                Err(_) => return "DIFF:Game::from_str",
            }
        }
        if *b == Board::default() && run_game(Game::new(), acts) != outs {
            return "DIFF:Game::new";
        }
        "OK"
    }) {
        Some(s) => s,
        None => "PANIC:Game::from_str",
    };
    format!(
        "GAME {} {} => {} alt={}",
        dump(b),
        acts_text(acts),
        if outs.is_empty() { "-".to_string() } else { outs.join(";") },
        alt
    )
}

// ------------------------------------------------------------------ CACHE programs

#[derive(Clone, Debug)]
pub enum Pred {
    T,
    F,
    Lt(u32),
    Eq(u32),
}

#[derive(Clone, Debug)]
pub enum CacheOp {
    A(u64, u32),
    G(u64),
    R(u64, u32, Pred),
}

pub fn cacheprog_text(p: &[CacheOp]) -> String {
    let v: Vec<String> = p
        .iter()
        .map(|o| match o {
            CacheOp::A(h, v) => format!("A{:x},{}", h, v),
            CacheOp::G(h) => format!("G{:x}", h),
            CacheOp::R(h, v, p) => format!(
                "R{:x},{},{}",
                h,
                v,
                match p {
                    Pred::T => "t".to_string(),
                    Pred::F => "f".to_string(),
                    Pred::Lt(k) => format!("lt{}", k),
                    Pred::Eq(k) => format!("eq{}", k),
                }
            ),
        })
        .collect();
    if v.is_empty() {
        "-".to_string()
    } else {
        v.join(";")
    }
}

pub fn parse_cacheprog(s: &str) -> Option<Vec<CacheOp>> {
    if s == "-" {
        return Some(vec![]);
    }
    let mut v = Vec::new();
    for t in s.split(';') {
        if t.is_empty() {
            return None;
        }
        let (h, rest) = t.split_at(1);
        let f: Vec<&str> = rest.split(',').collect();
        v.push(match (h, f.len()) {
            ("A", 2) => CacheOp::A(parse_hex(f[0])?, f[1].parse().ok()?),
            ("G", 1) => CacheOp::G(parse_hex(f[0])?),
            ("R", 3) => {
                let p = if f[2] == "t" {
                    Pred::T
                } else if f[2] == "f" {
                    Pred::F
                } else if let Some(k) = f[2].strip_prefix("lt") {
                    Pred::Lt(k.parse().ok()?)
                } else if let Some(k) = f[2].strip_prefix("eq") {
                    Pred::Eq(k.parse().ok()?)
                } else {
                    return None;
                };
                CacheOp::R(parse_hex(f[0])?, f[1].parse().ok()?, p)
            }
            _ => return None,
        });
    }
    Some(v)
}

/// Sizes above 2^24 that are powers of two are not allocated (the harness never generates them);
/// they print `SKIP`.
pub fn cache(size: u64, prog: &[CacheOp]) -> String {
    let head = format!("CACHE {} {}", size, cacheprog_text(prog));
    if size.count_ones() == 1 && size > (1 << 24) {
        return format!("{} => SKIP", head);
    }
    if size.count_ones() != 1 {
        // a size that is not a power of two: construction must panic; if it does not, the table is
        // not touched (its index mask is meaningless and any access may be out of bounds)
        return match guard(|| { let _t: CacheTable<u32> = CacheTable::new(size as usize, 7); }) {
            Some(()) => format!("{} => NOPANIC", head),
            None => format!("{} => PANIC", head),
        };
    }
    let r = guard(|| {
        let mut t: CacheTable<u32> = CacheTable::new(size as usize, 7);
        let mut outs: Vec<String> = Vec::new();
        for o in prog {
            match o {
                CacheOp::A(h, v) => {
                    t.add(*h, *v);
                    outs.push("a".into());
                }
                CacheOp::G(h) => outs.push(match t.get(*h) {
                    Some(v) => v.to_string(),
                    None => "none".to_string(),
                }),
                CacheOp::R(h, v, p) => {
                    match p {
                        Pred::T => t.replace_if(*h, *v, |_| true),
                        Pred::F => t.replace_if(*h, *v, |_| false),
                        Pred::Lt(k) => {
                            let k = *k;
                            t.replace_if(*h, *v, move |x| x < k)
                        }
                        Pred::Eq(k) => {
                            let k = *k;
                            t.replace_if(*h, *v, move |x| x == k)
                        }
                    }
                    outs.push("r".into());
                }
            }
        }
        if outs.is_empty() {
            "-".to_string()
        } else {
            outs.join(";")
        }
    });
    format!(
        "{} => {}",
        head,
        match r {
            Some(s) => s,
            None => "PANIC".to_string(),
        }
    )
}

// ------------------------------------------------------------------ SYM / VAR

/// Colour/rank mirror (`m`) or file flip (`f`) of a builder picture.
pub fn transform(d: &BD, kind: char) -> BD {
    let mut o = BD::empty();
    if kind == 'm' {
        for i in 0..64 {
            o.sq[i ^ 56] = d.sq[i].map(|(p, c)| (p, !c));
        }
        o.stm = !d.stm;
        o.wcr = d.bcr;
        o.bcr = d.wcr;
        o.ep = d.ep;
    } else {
        for i in 0..64 {
            o.sq[i ^ 7] = d.sq[i];
        }
        o.stm = d.stm;
        o.wcr = d.wcr;
        o.bcr = d.bcr;
        o.ep = d.ep.map(|f| 7 - f);
    }
    o
}

fn succ_text(b: &Board, ms: &Option<Vec<ChessMove>>) -> String {
    match ms {
        None => "PANIC".into(),
        Some(v) if v.is_empty() => "-".into(),
        Some(v) => {
            let parts: Vec<String> = v
                .iter()
                .map(|m| match guard(|| b.make_move_new(*m)) {
                    Some(n) => dump(&n),
                    None => "PANIC".to_string(),
                })
                .collect();
            parts.join(";")
        }
    }
}

pub fn sym(kind: char, b: &Board) -> String {
    let d2 = transform(&BD::of_board(b), kind);
    let b2: Option<Option<Board>> = guard(|| Board::try_from(&d2.builder()).ok());
    let ms = moves_of(b);
    let st = status_of(b);
    let (b2t, ms2t, st2t, succ2t) = match &b2 {
        Some(Some(x)) => {
            let ms2 = moves_of(x);
            (
                dump(x),
                match &ms2 { Some(v) => mvlist(v), None => "PANIC".into() },
                opt(status_of(x).map(status_ch)),
                succ_text(x, &ms2),
            )
        }
        Some(None) => ("ERR".to_string(), "-".to_string(), "-".to_string(), "-".to_string()),
        None => ("PANIC".to_string(), "-".to_string(), "-".to_string(), "-".to_string()),
    };
    format!(
        "SYM {} {} => {} moves={} moves2={} st={} st2={} succ={} succ2={}",
        kind,
        dump(b),
        b2t,
        match &ms { Some(v) => mvlist(v), None => "PANIC".into() },
        ms2t,
        opt(st.map(status_ch)),
        st2t,
        succ_text(b, &ms),
        succ2t
    )
}

pub fn var(b: &Board, b2: &Board, what: &str) -> String {
    format!(
        "VAR {} {} {} => {} {}",
        dump(b),
        dump(b2),
        what,
        opt(guard(|| b.get_hash()).map(hx)),
        opt(guard(|| b2.get_hash()).map(hx))
    )
}

// ------------------------------------------------------------------ EDIT (deprecated board mutators)

/// `S<piece 0..5><w|b><sq>` set_piece · `C<sq>` clear_square · `A<w|b><cr>` / `R<w|b><cr>`
/// add/remove_castle_rights · `a<cr>` / `r<cr>` add/remove_my_… · `t<cr>` / `u<cr>` add/remove_their_…
/// A mutator the crate no longer has (they are all deprecated) gives `UNAVAILABLE`.
#[allow(deprecated, unused_variables, unreachable_code)]
pub fn edit(b: &Board, cmd: &str) -> String {
    let head = format!("EDIT {} {}", dump(b), cmd);
    let bad = || format!("{} => BADLINE", head);
    let bytes = cmd.as_bytes();
    if bytes.is_empty() || !cmd.is_ascii() {
        return bad();
    }
    let small = |t: &str, lim: usize| -> Option<usize> {
        let v: usize = t.parse().ok()?;
        if v < lim {
            Some(v)
        } else {
            None
        }
    };
    // Some(None) = refused, None = panicked, Err(()) = not available in this crate
    let r: Result<Option<Option<Board>>, ()> = match bytes[0] {
        b'S' if cmd.len() >= 4 => {
            let p = match small(&cmd[1..2], 6) {
                Some(p) => chess::ALL_PIECES[p],
                None => return bad(),
            };
            let c = match parse_color(&cmd[2..3]) {
                Some(c) => c,
                None => return bad(),
            };
            let s = match small(&cmd[3..], 64) {
                Some(s) => sq(s),
                None => return bad(),
            };
            #[cfg(has_set_piece)]
            {
                Ok(guard(|| b.set_piece(p, c, s)))
            }
            #[cfg(not(has_set_piece))]
            {
                Err(())
            }
        }
        b'C' => {
            let s = match small(&cmd[1..], 64) {
                Some(s) => sq(s),
                None => return bad(),
            };
            #[cfg(has_clear_square)]
            {
                Ok(guard(|| b.clear_square(s)))
            }
            #[cfg(not(has_clear_square))]
            {
                Err(())
            }
        }
        b'A' | b'R' if cmd.len() == 3 => {
            let c = match parse_color(&cmd[1..2]) {
                Some(c) => c,
                None => return bad(),
            };
            let x = match small(&cmd[2..], 4) {
                Some(x) => cr(x),
                None => return bad(),
            };
            if bytes[0] == b'A' {
                #[cfg(has_add_castle_rights)]
                {
                    Ok(guard(|| {
                        let mut n = *b;
                        n.add_castle_rights(c, x);
                        Some(n)
                    }))
                }
                #[cfg(not(has_add_castle_rights))]
                {
                    Err(())
                }
            } else {
                #[cfg(has_remove_castle_rights)]
                {
                    Ok(guard(|| {
                        let mut n = *b;
                        n.remove_castle_rights(c, x);
                        Some(n)
                    }))
                }
                #[cfg(not(has_remove_castle_rights))]
                {
                    Err(())
                }
            }
        }
        b'a' | b'r' | b't' | b'u' if cmd.len() == 2 => {
            let x = match small(&cmd[1..], 4) {
                Some(x) => cr(x),
                None => return bad(),
            };
            match bytes[0] {
                b'a' => {
                    #[cfg(has_add_my_castle_rights)]
                    {
                        Ok(guard(|| {
                            let mut n = *b;
                            n.add_my_castle_rights(x);
                            Some(n)
                        }))
                    }
                    #[cfg(not(has_add_my_castle_rights))]
                    {
                        Err(())
                    }
                }
                b'r' => {
                    #[cfg(has_remove_my_castle_rights)]
                    {
                        Ok(guard(|| {
                            let mut n = *b;
                            n.remove_my_castle_rights(x);
                            Some(n)
                        }))
                    }
                    #[cfg(not(has_remove_my_castle_rights))]
                    {
                        Err(())
                    }
                }
                b't' => {
                    #[cfg(has_add_their_castle_rights)]
                    {
                        Ok(guard(|| {
                            let mut n = *b;
                            n.add_their_castle_rights(x);
                            Some(n)
                        }))
                    }
                    #[cfg(not(has_add_their_castle_rights))]
                    {
                        Err(())
                    }
                }
                _ => {
                    #[cfg(has_remove_their_castle_rights)]
                    {
                        Ok(guard(|| {
                            let mut n = *b;
                            n.remove_their_castle_rights(x);
                            Some(n)
                        }))
                    }
                    #[cfg(not(has_remove_their_castle_rights))]
                    {
                        Err(())
                    }
                }
            }
        }
        _ => return bad(),
    };
    format!(
        "{} => {}",
        head,
        match r {
            Err(()) => "UNAVAILABLE".to_string(),
            Ok(None) => "PANIC".to_string(),
            Ok(Some(None)) => "NONE".to_string(),
            Ok(Some(Some(n))) => format!("{} gh={}", dump(&n), opt(guard(|| n.get_hash()).map(hx))),
        }
    )
}

/// which EDIT command letters this crate can execute
pub fn edit_available(letter: char) -> bool {
    match letter {
        'S' => cfg!(has_set_piece),
        'C' => cfg!(has_clear_square),
        'A' => cfg!(has_add_castle_rights),
        'R' => cfg!(has_remove_castle_rights),
        'a' => cfg!(has_add_my_castle_rights),
        'r' => cfg!(has_remove_my_castle_rights),
        't' => cfg!(has_add_their_castle_rights),
        'u' => cfg!(has_remove_their_castle_rights),
        _ => false,
    }
}

/// Edits of one position that keep both kings where they are (the mutators read the king square
/// without checking that there is one).
pub fn edit_cmds(b: &Board, rng: &mut crate::rng::Rng, n: usize) -> Vec<String> {
    let wk = b.king_square(Color::White).to_index();
    let bk = b.king_square(Color::Black).to_index();
    let mut v = Vec::new();
    for _ in 0..n {
        let mut s = rng.below(64);
        while s == wk || s == bk {
            s = rng.below(64);
        }
        match rng.below(10) {
            0..=4 => {
                // no second king: `king_square` would then be the lower of the two
                let p = rng.below(5);
                let c = if rng.chance(1, 2) { 'w' } else { 'b' };
                v.push(format!("S{}{}{}", p, c, s));
            }
            5..=6 => {
                // prefer an occupied square
                let mut t = s;
                for _ in 0..8 {
                    if b.piece_on(sq(t)).is_some() && t != wk && t != bk {
                        break;
                    }
                    t = rng.below(64);
                    while t == wk || t == bk {
                        t = rng.below(64);
                    }
                }
                v.push(format!("C{}", t));
            }
            7 => v.push(format!("{}{}{}", if rng.chance(1, 2) { 'A' } else { 'R' }, if rng.chance(1, 2) { 'w' } else { 'b' }, rng.below(4))),
            _ => v.push(format!("{}{}", *rng.pick(&['a', 'r', 't', 'u']), rng.below(4))),
        }
    }
    v.retain(|c| c.chars().next().map(edit_available).unwrap_or(false));
    v
}
