//! Output: shard files (round-robin or grouped), measured statistics, stats.json.

use crate::enc::hex_text;
use crate::ops;
use chess::{Board, ChessMove, Color, Piece};
use std::collections::{BTreeMap, HashSet};
use std::fs::File;
use std::io::{BufWriter, Write};

pub struct Sink {
    outs: Vec<BufWriter<File>>,
    next: usize,
    group: Option<usize>,
    per_shard: Vec<u64>,
    pub lines: u64,
    distinct: HashSet<u128>,
    ops: BTreeMap<String, u64>,
    counters: BTreeMap<String, u64>,
    hists: BTreeMap<String, BTreeMap<String, u64>>,
    samples: Vec<String>,
    pub io_error: Option<String>,
}

fn fp128(s: &str) -> u128 {
    // two independent 64-bit FNV-style/multiplicative hashes; used only to count distinct lines
    let mut a: u64 = 0xcbf2_9ce4_8422_2325;
    let mut b: u64 = 0x9E37_79B9_7F4A_7C15;
    for x in s.as_bytes() {
        a = (a ^ (*x as u64)).wrapping_mul(0x0000_0100_0000_01B3);
        b = (b.rotate_left(5) ^ (*x as u64)).wrapping_mul(0xD6E8_FEB8_6659_FD93);
    }
    b ^= b >> 29;
    ((a as u128) << 64) | (b as u128)
}

impl Sink {
    pub fn new(outdir: &str, shards: usize) -> Result<Sink, String> {
        std::fs::create_dir_all(outdir).map_err(|e| format!("mkdir {}: {}", outdir, e))?;
        let mut outs = Vec::new();
        for k in 0..shards.max(1) {
            let p = format!("{}/shard-{}.txt", outdir, k);
            let f = File::create(&p).map_err(|e| format!("create {}: {}", p, e))?;
            outs.push(BufWriter::with_capacity(1 << 20, f));
        }
        Ok(Sink {
            outs,
            next: 0,
            group: None,
            per_shard: vec![0; shards.max(1)],
            lines: 0,
            distinct: HashSet::new(),
            ops: BTreeMap::new(),
            counters: BTreeMap::new(),
            hists: BTreeMap::new(),
            samples: Vec::new(),
            io_error: None,
        })
    }

    /// All lines until `end_group` go to one shard, in order (C05 chains).
    pub fn begin_group(&mut self) {
        // the currently shortest shard (first one on ties): keeps shards balanced although groups
        // differ a lot in size
        let mut best = 0;
        for k in 0..self.per_shard.len() {
            if self.per_shard[k] < self.per_shard[best] {
                best = k;
            }
        }
        self.group = Some(best);
    }
    pub fn end_group(&mut self) {
        self.group = None;
    }

    pub fn emit(&mut self, line: String) {
        let k = match self.group {
            Some(g) => g,
            None => {
                let k = self.next % self.outs.len();
                self.next += 1;
                k
            }
        };
        if let Err(e) = self.outs[k]
            .write_all(line.as_bytes())
            .and_then(|_| self.outs[k].write_all(b"\n"))
        {
            if self.io_error.is_none() {
                self.io_error = Some(e.to_string());
            }
        }
        self.lines += 1;
        self.per_shard[k] += 1;
        let op = line.split(' ').next().unwrap_or("").to_string();
        *self.ops.entry(op).or_insert(0) += 1;
        self.distinct.insert(fp128(&line));
        if self.samples.len() < 5 {
            self.samples.push(line);
        }
    }

    pub fn count(&mut self, key: &str) {
        self.add(key, 1);
    }
    pub fn add(&mut self, key: &str, n: u64) {
        *self.counters.entry(key.to_string()).or_insert(0) += n;
    }
    pub fn hist(&mut self, name: &str, bucket: String) {
        *self
            .hists
            .entry(name.to_string())
            .or_insert_with(BTreeMap::new)
            .entry(bucket)
            .or_insert(0) += 1;
    }

    /// Classify the result part of a string-parsing line (OK / ERR… / PANIC).
    pub fn note_result(&mut self, line: &str) {
        if let Some(i) = line.find(" => ") {
            let op = line.split(' ').next().unwrap_or("");
            let res = line[i + 4..].split(' ').next().unwrap_or("");
            let kind = if res.len() > 12 { "VALUE" } else { res };
            self.hist("results", format!("{}:{}", op, kind));
            if line[i + 4..].contains("safe=0") {
                self.count("accepted_unsafe");
            }
        }
    }

    /// Distribution of a position stream (measured on the real crate's own answers).
    pub fn note_position(&mut self, b: &Board) {
        self.count("positions");
        let ms = match ops::moves_of(b) {
            Some(m) => m,
            None => {
                self.count("movegen_panics");
                return;
            }
        };
        self.note_position_with(b, &ms);
    }

    pub fn note_position_with(&mut self, b: &Board, ms: &[ChessMove]) {
        let chk = b.checkers().popcnt();
        if chk == 1 {
            self.count("in_check_by_1");
        } else if chk >= 2 {
            self.count("in_check_by_2");
        }
        if b.pinned().0 & b.color_combined(b.side_to_move()).0 != 0 {
            self.count("pinned_gt0");
        }
        if b.en_passant().is_some() {
            self.count("ep_set");
        }
        let mut ep = false;
        let mut castle = false;
        let mut promo = false;
        for m in ms {
            let p = b.piece_on(m.get_source());
            if p == Some(Piece::Pawn)
                && (m.get_source().to_index() & 7) != (m.get_dest().to_index() & 7)
                && b.piece_on(m.get_dest()).is_none()
            {
                ep = true;
            }
            if p == Some(Piece::King) {
                let d = (m.get_source().to_index() & 7) as i32 - (m.get_dest().to_index() & 7) as i32;
                if d.abs() == 2 {
                    castle = true;
                }
            }
            if m.get_promotion().is_some() {
                promo = true;
            }
        }
        if ep {
            self.count("ep_capture_legal");
        }
        if castle {
            self.count("castling_move_legal");
        }
        if promo {
            self.count("promotion_available");
        }
        if b.castle_rights(Color::White).to_index() != 0 {
            self.count("castle_rights_white");
        }
        if b.castle_rights(Color::Black).to_index() != 0 {
            self.count("castle_rights_black");
        }
        if ms.is_empty() {
            if chk > 0 {
                self.count("terminal_checkmate");
            } else {
                self.count("terminal_stalemate");
            }
        }
        if b.side_to_move() == Color::Black {
            self.count("black_to_move");
        }
        self.hist("men", format!("{:02}", b.combined().popcnt()));
        self.hist("moves", format!("{:03}", (ms.len() / 10) * 10));
    }

    pub fn finish(mut self, outdir: &str, header: &[(&str, String)]) -> Result<(), String> {
        for o in self.outs.iter_mut() {
            o.flush().map_err(|e| e.to_string())?;
        }
        if let Some(e) = &self.io_error {
            return Err(format!("write error: {}", e));
        }
        let mut j = String::new();
        j.push_str("{");
        for (k, v) in header {
            j.push_str(&format!("\"{}\":{},", k, v));
        }
        j.push_str(&format!("\"lines\":{},", self.lines));
        j.push_str(&format!("\"distinct_lines\":{},", self.distinct.len()));
        j.push_str("\"ops\":{");
        j.push_str(
            &self
                .ops
                .iter()
                .map(|(k, v)| format!("\"{}\":{}", k, v))
                .collect::<Vec<_>>()
                .join(","),
        );
        j.push_str("},\"dist\":{");
        let mut parts: Vec<String> = self
            .counters
            .iter()
            .map(|(k, v)| format!("\"{}\":{}", k, v))
            .collect();
        for (name, hmap) in self.hists.iter() {
            parts.push(format!(
                "\"{}\":{{{}}}",
                name,
                hmap.iter()
                    .map(|(k, v)| format!("\"{}\":{}", k, v))
                    .collect::<Vec<_>>()
                    .join(",")
            ));
        }
        j.push_str(&parts.join(","));
        j.push_str("},\"samples\":[");
        j.push_str(
            &self
                .samples
                .iter()
                .map(|s| {
                    let short: String = s.chars().take(400).collect();
                    format!("\"{}\"", short.replace('\\', "\\\\").replace('"', "\\\""))
                })
                .collect::<Vec<_>>()
                .join(","),
        );
        j.push_str("]}\n");
        std::fs::write(format!("{}/stats.json", outdir), j).map_err(|e| e.to_string())
    }
}

#[allow(dead_code)]
pub fn hexs(s: &str) -> String {
    hex_text(s)
}
