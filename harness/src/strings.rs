//! String generators: grammar-directed FEN / SAN / UCI text, char-level mutations (always valid
//! UTF-8), truncations, over-long input; the harness's own standard FEN writer and SAN writer.

use crate::enc::*;
use crate::gens::classify;
use crate::ops::moves_of;
use crate::rng::Rng;
use chess::{Board, ChessMove, Color, Piece};

pub const MULTI: [char; 10] = ['é', '♞', '𝄞', 'ß', '–', '١', 'Ａ', '\u{0301}', '８', 'ｅ'];

// ------------------------------------------------------------------ mutations

pub fn mutate(rng: &mut Rng, s: &str, alphabet: &[char]) -> String {
    let mut v: Vec<char> = s.chars().collect();
    let n = 1 + rng.below(3);
    for _ in 0..n {
        let any = |rng: &mut Rng| -> char {
            match rng.below(10) {
                0 | 1 => MULTI[rng.below(MULTI.len())],
                2 => (32 + rng.below(95) as u8) as char,
                3 => ['\t', '\n', '\0', ' ', '\u{a0}'][rng.below(5)],
                _ => alphabet[rng.below(alphabet.len())],
            }
        };
        match rng.below(8) {
            0 if !v.is_empty() => {
                let i = rng.below(v.len());
                v[i] = any(rng);
            }
            1 => {
                let i = rng.below(v.len() + 1);
                let c = any(rng);
                v.insert(i, c);
            }
            2 if !v.is_empty() => {
                let i = rng.below(v.len());
                v.remove(i);
            }
            3 if !v.is_empty() => {
                let i = rng.below(v.len());
                let c = v[i];
                v.insert(i, c);
            }
            4 if v.len() >= 2 => {
                let i = rng.below(v.len() - 1);
                v.swap(i, i + 1);
            }
            5 if !v.is_empty() => {
                // truncate (char boundary by construction)
                let i = rng.below(v.len());
                v.truncate(i);
            }
            6 if !v.is_empty() => {
                // case flip / digit bump
                let i = rng.below(v.len());
                let c = v[i];
                v[i] = if c.is_ascii_lowercase() {
                    c.to_ascii_uppercase()
                } else if c.is_ascii_uppercase() {
                    c.to_ascii_lowercase()
                } else if c.is_ascii_digit() {
                    (b'0' + ((c as u8 - b'0' + 1) % 10)) as char
                } else {
                    c
                };
            }
            _ => {
                // insert a multi-byte char right where byte-slicing code would cut
                let i = rng.below(v.len().min(6) + 1);
                v.insert(i, MULTI[rng.below(MULTI.len())]);
            }
        }
    }
    v.into_iter().collect()
}

pub fn overlong(rng: &mut Rng, s: &str) -> String {
    match rng.below(4) {
        0 => s.repeat(2 + rng.below(40)),
        1 => format!("{}{}", s, "x".repeat(1 + rng.below(3000))),
        2 => format!("{}{}", " ".repeat(1 + rng.below(50)), s),
        _ => format!("{} {}", s, "0 1 ".repeat(rng.below(200))),
    }
}

pub fn random_text(rng: &mut Rng, alphabet: &[char], max: usize) -> String {
    let n = rng.below(max + 1);
    let mut s = String::new();
    for _ in 0..n {
        if rng.chance(1, 12) {
            s.push(MULTI[rng.below(MULTI.len())]);
        } else if rng.chance(1, 12) {
            s.push((32 + rng.below(95) as u8) as char);
        } else {
            s.push(alphabet[rng.below(alphabet.len())]);
        }
    }
    s
}

// ------------------------------------------------------------------ FEN

pub const FEN_ALPHA: [char; 36] = [
    'p', 'n', 'b', 'r', 'q', 'k', 'P', 'N', 'B', 'R', 'Q', 'K', '1', '2', '3', '4', '5', '6', '7',
    '8', '/', ' ', 'w', 'b', '-', 'K', 'Q', 'k', 'q', 'a', 'e', 'h', '3', '6', '0', '9',
];

fn placement_of(d: &BD) -> String {
    let mut s = String::new();
    for r in (0..8).rev() {
        let mut run = 0;
        for f in 0..8 {
            match d.sq[r * 8 + f] {
                None => run += 1,
                Some(pc) => {
                    if run > 0 {
                        s.push_str(&run.to_string());
                        run = 0;
                    }
                    s.push(piece_char(Some(pc)));
                }
            }
        }
        if run > 0 {
            s.push_str(&run.to_string());
        }
        if r > 0 {
            s.push('/');
        }
    }
    s
}

fn castle_field(wcr: usize, bcr: usize) -> String {
    let mut s = String::new();
    if wcr & 1 != 0 { s.push('K'); }
    if wcr & 2 != 0 { s.push('Q'); }
    if bcr & 1 != 0 { s.push('k'); }
    if bcr & 2 != 0 { s.push('q'); }
    if s.is_empty() { s.push('-'); }
    s
}

/// The harness's own *standard* FEN writer. `ep_target` = the square passed over by the last
/// double push (printed after every double push, whether or not a capture is possible).
pub fn std_fen(b: &Board, ep_target: Option<usize>, half: usize, full: usize) -> String {
    let d = BD::of_board(b);
    format!(
        "{} {} {} {} {} {}",
        placement_of(&d),
        color_ch(d.stm),
        castle_field(d.wcr, d.bcr),
        match ep_target {
            Some(s) => sq_name(sq(s)),
            None => "-".to_string(),
        },
        half,
        full
    )
}

/// Well-formed in the fields whose deviations the parser reports as InvalidFen (placement alphabet,
/// side, field count); castling / ep / counters vary freely.
pub fn fen_clean(rng: &mut Rng, base: &BD) -> String {
    let eprank = if base.stm == Color::White { '6' } else { '3' };
    let ep = match rng.below(8) {
        0 => format!("{}{}", (b'a' + rng.below(8) as u8) as char, eprank),
        1 => format!("{}{}", (b'a' + rng.below(8) as u8) as char, 1 + rng.below(8)),
        2 => "-".to_string(),
        _ => match base.ep {
            Some(f) => format!("{}{}", (b'a' + f as u8) as char, eprank),
            None => "-".to_string(),
        },
    };
    let castle = match rng.below(8) {
        0 => "KQkq".to_string(),
        1 => ["K", "Q", "k", "q", "Kk", "Qq", "Kq", "Qk", "KQ", "kq"][rng.below(10)].to_string(),
        2 => "-".to_string(),
        _ => castle_field(base.wcr, base.bcr),
    };
    let stm = if rng.chance(1, 8) { color_ch(!base.stm) } else { color_ch(base.stm) };
    let mut s = format!("{} {} {} {}", placement_of(base), stm, castle, ep);
    if rng.chance(7, 8) {
        s.push_str(&format!(" {} {}", rng.below(120), 1 + rng.below(200)));
    }
    s
}

/// Grammar-directed FEN-like text: mostly well-formed with one or two deviating fields.
pub fn fen_grammar(rng: &mut Rng, base: &BD) -> String {
    let mut placement = placement_of(base);
    match rng.below(30) {
        0 => placement = placement.replace('/', ""),
        1 => placement = placement.replacen('/', "//", 1),
        2 => placement.push_str("/8"),
        3 => placement = placement.replacen('8', "9", 1),
        4 => placement = placement.replacen('1', "0", 1),
        5 => placement = placement.replacen('8', "44", 1),
        6 => placement = placement.replacen('8', "71", 1),
        7 => {
            // a rank that is too long
            placement = placement.replacen('/', "pp/", 1);
        }
        8 => placement = placement.replacen('/', "8/", 1),
        9 => {
            if let Some(i) = placement.rfind('/') {
                placement.truncate(i);
            }
        }
        _ => {}
    }
    let side = match rng.below(12) {
        0 => "W",
        1 => "B",
        2 => "",
        3 => "x",
        4 => "white",
        5 | 6 | 7 => "b",
        _ => "w",
    };
    let side = if rng.chance(5, 6) { color_ch(base.stm).to_string() } else { side.to_string() };
    let castle = match rng.below(14) {
        0 => "KQkq".to_string(),
        1 => "qkQK".to_string(),
        2 => "".to_string(),
        3 => "KK".to_string(),
        4 => "AHah".to_string(),
        5 => "K-".to_string(),
        6 => "--".to_string(),
        7 => "kq".to_string(),
        8 => "Qk".to_string(),
        _ => castle_field(base.wcr, base.bcr),
    };
    let eprank = if base.stm == Color::White { '6' } else { '3' };
    let ep = match rng.below(16) {
        0 => "e3".to_string(),
        1 => "e6".to_string(),
        2 => "a9".to_string(),
        3 => "i3".to_string(),
        4 => "e".to_string(),
        5 => "E3".to_string(),
        6 => "é3".to_string(),
        7 => "e33".to_string(),
        8 => "e4".to_string(),
        9 => "h1".to_string(),
        10 => "".to_string(),
        11 | 12 => format!("{}{}", (b'a' + rng.below(8) as u8) as char, eprank),
        _ => match base.ep {
            Some(f) => format!("{}{}", (b'a' + f as u8) as char, eprank),
            None => "-".to_string(),
        },
    };
    let sep = |rng: &mut Rng| -> &'static str {
        match rng.below(30) {
            0 => "  ",
            1 => "\t",
            2 => "",
            3 => "\u{a0}",
            _ => " ",
        }
    };
    let mut s = String::new();
    if rng.chance(1, 30) {
        s.push(' ');
    }
    s.push_str(&placement);
    let nfields = match rng.below(30) {
        0 => 1,
        1 => 2,
        2 => 3,
        3 | 4 | 5 => 4,
        6 | 7 => 5,
        _ => 6,
    };
    let tail: [String; 5] = [
        side,
        castle,
        ep,
        match rng.below(6) { 0 => "-1".into(), 1 => "x".into(), 2 => "99999999999999999999".into(), _ => rng.below(120).to_string() },
        match rng.below(6) { 0 => "0".into(), 1 => "".into(), _ => (1 + rng.below(200)).to_string() },
    ];
    for t in tail.iter().take(nfields - 1) {
        s.push_str(sep(rng));
        s.push_str(t);
    }
    if rng.chance(1, 30) {
        s.push(' ');
    }
    if rng.chance(1, 40) {
        s.push_str(" extra tokens here");
    }
    s
}

// ------------------------------------------------------------------ SAN writer

fn piece_letter(p: Piece) -> &'static str {
    match p {
        Piece::Pawn => "",
        Piece::Knight => "N",
        Piece::Bishop => "B",
        Piece::Rook => "R",
        Piece::Queen => "Q",
        Piece::King => "K",
    }
}

fn promo_letter(p: Option<Piece>) -> &'static str {
    match p {
        None => "",
        Some(x) => piece_letter(x),
    }
}

fn file_ch(s: usize) -> char {
    (b'a' + (s & 7) as u8) as char
}
fn rank_ch(s: usize) -> char {
    (b'1' + (s >> 3) as u8) as char
}

/// Every admissible spelling of the legal move `m` (documented grammar), written independently of
/// the crate: piece letter, none/file/rank/both disambiguation when it singles `m` out among the
/// legal moves of that piece type to that destination (with that promotion), `x` iff capture
/// (incl. ep), destination, promotion letter, optional truthful `+`/`#`, optional ` e.p.`.
pub fn san_spellings(b: &Board, ms: &[ChessMove], m: ChessMove) -> Vec<String> {
    let mut out = Vec::new();
    let info = classify(b, m);
    let succ = guard(|| b.make_move_new(m));
    let suffix: &str = match &succ {
        Some(n) => {
            if n.checkers().popcnt() > 0 {
                if moves_of(n).map(|v| v.is_empty()).unwrap_or(false) { "#" } else { "+" }
            } else {
                ""
            }
        }
        None => "",
    };
    let suffixes: Vec<&str> = if suffix.is_empty() { vec![""] } else { vec!["", suffix] };
    if info.castle {
        let base = if (m.get_dest().to_index() & 7) == 6 { "O-O" } else { "O-O-O" };
        for s in suffixes.iter() {
            out.push(format!("{}{}", base, s));
        }
        return out;
    }
    let p = match b.piece_on(m.get_source()) {
        Some(p) => p,
        None => return out,
    };
    let s = m.get_source().to_index();
    let d = m.get_dest().to_index();
    let rivals: Vec<&ChessMove> = ms
        .iter()
        .filter(|x| {
            b.piece_on(x.get_source()) == Some(p)
                && x.get_dest() == m.get_dest()
                && x.get_promotion() == m.get_promotion()
        })
        .collect();
    let uniq = |f: &dyn Fn(usize) -> bool| rivals.iter().filter(|x| f(x.get_source().to_index())).count() == 1;
    let mut disamb: Vec<String> = Vec::new();
    let pawn_capture = p == Piece::Pawn && info.capture;
    if uniq(&|_| true) && !pawn_capture {
        disamb.push(String::new());
    }
    if uniq(&|x| (x & 7) == (s & 7)) {
        disamb.push(file_ch(s).to_string());
    }
    if uniq(&|x| (x >> 3) == (s >> 3)) && !pawn_capture {
        disamb.push(rank_ch(s).to_string());
    }
    disamb.push(format!("{}{}", file_ch(s), rank_ch(s)));
    for dis in disamb.iter() {
        for suf in suffixes.iter() {
            let core = format!(
                "{}{}{}{}{}{}{}",
                piece_letter(p),
                dis,
                if info.capture { "x" } else { "" },
                file_ch(d),
                rank_ch(d),
                promo_letter(m.get_promotion()),
                suf
            );
            if info.ep {
                out.push(format!("{} e.p.", core));
            }
            out.push(core);
        }
    }
    out
}

/// Well-formed SAN that the documented grammar must reject in `b` (tag `!`):
/// (a) under-disambiguated spellings, (b) piece+destination that no legal move of that piece type
/// reaches (pinned piece, move leaving the king in check, blocked slide, empty piece type).
pub fn san_rejections(b: &Board, ms: &[ChessMove]) -> (Vec<String>, Vec<String>) {
    let mut out = Vec::new();
    // (a) ambiguity: group legal moves by (piece, dest, promotion)
    for (i, m) in ms.iter().enumerate() {
        let p = match b.piece_on(m.get_source()) {
            Some(p) => p,
            None => continue,
        };
        if classify(b, *m).castle {
            continue;
        }
        let rivals: Vec<&ChessMove> = ms
            .iter()
            .filter(|x| {
                b.piece_on(x.get_source()) == Some(p)
                    && x.get_dest() == m.get_dest()
                    && x.get_promotion() == m.get_promotion()
            })
            .collect();
        if rivals.len() < 2 {
            continue;
        }
        // handle each group once (at its first member)
        if ms[..i].iter().any(|x| {
            b.piece_on(x.get_source()) == Some(p)
                && x.get_dest() == m.get_dest()
                && x.get_promotion() == m.get_promotion()
        }) {
            continue;
        }
        let d = m.get_dest().to_index();
        let x = if b.piece_on(m.get_dest()).is_some() || classify(b, *m).ep { "x" } else { "" };
        let tail = format!("{}{}{}{}", x, file_ch(d), rank_ch(d), promo_letter(m.get_promotion()));
        if p != Piece::Pawn {
            out.push(format!("{}{}", piece_letter(p), tail));
        }
        for r in rivals.iter() {
            let s = r.get_source().to_index();
            let same_file = rivals.iter().filter(|y| (y.get_source().to_index() & 7) == (s & 7)).count();
            let same_rank = rivals.iter().filter(|y| (y.get_source().to_index() >> 3) == (s >> 3)).count();
            if same_file >= 2 && p != Piece::Pawn {
                out.push(format!("{}{}{}", piece_letter(p), file_ch(s), tail));
            }
            if same_rank >= 2 && p != Piece::Pawn {
                out.push(format!("{}{}{}", piece_letter(p), rank_ch(s), tail));
            }
        }
    }
    out.sort();
    out.dedup();
    let ambiguous = out;
    let mut out = Vec::new();
    // (b) piece type + destination that no legal move of that type reaches
    let me = b.side_to_move();
    for p in [Piece::Knight, Piece::Bishop, Piece::Rook, Piece::Queen, Piece::King].iter() {
        for d in 0..64 {
            let reach = ms
                .iter()
                .any(|x| b.piece_on(x.get_source()) == Some(*p) && x.get_dest().to_index() == d);
            if reach {
                continue;
            }
            // skip the lenient corner: "Kg1"/"Kc1" read as castling by nobody, but keep clear of it
            if *p == Piece::King {
                let home = if me == Color::White { 4 } else { 60 };
                if b.king_square(me).to_index() == home && (d == home + 2 || d + 2 == home) {
                    continue;
                }
            }
            // interesting only if a pseudo-move is plausible: own piece of that type exists
            let have = (b.pieces(*p).0 & b.color_combined(me).0) != 0;
            let target = b.piece_on(sq(d));
            let own_target = b.color_on(sq(d)) == Some(me);
            if !have && d % 7 != 0 {
                continue; // thin out the "no such piece at all" cases
            }
            if own_target && d % 3 != 0 {
                continue;
            }
            let x = if target.is_some() && !own_target { "x" } else { "" };
            out.push(format!("{}{}{}{}", piece_letter(*p), x, file_ch(d), rank_ch(d)));
        }
    }
    (ambiguous, out)
}

/// Lenient / unspecified variations of a correct spelling (tag `?`).
pub fn san_lenient(rng: &mut Rng, good: &str) -> String {
    match rng.below(9) {
        0 => good.replace('x', ""),
        1 => format!("{}!", good),
        2 => format!("{}??", good),
        3 => good.replace("O", "0"),
        4 => good.replace('+', "").replace('#', "") + "+",
        5 => {
            // '=' promotion
            let mut s = String::new();
            for c in good.chars() {
                if "NBRQ".contains(c) && !s.is_empty() && s.chars().last().map(|l| l.is_ascii_digit()).unwrap_or(false) {
                    s.push('=');
                }
                s.push(c);
            }
            s
        }
        6 => format!("{} ", good),
        7 => good.to_lowercase(),
        _ => format!("{}#", good.replace('+', "").replace('#', "")),
    }
}

pub const SAN_ALPHA: [char; 34] = [
    'N', 'B', 'R', 'Q', 'K', 'a', 'b', 'c', 'd', 'e', 'f', 'g', 'h', '1', '2', '3', '4', '5', '6',
    '7', '8', 'x', '+', '#', 'O', '-', '=', ' ', 'e', '.', 'p', '.', '0', 'P',
];

pub const UCI_ALPHA: [char; 22] = [
    'a', 'b', 'c', 'd', 'e', 'f', 'g', 'h', '1', '2', '3', '4', '5', '6', '7', '8', 'q', 'r', 'n',
    'b', 'k', '0',
];
