//! Small deterministic PRNG (xoshiro256** seeded through splitmix64). No external crates.

#[derive(Clone)]
pub struct Rng {
    s: [u64; 4],
}

pub fn splitmix64(x: &mut u64) -> u64 {
    *x = x.wrapping_add(0x9E37_79B9_7F4A_7C15);
    let mut z = *x;
    z = (z ^ (z >> 30)).wrapping_mul(0xBF58_476D_1CE4_E5B9);
    z = (z ^ (z >> 27)).wrapping_mul(0x94D0_49BB_1331_11EB);
    z ^ (z >> 31)
}

#[allow(dead_code)]
impl Rng {
    pub fn new(seed: u64) -> Rng {
        let mut x = seed;
        let s = [
            splitmix64(&mut x),
            splitmix64(&mut x),
            splitmix64(&mut x),
            splitmix64(&mut x),
        ];
        Rng { s }
    }

    /// A child generator whose stream depends on the parent state and on `tag`
    /// (used to decouple the sub-generators of one property from each other's sizes).
    pub fn fork(&mut self, tag: u64) -> Rng {
        let a = self.next_u64();
        Rng::new(a ^ tag.wrapping_mul(0xD6E8_FEB8_6659_FD93))
    }

    pub fn next_u64(&mut self) -> u64 {
        let r = self.s[1].wrapping_mul(5).rotate_left(7).wrapping_mul(9);
        let t = self.s[1] << 17;
        self.s[2] ^= self.s[0];
        self.s[3] ^= self.s[1];
        self.s[1] ^= self.s[2];
        self.s[0] ^= self.s[3];
        self.s[2] ^= t;
        self.s[3] = self.s[3].rotate_left(45);
        r
    }

    /// Uniform in 0..n (n > 0); 0 when n == 0.
    pub fn below(&mut self, n: usize) -> usize {
        if n == 0 {
            return 0;
        }
        ((self.next_u64() >> 11) % (n as u64)) as usize
    }

    /// Uniform in lo..=hi.
    pub fn range(&mut self, lo: usize, hi: usize) -> usize {
        if hi <= lo {
            return lo;
        }
        lo + self.below(hi - lo + 1)
    }

    /// True with probability num/den.
    pub fn chance(&mut self, num: usize, den: usize) -> bool {
        self.below(den) < num
    }

    pub fn pick<'a, T>(&mut self, v: &'a [T]) -> &'a T {
        &v[self.below(v.len())]
    }

    /// Index chosen with probability proportional to the weights (all zero -> uniform).
    pub fn weighted(&mut self, w: &[u32]) -> usize {
        let total: u64 = w.iter().map(|x| *x as u64).sum();
        if total == 0 {
            return self.below(w.len());
        }
        let mut r = (self.next_u64() >> 11) % total;
        for (i, x) in w.iter().enumerate() {
            if r < *x as u64 {
                return i;
            }
            r -= *x as u64;
        }
        w.len() - 1
    }

    pub fn shuffle<T>(&mut self, v: &mut [T]) {
        for i in (1..v.len()).rev() {
            let j = self.below(i + 1);
            v.swap(i, j);
        }
    }

    /// A 64-bit value with roughly `bits` of 64 bits set (sparse / dense masks).
    pub fn sparse(&mut self) -> u64 {
        match self.below(4) {
            0 => self.next_u64(),
            1 => self.next_u64() & self.next_u64(),
            2 => self.next_u64() & self.next_u64() & self.next_u64(),
            _ => self.next_u64() | self.next_u64(),
        }
    }
}
