#!/usr/bin/env python3
"""mutation_campaign.py — systematic self-test of the checks with small syntactic changes of the library.

This is a test of the *machinery* (how good are the generators and oracles of ties T2/T3 and the
regenerated obligations of T1), not a check of any property and not evidence.  It never touches /repo
or /verif: it works on scratch copies

    <scratch>/repo_f<k>   copies of /repo's working tree, one per filter worker (stage A)
    <scratch>/repo_c, <scratch>/verif_c   one copy of /repo and of /verif (with its build products),
                          the copy of /verif re-pointed at <scratch>/repo_c               (stage B)

Stage A: every sampled mutant (one token changed on one line of src/**/*.rs) is compiled and run
         against the library's own unit tests; mutants that do not compile or that the suite kills
         are discarded (the brief is about changes that pass the existing tests).
Stage B: each surviving mutant is applied to <scratch>/repo_c and `./check <P> quick` is run in
         <scratch>/verif_c for the properties that depend on the changed file, most specific first,
         until one reports a violation.  A mutant that no check reports is written to the survivors
         list for triage by hand: it is either equivalent (no property is broken) or a gap.

usage: mutation_campaign.py <scratch> prepare
       mutation_campaign.py <scratch> filter <n_workers> <sample_size> [seed] [file-glob …]
       mutation_campaign.py <scratch> check  [max_mutants]
       mutation_campaign.py <scratch> report
"""
import sys, os, re, json, random, subprocess, shutil, time, glob, fnmatch, hashlib
from concurrent.futures import ThreadPoolExecutor

ENV = dict(os.environ, CARGO_NET_OFFLINE='true')

def sh(cmd, cwd=None, timeout=3600, env=None):
    try:
        p = subprocess.run(cmd, cwd=cwd, shell=isinstance(cmd, str), stdout=subprocess.PIPE, stderr=subprocess.STDOUT,
                           text=True, timeout=timeout, env=env or ENV)
        return p.returncode, p.stdout
    except subprocess.TimeoutExpired as e:
        return 124, (e.stdout or b'').decode(errors='replace') if isinstance(e.stdout, bytes) else (e.stdout or '')

# ---------------------------------------------------------------- mutation operators
SWAPS = [
    (r'<=', ['<']), (r'>=', ['>']), (r'(?<![<>=!\-])<(?![<=])', ['<=']), (r'(?<![<>=!\-])>(?![>=])', ['>=']),
    (r'==', ['!=']), (r'!=', ['==']),
    (r'&&', ['||']), (r'\|\|', ['&&']),
    (r'(?<![&])&(?![&=])(?=\s)', ['|', '^']), (r'(?<![|])\|(?![|=])(?=\s)', ['&', '^']), (r'\^(?!=)', ['|', '&']),
    (r'\^=', ['|=', '&=']), (r'&=', ['|=', '^=']), (r'\|=', ['^=', '&=']),
    (r'<<', ['>>']), (r'>>', ['<<']),
    (r'(?<=\s)\+(?=\s)', ['-']), (r'(?<=\s)-(?=\s)', ['+']),
    (r'\btrue\b', ['false']), (r'\bfalse\b', ['true']),
    (r'Color::White', ['Color::Black']), (r'Color::Black', ['Color::White']),
    (r'Piece::Rook', ['Piece::Bishop', 'Piece::Queen']), (r'Piece::Bishop', ['Piece::Rook', 'Piece::Knight']),
    (r'Piece::Queen', ['Piece::Rook', 'Piece::King']), (r'Piece::Knight', ['Piece::Bishop']),
    (r'Piece::Pawn', ['Piece::Knight']), (r'Piece::King', ['Piece::Queen']),
    (r'Rank::First', ['Rank::Second', 'Rank::Eighth']), (r'Rank::Eighth', ['Rank::Seventh', 'Rank::First']),
    (r'Rank::Second', ['Rank::Third', 'Rank::Seventh']), (r'Rank::Seventh', ['Rank::Sixth', 'Rank::Second']),
    (r'Rank::Fourth', ['Rank::Fifth', 'Rank::Third']), (r'Rank::Fifth', ['Rank::Fourth', 'Rank::Sixth']),
    (r'Rank::Third', ['Rank::Fourth', 'Rank::Sixth']), (r'Rank::Sixth', ['Rank::Fifth', 'Rank::Third']),
    (r'File::A', ['File::B', 'File::H']), (r'File::H', ['File::G', 'File::A']), (r'File::E', ['File::D']),
    (r'File::G', ['File::F']), (r'File::C', ['File::D']), (r'File::D', ['File::C']), (r'File::F', ['File::G']),
    (r'\.up\(\)', ['.down()']), (r'\.down\(\)', ['.up()']), (r'\.left\(\)', ['.right()']), (r'\.right\(\)', ['.left()']),
    (r'\.uup\(\)', ['.udown()']), (r'\.udown\(\)', ['.uup()']), (r'\.uleft\(\)', ['.uright()']), (r'\.uright\(\)', ['.uleft()']),
    (r'\.uforward\(', ['.ubackward(']), (r'\.ubackward\(', ['.uforward(']), (r'\.forward\(', ['.backward(']), (r'\.backward\(', ['.forward(']),
    (r'\bmy_castle_rights\b', ['their_castle_rights']), (r'\btheir_castle_rights\b', ['my_castle_rights']),
    (r'\bkingside\b', ['queenside']), (r'\bqueenside\b', ['kingside']),
    (r'CastleRights::KingSide', ['CastleRights::QueenSide']), (r'CastleRights::QueenSide', ['CastleRights::KingSide']),
    (r'CastleRights::Both', ['CastleRights::KingSide']), (r'CastleRights::NoRights', ['CastleRights::Both']),
    (r'!(?=[a-zA-Z_(])(?![a-zA-Z_]*!\()', ['']),   # drop a negation / complement
    (r'\bself\.side_to_move\b', ['!self.side_to_move']),
    (r'\bEMPTY\b', ['!EMPTY']),
    (r'\.popcnt\(\)', ['.popcnt().wrapping_sub(1)']),
    (r'\bSome\(', ['None.or(']),
    (r'\bcontinue;', ['break;']), (r'\bbreak;', ['continue;']),
    (r'\.is_some\(\)', ['.is_none()']), (r'\.is_none\(\)', ['.is_some()']),
    (r'\.min\(', ['.max(']), (r'\.max\(', ['.min(']),
    (r'\.wrapping_add\(', ['.wrapping_sub(']), (r'\.wrapping_sub\(', ['.wrapping_add(']),
    (r'\.pieces\(', ['.color_combined_of_piece_mut_(']),   # placeholder, never compiles: dropped below
]
SWAPS = [s for s in SWAPS if 'color_combined_of_piece_mut_' not in s[1][0]]
NUM = re.compile(r'(?<![\w.])(\d+)(?![\w.]|\s*=>)')

def strip_code(line):
    """the part of the line that is code (no // comment); None for doc/comment lines"""
    s = line.lstrip()
    if s.startswith('//') or s.startswith('#[') or s.startswith('#!['):
        return None
    i = line.find('//')
    return line if i < 0 else line[:i]

def test_region_start(lines):
    for i, l in enumerate(lines):
        if re.match(r'\s*#\[cfg\(test\)\]', l) or re.match(r'\s*#\[test\]', l):
            return i
    return len(lines)

def mutants_of_file(path, rel):
    lines = open(path).read().split('\n')
    end = test_region_start(lines)
    out = []
    in_block_comment = False
    for ln in range(end):
        line = lines[ln]
        if '/*' in line and '*/' not in line:
            in_block_comment = True
        if in_block_comment:
            if '*/' in line:
                in_block_comment = False
            continue
        code = strip_code(line)
        if code is None or not code.strip():
            continue
        if re.match(r'\s*(use |pub use |mod |pub mod |extern |include!|const NUM_|pub const NUM_)', code):
            continue
        if 'debug_assert' in code or 'unreachable!' in code or 'panic!' in code or 'println!' in code or 'write!' in code:
            continue
        for pat, reps in SWAPS:
            for m in re.finditer(pat, code):
                # skip generics / arrows / references / lifetimes for < > & -
                ctx = code[max(0, m.start() - 2):m.end() + 2]
                if m.group(0) in ('<', '>') and (re.search(r'[A-Za-z_:]<|<[A-Z&\']|[A-Za-z>)\]]>|->|=>', code[max(0, m.start() - 1):m.end() + 1])):
                    continue
                if m.group(0) == '&' and not re.search(r'\s&\s', ctx):
                    continue
                for r in reps:
                    new = line[:m.start()] + r + line[m.end():]
                    out.append({'file': rel, 'line': ln + 1, 'col': m.start(), 'op': f'{m.group(0)} -> {r}', 'old': line, 'new': new})
        for m in NUM.finditer(code):
            v = int(m.group(1))
            for r in ({v + 1, max(v - 1, 0)} - {v}):
                new = line[:m.start(1)] + str(r) + line[m.end(1):]
                out.append({'file': rel, 'line': ln + 1, 'col': m.start(1), 'op': f'{v} -> {r}', 'old': line, 'new': new})
        # statement deletion: a single-line expression statement (call or compound assignment)
        if re.match(r'\s+[\w.\[\]()*&:!, ]+(\^=|\|=|&=|\+=|-=|=(?!=))[^;{}]*;\s*$', code) and not re.match(r'\s*let\b', code):
            out.append({'file': rel, 'line': ln + 1, 'col': 0, 'op': 'delete assignment', 'old': line, 'new': re.match(r'\s*', line).group(0) + '// (statement removed)'})
        elif re.match(r'\s+(self|result|[a-z_]+)\.[a-z_]+\([^;{}]*\);\s*$', code) and 'return' not in code:
            out.append({'file': rel, 'line': ln + 1, 'col': 0, 'op': 'delete call', 'old': line, 'new': re.match(r'\s*', line).group(0) + '// (statement removed)'})
    for mu in out:
        mu['id'] = hashlib.sha1(f"{mu['file']}:{mu['line']}:{mu['col']}:{mu['op']}".encode()).hexdigest()[:10]
    return out

def all_mutants(repo, globs):
    res = []
    for p in sorted(glob.glob(os.path.join(repo, 'src', '**', '*.rs'), recursive=True)):
        rel = os.path.relpath(p, repo)
        if globs and not any(fnmatch.fnmatch(rel, g) for g in globs):
            continue
        if rel in ('src/lib.rs', 'src/construct.rs', 'src/error.rs'):
            continue
        res += mutants_of_file(p, rel)
    return res

def apply_mutant(repo, mu):
    p = os.path.join(repo, mu['file'])
    lines = open(p).read().split('\n')
    assert lines[mu['line'] - 1] == mu['old'], (mu, lines[mu['line'] - 1])
    lines[mu['line'] - 1] = mu['new']
    open(p, 'w').write('\n'.join(lines))

def revert_mutant(repo, mu):
    p = os.path.join(repo, mu['file'])
    lines = open(p).read().split('\n')
    lines[mu['line'] - 1] = mu['old']
    open(p, 'w').write('\n'.join(lines))

# ---------------------------------------------------------------- stages
def copy_repo(dst):
    if os.path.exists(dst):
        shutil.rmtree(dst)
    os.makedirs(dst)
    rc, out = sh(f'git -C /repo ls-files -z | xargs -0 -I{{}} cp --parents /repo/{{}} {dst}/ 2>/dev/null; true', cwd='/')
    # cp --parents keeps the leading "repo/": flatten
    inner = os.path.join(dst, 'repo')
    if os.path.isdir(inner):
        for n in os.listdir(inner):
            shutil.move(os.path.join(inner, n), os.path.join(dst, n))
        os.rmdir(inner)
    shutil.copy('/repo/Cargo.lock', os.path.join(dst, 'Cargo.lock'))
    # working-tree state (uncommitted edits) is copied too
    rc, out = sh('git -C /repo diff --name-only')
    for n in out.split():
        shutil.copy(os.path.join('/repo', n), os.path.join(dst, n))

def prepare(scratch):
    os.makedirs(scratch, exist_ok=True)
    rc = os.path.join(scratch, 'repo_c'); vc = os.path.join(scratch, 'verif_c')
    copy_repo(rc)
    if os.path.exists(vc):
        shutil.rmtree(vc)
    sh(f"rsync -a --exclude .git --exclude work --exclude replays --exclude seeded /verif/ {vc}/")
    for f in ('harness/Cargo.toml', 'harness/build.rs', 'tools/fingerprint.py'):
        p = os.path.join(vc, f)
        s = open(p).read()
        s = s.replace('"/repo"', f'"{rc}"').replace('"/repo/src/', f'"{rc}/src/').replace("REPO = '/repo'", f"REPO = '{rc}'")
        open(p, 'w').write(s)
    os.makedirs(os.path.join(vc, 'work'), exist_ok=True)
    # cargo fingerprints contain absolute paths: rebuild the harness copies once
    rcode, out = sh('./check C20 quick', cwd=vc, timeout=7200)
    print(out[-600:])
    print('prepared', scratch, 'check C20 rc =', rcode)

def filter_stage(scratch, workers, sample, seed, globs):
    muts = all_mutants('/repo', globs)
    random.Random(seed).shuffle(muts)
    done_path = os.path.join(scratch, 'filter.jsonl')
    done = {}
    if os.path.exists(done_path):
        for l in open(done_path):
            j = json.loads(l); done[j['id']] = j
    todo = [m for m in muts if m['id'] not in done][:sample]
    print(f'{len(muts)} mutation sites; {len(done)} already filtered; {len(todo)} to do with {workers} workers', flush=True)
    repos = []
    for k in range(workers):
        d = os.path.join(scratch, f'repo_f{k}')
        copy_repo(d)
        sh('cargo test --lib --offline --no-run -j 4', cwd=d, timeout=3600)
        repos.append(d)
    out_f = open(done_path, 'a')
    def work(args):
        k, chunk = args
        repo = repos[k]
        for mu in chunk:
            t0 = time.time()
            apply_mutant(repo, mu)
            try:
                rc, out = sh('cargo test --lib --offline -j 4 -- --test-threads 4', cwd=repo, timeout=600)
            finally:
                revert_mutant(repo, mu)
            if rc == 124:
                verdict = 'timeout'
            elif 'error' in out and 'could not compile' in out:
                verdict = 'compile-error'
            elif rc == 0 and re.search(r'test result: ok\. (\d+) passed; 0 failed', out):
                verdict = 'passes-suite'
            else:
                verdict = 'killed-by-suite'
            rec = dict(mu, verdict=verdict, t=round(time.time() - t0, 1))
            out_f.write(json.dumps(rec) + '\n'); out_f.flush()
            print(f"[{k}] {mu['file']}:{mu['line']} {mu['op']:24s} {verdict} ({rec['t']}s)", flush=True)
    chunks = [(k, todo[k::workers]) for k in range(workers)]
    with ThreadPoolExecutor(workers) as ex:
        list(ex.map(work, chunks))
    for d in repos:
        shutil.rmtree(d, ignore_errors=True)

# most specific properties first
FILE_PROPS = {
    'src/bitboard.rs': ['C20', 'C01', 'C16'],
    'src/square.rs': ['C16', 'C13', 'C01', 'C06'],
    'src/file.rs': ['C16', 'C13', 'C12', 'C06'], 'src/rank.rs': ['C16', 'C13', 'C12', 'C06'],
    'src/color.rs': ['C16', 'C01', 'C02', 'C06'], 'src/piece.rs': ['C16', 'C13', 'C06', 'C12'],
    'src/castle_rights.rs': ['C16', 'C02', 'C06', 'C01', 'C08', 'C09'],
    'src/magic.rs': ['C15', 'C16', 'C01'], 'src/zobrist.rs': ['C08', 'C09', 'C03'],
    'src/board.rs': ['C02', 'C03', 'C01', 'C07', 'C08', 'C18', 'C05', 'C04', 'C06', 'C17', 'C09'],
    'src/board_builder.rs': ['C06', 'C07', 'C03'],
    'src/chess_move.rs': ['C13', 'C12'],
    'src/game.rs': ['C10', 'C11'],
    'src/cache_table.rs': ['C19'],
    'src/movegen/movegen.rs': ['C14', 'C01', 'C04', 'C07'],
    'src/movegen/piece_type.rs': ['C01', 'C04', 'C14', 'C17', 'C12'],
    'src/gen_tables/*': ['C16', 'C15', 'C09', 'C01', 'C08'],
    'src/build.rs': ['C16', 'C15'],
}

def props_for(rel):
    for k, v in FILE_PROPS.items():
        if fnmatch.fnmatch(rel, k):
            return v
    return ['C01']

def check_stage(scratch, max_mutants):
    rc_ = os.path.join(scratch, 'repo_c'); vc = os.path.join(scratch, 'verif_c')
    passed = [json.loads(l) for l in open(os.path.join(scratch, 'filter.jsonl'))]
    passed = [m for m in passed if m['verdict'] == 'passes-suite']
    res_path = os.path.join(scratch, 'checked.jsonl')
    done = set()
    if os.path.exists(res_path):
        done = {json.loads(l)['id'] for l in open(res_path)}
    todo = [m for m in passed if m['id'] not in done][:max_mutants]
    print(f'{len(passed)} mutants pass the suite; {len(done)} already checked; {len(todo)} to do', flush=True)
    out_f = open(res_path, 'a')
    for mu in todo:
        apply_mutant(rc_, mu)
        runs = []
        detected_by = None
        try:
            for p in props_for(mu['file']):
                t0 = time.time()
                rcode, out = sh(f'./check {p} quick', cwd=vc, timeout=3600, env=dict(ENV, VERIF_DRIFT_BUDGET_S='20'))
                lines = [l for l in out.splitlines() if l.startswith(('VIOLATION', 'OK', 'BUILD-ERROR', 'DRIVER-ERROR', 'SPEC-ERROR'))]
                detail = ''
                rp = os.path.join(vc, 'replays', f'{p}-1.json')
                if rcode != 0 and os.path.exists(rp):
                    j = json.load(open(rp))
                    detail = f"{j.get('kind')} | {j.get('channel', '')} | {(j.get('detail') or j.get('no_longer_checks') or '')[:200]}"
                runs.append({'prop': p, 'rc': rcode, 'lines': lines[:2], 'detail': detail, 't': round(time.time() - t0, 1)})
                if rcode != 0:
                    detected_by = p
                    break
        finally:
            revert_mutant(rc_, mu)
        rec = dict(mu, detected_by=detected_by, runs=runs)
        out_f.write(json.dumps(rec) + '\n'); out_f.flush()
        print(f"{mu['file']}:{mu['line']} {mu['op']:24s} -> {'DETECTED by ' + detected_by if detected_by else 'SURVIVED'}  ({sum(r['t'] for r in runs):.0f}s)  {runs[-1]['detail'][:120] if runs else ''}", flush=True)

def report(scratch):
    f = [json.loads(l) for l in open(os.path.join(scratch, 'filter.jsonl'))]
    from collections import Counter
    print('filter:', Counter(m['verdict'] for m in f))
    p = os.path.join(scratch, 'checked.jsonl')
    if os.path.exists(p):
        c = [json.loads(l) for l in open(p)]
        print('checked:', len(c), 'detected:', sum(1 for m in c if m['detected_by']), 'survived:', sum(1 for m in c if not m['detected_by']))
        for m in c:
            if not m['detected_by']:
                print(f"SURVIVOR {m['id']} {m['file']}:{m['line']} [{m['op']}]\n    - {m['old'].strip()}\n    + {m['new'].strip()}")

if __name__ == '__main__':
    scratch, cmd = sys.argv[1], sys.argv[2]
    if cmd == 'prepare':
        prepare(scratch)
    elif cmd == 'filter':
        filter_stage(scratch, int(sys.argv[3]), int(sys.argv[4]), int(sys.argv[5]) if len(sys.argv) > 5 else 1, sys.argv[6:])
    elif cmd == 'check':
        check_stage(scratch, int(sys.argv[3]) if len(sys.argv) > 3 else 10**9)
    elif cmd == 'report':
        report(scratch)
    elif cmd == 'list':
        ms = all_mutants('/repo', sys.argv[3:])
        from collections import Counter
        print(len(ms), Counter(m['file'] for m in ms))
