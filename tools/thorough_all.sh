#!/bin/bash
./setup.sh > setup.log 2>&1 || { tail -20 setup.log; exit 1; }
for i in 01 02 03 04 05 06 07 08 09 10 11 12 13 14 15 16 17 18 19 20; do
  s=$(date +%s); ./check C$i thorough 2>&1 | grep -E "^(OK|VIOLATION|KNOWN|NOTE|BUILD|DRIVER|SPEC)"; e=$(date +%s); echo "C$i thorough took $((e-s))s"
  if ls replays/C$i-1.json >/dev/null 2>&1; then python3 -c "
import json; j=json.load(open('replays/C$i-1.json')); print('   ', j.get('kind'), '|', j.get('channel',''), '|', (j.get('detail') or j.get('no_longer_checks') or '')[:600], '|', (j.get('line') or '')[:300])"; fi
done
