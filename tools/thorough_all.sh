#!/bin/bash
# thorough tier of the listed properties (default: all) in a snapshot; with `vp run --with-repo` the snapshot of /repo
# ($VP_RUN_REPO) is used instead of /repo itself, so that work going on in /repo cannot disturb the run
if [ -n "$VP_RUN_REPO" ]; then
  sed -i "s#\"/repo\"#\"$VP_RUN_REPO\"#" harness/Cargo.toml
  sed -i "s#\"/repo/src/#\"$VP_RUN_REPO/src/#" harness/build.rs
  sed -i "s#REPO = '/repo'#REPO = '$VP_RUN_REPO'#" tools/fingerprint.py
  cp /repo/Cargo.lock "$VP_RUN_REPO/" 2>/dev/null
fi
./setup.sh > setup.log 2>&1 || { tail -20 setup.log; exit 1; }
PROPS=${@:-C01 C02 C03 C04 C05 C06 C07 C08 C09 C10 C11 C12 C13 C14 C15 C16 C17 C18 C19 C20}
for p in $PROPS; do
  s=$(date +%s); ./check $p thorough 2>&1 | grep -E "^(OK|VIOLATION|KNOWN|NOTE|BUILD|DRIVER|SPEC)"; e=$(date +%s); echo "$p thorough took $((e-s))s"
  if ls replays/$p-1.json >/dev/null 2>&1; then python3 -c "
import json; j=json.load(open('replays/$p-1.json')); print('   ', j.get('kind'), '|', j.get('channel',''), '|', (j.get('detail') or j.get('no_longer_checks') or '')[:600], '|', (j.get('line') or '')[:300])"; fi
done
