#!/usr/bin/env python3
"""fingerprint.py [--write]: per-function fingerprints of /repo's Rust sources.

The model was written (and validated by the correspondence streams) against one exact source text.
`source_baseline.json` records, for every function of /repo/src (and build.rs), the SHA-1 of its
comment- and whitespace-free text at that point, plus one fingerprint per file for everything outside
function bodies.  `./check` recomputes them from the working tree on every run: a function whose text
changed is where model and code may have parted, so the check names it in the evidence
(`source_drift`) and spends an extra search budget on the properties anchored in that file.
Drift alone is never a violation."""
import re, os, sys, json, hashlib, glob

REPO = '/repo'
ROOT = os.path.dirname(os.path.dirname(os.path.abspath(__file__)))
BASE = os.path.join(ROOT, 'source_baseline.json')

def strip_comments(src):
    out = []; i = 0; n = len(src)
    while i < n:
        c = src[i]
        if src.startswith('//', i):
            j = src.find('\n', i); i = n if j < 0 else j
        elif src.startswith('/*', i):
            depth = 1; i += 2
            while i < n and depth:
                if src.startswith('/*', i): depth += 1; i += 2
                elif src.startswith('*/', i): depth -= 1; i += 2
                else: i += 1
        elif c == '"':
            j = i + 1
            while j < n and src[j] != '"':
                j += 2 if src[j] == '\\' else 1
            out.append(src[i:j + 1]); i = j + 1
        elif c == "'" and i + 2 < n and (src[i + 2] == "'" or (src[i + 1] == '\\' and src.find("'", i + 2) in (i + 3, i + 4, i + 5, i + 6, i + 7, i + 8, i + 9, i + 10))):
            j = src.find("'", i + 2 if src[i + 1] != '\\' else i + 3)
            out.append(src[i:j + 1]); i = j + 1
        else:
            out.append(c); i += 1
    return ''.join(out)

def functions(src):
    """yield (name, text) for every fn with a body; and the remainder of the file"""
    s = strip_comments(src)
    res = []; rest = []; pos = 0
    for m in re.finditer(r'\bfn\s+([A-Za-z_][A-Za-z0-9_]*)', s):
        if m.start() < pos:
            continue
        # find the body: first '{' before a ';' at nesting depth 0 of parens/brackets/angle-free scan
        i = m.end(); depth = 0; body = None
        while i < len(s):
            ch = s[i]
            if ch in '([': depth += 1
            elif ch in ')]': depth -= 1
            elif ch == ';' and depth == 0: break
            elif ch == '{' and depth == 0: body = i; break
            i += 1
        if body is None:
            continue
        d = 0; j = body
        while j < len(s):
            if s[j] == '{': d += 1
            elif s[j] == '}':
                d -= 1
                if d == 0: break
            j += 1
        rest.append(s[pos:m.start()])
        res.append((m.group(1), s[m.start():j + 1]))
        pos = j + 1
    rest.append(s[pos:])
    return res, ''.join(rest)

def norm(t):
    return re.sub(r'\s+', '', t)

def fingerprint_tree():
    out = {}
    files = sorted(glob.glob(os.path.join(REPO, 'src', '**', '*.rs'), recursive=True)) + [os.path.join(REPO, 'build.rs')]
    for f in files:
        if not os.path.exists(f):
            continue
        rel = os.path.relpath(f, REPO)
        try:
            src = open(f, encoding='utf-8', errors='replace').read()
        except Exception:
            continue
        fns, rest = functions(src)
        d = {}; seen = {}
        for name, text in fns:
            k = seen.get(name, 0); seen[name] = k + 1
            d[f'{name}#{k}'] = hashlib.sha1(norm(text).encode()).hexdigest()[:16]
        d['<outside functions>'] = hashlib.sha1(norm(rest).encode()).hexdigest()[:16]
        out[rel] = d
    return out

def drift(baseline, current, files=None):
    """list of 'file::fn (changed|added|removed)' restricted to `files` (relative paths) when given"""
    res = []
    for f in sorted(set(baseline) | set(current)):
        if files is not None and f not in files:
            continue
        b = baseline.get(f); c = current.get(f)
        if b is None: res.append(f'{f} (file added)'); continue
        if c is None: res.append(f'{f} (file removed)'); continue
        for k in sorted(set(b) | set(c)):
            if k not in c: res.append(f'{f}::{k} (removed)')
            elif k not in b: res.append(f'{f}::{k} (added)')
            elif b[k] != c[k]: res.append(f'{f}::{k} (changed)')
    return res

if __name__ == '__main__':
    cur = fingerprint_tree()
    if '--write' in sys.argv:
        import subprocess
        head = subprocess.run(['git', '-C', REPO, 'rev-parse', 'HEAD'], capture_output=True, text=True).stdout.strip()
        json.dump({'repo_commit': head, 'files': cur}, open(BASE, 'w'), indent=1, sort_keys=True)
        print('wrote', BASE, sum(len(v) for v in cur.values()), 'fingerprints at', head[:7])
    else:
        base = json.load(open(BASE))['files']
        for l in drift(base, cur):
            print(l)
