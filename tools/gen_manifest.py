#!/usr/bin/env python3
"""Write MANIFEST.json from lean/props.json (claimed properties = those with registered theorems)."""
import json, os
ROOT = os.path.dirname(os.path.dirname(os.path.abspath(__file__)))
reg = json.load(open(os.path.join(ROOT, 'lean', 'props.json')))
props = [json.loads(l) for l in open(os.path.join(ROOT, 'properties.jsonl'))]
TECH = {
 'C01': 'Lean proof (model of movegen vs FIDE spec, staged) + T3 correspondence with FIDE oracle',
 'C02': 'Lean refinement proof make_move_new = Spec.apply + T3 correspondence',
 'C03': 'Lean invariant proof (cached check/pin/occupancy = from scratch) + T3 correspondence',
 'C04': 'Lean proof (status determined by generated moves and checkers; composition with C01/C03) + T3',
 'C05': 'Lean proof on the FIDE spec (valid_step, monotone counts) by induction over histories + T3',
 'C06': 'Lean round-trip proof of the FEN writer/reader model + T3 correspondence with a spec FEN decoder',
 'C07': 'Lean totality/soundness proofs of the parsers and validation model + T3 with checked build',
 'C08': 'Lean proof: hash = function of the abstract position for every reachable board + T3',
 'C09': 'kernel-checked facts on the regenerated Zobrist keys + xor-fold algebra; collision count measured',
 'C10': 'Lean proof on the game state machine model (invariants over all action sequences) + T3',
 'C11': 'Lean proof characterising can_declare_draw on the model + T3 with a whole-history spec oracle',
 'C12': 'Lean proofs: total, sound, scanner inverts the documented writer, unique-match loop + T3',
 'C13': 'Lean round-trip/totality/prefix proofs for all strings + complete T2 enumeration',
 'C14': 'Lean proof of the iterator contract over all entry lists and mask sequences + T3',
 'C15': 'kernel-checked table obligations regenerated per run + lifting lemmas; complete T2 correspondence',
 'C16': 'kernel-checked table facts on regenerated tables; complete T2 correspondence',
 'C17': 'Lean symmetry proofs on the FIDE spec + T3 mirror/flip correspondence on the implementation',
 'C18': 'Lean proof (null move = pass; cached fields idempotent recomputation) + T3',
 'C19': 'Lean refinement proof to an abstract slot map for all operation sequences + T3',
 'C20': 'Lean proofs for every 64-bit value (iteration, count, operators, swap_bytes) + T2/T3',
}
checks = []
for p in props:
    pid = p['id']
    if pid not in reg:
        continue
    r = reg[pid]
    note = ("Trusted: Lean 4.33 kernel with axioms ⊆ {propext, Classical.choice, Quot.sound} (audited every run by #print axioms; no native_decide/bv_decide); "
            "the hand-written Lean Model of the Rust code, tied to /repo's current tree on every run by the T1 table extractor (tables, keys) and the harness/driver correspondence "
            "(exhaustive where the domain is finite, sampled otherwise); rustc/std primitives modelled by their documented meaning. DESIGN.md §6.")
    if r.get('partial'):
        note += " PARTIAL: " + r['partial']
    checks.append({
      "property_id": pid,
      "quick_cmd": f"./check {pid} quick",
      "thorough_cmd": f"./check {pid} thorough",
      "evidence_file": f"/verif/evidence/{pid}.json",
      "replay_cmd_template": f"./check {pid} --replay {{path}}",
      "engine": "lean+harness",
      "level_claimed": {"category": "proof",
         "text": f"{len(r['theorems'])} Lean 4 theorems about a model of the code (modules {', '.join(r['modules'])}), accepted by the kernel; the model is tied to the implementation on every run by a correspondence check that replays the same operations on the real crate and on the model, and the FIDE/abstract specification is evaluated as an oracle on the implementation's own outputs so that a broken proof or correspondence is turned into a concrete failing input",
         "design_ref": "DESIGN.md §7 " + pid},
      "level_note": note,
      "technique": TECH.get(pid, 'Lean proof + correspondence')})
claimed = [c['property_id'] for c in checks]
m = {"version": 1, "setup_cmd": "./setup.sh",
     "hooks": {"guard": "jordanbray_chess_verif",
               "enable": "no hooks: everything is reached through the public API and the build's OUT_DIR (the private Board.hash field of the model state is derived from the observable get_hash(), Refine/Dump.lean)",
               "baseline_off_cmd": "cd /repo && cargo test --workspace --no-fail-fast --offline",
               "source_commits": [], "add_only": True},
     "engines": [{"name": "lean", "path": "lean/", "serves_properties": claimed,
                  "kind_free_text": "Lean 4.33 development: Model (mirror of the Rust), Spec (FIDE rules, FEN, SAN, game, map, sets), refinement and invariant theorems, kernel-evaluated obligations on tables regenerated from /repo every run"},
                 {"name": "harness+driver", "path": "harness/ , lean/Main.lean", "serves_properties": claimed,
                  "kind_free_text": "Rust harness linking the real crate (checked build, catch_unwind) writes one operation + implementation answer per line; the compiled Lean driver replays every line on the Model and evaluates the Spec oracle on the implementation's answer"}],
     "checks": checks,
     "not_applicable": [{"property_id": p['id'], "reason": "no theorem registered yet in this session; model, oracle and harness streams exist and the check will be claimed once its Props module is in place"} for p in props if p['id'] not in reg],
     "notes": "Approach, trusted base, per-property design, defects found and repaired: DESIGN.md. Fixed defects: known_findings.jsonl."}
json.dump(m, open(os.path.join(ROOT, 'MANIFEST.json'), 'w'), indent=1)
print("claimed:", claimed)
