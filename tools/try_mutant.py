#!/usr/bin/env python3
"""try_mutant.py <worktree> <A|B|..> <property> [extra properties to run…]

1. confirms, in the scratch worktree, that the mutant compiles, the existing suite passes with it,
   the demonstration fails with it and passes without it;
2. applies it to /repo, runs ./check <prop> quick (and the extra ones), undoes it straight afterwards;
3. stores it as /verif/seeded/<prop>-<letter>/ {patch.diff, demo, meta.json}.
"""
import sys, os, subprocess, json, shutil, glob, re, time

def sh(cmd, cwd=None, timeout=3600, env=None):
    e = dict(os.environ, CARGO_NET_OFFLINE='true')
    if env: e.update(env)
    p = subprocess.run(cmd, cwd=cwd, shell=isinstance(cmd, str), stdout=subprocess.PIPE, stderr=subprocess.STDOUT, text=True, timeout=timeout, env=e)
    return p.returncode, p.stdout

def main():
    wt, letter, prop = sys.argv[1], sys.argv[2], sys.argv[3]
    extra = sys.argv[4:]
    diff = os.path.join(wt, f'mutant_{letter}.diff')
    md = os.path.join(wt, f'mutant_{letter}.md')
    demos = glob.glob(os.path.join(wt, 'tests', f'demo_*_{letter}.rs'))
    assert os.path.exists(diff) and demos, (diff, demos)
    demo = demos[0]
    demo_name = os.path.splitext(os.path.basename(demo))[0]
    bmi = 'bmi2' in open(md).read().lower() and 'RUSTFLAGS' in open(md).read()
    envx = {'RUSTFLAGS': '-C target-feature=+bmi2'} if bmi else None
    rel = ' --release' if '--release' in open(md).read() else ''
    log = {}
    # pristine?
    rc, out = sh('git diff --quiet -- src', cwd=wt); assert rc == 0, 'worktree src not pristine'
    rc, out = sh(f'cargo test --offline{rel} --test {demo_name}', cwd=wt, env=envx)
    log['demo_without'] = 'pass' if rc == 0 else 'FAIL'
    rc, out = sh(f'git apply {diff}', cwd=wt); assert rc == 0, out
    try:
        rc, out = sh('cargo test --workspace --no-fail-fast --offline --lib', cwd=wt)
        res = re.findall(r'test result: (\w+)\. (\d+) passed; (\d+) failed', out)
        rc, out = sh('cargo test --workspace --no-fail-fast --offline --doc', cwd=wt)
        res += re.findall(r'test result: (\w+)\. (\d+) passed; (\d+) failed', out)
        log['suite_with'] = res
        rc2, out2 = sh(f'cargo test --offline{rel} --test {demo_name}', cwd=wt, env=envx)
        log['demo_with'] = 'pass' if rc2 == 0 else 'FAIL'
    finally:
        sh(f'git apply -R {diff}', cwd=wt)
    ok_suite = bool(log['suite_with']) and all(r[0] == 'ok' and r[2] == '0' for r in log['suite_with'])
    confirmed = ok_suite and log['demo_with'] == 'FAIL' and log['demo_without'] == 'pass'
    print('confirmation:', log, 'CONFIRMED' if confirmed else 'NOT CONFIRMED')
    # run the checks against /repo with the mutant
    results = {}
    rc, out = sh(f'git -C /repo apply {diff}'); assert rc == 0, out
    try:
        for p in [prop] + extra:
            t0 = time.time()
            rc, out = sh(f'./check {p} quick', cwd='/verif', timeout=7200)
            lines = [l for l in out.splitlines() if l.startswith(('VIOLATION', 'OK', 'KNOWN'))]
            detail = ''
            rp = f'/verif/replays/{p}-1.json'
            if rc != 0 and os.path.exists(rp):
                j = json.load(open(rp))
                detail = f"{j.get('kind')} | {j.get('channel','')} | {(j.get('detail') or j.get('no_longer_checks') or '')[:300]} | {(j.get('line') or '')[:200]}"
            results[p] = {'exit': rc, 'lines': lines[:3], 'first_replay': detail, 'wall_s': round(time.time() - t0, 1)}
            print(p, results[p])
    finally:
        sh('git -C /repo checkout -- .')
    rc, out = sh('git -C /repo status --short'); assert out.strip() == '', out
    # refresh the evidence files from the unchanged tree (the mutant runs overwrote them)
    for p in [prop] + extra:
        sh(f'./check {p} quick', cwd='/verif', timeout=7200)
    # store
    tag = os.path.basename(wt.rstrip('/')).replace('mut_', '')
    d = f'/verif/seeded/{prop}-{letter}' if tag == prop else f'/verif/seeded/{tag}-{letter}'
    os.makedirs(d, exist_ok=True)
    shutil.copy(diff, os.path.join(d, 'patch.diff'))
    shutil.copy(demo, os.path.join(d, os.path.basename(demo)))
    if os.path.exists(md): shutil.copy(md, os.path.join(d, 'description.md'))
    meta = {'id': os.path.basename(d), 'breaks': prop, 'origin': 'independent sub-agent given only the property text and a scratch worktree',
            'what_it_needs': open(md).read()[:1500] if os.path.exists(md) else '',
            'confirmed': confirmed, 'confirmation': log,
            'what_i_ran': f'worktree: existing suite with the patch, demo with/without the patch ({"+bmi2 build" if bmi else "default build"}); then git -C /repo apply patch.diff; ./check <prop> quick; git -C /repo checkout -- .',
            'checks': results,
            'detected': any(r['exit'] != 0 for r in results.values()),
            'detected_with_failing_input': any(r['exit'] != 0 and 'no-failing-input-found' not in ' '.join(r['lines']) for r in results.values())}
    json.dump(meta, open(os.path.join(d, 'meta.json'), 'w'), indent=1)
    print('stored', d, 'detected =', meta['detected'])

if __name__ == '__main__':
    main()
