#!/bin/bash
# Line coverage of /repo/src under the correspondence streams (generator quality of tie T2/T3).
# Builds the harness with -C instrument-coverage on the nightly toolchain (it ships llvm-cov/llvm-profdata),
# runs `harness gen` for all 20 properties (tier $1, default quick), and writes /verif/coverage.md:
# per-file region/line coverage of the crate plus every line never executed.
# Scratch goes to a temporary directory that is removed at the end; nothing is written into /repo.
set -e
TIER=${1:-quick}
SCR=$(mktemp -d /tmp/chesscov.XXXXXX)
trap 'rm -rf "$SCR"' EXIT
B=$(dirname "$(rustc +nightly --print target-libdir)")/bin
cd /verif/harness
# LLVM_PROFILE_FILE also for the build scripts, so that nothing lands in the crate's directory
LLVM_PROFILE_FILE="$SCR/build-%p.profraw" RUSTFLAGS="-C instrument-coverage" CARGO_NET_OFFLINE=true \
  cargo +nightly build --offline --target-dir "$SCR/target" >/dev/null 2>&1
for i in 01 02 03 04 05 06 07 08 09 10 11 12 13 14 15 16 17 18 19 20; do
  ( LLVM_PROFILE_FILE="$SCR/p-C$i-%p.profraw" "$SCR/target/debug/harness" gen C$i $TIER 1 "$SCR/out-C$i" --shards 1 >/dev/null 2>&1 ) &
done
wait
"$B/llvm-profdata" merge -sparse "$SCR"/p-*.profraw -o "$SCR/all.profdata"
"$B/llvm-cov" export "$SCR/target/debug/harness" -instr-profile="$SCR/all.profdata" -format=lcov 2>/dev/null > "$SCR/all.lcov"
"$B/llvm-cov" report "$SCR/target/debug/harness" -instr-profile="$SCR/all.profdata" 2>/dev/null > "$SCR/report.txt"
python3 - "$SCR" "$TIER" <<'PY'
import sys, re, subprocess
scr, tier = sys.argv[1], sys.argv[2]
cur = None; tot = {}; miss = {}
for l in open(scr + '/all.lcov'):
    l = l.strip()
    if l.startswith('SF:'): cur = l[3:]
    elif l.startswith('DA:') and cur and cur.startswith('/repo/src'):
        ln, c = l[3:].split(',')[:2]
        tot[cur] = tot.get(cur, 0) + 1
        if int(c) == 0: miss.setdefault(cur, []).append(int(ln))
def ranges(xs):
    xs = sorted(set(xs)); out = []; s = p = None
    for x in xs:
        if s is None: s = p = x
        elif x == p + 1: p = x
        else: out.append((s, p)); s = p = x
    if s is not None: out.append((s, p))
    return ' '.join(f'{a}-{b}' if a != b else str(a) for a, b in out)
head = subprocess.run(['git', '-C', '/repo', 'rev-parse', '--short', 'HEAD'], capture_output=True, text=True).stdout.strip()
o = open('/verif/coverage.md', 'w')
o.write(f'# Coverage of /repo/src by the correspondence streams (tier {tier}, seed 1, /repo at {head})\n\n')
o.write('Produced by `tools/coverage.sh` (llvm source-based coverage of the harness binary; `#[inline]` functions that the\n'
        'harness never instantiates do not appear at all - `tools/coverage.sh` therefore also lists public functions the\n'
        'harness never names).  This measures the generator of ties T2/T3, not the proofs.\n\n')
o.write('| file | instrumented lines | never executed | lines |\n|---|---|---|---|\n')
T = M = 0
for f in sorted(tot):
    m = miss.get(f, [])
    T += tot[f]; M += len(m)
    o.write(f"| {f.replace('/repo/src/','')} | {tot[f]} | {len(m)} | {ranges(m)} |\n")
o.write(f'| **total** | {T} | {M} | {100.0*(T-M)/max(T,1):.2f}% executed |\n\n')
# public functions never named by the harness
import glob, os
names = []
hsrc = ''.join(open(p).read() for p in glob.glob('/verif/harness/src/*.rs'))
for p in sorted(glob.glob('/repo/src/*.rs') + glob.glob('/repo/src/movegen/*.rs')):
    for n in sorted(set(re.findall(r'pub fn ([a-z_0-9]+)', open(p).read()))):
        if not re.search(r'\b' + n + r'\b', hsrc):
            names.append(p.replace('/repo/src/', '') + '::' + n)
o.write('Public functions whose name never occurs in the harness source: ' + (', '.join(names) or 'none') + '\n')
o.close()
print(open('/verif/coverage.md').read())
PY
