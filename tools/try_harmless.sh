#!/bin/bash
# tools/try_harmless.sh <harmless-id> [props…]: apply a behaviour-preserving rewrite to /repo, run the
# quick checks (all 20 by default), undo, and restore the evidence from the unchanged tree.
id=$1; shift
props=${@:-C01 C02 C03 C04 C05 C06 C07 C08 C09 C10 C11 C12 C13 C14 C15 C16 C17 C18 C19 C20}
git -C /repo apply /verif/seeded/$id/patch.diff || exit 2
bad=0
for p in $props; do
  out=$(cd /verif && ./check $p quick | grep -E "^(OK|VIOLATION|KNOWN)" | head -2)
  echo "$id $out"
  case "$out" in OK*) ;; *) bad=1;; esac
done
git -C /repo checkout -- .
[ -z "$(git -C /repo status --short)" ] || echo "REPO NOT CLEAN"
for p in $props; do (cd /verif && ./check $p quick >/dev/null); done
exit $bad
