#!/bin/bash
# recheck_seeded.sh <seeded id> <property>...   apply seeded/<id>/patch.diff to /repo, run the quick checks, undo; prints hit counts
id=$1; shift
git -C /repo apply /verif/seeded/$id/patch.diff || { echo "$id: patch does not apply"; exit 1; }
for p in "$@"; do
  n=$(cd /verif && ./check $p quick 2>&1 | grep -c "^VIOLATION")
  k=$(python3 -c "
import json,glob
fs=sorted(glob.glob('/verif/replays/$p-*.json'))
print(json.load(open(fs[0])).get('channel','-') if fs else '-')")
  echo "$id $p violations=$n first_channel=$k"
done
git -C /repo checkout -- .
for p in "$@"; do (cd /verif && ./check $p quick >/dev/null 2>&1); done
