#!/usr/bin/env python3
"""Build lean/props.json: for every property the Lean module holding its theorems and the list of
fully-qualified theorem names (scanned from the Props files, so a theorem that disappears or is
renamed changes the registry visibly in git)."""
import re, os, json, sys
ROOT = os.path.dirname(os.path.dirname(os.path.abspath(__file__)))
PROPS = os.path.join(ROOT, 'lean', 'ChessVerif', 'Props')

META = {
 'C01': dict(files=['C01', 'C01Struct', 'C01King', 'C01NonKing', 'C01Ep', 'PinCheck', 'C01Plausible:C01_'], rule="positions from corpus, weighted playouts and synthesized valid set-ups (POS); the 20480-triple legality query on a subsample (LEGAL)"),
 'C02': dict(files=['C02', 'C02Ep:C02_', 'C01Plausible:C02_'], rule="every legal move of positions along playouts, make_move_new and make_move into three prefilled boards (MAKE)"),
 'C03': dict(files=['C03', 'C03Step', 'Deprecated:C03_', 'C07Oracle:C03_', 'C07OracleDriver:C03_'], rule="positions reached incrementally along playouts with interleaved null moves, compared field by field with the from-scratch spec computation and with the re-parse of their own FEN"),
 'C04': dict(files=['C04', 'Compose:C04_'] if not os.environ.get('NO_COMPOSE') else ['C04'], rule="positions with terminal ones over-represented (mates, stalemates, small endgames)"),
 'C05': dict(files=['C05', 'Compose:C05_'] if not os.environ.get('NO_COMPOSE') else ['C05'], rule="MAKE lines along 300-ply playouts and complete move trees; Valid / is_sane / monotone counts checked on every successor"),
 'C06': dict(files=['C06', 'C06Std', 'C02Ep:C06_'], rule="POS (fen, reparse), FENP on the harness's standard FEN writer, BFEN on random builder states"),
 'C07': dict(files=['C07', 'C07Full', 'C07Bounds', 'C07BoundsBmi', 'C07Oracle:C07_', 'C07OracleDriver:C07_'], rule="FENP on grammar-directed, mutated, truncated and random Unicode text; BLD on random builder states with 2..64 men; BPARSE"),
 'C08': dict(files=['C08', 'Deprecated:C08_'], rule="POS on transposition-rich streams; get_hash compared with the from-scratch hashOf of the position"),
 'C09': dict(files=['C09', 'C09Deps'], partial="the statistical clause (collisions no more frequent than chance among millions of explored positions) is measured by the COLL line, not proved: with 793 keys in GF(2)^64 collisions exist", rule="VAR: every single-component variant of sampled positions; COLL: millions of distinct positions hashed"),
 'C10': dict(files=['C10', 'C10NoPanic', 'C10Full'], rule="GAME programs: random/adversarial action sequences incl. illegal moves, offers by both colours, premature accepts, actions after the end"),
 'C11': dict(files=['C11', 'C11Full'], partial="the refinement to the whole-history specification (C11_can_declare_iff_spec, C11_refines) carries the explicit hypothesis NoCollision: no two different positions of the game share both 64-bit hash and legal-move list (the code identifies positions that way; irreversibility is proved, C11_irreversible_no_recurrence)", rule="GAME programs with long reversible histories, repetitions separated by other moves, rights lost midway, 98..102 reversible half-moves; can_declare_draw after every action"),
 'C12': dict(files=['C12', 'TextTotal', 'Compose:C12_', 'C12Exec:C12_'] if not os.environ.get('NO_COMPOSE') else ['TextTotal'], rule="every admissible spelling of every legal move of sampled positions (own SAN writer), must-reject spellings, mutated/random/non-ASCII text"),
 'C13': dict(files=['C13'], exhaustive=True, rule="all 20480 move values and 64 squares rendered and parsed back; random, truncated, over-long and multi-byte text"),
 'C14': dict(files=['C14'], rule="GEN programs: mask sequences each drained, len/size_hint before every next, removals beforehand"),
 'C15': dict(files=['C15'], exhaustive=True, rule="every subset of the relevant mask of every (slider, square) x k random fillings, default and +bmi2 build"),
 'C16': dict(files=['C16'], exhaustive=True, rule="every exported accessor on its whole domain; blocker arguments: all subsets of the relevant squares x random noise"),
 'C17': dict(files=['C17', 'Compose:C17_', 'ComposeSym'] if not os.environ.get('NO_COMPOSE') else ['C17'], rule="SYM: every position with its colour mirror (and file flip when no castling rights): moves, status, check/pin sets, every successor"),
 'C18': dict(files=['C18'], rule="NULL on positions in and out of check, with and without en-passant state"),
 'C19': dict(files=['C19'], rule="CACHE programs with colliding hashes on sizes 1..2^16 and invalid sizes"),
 'C20': dict(files=['C20'], exhaustive=True, rule="all 64 single squares; structured and random 64-bit values through every operator impl"),
}

def theorems(path):
    src = open(path).read()
    src = re.sub(r'/-.*?-/', '', src, flags=re.S)
    ns = []
    out = []
    for line in src.splitlines():
        m = re.match(r'\s*namespace\s+(\S+)', line)
        if m:
            ns.append(m.group(1)); continue
        m = re.match(r'\s*end\s+(\S+)', line)
        if m and ns and ns[-1] == m.group(1):
            ns.pop(); continue
        m = re.match(r'\s*(?:protected\s+)?theorem\s+(\S+)', line)
        if m:
            out.append('.'.join(ns + [m.group(1)]))
    return out

def main():
    reg = {}
    for pid, meta in META.items():
        ths = []
        mods = []
        for f in meta['files']:
            prefix = None
            if ':' in f:
                f, prefix = f.split(':')
            p = os.path.join(PROPS, f + '.lean')
            if os.path.exists(p):
                t = theorems(p)
                if prefix:
                    t = [x for x in t if x.split('.')[-1].startswith(prefix)]
                ths += t
                if f'ChessVerif.Props.{f}' not in mods:
                    mods.append(f'ChessVerif.Props.{f}')
        if not mods:
            continue
        # one umbrella module per property so that `lake build ChessVerif.Props.<pid>` builds all
        reg[pid] = {'module': mods[0], 'modules': mods, 'theorems': ths,
                    'exhaustive': meta.get('exhaustive', False), 'rule': meta.get('rule', ''),
                    'partial': meta.get('partial', ''), 'trusted_base': meta.get('trusted_base', []),
                    'assumptions': meta.get('assumptions', [])}
    json.dump(reg, open(os.path.join(ROOT, 'lean', 'props.json'), 'w'), indent=1)
    for pid, r in reg.items():
        print(pid, len(r['theorems']), r['modules'])

if __name__ == '__main__':
    main()
