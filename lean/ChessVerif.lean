import ChessVerif.Basic
import ChessVerif.Tables
import ChessVerif.Model.Board
import ChessVerif.Model.MoveGen
