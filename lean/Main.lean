import ChessVerif.Driver.Ops3
/-
Line-protocol driver: `driver <file>…` replays every line of the transcript on the Model and on the
Spec oracle and prints one `F` line per finding plus a `SUMMARY` line.
-/
open Chess.Driver

partial def processStream (name : String) (h : IO.FS.Stream) (lineNo : Nat) (counts : Array Nat) : IO (Nat × Array Nat) := do
  let line ← h.getLine
  if line.isEmpty then return (lineNo, counts)
  let line := (line.dropEndWhile (fun c => c == '\n' || c == '\r')).toString
  let fs := processLine line
  let mut counts := counts
  for f in fs do
    let idx := match f.kind with | 'M' => 0 | 'O' => 1 | 'I' => 2 | _ => 3
    counts := counts.modify idx (· + 1)
    IO.println s!"F {name}:{lineNo + 1} {f.kind} {f.chan} {f.detail}"
  processStream name h (lineNo + 1) counts

def main (args : List String) : IO UInt32 := do
  let mut total := 0
  let mut counts : Array Nat := #[0, 0, 0, 0]
  if args.isEmpty then
    let (n, c) ← processStream "stdin" (← IO.getStdin) 0 counts
    total := n; counts := c
  else
    for path in args do
      let h ← IO.FS.Handle.mk path .read
      let (n, c) ← processStream path (IO.FS.Stream.ofHandle h) 0 counts
      total := total + n; counts := c
  IO.println s!"SUMMARY lines={total} M={counts[0]!} O={counts[1]!} I={counts[2]!} E={counts[3]!}"
  return 0
