import ChessVerif.Lemmas.Cache
/-!
# C19 — `CacheTable` returns only what was stored under exactly that hash

Model: `Chess.Cache α` (`ChessVerif/Model/Cache.lean`): `table : List (hash × entry)`, `mask`, slot of a
hash = `(hash as usize) & mask`; an outer `none` models the `panic!` of `new` on a size that is not a
power of two, and an out-of-table access of the unchecked indexing in `get`/`add`/`replace_if`.
Specification: `Chess.Spec.CacheSpec α`: a map slot ↦ (hash, value) over slots `hash mod size`, an
untouched slot behaving as `(0, default)`.  Operation sequences are `List (Cache.Op α)`
(`add h v | replaceIf h v p | get h`); `Cache.runModel` / `Cache.runSpec` collect the results of the
`get`s; `Cache.Reachable c` = `c` is the state after some sequence run on a table made by `new`.
All statements are generic in the entry type `α` and hold for every size, hash and sequence.
-/
namespace Chess.Props
open Chess.Cache
variable {α : Type}

/-- `new` panics exactly when the size (a `usize`) is not a power of two -/
theorem C19_new_panics_iff (size : Nat) (d : α) (hs : size < 2 ^ 64) :
    (Cache.new size d).isNone ↔ ¬ Spec.isPow2 size = true := Cache.new_isNone_iff size d hs

/-- `count_ones() == 1` characterises powers of two, with no bound on the number -/
theorem C19_popcount_one_iff_pow2 (n : Nat) : popcountNat n = 1 ↔ ∃ k, n = 2 ^ k :=
  popcountNat_eq_one_iff n

/-- after any sequence of operations on a table made by `new`, every hash indexes inside the table -/
theorem C19_index_in_range {size : Nat} {d : α} {c0 c : Cache α} (hn : Cache.new size d = some c0)
    (ops : List (Op α)) (outs : List (Option α)) (he : execModel c0 ops = some (c, outs)) (h : BB) :
    c.slot h < c.table.length := by
  obtain ⟨s, r⟩ := Reachable.rel ⟨size, d, c0, ops, outs, hn, he⟩
  exact r.2.1.slot_lt h

/-- no operation sequence on a table made by `new` ever reaches the out-of-table case -/
theorem C19_no_out_of_table {size : Nat} {d : α} {c0 : Cache α} (hn : Cache.new size d = some c0)
    (ops : List (Op α)) : (execModel c0 ops).isSome = true := by
  obtain ⟨c', e, _⟩ := (Rel_new hn).exec ops
  rw [e]; rfl

/-- a reachable table never takes the out-of-table branch of `get`, `add`, `replace_if` -/
theorem C19_ops_defined {c : Cache α} (hc : Reachable c) (h : BB) (v : α) (p : α → Bool) :
    (c.get h).isSome = true ∧ (c.add h v).isSome = true ∧ (c.replaceIf h v p).isSome = true := by
  obtain ⟨s, r⟩ := hc.rel
  obtain ⟨_, e1, _⟩ := r.add h v
  obtain ⟨_, e2, _⟩ := r.replaceIf h v p
  rw [r.get h, e1, e2]
  exact ⟨rfl, rfl, rfl⟩

/-- the refinement relation holds initially and is preserved by every operation; `get` agrees -/
theorem C19_rel_new {size : Nat} {d : α} {c : Cache α} (h : Cache.new size d = some c) :
    Rel c (Spec.CacheSpec.new size d) := Rel_new h

theorem C19_rel_add {c : Cache α} {s : Spec.CacheSpec α} (r : Rel c s) (h : BB) (v : α) :
    ∃ c', c.add h v = some c' ∧ Rel c' (s.add h v) := r.add h v

theorem C19_rel_replaceIf {c : Cache α} {s : Spec.CacheSpec α} (r : Rel c s) (h : BB) (v : α)
    (p : α → Bool) : ∃ c', c.replaceIf h v p = some c' ∧ Rel c' (s.replaceIf h v p) := r.replaceIf h v p

theorem C19_rel_get {c : Cache α} {s : Spec.CacheSpec α} (r : Rel c s) (h : BB) :
    c.get h = some (s.get h) := r.get h

/-- every operation sequence gives, on the model, exactly the `get` results of the specification -/
theorem C19_refines {size : Nat} {d : α} {c0 : Cache α} (hn : Cache.new size d = some c0)
    (ops : List (Op α)) : runModel c0 ops = some (runSpec (Spec.CacheSpec.new size d) ops) := by
  obtain ⟨c', e, _⟩ := (Rel_new hn).exec ops
  simp only [runModel, runSpec, e, Option.map_some]

/-- a lookup right after `add h v` returns `v` -/
theorem C19_get_after_add {c : Cache α} (hc : Reachable c) (h : BB) (v : α) :
    ∃ c', c.add h v = some c' ∧ c'.get h = some (some v) := by
  obtain ⟨s, r⟩ := hc.rel
  obtain ⟨c', e, r'⟩ := r.add h v
  refine ⟨c', e, ?_⟩
  rw [r'.get h, Spec.CacheSpec.get_add_self]

/-- after `add h v`, a lookup under a different hash that maps to the same slot returns nothing -/
theorem C19_get_other_hash_same_slot {c : Cache α} (hc : Reachable c) (h h' : BB) (v : α)
    (hne : h' ≠ h) (hslot : c.slot h' = c.slot h) :
    ∃ c', c.add h v = some c' ∧ c'.get h' = some none := by
  obtain ⟨s, r⟩ := hc.rel
  obtain ⟨c', e, r'⟩ := r.add h v
  refine ⟨c', e, ?_⟩
  rw [r.slot_eq, r.slot_eq] at hslot
  rw [r'.get h', Spec.CacheSpec.get_add_same_slot s h h' v hne hslot]

/-- after `add h v`, a lookup that maps to another slot is unchanged -/
theorem C19_get_other_slot {c : Cache α} (hc : Reachable c) (h h' : BB) (v : α)
    (hslot : c.slot h' ≠ c.slot h) :
    ∃ c', c.add h v = some c' ∧ c'.get h' = c.get h' := by
  obtain ⟨s, r⟩ := hc.rel
  obtain ⟨c', e, r'⟩ := r.add h v
  refine ⟨c', e, ?_⟩
  rw [r.slot_eq, r.slot_eq] at hslot
  rw [r'.get h', r.get h', Spec.CacheSpec.get_add_other_slot s h h' v hslot]

/-- whatever `get h` returns (on any table) is what its slot holds under exactly the hash `h` -/
theorem C19_get_some_exact_hash {c : Cache α} (h : BB) (v : α)
    (hg : c.get h = some (some v)) : c.table[c.slot h]? = some (h, v) := by
  unfold Cache.get at hg
  split at hg
  · cases hg
  · rename_i h0 e heq
    rw [heq]
    by_cases hh : h0 = h
    · simp [hh] at hg; rw [hh, hg]
    · simp [hh] at hg

/-- a fresh table behaves as `(0, default)` in every slot: hash 0 finds the default, others nothing -/
theorem C19_fresh_slots {size : Nat} {d : α} {c0 : Cache α} (hn : Cache.new size d = some c0) :
    c0.get 0#64 = some (some d) ∧ ∀ h : BB, h ≠ 0#64 → c0.get h = some none := by
  have r := Rel_new hn
  constructor
  · rw [r.get, Spec.CacheSpec.get_untouched _ _ rfl]; rfl
  · intro h hne
    rw [r.get, Spec.CacheSpec.get_untouched _ _ rfl, if_neg hne]

/-- a slot that no `add`/`replace_if` of the sequence maps to still behaves as `(0, default)` afterwards -/
theorem C19_untouched_slots {size : Nat} {d : α} {c0 c : Cache α} (hn : Cache.new size d = some c0)
    (ops : List (Op α)) (outs : List (Option α)) (he : execModel c0 ops = some (c, outs)) (h : BB)
    (hu : ∀ op ∈ ops, ∀ h', op.hash = some h' → h'.toNat % size ≠ h.toNat % size) :
    c.get h = some (if h = 0#64 then some d else none) := by
  obtain ⟨c', e, r⟩ := (Rel_new hn).exec ops
  rw [he] at e
  cases e
  rw [r.get h]
  have := execSpec_untouched (Spec.CacheSpec.new size d) ops (h.toNat % size) hu
  obtain ⟨h1, h2, h3⟩ := this
  rw [Spec.CacheSpec.get_untouched, h3]; rfl
  unfold Spec.CacheSpec.slotOf
  rw [h2]; exact h1

/-! non-vacuity: a table of 8 `Nat` entries exists, and a run with a slot collision
(hashes 3 and 11 share slot 3) gives the outputs the property describes -/
example : (Cache.new 8 (0 : Nat)).isSome = true ∧ (Cache.new 6 (0 : Nat)).isNone = true := by
  simp [Cache.new, popcountNat]

example : runSpec (Spec.CacheSpec.new 8 (0 : Nat))
    [.get 0#64, .get 3#64, .add 3#64 7, .get 3#64, .get 11#64, .add 11#64 9, .get 3#64, .get 11#64,
     .replaceIf 11#64 5 (fun e => e == 0), .get 11#64]
    = [some 0, none, some 7, none, none, some 9, some 9] := by decide

end Chess.Props
