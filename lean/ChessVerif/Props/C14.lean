import ChessVerif.Lemmas.Iter
/-!
# C14 — move iterator contract: masks partition, `len` exact, removed moves stay removed

The statements are about the model of `struct MoveGen` (`Model/MoveGen.lean`: `next`, `len`,
`setIteratorMask`, `removeMask`, `removeMove`, `drain`) and hold for **every** entry list, mask and
state satisfying the invariant `Iter.Inv` — not only for the entry lists of chess positions.

Vocabulary (`Lemmas/Iter.lean`):
* `Iter.movesUnder e mask` — the moves of one entry `(source, destination set, promotion flag)` that
  land in `mask`, destinations ascending, a promotion destination expanded to Q, N, R, B;
* `Iter.allUnder l mask` — the same for a list of entries, entry by entry; `Iter.allMoves l` is
  `allUnder l (~~~0)`; `Iter.mem_allUnder` characterises membership;
* `Iter.under g` — what the generator still has to yield under its current mask (entries from
  `index` on, minus the `promoIdx` promotions of the current destination already handed out);
* `Iter.Inv g` — the invariant of DESIGN Appendix C (`Iter.inv_iff_invIdx` is its index wording);
* `Iter.Reach g` — states reachable from a fresh generator by `next`, and by `set_iterator_mask`,
  `remove_mask`, `remove_move` outside a promotion cycle (`promoIdx = 0`: always true for a fresh
  generator and after `next` returned `None`);
* `Iter.runMasks g [B₁,…,Bₙ]` — for each mask in turn `set_iterator_mask` then `next` until `None`.
Equalities of yield *sequences* are stated where the order is determined; where `set_iterator_mask`
reorders entries the statement is a permutation (`List.Perm`, i.e. equality of multisets: "exactly once").
-/
namespace Chess.Props
open Chess.Iter Chess.MoveGen

/-! ### the invariant holds initially and is kept by every operation in scope -/

/-- every entry produced by `enumerate_moves` has a destination -/
theorem C14_enumerate_nonempty (T : Tables) (b : Board) : ∀ e ∈ enumerate T b, e.bb ≠ 0#64 :=
  enumerate_nonempty T b

theorem C14_inv_new (T : Tables) (b : Board) : Inv (newLegal T b) := inv_newLegal T b

theorem C14_inv_fresh (l : List Entry) (h : ∀ e ∈ l, e.bb ≠ 0#64) :
    Inv { moves := l, promoIdx := 0, mask := ~~~0#64, index := 0 } := inv_fresh l h

theorem C14_inv_next (g : MoveGen) (h : Inv g) : Inv (next g).2 := inv_next g h

theorem C14_inv_setMask (g : MoveGen) (h0 : g.promoIdx = 0) (m : BB) : Inv (setIteratorMask g m) :=
  inv_setMask g h0 m

theorem C14_inv_removeMask (g : MoveGen) (h0 : g.promoIdx = 0) (r : BB) : Inv (removeMask g r) :=
  inv_removeMask g h0 r

theorem C14_inv_removeMove (g : MoveGen) (h0 : g.promoIdx = 0) (m : Move) : Inv (removeMove g m).1 :=
  inv_removeMove g h0 m

theorem C14_reach_inv (g : MoveGen) (h : Reach g) : Inv g := reach_inv h

/-! ### `next` and `len` -/

/-- a successful `next` yields the first of the remaining moves under the mask and leaves the rest -/
theorem C14_next_spec (g : MoveGen) (h : Inv g) (m : Move) (g' : MoveGen)
    (hn : next g = (some m, g')) : under g = m :: under g' := next_spec g h m g' hn

/-- `next` returns `None` exactly when nothing is left under the mask -/
theorem C14_next_none_iff (g : MoveGen) (h : Inv g) : (next g).1 = none ↔ under g = [] :=
  next_none_iff g h

/-- `len` is the number of moves still to be yielded under the current mask, at every state -/
theorem C14_len_exact (g : MoveGen) (h : Inv g) : len g = (under g).length := len_exact g h

theorem C14_len_exact_reachable (g : MoveGen) (h : Reach g) : len g = (under g).length :=
  len_exact g (reach_inv h)

/-- calling `next` until `None` yields exactly `under g`, in order; the fuel of `drain` suffices;
afterwards nothing is left under the mask and the generator is outside a promotion cycle -/
theorem C14_drain_exact (g : MoveGen) (h : Inv g) :
    (drain g).1 = under g ∧ under (drain g).2 = [] ∧ Inv (drain g).2 ∧ (drain g).2.promoIdx = 0 ∧
    len (drain g).2 = 0 := by
  obtain ⟨h1, h2, h3, _, h5, _⟩ := drain_exact g h
  exact ⟨h1, h2, h3, h5, by rw [len_exact _ h3, h2]; rfl⟩

/-- `len` is the number of `Some` results the following calls of `next` will deliver -/
theorem C14_len_eq_drain (g : MoveGen) (h : Inv g) : len g = (drain g).1.length := by
  rw [(drain_exact g h).yields, len_exact g h]

/-- a fresh generator yields every move of every entry exactly once, in entry order -/
theorem C14_every_move_once (T : Tables) (b : Board) :
    Board.legalMoves T b = allMoves (enumerate T b) := by
  unfold Board.legalMoves
  rw [(drain_exact _ (inv_newLegal T b)).yields, under_eq_allUnder _ (inv_newLegal T b) rfl]
  rfl

/-- … and `len` of the fresh generator is their number -/
theorem C14_len_new (T : Tables) (b : Board) : len (newLegal T b) = (Board.legalMoves T b).length := by
  rw [C14_every_move_once, len_exact _ (inv_newLegal T b), under_eq_allUnder _ (inv_newLegal T b) rfl]
  rfl

/-! ### masks -/

/-- after `set_iterator_mask m` the generator will yield exactly the moves of its entries landing in `m` -/
theorem C14_under_setMask (g : MoveGen) (h0 : g.promoIdx = 0) (m : BB) :
    (under (setIteratorMask g m)).Perm (allUnder g.moves m) := under_setMask g h0 m

/-- drain under the current mask `A`, then set mask `B` and drain: the first run yields the moves
under `A`, the second exactly the moves into `B` not already yielded (those into `B \ A`) -/
theorem C14_mask_partition (g : MoveGen) (h : Inv g) (B : BB) :
    (drain g).1 = under g ∧
    (drain (setIteratorMask (drain g).2 B)).1.Perm (allUnder g.moves (B &&& ~~~g.mask)) ∧
    Inv (drain (setIteratorMask (drain g).2 B)).2 ∧
    under (drain (setIteratorMask (drain g).2 B)).2 = [] := mask_partition g h B

/-- … so together every move into `A ∪ B` exactly once -/
theorem C14_mask_partition_total (g : MoveGen) (h : Inv g) (h0 : g.promoIdx = 0) (B : BB) :
    ((drain g).1 ++ (drain (setIteratorMask (drain g).2 B)).1).Perm (allUnder g.moves (g.mask ||| B)) :=
  mask_partition_total g h h0 B

/-- any sequence of masks, each drained: mask `k` yields the moves into `Bₖ \ (B₁ ∪ … ∪ Bₖ₋₁)`; in
total every move into `B₁ ∪ … ∪ Bₙ` exactly once (all moves when the masks cover the board) -/
theorem C14_mask_sequence (g : MoveGen) (h0 : g.promoIdx = 0) (Bs : List BB) :
    PermAll (runMasks g Bs).1 (seqExpected g.moves 0#64 Bs) ∧
    (runMasks g Bs).1.flatten.Perm (allUnder g.moves (Bs.foldr (· ||| ·) 0#64)) :=
  runMasks_total g h0 Bs

theorem C14_mask_sequence_covering (g : MoveGen) (h0 : g.promoIdx = 0) (Bs : List BB)
    (hc : Bs.foldr (· ||| ·) 0#64 = ~~~0#64) : (runMasks g Bs).1.flatten.Perm (allMoves g.moves) := by
  have := (runMasks_total g h0 Bs).2
  rw [hc] at this
  exact this

/-! ### removals -/

/-- `remove_mask r` beforehand: what will be yielded is what would have been, minus the moves onto `r` -/
theorem C14_under_removeMask (g : MoveGen) (h : Inv g) (h0 : g.promoIdx = 0) (r : BB) :
    (under (removeMask g r)).Perm ((under g).filter fun x => !r.getLsbD x.dst.val) :=
  under_removeMask g h h0 r

/-- `remove_move m` beforehand: every move with the same source and destination as `m` is gone, every
move with another source or destination is still yielded; the flag says whether the source has an entry -/
theorem C14_under_removeMove (g : MoveGen) (h : Inv g) (h0 : g.promoIdx = 0) (m : Move) :
    (under (removeMove g m).1).Perm
      ((under g).filter fun x => !(decide (x.src = m.src) && decide (x.dst = m.dst))) ∧
    ((removeMove g m).2 = true ↔ ∃ e ∈ g.moves, e.sq = m.src) :=
  ⟨under_removeMove g h h0 m, removeMove_flag g m⟩

/-- removed destinations stay removed under whatever masks follow, nothing else is lost -/
theorem C14_removeMask_then_masks (g : MoveGen) (h0 : g.promoIdx = 0) (r : BB) (Bs : List BB) :
    (runMasks (removeMask g r) Bs).1.flatten.Perm
      ((allUnder g.moves (Bs.foldr (· ||| ·) 0#64)).filter fun x => !r.getLsbD x.dst.val) :=
  removeMask_then_masks g h0 r Bs

theorem C14_removeMove_then_masks (g : MoveGen) (h0 : g.promoIdx = 0) (m : Move) (Bs : List BB) :
    (runMasks (removeMove g m).1 Bs).1.flatten.Perm
      ((allUnder g.moves (Bs.foldr (· ||| ·) 0#64)).filter
        fun x => !(decide (x.src = m.src) && decide (x.dst = m.dst))) :=
  removeMove_then_masks g h0 m Bs

/-! ### non-vacuity -/

/-- a pawn on a2 (a3, a4), a promoting pawn on a7 (a8, b8), and an en-passant-like second entry of a2 -/
def exEntries : List Entry :=
  [⟨⟨8, by decide⟩, 0x0000000001010000#64, false⟩, ⟨⟨48, by decide⟩, 0x0300000000000000#64, true⟩,
   ⟨⟨8, by decide⟩, 0x0000000000020000#64, false⟩]
def exGen : MoveGen := { moves := exEntries, promoIdx := 0, mask := ~~~0#64, index := 0 }

def exA2A3 : Move := ⟨⟨8, by decide⟩, ⟨16, by decide⟩, none⟩
def exMasks : List BB := [0xFF00000000000000#64, 0x0000000000FF0000#64, ~~~0#64]

example : Inv exGen := inv_fresh _ (by decide)
example : Reach (next (next exGen).2).2 := .next _ (.next _ (.fresh _ (by decide)))
example : exGen.promoIdx = 0 := rfl
/-- eleven moves; `len` agrees before, and in the middle of a promotion cycle (cursor 1) -/
example : len exGen = 11 ∧ (drain exGen).1.length = 11 ∧ (next exGen).1 = some exA2A3 ∧
    len (next (next (next exGen).2).2).2 = 8 ∧ (next (next (next exGen).2).2).2.promoIdx = 1 := by
  decide +kernel
/-- rank 8, then rank 3, then everything: 8 + 2 + 1 moves; the masks cover the board -/
example : (runMasks exGen exMasks).1.map List.length = [8, 2, 1] ∧
    exMasks.foldr (· ||| ·) 0#64 = ~~~0#64 := by decide +kernel
/-- removing a2a3 leaves ten moves (a2a4 and the second a2 entry's a2b3 among them) -/
example : (removeMove exGen exA2A3).2 = true ∧ (drain (removeMove exGen exA2A3).1).1.length = 10 ∧
    (drain (removeMask exGen 0xFF00000000000000#64)).1.length = 3 := by decide +kernel

end Chess.Props
