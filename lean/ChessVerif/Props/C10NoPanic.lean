import ChessVerif.Lemmas.GameLegalSrc
import ChessVerif.Lemmas.GameExamples
/-!
# C10, supplement — a legal move never makes `make_move_new` panic on a sane board

Kept apart from `Props/C10.lean` because it depends on `Lemmas/Iter.lean` (the iterator lemmas of
C14: what draining a fresh generator yields) and `Lemmas/BitBoard.lean` (C20).

`Board.SrcOK b`: every own piece of `b` is recorded in `combined`, and the side to move has a king.
Both follow from `Board::is_sane`.  For arbitrary `Board` values the statement is false
(`C10_legal_makeMove_some_fails_on_insane_board` in `Props/C10.lean`).

Not proved here: that `make_move_new` of a legal move preserves `SrcOK` / `is_sane` — so the no-panic
statement for games still takes "the positions of this game satisfy `SrcOK`" as a hypothesis.
-/
namespace Chess.Props
open Chess Chess.Game Chess.GameExamples

/-- every legal move starts on an occupied square, hence `make_move_new` does not panic -/
theorem C10_legal_makeMove_some {T : Tables} {b : Board} (hb : Board.SrcOK b) {m : Move}
    (h : b.legal T m = true) : (b.makeMoveNew T m).isSome = true := Board.legal_makeMove_some hb h

/-- in particular on every board accepted by `is_sane` -/
theorem C10_legal_makeMove_some_of_isSane {T : Tables} {b : Board} (hb : b.isSane T = true) {m : Move}
    (h : b.legal T m = true) : (b.makeMoveNew T m).isSome = true :=
  Board.legal_makeMove_some_of_isSane hb h

/-- a game whose log was built by the operations, and whose positions all satisfy `SrcOK`, replays
without panic -/
theorem C10_no_panic_of_srcOK {T : Tables} {g : Game} (h : LogOK T g)
    (hs : ∀ k cur, currentPosition T ⟨g.startPos, g.moves.take k⟩ = some cur → Board.SrcOK cur) :
    (g.currentPosition T).isSome := LogOK_currentPosition_isSome_of_srcOK h hs

set_option maxRecDepth 100000 in
/-- non-vacuity: the initial position is sane under the real tables, hence `SrcOK` -/
example : Board.SrcOK startBoard := Board.SrcOK_of_isSane (T := codeTables) (by decide +kernel)

end Chess.Props
