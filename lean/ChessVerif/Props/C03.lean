import ChessVerif.Lemmas.CheckPin
import ChessVerif.Proofs.TablesOK
import ChessVerif.CodeTables
/-!
# C03 — checkers, pinned men and the occupancy queries

"On every position … the reported checkers are exactly the enemy pieces attacking the king of the side
to move, the mover's pieces reported as pinned are exactly those absolutely pinned to that king, and
the per-piece, per-colour and combined occupancy queries agree with each other and with the
per-square queries."

`Board.updatePinInfo` is the model of `Board::update_pin_info`, the routine that computes the cached
`checkers` / `pinned` fields from scratch; `checkerSq` / `pinnedSq` (`Spec/Rules.lean`) are the
specification on the mailbox position `b.abs`.  `Board.PinOK T b` says the cached fields of `b` are the
from-scratch ones; it holds for every board returned by `try_from` and `null_move`.

Hypotheses of the two exactness theorems: the tables are the geometric ones (`TablesOK`, C16), the
bitboards are consistent (`Struct`), the side to move has exactly one king, and — for the checkers
only — the enemy king does not attack the mover's king (`KingsApart`): `update_pin_info` never looks at
the enemy king, whereas `checkerSq` counts any enemy man that `attacks` the king.  Without it the
statement is false (`C03_checkers_needs_kingsApart`).  `is_sane` implies all three
(`C03_of_isSane`, `C03_tryFrom`).
-/
namespace Chess.Props
open CheckPin

set_option maxRecDepth 100000

/-! ### 1. checkers -/

/-- the checkers computed by `update_pin_info` are exactly the enemy men attacking the mover's king -/
theorem C03_checkers_exact {T : Tables} (hT : TablesOK T) {b : Board} (hs : Struct b)
    (hk : (b.kings &&& b.colorCombined b.stm).popcnt = 1) (hkk : KingsApart b) :
    ∀ x : Sq, (b.updatePinInfo T).checkers.getLsbD x.val = checkerSq b.abs x :=
  fun x => checkers_exact hT hs hk hkk x

/-- the per-kind statements, none of which needs `KingsApart`: the three contributions to `checkers` are
the enemy sliders on a line of their kind through `k` with nothing between, the enemy knights a knight's
jump from `k`, and the enemy pawns attacking `k` -/
theorem C03_checkers_by_kind {T : Tables} (hT : TablesOK T) {b : Board} (hs : Struct b) (k x : Sq) :
    (((pinnersAt T b k).getLsbD x.val && decide (T.between x k &&& b.combined = 0#64)) = true ↔
      b.abs.colorAt x = some b.stm.other ∧ PinCheck.sliderAligned (b.abs.board x) x k = true ∧
        ∀ z, strictlyBetween x z k = true → b.abs.empty z = true) ∧
    ((T.knight k &&& b.colorCombined b.stm.other &&& b.knights).getLsbD x.val = true ↔
      b.content x = some (.knight, b.stm.other) ∧ PinCheck.leaperAtt (b.content x) x k = true) ∧
    ((T.pawnAttacks b.stm k &&& (b.colorCombined b.stm.other &&& b.pawns)).getLsbD x.val = true ↔
      b.content x = some (.pawn, b.stm.other) ∧ PinCheck.leaperAtt (b.content x) x k = true) :=
  ⟨sliderCheck_iff hT hs k x, knightCheck_iff hT hs k x, pawnCheck_iff hT hs k x⟩

/-! ### 2. pinned men -/

/-- the mover's men in the computed `pinned` are exactly the men absolutely pinned to the mover's king
(`pinned` may also hold enemy men standing alone between an enemy slider and the king; the property is
about the mover's men, hence the intersection with the mover's colour board) -/
theorem C03_pinned_exact {T : Tables} (hT : TablesOK T) {b : Board} (hs : Struct b)
    (hk : (b.kings &&& b.colorCombined b.stm).popcnt = 1) :
    ∀ y : Sq, ((b.updatePinInfo T).pinned &&& b.colorCombined b.stm).getLsbD y.val = pinnedSq b.abs y :=
  fun y => pinned_exact hT hs hk y

/-- `update_pin_info` changes nothing but the two cached fields, so the position is the same -/
theorem C03_updatePinInfo_abs (T : Tables) (b : Board) : (b.updatePinInfo T).abs = b.abs := rfl

/-! ### 3. occupancy queries -/

/-- per-square, per-piece, per-colour and combined occupancy agree -/
theorem C03_occupancy_consistent {b : Board} (hs : Struct b) :
    (∀ (s : Sq) (p : Piece), b.pieceOn s = some p ↔ (b.pieces p).getLsbD s.val = true) ∧
    (∀ (s : Sq) (c : Color), b.colorOn s = some c ↔ (b.colorCombined c).getLsbD s.val = true) ∧
    (∀ s : Sq, b.pieceOn s = none ↔ b.combined.getLsbD s.val = false) ∧
    (∀ s : Sq, b.colorOn s = none ↔ b.combined.getLsbD s.val = false) ∧
    b.combined = b.colorCombined .white ||| b.colorCombined .black ∧
    b.combined = b.pieces .pawn ||| b.pieces .knight ||| b.pieces .bishop ||| b.pieces .rook |||
      b.pieces .queen ||| b.pieces .king ∧
    b.colorCombined .white &&& b.colorCombined .black = 0#64 ∧
    (∀ p q : Piece, p ≠ q → b.pieces p &&& b.pieces q = 0#64) :=
  ⟨fun s p => pieceOn_some_iff hs s p, fun s c => colorOn_some_iff hs s c, fun s => pieceOn_none_iff b s,
    fun s => colorOn_none_iff hs s, combined_eq_colors hs, combined_eq_pieces hs, colors_disjoint hs,
    pieces_disjoint hs⟩

/-- a square holds a man for `piece_on` iff it does for `color_on` -/
theorem C03_pieceOn_colorOn {b : Board} (hs : Struct b) (s : Sq) :
    (b.pieceOn s).isSome = (b.colorOn s).isSome := by
  cases hc : b.combined.getLsbD s.val with
  | false => rw [(pieceOn_none_iff b s).mpr hc, (colorOn_none_iff hs s).mpr hc]; rfl
  | true =>
    have h1 : b.pieceOn s ≠ none := fun h => by rw [(pieceOn_none_iff b s).mp h] at hc; cases hc
    have h2 : b.colorOn s ≠ none := fun h => by rw [(colorOn_none_iff hs s).mp h] at hc; cases hc
    cases h3 : b.pieceOn s <;> cases h4 : b.colorOn s <;> simp_all

/-- `king_square(c)`: with exactly one king of colour `c`, it is the square holding that king -/
theorem C03_king_square {b : Board} (hs : Struct b) {c : Color}
    (hk : (b.kings &&& b.colorCombined c).popcnt = 1) :
    (∀ s : Sq, (b.pieceOn s = some .king ∧ b.colorOn s = some c) ↔ s = b.kingSquare c) ∧
    b.abs.board (b.kingSquare c) = some (.king, c) ∧
    kingSq? b.abs c = some (b.kingSquare c) := by
  refine ⟨?_, ?_, kingSq?_abs hs hk⟩
  · intro s
    rw [pieceOn_some_iff hs, colorOn_some_iff hs, ← kingSquare_bit hk, BitVec.getLsbD_and, Bool.and_eq_true]
    exact Iff.rfl
  · rw [abs_board]; exact content_kingSquare hs hk

/-! ### 4. the cached fields -/

theorem C03_updatePinInfo_idem (T : Tables) (b : Board) :
    (b.updatePinInfo T).updatePinInfo T = b.updatePinInfo T := updatePinInfo_idem T b

theorem C03_pinOK_updatePinInfo (T : Tables) (b : Board) : (b.updatePinInfo T).PinOK T :=
  Board.PinOK.updatePinInfo T b

theorem C03_pinOK_tryFrom {T : Tables} {bd : Builder} {b : Board} (h : Board.tryFrom T bd = some b) :
    b.PinOK T := Board.PinOK.tryFrom h

theorem C03_pinOK_nullMove {T : Tables} {b b' : Board} (h : b.nullMove T = some b') : b'.PinOK T :=
  Board.PinOK.nullMove h

/-- on a board whose cached fields are the from-scratch ones, `checkers()` is exact -/
theorem C03_checkers_of_PinOK {T : Tables} (hT : TablesOK T) {b : Board} (hs : Struct b)
    (hk : (b.kings &&& b.colorCombined b.stm).popcnt = 1) (hkk : KingsApart b) (hp : b.PinOK T) :
    ∀ x : Sq, b.checkers.getLsbD x.val = checkerSq b.abs x := by
  intro x
  have := C03_checkers_exact hT hs hk hkk x
  rwa [hp] at this

/-- on a board whose cached fields are the from-scratch ones, `pinned()` restricted to the mover's men
is exact -/
theorem C03_pinned_of_PinOK {T : Tables} (hT : TablesOK T) {b : Board} (hs : Struct b)
    (hk : (b.kings &&& b.colorCombined b.stm).popcnt = 1) (hp : b.PinOK T) :
    ∀ y : Sq, (b.pinned &&& b.colorCombined b.stm).getLsbD y.val = pinnedSq b.abs y := by
  intro y
  have := C03_pinned_exact hT hs hk y
  rwa [hp] at this

/-- `is_sane` supplies the king-count and king-distance hypotheses -/
theorem C03_of_isSane {T : Tables} (hT : TablesOK T) {b : Board} (hs : Struct b) (hsane : b.isSane T = true)
    (hp : b.PinOK T) :
    (∀ x : Sq, b.checkers.getLsbD x.val = checkerSq b.abs x) ∧
    (∀ y : Sq, (b.pinned &&& b.colorCombined b.stm).getLsbD y.val = pinnedSq b.abs y) :=
  have hk := oneKing_of_sane (isSane_facts hsane) b.stm
  ⟨C03_checkers_of_PinOK hT hs hk (kingsApart_of_isSane hT hs hsane) hp, C03_pinned_of_PinOK hT hs hk hp⟩

/-- every board accepted by `try_from` (hence every board parsed from a FEN): checkers, pinned men and
occupancy queries are exact, with no further hypothesis -/
theorem C03_tryFrom {T : Tables} (hT : TablesOK T) {bd : Builder} {b : Board}
    (h : Board.tryFrom T bd = some b) :
    (∀ x : Sq, b.checkers.getLsbD x.val = checkerSq b.abs x) ∧
    (∀ y : Sq, (b.pinned &&& b.colorCombined b.stm).getLsbD y.val = pinnedSq b.abs y) ∧
    Struct b :=
  have hs := tryFrom_struct h
  have r := C03_of_isSane hT hs (tryFrom_isSane h) (C03_pinOK_tryFrom h)
  ⟨r.1, r.2, hs⟩

/-- the same with the tables of the code -/
theorem C03_tryFrom_code {bd : Builder} {b : Board} (h : Board.tryFrom codeTables bd = some b) :
    (∀ x : Sq, b.checkers.getLsbD x.val = checkerSq b.abs x) ∧
    (∀ y : Sq, (b.pinned &&& b.colorCombined b.stm).getLsbD y.val = pinnedSq b.abs y) ∧
    Struct b := C03_tryFrom codeTables_ok h

/-! ### the `KingsApart` hypothesis is necessary -/

/-- white Ke1, black Ke2, white to move: consistent bitboards, one king each -/
def exAdjacentKings : Board :=
  { Board.blank with
    kings := BB.ofSq 4 ||| BB.ofSq 12, white := BB.ofSq 4, black := BB.ofSq 12,
    combined := BB.ofSq 4 ||| BB.ofSq 12 }

theorem exAdjacentKings_struct : Struct exAdjacentKings := by
  apply Struct.of_eqs'
  · intro x y h
    cases x <;> cases y <;> first | exact absurd rfl h | decide
  · decide
  · decide
  · decide

/-- without `KingsApart` the checkers statement fails: the specification counts the adjacent enemy king
as attacking, `update_pin_info` reports nothing -/
theorem C03_checkers_needs_kingsApart :
    ∃ b : Board, Struct b ∧ (b.kings &&& b.colorCombined b.stm).popcnt = 1 ∧
      ∃ x : Sq, (b.updatePinInfo codeTables).checkers.getLsbD x.val ≠ checkerSq b.abs x := by
  refine ⟨exAdjacentKings, exAdjacentKings_struct, by decide +kernel, 12, ?_⟩
  have h1 : (exAdjacentKings.updatePinInfo codeTables).checkers.getLsbD (12 : Sq).val = false := by
    decide +kernel
  have h2 : checkerSq exAdjacentKings.abs 12 = true := by decide +kernel
  rw [h1, h2]; decide

/-! ### non-vacuity: a position with a check and a pin

White Ke1, Be2; black Ka8, Re8, Nf3; white to move.  The knight on f3 (21) gives check, the bishop on
e2 (12) is pinned by the rook on e8. -/
def exCheckPinBd : Builder where
  pieces s := match s.val with
    | 4 => some (.king, .white) | 12 => some (.bishop, .white)
    | 56 => some (.king, .black) | 60 => some (.rook, .black) | 21 => some (.knight, .black)
    | _ => none
  stm := .white
  wcr := .noRights
  bcr := .noRights
  epFile := none

theorem exCheckPin_fields :
    (Board.tryFrom codeTables exCheckPinBd).map (fun b => (b.checkers, b.pinned)) =
      some (BB.ofSq 21, BB.ofSq 12) := by decide +kernel

/-- the hypotheses of `C03_checkers_exact`, `C03_pinned_exact`, `C03_checkers_of_PinOK`,
`C03_pinned_of_PinOK`, `C03_of_isSane`, `C03_tryFrom` hold on this board, and both sides of the equations
are non-trivial there -/
example : ∃ b : Board, Board.tryFrom codeTables exCheckPinBd = some b ∧ Struct b ∧
    (b.kings &&& b.colorCombined b.stm).popcnt = 1 ∧ KingsApart b ∧ b.PinOK codeTables ∧
    b.isSane codeTables = true ∧ checkerSq b.abs 21 = true ∧ pinnedSq b.abs 12 = true ∧
    checkerSq b.abs 60 = false ∧ pinnedSq b.abs 4 = false := by
  have h : (Board.tryFrom codeTables exCheckPinBd).isSome = true := by decide +kernel
  obtain ⟨b, hb⟩ := Option.isSome_iff_exists.mp h
  have hf := exCheckPin_fields
  rw [hb] at hf
  simp only [Option.map_some, Option.some.injEq, Prod.mk.injEq] at hf
  obtain ⟨hc, hp⟩ := hf
  have hs := tryFrom_struct hb
  have hsane := tryFrom_isSane hb
  obtain ⟨r1, r2, _⟩ := C03_tryFrom_code hb
  have hstm : b.stm = .white := (tryFrom_spec codeTables _ b hb).2.2.1
  refine ⟨b, hb, hs, oneKing_of_sane (isSane_facts hsane) b.stm, kingsApart_of_isSane codeTables_ok hs hsane,
    C03_pinOK_tryFrom hb, hsane, ?_, ?_, ?_, ?_⟩
  · rw [← r1, hc]; decide
  · rw [← r2, hp, hstm]
    rw [BitVec.getLsbD_and, Bool.and_eq_true]
    refine ⟨by decide, ?_⟩
    have := (hs.content_some_iff 12 .bishop .white).mp (by
      rw [(tryFrom_spec codeTables _ b hb).2.1]; rfl)
    exact this.2
  · rw [← r1, hc]; decide
  · rw [← r2, hp, BitVec.getLsbD_and]
    have : (BB.ofSq 12).getLsbD (4 : Sq).val = false := by decide
    rw [this]; rfl

/-- the hypothesis of `C03_occupancy_consistent` / `C03_king_square` on the same board -/
example : ∃ b : Board, Struct b ∧ (b.kings &&& b.colorCombined .black).popcnt = 1 ∧ b.kingSquare .black = 56 := by
  have h : (Board.tryFrom codeTables exCheckPinBd).isSome = true := by decide +kernel
  obtain ⟨b, hb⟩ := Option.isSome_iff_exists.mp h
  have hs := tryFrom_struct hb
  have hk := oneKing_of_sane (isSane_facts (tryFrom_isSane hb)) .black
  refine ⟨b, hs, hk, ?_⟩
  have := ((C03_king_square hs hk).1 56).mp ?_
  · exact this.symm
  · have hc : b.content 56 = some (.king, .black) := by
      rw [(tryFrom_spec codeTables _ b hb).2.1]; rfl
    obtain ⟨h1, h2⟩ := (hs.content_some_iff 56 .king .black).mp hc
    exact ⟨(pieceOn_some_iff hs 56 .king).mpr h1, (colorOn_some_iff hs 56 .black).mpr h2⟩

end Chess.Props
