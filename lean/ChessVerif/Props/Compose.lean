import ChessVerif.Props.C01
import ChessVerif.Props.C04
import ChessVerif.Props.C05
import ChessVerif.Props.C12
/-!
# Compositions with C01: C04, C12 and C05 on the library's boards (C17: `Props/ComposeSym.lean`)

`C01_movegen_exact` (generated moves = FIDE-legal moves on every `Good` board) closes the statements that
were proved relative to it:

* `C04_status_exact` — `Board::status` is the status of the FIDE specification (`C04_full`);
* `C01_statement_holds`, `C12_complete_full_holds`, `C12_complete_good` — every admissible spelling of every
  legal move parses to that move; `C12_castle_text_legal_castling`, `C12_castle_text_rejected_unless_castling` —
  castling text is accepted only for a FIDE-legal castling move to that side;
* `C17_model_transfer` — the model half of C17: a symmetry of the rules carries over to generated moves,
  `Board::legal` and `Board::status` (instantiated with the mirror and the file flip in `Props/ComposeSym.lean`);
* `C05_model_step`, `C05_model_play` — along any play with the library's own moves every board holds a
  valid position, and castling rights, men and pawns only shrink.
-/
namespace Chess.Props
open Chess.Final

variable {T : Tables} {b : Board}

/-! ### C04 -/

/-- **C04.** On every well-formed board holding a valid position, `Board::status` is Checkmate / Stalemate /
Ongoing exactly when the FIDE specification says so. -/
theorem C04_status_exact (hT : TablesOK T) (hg : b.Good T) : C04_full T b := by
  refine C04_of_C01_C03 T b (genExact hT hg).2 ?_
  constructor
  · exact hg.inCheck_of_checkers_ne hT
  · intro hc h0
    have := (hg.checkers_zero_iff hT).mp h0
    rw [show inCheck b.abs b.abs.stm = inCheck b.abs b.stm from rfl, this] at hc
    cases hc

/-- along play -/
theorem C04_status_reachable (hT : TablesOK T) (h : PlayReachable T b) : C04_full T b :=
  C04_status_exact hT (h.good hT)

/-- two boards whose statuses are exact and whose positions have the same FIDE status report the same status -/
theorem status_eq_of_full {b₁ b₂ : Board} (h₁ : C04_full T b₁) (h₂ : C04_full T b₂)
    (h : Chess.status b₂.abs = Chess.status b₁.abs) : b₂.status T = b₁.status T := by
  obtain ⟨a1, a2, a3⟩ := h₁
  obtain ⟨c1, c2, c3⟩ := h₂
  cases hs : Chess.status b₁.abs with
  | checkmate => rw [a1.mpr hs, c1.mpr (h.trans hs)]
  | stalemate => rw [a2.mpr hs, c2.mpr (h.trans hs)]
  | ongoing => rw [a3.mpr hs, c3.mpr (h.trans hs)]

/-! ### C12 -/

/-- C01 in the form `Props/C12.lean` asks for, for the class of boards with consistent bitboards and hash and
from-scratch caches -/
theorem C01_statement_holds : C01_statement (fun T b => Core T b ∧ b.PinOK T) :=
  fun _ _ hT hW hV => genExact hT ⟨hW.1, hW.2, hV⟩

/-- **C12, completeness.** On every such board holding a valid position, every admissible spelling of every
FIDE-legal move is parsed back to exactly that move. -/
theorem C12_complete_full_holds : C12_complete_full (fun T b => Core T b ∧ b.PinOK T) :=
  C12_complete_full_of_C01 _ (fun _ _ h => h.1.toStruct) C01_statement_holds

theorem C12_complete_good (hT : TablesOK T) (hg : b.Good T) (m : Move) (s : List Char)
    (hs : SanSpec.IsSpelling b.abs m s) : San.fromSan T b s = .ok m :=
  C12_complete_full_holds T b hT ⟨hg.core, hg.pin⟩ hg.valid m s hs

/-- soundness on the rules: a move returned by the parser is FIDE-legal -/
theorem C12_sound_legal (hT : TablesOK T) (hg : b.Good T) (s : List Char) (m : Move)
    (h : San.fromSan T b s = .ok m) : legal b.abs m = true :=
  (movegen_mem_iff hT hg m).mp (C12_sound T b s m h)

/-- **C12, castling text denotes castling.** On a well-formed board holding a valid position, whenever `O-O` /
`O-O-O` (with an optional `+` / `#`) is accepted, the move returned is FIDE-legal and is a castling move of the
rules — the king moving two files — towards the g-file for `O-O` and towards the c-file for `O-O-O`. -/
theorem C12_castle_text_legal_castling (hT : TablesOK T) (hg : b.Good T) (s : List Char) (m : Move)
    (hc : San.castleText s = "O-O".toList ∨ San.castleText s = "O-O-O".toList)
    (h : San.fromSan T b s = .ok m) :
    legal b.abs m = true ∧ isCastle b.abs m = true ∧
    (m.dst.file > m.src.file ↔ San.castleText s = "O-O".toList) := by
  obtain ⟨hk, hm, he⟩ := C12_castle_text_denotes_castling T b s m hc h
  have ha := San.agree_of_struct hg.struct
  refine ⟨(C01_movegen_exact hT hg).2 m |>.mp hm, ?_⟩
  by_cases h6 : San.castleText s = "O-O".toList
  · simp only [if_pos h6] at he
    subst he
    exact ⟨San.isCastle_of_pieceOn_king ha _ false hk, fun _ => h6, fun _ => San.castle_file_short _⟩
  · simp only [if_neg h6] at he
    subst he
    exact ⟨San.isCastle_of_pieceOn_king ha _ true hk, fun hf => absurd hf (San.castle_file_long _),
      fun hf => absurd hf h6⟩

/-- **C12, "a text that denotes no legal move is rejected", for castling text.** On a well-formed board holding
a valid position, `O-O` / `O-O-O` (with an optional `+` / `#`) is rejected unless castling to that side is a
FIDE-legal move. -/
theorem C12_castle_text_rejected_unless_castling (hT : TablesOK T) (hg : b.Good T) (s : List Char)
    (hc : San.castleText s = "O-O".toList ∨ San.castleText s = "O-O-O".toList)
    (hn : ¬ ∃ m : Move, legal b.abs m = true ∧ isCastle b.abs m = true ∧
      (m.dst.file > m.src.file ↔ San.castleText s = "O-O".toList)) :
    San.fromSan T b s = .err :=
  San.fromSan_err_of_not_ok T b s fun m hm => hn ⟨m, C12_castle_text_legal_castling hT hg s m hc hm⟩

/-! ### C17, the model half -/

/-- transfer of a symmetry of the rules to the library: if `f` maps the legal moves of the position of `b` onto
those of the position of `b₂` and both positions have the same FIDE status, then the generated moves,
`Board::legal` and `Board::status` of the two boards correspond.  (`Props/ComposeSym.lean` instantiates `f`
with `Move.mirror` and `Move.flipFile`, using C17.) -/
theorem C17_model_transfer (hT : TablesOK T) {b₂ : Board} (hg : b.Good T) (hg₂ : b₂.Good T) (f : Move → Move)
    (hl : ∀ m : Move, legal b₂.abs (f m) = legal b.abs m) (hs : Chess.status b₂.abs = Chess.status b.abs) :
    (∀ m : Move, m ∈ b.legalMoves T ↔ f m ∈ b₂.legalMoves T) ∧
    (∀ m : Move, b₂.legal T (f m) = b.legal T m) ∧
    b₂.status T = b.status T := by
  refine ⟨fun m => ?_, fun m => ?_, ?_⟩
  · rw [movegen_mem_iff hT hg, movegen_mem_iff hT hg₂, hl]
  · rw [legal_query_eq hT hg, legal_query_eq hT hg₂, hl]
  · exact status_eq_of_full (C04_status_exact hT hg) (C04_status_exact hT hg₂) hs

/-! ### C05 -/

/-- **C05 on the library, one step.** A move of the generated list, made on a well-formed board holding a
valid position, gives a board holding a valid position again; no castling right comes back, and neither
side's number of men or of pawns grows. -/
theorem C05_model_step (hT : TablesOK T) (hg : b.Good T) {m : Move} (hm : m ∈ b.legalMoves T) {b' : Board}
    (h : b.makeMoveNew T m = some b') :
    Valid b'.abs = true ∧ b'.Good T ∧
    (∀ c, b'.abs.castleK c = true → b.abs.castleK c = true) ∧
    (∀ c, b'.abs.castleQ c = true → b.abs.castleQ c = true) ∧
    (∀ c, count b'.abs (·.2 == c) ≤ count b.abs (·.2 == c)) ∧
    (∀ c, count b'.abs (· == (.pawn, c)) ≤ count b.abs (· == (.pawn, c))) := by
  have hs := (PlaysTo.move b b' m .refl hm h : PlaysTo T b b').shrinks hT hg
  have hg' := (good_makeMove_generated hT hg hm h).1
  exact ⟨hg'.valid, hg', hs.castleK, hs.castleQ, hs.men, hs.pawns⟩

/-- **C05 on the library, along play.** From a well-formed board holding a valid position, after any sequence
of null moves and generated moves: the position is valid (one king each, at most 16 men and 8 pawns each,
rights backed by king and rook at home, no pawn on the first or last rank, the side that has just moved not in
check, a sound en-passant mark), and rights, men and pawns have only shrunk. -/
theorem C05_model_play (hT : TablesOK T) {b₀ : Board} (h0 : b₀.Good T) (h : PlaysTo T b₀ b) :
    Valid b.abs = true ∧ b.Good T ∧
    (∀ c, b.abs.castleK c = true → b₀.abs.castleK c = true) ∧
    (∀ c, b.abs.castleQ c = true → b₀.abs.castleQ c = true) ∧
    (∀ c, count b.abs (·.2 == c) ≤ count b₀.abs (·.2 == c)) ∧
    (∀ c, count b.abs (· == (.pawn, c)) ≤ count b₀.abs (· == (.pawn, c))) :=
  have hs := h.shrinks hT h0
  have hg := h.good hT h0
  ⟨hg.valid, hg, hs.castleK, hs.castleQ, hs.men, hs.pawns⟩

/-- every board reached by play holds a valid position -/
theorem C05_model_reachable_valid (hT : TablesOK T) (h : PlayReachable T b) : Valid b.abs = true :=
  (h.good hT).valid

/-! ### non-vacuity -/

section Examples
open GameExamples
set_option maxRecDepth 100000

/-- the initial position set up through `try_from`: `C04_status_exact` applies and the status is ongoing -/
example : ∃ b : Board, b.Good codeTables ∧ PlayReachable codeTables b ∧ C04_full codeTables b ∧
    Chess.status b.abs = .ongoing ∧ b.status codeTables = .ongoing := by
  obtain ⟨b, ht, habs, hg⟩ := C01_good_of_valid_pos codeTables_ok startPos_valid
  have hr : PlayReachable codeTables b := .start _ b ht hg.valid
  have hf := C04_status_exact codeTables_ok hg
  have e : Chess.status b.abs = Chess.status startBoard.abs := by
    rw [habs]
    unfold Chess.status
    have hl : Chess.legal (norm startBoard.abs) = Chess.legal startBoard.abs :=
      funext fun m => Closure.legal_norm _ m
    rw [hl]
    rfl
  have hs : Chess.status b.abs = .ongoing := by rw [e]; decide +kernel
  exact ⟨b, hg, hr, hf, hs, hf.2.2.mpr hs⟩

/-- `C05_model_step` after 1. e4 -/
example : ∃ b b' : Board, b.Good codeTables ∧ (⟨12, 28, none⟩ : Move) ∈ b.legalMoves codeTables ∧
    b.makeMoveNew codeTables ⟨12, 28, none⟩ = some b' ∧ Valid b'.abs = true := by
  obtain ⟨b, ht, habs, hg⟩ := C01_good_of_valid_pos codeTables_ok startPos_valid
  have hl : legal b.abs ⟨12, 28, none⟩ = true := by
    rw [habs, Closure.legal_norm]; decide +kernel
  have hm := (C01_movegen_exact codeTables_ok hg).2 _ |>.mpr hl
  obtain ⟨b', e⟩ := makeMove_generated_some codeTables_ok hg hm
  exact ⟨b, b', hg, hm, e, (C05_model_step codeTables_ok hg hm e).1⟩

/-- `C12_castle_text_legal_castling`: White Ke1, Rh1, pawn e7, short castling right (`promoBoard` set up through
`try_from`): `O-O` is accepted, hence e1–g1 is a FIDE-legal castling move there -/
example : ∃ b : Board, b.Good codeTables ∧ San.fromSan codeTables b "O-O".toList = .ok ⟨4, 6, none⟩ ∧
    legal b.abs ⟨4, 6, none⟩ = true ∧ isCastle b.abs ⟨4, 6, none⟩ = true := by
  have h : ((Board.tryFrom codeTables promoBoard.abs.toBuilder).map fun b =>
      Valid b.abs && decide (San.fromSan codeTables b "O-O".toList = .ok ⟨4, 6, none⟩)) = some true := by
    decide +kernel
  cases ht : Board.tryFrom codeTables promoBoard.abs.toBuilder with
  | none => rw [ht] at h; cases h
  | some b =>
    rw [ht] at h
    simp only [Option.map_some, Option.some.injEq, Bool.and_eq_true, decide_eq_true_eq] at h
    have hg := C01_good_tryFrom ht h.1
    have := C12_castle_text_legal_castling codeTables_ok hg _ _ (by decide) h.2
    exact ⟨b, hg, h.2, this.1, this.2.1⟩

/-- `C12_castle_text_rejected_unless_castling` on `3k4/8/8/8/8/8/8/K3R3 w - - 0 1` (White Ka1, Re1; Black Kd8):
the board is well-formed and holds a valid position, the rook move e1–g1 is FIDE-legal and generated, no legal
move is a castling move, and `O-O` is rejected (the uncorrected parser returned the rook move) -/
example : ∃ b : Board, Board.tryFrom codeTables rookOnE1Bd = some b ∧ b.Good codeTables ∧
    legal b.abs ⟨4, 6, none⟩ = true ∧ (⟨4, 6, none⟩ : Move) ∈ b.legalMoves codeTables ∧
    (¬ ∃ m : Move, legal b.abs m = true ∧ isCastle b.abs m = true ∧
      (m.dst.file > m.src.file ↔ San.castleText "O-O".toList = "O-O".toList)) ∧
    San.fromSan codeTables b "O-O".toList = .err := by
  have h : ((Board.tryFrom codeTables rookOnE1Bd).map fun b =>
      Valid b.abs && legal b.abs ⟨4, 6, none⟩ &&
      (Chess.legalMoves b.abs).all (fun m => !isCastle b.abs m)) = some true := by
    decide +kernel
  cases ht : Board.tryFrom codeTables rookOnE1Bd with
  | none => rw [ht] at h; cases h
  | some b =>
    rw [ht] at h
    simp only [Option.map_some, Option.some.injEq, Bool.and_eq_true] at h
    obtain ⟨⟨hv, hl⟩, hall⟩ := h
    have hg := C01_good_tryFrom ht hv
    have hn : ¬ ∃ m : Move, legal b.abs m = true ∧ isCastle b.abs m = true ∧
        (m.dst.file > m.src.file ↔ San.castleText "O-O".toList = "O-O".toList) := by
      rintro ⟨m, hm, hc, _⟩
      have := List.all_eq_true.1 hall m (List.mem_filter.2 ⟨San.legal_mem_candidates hm, hm⟩)
      rw [hc] at this
      cases this
    exact ⟨b, rfl, hg, hl, (C01_movegen_exact codeTables_ok hg).2 _ |>.mpr hl, hn,
      C12_castle_text_rejected_unless_castling codeTables_ok hg _ (by decide) hn⟩

end Examples

end Chess.Props
