import ChessVerif.Lemmas.GameRefine
/-!
# C10 at full strength — the game protocol of `game.rs` refines the protocol of the specification

"A game accepts a move exactly when it has no result yet and the move is legal in its current position; its
current position, side to move and action log always equal the start position advanced by precisely the
accepted actions in order.  As soon as a result exists it names the right outcome and side, never changes,
and every further action is refused without altering the game; a draw is accepted only if the latest action
is a draw offer or the latest action is a move whose mover offered a draw immediately before it."

`Props/C10.lean` proves the sentences about the model `Chess.Game` in the model's own vocabulary
(`Board::legal`, `Board::status`, replay by `make_move_new`).  Here they are tied to the specification
`Spec.GameSt` (`Spec/Game.lean`): mailbox positions, FIDE legality `legal`, FIDE `status`, successor
`norm (apply p m)`.

* `GameRefine.Sim T g sg` — the replay of `g` does not panic, yields a `Good` board (consistent bitboards and
  hash, from-scratch caches, valid position) whose position is `sg.pos`, and `g.moves = sg.log`.
* `C10_sim_init`, `C10_sim_step`, `C10_refines` — a game started on a `Good` board is related to
  `GameSt.init`; every request except a draw claim is answered identically by model and Spec and keeps the
  relation; hence so does every list of such requests, and the model run never panics.  (Draw claims:
  `Props/C11Full.lean`, where the relation is extended by history and clock.)
* the sentences of the property in the Spec's vocabulary: `C10_move_accepted_iff_legal`,
  `C10_observables`, `C10_result_names_outcome`, `C10_result_final_spec`, `C10_accept_draw_iff_spec`.

`GameSt.acceptAllowed` coincides with the model's test whenever there is no result, so the answers to
`accept_draw` are *equal*, not merely implied.  No discrepancy between model and Spec was found.
-/
namespace Chess.Props
open Chess Chess.Game Chess.GameRefine Chess.GameExamples

variable {T : Tables}

/-- a new game on a `Good` board is related to the Spec's initial state on its position -/
theorem C10_sim_init {b0 : Board} (h0 : b0.Good T) : Sim T ⟨b0, []⟩ (Spec.GameSt.init b0.abs) := sim_init h0

/-- what the relation says about the observers: `result()`, `side_to_move()`, `current_position()`, `actions()` -/
theorem C10_observables (hT : TablesOK T) {g : Game} {sg : Spec.GameSt} (h : Sim T g sg) :
    g.result T = some sg.result ∧ g.sideToMove = sg.pos.stm ∧
    (g.currentPosition T).map Board.abs = some sg.pos ∧ g.moves = sg.log :=
  ⟨sim_result hT h, sim_sideToMove h, sim_position h, sim_log h⟩

/-- under the relation no request panics -/
theorem C10_sim_total (hT : TablesOK T) {g : Game} {sg : Spec.GameSt} (h : Sim T g sg) (a : Action) :
    ∃ g' acc, g.perform T a = some (g', acc) := by
  have := sim_perform_isSome hT h a
  cases hp : g.perform T a with
  | none => rw [hp] at this; cases this
  | some r => exact ⟨r.1, r.2, rfl⟩

/-- **one request**: a request other than a draw claim is accepted by the model iff the Spec accepts it, and
the new states are related -/
theorem C10_sim_step (hT : TablesOK T) {g g' : Game} {sg : Spec.GameSt} (h : Sim T g sg) {a : Action}
    (ha : a ≠ .declareDraw) {acc : Bool} (hp : g.perform T a = some (g', acc)) :
    acc = (sg.step a).2 ∧ Sim T g' (sg.step a).1 := sim_perform hT h ha hp

/-- **C10, refinement.** From a `Good` start board, for every list of requests without draw claims: the model
run does not panic, accepts exactly the requests the Spec accepts (in order), and its final game is related
to the Spec's final state — same result, side to move, position and log. -/
theorem C10_refines (hT : TablesOK T) {b0 : Board} (h0 : b0.Good T) (acts : List Action)
    (hnd : ∀ a ∈ acts, a ≠ Action.declareDraw) :
    ∃ gf, run T ⟨b0, []⟩ acts = some (gf, (specRun (Spec.GameSt.init b0.abs) acts).2) ∧
      Sim T gf (specRun (Spec.GameSt.init b0.abs) acts).1 :=
  sim_run hT (sim_init h0) acts hnd

/-- the final game of such a run satisfies the log invariant of `Props/C10.lean`: every logged action was
acceptable when it was appended -/
theorem C10_refines_logOK {b0 : Board} {acts accd : List Action} {gf : Game}
    (h : run T ⟨b0, []⟩ acts = some (gf, accd)) : LogOK T gf ∧ gf.startPos = b0 ∧ gf.moves = accd := by
  obtain ⟨h1, h2, _⟩ := run_log h
  exact ⟨LogOK_run (LogOK_nil T b0) h, h1, by simpa using h2⟩

/-- the same from any related pair of states -/
theorem C10_refines_from (hT : TablesOK T) {g : Game} {sg : Spec.GameSt} (h : Sim T g sg) (acts : List Action)
    (hnd : ∀ a ∈ acts, a ≠ Action.declareDraw) :
    ∃ gf, run T g acts = some (gf, (specRun sg acts).2) ∧ Sim T gf (specRun sg acts).1 :=
  sim_run hT h acts hnd

/-! ## the sentences of the property, in the Spec's vocabulary -/

/-- a move is accepted exactly when there is no result yet and it is legal under the FIDE rules in the
current position; then the position becomes the successor position and the move is appended to the log -/
theorem C10_move_accepted_iff_legal (hT : TablesOK T) {g g' : Game} {sg : Spec.GameSt} (h : Sim T g sg)
    {m : Move} {acc : Bool} (hp : g.makeMove T m = some (g', acc)) :
    (acc = true ↔ sg.result = none ∧ legal sg.pos m = true) ∧
    (acc = true → g'.moves = sg.log ++ [.makeMove m] ∧
      (g'.currentPosition T).map Board.abs = some (norm (apply sg.pos m))) ∧
    (acc = false → g' = g) := by
  obtain ⟨hacc, hs'⟩ := sim_perform hT h (a := .makeMove m) (by simp) hp
  have hstep : sg.step (.makeMove m) =
      if sg.result.isSome then (sg, false) else
        if legal sg.pos m then
          ({ pos := norm (apply sg.pos m), log := sg.log ++ [.makeMove m],
             history := sg.history ++ [norm (apply sg.pos m)],
             clock := if Spec.GameSt.isCaptureOrPawn sg.pos m then 0 else sg.clock + 1 }, true)
        else (sg, false) := rfl
  refine ⟨?_, ?_, fun hf => (makeMove_spec hp).2.2 hf⟩
  · rw [hacc, hstep]
    cases hr : sg.result with
    | some r => simp
    | none => cases hl : legal sg.pos m <;> simp
  · intro ht
    rw [ht] at hacc
    rw [hstep] at hacc hs'
    cases hr : sg.result with
    | some r => rw [hr] at hacc; simp at hacc
    | none =>
      rw [hr] at hacc hs'
      cases hl : legal sg.pos m with
      | false => rw [hl] at hacc; simp at hacc
      | true =>
        rw [hl] at hs'
        simp only [Option.isSome_none, Bool.false_eq_true, if_false, if_true] at hs'
        exact ⟨sim_log hs', sim_position hs'⟩

/-- the outcome `result()` reports is the Spec's, and the Spec's names the right outcome and side: checkmate
of the side to move (the other side wins), stalemate, or — in an ongoing position — what the last accepted
action says -/
theorem C10_result_names_outcome (hT : TablesOK T) {g : Game} {sg : Spec.GameSt} (h : Sim T g sg) :
    g.result T = some sg.result ∧
    (∀ r, sg.result = some r →
      (r = .whiteCheckmates ↔ Chess.status sg.pos = .checkmate ∧ sg.pos.stm = .black) ∧
      (r = .blackCheckmates ↔ Chess.status sg.pos = .checkmate ∧ sg.pos.stm = .white) ∧
      (r = .stalemate ↔ Chess.status sg.pos = .stalemate) ∧
      (r = .drawAccepted ↔ Chess.status sg.pos = .ongoing ∧ sg.log.getLast? = some .acceptDraw) ∧
      (r = .drawDeclared ↔ Chess.status sg.pos = .ongoing ∧ sg.log.getLast? = some .declareDraw) ∧
      (r = .whiteResigns ↔ Chess.status sg.pos = .ongoing ∧ sg.log.getLast? = some (.resign .white)) ∧
      (r = .blackResigns ↔ Chess.status sg.pos = .ongoing ∧ sg.log.getLast? = some (.resign .black))) ∧
    (sg.result = none ↔ Chess.status sg.pos = .ongoing ∧
      (sg.log.getLast? = none ∨ (∃ m, sg.log.getLast? = some (.makeMove m)) ∨
        (∃ c, sg.log.getLast? = some (.offerDraw c)))) := by
  refine ⟨sim_result hT h, ?_, ?_⟩
  · intro r hr
    unfold Spec.GameSt.result at hr
    cases hs : Chess.status sg.pos <;> simp only [hs] at hr
    · cases hl : sg.log.getLast? with
      | none => simp [hl] at hr
      | some a =>
        rw [hl] at hr
        cases a with
        | makeMove m => simp at hr
        | offerDraw c => simp at hr
        | acceptDraw => simp at hr; subst hr; simp
        | declareDraw => simp at hr; subst hr; simp
        | resign c => cases c <;> simp at hr <;> subst hr <;> simp
    · simp at hr; subst hr; simp
    · cases hstm : sg.pos.stm <;> simp [hstm] at hr <;> subst hr <;> simp
  · unfold Spec.GameSt.result
    cases hs : Chess.status sg.pos <;> simp only []
    · cases hl : sg.log.getLast? with
      | none => simp
      | some a =>
        cases a with
        | resign c => cases c <;> simp
        | _ => simp
    · simp
    · simp

/-- once there is a result it never changes: model and Spec refuse every request (draw claims included) and
return their state unchanged, so the result stays what it was -/
theorem C10_result_final_spec (hT : TablesOK T) {g : Game} {sg : Spec.GameSt} (h : Sim T g sg) {r : GameResult}
    (hr : sg.result = some r) (a : Action) :
    g.perform T a = some (g, false) ∧ sg.step a = (sg, false) ∧ g.result T = some (some r) := by
  have hres := sim_result hT h
  rw [hr] at hres
  refine ⟨perform_of_result hres a, ?_, hres⟩
  simp [Spec.GameSt.step, hr]

/-- … and for any list of requests -/
theorem C10_result_final_run_spec (hT : TablesOK T) {g : Game} {sg : Spec.GameSt} (h : Sim T g sg) {r : GameResult}
    (hr : sg.result = some r) (acts : List Action) :
    run T g acts = some (g, []) ∧ specRun sg acts = (sg, []) := by
  have hres := sim_result hT h
  rw [hr] at hres
  refine ⟨C10_result_stable_run hres acts, ?_⟩
  induction acts with
  | nil => rfl
  | cons a rest ih =>
    have : sg.step a = (sg, false) := by simp [Spec.GameSt.step, hr]
    simp [specRun, this, ih]

/-- a draw is accepted exactly when there is no result and the Spec's condition holds: the latest action is a
draw offer, or it is a move and the action before it is a draw offer by the side that made that move -/
theorem C10_accept_draw_iff_spec (hT : TablesOK T) {g g' : Game} {sg : Spec.GameSt} (h : Sim T g sg)
    {acc : Bool} (hp : g.acceptDraw T = some (g', acc)) :
    (acc = true ↔ sg.result = none ∧ sg.acceptAllowed = true) ∧
    (acc = true → g'.moves = sg.log ++ [.acceptDraw] ∧ g'.result T = some (some .drawAccepted)) ∧
    (acc = false → g' = g) := by
  obtain ⟨hacc, hs'⟩ := sim_perform hT h (a := .acceptDraw) (by simp) hp
  have hstep : sg.step .acceptDraw =
      if sg.result.isSome then (sg, false) else
        if sg.acceptAllowed then ({ sg with log := sg.log ++ [.acceptDraw] }, true) else (sg, false) := rfl
  refine ⟨?_, ?_, fun hf => (acceptDraw_spec hp).2.2 hf⟩
  · rw [hacc, hstep]
    cases hr : sg.result with
    | some r => simp
    | none => cases hl : sg.acceptAllowed <;> simp
  · intro ht
    subst ht
    have hg' := (acceptDraw_spec hp).2.1 rfl
    have hres := ((acceptDraw_spec hp).1.1 rfl).1
    refine ⟨by rw [hg', sim_log h], ?_⟩
    rw [hg']
    exact result_after_nonmove hres .acceptDraw rfl

/-- what `acceptAllowed` says, spelled out on the log -/
theorem C10_acceptAllowed_iff (sg : Spec.GameSt) :
    sg.acceptAllowed = true ↔
      (∃ c, sg.log.getLast? = some (.offerDraw c)) ∨
      (∃ m pre, sg.log = pre ++ [.offerDraw sg.pos.stm.other, .makeMove m]) := by
  unfold Spec.GameSt.acceptAllowed Spec.GameSt.lastMover
  constructor
  · intro ha
    split at ha
    · rename_i c rest hr
      left
      refine ⟨c, ?_⟩
      have := congrArg List.reverse hr
      rw [List.reverse_reverse] at this
      rw [this]; simp
    · rename_i m c rest hr
      right
      have := congrArg List.reverse hr
      rw [List.reverse_reverse] at this
      have hc : c = sg.pos.stm.other := by simpa using ha
      subst hc
      exact ⟨m, rest.reverse, by rw [this]; simp⟩
    · cases ha
  · rintro (⟨c, hc⟩ | ⟨m, pre, hm⟩)
    · obtain ⟨ys, hys⟩ := List.getLast?_eq_some_iff.1 hc
      rw [hys]; simp
    · rw [hm]; simp

/-! ## non-vacuity (real tables): fool's mate through both runs -/

section Examples
set_option maxRecDepth 100000

/-- 1. f3 e5 2. g4 Qh4#, then a further move and a resignation (both refused) -/
def foolsMateReqs : List Action := [mv 13 21, mv 52 36, mv 14 30, mv 59 31, mv 12 28, .resign .white]

/-- the Spec run: four moves accepted, the last two requests refused, Black has checkmated -/
theorem foolsMate_spec :
    (specRun (Spec.GameSt.init startBoard.abs) foolsMateReqs).2 = [mv 13 21, mv 52 36, mv 14 30, mv 59 31] ∧
    (specRun (Spec.GameSt.init startBoard.abs) foolsMateReqs).1.result = some .blackCheckmates := by
  decide +kernel

/-- the initial position set up through `try_from` gives a `Good` board (the hypothesis of `C10_refines`);
the model run from it accepts the same four moves and reports the same result, as `C10_refines` says -/
example : ∃ b0 : Board, b0.Good codeTables ∧ b0.abs = startBoard.abs ∧
    ∃ gf, run codeTables ⟨b0, []⟩ foolsMateReqs = some (gf, [mv 13 21, mv 52 36, mv 14 30, mv 59 31]) ∧
      gf.result codeTables = some (some .blackCheckmates) ∧
      Sim codeTables gf (specRun (Spec.GameSt.init startBoard.abs) foolsMateReqs).1 := by
  obtain ⟨b0, _, habs, hg⟩ := C01_good_of_valid_pos codeTables_ok startPos_valid
  have habs' : b0.abs = startBoard.abs := habs
  obtain ⟨gf, hrun, hsim⟩ := C10_refines codeTables_ok hg foolsMateReqs (by decide)
  rw [habs'] at hrun hsim
  refine ⟨b0, hg, habs', gf, ?_, ?_, hsim⟩
  · rw [hrun, foolsMate_spec.1]
  · rw [sim_result codeTables_ok hsim, foolsMate_spec.2]

/-- the same evaluated directly on the model (independent of the theorems) -/
example : ((Board.tryFrom codeTables startBoard.abs.toBuilder).bind fun b0 =>
      (run codeTables ⟨b0, []⟩ foolsMateReqs).map fun r => (r.2, r.1.result codeTables)) =
    some ([mv 13 21, mv 52 36, mv 14 30, mv 59 31], some (some .blackCheckmates)) := by decide +kernel

/-- offer, move, accept: accepted by both -/
example : (specRun (Spec.GameSt.init startBoard.abs) [.offerDraw .white, mv 12 28, .acceptDraw]).1.result =
    some .drawAccepted := by decide +kernel

end Examples

end Chess.Props
