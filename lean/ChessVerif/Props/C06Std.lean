import ChessVerif.Lemmas.StdFen
import ChessVerif.Props.C06
import ChessVerif.Props.C01
/-!
# C06 — the FEN of an independent standard writer parses to the same position

`Spec.stdFen p half full` (`ChessVerif/Spec/StdFen.lean`) is a standard FEN writer on the
specification's positions, written without the Model (own run-length coder for the placement field;
`Lemmas/StdFen.lean` proves it produces the same rank texts as the Model's `showRank`).  It records the
en-passant target square after EVERY double push and prints arbitrary counters.

* `C06_std_parse_builder` — `BoardBuilder::from_str` reads that text as the builder state of `p`
  (it ignores the counters and keeps only the file of the en-passant square);
* `C06_std_parse` — for a valid `p`, `Board::from_str` accepts it and the board holds `p` (en-passant
  mark under the library's recording policy `norm`);
* `C06_std_decode` — the text is a well-formed standard FEN describing `p`, en-passant mark included
  (independent decoder `Fen.decode`).

`EpRankOK p` : the en-passant mark, if any, is on the fourth rank of the side that just moved
(`q.rank = pawnRank + 2 * fwd`); it is a clause of `Valid`.
-/
namespace Chess.Props
open Chess Chess.Spec Chess.GameExamples

/-- (a) `BoardBuilder::from_str` on the standard writer's text: the builder state of `p`, component by
component (men compared on every square), for all counters -/
theorem C06_std_parse_builder (p : Pos) (half full : Nat)
    (h : ∀ q, p.ep = some q → q.rank = p.stm.other.pawnRank + 2 * p.stm.other.fwd) :
    ∃ bd', parseBuilder (stdFen p half full) = .ok bd' ∧ (∀ s, bd'.pieces s = p.board s) ∧
      bd'.stm = p.stm ∧ bd'.wcr = ⟨p.castleK .white, p.castleQ .white⟩ ∧
      bd'.bcr = ⟨p.castleK .black, p.castleQ .black⟩ ∧ bd'.epFile = p.ep.map Sq.getFile :=
  parseBuilder_stdFen p half full h

/-- (a') the same as an equation (function extensionality on the piece map) -/
theorem C06_std_parse_builder_eq (p : Pos) (half full : Nat)
    (h : ∀ q, p.ep = some q → q.rank = p.stm.other.pawnRank + 2 * p.stm.other.fwd) :
    parseBuilder (stdFen p half full) = .ok p.toBuilder :=
  parseBuilder_stdFen_eq p half full h

/-- `Board::try_from` depends on the builder state only through its five components -/
theorem C06_tryFrom_congr (T : Tables) (a b : Builder) (hp : ∀ s, a.pieces s = b.pieces s)
    (hs : a.stm = b.stm) (hw : a.wcr = b.wcr) (hb : a.bcr = b.bcr) (he : a.epFile = b.epFile) :
    Board.tryFrom T a = Board.tryFrom T b := tryFrom_congr T a b hp hs hw hb he

/-- (b) for every valid position and all counters, `Board::from_str` accepts the standard writer's
text, returns the very board `try_from` builds for the position, and that board holds the position
(en-passant mark under the recording policy `norm`) -/
theorem C06_std_parse (T : Tables) (hT : TablesOK T) (p : Pos) (hv : Valid p = true) (half full : Nat) :
    ∃ b, parseBoard T (stdFen p half full) = .ok b ∧ Board.tryFrom T p.toBuilder = some b ∧
      b.abs = norm p := by
  obtain ⟨b, ht, habs, _⟩ := C01_good_of_valid_pos (T := T) hT hv
  refine ⟨b, ?_, ht, habs⟩
  unfold parseBoard
  rw [parseBuilder_stdFen_eq p half full (epRankOK_of_valid p hv)]
  simp only [ht]

/-- (c) the standard writer's text is a well-formed standard six-field FEN (accepted by the independent
decoder) describing `p`, the en-passant mark included -/
theorem C06_std_decode (p : Pos) (half full : Nat)
    (h : ∀ q, p.ep = some q → q.rank = p.stm.other.pawnRank + 2 * p.stm.other.fwd) :
    ∃ q' : Pos, Fen.decode (stdFen p half full) = some q' ∧ (∀ s, q'.board s = p.board s) ∧
      q'.stm = p.stm ∧ (∀ c, q'.castleK c = p.castleK c) ∧ (∀ c, q'.castleQ c = p.castleQ c) ∧
      q'.ep = p.ep :=
  decode_stdFen p half full h

/-- the placement field of the standard writer, produced by its own run-length coder, is rank by rank
the text of the Model's `showRank` -/
theorem C06_std_placement (board : Sq → Option (Piece × Color)) (r : Fin 8) :
    rle (rankRow board r) 0 = showRank board r := rle_rankRow board r

/-! ### non-vacuity: the position after 1. e4 -/

/-- the position after 1. e4 as the rules give it: mark on e4, no black pawn beside it -/
def afterE4 : Pos := apply startBoard.abs ⟨12, 28, none⟩

set_option maxRecDepth 100000 in
theorem afterE4_valid : Valid afterE4 = true := by decide +kernel

example : afterE4.ep = some 28 := by decide
example : (norm afterE4).ep = none := by decide +kernel

set_option maxRecDepth 100000 in
/-- the standard writer prints the target square `e3`, with any counters -/
example : stdFen afterE4 0 1 = "rnbqkbnr/pppppppp/8/8/4P3/8/PPPP1PPP/RNBQKBNR b KQkq e3 0 1".toList := by
  decide +kernel

set_option maxRecDepth 100000 in
example : stdFen afterE4 37 112 = "rnbqkbnr/pppppppp/8/8/4P3/8/PPPP1PPP/RNBQKBNR b KQkq e3 37 112".toList := by
  decide +kernel

set_option maxRecDepth 100000 in
/-- the library's own writer prints `-` for the board it builds from that position -/
example : (Board.tryFrom codeTables afterE4.toBuilder).map showBoard =
    some "rnbqkbnr/pppppppp/8/8/4P3/8/PPPP1PPP/RNBQKBNR b KQkq - 0 1".toList := by
  decide +kernel

set_option maxRecDepth 100000 in
/-- both texts parse to the same board (kernel evaluation with the tables of the code) -/
example : ∃ b, parseBoard codeTables "rnbqkbnr/pppppppp/8/8/4P3/8/PPPP1PPP/RNBQKBNR b KQkq e3 0 1".toList = .ok b ∧
    parseBoard codeTables "rnbqkbnr/pppppppp/8/8/4P3/8/PPPP1PPP/RNBQKBNR b KQkq - 0 1".toList = .ok b ∧
    b.ep = none := by
  have h : (match parseBoard codeTables "rnbqkbnr/pppppppp/8/8/4P3/8/PPPP1PPP/RNBQKBNR b KQkq e3 0 1".toList,
      parseBoard codeTables "rnbqkbnr/pppppppp/8/8/4P3/8/PPPP1PPP/RNBQKBNR b KQkq - 0 1".toList with
    | .ok b, .ok b' => decide (b = b') && decide (b.ep = none)
    | _, _ => false) = true := by decide +kernel
  cases h1 : parseBoard codeTables "rnbqkbnr/pppppppp/8/8/4P3/8/PPPP1PPP/RNBQKBNR b KQkq e3 0 1".toList with
  | ok b =>
    cases h2 : parseBoard codeTables "rnbqkbnr/pppppppp/8/8/4P3/8/PPPP1PPP/RNBQKBNR b KQkq - 0 1".toList with
    | ok b' =>
      rw [h1, h2] at h
      simp only [Bool.and_eq_true, decide_eq_true_eq] at h
      exact ⟨b, rfl, by rw [h.1], h.2⟩
    | err => rw [h1, h2] at h; cases h
    | panic => rw [h1, h2] at h; cases h
  | err => rw [h1] at h; cases h
  | panic => rw [h1] at h; cases h

/-- the theorems on it: hypotheses satisfied, and the same conclusion by (b) and `C06_board_roundtrip` -/
example : ∃ b, parseBoard codeTables (stdFen afterE4 0 1) = .ok b ∧
    parseBoard codeTables (showBoard b) = .ok b ∧ b.abs = norm afterE4 := by
  obtain ⟨b, h1, h2, h3⟩ := C06_std_parse codeTables codeTables_ok afterE4 afterE4_valid 0 1
  exact ⟨b, h1, C06_board_roundtrip _ _ _ h2, h3⟩

example : ∃ q', Fen.decode (stdFen afterE4 0 1) = some q' ∧ q'.ep = some 28 := by
  obtain ⟨q', h1, _, _, _, _, h2⟩ :=
    C06_std_decode afterE4 0 1 (epRankOK_of_valid _ afterE4_valid)
  exact ⟨q', h1, h2⟩

#print axioms C06_std_parse_builder
#print axioms C06_std_parse_builder_eq
#print axioms C06_tryFrom_congr
#print axioms C06_std_parse
#print axioms C06_std_decode
#print axioms C06_std_placement
#print axioms afterE4_valid

end Chess.Props
