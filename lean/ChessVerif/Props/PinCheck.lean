import ChessVerif.Lemmas.PinCheck
/-!
# Pins and checks — legality of moves of a man other than the king (not en passant), on the specification

`p` any position (no `Valid` needed), `k` the square of the mover's king, which is the only king of that
colour (`count p (· == (.king, p.stm)) = 1`); `m` pseudo-legal with `m.src ≠ k` and not en passant.
`C := {x | checkerSq p x}`.

* (A) `C = ∅`   : legal ↔ the moving man is not pinned, or the destination is on `Geom.line m.src k`
* (B) `C = {x}` : legal ↔ the moving man is not pinned and the destination is `x` or strictly between `x` and `k`
* (C) `|C| ≥ 2` : not legal
* all together: `PinCheck_legal_nonking_iff`

No hypothesis about the contents of the destination square (beyond pseudo-legality) is needed.
-/
namespace Chess.Props
open Chess.PinCheck

/-- the hypotheses give the working context of `ChessVerif/Lemmas/PinCheck*.lean` -/
theorem PinCheck_ctx {p : Pos} {m : Move} {k : Sq} (hk : kingSq? p p.stm = some k)
    (h1 : count p (· == (.king, p.stm)) = 1) (hpl : pseudoLegal p m = true) (hsrc : m.src ≠ k)
    (hep : isEnPassant p m = false) : Ctx p m k :=
  Ctx.mk' (KingAt_of_count hk h1) hpl hsrc hep

/-- the board after a move that is neither castling nor en passant -/
theorem PinCheck_apply_board_plain (p : Pos) (m : Move) (hc : isCastle p m = false)
    (he : isEnPassant p m = false) (t : Sq) :
    (apply p m).board t = if t = m.dst then movedMan p m else if t = m.src then none else p.board t :=
  apply_board_plain p m hc he t

/-- a move of a man other than the unique king is not castling, and the king stays where it is -/
theorem PinCheck_king_unmoved {p : Pos} {m : Move} {k : Sq} (hk : kingSq? p p.stm = some k)
    (h1 : count p (· == (.king, p.stm)) = 1) (hpl : pseudoLegal p m = true) (hsrc : m.src ≠ k)
    (hep : isEnPassant p m = false) :
    isCastle p m = false ∧ kingSq? (apply p m) p.stm = some k ∧
      count (apply p m) (· == (.king, p.stm)) = 1 := by
  have h := PinCheck_ctx hk h1 hpl hsrc hep
  exact ⟨h.notCastle, count_of_KingAt h.after_king⟩

/-- attack on the king after the move: an enemy man `x` that is not captured attacks `k` afterwards iff
it is a slider aligned with `k` along its own directions whose path to `k` holds nothing except possibly
the vacated source and does not contain the destination, or a knight/pawn/king that attacked before -/
theorem PinCheck_attack_after {p : Pos} {m : Move} {k : Sq} (hk : kingSq? p p.stm = some k)
    (h1 : count p (· == (.king, p.stm)) = 1) (hpl : pseudoLegal p m = true) (hsrc : m.src ≠ k)
    (hep : isEnPassant p m = false) {x : Sq} (hx : p.colorAt x = some p.stm.other) (hd : x ≠ m.dst) :
    attacks (apply p m) x k = true ↔
      ((sliderAligned (p.board x) x k = true ∧
          ∀ z, strictlyBetween x z k = true → z ≠ m.dst ∧ (z = m.src ∨ p.empty z = true)) ∨
        leaperAtt (p.board x) x k = true) :=
  (PinCheck_ctx hk h1 hpl hsrc hep).after_attacks hx hd

/-- (A) not in check: legal iff not pinned or the destination is on the line through source and king -/
theorem PinCheck_A_no_check {p : Pos} {m : Move} {k : Sq} (hk : kingSq? p p.stm = some k)
    (h1 : count p (· == (.king, p.stm)) = 1) (hpl : pseudoLegal p m = true) (hsrc : m.src ≠ k)
    (hep : isEnPassant p m = false) (hnone : ∀ x, checkerSq p x = false) :
    legal p m = true ↔
      (pinnedSq p m.src = false ∨ (Geom.line m.src k).getLsbD m.dst.val = true) :=
  (PinCheck_ctx hk h1 hpl hsrc hep).no_check hpl hnone

/-- (B) single check by `x`: legal iff not pinned and the move captures `x` or interposes -/
theorem PinCheck_B_single_check {p : Pos} {m : Move} {k : Sq} (hk : kingSq? p p.stm = some k)
    (h1 : count p (· == (.king, p.stm)) = 1) (hpl : pseudoLegal p m = true) (hsrc : m.src ≠ k)
    (hep : isEnPassant p m = false) {x : Sq} (hx : checkerSq p x = true)
    (huniq : ∀ y, checkerSq p y = true → y = x) :
    legal p m = true ↔
      (pinnedSq p m.src = false ∧ (m.dst = x ∨ strictlyBetween x m.dst k = true)) :=
  (PinCheck_ctx hk h1 hpl hsrc hep).single_check hpl hx huniq

/-- (C) double check: no move of a man other than the king is legal -/
theorem PinCheck_C_double_check {p : Pos} {m : Move} {k : Sq} (hk : kingSq? p p.stm = some k)
    (h1 : count p (· == (.king, p.stm)) = 1) (hpl : pseudoLegal p m = true) (hsrc : m.src ≠ k)
    (hep : isEnPassant p m = false) {x y : Sq} (hx : checkerSq p x = true) (hy : checkerSq p y = true)
    (hne : x ≠ y) : legal p m = false :=
  (PinCheck_ctx hk h1 hpl hsrc hep).double_check hpl hx hy hne

/-- all cases: every checker is captured or blocked, and the moving man is not pinned unless there is no
check and it stays on the line through itself and the king -/
theorem PinCheck_legal_nonking_iff {p : Pos} {m : Move} {k : Sq} (hk : kingSq? p p.stm = some k)
    (h1 : count p (· == (.king, p.stm)) = 1) (hpl : pseudoLegal p m = true) (hsrc : m.src ≠ k)
    (hep : isEnPassant p m = false) :
    legal p m = true ↔
      (∀ x, checkerSq p x = true → m.dst = x ∨ strictlyBetween x m.dst k = true) ∧
      (pinnedSq p m.src = false ∨
        ((∀ x, checkerSq p x = false) ∧ (Geom.line m.src k).getLsbD m.dst.val = true)) :=
  (PinCheck_ctx hk h1 hpl hsrc hep).legal_nonking_iff hpl

/-- a pinned man is never the answer to a check, and a pinner is never a checker -/
theorem PinCheck_pin_and_check_disjoint {p : Pos} {m : Move} {k : Sq} (hk : kingSq? p p.stm = some k)
    (h1 : count p (· == (.king, p.stm)) = 1) (hpl : pseudoLegal p m = true) (hsrc : m.src ≠ k)
    (hep : isEnPassant p m = false) {x : Sq} (hx : checkerSq p x = true)
    (hp : pinnedSq p m.src = true) : legal p m = false := by
  cases hl : legal p m with
  | false => rfl
  | true =>
    have := ((PinCheck_legal_nonking_iff hk h1 hpl hsrc hep).mp hl).2
    rcases this with e | ⟨e, _⟩
    · rw [hp] at e; exact Bool.noConfusion e
    · rw [e x] at hx; exact Bool.noConfusion hx

/-! ### the hypotheses are satisfiable (squares are `rank * 8 + file`) -/

section Examples
set_option maxRecDepth 100000

/-- white: Ke1, Re2; black: Ka8, Re8 — the rook on e2 is pinned, no check -/
def exA : Pos :=
  { board := fun s => if s.val = 4 then some (.king, .white) else if s.val = 12 then some (.rook, .white)
      else if s.val = 56 then some (.king, .black) else if s.val = 60 then some (.rook, .black) else none
    stm := .white, castleK := fun _ => false, castleQ := fun _ => false, ep := none }

/-- Re2–e4 stays on the pin line: legal by (A) -/
example : legal exA ⟨12, 28, none⟩ = true :=
  (PinCheck_A_no_check (k := 4) (by decide +kernel) (by decide +kernel) (by decide +kernel)
    (by decide) (by decide +kernel) (by decide +kernel)).mpr (Or.inr (by decide +kernel))

/-- Re2–a2 leaves the pin line: illegal by (A) -/
example : ¬ legal exA ⟨12, 8, none⟩ = true := fun hl => by
  have := (PinCheck_A_no_check (p := exA) (m := ⟨12, 8, none⟩) (k := 4) (by decide +kernel)
    (by decide +kernel) (by decide +kernel) (by decide) (by decide +kernel) (by decide +kernel)).mp hl
  revert this; decide +kernel

/-- white: Ke1, Bb5; black: Ka8, Re8 — single check by the rook e8 -/
def exB : Pos :=
  { board := fun s => if s.val = 4 then some (.king, .white) else if s.val = 33 then some (.bishop, .white)
      else if s.val = 56 then some (.king, .black) else if s.val = 60 then some (.rook, .black) else none
    stm := .white, castleK := fun _ => false, castleQ := fun _ => false, ep := none }

/-- Bb5–e2 interposes, Bb5xe8 captures the checker: legal by (B) -/
example : legal exB ⟨33, 12, none⟩ = true ∧ legal exB ⟨33, 60, none⟩ = true :=
  ⟨(PinCheck_B_single_check (k := 4) (x := 60) (by decide +kernel) (by decide +kernel) (by decide +kernel)
      (by decide) (by decide +kernel) (by decide +kernel) (by decide +kernel)).mpr (by decide +kernel),
   (PinCheck_B_single_check (k := 4) (x := 60) (by decide +kernel) (by decide +kernel) (by decide +kernel)
      (by decide) (by decide +kernel) (by decide +kernel) (by decide +kernel)).mpr (by decide +kernel)⟩

/-- white: Ke1, Bb5; black: Ka8, Re8, Nd3 — double check -/
def exC : Pos :=
  { board := fun s => if s.val = 4 then some (.king, .white) else if s.val = 33 then some (.bishop, .white)
      else if s.val = 56 then some (.king, .black) else if s.val = 60 then some (.rook, .black)
      else if s.val = 19 then some (.knight, .black) else none
    stm := .white, castleK := fun _ => false, castleQ := fun _ => false, ep := none }

/-- Bb5xd3 captures one checker only: illegal by (C) -/
example : legal exC ⟨33, 19, none⟩ = false :=
  PinCheck_C_double_check (k := 4) (x := 60) (y := 19) (by decide +kernel) (by decide +kernel)
    (by decide +kernel) (by decide) (by decide +kernel) (by decide +kernel) (by decide +kernel) (by decide)

end Examples

end Chess.Props
