import ChessVerif.Lemmas.MoveInv
import ChessVerif.Proofs.TablesOK
/-!
# C02 — `make_move_new` yields the specification's successor position

`Board.makeMoveNew` models `Board::make_move_new` (`none` = the `unwrap()` panic on an empty source
square), `Board.abs` reads a board as a mailbox position, `apply` is the FIDE successor position and
`norm` the library's recording policy for the ep mark (kept only if a pawn of the side to move stands
beside the pushed pawn).

`C02_make_move_refines`: for every table set with `TablesOK`, every board satisfying the structural
invariant `Core`, and every move pseudo-legal on its position, provided
* `Pos.EpSane`: the ep mark, if any, names an enemy pawn on its fourth rank whose passed-over square is empty
  (three conjuncts of `epValid`), and
* `Pos.RightsSane`: castling rights imply king and rook at home (the clause of `Valid`),
`make_move_new` does not panic and its result has exactly the men, side to move, castling rights and
(normalised) ep mark of `apply`, and satisfies `Core` again.  Both side conditions hold on `Valid`
positions (`C02_make_move_refines_valid`).

The statement without the side conditions is **false**, even on boards accepted by `try_from`/`is_sane`
and with the code's own tables: `C02_unconditional_false` (FEN `4k3/8/3n4/3pP3/8/8/8/4K3 w - d6`, move
e5xd6: the code also removes the pawn on d5, because `make_move_new` takes the en-passant branch whenever
the square behind the destination is the ep square, even if the destination is occupied).
-/
namespace Chess.Props

theorem C02_make_move_refines (T : Tables) (hT : TablesOK T) (b : Board) (hc : Core T b) (m : Move)
    (hpl : pseudoLegal b.abs m = true) (hep : b.abs.EpSane) (hrs : b.abs.RightsSane) :
    ∃ b', b.makeMoveNew T m = some b' ∧ Core T b' ∧ b'.content = (apply b.abs m).board ∧
      b'.stm = b.stm.other ∧
      (∀ c, (b'.castleRights c).ks = (apply b.abs m).castleK c ∧
            (b'.castleRights c).qs = (apply b.abs m).castleQ c) ∧
      b'.ep = (norm (apply b.abs m)).ep := make_move_refines hT hc hpl hep hrs

/-- the same as one equation: the position of the result is `norm (apply position move)` -/
theorem C02_make_move_abs (T : Tables) (hT : TablesOK T) (b : Board) (hc : Core T b) (m : Move)
    (hpl : pseudoLegal b.abs m = true) (hep : b.abs.EpSane) (hrs : b.abs.RightsSane) :
    ∃ b', b.makeMoveNew T m = some b' ∧ Core T b' ∧ b'.abs = norm (apply b.abs m) :=
  make_move_abs hT hc hpl hep hrs

/-- on valid positions (and in particular for legal moves) no side condition is left -/
theorem C02_make_move_refines_valid (T : Tables) (hT : TablesOK T) (b : Board) (hc : Core T b) (m : Move)
    (hv : Valid b.abs = true) (hpl : pseudoLegal b.abs m = true) :
    ∃ b', b.makeMoveNew T m = some b' ∧ Core T b' ∧ b'.abs = norm (apply b.abs m) :=
  make_move_abs hT hc hpl (Valid_epSane hv) (Valid_rightsSane hv)

theorem C02_make_move_legal (T : Tables) (hT : TablesOK T) (b : Board) (hc : Core T b) (m : Move)
    (hv : Valid b.abs = true) (hl : legal b.abs m = true) :
    ∃ b', b.makeMoveNew T m = some b' ∧ Core T b' ∧ b'.abs = norm (apply b.abs m) := by
  unfold legal at hl
  rw [Bool.and_eq_true] at hl
  exact C02_make_move_refines_valid T hT b hc m hv hl.1

/-- the two side conditions are invariants of play: after a pseudo-legal move made under them they hold again -/
theorem C02_side_conditions_invariant (T : Tables) (hT : TablesOK T) (b b' : Board) (hc : Core T b) (m : Move)
    (hpl : pseudoLegal b.abs m = true) (hep : b.abs.EpSane) (hrs : b.abs.RightsSane)
    (h : b.makeMoveNew T m = some b') : Core T b' ∧ b'.abs.EpSane ∧ b'.abs.RightsSane :=
  (PlayInv.move hT ⟨hc, hep, hrs⟩ hpl h).1

/-- `is_sane` boards satisfy the castling-rights condition -/
theorem C02_sane_rights (T : Tables) (hT : TablesOK T) (b : Board) (hs : Struct b) (h : b.isSane T = true) :
    b.abs.RightsSane := isSane_rightsSane hT hs h

/-- along any play (null moves and pseudo-legal moves) from an accepted builder state whose ep mark is
consistent, every `make_move_new` yields `norm (apply position move)`: no side condition is left -/
theorem C02_make_move_played (T : Tables) (hT : TablesOK T) (b : Board) (hp : Played T b) (m : Move)
    (hpl : pseudoLegal b.abs m = true) :
    ∃ b', b.makeMoveNew T m = some b' ∧ Played T b' ∧ b'.abs = norm (apply b.abs m) := by
  obtain ⟨hc, hep, hrs⟩ := hp.inv hT
  obtain ⟨b', h1, _, h3⟩ := make_move_abs hT hc hpl hep hrs
  exact ⟨b', h1, .move b b' m hp hpl h1, h3⟩

/-- with the tables of the code -/
theorem C02_make_move_code (b : Board) (hc : Core codeTables b) (m : Move)
    (hv : Valid b.abs = true) (hpl : pseudoLegal b.abs m = true) :
    ∃ b', b.makeMoveNew codeTables m = some b' ∧ Core codeTables b' ∧ b'.abs = norm (apply b.abs m) :=
  C02_make_move_refines_valid codeTables codeTables_ok b hc m hv hpl

/-- `make_move(&self, m, &mut result)` computes exactly what `make_move_new` returns, whatever `result` held -/
theorem C02_make_move_eq_new (T : Tables) (b : Board) (m : Move) (prior : Board) :
    Board.makeMove T b m prior = Board.makeMoveNew T b m := rfl

/-- the source board is not modified: `make_move_new` is a function of `&self`; the value bound to the
source is the same before and after the call -/
theorem C02_source_unchanged (T : Tables) (b : Board) (m : Move) :
    (fun src : Board => (src.makeMoveNew T m, src)) b = (b.makeMoveNew T m, b) := rfl

/-- the only panic: an empty source square -/
theorem C02_make_move_panics_iff (T : Tables) (b : Board) (m : Move) :
    b.makeMoveNew T m = none ↔ b.pieceOn m.src = none := makeMoveNew_none_iff T b m

/-- the result, whenever there is one, has the other side to move (no hypothesis at all) -/
theorem C02_make_move_flips (T : Tables) (b b' : Board) (m : Move) (h : b.makeMoveNew T m = some b') :
    b'.stm = b.stm.other := by
  cases hp : b.pieceOn m.src with
  | none => rw [(makeMoveNew_none_iff T b m).mpr hp] at h; cases h
  | some pc =>
    obtain ⟨b'', e, _, hs, _⟩ := makeMoveNew_fields T b m pc hp
    rw [h] at e; injection e with e; rw [e]; exact hs

/-! ### the statement without side conditions is false -/

/-- C02 with no condition on the ep mark, on boards accepted by `is_sane` -/
def C02_make_move_refines_unconditional : Prop :=
  ∀ (T : Tables), TablesOK T → ∀ (b : Board), Core T b → b.isSane T = true → ∀ m : Move,
    pseudoLegal b.abs m = true → ∃ b', b.makeMoveNew T m = some b' ∧ b'.content = (apply b.abs m).board

/-- white Ke1, Pe5; black Ke8, Pd5, Nd6; white to move; ep file d (`4k3/8/3n4/3pP3/8/8/8/4K3 w - d6`) -/
def c02CexBd : Builder where
  pieces s := match s.val with
    | 4 => some (.king, .white) | 36 => some (.pawn, .white)
    | 60 => some (.king, .black) | 35 => some (.pawn, .black) | 43 => some (.knight, .black)
    | _ => none
  stm := .white
  wcr := .noRights
  bcr := .noRights
  epFile := some 3

/-- e5xd6, capturing the knight -/
def c02CexMove : Move := ⟨36, 43, none⟩

/-- `try_from` accepts `bd`, `m` is pseudo-legal, and the contents of square `s` after `make_move_new`
differ from the specification's -/
def c02DiscrepancyAt (T : Tables) (bd : Builder) (m : Move) (s : Sq) : Bool :=
  match Board.tryFrom T bd with
  | none => false
  | some b => pseudoLegal b.abs m && match b.makeMoveNew T m with
    | none => false
    | some b' => b'.content s != (apply b.abs m).board s

set_option maxRecDepth 100000 in
/-- with the code's tables: after e5xd6 the code's board has no pawn on d5, the specification's has -/
theorem C02_discrepancy_ep_capture : c02DiscrepancyAt codeTables c02CexBd c02CexMove 35 = true := by decide +kernel

set_option maxRecDepth 100000 in
/-- the move is even legal, and the only defect of the position is `epValid` (the square behind the
marked pawn is occupied) -/
theorem C02_discrepancy_ep_capture_legal :
    ((Board.tryFrom codeTables c02CexBd).map fun b => legal b.abs c02CexMove && !epValid b.abs &&
      Valid { b.abs with ep := none }) = some true := by decide +kernel

theorem C02_unconditional_false : ¬ C02_make_move_refines_unconditional := by
  intro h
  have hd := C02_discrepancy_ep_capture
  unfold c02DiscrepancyAt at hd
  cases ht : Board.tryFrom codeTables c02CexBd with
  | none => rw [ht] at hd; cases hd
  | some b =>
    rw [ht] at hd
    simp only [Bool.and_eq_true] at hd
    obtain ⟨hpl, hd⟩ := hd
    obtain ⟨hc, _, _, _, _, _, _, hsane⟩ := tryFrom_spec codeTables c02CexBd b ht
    obtain ⟨b', hm, hcont⟩ := h codeTables codeTables_ok b hc hsane c02CexMove hpl
    rw [hm] at hd
    simp only [bne_iff_ne] at hd
    exact hd (congrFun hcont 35)

/-! ### non-vacuity: `r3k2r/8/8/3pP3/8/8/8/R3K2R w KQkq d6` built by `try_from` with the code's tables is a
valid position; en passant e5xd6, both castlings, a rook move and a king move are pseudo-legal there, so the
hypotheses of `C02_make_move_refines_valid` hold for all five, and the results are as `apply` says -/
def c02ExBd : Builder where
  pieces s := match s.val with
    | 0 => some (.rook, .white) | 4 => some (.king, .white) | 7 => some (.rook, .white) | 36 => some (.pawn, .white)
    | 56 => some (.rook, .black) | 60 => some (.king, .black) | 63 => some (.rook, .black) | 35 => some (.pawn, .black)
    | _ => none
  stm := .white
  wcr := .both
  bcr := .both
  epFile := some 3

def c02ExMoves : List Move := [⟨36, 43, none⟩, ⟨4, 6, none⟩, ⟨4, 2, none⟩, ⟨7, 63, none⟩, ⟨4, 12, none⟩]

set_option maxRecDepth 100000 in
example : ((Board.tryFrom codeTables c02ExBd).map fun b =>
    Valid b.abs && b.ep == some 35 && c02ExMoves.all fun m => pseudoLegal b.abs m) = some true := by decide +kernel

/-- a board accepted by `try_from`, a valid position on it and a pseudo-legal move: everything
`C02_make_move_refines_valid` asks for -/
example : ∃ b m, Core codeTables b ∧ Valid b.abs = true ∧ pseudoLegal b.abs m = true ∧ isEnPassant b.abs m = true := by
  have h : ((Board.tryFrom codeTables c02ExBd).map fun b =>
      Valid b.abs && pseudoLegal b.abs ⟨36, 43, none⟩ && isEnPassant b.abs ⟨36, 43, none⟩) = some true := by
    set_option maxRecDepth 100000 in decide +kernel
  cases ht : Board.tryFrom codeTables c02ExBd with
  | none => rw [ht] at h; cases h
  | some b =>
    rw [ht] at h
    simp only [Option.map_some, Option.some.injEq, Bool.and_eq_true] at h
    exact ⟨b, _, (tryFrom_spec codeTables c02ExBd b ht).1, h.1.1, h.1.2, h.2⟩

set_option maxRecDepth 100000 in
/-- and the code's results on these five moves are square by square those of `apply` -/
example : ((Board.tryFrom codeTables c02ExBd).map fun b => c02ExMoves.all fun m =>
    match b.makeMoveNew codeTables m with
    | none => false
    | some b' => allSq.all fun s => b'.content s == (apply b.abs m).board s) = some true := by decide +kernel

end Chess.Props
