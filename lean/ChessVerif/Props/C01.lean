import ChessVerif.Lemmas.Final
import ChessVerif.Lemmas.GameExamples
import ChessVerif.Proofs.TablesOK
import ChessVerif.CodeTables
/-!
# C01 — legal move generation is exact

"For every valid position — set up directly or reached by any sequence of legal moves — the moves
generated are exactly the moves legal under the FIDE Laws: none missing, none extra, none twice; and
`Board::legal(m)` answers exactly whether `m` is one of them."

`Board.legalMoves T b` is the drained `MoveGen::new_legal(b)`, `Board.legal T b m` is `Board::legal`,
`legal b.abs m` is FIDE legality (`Spec/Rules.lean`) on the mailbox position `b.abs` the board describes.

The board invariant is `Board.Good T b := Core T b ∧ b.PinOK T ∧ Valid b.abs = true`: consistent bitboards and
hash, cached `pinned` / `checkers` equal to what `update_pin_info` computes, and the position is `Valid`.
Every side condition of the partial results (`C01Struct`, `C01NonKing`, `C01King`, `C01Ep`, `C03`) is derived
from it (`C01_good_side_conditions`); nothing is left as a hypothesis.

* `C01_movegen_exact` — on every `Good` board: no duplicates, and generated ⇔ FIDE-legal for every one of
  the 64 × 64 × 7 move values; all three check regimes of `enumerate_moves` (no check, single check, double
  check).  `C01_legalMoves_perm`: the generated list is a rearrangement of the specification's own list
  `Chess.legalMoves b.abs`, so the two have the same length (the perft count at depth 1).
* `C01_legal_query_exact` — `Board::legal(m) = legal b.abs m` for every move value.
* `C01_good_tryFrom`, `C01_good_of_valid_pos`, `C01_good_nullMove`, `C01_good_makeMove` — `Good` holds of
  every board `try_from` accepts whose position is valid; every valid position can be set up; `null_move`
  and `make_move_new` of a legal move preserve it (the latter yields `norm (apply position move)`).
* `C01_reachable_exact` — `PlayReachable`: set up directly, or reached by null moves and moves **taken from
  the library's own generated list**; every such board is `Good`, hence its generated moves are exactly the
  legal ones.  `C01_playReachable_iff` identifies this with reachability by FIDE-legal moves.
* `C01_en_passant_never_blocks`, `C01_ep_double_check` — the one fact about the rules that was still
  missing: an en-passant capture never answers a check given by a man other than the captured pawn; in
  double check none is legal (the generator does not even look).

No discrepancy between model and specification was found in the assembly.
-/
namespace Chess.Props
open Chess.Final Chess.Entries CheckPin

variable {T : Tables} {b : Board}

/-- everything the partial results ask for follows from `Good`: consistent bitboards, exactly one king per
side, the kings not adjacent, `checkers() == EMPTY` ⇔ not in check, `checkers()` = the attackers of the
mover's king, the mover's men in `pinned()` = the absolutely pinned men -/
theorem C01_good_side_conditions (hT : TablesOK T) (hg : b.Good T) :
    Struct b ∧ (∀ c, (b.kings &&& b.colorCombined c).popcnt = 1) ∧ KingsApart b ∧
    (b.checkers = 0#64 ↔ inCheck b.abs b.stm = false) ∧
    (∀ x : Sq, b.checkers.getLsbD x.val = checkerSq b.abs x) ∧
    (∀ y : Sq, (b.pinned &&& b.colorCombined b.stm).getLsbD y.val = pinnedSq b.abs y) :=
  ⟨hg.struct, hg.oneKing, hg.kingsApart, hg.checkers_zero_iff hT, (hg.exact hT).checkers, (hg.exact hT).pinned⟩

/-- **C01.** On every well-formed board holding a valid position the generated move list has no
duplicates and contains a move value iff that move is legal under the FIDE Laws. -/
theorem C01_movegen_exact (hT : TablesOK T) (hg : b.Good T) :
    (b.legalMoves T).Nodup ∧ ∀ m : Move, m ∈ b.legalMoves T ↔ legal b.abs m = true :=
  ⟨movegen_nodup hT hg, movegen_mem_iff hT hg⟩

/-- the generated list is a rearrangement of the specification's list of legal moves; in particular both
have the same number of moves -/
theorem C01_legalMoves_perm (hT : TablesOK T) (hg : b.Good T) :
    (b.legalMoves T).Perm (Chess.legalMoves b.abs) ∧
    (b.legalMoves T).length = (Chess.legalMoves b.abs).length :=
  ⟨legalMoves_perm hT hg, (legalMoves_perm hT hg).length_eq⟩

/-- **C01, the query.** `Board::legal(m)` is FIDE legality of `m`, for every one of the 64 × 64 × 7 values
of `ChessMove` (a superset of the 20480 source/destination/promotion triples of the property). -/
theorem C01_legal_query_exact (hT : TablesOK T) (hg : b.Good T) (m : Move) :
    b.legal T m = legal b.abs m := legal_query_eq hT hg m

/-- the same as one statement about the list of all move values: it has every value once, 28672 of them, and
filtering it by FIDE legality gives a rearrangement of the generated list -/
theorem C01_legal_query_all_values (hT : TablesOK T) (hg : b.Good T) :
    (∀ m : Move, m ∈ allMoveValues) ∧ allMoveValues.length = 64 * 64 * 7 ∧ allMoveValues.Nodup ∧
    (allMoveValues.filter fun m => legal b.abs m).Perm (b.legalMoves T) := by
  refine ⟨mem_allMoveValues, allMoveValues_length, allMoveValues_nodup, ?_⟩
  have e : (fun m => legal b.abs m) = fun m => b.legal T m := funext fun m => (legal_query_eq hT hg m).symm
  rw [e]
  exact filter_legal_perm T b (movegen_nodup hT hg)

/-! ### the rule fact behind the double-check regime -/

/-- an en-passant capture never interposes: if an enemy man `y` other than the pawn `q` that has just made
its double step attacks the mover's king, it still does after the capture -/
theorem C01_en_passant_never_blocks {p : Pos} {q mid org k : Sq} (hf : EnPassant.EpFacts p q mid org) {m : Move}
    (hc : EnPassant.EpCtx p m k q) (hd : m.dst = mid) {y : Sq} (hy : p.colorAt y = some p.stm.other)
    (hyq : y ≠ q) (ha : attacks p y k = true) : inCheck (apply p m) p.stm = true :=
  ep_other_checker hf hc hd hy hyq ha

/-- in double check no en-passant capture is legal -/
theorem C01_ep_double_check (hT : TablesOK T) (hg : b.Good T) (h0 : b.checkers ≠ 0#64)
    (h1 : b.checkers.popcnt ≠ 1) (m : Move) (hep : isEnPassant b.abs m = true) : legal b.abs m = false := by
  cases hl : legal b.abs m with
  | false => rfl
  | true => exact (ep_illegal_double_check hT hg h0 h1 hl hep).elim

/-! ### closure of the invariant -/

/-- a board accepted by `try_from` whose position is valid (`try_from` accepts more than that) -/
theorem C01_good_tryFrom {bd : Builder} (ht : Board.tryFrom T bd = some b) (hv : Valid b.abs = true) :
    b.Good T := good_tryFrom ht hv

/-- every valid position can be set up: `try_from` accepts its builder state, and the board holds the
position (its en-passant mark under the recording policy `norm`) -/
theorem C01_good_of_valid_pos (hT : TablesOK T) {p : Pos} (hv : Valid p = true) :
    ∃ b, Board.tryFrom T p.toBuilder = some b ∧ b.abs = norm p ∧ b.Good T := good_of_valid_pos hT hv

/-- `null_move` (possible only when not in check) keeps the invariant -/
theorem C01_good_nullMove (hT : TablesOK T) (hg : b.Good T) {b' : Board} (h : b.nullMove T = some b') :
    b'.Good T := good_nullMove hT hg h

/-- `make_move_new` of a FIDE-legal move does not panic, keeps the invariant and yields the successor
position of the specification -/
theorem C01_good_makeMove (hT : TablesOK T) (hg : b.Good T) {m : Move} (hl : legal b.abs m = true) :
    ∃ b', b.makeMoveNew T m = some b' ∧ b'.Good T ∧ b'.abs = norm (apply b.abs m) := good_makeMove hT hg hl

/-- the same for a move taken from the generated list -/
theorem C01_good_makeMove_generated (hT : TablesOK T) (hg : b.Good T) {m : Move} (hm : m ∈ b.legalMoves T) :
    ∃ b', b.makeMoveNew T m = some b' ∧ b'.Good T ∧ b'.abs = norm (apply b.abs m) :=
  good_makeMove hT hg ((movegen_mem_iff hT hg m).mp hm)

/-- **C01 along play.** Every board set up directly with a valid position, or reached from such a board by
any sequence of null moves and moves of the library's own generated lists, is well-formed and holds a valid
position; its generated moves are exactly the FIDE-legal moves, each once, and `Board::legal` decides
legality. -/
theorem C01_reachable_exact (hT : TablesOK T) (h : PlayReachable T b) :
    b.Good T ∧ (b.legalMoves T).Nodup ∧ (∀ m : Move, m ∈ b.legalMoves T ↔ legal b.abs m = true) ∧
    (∀ m : Move, b.legal T m = legal b.abs m) :=
  have hg := h.good hT
  ⟨hg, movegen_nodup hT hg, movegen_mem_iff hT hg, legal_query_eq hT hg⟩

/-- reachability by generated moves is reachability by FIDE-legal moves -/
theorem C01_playReachable_iff (hT : TablesOK T) (b : Board) : PlayReachable T b ↔ PinStep.Reached T b :=
  playReachable_iff_reached hT b

/-- with the tables of the code -/
theorem C01_reachable_exact_code (h : PlayReachable codeTables b) :
    (b.legalMoves codeTables).Nodup ∧ ∀ m : Move, m ∈ b.legalMoves codeTables ↔ legal b.abs m = true :=
  have r := C01_reachable_exact codeTables_ok h
  ⟨r.2.1, r.2.2.1⟩

/-! ### non-vacuity -/

section Examples
open GameExamples
set_option maxRecDepth 100000

theorem startPos_valid : Valid startBoard.abs = true := by decide +kernel

/-- the initial position, set up through `try_from` with the code's tables, is `Good` and `PlayReachable`;
`C01_movegen_exact` there: e2–e4 is generated, e2–e5 is not; the generator yields twenty moves (evaluated on
the model), hence by `C01_legalMoves_perm` the specification's own list has twenty moves too -/
example : ∃ b, Board.tryFrom codeTables startBoard.abs.toBuilder = some b ∧ b.Good codeTables ∧
    PlayReachable codeTables b ∧ (b.legalMoves codeTables).Nodup ∧
    (⟨12, 28, none⟩ : Move) ∈ b.legalMoves codeTables ∧ (⟨12, 36, none⟩ : Move) ∉ b.legalMoves codeTables ∧
    (b.legalMoves codeTables).length = 20 ∧ (Chess.legalMoves b.abs).length = 20 := by
  obtain ⟨b, ht, habs, hg⟩ := C01_good_of_valid_pos codeTables_ok startPos_valid
  have hex := C01_movegen_exact codeTables_ok hg
  have hlen : (b.legalMoves codeTables).length = 20 := by
    have h : ((Board.tryFrom codeTables startBoard.abs.toBuilder).map fun b =>
        (b.legalMoves codeTables).length) = some 20 := by decide +kernel
    rw [ht] at h
    exact Option.some.inj h
  refine ⟨b, ht, hg, .start _ b ht hg.valid, hex.1, ?_, ?_, hlen, ?_⟩
  · rw [hex.2, habs, Closure.legal_norm]; decide +kernel
  · rw [hex.2, habs, Closure.legal_norm]; decide +kernel
  · rw [← (C01_legalMoves_perm codeTables_ok hg).2]; exact hlen

/-- the hypotheses of the closure theorems: after 1. e4 the board is `Good` again and holds the successor
position -/
example : ∃ b b' : Board, b.Good codeTables ∧ b.makeMoveNew codeTables ⟨12, 28, none⟩ = some b' ∧ b'.Good codeTables ∧
    PlayReachable codeTables b' := by
  obtain ⟨b, ht, habs, hg⟩ := C01_good_of_valid_pos codeTables_ok startPos_valid
  have hl : legal b.abs ⟨12, 28, none⟩ = true := by
    rw [habs, Closure.legal_norm]; decide +kernel
  obtain ⟨b', hm, hg', _⟩ := C01_good_makeMove codeTables_ok hg hl
  exact ⟨b, b', hg, hm, hg',
    .move b b' _ (.start _ b ht hg.valid) ((C01_movegen_exact codeTables_ok hg).2 _ |>.mpr hl) hm⟩

end Examples

end Chess.Props
