import ChessVerif.Lemmas.FenBoard
import ChessVerif.CodeTables
/-!
# C06 — FEN text: the writer's output is a standard six-field FEN describing the state, and the
reader gives the state back

`showBuilder` / `showBoard` model `impl Display for BoardBuilder` / `for Board`, `parseBuilder`
models `BoardBuilder::from_str` (`ChessVerif/Model/Text.lean`); `Fen.decode` is the independent
standard-FEN decoder of `ChessVerif/Spec/Fen.lean`.  All statements are for every builder state:
`pieces : Sq → Option (Piece × Color)` is an arbitrary function, equality of builder states is
equality of the five components with `pieces` compared on every square.
-/
namespace Chess.Props

/-- 1. the unvalidated builder: rendering and re-parsing gives the same state back -/
theorem C06_builder_roundtrip (bd : Builder) :
    ∃ bd', parseBuilder (showBuilder bd) = .ok bd' ∧ (∀ s, bd'.pieces s = bd.pieces s) ∧
      bd'.stm = bd.stm ∧ bd'.wcr = bd.wcr ∧ bd'.bcr = bd.bcr ∧ bd'.epFile = bd.epFile :=
  parseBuilder_showBuilder bd

/-- 2. the rendered text is a well-formed standard six-field FEN (accepted by the independent
decoder) whose placement, side-to-move and castling fields describe the state and whose en-passant
field denotes the just-advanced pawn (`getEnPassant`, the pawn's square): `Fen.decode` accepts in
that field only `-` or a target square on rank 3 / 6 behind such a pawn -/
theorem C06_display_wellformed (bd : Builder) :
    ∃ q : Pos, Fen.decode (showBuilder bd) = some q ∧ (∀ s, q.board s = bd.pieces s) ∧
      q.stm = bd.stm ∧
      q.castleK .white = bd.wcr.ks ∧ q.castleQ .white = bd.wcr.qs ∧
      q.castleK .black = bd.bcr.ks ∧ q.castleQ .black = bd.bcr.qs ∧
      q.ep = bd.getEnPassant :=
  decode_showBuilder bd

/-- 2'. the six space-separated fields of the rendered text, for both splitters (the reader's
`split(' ')` and the Spec's): placement (ranks 8..1 separated by `/`), side, castling, en passant,
and the constant clocks `0` and `1` -/
theorem C06_display_fields (bd : Builder) :
    Str.splitSpace (showBuilder bd) =
      [placementStr bd.pieces, sideStr bd.stm, castleField bd.wcr bd.bcr, epField bd.epShown,
        ['0'], ['1']] ∧
    Fen.splitOn ' ' (showBuilder bd) = Str.splitSpace (showBuilder bd) ∧
    Fen.splitOn '/' (placementStr bd.pieces) =
      [showRank bd.pieces 7, showRank bd.pieces 6, showRank bd.pieces 5, showRank bd.pieces 4,
       showRank bd.pieces 3, showRank bd.pieces 2, showRank bd.pieces 1, showRank bd.pieces 0] :=
  ⟨splitSpace_showBuilderWith bd bd.epShown, (splitSpace_eq _).symm,
    splitOn_slash_placementStr bd.pieces⟩

/-- 3. the en-passant field (fourth field) is `-` when no file is recorded; otherwise it is the
text of the square `e` on the recorded file that the just-advanced pawn passed over: rank 3
(`getRank = 2`) when Black is to move (the pawn is White's, on rank 4), rank 6 (`getRank = 5`) when
White is to move; the pawn's square `getEnPassant` is the square in front of `e` -/
theorem C06_display_ep_standard (bd : Builder) :
    (bd.epFile = none → (Str.splitSpace (showBuilder bd))[3]? = some ['-']) ∧
    (∀ f, bd.epFile = some f → ∃ e : Sq,
      (Str.splitSpace (showBuilder bd))[3]? = some (showSquare e) ∧
      e.getFile = f ∧
      e.getRank = (match bd.stm with | .black => (2 : Fin 8) | .white => 5) ∧
      bd.getEnPassant = some (e.uforward bd.stm.other)) := by
  have htok := splitSpace_showBuilderWith bd bd.epShown
  unfold showBuilder
  rw [htok]
  constructor
  · intro h
    rw [epShown_none bd h]; rfl
  · intro f h
    obtain ⟨e, he, h1, h2, h3⟩ := epShown_some bd f h
    exact ⟨e, by rw [he]; rfl, h1, h2, h3⟩

/-- 4a. a `Board` is rendered by converting it to a builder and rendering that -/
theorem C06_board_display (b : Board) : showBoard b = showBuilder b.toBuilder := rfl

/-- 4b. parsing the text of a board (at builder level) gives back the board's builder state -/
theorem C06_parse_display_builder (b : Board) :
    ∃ bd', parseBuilder (showBoard b) = .ok bd' ∧ (∀ s, bd'.pieces s = b.toBuilder.pieces s) ∧
      bd'.stm = b.stm ∧ bd'.wcr = b.wcr ∧ bd'.bcr = b.bcr ∧ bd'.epFile = b.ep.map Sq.getFile :=
  parseBuilder_showBuilder b.toBuilder

/-- 4c. the text of a board is a standard FEN of the board's builder state -/
theorem C06_board_display_wellformed (b : Board) :
    ∃ q : Pos, Fen.decode (showBoard b) = some q ∧ (∀ s, q.board s = b.toBuilder.pieces s) ∧
      q.stm = b.stm ∧
      q.castleK .white = b.wcr.ks ∧ q.castleQ .white = b.wcr.qs ∧
      q.castleK .black = b.bcr.ks ∧ q.castleQ .black = b.bcr.qs ∧
      q.ep = b.toBuilder.getEnPassant :=
  decode_showBuilder b.toBuilder

/-- 4d. for a board accepted by `try_from` the decoded en-passant mark is the board's own `ep` field
(the pawn's square), the decoded men are what `piece_on` / `color_on` report -/
theorem C06_board_display_wellformed_accepted (T : Tables) (bd : Builder) (b : Board)
    (h : Board.tryFrom T bd = some b) :
    ∃ q : Pos, Fen.decode (showBoard b) = some q ∧
      (∀ s, q.board s = match b.pieceOn s, b.colorOn s with
        | some p, some c => some (p, c)
        | _, _ => none) ∧
      q.stm = b.stm ∧
      q.castleK .white = b.wcr.ks ∧ q.castleQ .white = b.wcr.qs ∧
      q.castleK .black = b.bcr.ks ∧ q.castleQ .black = b.bcr.qs ∧
      q.ep = b.ep := by
  obtain ⟨q, h1, h2, h3, h4, h5, h6, h7, h8⟩ := decode_showBuilder b.toBuilder
  exact ⟨q, h1, h2, h3, h4, h5, h6, h7, h8.trans (toBuilder_getEnPassant T bd b h)⟩

/-- 5. the validated level: for every board `b` accepted by `Board::try_from` (any builder state
`bd`, any tables `T`), `Board::from_str(b.to_string())` returns exactly `b` (all sixteen fields:
bitboards, side, rights, en-passant square, pin / check caches and hash) -/
theorem C06_board_roundtrip (T : Tables) (bd : Builder) (b : Board)
    (h : Board.tryFrom T bd = some b) : parseBoard T (showBoard b) = .ok b :=
  parseBoard_showBoard T bd b h

/-- 5'. its core: re-validating the builder view of an accepted board gives the same board -/
theorem C06_tryFrom_toBuilder (T : Tables) (bd : Builder) (b : Board)
    (h : Board.tryFrom T bd = some b) : Board.tryFrom T b.toBuilder = some b :=
  tryFrom_toBuilder T bd b h

/-- Not proved here: the same round trip for boards that were not produced by `try_from` but by
`make_move` from such a board.  It follows from 5' once `make_move` is known to preserve
"`b` is what `try_from` builds from `b.toBuilder`" (placement invariants, from-scratch pin / check
caches, the en-passant recording rule and `is_sane`), which belongs to the move-making properties. -/
def C06_board_roundtrip_reachable_full (T : Tables) : Prop :=
  ∀ (b b' : Board) (m : Move), Board.tryFrom T b.toBuilder = some b →
    m ∈ b.legalMoves T → b.makeMoveNew T m = some b' → parseBoard T (showBoard b') = .ok b'

/-! non-vacuity: two kings, a white rook on h1, a black pawn on d4, a white pawn
that has just advanced to e4 -/

def exBuilder : Builder where
  pieces s :=
    if s.val = 4 then some (.king, .white) else if s.val = 60 then some (.king, .black)
    else if s.val = 7 then some (.rook, .white)
    else if s.val = 28 then some (.pawn, .white) else if s.val = 27 then some (.pawn, .black)
    else none
  stm := .black
  wcr := ⟨true, false⟩
  bcr := .noRights
  epFile := some 4

example : showBuilder exBuilder = "4k3/8/8/8/3pP3/8/8/4K2R b K e3 0 1".toList := by decide
example : exBuilder.getEnPassant = some ⟨28, by decide⟩ := by decide
example : ∃ bd', parseBuilder "4k3/8/8/8/3pP3/8/8/4K2R b K e3 0 1".toList = .ok bd' ∧
    bd'.epFile = some 4 ∧ bd'.pieces ⟨28, by decide⟩ = some (.pawn, .white) := by
  have h : showBuilder exBuilder = "4k3/8/8/8/3pP3/8/8/4K2R b K e3 0 1".toList := by decide
  obtain ⟨bd', h1, h2, _, _, _, h3⟩ := C06_builder_roundtrip exBuilder
  rw [h] at h1
  exact ⟨bd', h1, h3, h2 _⟩

/-- the example state is accepted by `try_from` with the code's tables, its en-passant square is
recorded (a black pawn stands beside the pushed pawn), and the board-level round trip applies -/
example : ∃ b, Board.tryFrom codeTables exBuilder = some b ∧ b.ep = some ⟨28, by decide⟩ ∧
    parseBoard codeTables (showBoard b) = .ok b := by
  have h : ((Board.tryFrom codeTables exBuilder).map (·.ep)) = some (some ⟨28, by decide⟩) := by
    decide +kernel
  cases hb : Board.tryFrom codeTables exBuilder with
  | none => rw [hb] at h; cases h
  | some b =>
    rw [hb] at h
    simp only [Option.map_some, Option.some.injEq] at h
    exact ⟨b, rfl, h, C06_board_roundtrip _ _ _ hb⟩

end Chess.Props
