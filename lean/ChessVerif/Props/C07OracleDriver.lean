import ChessVerif.Props.C07Oracle
import ChessVerif.Driver.Ops2
/-!
# The specification-level oracles of `Props/C07Oracle.lean` are the driver's

`Spec/Accept.lean` and `Spec/WfOracle.lean` copy four definitions of the compiled driver
(`Driver/Ops.lean`, `Driver/Ops2.lean`) so that the theorems of `Props/C07Oracle.lean` need not import the
driver.  This file imports both and checks that the copies are the same functions (`rfl`), that the driver's
memoisation `memo` is the identity, and that `wfOk` is exactly "`wfFindings` adds no finding of kind 'O'".
Then it restates the main results on the driver's own definitions.
-/
namespace Chess.Props
open Chess

theorem driver_acceptedOk_eq : Driver.acceptedOk = Chess.acceptedOk := rfl
theorem driver_occConsistent_eq : Driver.occConsistent = Chess.occConsistent := rfl
theorem driver_specCheckers_eq : Driver.specCheckers = Chess.specCheckers := rfl
theorem driver_specPinnedMine_eq : Driver.specPinnedMine = Chess.specPinnedMine := rfl
theorem driver_mine_eq : Driver.mine = Chess.mine := rfl

/-- the driver's `memo` (mailbox copied into an array) does not change the position -/
theorem driver_memo_eq (p : Pos) : Driver.memo p = p := by
  unfold Driver.memo
  cases p with
  | mk board stm ck cq ep =>
    simp only [Pos.mk.injEq, and_true]
    funext s
    simp [Array.getD]

/-- if `wfOk` holds, `wfFindings` adds no finding of kind 'O' (it may add the kind-'M' raw-hash finding) -/
theorem C03_wfFindings_noO_of_wfOk (fs : Driver.Findings) (pre : String) (b : Board) (p : Pos)
    (h : wfOk b p = true) :
    (Driver.wfFindings fs pre b p).filter (·.kind == 'O') = fs.filter (·.kind == 'O') := by
  unfold wfOk at h
  simp only [Bool.and_eq_true, beq_iff_eq] at h
  obtain ⟨⟨h1, h2⟩, h3⟩ := h
  unfold Driver.wfFindings
  simp only [driver_occConsistent_eq, driver_specCheckers_eq, driver_specPinnedMine_eq, driver_mine_eq, h1, h2, h3]
  simp only [bne_self_eq_false, Bool.not_true, Bool.false_eq_true, if_false]
  split
  · show Array.filter _ (Array.push fs _) = _
    rw [Array.filter_push]
    simp [Driver.fM]
  · rfl

/-- if `wfOk` fails, `wfFindings` adds at least one finding of kind 'O' -/
theorem C03_wfFindings_O_of_not_wfOk (fs : Driver.Findings) (pre : String) (b : Board) (p : Pos)
    (h : wfOk b p = false) :
    (fs.filter (·.kind == 'O')).size < ((Driver.wfFindings fs pre b p).filter (·.kind == 'O')).size := by
  unfold wfOk at h
  unfold Driver.wfFindings
  simp only [driver_occConsistent_eq, driver_specCheckers_eq, driver_specPinnedMine_eq, driver_mine_eq]
  cases h1 : occConsistent b <;> cases h2 : (b.checkers == specCheckers p) <;>
    cases h3 : (b.pinned &&& mine b == specPinnedMine p) <;>
    simp only [h1, h2, h3, Bool.and_self, Bool.and_true, Bool.and_false] at h
  all_goals first
    | exact Bool.noConfusion h
    | (simp only [bne, h2, h3, Bool.not_true, Bool.not_false, Bool.false_eq_true, if_false, if_true]
       split <;> simp [pure, Id.run, Driver.fM, Driver.fO] <;> omega)

/-- `wfOk` is exactly what `wfFindings` tests with kind 'O' -/
theorem C03_wfFindings_noO_iff (fs : Driver.Findings) (pre : String) (b : Board) (p : Pos) :
    (Driver.wfFindings fs pre b p).filter (·.kind == 'O') = fs.filter (·.kind == 'O') ↔ wfOk b p = true := by
  constructor
  · intro h
    cases hw : wfOk b p with
    | true => rfl
    | false =>
      have := C03_wfFindings_O_of_not_wfOk fs pre b p hw
      rw [h] at this
      exact absurd this (Nat.lt_irrefl _)
  · exact C03_wfFindings_noO_of_wfOk fs pre b p

/-- on the driver's own definitions: what `acceptFindings` evaluates on a board equal to the model's accepted
board, `acceptedOk (memo b.abs)` and `occConsistent b`, never yields a finding -/
theorem C07_driver_accept_oracle_of_tryFrom {T : Tables} (hT : TablesOK T) {bd : Builder} {b : Board}
    (h : Board.tryFrom T bd = some b) :
    Driver.acceptedOk (Driver.memo b.abs) = none ∧ Driver.occConsistent b = true := by
  rw [driver_memo_eq, driver_acceptedOk_eq, driver_occConsistent_eq]
  exact ⟨C07_acceptedOk_of_tryFrom hT h, C03_occConsistent_of_struct (C07_accepted_struct h)⟩

/-- on the driver's own definitions: `wfFindings` on a `Good` board and its (memoised) position adds no
finding of kind 'O' -/
theorem C03_driver_wfFindings_of_good {T : Tables} (hT : TablesOK T) {b : Board} (hg : b.Good T)
    (fs : Driver.Findings) (pre : String) :
    (Driver.wfFindings fs pre b (Driver.memo b.abs)).filter (·.kind == 'O') = fs.filter (·.kind == 'O') := by
  rw [driver_memo_eq]
  exact C03_wfFindings_noO_of_wfOk fs pre b b.abs (C03_wfOk_of_good hT hg)

/-! ### non-vacuity -/

section Examples
open GameExamples
set_option maxRecDepth 100000

example : ∃ bd b, Board.tryFrom codeTables bd = some b ∧ Driver.acceptedOk (Driver.memo b.abs) = none := by
  obtain ⟨bd, b, _, h, _⟩ := C07_start_accepted
  exact ⟨bd, b, h, (C07_driver_accept_oracle_of_tryFrom codeTables_ok h).1⟩

example : ∃ b : Board, b.Good codeTables ∧
    ((Driver.wfFindings #[] "" b (Driver.memo b.abs)).filter (·.kind == 'O')).size = 0 := by
  obtain ⟨b, _, _, hg⟩ := C01_good_of_valid_pos codeTables_ok startPos_valid
  exact ⟨b, hg, by rw [C03_driver_wfFindings_of_good codeTables_ok hg]; rfl⟩

end Examples

end Chess.Props
