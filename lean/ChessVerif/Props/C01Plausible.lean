import ChessVerif.Lemmas.Plausible
import ChessVerif.Props.C02Ep
/-!
# C01 / C02 — the correspondence's candidate set misses no legal move; the library's en-passant recording
policy lies within the bounds the driver's oracle accepts

The correspondence harness asks the real `Board::legal` on every *plausible* triple of a position
(`plausible`, `Spec/Plausible.lean`: own man on the source; destination different from the source and on the
same file, rank or diagonal or a knight's jump away; promotion none/Q/R/B/N) and requires the accepted
triples to be exactly the legal moves.  This file proves, for ALL positions and moves:

* `C01_pseudoLegal_plausible`, `C01_legal_plausible`, `C01_legalMoves_plausible`,
  `C01_not_plausible_not_legal` — the plausible triples are a superset of the pseudo-legal, hence of the
  legal moves (every clause of `pseudoLegal`: pawn single and double step, capture, en passant, promotion
  options; knight; king step; castling; rook, bishop and queen slides);
* `C01_plausible_query_complete` — a query that agrees with `legal` on the plausible triples accepts, among
  the plausible triples, exactly the legal moves: asking outside the candidate set could reveal no further
  legal move;
* `C02_policy_within_bounds` — the oracle `epPolicy` for the recorded en-passant state never flags the
  library's own policy `norm`; `C02_policy_accepts_iff` — what the oracle accepts, as a proposition.

No hypothesis on the position (validity is not needed).
-/
namespace Chess.Props

/-! ### (a) pseudo-legal moves are plausible -/

/-- (a) every pseudo-legal move (FIDE Article 3 movement) is one of the plausible triples -/
theorem C01_pseudoLegal_plausible (p : Pos) (m : Move) (h : pseudoLegal p m = true) : plausible p m = true :=
  Plausible.pseudoLegal_plausible h

/-! ### (b) legal moves are plausible -/

/-- (b) every legal move is one of the plausible triples -/
theorem C01_legal_plausible (p : Pos) (m : Move) (h : legal p m = true) : plausible p m = true :=
  Plausible.legal_plausible h

/-- (b') every member of the specification's move list is plausible -/
theorem C01_legalMoves_plausible (p : Pos) : ∀ m ∈ legalMoves p, plausible p m = true :=
  fun _ hm => Plausible.legal_plausible (Plausible.mem_legalMoves hm)

/-- (b'') contrapositive: a triple outside the candidate set is not legal, so not asking it loses nothing -/
theorem C01_not_plausible_not_legal (p : Pos) (m : Move) (h : plausible p m = false) : legal p m = false := by
  cases hl : legal p m with
  | false => rfl
  | true => rw [Plausible.legal_plausible hl] at h; cases h

/-! ### (c) a query that is right on the plausible triples yields exactly the legal moves -/

/-- (c) let `f` be any Boolean query on moves (the library's `Board::legal`).  If `f` agrees with the
rules' `legal p` on every plausible triple, then the plausible triples accepted by `f` are exactly the legal
moves of `p` -/
theorem C01_plausible_query_complete (p : Pos) (f : Move → Bool)
    (hf : ∀ m, plausible p m = true → f m = legal p m) :
    ∀ m, (plausible p m = true ∧ f m = true) ↔ legal p m = true := by
  intro m
  constructor
  · rintro ⟨hp, hm⟩
    rw [← hf m hp]; exact hm
  · intro hl
    have hp := Plausible.legal_plausible hl
    exact ⟨hp, by rw [hf m hp]; exact hl⟩

/-! ### (d) the en-passant recording policy -/

/-- (d) the oracle for the recorded en-passant state accepts the library's policy `norm` in every position -/
theorem C02_policy_within_bounds (q : Pos) : epPolicy q (norm q).ep = none :=
  Plausible.epPolicy_norm q

/-- (d') what the oracle accepts: either nothing is recorded and no legal en-passant capture exists on a marked
position, or the recorded square is the mark the rules give and the policy `norm` keeps it -/
theorem C02_policy_accepts_iff (q : Pos) (rec : Option Sq) :
    epPolicy q rec = none ↔
      (rec = none ∧ ¬ (q.ep.isSome = true ∧ ∃ m ∈ legalMoves q, isEnPassant q m = true)) ∨
      (∃ s, rec = some s ∧ q.ep = some s ∧ (norm q).ep = some s) :=
  Plausible.epPolicy_none_iff q rec

/-! ### non-vacuity

In the position after 1.e4 a6 2.e5 (`c02EpPos`, Black to move): d7–d5 is legal (and plausible); d7–d4 is
plausible but not legal; g8–d6 (three files, two ranks) is not plausible, so `plausible` is neither empty nor
everything.  After d7–d5 the oracle accepts the recorded mark d5 and rejects "nothing recorded"; after h7–h5
(no white pawn beside h5) it accepts "nothing recorded" and rejects the mark h5. -/

set_option maxRecDepth 100000 in
theorem c01Plausible_facts :
    (legal c02EpPos c02EpD5 && plausible c02EpPos c02EpD5 &&
      plausible c02EpPos ⟨51, 27, none⟩ && !legal c02EpPos ⟨51, 27, none⟩ &&
      !plausible c02EpPos ⟨62, 43, none⟩ && !plausible c02EpPos ⟨35, 27, none⟩ &&
      plausible c02EpPos ⟨62, 45, some .queen⟩ && !plausible c02EpPos ⟨62, 45, some .king⟩) = true := by
  decide +kernel

/-- the hypothesis of (a)/(b) is satisfiable, and the conclusion is not trivially true of every triple -/
example : ∃ p m m', legal p m = true ∧ pseudoLegal p m = true ∧ plausible p m' = false := by
  have h := c01Plausible_facts
  simp only [Bool.and_eq_true, Bool.not_eq_true'] at h
  exact ⟨c02EpPos, c02EpD5, ⟨62, 43, none⟩, h.1.1.1.1.1.1.1, Closure.legal_pseudo h.1.1.1.1.1.1.1, h.1.1.1.2⟩

/-- the hypothesis of (c) is satisfiable by a query that is wrong outside the candidate set (it accepts every
non-plausible triple): the conclusion still singles out the legal moves, and there are plausible triples that
are not legal -/
example : ∃ (p : Pos) (f : Move → Bool), (∀ m, plausible p m = true → f m = legal p m) ∧ (∃ m, f m = true ∧ legal p m = false) ∧
    (∃ m, plausible p m = true ∧ legal p m = false) ∧ (∃ m, legal p m = true) := by
  have h := c01Plausible_facts
  simp only [Bool.and_eq_true, Bool.not_eq_true'] at h
  refine ⟨c02EpPos, fun m => !plausible c02EpPos m || legal c02EpPos m, ?_, ⟨⟨62, 43, none⟩, ?_, ?_⟩,
    ⟨⟨51, 27, none⟩, h.1.1.1.1.1.2, h.1.1.1.1.2⟩, ⟨c02EpD5, h.1.1.1.1.1.1.1⟩⟩
  · intro m hm; simp [hm]
  · simp [h.1.1.1.2]
  · exact C01_not_plausible_not_legal _ _ h.1.1.1.2

/-- (d): a position whose mark is kept (after d7–d5) and one whose mark is dropped (after h7–h5); the oracle
is not trivially `none`: it rejects "nothing recorded" in the first and the mark h5 in the second -/
example : (norm (apply c02EpPos c02EpD5)).ep = some 35 ∧
    epPolicy (apply c02EpPos c02EpD5) (some 35) = none ∧ epPolicy (apply c02EpPos c02EpD5) none ≠ none ∧
    (norm (apply c02EpPos c02EpH5)).ep = none ∧
    epPolicy (apply c02EpPos c02EpH5) none = none ∧ epPolicy (apply c02EpPos c02EpH5) (some 39) ≠ none := by
  have h := c02Ep_spec_facts
  simp only [Bool.and_eq_true, beq_iff_eq] at h
  obtain ⟨⟨⟨⟨⟨⟨⟨⟨⟨⟨_, _⟩, _⟩, hn⟩, hl'⟩, he'⟩, _⟩, hh⟩, hnh⟩, _⟩, _⟩ := h
  have hq : (apply c02EpPos c02EpD5).ep = some 35 := norm_ep_some hn
  refine ⟨hn, ?_, ?_, hnh, ?_, ?_⟩
  · have := C02_policy_within_bounds (apply c02EpPos c02EpD5)
    rwa [hn] at this
  · rw [Ne, C02_policy_accepts_iff]
    rintro (⟨_, hc⟩ | ⟨s, hs, _⟩)
    · refine hc ⟨by rw [hq]; rfl, c02EpExd6, ?_, he'⟩
      exact (Plausible.mem_legalMoves_iff _ _).mpr hl'
    · cases hs
  · have := C02_policy_within_bounds (apply c02EpPos c02EpH5)
    rwa [hnh] at this
  · rw [Ne, C02_policy_accepts_iff]
    rintro (⟨hc, _⟩ | ⟨s, hs, _, hs'⟩)
    · cases hc
    · rw [hnh] at hs'; cases hs'

end Chess.Props
