import ChessVerif.Lemmas.Game
import ChessVerif.Lemmas.GameExamples
/-!
# C10 — the game protocol of `game.rs` (about the Model `Chess.Game`)

"A game accepts a move exactly when it has no result yet and the move is legal in its current
position; its current position, side to move and action log always equal the start position advanced
by precisely the accepted actions in order.  As soon as a result exists it names the right outcome and
side, never changes, and every further action is refused without altering the game; a draw is accepted
only if the latest action is a draw offer or the latest action is a move whose mover offered a draw
immediately before it."

All statements hold for every game value `g` (any start board, any log), every `T : Tables` and every
request.  The outer `Option` of the model functions is the Rust panic; a statement with hypothesis
`… = some …` speaks about the non-panicking runs, and `C10_no_panic` says when a run cannot panic.

Reading guide:
* `Game.perform T g a` dispatches a request `a : Action` to `makeMove / offerDraw / acceptDraw /
  declareDraw / resign`; `Game.run` performs a list of requests.
* `Game.LogOK T g`: every action in the log was acceptable when it was appended.
* `legal → make_move_new does not panic` is **false for arbitrary `Board` values** (see
  `C10_legal_makeMove_some_fails_on_insane_board`), so `C10_no_panic` takes it as a hypothesis about
  the positions of the game at hand.  `Props/C10NoPanic.lean` proves it for every board whose own
  pieces are recorded in `combined` and whose side to move has a king (in particular every `is_sane`
  board); that `make_move_new` preserves this along a game is outside this property.
-/
namespace Chess.Props
open Chess Chess.Game Chess.GameExamples

/-! ## position, side to move and log are the replay of the accepted actions -/

/-- a move flips the side to move -/
theorem C10_makeMoveNew_stm {T : Tables} {b b' : Board} {m : Move}
    (h : b.makeMoveNew T m = some b') : b'.stm = b.stm.other := Board.makeMoveNew_stm h

/-- the current position is the start position advanced by exactly the `makeMove` actions of the
log, in order -/
theorem C10_position_is_replay (T : Tables) (g : Game) :
    g.currentPosition T =
      (g.moves.filterMap moveOf).foldlM (fun b m => b.makeMoveNew T m) g.startPos :=
  currentPosition_eq_foldlM T g

/-- the side to move (computed by parity in the code) is the side to move of the replayed position -/
theorem C10_side_is_replay {T : Tables} {g : Game} {cur : Board}
    (h : g.currentPosition T = some cur) : cur.stm = g.sideToMove := currentPosition_stm T g h

/-- a move is accepted exactly when there is no result yet and it is legal in the current position -/
theorem C10_make_move_iff {T : Tables} {g g' : Game} {m : Move} {acc : Bool}
    (h : g.makeMove T m = some (g', acc)) :
    (acc = true ↔ g.result T = some none ∧ ∃ cur, g.currentPosition T = some cur ∧ cur.legal T m = true) :=
  (makeMove_spec h).1

theorem C10_log_make_move {T : Tables} {g g' : Game} {m : Move} {acc : Bool}
    (h : g.makeMove T m = some (g', acc)) :
    g'.startPos = g.startPos ∧ (acc = true → g'.moves = g.moves ++ [.makeMove m]) ∧ (acc = false → g' = g) := by
  obtain ⟨_, h1, h2⟩ := makeMove_spec h
  cases acc
  · simp [h2 rfl]
  · simp [h1 rfl]

/-- offers and resignations are accepted exactly when there is no result yet -/
theorem C10_offer_draw_iff {T : Tables} {g g' : Game} {c : Color} {acc : Bool}
    (h : g.offerDraw T c = some (g', acc)) : (acc = true ↔ g.result T = some none) := (offerDraw_spec h).1

theorem C10_log_offer_draw {T : Tables} {g g' : Game} {c : Color} {acc : Bool}
    (h : g.offerDraw T c = some (g', acc)) :
    g'.startPos = g.startPos ∧ (acc = true → g'.moves = g.moves ++ [.offerDraw c]) ∧ (acc = false → g' = g) := by
  obtain ⟨_, h1, h2⟩ := offerDraw_spec h
  cases acc
  · simp [h2 rfl]
  · simp [h1 rfl]

theorem C10_resign_iff {T : Tables} {g g' : Game} {c : Color} {acc : Bool}
    (h : g.resign T c = some (g', acc)) : (acc = true ↔ g.result T = some none) := (resign_spec h).1

theorem C10_log_resign {T : Tables} {g g' : Game} {c : Color} {acc : Bool}
    (h : g.resign T c = some (g', acc)) :
    g'.startPos = g.startPos ∧ (acc = true → g'.moves = g.moves ++ [.resign c]) ∧ (acc = false → g' = g) := by
  obtain ⟨_, h1, h2⟩ := resign_spec h
  cases acc
  · simp [h2 rfl]
  · simp [h1 rfl]

theorem C10_log_accept_draw {T : Tables} {g g' : Game} {acc : Bool}
    (h : g.acceptDraw T = some (g', acc)) :
    g'.startPos = g.startPos ∧ (acc = true → g'.moves = g.moves ++ [.acceptDraw]) ∧ (acc = false → g' = g) := by
  obtain ⟨_, h1, h2⟩ := acceptDraw_spec h
  cases acc
  · simp [h2 rfl]
  · simp [h1 rfl]

theorem C10_log_declare_draw {T : Tables} {g g' : Game} {acc : Bool}
    (h : g.declareDraw T = some (g', acc)) :
    g'.startPos = g.startPos ∧ (acc = true → g'.moves = g.moves ++ [.declareDraw]) ∧ (acc = false → g' = g) := by
  obtain ⟨_, h1, h2⟩ := declareDraw_spec h
  cases acc
  · simp [h2 rfl]
  · simp [h1 rfl]

/-- uniformly: an accepted request is appended to the log, a refused one leaves the game untouched,
and nothing is accepted unless the game had no result -/
theorem C10_log_perform {T : Tables} {g g' : Game} {a : Action} {acc : Bool}
    (h : g.perform T a = some (g', acc)) :
    g'.startPos = g.startPos ∧ (acc = true → g'.moves = g.moves ++ [a] ∧ g.result T = some none) ∧
      (acc = false → g' = g) := by
  obtain ⟨h1, h2⟩ := perform_spec h
  cases acc
  · simp [h2 rfl]
  · simp [h1 rfl, (perform_accepted h).1]

/-- after any sequence of requests the log is the old log followed by precisely the accepted requests,
in order; the start position never changes (so, by `C10_position_is_replay` and `C10_side_is_replay`,
position and side to move are the start position advanced by the accepted moves) -/
theorem C10_log_is_accepted_requests {T : Tables} {g gf : Game} {reqs accd : List Action}
    (h : run T g reqs = some (gf, accd)) :
    gf.startPos = g.startPos ∧ gf.moves = g.moves ++ accd ∧ accd.Sublist reqs := run_log h

/-! ## once there is a result -/

/-- with a result, each of the five operations refuses and returns the game unchanged -/
theorem C10_result_final {T : Tables} {g : Game} {r : GameResult} (hr : g.result T = some (some r)) :
    (∀ m, g.makeMove T m = some (g, false)) ∧ (∀ c, g.offerDraw T c = some (g, false)) ∧
    (∀ c, g.resign T c = some (g, false)) ∧ g.acceptDraw T = some (g, false) ∧
    g.canDeclareDraw T = some false ∧ g.declareDraw T = some (g, false) :=
  ⟨fun m => perform_of_result hr (.makeMove m), fun c => perform_of_result hr (.offerDraw c),
   fun c => perform_of_result hr (.resign c), perform_of_result hr .acceptDraw,
   canDeclareDraw_of_result hr, perform_of_result hr .declareDraw⟩

/-- the result never changes: after any request the game still has the same result -/
theorem C10_result_stable {T : Tables} {g g' : Game} {r : GameResult} {a : Action} {acc : Bool}
    (hr : g.result T = some (some r)) (h : g.perform T a = some (g', acc)) :
    acc = false ∧ g' = g ∧ g'.result T = some (some r) := by
  rw [perform_of_result hr a] at h
  simp only [Option.some.injEq, Prod.mk.injEq] at h
  obtain ⟨rfl, rfl⟩ := h
  exact ⟨rfl, rfl, hr⟩

/-- … and after any sequence of requests: nothing is accepted, nothing changes -/
theorem C10_result_stable_run {T : Tables} {g : Game} {r : GameResult} (hr : g.result T = some (some r))
    (reqs : List Action) : run T g reqs = some (g, []) := by
  induction reqs with
  | nil => rfl
  | cons a rest ih => simp [run, perform_of_result hr a, ih]

/-- the result names the right outcome and side: checkmate / stalemate are read off the current
position (the winner is the side *not* to move), everything else off the last action of the log -/
theorem C10_result_correct {T : Tables} {g : Game} {r : GameResult} (h : g.result T = some (some r)) :
    ∃ cur, g.currentPosition T = some cur ∧ cur.stm = g.sideToMove ∧
      (r = .whiteCheckmates ↔ cur.status T = .checkmate ∧ cur.stm = .black) ∧
      (r = .blackCheckmates ↔ cur.status T = .checkmate ∧ cur.stm = .white) ∧
      (r = .stalemate ↔ cur.status T = .stalemate) ∧
      (r = .drawAccepted ↔ cur.status T = .ongoing ∧ g.moves.getLast? = some .acceptDraw) ∧
      (r = .drawDeclared ↔ cur.status T = .ongoing ∧ g.moves.getLast? = some .declareDraw) ∧
      (r = .whiteResigns ↔ cur.status T = .ongoing ∧ g.moves.getLast? = some (.resign .white)) ∧
      (r = .blackResigns ↔ cur.status T = .ongoing ∧ g.moves.getLast? = some (.resign .black)) :=
  result_correct h

/-- there is no result exactly when the position is ongoing and the last action (if any) is a move
or a draw offer -/
theorem C10_no_result_iff {T : Tables} {g : Game} :
    g.result T = some none ↔
      ∃ cur, g.currentPosition T = some cur ∧ cur.status T = .ongoing ∧
        (g.moves.getLast? = none ∨ (∃ m, g.moves.getLast? = some (.makeMove m)) ∨
          (∃ c, g.moves.getLast? = some (.offerDraw c))) := result_none_iff

/-- an accepted resignation / draw acceptance / draw declaration produces the corresponding result at
once; an accepted offer produces none (`resultOfAction`: acceptDraw ↦ DrawAccepted, declareDraw ↦
DrawDeclared, resign c ↦ c resigns, offerDraw ↦ no result) -/
theorem C10_result_after_nonmove {T : Tables} {g g' : Game} {a : Action}
    (ha : isMove a = false) (h : g.perform T a = some (g', true)) :
    g'.result T = some (resultOfAction a) := by
  rw [(perform_spec h).1 rfl]
  exact result_after_nonmove (perform_accepted h).1 a ha

/-! ## accepting a draw -/

/-- `accept_draw` succeeds exactly when there is no result and the code's test on the log holds -/
theorem C10_accept_draw_iff {T : Tables} {g g' : Game} {acc : Bool} (h : g.acceptDraw T = some (g', acc)) :
    (acc = true ↔ g.result T = some none ∧
      ((∃ c, g.moves.getLast? = some (.offerDraw c)) ∨
       (∃ m pre, g.moves = pre ++ [.offerDraw g.sideToMove.other, .makeMove m]))) := by
  rw [(acceptDraw_spec h).1]
  constructor
  · rintro ⟨hr, hc⟩; exact ⟨hr, acceptCond_shape hr hc⟩
  · rintro ⟨hr, hs⟩; exact ⟨hr, acceptCond_of_shape hs⟩

/-- a draw is accepted only if the latest action is a draw offer, or the latest action is a move
whose mover (`= sideToMove.other` now) offered a draw immediately before it.  (The code only tests
`moves[n-2]`; that `moves[n-1]` is then a move follows from the game having no result.) -/
theorem C10_accept_only_if {T : Tables} {g g' : Game} (h : g.acceptDraw T = some (g', true)) :
    (∃ c, g.moves.getLast? = some (.offerDraw c)) ∨
    (∃ m pre, g.moves = pre ++ [.offerDraw g.sideToMove.other, .makeMove m]) :=
  ((C10_accept_draw_iff h).1 rfl).2

/-! ## the log invariant and absence of panics -/

theorem C10_LogOK_new (T : Tables) (s : Board) : LogOK T ⟨s, []⟩ := LogOK_nil T s

theorem C10_LogOK_preserved {T : Tables} {g g' : Game} {a : Action} {acc : Bool} (h : LogOK T g)
    (hp : g.perform T a = some (g', acc)) : LogOK T g' := LogOK_perform h hp

theorem C10_LogOK_run {T : Tables} {g gf : Game} {reqs accd : List Action} (hg : LogOK T g)
    (h : run T g reqs = some (gf, accd)) : LogOK T gf := LogOK_run hg h

/-- what `LogOK` says, in terms of splittings of the log -/
theorem C10_LogOK_iff (T : Tables) (g : Game) :
    LogOK T g ↔ ∀ pre a post, g.moves = pre ++ a :: post →
      result T ⟨g.startPos, pre⟩ = some none ∧
      ∀ m, a = .makeMove m → ∃ cur, currentPosition T ⟨g.startPos, pre⟩ = some cur ∧ cur.legal T m = true :=
  LogOK_iff_split T g

/-- no panic: a log built by the operations replays without panic, *provided* legal moves of the
positions of this game start from an occupied square (`hsafe`).  Then `currentPosition`, `result`
and `canDeclareDraw` are all defined. -/
theorem C10_no_panic {T : Tables} {g : Game} (h : LogOK T g)
    (hsafe : ∀ k cur m, currentPosition T ⟨g.startPos, g.moves.take k⟩ = some cur →
      cur.legal T m = true → (cur.makeMoveNew T m).isSome) :
    (g.currentPosition T).isSome ∧ (g.result T).isSome ∧ (g.canDeclareDraw T).isSome := by
  have h1 := LogOK_currentPosition_isSome h hsafe
  refine ⟨h1, ?_, ?_⟩
  · cases hr : g.result T with
    | none => rw [(result_eq_none_iff T g).1 hr] at h1; cases h1
    | some r => rfl
  · cases hr : g.canDeclareDraw T with
    | none => rw [(canDeclareDraw_eq_none_iff T g).1 hr] at h1; cases h1
    | some r => rfl

/-- the full-strength wish "a legal move never makes `make_move_new` panic", for arbitrary boards -/
def C10_legal_makeMove_some_full : Prop :=
  ∀ (T : Tables) (b : Board) (m : Move), b.legal T m = true → (b.makeMoveNew T m).isSome

/-- … is false: on the empty board `Board::new()` with the real tables the generator offers the king
move a1b1 (the "king square" of an empty king board is `Square(64 & 63) = a1`), and `make_move_new`
panics on the empty source square.  Such a `Board` cannot be obtained through `BoardBuilder`/FEN. -/
theorem C10_legal_makeMove_some_fails_on_insane_board : ¬ C10_legal_makeMove_some_full := by
  intro h
  have := h codeTables Board.blank ⟨0, 1, none⟩ (by decide +kernel)
  revert this
  decide +kernel

/-- `make_move_new` panics exactly on an empty source square -/
theorem C10_makeMoveNew_isSome (T : Tables) (b : Board) (m : Move) :
    (b.makeMoveNew T m).isSome = (b.pieceOn m.src).isSome := Board.makeMoveNew_isSome_iff T b m

/-! ## non-vacuity (real tables, real positions) -/

set_option maxRecDepth 100000

/-- 1. e4 is accepted from the initial position, 1. e5 is refused -/
example : (newGame.makeMove codeTables ⟨12, 28, none⟩).map (·.2) = some true ∧
    (newGame.makeMove codeTables ⟨12, 36, none⟩).map (·.2) = some false := by decide +kernel

/-- fool's mate: the result is "Black checkmates", so the hypotheses of `C10_result_final`,
`C10_result_stable`, `C10_result_correct` are satisfiable -/
example : foolsMate.result codeTables = some (some .blackCheckmates) := by decide +kernel

/-- the hypothesis of `C10_accept_only_if` (second alternative: offer, then move) is satisfiable -/
example : (offered.acceptDraw codeTables).map (·.2) = some true := by decide +kernel

/-- `LogOK` holds for a real game -/
example : LogOK codeTables foolsMate := by
  have h0 := LogOK_nil codeTables startBoard
  have step : ∀ {g g' : Game} {a : Action}, LogOK codeTables g → g.perform codeTables a = some (g', true) →
      LogOK codeTables g' := fun h hp => LogOK_perform h hp
  have h1 := step (a := mv 13 21) (g' := ⟨startBoard, [mv 13 21]⟩) h0 (by decide +kernel)
  have h2 := step (a := mv 52 36) (g' := ⟨startBoard, [mv 13 21, mv 52 36]⟩) h1 (by decide +kernel)
  have h3 := step (a := mv 14 30) (g' := ⟨startBoard, [mv 13 21, mv 52 36, mv 14 30]⟩) h2 (by decide +kernel)
  exact step (a := mv 59 31) h3 (by decide +kernel)

end Chess.Props
