import ChessVerif.Props.C14
import ChessVerif.Refine.Abs
/-!
# C04 — status is Checkmate / Stalemate / Ongoing exactly as the rules define

`Board.status` is the model of `Board::status` (it reads `len()` of a fresh generator and `checkers`).
Proved here, for every board and every table set: the status is determined by *the moves the
generator yields* and the cached checkers: checkmate ⇔ no generated move ∧ checkers ≠ ∅,
stalemate ⇔ no generated move ∧ checkers = ∅, ongoing otherwise (uses `len` exactness, C14).
Reading "generated moves" as "FIDE-legal moves" and "checkers ≠ ∅" as "in check" is C01 and C03;
`C04_full` is the composed statement and `C04_of_C01_C03` derives it from those two.
-/
namespace Chess.Props
open Chess.MoveGen

theorem C04_status_checkmate (T : Tables) (b : Board) :
    b.status T = .checkmate ↔ b.legalMoves T = [] ∧ b.checkers ≠ 0#64 := by
  unfold Board.status
  rw [C14_len_new]
  by_cases h : b.legalMoves T = [] <;> by_cases hc : b.checkers = 0#64 <;> simp [h, hc]

theorem C04_status_stalemate (T : Tables) (b : Board) :
    b.status T = .stalemate ↔ b.legalMoves T = [] ∧ b.checkers = 0#64 := by
  unfold Board.status
  rw [C14_len_new]
  by_cases h : b.legalMoves T = [] <;> by_cases hc : b.checkers = 0#64 <;> simp [h, hc]

theorem C04_status_ongoing (T : Tables) (b : Board) :
    b.status T = .ongoing ↔ b.legalMoves T ≠ [] := by
  unfold Board.status
  rw [C14_len_new]
  by_cases h : b.legalMoves T = [] <;> by_cases hc : b.checkers = 0#64 <;> simp [h, hc]

/-- the property at full strength, on the FIDE specification -/
def C04_full (T : Tables) (b : Board) : Prop :=
  (b.status T = .checkmate ↔ Chess.status b.abs = .checkmate) ∧
  (b.status T = .stalemate ↔ Chess.status b.abs = .stalemate) ∧
  (b.status T = .ongoing ↔ Chess.status b.abs = .ongoing)

/-- C04 follows from C01 (generated moves = FIDE-legal moves, as sets) and C03 (checkers ≠ ∅ ⇔ in check) -/
theorem C04_of_C01_C03 (T : Tables) (b : Board)
    (h01 : ∀ m, m ∈ b.legalMoves T ↔ Chess.legal b.abs m = true ∧ m ∈ Chess.candidates b.abs)
    (h03 : b.checkers ≠ 0#64 ↔ Chess.inCheck b.abs b.abs.stm = true) : C04_full T b := by
  have hany : (Chess.candidates b.abs).any (Chess.legal b.abs) = true ↔ b.legalMoves T ≠ [] := by
    rw [List.any_eq_true]
    constructor
    · rintro ⟨m, hm, hl⟩ he
      have := (h01 m).mpr ⟨hl, hm⟩
      rw [he] at this; cases this
    · intro hne
      cases hl : b.legalMoves T with
      | nil => exact absurd hl hne
      | cons m ms =>
        have := (h01 m).mp (by rw [hl]; simp)
        exact ⟨m, this.2, this.1⟩
  unfold C04_full Chess.status
  rw [C04_status_checkmate, C04_status_stalemate, C04_status_ongoing]
  by_cases hn : b.legalMoves T = []
  · have hf : (Chess.candidates b.abs).any (Chess.legal b.abs) = false := by
      cases hh : (Chess.candidates b.abs).any (Chess.legal b.abs) with
      | false => rfl
      | true => exact absurd hn (hany.mp hh)
    by_cases hc : b.checkers = 0#64
    · have : Chess.inCheck b.abs b.abs.stm = false := by
        cases hh : Chess.inCheck b.abs b.abs.stm with
        | false => rfl
        | true => exact absurd hc (h03.mpr hh)
      simp [hn, hf, hc, this]
    · have : Chess.inCheck b.abs b.abs.stm = true := h03.mp hc
      simp [hn, hf, hc, this]
  · have ht : (Chess.candidates b.abs).any (Chess.legal b.abs) = true := hany.mpr hn
    simp [hn, ht]

end Chess.Props
