import ChessVerif.Lemmas.PinOKStep
import ChessVerif.Lemmas.FenBoard
import ChessVerif.Proofs.TablesOK
import ChessVerif.CodeTables
/-!
# C03 (incremental part) — a position reached by making moves equals the freshly computed one

`Board::make_move_new` does not call `update_pin_info`: it resets `pinned` / `checkers`, adds the direct
check of the man that has just moved (a knight, a pawn, a pawn promoted to a knight) and runs the slider
scan of `update_pin_info` for the new side to move.  `Board.PinOK T b := b.updatePinInfo T = b` says the
cached fields are the from-scratch ones.

* `C03_makeMove_pinOK_weak`: after a **pseudo-legal** move from a board with `Core`, the two side conditions
  of C02 (`EpSane`, `RightsSane`), exactly one king of the side not to move and that side not in check, the
  result satisfies `PinOK`.  These are the only clauses of `Valid` that are used; legality of the move is
  not needed.  `C03_makeMove_pinOK` is the instance for `Valid` positions and legal moves.
* `C03_board_determined`: two boards with `Core` and `PinOK` that describe the same position (same content,
  side, rights, ep square) are equal as records — all sixteen fields, hence Rust's derived `==`.
* `C03_reached_exact`: along every play (legal moves and null moves) from a board accepted by `try_from`
  whose position is `Valid`, every board reached satisfies `Core`, `PinOK`, `is_sane`, its `checkers` are
  exactly the attackers of the mover's king and its pinned own men exactly the absolutely pinned ones.
* `C03_reached_eq_fresh`, `C03_reached_tryFrom_toBuilder`, `C03_reached_fen_roundtrip`: such a board is
  equal to the board `try_from` builds from any builder state describing it, in particular from its own
  builder view, and `Board::from_str(board.to_string())` gives it back.
-/
namespace Chess.Props
open CheckPin PinStep

set_option maxRecDepth 100000

/-! ### 1. one move -/

/-- the slider scan is linear in its accumulator: starting from `(P, C)` xors `(P, C)` onto the result of
starting from `(0, 0)` -/
theorem C03_scan_linear (T : Tables) (comb : BB) (k : Sq) (l : List Sq) (P C : BB) :
    Board.sliderScan T comb k l (P, C) =
      ((Board.sliderScan T comb k l (0#64, 0#64)).1 ^^^ P, (Board.sliderScan T comb k l (0#64, 0#64)).2 ^^^ C) :=
  scan_linear T comb k l P C

/-- the clauses of `Valid` actually used: one king of the side not to move, that side not in check, and the
two side conditions of C02; the move only has to be pseudo-legal -/
theorem C03_makeMove_pinOK_weak (T : Tables) (hT : TablesOK T) (b : Board) (hc : Core T b) (m : Move)
    (hpl : pseudoLegal b.abs m = true) (hep : b.abs.EpSane) (hrs : b.abs.RightsSane)
    (hk1 : count b.abs (· == (.king, b.stm.other)) = 1) (hnc : inCheck b.abs b.stm.other = false)
    (b' : Board) (h : b.makeMoveNew T m = some b') : b'.PinOK T :=
  makeMove_pinOK hT hc hpl hep hrs hk1 hnc h

/-- **the incrementally maintained `pinned` / `checkers` are the from-scratch ones** -/
theorem C03_makeMove_pinOK (T : Tables) (hT : TablesOK T) (b : Board) (hc : Core T b)
    (hv : Valid b.abs = true) (m : Move) (hl : legal b.abs m = true) (b' : Board)
    (h : b.makeMoveNew T m = some b') : b'.PinOK T :=
  have hvp := (Closure.valid_iff _).mp hv
  makeMove_pinOK hT hc (Closure.legal_pseudo hl) (Valid_epSane hv) (Valid_rightsSane hv) (hvp.king _)
    hvp.notInCheck h

/-- with the tables of the code -/
theorem C03_makeMove_pinOK_code (b : Board) (hc : Core codeTables b) (hv : Valid b.abs = true) (m : Move)
    (hl : legal b.abs m = true) (b' : Board) (h : b.makeMoveNew codeTables m = some b') :
    b'.updatePinInfo codeTables = b' :=
  C03_makeMove_pinOK codeTables codeTables_ok b hc hv m hl b' h

/-! ### 2. a board is determined by its position -/

/-- two boards with consistent bitboards and hash (`Core`) and from-scratch caches (`PinOK`) that have the
same men, side to move, castling rights and ep square are equal (all sixteen fields) -/
theorem C03_board_determined (T : Tables) (b₁ b₂ : Board) (hc₁ : Core T b₁) (hc₂ : Core T b₂)
    (hp₁ : b₁.PinOK T) (hp₂ : b₂.PinOK T) (hcont : b₁.content = b₂.content) (hstm : b₁.stm = b₂.stm)
    (hw : b₁.wcr = b₂.wcr) (hb : b₁.bcr = b₂.bcr) (he : b₁.ep = b₂.ep) : b₁ = b₂ :=
  board_determined hc₁ hc₂ hp₁ hp₂ hcont hstm hw hb he

/-- the same, with "same position" as one equation -/
theorem C03_board_determined_abs (T : Tables) (b₁ b₂ : Board) (hc₁ : Core T b₁) (hc₂ : Core T b₂)
    (hp₁ : b₁.PinOK T) (hp₂ : b₂.PinOK T) (h : b₁.abs = b₂.abs) : b₁ = b₂ :=
  board_determined_abs hc₁ hc₂ hp₁ hp₂ h

/-! ### 3. along every play -/

/-- one step of the invariant: after a legal move, everything holds again and the position is the
specification's successor -/
theorem C03_step (T : Tables) (hT : TablesOK T) (b b' : Board) (m : Move) (hi : ReachInv T b)
    (hl : legal b.abs m = true) (h : b.makeMoveNew T m = some b') :
    ReachInv T b' ∧ b'.abs = norm (apply b.abs m) := hi.move hT hl h

/-- every board reached by legal moves and null moves from an accepted builder state holding a valid
position: structural invariant, from-scratch caches, valid position, `is_sane`, exact checkers, exact pins -/
theorem C03_reached_exact (T : Tables) (hT : TablesOK T) (b : Board) (h : Reached T b) :
    Core T b ∧ b.PinOK T ∧ Valid b.abs = true ∧ b.isSane T = true ∧
    (b.kings &&& b.colorCombined b.stm).popcnt = 1 ∧ KingsApart b ∧
    (∀ x : Sq, b.checkers.getLsbD x.val = checkerSq b.abs x) ∧
    (∀ y : Sq, (b.pinned &&& b.colorCombined b.stm).getLsbD y.val = pinnedSq b.abs y) :=
  have hi := h.inv hT
  ⟨hi.core, hi.pin, hi.valid, hi.isSane hT, hi.popcnt b.stm, hi.kingsApart, hi.checkers hT, hi.pinned hT⟩

/-- `checkers() == EMPTY` is "the side to move is not in check" on every reached board -/
theorem C03_reached_checkers_empty_iff (T : Tables) (hT : TablesOK T) (b : Board) (h : Reached T b) :
    b.checkers = 0#64 ↔ inCheck b.abs b.stm = false := by
  have hi := h.inv hT
  constructor
  · exact hi.not_inCheck_of_checkers hT
  · intro hn
    apply BitVec.eq_of_getLsbD_eq
    intro i hi'
    have := hi.checkers hT ⟨i, hi'⟩
    simp only at this
    rw [this, BitVec.getLsbD_zero]
    apply bool_false_of_not
    intro hx
    have e : inCheck b.abs b.abs.stm = allSq.any (checkerSq b.abs) := inCheck_eq_any_checkerSq b.abs
    have : inCheck b.abs b.abs.stm = true := by
      rw [e, List.any_eq_true]; exact ⟨⟨i, hi'⟩, mem_allSq _, hx⟩
    rw [show inCheck b.abs b.abs.stm = inCheck b.abs b.stm from rfl, hn] at this
    cases this

/-- a reached board is the board `try_from` builds from its own builder view -/
theorem C03_reached_tryFrom_toBuilder (T : Tables) (hT : TablesOK T) (b : Board) (h : Reached T b) :
    Board.tryFrom T b.toBuilder = some b := (h.inv hT).tryFrom_toBuilder hT

/-- **a position reached incrementally equals the same position freshly computed**: `try_from` applied to any
builder state describing the reached board (same men, side, rights, ep file) returns that very board -/
theorem C03_reached_eq_fresh (T : Tables) (hT : TablesOK T) (b : Board) (h : Reached T b) (bd : Builder)
    (hpieces : ∀ s, bd.pieces s = b.content s) (hstm : bd.stm = b.stm) (hw : bd.wcr = b.wcr)
    (hb : bd.bcr = b.bcr) (hepf : bd.epFile = b.ep.map Sq.getFile) : Board.tryFrom T bd = some b := by
  have e : bd = b.toBuilder := by
    obtain ⟨p, s, w, k, f⟩ := bd
    simp only at hpieces hstm hw hb hepf
    have hp : p = b.toBuilder.pieces := funext hpieces
    subst hp hstm hw hb hepf
    rfl
  rw [e]
  exact C03_reached_tryFrom_toBuilder T hT b h

/-- two reached boards with the same position are equal -/
theorem C03_reached_unique (T : Tables) (hT : TablesOK T) (b₁ b₂ : Board) (h₁ : Reached T b₁) (h₂ : Reached T b₂)
    (h : b₁.abs = b₂.abs) : b₁ = b₂ :=
  board_determined_abs (h₁.inv hT).core (h₂.inv hT).core (h₁.inv hT).pin (h₂.inv hT).pin h

/-- `Board::from_str(board.to_string())` gives a reached board back (closes
`C06_board_roundtrip_reachable_full` for valid starting positions and legal moves) -/
theorem C03_reached_fen_roundtrip (T : Tables) (hT : TablesOK T) (b : Board) (h : Reached T b) :
    parseBoard T (showBoard b) = .ok b :=
  parseBoard_showBoard T b.toBuilder b (C03_reached_tryFrom_toBuilder T hT b h)

/-! ### non-vacuity

White Ka1, Re1, Ne4; black Ke8, Pa7; white to move.  Ne4–d6 gives check with the knight and uncovers the
rook: after the move `checkers = {d6, e1}`. -/
def c03StepBd : Builder where
  pieces s := match s.val with
    | 0 => some (.king, .white) | 4 => some (.rook, .white) | 28 => some (.knight, .white)
    | 60 => some (.king, .black) | 48 => some (.pawn, .black)
    | _ => none
  stm := .white
  wcr := .noRights
  bcr := .noRights
  epFile := none

def c03StepMove : Move := ⟨28, 43, none⟩

theorem c03Step_facts :
    ((Board.tryFrom codeTables c03StepBd).map fun b =>
      Valid b.abs && legal b.abs c03StepMove &&
      (match b.makeMoveNew codeTables c03StepMove with
       | some b' => b'.checkers == (BB.ofSq 43 ||| BB.ofSq 4) && b'.pinned == 0#64
       | none => false)) = some true := by decide +kernel

/-- the hypotheses of `C03_makeMove_pinOK` (and of `C03_makeMove_pinOK_weak`) hold for this board and move,
and the conclusion is about a non-trivial `checkers` value (a double check) -/
example : ∃ b m b', Core codeTables b ∧ Valid b.abs = true ∧ legal b.abs m = true ∧
    b.makeMoveNew codeTables m = some b' ∧ b'.checkers = BB.ofSq 43 ||| BB.ofSq 4 ∧ b'.PinOK codeTables ∧
    Reached codeTables b' := by
  have hf := c03Step_facts
  cases ht : Board.tryFrom codeTables c03StepBd with
  | none => rw [ht] at hf; cases hf
  | some b =>
    rw [ht] at hf
    simp only [Option.map_some, Option.some.injEq, Bool.and_eq_true] at hf
    obtain ⟨⟨hv, hl⟩, hm⟩ := hf
    cases hmk : b.makeMoveNew codeTables c03StepMove with
    | none => rw [hmk] at hm; cases hm
    | some b' =>
      rw [hmk] at hm
      simp only [Bool.and_eq_true, beq_iff_eq] at hm
      have hc := (tryFrom_spec codeTables c03StepBd b ht).1
      exact ⟨b, c03StepMove, b', hc, hv, hl, hmk, hm.1,
        C03_makeMove_pinOK codeTables codeTables_ok b hc hv _ hl b' hmk,
        .move b b' _ (.start c03StepBd b ht hv) hl hmk⟩

/-- the hypotheses of `C03_board_determined` are satisfiable (any board accepted by `try_from`) -/
example : ∃ b, Core codeTables b ∧ b.PinOK codeTables ∧ Reached codeTables b := by
  have hf := c03Step_facts
  cases ht : Board.tryFrom codeTables c03StepBd with
  | none => rw [ht] at hf; cases hf
  | some b =>
    rw [ht] at hf
    simp only [Option.map_some, Option.some.injEq, Bool.and_eq_true] at hf
    exact ⟨b, (tryFrom_spec codeTables c03StepBd b ht).1, Board.PinOK.tryFrom ht,
      .start c03StepBd b ht hf.1.1⟩

end Chess.Props
