import ChessVerif.Lemmas.SanExec
import ChessVerif.Props.C12
/-!
# C12 (oracle) — the executable SAN oracle is the SAN specification

The correspondence driver judges the library's `ChessMove::from_san` with an executable oracle
(`Driver/Ops2.lean`: `isSpellingB`, `sanDenotes`; copied word for word in `Spec/SanExec.lean` as
`SanSpec.isSpellingB`, `SanSpec.sanDenotes`).  The specification of algebraic notation is the proposition
`SanSpec.IsSpelling p m s` (`Spec/San.lean`).  Here, for ALL positions, moves and texts:

* `C12_isSpellingB_iff`: on a legal move the oracle answers `true` exactly when the text is an admissible spelling;
* `C12_sanDenotes_iff`: the list the oracle returns holds exactly the moves the text is an admissible spelling of;
* `C12_isSpelling_unique`, `C12_sanDenotes_at_most_one`, `C12_sanDenotes_length_le_one`: a text is an admissible
  spelling of at most one legal move; the oracle's list is empty or a single move (so the driver's `match … with | [m]`
  loses nothing);
* `C12_sanDenotes_eq_singleton_iff`: the oracle returns `[m]` exactly when `s` is an admissible spelling of `m`.
-/
namespace Chess.Props
open Chess SanSpec

/-- **The executable oracle is exactly the specification.**  For every position `p`, every legal move `m` and every
text `s`: the oracle, run on the list of legal moves of `p`, accepts `s` for `m` iff `s` is an admissible spelling of
`m` in `p`. -/
theorem C12_isSpellingB_iff (p : Pos) (m : Move) (s : List Char) (hl : legal p m = true) :
    SanSpec.isSpellingB p (legalMoves p) m s = true ↔ SanSpec.IsSpelling p m s :=
  SanSpec.isSpellingB_iff s hl

/-- the same without the legality hypothesis: the oracle decides the part of `IsSpelling` after `legal p m = true` -/
theorem C12_isSpellingB_iff_legal_and (p : Pos) (m : Move) (s : List Char) :
    (legal p m = true ∧ SanSpec.isSpellingB p (legalMoves p) m s = true) ↔ SanSpec.IsSpelling p m s :=
  ⟨fun h => (SanSpec.isSpellingB_iff s h.1).mp h.2, fun h => ⟨h.1, (SanSpec.isSpellingB_iff s h.1).mpr h⟩⟩

/-- **The moves the oracle returns** for a text `s` in a position `p` are exactly the (legal) moves of which `s` is an
admissible spelling. -/
theorem C12_sanDenotes_iff (p : Pos) (m : Move) (s : List Char) :
    m ∈ SanSpec.sanDenotes p s ↔ SanSpec.IsSpelling p m s :=
  SanSpec.mem_sanDenotes_iff p m s

/-- **Uniqueness.**  A text is an admissible spelling of at most one legal move of a position (castling or not, any
disambiguation kinds, suffixes and ` e.p.` marks on either side). -/
theorem C12_isSpelling_unique (p : Pos) (m₁ m₂ : Move) (s : List Char)
    (h₁ : SanSpec.IsSpelling p m₁ s) (h₂ : SanSpec.IsSpelling p m₂ s) : m₁ = m₂ :=
  SanSpec.isSpelling_unique h₁ h₂

/-- any two members of the oracle's answer are equal -/
theorem C12_sanDenotes_at_most_one (p : Pos) (s : List Char) (m₁ m₂ : Move)
    (h₁ : m₁ ∈ SanSpec.sanDenotes p s) (h₂ : m₂ ∈ SanSpec.sanDenotes p s) : m₁ = m₂ :=
  SanSpec.isSpelling_unique ((SanSpec.mem_sanDenotes_iff p m₁ s).mp h₁) ((SanSpec.mem_sanDenotes_iff p m₂ s).mp h₂)

/-- the oracle's answer is the empty list or a single move (the list of legal moves has no repetition) -/
theorem C12_sanDenotes_length_le_one (p : Pos) (s : List Char) : (SanSpec.sanDenotes p s).length ≤ 1 :=
  SanSpec.sanDenotes_length_le_one p s

/-- the oracle answers `[m]` exactly when `s` is an admissible spelling of `m` -/
theorem C12_sanDenotes_eq_singleton_iff (p : Pos) (m : Move) (s : List Char) :
    SanSpec.sanDenotes p s = [m] ↔ SanSpec.IsSpelling p m s := by
  rw [← C12_sanDenotes_iff]
  constructor
  · intro h; rw [h]; exact List.mem_singleton.mpr rfl
  · intro h
    have hlen := C12_sanDenotes_length_le_one p s
    match hl : SanSpec.sanDenotes p s with
    | [] => rw [hl] at h; cases h
    | [a] => rw [hl] at h; rw [List.mem_singleton.mp h]
    | a :: b :: r => rw [hl] at hlen; simp at hlen

/-- the oracle answers `[]` exactly when `s` is an admissible spelling of no move -/
theorem C12_sanDenotes_eq_nil_iff (p : Pos) (s : List Char) :
    SanSpec.sanDenotes p s = [] ↔ ∀ m, ¬ SanSpec.IsSpelling p m s := by
  rw [List.eq_nil_iff_forall_not_mem]
  exact forall_congr' fun m => not_congr (C12_sanDenotes_iff p m s)

/-! ### the hypotheses are satisfiable: concrete positions -/
set_option maxRecDepth 100000

/-- `C12_isSpellingB_iff`, a promotion with check mark: White Ke1, Rh1, pawn e7; Black Ka8 -/
example : SanSpec.isSpellingB promoBoard.abs (legalMoves promoBoard.abs) ⟨52, 60, some .queen⟩ "e8Q+".toList = true :=
  (C12_isSpellingB_iff _ _ _ e8Q_isSpelling.1).mpr e8Q_isSpelling

/-- `C12_isSpellingB_iff`, castling -/
example : SanSpec.isSpellingB promoBoard.abs (legalMoves promoBoard.abs) ⟨4, 6, none⟩ "O-O#".toList = true :=
  (C12_isSpellingB_iff _ _ _ OO_isSpelling.1).mpr OO_isSpelling

/-- `C12_sanDenotes_iff`, `C12_sanDenotes_eq_singleton_iff` -/
example : (⟨52, 60, some .queen⟩ : Move) ∈ SanSpec.sanDenotes promoBoard.abs "e8Q+".toList :=
  (C12_sanDenotes_iff _ _ _).mpr e8Q_isSpelling
example : SanSpec.sanDenotes promoBoard.abs "e8Q+".toList = [⟨52, 60, some .queen⟩] :=
  (C12_sanDenotes_eq_singleton_iff _ _ _).mpr e8Q_isSpelling
example : SanSpec.sanDenotes promoBoard.abs "O-O#".toList = [⟨4, 6, none⟩] :=
  (C12_sanDenotes_eq_singleton_iff _ _ _).mpr OO_isSpelling

/-- `C12_isSpelling_unique` / `C12_sanDenotes_at_most_one`: nothing but e7-e8=Q is spelled `e8Q+` there -/
example (m : Move) (h : m ∈ SanSpec.sanDenotes promoBoard.abs "e8Q+".toList) : m = ⟨52, 60, some .queen⟩ :=
  C12_sanDenotes_at_most_one _ _ _ _ h ((C12_sanDenotes_iff _ _ _).mpr e8Q_isSpelling)

/-- the oracle evaluated by the kernel on the position with knights on b1 and f3 that both reach d2: `Nd2` is an
admissible spelling of no move (ambiguous), `Nbd2` and `Nb1d2` of Nb1-d2 only, `Nfd2` of Nf3-d2 only -/
theorem C12Exec_twoKnights_check : SanSpec.sanDenotes twoKnights.abs "Nd2".toList = [] ∧
    SanSpec.sanDenotes twoKnights.abs "Nbd2".toList = [⟨1, 11, none⟩] ∧
    SanSpec.sanDenotes twoKnights.abs "Nb1d2".toList = [⟨1, 11, none⟩] ∧
    SanSpec.sanDenotes twoKnights.abs "Nfd2".toList = [⟨21, 11, none⟩] := by
  decide +kernel

/-- hence, by `C12_sanDenotes_eq_nil_iff`, no move of that position has the admissible spelling `Nd2` -/
example (m : Move) : ¬ SanSpec.IsSpelling twoKnights.abs m "Nd2".toList :=
  (C12_sanDenotes_eq_nil_iff _ _).mp C12Exec_twoKnights_check.1 m

end Chess.Props
