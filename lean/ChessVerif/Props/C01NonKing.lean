import ChessVerif.Lemmas.Assemble
import ChessVerif.Props.C01Struct
import ChessVerif.Props.C03
import ChessVerif.Props.PinCheck
/-!
# C01 (non-king, non-en-passant part) — "legal move generation is exact"

`T` any table set with `TablesOK` (C16), `b` any `Board` with consistent bitboards (`Struct`), exactly one
king of the mover, the enemy king not adjacent (`KingsApart`), cached `checkers` / `pinned` as computed by
`update_pin_info` (`PinOK`; true of every board from `try_from`, `make_move`, `null_move`).
`p := b.abs`, `k := b.kingSquare b.stm`.

* `C01_nonking_exact` — for every move value `m` with `m.src ≠ k` that is not an en-passant capture:
  `m ∈ b.legalMoves T ↔ legal p m = true`;
* `C01_nonking_no_check`, `C01_nonking_single_check`, `C01_nonking_double_check` — the same per check
  regime of `enumerate_moves`, in terms of `Entries.IsMove`;
* `C01_nonking_entry` — one entry: destination bit ∧ promotion shape ↔ legal ∧ not en passant;
* `C01_nonking_dests`, `C01_checkMask_single`, `C01_check_regimes`, `C01_promoShape` — the pieces.

The only fact taken as a hypothesis is about the *other* entries of the list: `hepgen`, "a move produced
by an en-passant entry is an en-passant capture of the specification" (`Assemble.EpGenOK`).  It follows
from "the square behind the marked pawn is empty" (`C01_epGenOK_of_empty`), a clause of `epValid`, and
holds trivially when `b.ep = none`.  That the king entry has source `k` is by definition.

No discrepancy between model and specification was found in this part.
-/
namespace Chess.Props
open Chess.Entries Chess.MoveGen Chess.Assemble CheckPin

/-- the working context from the hypotheses of C03 -/
theorem C01_exact_ctx {T : Tables} (hT : TablesOK T) {b : Board} (hs : Struct b)
    (hk : (b.kings &&& b.colorCombined b.stm).popcnt = 1) (hkk : KingsApart b) (hp : b.PinOK T) :
    Exact T b := Exact.of_PinOK hT hs hk hkk hp

/-- **C01, non-king non-en-passant part.**  A move value whose source is not the mover's king square
and which is not an en-passant capture is generated iff it is legal. -/
theorem C01_nonking_exact {T : Tables} (hT : TablesOK T) {b : Board} (hs : Struct b)
    (hk : (b.kings &&& b.colorCombined b.stm).popcnt = 1) (hkk : KingsApart b) (hp : b.PinOK T)
    (hepgen : ∀ m : Move,
      (∃ epSq : Sq, b.ep = some epSq ∧ (epSources T b epSq).getLsbD m.src.val = true ∧
        legalEpMove T b m.src (epDest b epSq) = some true ∧ m.dst = epDest b epSq ∧ m.promo = none) →
      isEnPassant b.abs m = true) :
    ∀ m : Move, m.src ≠ b.kingSquare b.stm → isEnPassant b.abs m = false →
      (m ∈ b.legalMoves T ↔ legal b.abs m = true) :=
  fun m hsrc hep => nonking_exact (Exact.of_PinOK hT hs hk hkk hp) hepgen m hsrc hep

/-- the en-passant hypothesis from the one fact that needs validity: the square behind the marked pawn
is empty -/
theorem C01_epGenOK_of_empty {T : Tables} (hT : TablesOK T) {b : Board} (hs : Struct b)
    (hemp : ∀ epSq, b.ep = some epSq → b.abs.empty (epDest b epSq) = true) (m : Move) :
    (∃ epSq : Sq, b.ep = some epSq ∧ (epSources T b epSq).getLsbD m.src.val = true ∧
        legalEpMove T b m.src (epDest b epSq) = some true ∧ m.dst = epDest b epSq ∧ m.promo = none) →
      isEnPassant b.abs m = true :=
  epGenOK_of_empty hT hs hemp m

/-- without an en-passant mark there is no en-passant entry -/
theorem C01_epGenOK_of_none {T : Tables} {b : Board} (h : b.ep = none) (m : Move) :
    (∃ epSq : Sq, b.ep = some epSq ∧ (epSources T b epSq).getLsbD m.src.val = true ∧
        legalEpMove T b m.src (epDest b epSq) = some true ∧ m.dst = epDest b epSq ∧ m.promo = none) →
      isEnPassant b.abs m = true := by
  rintro ⟨q, hq, _⟩
  rw [h] at hq; cases hq

/-! ### the pieces -/

/-- (a) the three regimes of `enumerate_moves` are: no checker; exactly one checker, namely
`checkers.to_square()`; two different checkers -/
theorem C01_check_regimes {T : Tables} (hT : TablesOK T) {b : Board} (hs : Struct b)
    (hk : (b.kings &&& b.colorCombined b.stm).popcnt = 1) (hkk : KingsApart b) (hp : b.PinOK T) :
    (b.checkers = 0#64 ↔ ∀ x, checkerSq b.abs x = false) ∧
    (b.checkers.popcnt = 1 →
      checkerSq b.abs b.checkers.toSq = true ∧ ∀ y, checkerSq b.abs y = true → y = b.checkers.toSq) ∧
    (b.checkers ≠ 0#64 → b.checkers.popcnt ≠ 1 →
      ∃ x y, checkerSq b.abs x = true ∧ checkerSq b.abs y = true ∧ x ≠ y) :=
  have hC := C03_checkers_of_PinOK hT hs hk hkk hp
  ⟨checkers_zero_iff hC, single_checker hC, two_checkers hC⟩

/-- (b) the check mask with a single checker `x`: `x` or a square strictly between `x` and the king -/
theorem C01_checkMask_single {T : Tables} (hT : TablesOK T) {b : Board} (h1 : b.checkers.popcnt = 1) (d : Sq) :
    (T.between b.checkers.toSq (b.kingSquare b.stm) ^^^ b.checkers).getLsbD d.val = true ↔
      (d = b.checkers.toSq ∨ strictlyBetween b.checkers.toSq d (b.kingSquare b.stm) = true) :=
  checkMask_single_bit hT h1 d

/-- (c), (d) the destination set of the entry of a man other than the king is its pseudo-legal set cut
down by the pin / check filter `Assemble.filt` (pawns, knights, bishops, rooks, queens alike: the pinned
knight's "nothing" agrees with "stay on the line" because a knight's jump never does) -/
theorem C01_nonking_dests {T : Tables} (hT : TablesOK T) (b : Board) (ic : Bool) {pc : Piece}
    (hpc : pc ≠ .king) (src d : Sq) :
    (dests T b ic pc src).getLsbD d.val =
      ((pseudoLegals T pc src b.stm b.combined (~~~(b.colorCombined b.stm))).getLsbD d.val &&
        (if b.pinned.getLsbD src.val then (!ic && (T.line src (b.kingSquare b.stm)).getLsbD d.val)
         else (checkMask T b ic).getLsbD d.val)) :=
  dests_bit hT b ic hpc src d

/-- (c), (d) the filter is the condition of `PinCheck_A_no_check` / `PinCheck_B_single_check` -/
theorem C01_filter_spec {T : Tables} (hT : TablesOK T) {b : Board} (hs : Struct b)
    (hk : (b.kings &&& b.colorCombined b.stm).popcnt = 1) (hp : b.PinOK T)
    {src : Sq} {pc : Piece} (hsrc : b.content src = some (pc, b.stm)) (d : Sq) :
    (filt T b false src d = true ↔
      (pinnedSq b.abs src = false ∨ (Geom.line src (b.kingSquare b.stm)).getLsbD d.val = true)) ∧
    (b.checkers.popcnt = 1 → (filt T b true src d = true ↔
      (pinnedSq b.abs src = false ∧
        (d = b.checkers.toSq ∨ strictlyBetween b.checkers.toSq d (b.kingSquare b.stm) = true)))) :=
  have hP := C03_pinned_of_PinOK hT hs hk hp
  ⟨filt_noCheck_iff hT hs hP hsrc d, fun h1 => filt_singleCheck_iff hT hs hP h1 hsrc d⟩

/-- (f) the promotion shape of an entry as `Entries` and as `PseudoBits` write it -/
theorem C01_promoShape (b : Board) (pc : Piece) (m : Move) :
    PromoShape (promoFlag b pc m.src) m ↔ PseudoBits.emitShape pc m.src b.stm m.promo :=
  promoShape_iff_emit b pc m

/-- (g) a pseudo-legal move whose source is not the king square is a move of a man of the mover other
than the king, whose bit is in `own b pc` -/
theorem C01_nonking_man {b : Board} (hs : Struct b) (hk : (b.kings &&& b.colorCombined b.stm).popcnt = 1)
    {m : Move} (hpl : pseudoLegal b.abs m = true) (hsrc : m.src ≠ b.kingSquare b.stm) :
    ∃ pc : Piece, pc ≠ .king ∧ b.content m.src = some (pc, b.stm) ∧ (own b pc).getLsbD m.src.val = true := by
  obtain ⟨pc, h1, h2⟩ := man_of_pseudoLegal hs hk hpl hsrc
  exact ⟨pc, h1, h2, (own_bit_iff hs pc m.src).mpr h2⟩

/-- **one entry.**  In the regime the generator works in (`ic = false`, no checker; `ic = true`, one
checker), for the man of kind `pc ≠ king` on `m.src`: destination bit of its entry ∧ emitted promotion
shape ↔ legal ∧ not en passant. -/
theorem C01_nonking_entry {T : Tables} (hT : TablesOK T) {b : Board} (hs : Struct b)
    (hk : (b.kings &&& b.colorCombined b.stm).popcnt = 1) (hkk : KingsApart b) (hp : b.PinOK T)
    {ic : Bool} (hr : (ic = false ∧ b.checkers = 0#64) ∨ (ic = true ∧ b.checkers.popcnt = 1))
    {pc : Piece} {m : Move} (hpc : pc ≠ .king) (hsrc : b.content m.src = some (pc, b.stm)) :
    ((dests T b ic pc m.src).getLsbD m.dst.val = true ∧ PromoShape (promoFlag b pc m.src) m) ↔
      (legal b.abs m = true ∧ isEnPassant b.abs m = false) :=
  dests_iff_legal (Exact.of_PinOK hT hs hk hkk hp) hr hpc hsrc

/-! ### the three regimes separately (no en-passant hypothesis: about the ordinary entries only) -/

/-- no check: `m` is a move of an ordinary entry of a man other than the king iff it is a legal move
from a square other than the king's and not en passant -/
theorem C01_nonking_no_check {T : Tables} (hT : TablesOK T) {b : Board} (hs : Struct b)
    (hk : (b.kings &&& b.colorCombined b.stm).popcnt = 1) (hkk : KingsApart b) (hp : b.PinOK T)
    (h0 : b.checkers = 0#64) (m : Move) :
    (∃ pc : Piece, pc ≠ .king ∧ (own b pc).getLsbD m.src.val = true ∧
      (dests T b false pc m.src).getLsbD m.dst.val = true ∧ PromoShape (promoFlag b pc m.src) m) ↔
    (m.src ≠ b.kingSquare b.stm ∧ legal b.abs m = true ∧ isEnPassant b.abs m = false) :=
  isOrdinary_iff (Exact.of_PinOK hT hs hk hkk hp) (Or.inl ⟨rfl, h0⟩) m

/-- single check: the same with `in_check = true` -/
theorem C01_nonking_single_check {T : Tables} (hT : TablesOK T) {b : Board} (hs : Struct b)
    (hk : (b.kings &&& b.colorCombined b.stm).popcnt = 1) (hkk : KingsApart b) (hp : b.PinOK T)
    (h1 : b.checkers.popcnt = 1) (m : Move) :
    (∃ pc : Piece, pc ≠ .king ∧ (own b pc).getLsbD m.src.val = true ∧
      (dests T b true pc m.src).getLsbD m.dst.val = true ∧ PromoShape (promoFlag b pc m.src) m) ↔
    (m.src ≠ b.kingSquare b.stm ∧ legal b.abs m = true ∧ isEnPassant b.abs m = false) :=
  isOrdinary_iff (Exact.of_PinOK hT hs hk hkk hp) (Or.inr ⟨rfl, h1⟩) m

/-- double check: only king entries are generated, and indeed no other non-en-passant move is legal -/
theorem C01_nonking_double_check {T : Tables} (hT : TablesOK T) {b : Board} (hs : Struct b)
    (hk : (b.kings &&& b.colorCombined b.stm).popcnt = 1) (hkk : KingsApart b) (hp : b.PinOK T)
    (h0 : b.checkers ≠ 0#64) (h1 : b.checkers.popcnt ≠ 1) (m : Move)
    (hsrc : m.src ≠ b.kingSquare b.stm) (hep : isEnPassant b.abs m = false) :
    m ∉ b.legalMoves T ∧ legal b.abs m = false := by
  refine ⟨?_, double_check_illegal (Exact.of_PinOK hT hs hk hkk hp) h0 h1 hsrc hep⟩
  rw [C01S_mem_legalMoves_cases, if_neg h0, if_neg h1]
  rintro ⟨h, _⟩
  exact hsrc h

/-! ### non-vacuity -/

section Examples
set_option maxRecDepth 100000

/-- White Ke1, Re2, Nb1; black Ka8, Re8; white to move: no check, the rook on e2 is pinned -/
def c01NonKingExBd : Builder where
  pieces s := match s.val with
    | 4 => some (.king, .white) | 12 => some (.rook, .white) | 1 => some (.knight, .white)
    | 56 => some (.king, .black) | 60 => some (.rook, .black)
    | _ => none
  stm := .white
  wcr := .noRights
  bcr := .noRights
  epFile := none

theorem c01NonKingEx_facts : ((Board.tryFrom codeTables c01NonKingExBd).map fun b =>
    b.ep == none && b.checkers == 0#64 && b.kingSquare b.stm == 4 &&
    legal b.abs ⟨12, 28, none⟩ && !legal b.abs ⟨12, 8, none⟩ && legal b.abs ⟨1, 18, none⟩ &&
    !isEnPassant b.abs ⟨12, 28, none⟩ && !isEnPassant b.abs ⟨12, 8, none⟩ &&
    !isEnPassant b.abs ⟨1, 18, none⟩) = some true := by decide +kernel

/-- the hypotheses of `C01_nonking_exact` hold on a board built by `try_from` with the code's tables;
the theorem then decides membership in the generated list: Re2–e4 (along the pin line) and Nb1–c3 are
generated, Re2–a2 (leaving the pin line) is not -/
example : ∃ b : Board, TablesOK codeTables ∧ Struct b ∧ (b.kings &&& b.colorCombined b.stm).popcnt = 1 ∧
    KingsApart b ∧ b.PinOK codeTables ∧ b.ep = none ∧
    (⟨12, 28, none⟩ : Move) ∈ b.legalMoves codeTables ∧ (⟨1, 18, none⟩ : Move) ∈ b.legalMoves codeTables ∧
    (⟨12, 8, none⟩ : Move) ∉ b.legalMoves codeTables := by
  have h := c01NonKingEx_facts
  cases ht : Board.tryFrom codeTables c01NonKingExBd with
  | none => rw [ht] at h; cases h
  | some b =>
    rw [ht] at h
    simp only [Option.map_some, Option.some.injEq, Bool.and_eq_true, beq_iff_eq, Bool.not_eq_true'] at h
    obtain ⟨⟨⟨⟨⟨⟨⟨⟨hep, _⟩, hk4⟩, l1⟩, l2⟩, l3⟩, e1⟩, e2⟩, e3⟩ := h
    have hs := tryFrom_struct ht
    have hsane := tryFrom_isSane ht
    have hk := oneKing_of_sane (isSane_facts hsane) b.stm
    have hkk := kingsApart_of_isSane codeTables_ok hs hsane
    have hp := C03_pinOK_tryFrom ht
    have main := C01_nonking_exact codeTables_ok hs hk hkk hp (C01_epGenOK_of_none hep)
    refine ⟨b, codeTables_ok, hs, hk, hkk, hp, hep, ?_, ?_, ?_⟩
    · exact (main ⟨12, 28, none⟩ (by rw [hk4]; decide) e1).mpr l1
    · exact (main ⟨1, 18, none⟩ (by rw [hk4]; decide) e3).mpr l3
    · intro hm
      have := (main ⟨12, 8, none⟩ (by rw [hk4]; decide) e2).mp hm
      rw [l2] at this; cases this

/-- single check (the position of `C03`: White Ke1, Be2; black Ka8, Re8, Nf3): `popcnt checkers = 1`, so
`C01_nonking_single_check` applies; the pinned bishop cannot capture the checking knight -/
example : ∃ b : Board, Board.tryFrom codeTables exCheckPinBd = some b ∧ b.checkers.popcnt = 1 ∧
    (⟨12, 21, none⟩ : Move) ∉ b.legalMoves codeTables := by
  have h : ((Board.tryFrom codeTables exCheckPinBd).map fun b =>
      b.ep == none && b.checkers.popcnt == 1 && b.kingSquare b.stm == 4 &&
      !legal b.abs ⟨12, 21, none⟩ && !isEnPassant b.abs ⟨12, 21, none⟩) = some true := by decide +kernel
  cases ht : Board.tryFrom codeTables exCheckPinBd with
  | none => rw [ht] at h; cases h
  | some b =>
    rw [ht] at h
    simp only [Option.map_some, Option.some.injEq, Bool.and_eq_true, beq_iff_eq, Bool.not_eq_true'] at h
    obtain ⟨⟨⟨⟨hep, h1⟩, hk4⟩, l1⟩, e1⟩ := h
    have hs := tryFrom_struct ht
    have hsane := tryFrom_isSane ht
    have hk := oneKing_of_sane (isSane_facts hsane) b.stm
    have main := C01_nonking_exact codeTables_ok hs hk (kingsApart_of_isSane codeTables_ok hs hsane)
      (C03_pinOK_tryFrom ht) (C01_epGenOK_of_none hep)
    refine ⟨b, rfl, h1, fun hm => ?_⟩
    have := (main ⟨12, 21, none⟩ (by rw [hk4]; decide) e1).mp hm
    rw [l1] at this; cases this

end Examples

end Chess.Props
