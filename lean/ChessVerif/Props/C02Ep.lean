import ChessVerif.Lemmas.EpBounds
import ChessVerif.Props.C02
import ChessVerif.Props.C06
/-!
# C02 / C06 — when the en-passant opportunity is recorded, and what the FEN text shows of it

`Pos.ep = some s` means "the last move was a double pawn step landing on `s`" (`s` is the square OF the
pawn).  `apply` sets the mark after every double step; `norm` is the library's recording policy (keep the
mark only if a pawn of the side to move stands beside the pushed pawn) and `make_move_new` yields
`norm (apply position move)` (`C02_make_move_abs`).  This file proves the two bounds the property texts put
on that policy, for ALL positions and moves:

* upper bound ("recorded only immediately after a double pawn push that lands beside an enemy pawn"):
  `C02_ep_recorded_only_after_double_push`, `C02_ep_recorded_iff`, `C02_ep_recorded_is_fide_double_push`;
* lower bound ("always when that pawn can legally be captured en passant"):
  `C02_ep_recorded_when_pseudo_capturable`, `C02_ep_recorded_when_capturable`, `C02_norm_id_when_capturable`,
  `C02_ep_recorded_after_move_when_capturable`.  No hypothesis on the position is needed: a pawn move that
  changes file onto an empty square can only be the en-passant clause of `pseudoLegal`, and that clause puts
  the capturing pawn beside the marked one;
* the same two bounds for the code's `make_move_new` (`C02_model_…`) and for the text `Board`'s `Display`
  prints after such a move (`C06_fen_…`): the text decodes, by the independent standard-FEN decoder, to the
  very position of the board, so the en-passant field is `-` unless the move was a double push and is the
  passed-over square whenever a legal en-passant capture exists.
-/
namespace Chess.Props

/-! ### (A) upper bound, specification level -/

/-- (A) if the recording policy keeps a mark `s` after move `m`, then `m` was a double pawn step, `s` is its
destination, and a pawn of the side now to move stands on the same rank on an adjacent file.  All `p`, `m`,
`s`; `m` need not even be pseudo-legal. -/
theorem C02_ep_recorded_only_after_double_push (p : Pos) (m : Move) (s : Sq)
    (h : (norm (apply p m)).ep = some s) :
    isDoubleStep p m = true ∧ s = m.dst ∧
      ∃ t : Sq, t.rank = s.rank ∧ (t.file - s.file).natAbs = 1 ∧
        (apply p m).has t .pawn (apply p m).stm = true :=
  ep_recorded_only h

/-- (A') the bound is exact: the mark `s` is kept after `m` if and only if `m` is a double pawn step to `s`
and a pawn of the side now to move stands beside `s` -/
theorem C02_ep_recorded_iff (p : Pos) (m : Move) (s : Sq) :
    (norm (apply p m)).ep = some s ↔
      (isDoubleStep p m = true ∧ s = m.dst ∧
        ∃ t : Sq, t.rank = s.rank ∧ (t.file - s.file).natAbs = 1 ∧
          (apply p m).has t .pawn (apply p m).stm = true) :=
  ep_recorded_iff p m s

/-- (A'') for a pseudo-legal `m` the double step is the FIDE double push (a pawn of the mover, from its start
rank, two squares straight ahead), and the pawn beside the destination is an enemy pawn that stood there
before the move and still stands there after it -/
theorem C02_ep_recorded_is_fide_double_push (p : Pos) (m : Move) (s : Sq) (hpl : pseudoLegal p m = true)
    (h : (norm (apply p m)).ep = some s) :
    s = m.dst ∧ p.board m.src = some (.pawn, p.stm) ∧ m.dst.file = m.src.file ∧
      m.src.rank = p.stm.pawnRank ∧ m.dst.rank = p.stm.pawnRank + 2 * p.stm.fwd ∧
      ∃ t : Sq, t.rank = m.dst.rank ∧ (t.file - m.dst.file).natAbs = 1 ∧
        p.board t = some (.pawn, p.stm.other) ∧ (apply p m).board t = some (.pawn, p.stm.other) :=
  ep_recorded_shape hpl h

/-- without a double step nothing is recorded -/
theorem C02_ep_none_unless_double_push (p : Pos) (m : Move) (h : isDoubleStep p m = false) :
    (norm (apply p m)).ep = none :=
  norm_ep_none_of_none (apply_ep_none_of_not_double h)

/-! ### (B) lower bound, specification level -/

/-- (B, strong form) whenever an en-passant capture is pseudo-legal in `q` (no hypothesis on `q`), the
recording policy keeps the mark -/
theorem C02_ep_recorded_when_pseudo_capturable (q : Pos)
    (h : ∃ m, pseudoLegal q m = true ∧ isEnPassant q m = true) : (norm q).ep = q.ep ∧ q.ep.isSome = true := by
  obtain ⟨m, hpl, he⟩ := h
  exact ep_kept_of_pseudoLegal hpl he

/-- (B) whenever the rules allow an en-passant capture in `q`, the recording policy keeps the mark -/
theorem C02_ep_recorded_when_capturable (q : Pos)
    (h : ∃ m, legal q m = true ∧ isEnPassant q m = true) : (norm q).ep = q.ep ∧ q.ep.isSome = true := by
  obtain ⟨m, hl, he⟩ := h
  exact ep_kept_of_pseudoLegal (Closure.legal_pseudo hl) he

/-- (B') in that case the policy changes nothing at all: the recorded position is the position -/
theorem C02_norm_id_when_capturable (q : Pos)
    (h : ∃ m, pseudoLegal q m = true ∧ isEnPassant q m = true) : norm q = q := by
  obtain ⟨m, hpl, he⟩ := h
  exact norm_eq_of_pseudoLegal_ep hpl he

/-- (B'') after a move: if an en-passant capture is legal in the successor position, the mark recorded
after the move is the destination of that move (which was a double push) -/
theorem C02_ep_recorded_after_move_when_capturable (p : Pos) (m : Move)
    (h : ∃ m', legal (apply p m) m' = true ∧ isEnPassant (apply p m) m' = true) :
    (norm (apply p m)).ep = some m.dst ∧ (apply p m).ep = some m.dst ∧ isDoubleStep p m = true := by
  obtain ⟨h1, h2⟩ := C02_ep_recorded_when_capturable _ h
  cases he : (apply p m).ep with
  | none => rw [he] at h2; cases h2
  | some s =>
    obtain ⟨hd, hs⟩ := apply_ep_some he
    subst hs
    exact ⟨h1.trans he, rfl, hd⟩

/-! ### (C) the code's `make_move_new` -/

/-- (C1) `make_move_new` on a valid position with a legal move records an ep square `s` only if the move
was a double pawn step to `s` and a pawn of the side now to move stands beside `s` on the new board -/
theorem C02_model_ep_only_after_double_push (T : Tables) (hT : TablesOK T) (b : Board) (hc : Core T b)
    (m : Move) (hv : Valid b.abs = true) (hl : legal b.abs m = true) (b' : Board)
    (h : b.makeMoveNew T m = some b') (s : Sq) (hs : b'.abs.ep = some s) :
    isDoubleStep b.abs m = true ∧ s = m.dst ∧
      ∃ t : Sq, t.rank = s.rank ∧ (t.file - s.file).natAbs = 1 ∧ b'.abs.has t .pawn b'.abs.stm = true := by
  have e := (makeMoveNew_abs_valid hT hc hv (Closure.legal_pseudo hl) h).1
  rw [e] at hs ⊢
  exact ep_recorded_only hs

/-- (C1') the same for a pseudo-legal move under the two side conditions of `C02_make_move_abs` -/
theorem C02_model_ep_only_after_double_push_weak (T : Tables) (hT : TablesOK T) (b : Board) (hc : Core T b)
    (m : Move) (hpl : pseudoLegal b.abs m = true) (hep : b.abs.EpSane) (hrs : b.abs.RightsSane) (b' : Board)
    (h : b.makeMoveNew T m = some b') (s : Sq) (hs : b'.abs.ep = some s) :
    isDoubleStep b.abs m = true ∧ s = m.dst ∧
      ∃ t : Sq, t.rank = s.rank ∧ (t.file - s.file).natAbs = 1 ∧ b'.abs.has t .pawn b'.abs.stm = true := by
  have e := (makeMoveNew_abs_sane hT hc hep hrs hpl h).1
  rw [e] at hs ⊢
  exact ep_recorded_only hs

/-- (C1'') no double step, no ep square -/
theorem C02_model_ep_none_unless_double_push (T : Tables) (hT : TablesOK T) (b : Board) (hc : Core T b)
    (m : Move) (hv : Valid b.abs = true) (hl : legal b.abs m = true) (b' : Board)
    (h : b.makeMoveNew T m = some b') (hd : isDoubleStep b.abs m = false) : b'.abs.ep = none := by
  rw [(makeMoveNew_abs_valid hT hc hv (Closure.legal_pseudo hl) h).1]
  exact C02_ep_none_unless_double_push _ _ hd

/-- (C2) if the rules allow an en-passant capture in the successor position `apply b.abs m`, then
`make_move_new` records the mark: the new board's ep square is the successor's, namely the destination of
`m`; indeed the new board's position is the successor position itself, nothing dropped -/
theorem C02_model_ep_when_capturable (T : Tables) (hT : TablesOK T) (b : Board) (hc : Core T b)
    (m : Move) (hv : Valid b.abs = true) (hl : legal b.abs m = true) (b' : Board)
    (h : b.makeMoveNew T m = some b')
    (hcap : ∃ m', legal (apply b.abs m) m' = true ∧ isEnPassant (apply b.abs m) m' = true) :
    b'.abs.ep = (apply b.abs m).ep ∧ b'.abs.ep = some m.dst ∧ b'.abs = apply b.abs m := by
  have e := (makeMoveNew_abs_valid hT hc hv (Closure.legal_pseudo hl) h).1
  obtain ⟨m', hl', he'⟩ := hcap
  have hn := norm_eq_of_pseudoLegal_ep (Closure.legal_pseudo hl') he'
  have h3 := (C02_ep_recorded_after_move_when_capturable b.abs m ⟨m', hl', he'⟩).2.1
  rw [e, hn]
  exact ⟨rfl, h3, rfl⟩

/-- (C2') read on the new board alone: the capture that was legal in the successor position is legal on
the board `make_move_new` returns -/
theorem C02_model_ep_capture_still_legal (T : Tables) (hT : TablesOK T) (b : Board) (hc : Core T b)
    (m : Move) (hv : Valid b.abs = true) (hl : legal b.abs m = true) (b' : Board)
    (h : b.makeMoveNew T m = some b') (m' : Move)
    (hl' : legal (apply b.abs m) m' = true) (he' : isEnPassant (apply b.abs m) m' = true) :
    legal b'.abs m' = true ∧ isEnPassant b'.abs m' = true := by
  rw [(C02_model_ep_when_capturable T hT b hc m hv hl b' h ⟨m', hl', he'⟩).2.2]
  exact ⟨hl', he'⟩

/-! ### (D) the FEN text after a move -/

/-- (D0) a board whose ep mark is consistent (`Pos.EpSane`: an enemy pawn on its fourth rank …) prints a text
that the independent standard-FEN decoder maps to exactly the board's position; in particular the decoded
ep mark is the board's ep square -/
theorem C06_board_display_decodes_of_epSane (b : Board) (h : b.abs.EpSane) :
    Fen.decode (showBoard b) = some b.abs :=
  decode_showBoard_of_epSane h

/-- (D1) the text of the board returned by `make_move_new` (valid position, legal move) decodes to that
board's position, which is `norm (apply position move)`; its ep mark is the board's `ep` -/
theorem C06_fen_decodes_after_move (T : Tables) (hT : TablesOK T) (b : Board) (hc : Core T b)
    (m : Move) (hv : Valid b.abs = true) (hl : legal b.abs m = true) (b' : Board)
    (h : b.makeMoveNew T m = some b') :
    Fen.decode (showBoard b') = some b'.abs ∧ b'.abs = norm (apply b.abs m) := by
  obtain ⟨e, hs⟩ := makeMoveNew_abs_valid hT hc hv (Closure.legal_pseudo hl) h
  exact ⟨decode_showBoard_of_epSane hs, e⟩

/-- (D2) the en-passant field is `-` unless the last move was a double push: the decoded mark is `none`, and
the fourth space-separated field of the text is literally `-` -/
theorem C06_fen_ep_dash_unless_double_push (T : Tables) (hT : TablesOK T) (b : Board) (hc : Core T b)
    (m : Move) (hv : Valid b.abs = true) (hl : legal b.abs m = true) (b' : Board)
    (h : b.makeMoveNew T m = some b') (hd : isDoubleStep b.abs m = false) :
    (∃ q : Pos, Fen.decode (showBoard b') = some q ∧ q.ep = none) ∧
      (Str.splitSpace (showBoard b'))[3]? = some ['-'] := by
  have hn : b'.ep = none := C02_model_ep_none_unless_double_push T hT b hc m hv hl b' h hd
  refine ⟨⟨b'.abs, (C06_fen_decodes_after_move T hT b hc m hv hl b' h).1, hn⟩, ?_⟩
  apply (C06_display_ep_standard b'.toBuilder).1
  show b'.ep.map Sq.getFile = none
  rw [hn]; rfl

/-- (D3) the en-passant field is present whenever a legal en-passant capture exists: the decoded mark is
the successor position's mark `some m.dst`, and the fourth field of the text is the name of the square `e`
directly behind `m.dst` (the square the pawn passed over; rank 3 when Black is to move, rank 6 when White
is) -/
theorem C06_fen_ep_present_when_capturable (T : Tables) (hT : TablesOK T) (b : Board) (hc : Core T b)
    (m : Move) (hv : Valid b.abs = true) (hl : legal b.abs m = true) (b' : Board)
    (h : b.makeMoveNew T m = some b')
    (hcap : ∃ m', legal (apply b.abs m) m' = true ∧ isEnPassant (apply b.abs m) m' = true) :
    (∃ q : Pos, Fen.decode (showBoard b') = some q ∧ q.ep = (apply b.abs m).ep ∧ q.ep = some m.dst) ∧
      ∃ e : Sq, (Str.splitSpace (showBoard b'))[3]? = some (showSquare e) ∧
        e.getFile = m.dst.getFile ∧
        e.getRank = (match b'.stm with | .black => (2 : Fin 8) | .white => 5) ∧
        e.uforward b'.stm.other = m.dst := by
  obtain ⟨h1, h2, _⟩ := C02_model_ep_when_capturable T hT b hc m hv hl b' h hcap
  obtain ⟨hdec, _⟩ := C06_fen_decodes_after_move T hT b hc m hv hl b' h
  refine ⟨⟨b'.abs, hdec, h1, h2⟩, ?_⟩
  have hep : b'.ep = some m.dst := h2
  have hf : b'.toBuilder.epFile = some m.dst.getFile := by
    show b'.ep.map Sq.getFile = _
    rw [hep]; rfl
  obtain ⟨e, he1, he2, he3, he4⟩ := (C06_display_ep_standard b'.toBuilder).2 _ hf
  have hs := (makeMoveNew_abs_valid hT hc hv (Closure.legal_pseudo hl) h).2
  rw [Board.toBuilder_getEnPassant_of_epSane hs, hep] at he4
  injection he4 with he4
  exact ⟨e, he1, he2, he3, he4.symm⟩

/-! ### non-vacuity

After 1.e4 a6 2.e5 (Black to move, no ep mark) the move 2…d7–d5 is a double push landing beside the white
pawn on e5; the capture e5×d6 e.p. is then legal, and the mark is recorded.  2…h7–h5 is a double push with
no white pawn beside it: nothing is recorded.  2…Ng8–f6 is not a double push. -/

def c02EpBd : Builder where
  pieces s := match s.val with
    | 0 => some (.rook, .white) | 1 => some (.knight, .white) | 2 => some (.bishop, .white)
    | 3 => some (.queen, .white) | 4 => some (.king, .white) | 5 => some (.bishop, .white)
    | 6 => some (.knight, .white) | 7 => some (.rook, .white)
    | 8 => some (.pawn, .white) | 9 => some (.pawn, .white) | 10 => some (.pawn, .white)
    | 11 => some (.pawn, .white) | 36 => some (.pawn, .white) | 13 => some (.pawn, .white)
    | 14 => some (.pawn, .white) | 15 => some (.pawn, .white)
    | 56 => some (.rook, .black) | 57 => some (.knight, .black) | 58 => some (.bishop, .black)
    | 59 => some (.queen, .black) | 60 => some (.king, .black) | 61 => some (.bishop, .black)
    | 62 => some (.knight, .black) | 63 => some (.rook, .black)
    | 40 => some (.pawn, .black) | 49 => some (.pawn, .black) | 50 => some (.pawn, .black)
    | 51 => some (.pawn, .black) | 52 => some (.pawn, .black) | 53 => some (.pawn, .black)
    | 54 => some (.pawn, .black) | 55 => some (.pawn, .black)
    | _ => none
  stm := .black
  wcr := .both
  bcr := .both
  epFile := none

/-- the position as the Laws see it -/
def c02EpPos : Pos := ⟨c02EpBd.pieces, .black, fun _ => true, fun _ => true, none⟩

/-- d7–d5, h7–h5, Ng8–f6, and the reply e5×d6 -/
def c02EpD5 : Move := ⟨51, 35, none⟩
def c02EpH5 : Move := ⟨55, 39, none⟩
def c02EpNf6 : Move := ⟨62, 45, none⟩
def c02EpExd6 : Move := ⟨36, 43, none⟩

set_option maxRecDepth 100000 in
/-- specification level: (A) has a true hypothesis for d7–d5 (mark d5 recorded), (B) has a true hypothesis
in the successor (e5×d6 is legal and en passant); for h7–h5 the mark is set by `apply` and dropped by `norm`;
for Ng8–f6 there is none -/
theorem c02Ep_spec_facts :
    (Valid c02EpPos && legal c02EpPos c02EpD5 && isDoubleStep c02EpPos c02EpD5 &&
      ((norm (apply c02EpPos c02EpD5)).ep == some 35) &&
      legal (apply c02EpPos c02EpD5) c02EpExd6 && isEnPassant (apply c02EpPos c02EpD5) c02EpExd6 &&
      legal c02EpPos c02EpH5 && ((apply c02EpPos c02EpH5).ep == some 39) &&
      ((norm (apply c02EpPos c02EpH5)).ep == none) &&
      legal c02EpPos c02EpNf6 && !isDoubleStep c02EpPos c02EpNf6) = true := by decide +kernel

example : ∃ p m s, (norm (apply p m)).ep = some s ∧ pseudoLegal p m = true := by
  have h := c02Ep_spec_facts
  simp only [Bool.and_eq_true, beq_iff_eq] at h
  exact ⟨c02EpPos, c02EpD5, 35, h.1.1.1.1.1.1.1.2, Closure.legal_pseudo h.1.1.1.1.1.1.1.1.1.2⟩

example : ∃ q, (∃ m, legal q m = true ∧ isEnPassant q m = true) ∧ Valid c02EpPos = true := by
  have h := c02Ep_spec_facts
  simp only [Bool.and_eq_true, beq_iff_eq] at h
  exact ⟨apply c02EpPos c02EpD5, ⟨c02EpExd6, h.1.1.1.1.1.1.2, h.1.1.1.1.1.2⟩, h.1.1.1.1.1.1.1.1.1.1⟩

set_option maxRecDepth 100000 in
/-- model level, with the code's tables: `try_from` accepts the position, it is valid, the three moves are
legal; after d7–d5 `make_move_new` records d5, the reply e5×d6 is a legal en-passant capture in the
successor, and the printed text has the field `d6`; after h7–h5 and Ng8–f6 nothing is recorded and the field
is `-` -/
theorem c02Ep_model_facts :
    ((Board.tryFrom codeTables c02EpBd).map fun b =>
      Valid b.abs && legal b.abs c02EpD5 && legal b.abs c02EpH5 && legal b.abs c02EpNf6 &&
      isDoubleStep b.abs c02EpH5 && !isDoubleStep b.abs c02EpNf6 &&
      legal (apply b.abs c02EpD5) c02EpExd6 && isEnPassant (apply b.abs c02EpD5) c02EpExd6 &&
      (match b.makeMoveNew codeTables c02EpD5 with
       | some b' => b'.ep == some 35 &&
          showBoard b' == "rnbqkbnr/1pp1pppp/p7/3pP3/8/8/PPPP1PPP/RNBQKBNR w KQkq d6 0 1".toList
       | none => false) &&
      (match b.makeMoveNew codeTables c02EpH5 with
       | some b' => b'.ep == none &&
          showBoard b' == "rnbqkbnr/1pppppp1/p7/4P2p/8/8/PPPP1PPP/RNBQKBNR w KQkq - 0 1".toList
       | none => false) &&
      (match b.makeMoveNew codeTables c02EpNf6 with
       | some b' => b'.ep == none &&
          showBoard b' == "rnbqkb1r/1ppppppp/p4n2/4P3/8/8/PPPP1PPP/RNBQKBNR w KQkq - 0 1".toList
       | none => false)) = some true := by decide +kernel

/-- every hypothesis of the `C02_model_…` / `C06_fen_…` theorems holds for this board and d7–d5, including
"a legal en-passant capture exists in the successor"; the conclusion is about the non-trivial mark d5 -/
example : ∃ b m b', Core codeTables b ∧ Valid b.abs = true ∧ legal b.abs m = true ∧
    b.makeMoveNew codeTables m = some b' ∧
    (∃ m', legal (apply b.abs m) m' = true ∧ isEnPassant (apply b.abs m) m' = true) ∧
    b'.abs.ep = some 35 := by
  have hf := c02Ep_model_facts
  cases ht : Board.tryFrom codeTables c02EpBd with
  | none => rw [ht] at hf; cases hf
  | some b =>
    rw [ht] at hf
    simp only [Option.map_some, Option.some.injEq, Bool.and_eq_true] at hf
    obtain ⟨⟨⟨⟨⟨⟨⟨⟨⟨⟨hv, hl⟩, _⟩, _⟩, _⟩, _⟩, hl'⟩, he'⟩, hm⟩, _⟩, _⟩ := hf
    cases hmk : b.makeMoveNew codeTables c02EpD5 with
    | none => rw [hmk] at hm; cases hm
    | some b' =>
      rw [hmk] at hm
      simp only [Bool.and_eq_true, beq_iff_eq] at hm
      exact ⟨b, c02EpD5, b', (tryFrom_spec codeTables c02EpBd b ht).1, hv, hl, hmk, ⟨c02EpExd6, hl', he'⟩, hm.1⟩

/-- and of `C06_fen_ep_dash_unless_double_push`: Ng8–f6 is legal and not a double step -/
example : ∃ b m b', Core codeTables b ∧ Valid b.abs = true ∧ legal b.abs m = true ∧
    b.makeMoveNew codeTables m = some b' ∧ isDoubleStep b.abs m = false := by
  have hf := c02Ep_model_facts
  cases ht : Board.tryFrom codeTables c02EpBd with
  | none => rw [ht] at hf; cases hf
  | some b =>
    rw [ht] at hf
    simp only [Option.map_some, Option.some.injEq, Bool.and_eq_true, Bool.not_eq_true'] at hf
    obtain ⟨⟨⟨⟨⟨⟨⟨⟨⟨⟨hv, _⟩, _⟩, hl⟩, _⟩, hnd⟩, _⟩, _⟩, _⟩, _⟩, hm⟩ := hf
    cases hmk : b.makeMoveNew codeTables c02EpNf6 with
    | none => rw [hmk] at hm; cases hm
    | some b' => exact ⟨b, c02EpNf6, b', (tryFrom_spec codeTables c02EpBd b ht).1, hv, hl, hmk, hnd⟩

end Chess.Props
