import ChessVerif.CodeTables
import ChessVerif.Basic
/-!
# C07 / C15 — the unchecked `BMI_MOVES` reads of the `+bmi2` build stay inside the generated array

`get_rook_moves_bmi` / `get_bishop_moves_bmi` (`magic.rs`) read `BMI_MOVES[offset + pext(occ, mask)]`
with `get_unchecked`.  `pext` gathers the bits of `occ` at the set positions of `mask` into the low
bits, so its value is below `2 ^ popcount(mask)` for EVERY occupancy; the generated offsets leave that
much room for every slider and square (checked by the kernel on the tables extracted from the current
build of /repo, whenever the `+bmi2` tables were extracted at all: `Gen.haveBmi`).
Companion of `Props/C07Bounds.lean` (the magic-multiplication tables).
-/
namespace Chess.Props
set_option maxRecDepth 100000

/-- one step of the fold that defines `pext` keeps the accumulator below `2 ^ n` as long as the bit it
sets has index `< n` -/
theorem pext_fold_lt (x : BB) (n : Nat) :
    ∀ (l : List (Nat × Nat)) (acc : BB), (∀ p ∈ l, p.2 < n) → acc.toNat < 2 ^ n →
      (l.foldl (fun acc (p : Nat × Nat) => if x.getLsbD p.1 then acc ||| (1#64 <<< p.2) else acc) acc).toNat
        < 2 ^ n
  | [], acc, _, ha => ha
  | p :: l, acc, hl, ha => by
    rw [List.foldl_cons]
    apply pext_fold_lt x n l _ (fun q hq => hl q (List.mem_cons_of_mem _ hq))
    split
    · rw [BitVec.toNat_or]
      apply Nat.or_lt_two_pow ha
      rw [BitVec.toNat_shiftLeft]
      have hp : p.2 < n := hl p (List.mem_cons_self ..)
      have h1 : (1#64).toNat <<< p.2 = 2 ^ p.2 := by
        show 1 <<< p.2 = 2 ^ p.2
        exact Nat.one_shiftLeft _
      rw [h1]
      exact Nat.lt_of_le_of_lt (Nat.mod_le _ _) (Nat.pow_lt_pow_right (by decide) hp)
    · exact ha

/-- (i) `_pext_u64(x, mask) < 2 ^ popcount(mask)`, for all `x` and `mask` -/
theorem pext_lt (x mask : BB) :
    (pext x mask).toNat < 2 ^ ((List.range 64).filter (fun i => mask.getLsbD i)).length := by
  unfold pext
  apply pext_fold_lt
  · intro p hp
    have := List.snd_lt_of_mem_zipIdx hp
    simpa using this
  · show 0 < 2 ^ _
    exact Nat.pow_pos (by decide)

/-- the same with `BB.popcnt` (`u64::count_ones`) -/
theorem pext_lt_popcnt (x mask : BB) : (pext x mask).toNat < 2 ^ BB.popcnt mask := pext_lt x mask

/-- per (slider, square): `offset + 2 ^ popcount(mask) ≤ len(BMI_MOVES)` -/
def bmiBoundsOK (r : Raw) : Bool :=
  (List.range 64).all fun i =>
    decide ((word r.bmiOffsetsR i).toNat + 2 ^ BB.popcnt (word r.bmiMasksR i) ≤ r.bmiLen) &&
    decide ((word r.bmiOffsetsB i).toNat + 2 ^ BB.popcnt (word r.bmiMasksB i) ≤ r.bmiLen)

/-- (ii) the table fact, re-checked by the kernel whenever the data changes; vacuous only when the
`+bmi2` tables were not extracted (then `get_*_moves_bmi` is not compiled either) -/
theorem C07_bmi_bounds_table : Gen.haveBmi = false ∨ bmiBoundsOK codeRaw = true := by decide +kernel

/-- (iii) C07/C15: for every slider, square and occupancy the `BMI_MOVES` read is in bounds -/
theorem C07_bmi_read_in_bounds (hb : Gen.haveBmi = true) (bishop : Bool) (s : Sq) (occ : BB) :
    (word (if bishop then codeRaw.bmiOffsetsB else codeRaw.bmiOffsetsR) s.val).toNat +
      (pext occ (word (if bishop then codeRaw.bmiMasksB else codeRaw.bmiMasksR) s.val)).toNat
      < codeRaw.bmiLen := by
  have ht : bmiBoundsOK codeRaw = true := by
    rcases C07_bmi_bounds_table with h | h
    · rw [hb] at h; cases h
    · exact h
  have h := List.all_eq_true.mp ht s.val (List.mem_range.mpr s.isLt)
  simp only [Bool.and_eq_true, decide_eq_true_eq] at h
  cases bishop
  · have := pext_lt_popcnt occ (word codeRaw.bmiMasksR s.val)
    simp only [Bool.false_eq_true, if_false]
    omega
  · have := pext_lt_popcnt occ (word codeRaw.bmiMasksB s.val)
    simp only [if_true]
    omega

/-- the mask used in (iii) is the one `Raw.bmiLookup` (the Model of `get_*_moves_bmi`) passes to `pext` -/
example (bishop : Bool) (s : Sq) (occ : BB) :
    codeRaw.bmiLookup bishop s occ =
      pdep (Raw.word16 ((if bishop then codeRaw.bmiSlicesB else codeRaw.bmiSlicesR).getD s.val 0)
        (pext occ (word (if bishop then codeRaw.bmiMasksB else codeRaw.bmiMasksR) s.val)).toNat)
        (word codeRaw.rays ((if bishop then 64 else 0) + s.val)) := rfl

/-! non-vacuity: the `+bmi2` tables are present in the current extraction, the bound is tight for a
rook on a1 (mask of 12 bits, all twelve relevant squares occupied) -/
example : Gen.haveBmi = true := by decide
example : bmiBoundsOK codeRaw = true := by decide +kernel
example : BB.popcnt (word codeRaw.bmiMasksR 0) = 12 ∧
    (pext (word codeRaw.bmiMasksR 0) (word codeRaw.bmiMasksR 0)).toNat = 2 ^ 12 - 1 := by decide +kernel
/-- the last slice ends exactly at the end of `BMI_MOVES` for some (slider, square) -/
example : (List.range 64).any (fun i =>
    (word codeRaw.bmiOffsetsR i).toNat + 2 ^ BB.popcnt (word codeRaw.bmiMasksR i) == codeRaw.bmiLen ||
    (word codeRaw.bmiOffsetsB i).toNat + 2 ^ BB.popcnt (word codeRaw.bmiMasksB i) == codeRaw.bmiLen) = true := by
  decide +kernel

#print axioms pext_lt
#print axioms C07_bmi_bounds_table
#print axioms C07_bmi_read_in_bounds

end Chess.Props
