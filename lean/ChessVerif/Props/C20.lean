import ChessVerif.Lemmas.BitBoard
/-!
# C20 — `BitBoard` behaves as a set of squares

A `BitBoard(u64)` is `BB = BitVec 64`; square `s` is a member iff bit `s` is set (`BB.has b s =
b.getLsbD s.val`).  `Spec.members b` is the ascending list of its members.  The model functions are
those of `ChessVerif/Basic.lean`: `BB.toList` (the `Iterator` impl: take `to_square`, xor it away,
at most 64 times), `BB.popcnt` (`u64::count_ones`), `BB.toSq` (`trailing_zeros`, masked with 63),
`BB.ofSq` (`1 << sq`), `BB.swapBytes` (`reverse_colors`), `BB.ofList` (or-ing `from_square`s).
Every statement quantifies over all 2^64 values.
-/
namespace Chess.Props

/-- iteration yields exactly the set squares, each once, in ascending order -/
theorem C20_iter_exact (b : BB) : b.toList = allSq.filter (fun s => b.getLsbD s.val) :=
  BB.toList_exact b

/-- the same, against the specification's name for the member list -/
theorem C20_iter_members (b : BB) : b.toList = Spec.members b := BB.toList_exact b

/-- `popcnt` is the number of member squares -/
theorem C20_popcnt_exact (b : BB) : b.popcnt = (allSq.filter fun s => b.getLsbD s.val).length :=
  BB.popcnt_eq_length_members b

/-- `to_square` of a non-empty board is its lowest member -/
theorem C20_to_square_lowest (b : BB) (h : b ≠ 0#64) :
    b.getLsbD b.toSq.val = true ∧ ∀ s : Sq, b.getLsbD s.val = true → b.toSq.val ≤ s.val := by
  rw [BB.toSq_val b h]
  exact ⟨BB.getLsbD_tz b h, fun s hs => BB.tz_le_of_getLsbD b s.val hs⟩

/-- `&`, `|`, `^`, `!` are intersection, union, symmetric difference, complement -/
theorem C20_and (a b : BB) (s : Sq) : (a &&& b).has s = (a.has s && b.has s) := by
  simp only [BB.has, BitVec.getLsbD_and]

theorem C20_or (a b : BB) (s : Sq) : (a ||| b).has s = (a.has s || b.has s) := by
  simp only [BB.has, BitVec.getLsbD_or]

theorem C20_xor (a b : BB) (s : Sq) : (a ^^^ b).has s = (a.has s != b.has s) := by
  simp only [BB.has, BitVec.getLsbD_xor]

theorem C20_not (a : BB) (s : Sq) : (~~~ a).has s = !a.has s := by
  simp only [BB.has, BitVec.getLsbD_not, s.isLt, decide_true, Bool.true_and]

/-- the raw bit-index forms of the pointwise laws (all indices; `~~~` only below 64) -/
theorem C20_pointwise (a b : BB) (i : Nat) :
    (a &&& b).getLsbD i = (a.getLsbD i && b.getLsbD i) ∧
    (a ||| b).getLsbD i = (a.getLsbD i || b.getLsbD i) ∧
    (a ^^^ b).getLsbD i = (a.getLsbD i != b.getLsbD i) ∧
    (i < 64 → (~~~ a).getLsbD i = !a.getLsbD i) := by
  refine ⟨BitVec.getLsbD_and .., BitVec.getLsbD_or .., BitVec.getLsbD_xor .., ?_⟩
  intro hi
  simp [hi]

/-- `from_square` then `to_square` is the identity on squares -/
theorem C20_from_to_square (s : Sq) : (BB.ofSq s).toSq = s := BB.toSq_ofSq s

/-- `to_square` then `from_square` is the identity on singletons -/
theorem C20_to_from_square (b : BB) (h : b.popcnt = 1) : BB.ofSq b.toSq = b := BB.ofSq_toSq b h

/-- `from_square s` is the singleton `{s}` -/
theorem C20_from_square_singleton (s t : Sq) : (BB.ofSq s).has t = decide (t = s) := by
  simp only [BB.has, BB.getLsbD_ofSq, Fin.ext_iff]

/-- `reverse_colors` (`swap_bytes`) flips the ranks: square `s` of the result is square `s ^ 56` -/
theorem C20_reverse_colors (b : BB) (s : Sq) :
    (BB.swapBytes b).getLsbD s.val = b.getLsbD (s.val ^^^ 56) := BB.getLsbD_swapBytes b s

/-- `s ^ 56` keeps the file and mirrors the rank -/
theorem C20_xor56_geometry (s : Sq) : (s.val ^^^ 56) % 8 = s.val % 8 ∧ (s.val ^^^ 56) / 8 = 7 - s.val / 8 := by
  rw [BB.xor56]; omega

/-- a board built from a list of squares has exactly those members -/
theorem C20_ofList_mem (l : List Sq) (s : Sq) : (BB.ofList l).getLsbD s.val = decide (s ∈ l) :=
  BB.getLsbD_ofList l s

/-! non-vacuity: concrete boards meeting the hypotheses -/
example : (0x8100000000000081#64 : BB) ≠ 0#64 ∧ BB.toSq 0x8100000000000081#64 = (⟨0, by decide⟩ : Sq) := by decide
example : (BB.ofSq ⟨27, by decide⟩).popcnt = 1 := by decide
example : BB.toList 0x8100000000000081#64 = ([⟨0, by decide⟩, ⟨7, by decide⟩, ⟨56, by decide⟩, ⟨63, by decide⟩] : List Sq) := by
  decide
example : BB.swapBytes 0x00000000000000FF#64 = 0xFF00000000000000#64 := by decide

end Chess.Props
