import ChessVerif.Lemmas.Sane
import ChessVerif.Props.TextTotal
import ChessVerif.Props.C10NoPanic
import ChessVerif.Proofs.TablesOK
/-!
# C07 — converting text or a builder state into a position

`parseBoard` models `Board::from_str`, `Board.tryFrom` models `Board::try_from(&BoardBuilder)`
(`ChessVerif/Model/Text.lean`, `ChessVerif/Model/Board.lean`); panics are the `.panic` value of `Res`
and `none` of the `Option`-valued model functions that contain an `unwrap`.  The abstract position of
an accepted board is `Board.abs` (`ChessVerif/Refine/Abs.lean`), the rules are `ChessVerif/Spec/Rules.lean`.

All statements are for every table set `T`; `TablesOK T` ("every look-up table has its geometric
content", proved for the tables of the code in C16) is assumed only where a table's content matters.

Parts:
1. totality (no panic path);
2. the structural invariant `Struct` of every accepted board; what `is_sane` itself checks of it;
3. acceptance soundness (kings, men, castling rights, en-passant mark, non-mover not in check);
4. capacity of the 18-slot move list, and application of generated moves;
5. acceptance completeness — stated (`C07_accept_complete_full`) and reduced to the two check-detection
   clauses of `is_sane` here; those, and (e) of part 3 on the rules, are proved in `Props/C07Full.lean`.
-/
namespace Chess.Props
open Chess Chess.GameExamples

/-! ### 1. no panic -/

/-- `Board::from_str` never panics, whatever the text -/
theorem C07_parse_total (T : Tables) (s : List Char) : parseBoard T s ≠ .panic :=
  parseBoard_ne_panic T s (parseBuilder_total s)

/-- `Board::try_from(&BoardBuilder)` has no panic path: for every builder state it builds the candidate
board `tryFromPre` (placement loop, side, en-passant mark, rights, pin info — all total) and returns it
iff `is_sane` accepts it -/
theorem C07_tryFrom_total (T : Tables) (bd : Builder) :
    Board.tryFrom T bd = if (tryFromPre T bd).isSane T then some (tryFromPre T bd) else none :=
  tryFrom_eq T bd

/-- text is accepted iff it scans to a builder state that `try_from` accepts -/
theorem C07_parse_ok_iff (T : Tables) (s : List Char) (b : Board) :
    parseBoard T s = .ok b ↔ ∃ bd, parseBuilder s = .ok bd ∧ Board.tryFrom T bd = some b :=
  parseBoard_ok_iff T s b

/-! ### 2. the structural invariant -/

/-- every accepted board: piece boards pairwise disjoint, colour boards disjoint, `combined` is both the
union of the colour boards and the union of the piece boards; the raw hash is the placement hash -/
theorem C07_accepted_core {T : Tables} {bd : Builder} {b : Board} (h : Board.tryFrom T bd = some b) :
    Core T b := (tryFrom_spec T bd b h).1

theorem C07_accepted_struct {T : Tables} {bd : Builder} {b : Board} (h : Board.tryFrom T bd = some b) :
    Struct b := tryFrom_struct h

/-- every accepted board holds exactly the builder's men, side and rights -/
theorem C07_accepted_content {T : Tables} {bd : Builder} {b : Board} (h : Board.tryFrom T bd = some b) :
    b.abs.board = bd.pieces ∧ b.abs.stm = bd.stm ∧
    (∀ c, b.abs.castleK c = (bd.castleRights c).ks) ∧ (∀ c, b.abs.castleQ c = (bd.castleRights c).qs) := by
  obtain ⟨_, h2, h3, h4, h5, _⟩ := tryFrom_spec T bd b h
  refine ⟨h2, h3, ?_, ?_⟩ <;> intro c <;> cases c <;>
    simp only [Board.abs, Board.castleRights, Builder.castleRights, h4, h5]

/-- `is_sane` alone gives `Struct` up to the clause it does not test (`white | black = combined`) -/
theorem C07_isSane_struct {T : Tables} {b : Board} (h : b.isSane T = true)
    (hc : ∀ i, b.combined.getLsbD i = (b.white.getLsbD i || b.black.getLsbD i)) : Struct b :=
  isSane_struct_of_comb_color h hc

/-- two bare kings (e1, e8) plus a stray bit on e3 in the white colour board -/
def strayBoard : Board :=
  { Board.blank with kings := 0x1000000000000010#64, white := 0x100010#64, black := 0x1000000000000000#64,
                     combined := 0x1000000000000010#64 }

set_option maxRecDepth 100000 in
/-- … and that clause is really missing: `is_sane` (real tables) accepts a board whose white colour board
has a bit outside `combined`.  (Such a board cannot come out of `try_from`: `C07_accepted_struct`.) -/
theorem C07_isSane_not_struct : strayBoard.isSane codeTables = true ∧ ¬ Struct strayBoard := by
  refine ⟨by decide +kernel, fun h => ?_⟩
  have := h.comb_color 20
  revert this
  decide

/-! ### 3. acceptance soundness -/

/-- (a) exactly one king of each colour -/
theorem C07_one_king_each {T : Tables} {bd : Builder} {b : Board} (h : Board.tryFrom T bd = some b) (c : Color) :
    count b.abs (· == (.king, c)) = 1 := by
  rw [(tryFrom_struct h).count_piece_color]
  cases c
  · exact (tryFrom_facts h).wking
  · exact (tryFrom_facts h).bking

/-- (b) at most 16 men of each colour -/
theorem C07_men_bounded {T : Tables} {bd : Builder} {b : Board} (h : Board.tryFrom T bd = some b) (c : Color) :
    count b.abs (·.2 == c) ≤ 16 := by
  rw [(tryFrom_struct h).count_color]
  cases c
  · exact (tryFrom_facts h).wmen
  · exact (tryFrom_facts h).bmen

/-- (c) every castling right is backed by king and rook on their home squares (squares named through the
model's `mkSq rank file`: e-file = 4, h-file = 7, a-file = 0) -/
theorem C07_rights_backed_squares {T : Tables} (hT : TablesOK T) {bd : Builder} {b : Board}
    (h : Board.tryFrom T bd = some b) (c : Color) :
    ((b.castleRights c).ks = true →
      b.abs.has (mkSq c.backrank 4) .king c = true ∧ b.abs.has (mkSq c.backrank 7) .rook c = true) ∧
    ((b.castleRights c).qs = true →
      b.abs.has (mkSq c.backrank 4) .king c = true ∧ b.abs.has (mkSq c.backrank 0) .rook c = true) := by
  have hs := tryFrom_struct h
  have hf := tryFrom_facts h
  exact ⟨fun hk => ⟨hf.king_home hT hs c (.inl hk), (hf.rook_home hs c).1 hk⟩,
         fun hq => ⟨hf.king_home hT hs c (.inr hq), (hf.rook_home hs c).2 hq⟩⟩

/-- (c) in the wording of `Valid` (`Spec/Rules.lean`) -/
theorem C07_rights_backed {T : Tables} (hT : TablesOK T) {bd : Builder} {b : Board}
    (h : Board.tryFrom T bd = some b) (c : Color) :
    (b.abs.castleK c = true →
      (homeSq c 4).any (b.abs.has · .king c) = true ∧ (homeSq c 7).any (b.abs.has · .rook c) = true) ∧
    (b.abs.castleQ c = true →
      (homeSq c 4).any (b.abs.has · .king c) = true ∧ (homeSq c 0).any (b.abs.has · .rook c) = true) := by
  rw [homeSq_king, homeSq_rook_h, homeSq_rook_a]
  exact C07_rights_backed_squares hT h c

/-- (c') the rook half needs no table: `unmoved_rooks` is computed from rank and file -/
theorem C07_rights_backed_rook {T : Tables} {bd : Builder} {b : Board} (h : Board.tryFrom T bd = some b) (c : Color) :
    ((b.castleRights c).ks = true → b.abs.has (mkSq c.backrank 7) .rook c = true) ∧
    ((b.castleRights c).qs = true → b.abs.has (mkSq c.backrank 0) .rook c = true) :=
  (tryFrom_facts h).rook_home (tryFrom_struct h) c

/-- (d) a recorded en-passant mark is the square of a pawn of the side that just moved, standing on that
side's fourth rank (= its double-push rank `pawnRank + 2·fwd` of the Spec), on the builder's file -/
theorem C07_ep_refers_to_pawn {T : Tables} {bd : Builder} {b : Board} (h : Board.tryFrom T bd = some b) (q : Sq)
    (hq : b.ep = some q) :
    b.abs.has q .pawn b.stm.other = true ∧ q.getRank = b.stm.other.fourthRank ∧
    q.rank = b.stm.other.pawnRank + 2 * b.stm.other.fwd ∧ bd.epFile = some q.getFile := by
  obtain ⟨h1, h2⟩ := tryFrom_ep_rank h q hq
  exact ⟨(tryFrom_facts h).ep_pawn (tryFrom_struct h) q hq, h1, fourthRank_spec _ _ h1, h2⟩

/-- (e) full statement: the side not to move is not in check (rules of `Spec/Rules.lean`).  Its proof needs
the geometric reading of `update_pin_info`'s check detection: `C07_nonmover_not_in_check_holds` in
`Props/C07Full.lean`. -/
def C07_nonmover_not_in_check_full : Prop :=
  ∀ (T : Tables), TablesOK T → ∀ (bd : Builder) (b : Board), Board.tryFrom T bd = some b →
    inCheck b.abs b.stm.other = false

/-- (e, model level) the check detection of the code, run for the side not to move, reports no checker,
and no king stands next to the white king -/
theorem C07_nonmover_no_checkers {T : Tables} {bd : Builder} {b : Board} (h : Board.tryFrom T bd = some b) :
    (Board.updatePinInfo T { b with stm := b.stm.other }).checkers = 0#64 ∧
    T.king (b.kingSquare .white) &&& b.kings = 0#64 :=
  ⟨(tryFrom_facts h).nocheck, (tryFrom_facts h).kings_apart⟩

/-- (a)–(d) together, for text -/
theorem C07_parse_accept_sound {T : Tables} (hT : TablesOK T) {s : List Char} {b : Board}
    (h : parseBoard T s = .ok b) :
    (∀ c, count b.abs (· == (.king, c)) = 1) ∧ (∀ c, count b.abs (·.2 == c) ≤ 16) ∧
    (∀ c, (b.abs.castleK c = true →
        (homeSq c 4).any (b.abs.has · .king c) = true ∧ (homeSq c 7).any (b.abs.has · .rook c) = true) ∧
      (b.abs.castleQ c = true →
        (homeSq c 4).any (b.abs.has · .king c) = true ∧ (homeSq c 0).any (b.abs.has · .rook c) = true)) ∧
    (∀ q, b.abs.ep = some q → b.abs.has q .pawn b.abs.stm.other = true ∧
      q.rank = b.abs.stm.other.pawnRank + 2 * b.abs.stm.other.fwd) ∧
    (Board.updatePinInfo T { b with stm := b.stm.other }).checkers = 0#64 := by
  obtain ⟨bd, _, ht⟩ := (parseBoard_ok_iff T s b).mp h
  refine ⟨C07_one_king_each ht, C07_men_bounded ht, C07_rights_backed hT ht, ?_, (C07_nonmover_no_checkers ht).1⟩
  intro q hq
  have := C07_ep_refers_to_pawn ht q hq
  exact ⟨this.1, this.2.2.1⟩

/-! ### 4. capacity and safety of what is done with an accepted board -/

/-- `MoveList` has 18 slots filled with `push_unchecked`.  A board with consistent bitboards, at most 16 men
of the side to move and a king of that side never produces more than 18 entries. -/
theorem C07_enumerate_capacity {T : Tables} (hT : TablesOK T) {b : Board} (hs : Struct b)
    (hmen : (b.colorCombined b.stm).popcnt ≤ 16) (hk : (b.kings &&& b.colorCombined b.stm).popcnt = 1) :
    (MoveGen.enumerate T b).length ≤ 18 :=
  MoveGen.enumerate_length hT hs hmen (by omega)

/-- every accepted board stays within the 18 slots -/
theorem C07_accepted_capacity {T : Tables} (hT : TablesOK T) {bd : Builder} {b : Board}
    (h : Board.tryFrom T bd = some b) : (MoveGen.enumerate T b).length ≤ 18 := by
  have hf := tryFrom_facts h
  apply MoveGen.enumerate_length hT (tryFrom_struct h)
  · cases hc : b.stm
    · exact hf.wmen
    · exact hf.bmen
  · cases hc : b.stm
    · exact Nat.le_of_eq hf.wking.symm
    · exact Nat.le_of_eq hf.bking.symm

/-- without a table hypothesis: 16 entries for the men, plus one per square of the en-passant source set -/
theorem C07_legalsPawn_capacity (T : Tables) (ic : Bool) (l : List Entry) (b : Board) (mask : BB) :
    (MoveGen.legalsPawn T ic l b mask).length ≤ l.length + (b.pawns &&& b.colorCombined b.stm).popcnt +
      (match b.ep with
       | none => 0
       | some e => (T.ranks e.getRank &&& T.adjFiles e.getFile &&& (b.pawns &&& b.colorCombined b.stm)).popcnt) :=
  MoveGen.legalsPawn_length_ep T ic l b mask

/-- 16 white pawns (a2–h2, a4 b4 c4 g4 h4, d5 f5, a6), **no white king**; black pawn e5 (just double-pushed),
black king h8 -/
def noKingBoard : Board :=
  { Board.blank with pawns := 0x0138C700FF00#64, kings := 0x8000000000000000#64, white := 0x0128C700FF00#64,
                     black := 0x8000001000000000#64, combined := 0x80000138C700FF00#64, ep := some 36 }

set_option maxRecDepth 100000 in
/-- the king hypothesis of `C07_enumerate_capacity` cannot be dropped: with the real tables, a structurally
consistent board with 16 men of the side to move but no king of that side yields 19 entries (16 pawn pushes,
2 en-passant captures, and the "king" entry for the square `to_square` invents from the empty board) -/
theorem C07_capacity_needs_king : Struct noKingBoard ∧ (noKingBoard.colorCombined noKingBoard.stm).popcnt = 16 ∧
    (MoveGen.enumerate codeTables noKingBoard).length = 19 := by
  refine ⟨Struct.of_eqs' ?_ (by decide) (by decide) (by decide), by decide +kernel, by decide +kernel⟩
  intro x y hxy
  cases x <;> cases y <;> first | exact absurd rfl hxy | decide

/-- the `unwrap` of `legal_ep_move` cannot fail where the generator calls it (inside `if let Some(ep)`) -/
theorem C07_legalEpMove_no_panic (T : Tables) (b : Board) (s d : Sq) (h : b.ep.isSome = true) :
    (MoveGen.legalEpMove T b s d).isSome = true := legalEpMove_isSome T b s d h

/-- applying any generated move to an accepted board does not panic (C10) -/
theorem C07_make_generated_no_panic {T : Tables} {bd : Builder} {b : Board} (h : Board.tryFrom T bd = some b)
    (m : Move) (hm : m ∈ b.legalMoves T) : (b.makeMoveNew T m).isSome = true :=
  C10_legal_makeMove_some_of_isSane (tryFrom_isSane h) (by unfold Board.legal; simpa using hm)

/-! ### 5. completeness -/

/-- every valid position is accepted, and the accepted board describes it (with the en-passant mark kept
under the library's recording policy `norm`).  Proved below up to the two check-detection clauses of
`is_sane` (`C07_accept_complete_partial`, `C07_accept_complete_of_check_clauses`); in full as
`C07_accept_complete` in `Props/C07Full.lean`. -/
def C07_accept_complete_full : Prop :=
  ∀ (T : Tables), TablesOK T → ∀ p : Pos, Valid p = true →
    ∃ b, Board.tryFrom T p.toBuilder = some b ∧
      b.abs.board = (norm p).board ∧ b.abs.stm = (norm p).stm ∧
      (∀ c, b.abs.castleK c = (norm p).castleK c) ∧ (∀ c, b.abs.castleQ c = (norm p).castleQ c) ∧
      b.abs.ep = (norm p).ep

/-- what is left: on the candidate board of a valid position the code's check detection, run for the side
not to move, finds no checker, and no king stands next to the white king (`CheckClauses`, `Lemmas/Sane.lean`) -/
def C07_valid_passes_check_clauses_full : Prop :=
  ∀ (T : Tables), TablesOK T → ∀ p : Pos, Valid p = true → CheckClauses T (tryFromPre T p.toBuilder)

/-- a valid position whose candidate board passes the two check-detection clauses is accepted: every other
clause of `is_sane` (disjointness, unions, one king each, at most 16 men, en-passant pawn, rooks and king at
home for every right) follows from `Valid`, and the accepted board is `norm p` field by field -/
theorem C07_accept_complete_partial {T : Tables} (hT : TablesOK T) {p : Pos} (hv : Valid p = true)
    (hc : CheckClauses T (tryFromPre T p.toBuilder)) :
    ∃ b, Board.tryFrom T p.toBuilder = some b ∧
      b.abs.board = (norm p).board ∧ b.abs.stm = (norm p).stm ∧
      (∀ c, b.abs.castleK c = (norm p).castleK c) ∧ (∀ c, b.abs.castleQ c = (norm p).castleQ c) ∧
      b.abs.ep = (norm p).ep :=
  tryFrom_complete_partial hT hv hc

theorem C07_accept_complete_of_check_clauses (h : C07_valid_passes_check_clauses_full) :
    C07_accept_complete_full :=
  fun T hT p hv => C07_accept_complete_partial hT hv (h T hT p hv)

/-- `is_sane` is exactly the conjunction of its clauses (`SaneFacts`): nothing else can make `try_from` fail -/
theorem C07_isSane_iff (T : Tables) (b : Board) : b.isSane T = true ↔ SaneFacts T b := isSane_iff_facts

/-! ### non-vacuity: the hypotheses are satisfiable with the tables of the code -/

theorem Res.ok_of_match {α : Type} (r : Res α) (f : α → Bool)
    (h : (match r with | .ok b => f b | _ => false) = true) : ∃ b, r = .ok b ∧ f b = true := by
  cases r with
  | ok b => exact ⟨b, rfl, h⟩
  | err => cases h
  | panic => cases h

def startFen : List Char := "rnbqkbnr/pppppppp/8/8/8/8/PPPPPPPP/RNBQKBNR w KQkq - 0 1".toList
/-- black pawn on d4, White has just played e2-e4: the mark e4 is kept because the d4 pawn stands beside it -/
def epFen : List Char := "rnbqkbnr/ppp1pppp/8/8/3pP3/8/PPPP1PPP/RNBQKBNR b KQkq e3 0 1".toList

set_option maxRecDepth 100000 in
/-- the initial position is accepted from text, with its rights; 20 legal moves held in 10 entries -/
theorem C07_start_accepted : ∃ bd b, parseBuilder startFen = .ok bd ∧ Board.tryFrom codeTables bd = some b ∧
    (b.castleRights .white).ks = true ∧ (b.castleRights .black).qs = true ∧
    (b.legalMoves codeTables).length = 20 ∧ (MoveGen.enumerate codeTables b).length = 10 := by
  obtain ⟨b, hb, hf⟩ := Res.ok_of_match (parseBoard codeTables startFen)
    (fun b => (b.castleRights .white).ks && (b.castleRights .black).qs &&
      ((b.legalMoves codeTables).length == 20) && ((MoveGen.enumerate codeTables b).length == 10))
    (by decide +kernel)
  obtain ⟨bd, h1, h2⟩ := (parseBoard_ok_iff _ _ _).mp hb
  simp only [Bool.and_eq_true, beq_iff_eq] at hf
  exact ⟨bd, b, h1, h2, hf.1.1.1, hf.1.1.2, hf.1.2, hf.2⟩

set_option maxRecDepth 100000 in
/-- a position with a recorded en-passant mark (e4 = square 28) is accepted -/
theorem C07_ep_accepted : ∃ bd b, Board.tryFrom codeTables bd = some b ∧ b.ep = some 28 := by
  obtain ⟨b, hb, hf⟩ := Res.ok_of_match (parseBoard codeTables epFen) (fun b => b.ep == some 28) (by decide +kernel)
  obtain ⟨bd, _, h2⟩ := (parseBoard_ok_iff _ _ _).mp hb
  exact ⟨bd, b, h2, eq_of_beq hf⟩

set_option maxRecDepth 100000 in
/-- the builder state read off the initial `Board` value is accepted as well -/
example : (Board.tryFrom codeTables startBoard.toBuilder).isSome = true := by decide +kernel

/-- (a), (b), (c), capacity, application of generated moves: instantiated on the initial position -/
example : ∃ bd b, Board.tryFrom codeTables bd = some b ∧
    count b.abs (· == (.king, .white)) = 1 ∧ count b.abs (·.2 == .black) ≤ 16 ∧
    b.abs.has (mkSq 0 4) .king .white = true ∧ b.abs.has (mkSq 0 7) .rook .white = true ∧
    (MoveGen.enumerate codeTables b).length ≤ 18 ∧
    (∃ m, m ∈ b.legalMoves codeTables) ∧ (∀ m ∈ b.legalMoves codeTables, (b.makeMoveNew codeTables m).isSome = true) := by
  obtain ⟨bd, b, _, h, hk, _, hl, _⟩ := C07_start_accepted
  have hr := ((C07_rights_backed_squares codeTables_ok h .white).1 hk)
  refine ⟨bd, b, h, C07_one_king_each h .white, C07_men_bounded h .black, hr.1, hr.2,
    C07_accepted_capacity codeTables_ok h, ?_, fun m hm => C07_make_generated_no_panic h m hm⟩
  cases hlm : b.legalMoves codeTables with
  | nil => rw [hlm] at hl; cases hl
  | cons m _ => exact ⟨m, List.mem_cons_self⟩

/-- (d) instantiated: the mark of `epFen` is a white pawn on White's fourth rank -/
example : ∃ bd b q, Board.tryFrom codeTables bd = some b ∧ b.ep = some q ∧
    b.abs.has q .pawn b.stm.other = true ∧ q.getRank = b.stm.other.fourthRank := by
  obtain ⟨bd, b, h, hq⟩ := C07_ep_accepted
  have := C07_ep_refers_to_pawn h 28 hq
  exact ⟨bd, b, 28, h, hq, this.1, this.2.1⟩

/-- `C07_parse_total`, `C07_parse_accept_sound` on rejected and accepted text -/
example : parseBoard codeTables "8/8/8/8/8/8/8/8 w - - 0 1".toList = .err := by decide +kernel
example : ∃ b, parseBoard codeTables startFen = .ok b := by
  obtain ⟨bd, b, h1, h2, _⟩ := C07_start_accepted
  exact ⟨b, (parseBoard_ok_iff _ _ _).mpr ⟨bd, h1, h2⟩⟩

/-- `C07_enumerate_capacity` on the initial `Board` value -/
example : (MoveGen.enumerate codeTables startBoard).length ≤ 18 :=
  C07_enumerate_capacity codeTables_ok
    (Struct.of_eqs' (by intro x y hxy; cases x <;> cases y <;> first | exact absurd rfl hxy | decide)
      (by decide) (by decide) (by decide)) (by decide +kernel) (by decide +kernel)

set_option maxRecDepth 100000 in
/-- `C07_accept_complete_partial` on the initial position (as a `Pos`): it is valid, its candidate board
passes the check clauses under the real tables -/
example : ∃ b, Board.tryFrom codeTables startBoard.abs.toBuilder = some b ∧ b.abs.board = startBoard.abs.board :=
  have hv : Valid startBoard.abs = true := by decide +kernel
  have hc : CheckClauses codeTables (tryFromPre codeTables startBoard.abs.toBuilder) :=
    ⟨by decide +kernel, by decide +kernel⟩
  let ⟨b, h1, h2, _⟩ := C07_accept_complete_partial codeTables_ok hv hc
  ⟨b, h1, h2⟩

end Chess.Props
