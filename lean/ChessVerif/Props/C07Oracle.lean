import ChessVerif.Lemmas.OracleSound
import ChessVerif.Props.C01
/-!
# The driver's oracles can never flag the proved-correct model (C07 acceptance oracle, C03 check/pin oracle)

The compiled correspondence driver judges the library's answers with small executable oracles.  Two of
them are `acceptedOk` (`Spec/Accept.lean`, copy of `Driver.acceptedOk`: the four "only if" conditions of
C07 on an accepted position) and `wfOk` (`Spec/WfOracle.lean`: what `Driver.wfFindings` tests with
findings of kind 'O': consistent occupancy, exact `checkers`, exact mover's part of `pinned`).

The theorems here say that these oracles hold of the **model's own outputs** under the hypotheses of the
existing C07 / C03 / C01 theorems.  Hence, on a driver line whose input satisfies those hypotheses, an
oracle finding ('O') can only occur together with a model≠implementation finding ('M') on the same line:
if the implementation's answer equals the model's, the oracle passes.

No extra hypothesis was needed: every clause of `acceptedOk` is one of the soundness clauses (a), (c),
(d), (e) of C07 (`Props/C07.lean`, `Props/C07Full.lean`) in the wording of `Spec/Rules.lean`.
-/
namespace Chess.Props
open Chess OracleSound

/-! ### (b) the readable meaning of the acceptance oracle -/

/-- `acceptedOk p = none` says exactly: one king per side; the side not to move is not in check; every
castling right is backed by king and rook on their home squares; a recorded en-passant square holds a
pawn of the side that just moved, on that side's double-push rank -/
theorem C07_acceptedOk_none_iff (p : Pos) :
    acceptedOk p = none ↔
      (∀ c, count p (· == (.king, c)) = 1) ∧
      inCheck p p.stm.other = false ∧
      (∀ c, (p.castleK c = true →
          (homeSq c 4).any (p.has · .king c) = true ∧ (homeSq c 7).any (p.has · .rook c) = true) ∧
        (p.castleQ c = true →
          (homeSq c 4).any (p.has · .king c) = true ∧ (homeSq c 0).any (p.has · .rook c) = true)) ∧
      (∀ q, p.ep = some q →
        p.has q .pawn p.stm.other = true ∧ q.rank = p.stm.other.pawnRank + 2 * p.stm.other.fwd) := by
  rw [acceptedOk_none_iff]
  constructor
  · intro h; exact ⟨h.king, h.notInCheck, fun c => ⟨h.ck c, h.cq c⟩, h.ep⟩
  · rintro ⟨h1, h2, h3, h4⟩; exact ⟨h1, h2, fun c => (h3 c).1, fun c => (h3 c).2, h4⟩

/-- the oracle reports a reason iff one of the four conditions fails -/
theorem C07_acceptedOk_isSome_iff (p : Pos) :
    (acceptedOk p).isSome = true ↔ ¬ AcceptP p := by
  rw [← acceptedOk_none_iff]
  cases acceptedOk p <;> simp

/-! ### (a) every board the model accepts passes the acceptance oracle -/

/-- every board that the model's `try_from` accepts passes the acceptance oracle -/
theorem C07_acceptedOk_of_tryFrom {T : Tables} (hT : TablesOK T) {bd : Builder} {b : Board}
    (h : Board.tryFrom T bd = some b) : acceptedOk b.abs = none :=
  (acceptedOk_none_iff _).mpr (acceptP_of_tryFrom hT h)

/-- every board that the model's `from_str` accepts passes the acceptance oracle -/
theorem C07_acceptedOk_of_parse {T : Tables} (hT : TablesOK T) {s : List Char} {b : Board}
    (h : parseBoard T s = .ok b) : acceptedOk b.abs = none := by
  obtain ⟨bd, _, ht⟩ := (C07_parse_ok_iff T s b).mp h
  exact C07_acceptedOk_of_tryFrom hT ht

/-! ### (c) valid positions -/

/-- a valid position passes the acceptance conditions, and so does the position the library records for it
(`norm`: en-passant mark kept only beside an enemy pawn) -/
theorem C07_acceptedOk_of_valid {p : Pos} (hv : Valid p = true) :
    acceptedOk p = none ∧ acceptedOk (norm p) = none :=
  ⟨(acceptedOk_none_iff _).mpr (acceptP_of_valid hv), (acceptedOk_none_iff _).mpr (acceptP_of_valid hv).norm⟩

/-- every board holding a valid position (in particular every `Good` board: the start of a game and every
board reached by legal play or a null move) passes the acceptance oracle -/
theorem C07_acceptedOk_of_good {T : Tables} {b : Board} (hg : b.Good T) : acceptedOk b.abs = none :=
  (C07_acceptedOk_of_valid hg.valid).1

/-! ### (d) the check / pin / occupancy oracle -/

/-- a board with consistent bitboards passes the occupancy clause of the oracle -/
theorem C03_occConsistent_of_struct {b : Board} (hs : Struct b) : occConsistent b = true :=
  occConsistent_of_struct hs

/-- on every `Good` board (consistent bitboards, cached fields from scratch, valid position) the oracle
`wfOk` passes: occupancy consistent, `checkers` = the specification's checkers, mover's part of `pinned` =
the specification's pinned men.  (`wfOk` does not read the tables: no `T` argument.) -/
theorem C03_wfOk_of_good {T : Tables} (hT : TablesOK T) {b : Board} (hg : b.Good T) : wfOk b b.abs = true :=
  wfOk_of_exact hg.struct
    (C03_checkers_of_PinOK hT hg.struct (hg.oneKing b.stm) hg.kingsApart hg.pin)
    (C03_pinned_of_PinOK hT hg.struct (hg.oneKing b.stm) hg.pin)

/-- the same for every board accepted by `try_from`, valid position or not -/
theorem C03_wfOk_of_tryFrom {T : Tables} (hT : TablesOK T) {bd : Builder} {b : Board}
    (h : Board.tryFrom T bd = some b) : wfOk b b.abs = true :=
  have r := C03_tryFrom hT h
  wfOk_of_exact r.2.2 r.1 r.2.1

/-- the model's successor of a `Good` board by a legal move passes both oracles (driver line `MAKE`) -/
theorem C03_wfOk_of_makeMove {T : Tables} (hT : TablesOK T) {b : Board} (hg : b.Good T) {m : Move}
    (hl : legal b.abs m = true) :
    ∃ b', b.makeMoveNew T m = some b' ∧ wfOk b' b'.abs = true ∧ acceptedOk b'.abs = none := by
  obtain ⟨b', e, hg', _⟩ := Final.good_makeMove hT hg hl
  exact ⟨b', e, C03_wfOk_of_good hT hg', C07_acceptedOk_of_good hg'⟩

/-- the model's null move from a `Good` board passes both oracles (driver line `NULL`) -/
theorem C03_wfOk_of_nullMove {T : Tables} (hT : TablesOK T) {b b' : Board} (hg : b.Good T)
    (h : b.nullMove T = some b') : wfOk b' b'.abs = true ∧ acceptedOk b'.abs = none :=
  have hg' := Final.good_nullMove hT hg h
  ⟨C03_wfOk_of_good hT hg', C07_acceptedOk_of_good hg'⟩

/-! ### non-vacuity -/

section Examples
open GameExamples
set_option maxRecDepth 100000

/-- (a) on an accepted position with an en-passant mark (all four clauses of the oracle are exercised: the
`ep` branch is the `some` one) -/
example : ∃ bd b, Board.tryFrom codeTables bd = some b ∧ b.abs.ep = some 28 ∧ acceptedOk b.abs = none := by
  obtain ⟨bd, b, h, hq⟩ := C07_ep_accepted
  exact ⟨bd, b, h, hq, C07_acceptedOk_of_tryFrom codeTables_ok h⟩

/-- (b) is not vacuous in either direction: the oracle passes the initial position and flags the position
with the white king removed -/
example : acceptedOk startBoard.abs = none ∧
    (acceptedOk { startBoard.abs with board := fun s => if s = 4 then none else startBoard.abs.board s }).isSome = true := by
  constructor <;> decide +kernel

/-- (c) on the initial position -/
example : Valid startBoard.abs = true ∧ acceptedOk (norm startBoard.abs) = none :=
  ⟨startPos_valid, (C07_acceptedOk_of_valid startPos_valid).2⟩

/-- (d) on a board with a check and a pin (knight f3 checks, bishop e2 pinned by the rook e8): both
`Geom.setOf` sides are non-empty there -/
example : ∃ b, Board.tryFrom codeTables exCheckPinBd = some b ∧ wfOk b b.abs = true ∧
    b.checkers = BB.ofSq 21 ∧ b.pinned = BB.ofSq 12 := by
  have h : (Board.tryFrom codeTables exCheckPinBd).isSome = true := by decide +kernel
  obtain ⟨b, hb⟩ := Option.isSome_iff_exists.mp h
  have hf := exCheckPin_fields
  rw [hb] at hf
  simp only [Option.map_some, Option.some.injEq, Prod.mk.injEq] at hf
  exact ⟨b, hb, C03_wfOk_of_tryFrom codeTables_ok hb, hf.1, hf.2⟩

/-- (d) on a `Good` board, and after 1. e4 from it -/
example : ∃ b b' : Board, b.Good codeTables ∧ wfOk b b.abs = true ∧
    b.makeMoveNew codeTables ⟨12, 28, none⟩ = some b' ∧ wfOk b' b'.abs = true ∧ acceptedOk b'.abs = none := by
  obtain ⟨b, _, habs, hg⟩ := C01_good_of_valid_pos codeTables_ok startPos_valid
  have hl : legal b.abs ⟨12, 28, none⟩ = true := by
    rw [habs, Closure.legal_norm]; decide +kernel
  obtain ⟨b', hm, hw, ha⟩ := C03_wfOk_of_makeMove codeTables_ok hg hl
  exact ⟨b, b', hg, C03_wfOk_of_good codeTables_ok hg, hm, hw, ha⟩

/-- the oracle `wfOk` is not trivially true: it flags the initial board with a stale `checkers` field -/
example : wfOk { startBoard with checkers := BB.ofSq 12 } startBoard.abs = false := by decide +kernel

end Examples

end Chess.Props
