import ChessVerif.Props.C07
import ChessVerif.Lemmas.SaneCheck
/-!
# C07, the two statements that need the geometric reading of check detection

Kept apart from `Props/C07.lean` because they depend on `Lemmas/CheckPin.lean` (C03:
`update_pin_info` computes exactly the checkers of the specification) through `Lemmas/SaneCheck.lean`.
They prove the two statements that `Props/C07.lean` only states:
`C07_nonmover_not_in_check_full` and `C07_accept_complete_full`.
-/
namespace Chess.Props
open Chess Chess.GameExamples

/-- (e) on every accepted board the side not to move is not in check (rules of `Spec/Rules.lean`) -/
theorem C07_nonmover_not_in_check {T : Tables} (hT : TablesOK T) {bd : Builder} {b : Board}
    (h : Board.tryFrom T bd = some b) : inCheck b.abs b.stm.other = false :=
  SaneCheck.nonmover_not_in_check hT (tryFrom_struct h) (tryFrom_facts h)

theorem C07_nonmover_not_in_check_holds : C07_nonmover_not_in_check_full :=
  fun _ hT _ _ h => C07_nonmover_not_in_check hT h

/-- (e') the same for any board with consistent bitboards that passes `is_sane`, together with the reading
of the last clause of `is_sane`: the two kings do not stand next to each other -/
theorem C07_isSane_not_in_check {T : Tables} (hT : TablesOK T) {b : Board} (hs : Struct b)
    (h : b.isSane T = true) :
    inCheck b.abs b.stm.other = false ∧
    (Geom.king (b.kingSquare .white)).getLsbD (b.kingSquare .black).val = false :=
  ⟨SaneCheck.nonmover_not_in_check hT hs (isSane_facts h),
   (SaneCheck.kings_apart_clause_iff hT hs (isSane_facts h).wking (isSane_facts h).bking).mp
     (isSane_facts h).kings_apart⟩

/-- acceptance soundness (a)–(e) for text, with (e) on the rules -/
theorem C07_parse_accept_sound_full {T : Tables} (hT : TablesOK T) {s : List Char} {b : Board}
    (h : parseBoard T s = .ok b) :
    (∀ c, count b.abs (· == (.king, c)) = 1) ∧ (∀ c, count b.abs (·.2 == c) ≤ 16) ∧
    inCheck b.abs b.abs.stm.other = false ∧
    (∀ c, (b.abs.castleK c = true →
        (homeSq c 4).any (b.abs.has · .king c) = true ∧ (homeSq c 7).any (b.abs.has · .rook c) = true) ∧
      (b.abs.castleQ c = true →
        (homeSq c 4).any (b.abs.has · .king c) = true ∧ (homeSq c 0).any (b.abs.has · .rook c) = true)) ∧
    (∀ q, b.abs.ep = some q → b.abs.has q .pawn b.abs.stm.other = true ∧
      q.rank = b.abs.stm.other.pawnRank + 2 * b.abs.stm.other.fwd) := by
  obtain ⟨bd, _, ht⟩ := (parseBoard_ok_iff T s b).mp h
  obtain ⟨h1, h2, h3, h4, _⟩ := C07_parse_accept_sound hT h
  exact ⟨h1, h2, C07_nonmover_not_in_check hT ht, h3, h4⟩

/-- the candidate board of every valid position passes the two check-detection clauses of `is_sane` -/
theorem C07_valid_passes_check_clauses : C07_valid_passes_check_clauses_full :=
  fun _ hT _ hv => SaneCheck.checkClauses_of_valid hT hv

/-- **completeness**: every valid position is accepted, and the accepted board describes it (with the
en-passant mark kept under the recording policy `norm`) -/
theorem C07_accept_complete : C07_accept_complete_full :=
  C07_accept_complete_of_check_clauses C07_valid_passes_check_clauses

/-- completeness for one position, unfolded -/
theorem C07_accept_complete' {T : Tables} (hT : TablesOK T) {p : Pos} (hv : Valid p = true) :
    ∃ b, Board.tryFrom T p.toBuilder = some b ∧
      b.abs.board = (norm p).board ∧ b.abs.stm = (norm p).stm ∧
      (∀ c, b.abs.castleK c = (norm p).castleK c) ∧ (∀ c, b.abs.castleQ c = (norm p).castleQ c) ∧
      b.abs.ep = (norm p).ep := C07_accept_complete T hT p hv

/-! ### non-vacuity -/

/-- (e) on the accepted initial position -/
example : ∃ bd b, Board.tryFrom codeTables bd = some b ∧ inCheck b.abs b.stm.other = false := by
  obtain ⟨bd, b, _, h, _⟩ := C07_start_accepted
  exact ⟨bd, b, h, C07_nonmover_not_in_check codeTables_ok h⟩

set_option maxRecDepth 100000 in
/-- completeness on the initial position (a valid `Pos`) -/
example : ∃ b, Board.tryFrom codeTables startBoard.abs.toBuilder = some b ∧ b.abs.board = startBoard.abs.board :=
  have hv : Valid startBoard.abs = true := by decide +kernel
  let ⟨b, h1, h2, _⟩ := C07_accept_complete' codeTables_ok hv
  ⟨b, h1, h2⟩

end Chess.Props
