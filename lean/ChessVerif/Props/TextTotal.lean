import ChessVerif.Lemmas.TextTotal
/-!
# Totality of the FEN / SAN scanners and the characterisation of the SAN move loop

Needed by C07 (FEN) and C12 (SAN).  `parseBuilder` models `BoardBuilder::from_str`, `San.fromSan`
models `ChessMove::from_san`; `San.loop` is its `for m in &mut MoveGen::new_legal(board)` loop whose
result is `none` (an `Err` returned from inside the loop), `some none` (`found_move` still `None`
at the end, turned into `Err` by `ok_or`) or `some (some m)`.

Finding recorded here: the move loop is **not** "unique base match that passes the capture
filter".  The ambiguity test `found_move.is_some()` stands *before* the capture (`takes`) filter
and only sees moves that already passed that filter, so (a) base matches skipped by the capture
filter are invisible to the ambiguity test and (b) two base matches that are both skipped give
"not found" rather than "ambiguous".  The literal statements are refuted below
(`san_loop_unique_literal_false`, `san_loop_ambiguous_literal_false`); the exact behaviour is
`san_loop_iff` / `san_loop_notfound_iff`, and the intended reading is recovered under the
hypothesis that the capture filter does not distinguish the base matches (`san_takesSkip_uniform`
gives it outright except for a pawn capture written without ` e.p.` onto an empty square).
-/
namespace Chess.Props
open San

/-- 6. `BoardBuilder::from_str` never panics -/
theorem parseBuilder_total (s : List Char) : parseBuilder s ≠ .panic := parseBuilder_ne_panic s

/-- 7. `ChessMove::from_san` never panics -/
theorem fromSan_total (T : Tables) (b : Board) (s : List Char) : San.fromSan T b s ≠ .panic :=
  San.fromSan_ne_panic T b s

/-- 8. every move returned by `from_san` is one of the generated legal moves -/
theorem fromSan_sound (T : Tables) (b : Board) (s : List Char) (m : Move) :
    San.fromSan T b s = .ok m → m ∈ b.legalMoves T := San.fromSan_mem b T s m

/-- the loop returns only elements of the list it scans (or the move it was started with) -/
theorem san_loop_mem (b : Board) (f : Fields) (l : List Move) (found : Option Move) (m : Move) :
    San.loop b f l found = some (some m) → m ∈ l ∨ found = some m := San.loop_mem b f l found m

/-- for non-castling text `from_san` is the scanner followed by the move loop -/
theorem fromSan_ok_iff (T : Tables) (b : Board) (s : List Char) (m : Move)
    (hc : ¬ (castleText s = "O-O".toList ∨ castleText s = "O-O-O".toList)) :
    San.fromSan T b s = .ok m ↔
      ∃ f, San.scan s = some f ∧ San.loop b f (b.legalMoves T) none = some (some m) := by
  unfold San.fromSan
  simp only [if_neg hc]
  split
  · rename_i h; simp [h]
  · rename_i f hf
    split
    · rename_i m' hl
      simp only [hf, Option.some.injEq, exists_eq_left', hl, Res.ok.injEq]
    · rename_i hl
      simp only [hf, Option.some.injEq, exists_eq_left', reduceCtorEq, false_iff]
      exact fun h => hl m h

/-! ### 9. the move loop -/

/-- exact behaviour: `m` is returned iff the base matches of `l`, in list order, are a (possibly
empty) run of moves skipped by the capture filter followed by `m`, which passes it, and no base
match follows `m` -/
theorem san_loop_iff (b : Board) (f : Fields) (l : List Move) (m : Move) :
    San.loop b f l none = some (some m) ↔
      ∃ pre, l.filter (San.baseMatch b f) = pre ++ [m] ∧
        (∀ x ∈ pre, San.takesSkip b f x = true) ∧ San.takesSkip b f m = false :=
  San.loop_ok_iff b f l m

/-- "not found" (`found_move` is `None` after the loop) iff the capture filter skips every base match -/
theorem san_loop_notfound_iff (b : Board) (f : Fields) (l : List Move) :
    San.loop b f l none = some none ↔
      ∀ x ∈ l, San.baseMatch b f x = true → San.takesSkip b f x = true :=
  San.loop_notfound_iff b f l

/-- 9a. accepted ⇒ `m` is in `l`, is a base match, passes the capture filter, and every *other* base
match in `l` is skipped by the capture filter: `m` is the unique element of `l` satisfying
`baseMatch ∧ ¬ takesSkip` -/
theorem san_loop_unique (b : Board) (f : Fields) (l : List Move) (m : Move)
    (h : San.loop b f l none = some (some m)) :
    m ∈ l ∧ San.baseMatch b f m = true ∧ San.takesSkip b f m = false ∧
    (∀ x ∈ l, San.baseMatch b f x = true → San.takesSkip b f x = false → x = m) := by
  obtain ⟨h1, h2, h3, h4⟩ := San.loop_ok_unique b f l m h
  refine ⟨h1, h2, h3, ?_⟩
  intro x hx hb hs
  refine Classical.byContradiction fun hne => ?_
  rw [h4 x hx hb hne] at hs
  cases hs

/-- 9a'. accepted, and the capture filter is uniform on the base matches of `l` ⇒ `m` is the only
base match in `l` (exactly one element satisfies `baseMatch`) and it passes the capture filter -/
theorem san_loop_unique_uniform (b : Board) (f : Fields) (l : List Move) (m : Move)
    (hu : ∀ x ∈ l, ∀ y ∈ l, San.baseMatch b f x = true → San.baseMatch b f y = true →
      San.takesSkip b f x = San.takesSkip b f y)
    (h : San.loop b f l none = some (some m)) :
    l.filter (San.baseMatch b f) = [m] ∧ l.countP (San.baseMatch b f) = 1 ∧
    (∀ x ∈ l, San.baseMatch b f x = true → x = m) ∧ San.takesSkip b f m = false := by
  have hf := San.loop_ok_filter b f l m hu h
  refine ⟨hf, by rw [List.countP_eq_length_filter, hf]; rfl, ?_, (San.loop_ok_unique b f l m h).2.2.1⟩
  intro x hx hb
  have : x ∈ l.filter (San.baseMatch b f) := List.mem_filter.2 ⟨hx, hb⟩
  rw [hf] at this
  simpa using this

/-- the uniformity hypothesis holds unless the text is a pawn capture without ` e.p.` whose
destination square is empty -/
theorem san_takesSkip_uniform (b : Board) (f : Fields)
    (hc : f.piece ≠ .pawn ∨ f.takes = false ∨ f.ep = true ∨ (b.pieceOn f.dest).isSome = true)
    (x y : Move) (hx : San.baseMatch b f x = true) (hy : San.baseMatch b f y = true) :
    San.takesSkip b f x = San.takesSkip b f y := San.takesSkip_uniform b f hc hx hy

/-- 9b. converse: exactly one element of a duplicate-free `l` is a base match and it passes the
capture filter ⇒ it is returned -/
theorem san_loop_complete (b : Board) (f : Fields) (l : List Move) (m : Move) (hnd : l.Nodup)
    (hm : m ∈ l) (hb : San.baseMatch b f m = true) (hs : San.takesSkip b f m = false)
    (hu : ∀ x ∈ l, San.baseMatch b f x = true → x = m) :
    San.loop b f l none = some (some m) :=
  San.loop_of_filter b f l m (San.filter_eq_singleton _ l m hnd hm hb hu) hs

/-- 9c. two distinct base matches that both pass the capture filter ⇒ rejected as ambiguous -/
theorem san_loop_ambiguous (b : Board) (f : Fields) (l : List Move) (m₁ m₂ : Move)
    (h1 : m₁ ∈ l) (h2 : m₂ ∈ l) (hne : m₁ ≠ m₂)
    (hb1 : San.baseMatch b f m₁ = true) (hb2 : San.baseMatch b f m₂ = true)
    (hs1 : San.takesSkip b f m₁ = false) (hs2 : San.takesSkip b f m₂ = false) :
    San.loop b f l none = none := San.loop_ambiguous b f l m₁ m₂ h1 h2 hne hb1 hb2 hs1 hs2

/-- 9c'. two distinct base matches, capture filter uniform ⇒ no move is returned (`Err` from inside
the loop when they pass the filter, "not found" when they are skipped) -/
theorem san_loop_ambiguous_uniform (b : Board) (f : Fields) (l : List Move) (m₁ m₂ : Move)
    (h1 : m₁ ∈ l) (h2 : m₂ ∈ l) (hne : m₁ ≠ m₂)
    (hb1 : San.baseMatch b f m₁ = true) (hb2 : San.baseMatch b f m₂ = true)
    (hu : ∀ x ∈ l, ∀ y ∈ l, San.baseMatch b f x = true → San.baseMatch b f y = true →
      San.takesSkip b f x = San.takesSkip b f y) :
    San.loop b f l none = none ∨ San.loop b f l none = some none :=
  San.loop_ambiguous_uniform b f l m₁ m₂ h1 h2 hne hb1 hb2 hu

/-! ### the literal statements are false -/

/-- "accepted ⇒ `m` is the only base match of a duplicate-free `l`" -/
def san_loop_unique_literal : Prop :=
  ∀ (b : Board) (f : Fields) (l : List Move) (m : Move), l.Nodup →
    San.loop b f l none = some (some m) →
    (∀ x ∈ l, San.baseMatch b f x = true → x = m) ∧ San.takesSkip b f m = false

/-- "two distinct base matches ⇒ `Err` from inside the loop" -/
def san_loop_ambiguous_literal : Prop :=
  ∀ (b : Board) (f : Fields) (l : List Move) (m₁ m₂ : Move), l.Nodup → m₁ ∈ l → m₂ ∈ l → m₁ ≠ m₂ →
    San.baseMatch b f m₁ = true → San.baseMatch b f m₂ = true → San.loop b f l none = none

/-- pawns on d5 and e5, text `xd6` (pawn, takes, no ` e.p.`), d6 empty -/
def cexBoard1 : Board :=
  { Board.blank with pawns := 0x1800000000#64, white := 0x1800000000#64, combined := 0x1800000000#64 }
def cexFields1 : Fields := ⟨.pawn, none, none, true, 43, none, false⟩
/-- knights on b3 and f3, pawn on d4, text `Nd4` (no `x`) -/
def cexBoard2 : Board :=
  { Board.blank with knights := 0x220000#64, pawns := 0x8000000#64, combined := 0x8220000#64 }
def cexFields2 : Fields := ⟨.knight, none, none, false, 27, none, false⟩

set_option maxRecDepth 100000 in
/-- the push d5-d6 is a base match skipped by the capture filter, so `found_move` is still `None`
when the second base match e5xd6 arrives, and that one is returned -/
theorem san_loop_unique_literal_false : ¬ san_loop_unique_literal := by
  intro h
  have h1 := (h cexBoard1 cexFields1 [⟨35, 43, none⟩, ⟨36, 43, none⟩] ⟨36, 43, none⟩
    (by decide) (by decide +kernel)).1 ⟨35, 43, none⟩ (by decide) (by decide +kernel)
  exact absurd h1 (by decide)

set_option maxRecDepth 100000 in
/-- both knight moves are base matches, both are skipped (capture without `x`): the loop ends with
`found_move = None` ("not found"), it does not return from inside -/
theorem san_loop_ambiguous_literal_false : ¬ san_loop_ambiguous_literal := by
  intro h
  have h1 := h cexBoard2 cexFields2 [⟨17, 27, none⟩, ⟨21, 27, none⟩] ⟨17, 27, none⟩ ⟨21, 27, none⟩
    (by decide) (by decide) (by decide) (by decide) (by decide +kernel) (by decide +kernel)
  have h2 : San.loop cexBoard2 cexFields2 [⟨17, 27, none⟩, ⟨21, 27, none⟩] none = some none := by
    decide +kernel
  rw [h2] at h1
  cases h1

/-! non-vacuity of 9a / 9b / 9c on concrete values -/
set_option maxRecDepth 100000 in
example : San.loop cexBoard1 cexFields1 [⟨35, 43, none⟩, ⟨36, 43, none⟩] none
    = some (some ⟨36, 43, none⟩) := by decide +kernel
set_option maxRecDepth 100000 in
example : San.loop cexBoard2 { cexFields2 with takes := true } [⟨17, 27, none⟩, ⟨21, 27, none⟩] none
    = none := by decide +kernel
set_option maxRecDepth 100000 in
example : San.loop cexBoard2 { cexFields2 with takes := true, srcFile := some 1 }
    [⟨17, 27, none⟩, ⟨21, 27, none⟩] none = some (some ⟨17, 27, none⟩) := by decide +kernel
example : San.scan "Nbxd4+".toList = some ⟨.knight, some 1, none, true, 27, none, false⟩ := by
  decide +kernel

end Chess.Props
