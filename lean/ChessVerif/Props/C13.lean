import ChessVerif.Lemmas.Text
/-!
# C13 — coordinate (UCI) move and square text round-trips; parsing is total

`showSquare` / `parseSquare` model `Display` / `FromStr for Square` (`square.rs`), `showMove` /
`parseMove` model `Display` / `FromStr for ChessMove` (`chess_move.rs`).  A `&str` is a `List Char`
with UTF-8 byte lengths and checked slicing (`Str.get`); `Res.panic` is a Rust panic (an out-of-range
`ch[i]`).  All statements quantify over every square / move / string.
-/
namespace Chess.Props

/-- 1. printing a square and parsing it back gives the square -/
theorem C13_square_roundtrip (s : Sq) : parseSquare (showSquare s) = .ok s :=
  parseSquare_showSquare s

/-- 2. printing a move and parsing it back gives the move (promotion piece none / Q / R / B / N;
`Display` prints `p` / `k` for the other two pieces, which `from_str` rejects) -/
theorem C13_move_roundtrip (m : Move)
    (h : m.promo ∈ [none, some .queen, some .rook, some .bishop, some .knight]) :
    parseMove (showMove m) = .ok m := parseMove_showMove m h

/-- 3a. `Square::from_str` never panics: `ch[1]` is reached only when a second char exists -/
theorem C13_parse_square_total (s : List Char) : parseSquare s ≠ .panic := parseSquare_ne_panic s

/-- 3b. `ChessMove::from_str` never panics -/
theorem C13_parse_move_total (s : List Char) : parseMove s ≠ .panic := parseMove_ne_panic s

/-- 4a. an accepted square text starts with the canonical text of the square returned -/
theorem C13_parse_square_prefix (s : List Char) (q : Sq) :
    parseSquare s = .ok q → showSquare q <+: s := by
  intro h
  obtain ⟨r, hr⟩ := parseSquare_ok h
  exact ⟨r, hr.symm⟩

/-- 4b. an accepted move text starts with the canonical text of the move returned -/
theorem C13_parse_move_prefix (s : List Char) (m : Move) :
    parseMove s = .ok m → showMove m <+: s := by
  intro h
  obtain ⟨r, hr⟩ := parseMove_ok h
  exact ⟨r, hr.symm⟩

/-- 5a. square text is the file letter `a`..`h` followed by the rank digit `1`..`8` -/
theorem C13_show_square_shape (s : Sq) :
    showSquare s = [Char.ofNat ('a'.toNat + s.val % 8), Char.ofNat ('1'.toNat + s.val / 8)] := rfl

/-- 5b. move text is source square text, destination square text, optional lower-case piece letter -/
theorem C13_show_move_shape (m : Move) :
    showMove m = showSquare m.src ++ showSquare m.dst ++
      (match m.promo with
       | none => []
       | some .queen => ['q'] | some .rook => ['r'] | some .bishop => ['b'] | some .knight => ['n']
       | some .pawn => ['p'] | some .king => ['k']) := by
  unfold showMove
  rcases m with ⟨src, dst, _ | p⟩
  · rfl
  · cases p <;> rfl

/-- square text determines the square -/
theorem C13_show_square_injective (p q : Sq) : showSquare p = showSquare q → p = q := showSquare_inj

/-! non-vacuity: e7e8q, and a string with trailing garbage and a multi-byte character -/
example : showMove ⟨⟨52, by decide⟩, ⟨60, by decide⟩, some .queen⟩ = "e7e8q".toList := by decide
example : (some Piece.queen) ∈ [none, some Piece.queen, some .rook, some .bishop, some .knight] := by
  decide
example : parseSquare "e4é".toList = .ok ⟨28, by decide⟩ := by decide
example : parseSquare "e".toList = .err ∧ parseSquare "é".toList = .err := by decide
/-- the restriction in the round trip is needed: a king "promotion" prints as `k` and is rejected -/
example : parseMove (showMove ⟨⟨52, by decide⟩, ⟨60, by decide⟩, some .king⟩) = .err := by
  have h := C13_show_move_shape ⟨⟨52, by decide⟩, ⟨60, by decide⟩, some .king⟩
  simp only [List.append_assoc] at h
  rw [h]; unfold parseMove
  simp only [get_src, get_dst, parseSquare_showSquare]
  simp [showSquare, fileChar_size, rankChar_size, (by decide : 'k'.utf8Size = 1)]

end Chess.Props
