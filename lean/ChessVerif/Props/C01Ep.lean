import ChessVerif.Lemmas.EnPassant
import ChessVerif.Proofs.TablesOK
/-!
# C01 (en-passant part) — the en-passant entries of `PawnType::legals` are exactly the legal
en-passant captures, including captures that would expose the king along a rank or a diagonal

For every table set with `TablesOK`, every board with the structural invariant `Struct`, `p = b.abs` a
`Valid` position (the mover's king is then unique: `KingMoves.oneKing_of_valid`), `k = b.kingSquare b.stm`:

* `C01Ep_source_iff` — the sources `rank(ep) & adjacent_files(ep) & my pawns`, with destination
  `ep.uforward(stm)` and no promotion, are exactly the pseudo-legal en-passant captures;
* `C01Ep_leapers_do_not_check` — an enemy knight, pawn or king that attacks the mover's king is the pawn
  that has just made the double step (so `legal_ep_move` may ignore them: that pawn is captured);
* `C01Ep_legalEpMove_iff` — `legal_ep_move(board, src, dest) = true` iff the capture is legal;
* `C01Ep_entry_iff`, `C01Ep_section_iff` — the en-passant disjunct of `Entries.IsMove` is "legal and an
  en-passant capture";
* `C01Ep_noEpClash` — the hypothesis `NoEpClash` of `C01S_legalMoves_nodup` / `C01S_enumerate_apart`.

Which clauses of `Valid` are used: only `epValid` (marked square holds an enemy pawn; rank clause; the
square passed over is empty; with the pawn put back the mover was not in check) and "exactly one king of
the mover".  The clause "the side not to move is not in check" is **not** needed (adjacent kings are
already excluded by the predecessor clause of `epValid`).  The statements of `Lemmas/EnPassant.lean` take
`epValid b.abs = true` and `KingMoves.OneKing b` instead of `Valid`.

Without `epValid` the statements fail: with an en-passant mark whose pawn stands on the mover's seventh
rank the specification admits the capture only with a promotion piece while the code emits it without;
and with a mark that did not arise from a double step (an enemy knight already giving check) the code,
which looks at sliders only, answers `true` for a capture that leaves the king in check.
-/
namespace Chess.Props

open Chess.EnPassant

/-- 1. en-passant sources + destination + no promotion = pseudo-legal en-passant capture -/
theorem C01Ep_source_iff {T : Tables} (hT : TablesOK T) {b : Board} (hs : Struct b)
    (hv : Valid b.abs = true) {q : Sq} (hq : b.ep = some q) (m : Move) :
    ((Entries.epSources T b q).getLsbD m.src.val = true ∧ m.dst = Entries.epDest b q ∧ m.promo = none) ↔
      (pseudoLegal b.abs m = true ∧ isEnPassant b.abs m = true) :=
  ep_source_iff hT hs ((Closure.valid_iff _).mp hv).ep hq m

/-- 2. in a valid position with en-passant mark `q`, an enemy knight, pawn or king attacking the mover's
king is the pawn on `q` -/
theorem C01Ep_leapers_do_not_check {p : Pos} (hv : Valid p = true) {q k : Sq} (hq : p.ep = some q)
    (hk : kingSq? p p.stm = some k) {x : Sq} (hx : p.colorAt x = some p.stm.other)
    (hl : PinCheck.leaperAtt (p.board x) x k = true) : x = q :=
  leapers_do_not_check_valid hv hq hk hx hl

/-- 3. `legal_ep_move` is exact on pseudo-legal en-passant captures -/
theorem C01Ep_legalEpMove_iff {T : Tables} (hT : TablesOK T) {b : Board} (hs : Struct b)
    (hv : Valid b.abs = true) {m : Move} (hpl : pseudoLegal b.abs m = true)
    (hep : isEnPassant b.abs m = true) :
    MoveGen.legalEpMove T b m.src m.dst = some true ↔ legal b.abs m = true :=
  legalEpMove_iff' hT hs (KingMoves.oneKing_of_valid hs hv) ((Closure.valid_iff _).mp hv).ep hpl hep

/-- 4. the en-passant entry for the mark `q`: generated iff legal -/
theorem C01Ep_entry_iff {T : Tables} (hT : TablesOK T) {b : Board} (hs : Struct b)
    (hv : Valid b.abs = true) {q : Sq} (hq : b.ep = some q) (m : Move) :
    ((Entries.epSources T b q).getLsbD m.src.val = true ∧
        MoveGen.legalEpMove T b m.src (Entries.epDest b q) = some true ∧
        m.dst = Entries.epDest b q ∧ m.promo = none) ↔
      (legal b.abs m = true ∧ isEnPassant b.abs m = true) :=
  ep_entry_iff hT hs (KingMoves.oneKing_of_valid hs hv) ((Closure.valid_iff _).mp hv).ep hq m

/-- 4'. the en-passant disjunct of `Entries.IsMove`, as a whole -/
theorem C01Ep_section_iff {T : Tables} (hT : TablesOK T) {b : Board} (hs : Struct b)
    (hv : Valid b.abs = true) (m : Move) :
    (∃ epSq : Sq, b.ep = some epSq ∧ (Entries.epSources T b epSq).getLsbD m.src.val = true ∧
        MoveGen.legalEpMove T b m.src (Entries.epDest b epSq) = some true ∧
        m.dst = Entries.epDest b epSq ∧ m.promo = none) ↔
      (legal b.abs m = true ∧ isEnPassant b.abs m = true) :=
  ep_section_iff hT hs (KingMoves.oneKing_of_valid hs hv) ((Closure.valid_iff _).mp hv).ep m

/-- 5. the en-passant destination is never an ordinary destination of the capturing pawn -/
theorem C01Ep_noEpClash {T : Tables} (hT : TablesOK T) {b : Board} (hs : Struct b)
    (hv : Valid b.abs = true) (ic : Bool) : Entries.NoEpClash T b ic :=
  noEpClash hT hs ((Closure.valid_iff _).mp hv).ep ic

/-! ### non-vacuity -/

/-- White: Ka5, Pb5; Black: Ke8, Rh5, Pc5 (just played c7-c5, so `ep = some c5`); White to move.
`b5xc6 e.p.` is pseudo-legal but removes both pawns from the fifth rank and exposes the king to the
rook. -/
def exEpPinBoard : Board :=
  { pawns := 0x0000000600000000#64, knights := 0#64, bishops := 0#64, rooks := 0x0000008000000000#64,
    queens := 0#64, kings := 0x1000000100000000#64, white := 0x0000000300000000#64,
    black := 0x1000008400000000#64, combined := 0x1000008700000000#64, stm := .white,
    wcr := .noRights, bcr := .noRights, pinned := 0#64, checkers := 0#64, hash := 0#64,
    ep := some ⟨34, by decide⟩ }

/-- the same without the rook: the capture is legal -/
def exEpFreeBoard : Board :=
  { exEpPinBoard with rooks := 0#64, black := 0x1000000400000000#64, combined := 0x1000000700000000#64 }

theorem exEpPinBoard_struct : Struct exEpPinBoard :=
  Struct.of_eqs' (by intro x y h; cases x <;> cases y <;> first | exact absurd rfl h | decide)
    (by decide) (by decide) (by decide)

theorem exEpFreeBoard_struct : Struct exEpFreeBoard :=
  Struct.of_eqs' (by intro x y h; cases x <;> cases y <;> first | exact absurd rfl h | decide)
    (by decide) (by decide) (by decide)

set_option maxRecDepth 100000 in
/-- the hypotheses hold on a position where the capture is pseudo-legal and illegal (horizontal
exposure), and the code says `false` -/
example : TablesOK codeTables ∧ Struct exEpPinBoard ∧ Valid exEpPinBoard.abs = true ∧
    exEpPinBoard.ep = some ⟨34, by decide⟩ ∧
    pseudoLegal exEpPinBoard.abs ⟨33, 42, none⟩ = true ∧ isEnPassant exEpPinBoard.abs ⟨33, 42, none⟩ = true ∧
    MoveGen.legalEpMove codeTables exEpPinBoard 33 42 = some false ∧
    legal exEpPinBoard.abs ⟨33, 42, none⟩ = false := by
  refine ⟨codeTables_ok, exEpPinBoard_struct, ?_, rfl, ?_, ?_, ?_, ?_⟩ <;> decide +kernel

set_option maxRecDepth 100000 in
/-- … and on a position where it is legal, and the code says `true` -/
example : Struct exEpFreeBoard ∧ Valid exEpFreeBoard.abs = true ∧
    (Entries.epSources codeTables exEpFreeBoard ⟨34, by decide⟩).getLsbD (33 : Sq).val = true ∧
    Entries.epDest exEpFreeBoard ⟨34, by decide⟩ = 42 ∧
    MoveGen.legalEpMove codeTables exEpFreeBoard 33 42 = some true ∧
    legal exEpFreeBoard.abs ⟨33, 42, none⟩ = true := by
  refine ⟨exEpFreeBoard_struct, ?_, ?_, ?_, ?_, ?_⟩ <;> decide +kernel

end Chess.Props
