import ChessVerif.Lemmas.Deprecated
import ChessVerif.Proofs.TablesOK
import ChessVerif.CodeTables
/-!
# The deprecated board mutators keep the representation consistent (C08 / C03 for edited boards)

`Board.setPiece`, `Board.clearSquare`, `Board.addCastleRights`, `Board.removeCastleRights`
(`Model/Deprecated.lean`) model `Board::set_piece`, `Board::clear_square`, `Board::add_castle_rights`,
`Board::remove_castle_rights`.  For every table set, board and argument:

* **C08 part.**  Under `Core T b` (bitboards consistent, raw `hash` = xor of the placement keys) every accepted
  edit returns a `Core` board; the position it denotes is the old one with square `s` overwritten
  (`Pos.put`), side, rights and ep mark untouched; hence `get_hash` of the result is the from-scratch hash of
  the edited position.  The rights mutators change nothing but the rights of the colour named.
* **C03 part.**  The result of an accepted edit has its cached `pinned` / `checkers` computed from scratch
  (`PinOK`, no hypothesis at all); if the edited position is `Valid` the result is `Good`, so every theorem
  about `Good` boards (checkers, pinned men, exact legal move generation, …) applies to it.
* **Refusal.**  `set_piece` / `clear_square` return `None` exactly when the side *not* to move is in check in
  the edited position, provided that side has exactly one king there and the kings do not touch
  (`update_pin_info` never looks at the enemy king; same hypothesis as `C03_checkers_exact`).

`Core` is the right hypothesis: `removeAt` trusts `piece_on` for the kind and the white board for the colour,
which removes the man standing on `s` only when the piece boards, colour boards and `combined` agree.
No table hypothesis is needed except for the refusal theorems.
-/
namespace Chess.Props
open Deprecated

set_option maxRecDepth 100000

/-! ### concrete boards for the non-vacuity examples -/

/-- the initial position as a builder state -/
def depStartBd : Builder where
  pieces s :=
    let back : Nat → Piece := fun f => match f with
      | 0 | 7 => .rook | 1 | 6 => .knight | 2 | 5 => .bishop | 3 => .queen | _ => .king
    if s.val < 8 then some (back s.val, .white) else if s.val < 16 then some (.pawn, .white)
    else if s.val < 48 then none else if s.val < 56 then some (.pawn, .black)
    else some (back (s.val - 56), .black)
  stm := .white
  wcr := .both
  bcr := .both
  epFile := none

/-- the board `try_from` builds from it with the tables of the code (whatever the regenerated Zobrist
keys are: no key-dependent literal appears here, so a harmless change of the keys breaks nothing) -/
def depStart : Board := (Board.tryFrom codeTables depStartBd).getD Board.blank

theorem depStart_tryFrom : Board.tryFrom codeTables depStartBd = some depStart := by decide +kernel

theorem depStart_core : Core codeTables depStart := (tryFrom_spec _ _ _ depStart_tryFrom).1

/-- initial position with the white queen replaced by a black one (d1 = 3): accepted, White is in check -/
theorem depStart_set_d1 : (depStart.setPiece codeTables .queen .black 3).map (·.checkers) = some (BB.ofSq 3) := by
  decide +kernel

/-- initial position with a white queen put on e7 (52) instead of the pawn: refused, Black would be in check -/
theorem depStart_set_e7 : depStart.setPiece codeTables .queen .white 52 = none := by decide +kernel

/-- initial position without the e2 pawn (12): accepted -/
theorem depStart_clear_e2 : (depStart.clearSquare codeTables 12).isSome = true := by decide +kernel

/-! ### 1. `Core` is preserved -/

/-- an accepted `set_piece` keeps the bitboards consistent and the raw hash equal to the xor of the
placement keys -/
theorem C08_setPiece_core {T : Tables} {b b' : Board} {p : Piece} {c : Color} {s : Sq} (hc : Core T b)
    (h : b.setPiece T p c s = some b') : Core T b' := (setPiece_spec hc h).1

example : ∃ b', Core codeTables depStart ∧ depStart.setPiece codeTables .queen .black 3 = some b' := by
  have h := depStart_set_d1
  cases he : depStart.setPiece codeTables .queen .black 3 with
  | none => rw [he] at h; cases h
  | some b' => exact ⟨b', depStart_core, rfl⟩

theorem C08_clearSquare_core {T : Tables} {b b' : Board} {s : Sq} (hc : Core T b)
    (h : b.clearSquare T s = some b') : Core T b' := (clearSquare_spec hc h).1

example : ∃ b', Core codeTables depStart ∧ depStart.clearSquare codeTables 12 = some b' := by
  obtain ⟨b', hb⟩ := Option.isSome_iff_exists.mp depStart_clear_e2
  exact ⟨b', depStart_core, hb⟩

/-- before the tail, too: the board handed to the flip/recompute tail already satisfies `Core` (the man on
`s`, if any, has been removed from exactly its piece board and its colour board) -/
theorem C08_removeAt_core {T : Tables} {b : Board} (hc : Core T b) (s : Sq) :
    Core T (Board.removeAt T b s) ∧
    ∀ t, (Board.removeAt T b s).content t = if t = s then none else b.content t := removeAt_spec hc s

example : Core codeTables depStart := depStart_core

/-- the hypothesis is needed: on a board whose `combined` misses a pawn bit (a2 = 8), `piece_on` reports
nothing, nothing is removed, and "setting" a white pawn there toggles the stray bit off: the result shows a
white *king* on a2 -/
theorem C08_setPiece_needs_core :
    (Board.setPiece codeTables { Board.blank with pawns := BB.ofSq 8 } .pawn .white 8).map
      (fun b => (b.pieceOn 8, b.colorOn 8)) = some (some .king, some .white) := by decide +kernel

/-! ### 2. the position denoted -/

/-- the position after an accepted `set_piece`: `(p, c)` on `s`, every other square, the side to move, the
castling rights and the en-passant mark as before -/
theorem C08_setPiece_abs {T : Tables} {b b' : Board} {p : Piece} {c : Color} {s : Sq} (hc : Core T b)
    (h : b.setPiece T p c s = some b') :
    b'.abs.board = (fun q => if q = s then some (p, c) else b.abs.board q) ∧ b'.abs.stm = b.abs.stm ∧
    b'.abs.castleK = b.abs.castleK ∧ b'.abs.castleQ = b.abs.castleQ ∧ b'.abs.ep = b.abs.ep := by
  rw [(setPiece_spec hc h).2.2]
  exact ⟨rfl, rfl, rfl, rfl, rfl⟩

/-- the same as one equation -/
theorem C08_setPiece_abs_eq {T : Tables} {b b' : Board} {p : Piece} {c : Color} {s : Sq} (hc : Core T b)
    (h : b.setPiece T p c s = some b') : b'.abs = b.abs.put s (some (p, c)) := (setPiece_spec hc h).2.2

example : ∃ b', Core codeTables depStart ∧ depStart.setPiece codeTables .queen .black 3 = some b' ∧
    b'.abs.board 3 = some (.queen, .black) ∧ b'.abs.board 4 = some (.king, .white) := by
  have h := depStart_set_d1
  cases he : depStart.setPiece codeTables .queen .black 3 with
  | none => rw [he] at h; cases h
  | some b' =>
    refine ⟨b', depStart_core, rfl, ?_, ?_⟩
    · rw [(C08_setPiece_abs depStart_core he).1]; rfl
    · rw [(C08_setPiece_abs depStart_core he).1]; decide +kernel

theorem C08_clearSquare_abs {T : Tables} {b b' : Board} {s : Sq} (hc : Core T b)
    (h : b.clearSquare T s = some b') :
    b'.abs.board = (fun q => if q = s then none else b.abs.board q) ∧ b'.abs.stm = b.abs.stm ∧
    b'.abs.castleK = b.abs.castleK ∧ b'.abs.castleQ = b.abs.castleQ ∧ b'.abs.ep = b.abs.ep := by
  rw [(clearSquare_spec hc h).2.2]
  exact ⟨rfl, rfl, rfl, rfl, rfl⟩

theorem C08_clearSquare_abs_eq {T : Tables} {b b' : Board} {s : Sq} (hc : Core T b)
    (h : b.clearSquare T s = some b') : b'.abs = b.abs.put s none := (clearSquare_spec hc h).2.2

example : ∃ b', Core codeTables depStart ∧ depStart.clearSquare codeTables 12 = some b' ∧
    b'.abs.board 12 = none ∧ b'.abs.board 11 = some (.pawn, .white) := by
  obtain ⟨b', hb⟩ := Option.isSome_iff_exists.mp depStart_clear_e2
  refine ⟨b', depStart_core, hb, ?_, ?_⟩
  · rw [(C08_clearSquare_abs depStart_core hb).1]; rfl
  · rw [(C08_clearSquare_abs depStart_core hb).1]; decide +kernel

/-! ### 3. the hash -/

/-- `get_hash` after an accepted `set_piece` is the from-scratch hash of the position the result denotes,
which is the edited position -/
theorem C08_setPiece_hash {T : Tables} {b b' : Board} {p : Piece} {c : Color} {s : Sq} (hc : Core T b)
    (h : b.setPiece T p c s = some b') : b'.getHash T = b'.abs.hashOf T :=
  getHash_eq_hashOf T b' (C08_setPiece_core hc h).hash

theorem C08_setPiece_hash_edited {T : Tables} {b b' : Board} {p : Piece} {c : Color} {s : Sq} (hc : Core T b)
    (h : b.setPiece T p c s = some b') : b'.getHash T = (b.abs.put s (some (p, c))).hashOf T := by
  rw [C08_setPiece_hash hc h, C08_setPiece_abs_eq hc h]

example : ∃ b', Core codeTables depStart ∧ depStart.setPiece codeTables .queen .black 3 = some b' ∧
    b'.getHash codeTables ≠ depStart.getHash codeTables := by
  have h : (depStart.setPiece codeTables .queen .black 3).map
      (fun b' => decide (b'.getHash codeTables ≠ depStart.getHash codeTables)) = some true := by decide +kernel
  cases he : depStart.setPiece codeTables .queen .black 3 with
  | none => rw [he] at h; cases h
  | some b' =>
    rw [he] at h
    exact ⟨b', depStart_core, rfl, of_decide_eq_true (Option.some.inj h)⟩

theorem C08_clearSquare_hash {T : Tables} {b b' : Board} {s : Sq} (hc : Core T b)
    (h : b.clearSquare T s = some b') : b'.getHash T = b'.abs.hashOf T :=
  getHash_eq_hashOf T b' (C08_clearSquare_core hc h).hash

theorem C08_clearSquare_hash_edited {T : Tables} {b b' : Board} {s : Sq} (hc : Core T b)
    (h : b.clearSquare T s = some b') : b'.getHash T = (b.abs.put s none).hashOf T := by
  rw [C08_clearSquare_hash hc h, C08_clearSquare_abs_eq hc h]

example : ∃ b', Core codeTables depStart ∧ depStart.clearSquare codeTables 12 = some b' := by
  obtain ⟨b', hb⟩ := Option.isSome_iff_exists.mp depStart_clear_e2
  exact ⟨b', depStart_core, hb⟩

/-- two edit orders reaching the same placement give the same `get_hash` -/
theorem C08_edit_path_independent {T : Tables} {b₁ b₂ : Board} (h₁ : Core T b₁) (h₂ : Core T b₂)
    (he : b₁.abs = b₂.abs) : b₁.getHash T = b₂.getHash T := by
  rw [getHash_eq_hashOf T b₁ h₁.hash, getHash_eq_hashOf T b₂ h₂.hash, he]

/-- clear e2 then put a knight on e4, or the other way round: same hash -/
example :
    ((depStart.clearSquare codeTables 12).bind fun b => b.setPiece codeTables .knight .white 28).map
      (Board.getHash codeTables) =
    ((depStart.setPiece codeTables .knight .white 28).bind fun b => b.clearSquare codeTables 12).map
      (Board.getHash codeTables) ∧
    ((depStart.clearSquare codeTables 12).bind fun b => b.setPiece codeTables .knight .white 28).isSome = true := by
  decide +kernel

/-! ### castling rights -/

/-- `add_castle_rights` touches nothing `Core` talks about -/
theorem C08_addCastleRights_core {T : Tables} {b : Board} (hc : Core T b) (c : Color) (x : CastleRights) :
    Core T (b.addCastleRights c x) :=
  (SamePl.core_iff T (samePl_setCastleRights b c _)).mpr hc

theorem C08_removeCastleRights_core {T : Tables} {b : Board} (hc : Core T b) (c : Color) (x : CastleRights) :
    Core T (b.removeCastleRights c x) :=
  (SamePl.core_iff T (samePl_setCastleRights b c _)).mpr hc

example : Core codeTables (depStart.removeCastleRights .white ⟨true, false⟩) :=
  C08_removeCastleRights_core depStart_core _ _

example : Core codeTables (depStart.addCastleRights .white ⟨true, false⟩) :=
  C08_addCastleRights_core depStart_core _ _

/-- the rights of colour `c` become `old.add x`, the other colour's rights, the men, the side and the ep mark
stay -/
theorem C08_addCastleRights_abs (b : Board) (c : Color) (x : CastleRights) :
    (∀ d, (b.addCastleRights c x).castleRights d =
      if d = c then (b.castleRights c).add x else b.castleRights d) ∧
    (b.addCastleRights c x).abs =
      { b.abs with
        castleK := fun d => if d = c then (b.abs.castleK c || x.ks) else b.abs.castleK d,
        castleQ := fun d => if d = c then (b.abs.castleQ c || x.qs) else b.abs.castleQ d } :=
  ⟨fun d => setCastleRights_castleRights b c d _, setCastleRights_abs b c _⟩

/-- the rights of colour `c` become `old.remove x` -/
theorem C08_removeCastleRights_abs (b : Board) (c : Color) (x : CastleRights) :
    (∀ d, (b.removeCastleRights c x).castleRights d =
      if d = c then (b.castleRights c).remove x else b.castleRights d) ∧
    (b.removeCastleRights c x).abs =
      { b.abs with
        castleK := fun d => if d = c then (b.abs.castleK c && !x.ks) else b.abs.castleK d,
        castleQ := fun d => if d = c then (b.abs.castleQ c && !x.qs) else b.abs.castleQ d } :=
  ⟨fun d => setCastleRights_castleRights b c d _, setCastleRights_abs b c _⟩

example : (depStart.removeCastleRights .white ⟨true, false⟩).abs.castleK .white = false ∧
    (depStart.removeCastleRights .white ⟨true, false⟩).abs.castleQ .white = true ∧
    (depStart.removeCastleRights .white ⟨true, false⟩).abs.castleK .black = true := by decide

theorem C08_addCastleRights_hash {T : Tables} {b : Board} (hc : Core T b) (c : Color) (x : CastleRights) :
    (b.addCastleRights c x).getHash T = (b.addCastleRights c x).abs.hashOf T :=
  getHash_eq_hashOf T _ (C08_addCastleRights_core hc c x).hash

theorem C08_removeCastleRights_hash {T : Tables} {b : Board} (hc : Core T b) (c : Color) (x : CastleRights) :
    (b.removeCastleRights c x).getHash T = (b.removeCastleRights c x).abs.hashOf T :=
  getHash_eq_hashOf T _ (C08_removeCastleRights_core hc c x).hash

example : (depStart.removeCastleRights .white ⟨true, false⟩).getHash codeTables ≠ depStart.getHash codeTables := by
  decide +kernel

/-- the cached check/pin fields do not depend on the rights -/
theorem C03_addCastleRights_pinOK {T : Tables} {b : Board} (hp : b.PinOK T) (c : Color) (x : CastleRights) :
    (b.addCastleRights c x).PinOK T := setCastleRights_pinOK hp c _

theorem C03_removeCastleRights_pinOK {T : Tables} {b : Board} (hp : b.PinOK T) (c : Color) (x : CastleRights) :
    (b.removeCastleRights c x).PinOK T := setCastleRights_pinOK hp c _

example : depStart.PinOK codeTables := Board.PinOK.tryFrom depStart_tryFrom

/-- a `Good` board stays `Good` when the new rights still describe a valid position (they always do after
`remove_castle_rights`; after `add_castle_rights` king and rook must stand on their home squares) -/
theorem C03_addCastleRights_good {T : Tables} {b : Board} (hg : b.Good T) (c : Color) (x : CastleRights)
    (hv : Valid (b.addCastleRights c x).abs = true) : (b.addCastleRights c x).Good T :=
  ⟨C08_addCastleRights_core hg.1 c x, C03_addCastleRights_pinOK hg.2.1 c x, hv⟩

theorem C03_removeCastleRights_good {T : Tables} {b : Board} (hg : b.Good T) (c : Color) (x : CastleRights)
    (hv : Valid (b.removeCastleRights c x).abs = true) : (b.removeCastleRights c x).Good T :=
  ⟨C08_removeCastleRights_core hg.1 c x, C03_removeCastleRights_pinOK hg.2.1 c x, hv⟩

theorem depStart_good : depStart.Good codeTables :=
  Final.good_tryFrom depStart_tryFrom (by decide +kernel)

example : depStart.Good codeTables ∧ Valid (depStart.removeCastleRights .white ⟨true, false⟩).abs = true :=
  ⟨depStart_good, by decide +kernel⟩

/-! ### 4. cached fields, `Good` -/

/-- the last statement of `set_piece` is `update_pin_info`: the cached fields of the result are the
from-scratch ones, whatever the board edited -/
theorem C03_setPiece_pinOK {T : Tables} {b b' : Board} {p : Piece} {c : Color} {s : Sq}
    (h : b.setPiece T p c s = some b') : b'.PinOK T := (editTail_fields h).2.2.2.2.2.2

theorem C03_clearSquare_pinOK {T : Tables} {b b' : Board} {s : Sq}
    (h : b.clearSquare T s = some b') : b'.PinOK T := (editTail_fields h).2.2.2.2.2.2

example : ∃ b', depStart.setPiece codeTables .queen .black 3 = some b' ∧ b'.checkers = BB.ofSq 3 := by
  have h := depStart_set_d1
  cases he : depStart.setPiece codeTables .queen .black 3 with
  | none => rw [he] at h; cases h
  | some b' => rw [he] at h; exact ⟨b', rfl, Option.some.inj h⟩

example : ∃ b', depStart.clearSquare codeTables 12 = some b' :=
  Option.isSome_iff_exists.mp depStart_clear_e2

/-- what an accepted edit returns, with no hypothesis: `update_pin_info` of the edited board (the two flips
of the side to move cancel) -/
theorem C03_setPiece_eq {T : Tables} {b b' : Board} {p : Piece} {c : Color} {s : Sq}
    (h : b.setPiece T p c s = some b') :
    b' = Board.updatePinInfo T ((Board.removeAt T b s).xor T p (BB.ofSq s) c) := (editTail_some h).2

theorem C03_clearSquare_eq {T : Tables} {b b' : Board} {s : Sq} (h : b.clearSquare T s = some b') :
    b' = Board.updatePinInfo T (Board.removeAt T b s) := (editTail_some h).2

/-- headline: an accepted `set_piece` on a consistent board that yields a valid position yields a `Good`
board: every theorem about `Good` boards applies to it -/
theorem C03_setPiece_good {T : Tables} {b b' : Board} {p : Piece} {c : Color} {s : Sq} (hc : Core T b)
    (h : b.setPiece T p c s = some b') (hv : Valid b'.abs = true) : b'.Good T :=
  ⟨C08_setPiece_core hc h, C03_setPiece_pinOK h, hv⟩

theorem C03_clearSquare_good {T : Tables} {b b' : Board} {s : Sq} (hc : Core T b)
    (h : b.clearSquare T s = some b') (hv : Valid b'.abs = true) : b'.Good T :=
  ⟨C08_clearSquare_core hc h, C03_clearSquare_pinOK h, hv⟩

/-- in terms of the edited position -/
theorem C03_setPiece_good' {T : Tables} {b b' : Board} {p : Piece} {c : Color} {s : Sq} (hc : Core T b)
    (h : b.setPiece T p c s = some b') (hv : Valid (b.abs.put s (some (p, c))) = true) : b'.Good T :=
  C03_setPiece_good hc h (by rw [C08_setPiece_abs_eq hc h]; exact hv)

theorem C03_clearSquare_good' {T : Tables} {b b' : Board} {s : Sq} (hc : Core T b)
    (h : b.clearSquare T s = some b') (hv : Valid (b.abs.put s none) = true) : b'.Good T :=
  C03_clearSquare_good hc h (by rw [C08_clearSquare_abs_eq hc h]; exact hv)

/-- initial position with the e2 pawn replaced by a white knight: valid, so the result is `Good` and, for
instance, its cached checkers are the specification's -/
example : ∃ b', Core codeTables depStart ∧ depStart.setPiece codeTables .knight .white 12 = some b' ∧
    Valid b'.abs = true ∧ b'.Good codeTables ∧ (b'.checkers = 0#64 ↔ inCheck b'.abs b'.stm = false) := by
  have h : (depStart.setPiece codeTables .knight .white 12).isSome = true := by decide +kernel
  obtain ⟨b', hb⟩ := Option.isSome_iff_exists.mp h
  have hv : Valid (depStart.abs.put 12 (some (.knight, .white))) = true := by decide +kernel
  have hg := C03_setPiece_good' depStart_core hb hv
  exact ⟨b', depStart_core, hb, hg.2.2, hg, Board.Good.checkers_zero_iff codeTables_ok hg⟩

example : ∃ b', Core codeTables depStart ∧ depStart.clearSquare codeTables 12 = some b' ∧
    Valid b'.abs = true ∧ b'.Good codeTables := by
  obtain ⟨b', hb⟩ := Option.isSome_iff_exists.mp depStart_clear_e2
  have hv : Valid (depStart.abs.put 12 none) = true := by decide +kernel
  have hg := C03_clearSquare_good' depStart_core hb hv
  exact ⟨b', depStart_core, hb, hg.2.2, hg⟩

/-! ### 5. refusal -/

/-- with no hypothesis: `None` iff `update_pin_info` of the edited board with the side flipped reports a
checker -/
theorem C03_setPiece_none_iff (T : Tables) (b : Board) (p : Piece) (c : Color) (s : Sq) :
    b.setPiece T p c s = none ↔
      (Board.updatePinInfo T { (Board.removeAt T b s).xor T p (BB.ofSq s) c with
        stm := ((Board.removeAt T b s).xor T p (BB.ofSq s) c).stm.other }).checkers ≠ 0#64 :=
  editTail_none_iff T _

theorem C03_clearSquare_none_iff (T : Tables) (b : Board) (s : Sq) :
    b.clearSquare T s = none ↔
      (Board.updatePinInfo T { Board.removeAt T b s with stm := (Board.removeAt T b s).stm.other }).checkers
        ≠ 0#64 :=
  editTail_none_iff T _

/-- `set_piece` refuses exactly when the side not to move would be in check in the edited position.
Hypotheses on the edited position: that side has exactly one king, and the mover's king(s) do not stand next
to it (`update_pin_info` does not look at the enemy king, the specification's `inCheck` does) -/
theorem C03_setPiece_refuses {T : Tables} (hT : TablesOK T) {b : Board} (hc : Core T b) (p : Piece) (c : Color)
    (s : Sq) (hk : count (b.abs.put s (some (p, c))) (· == (.king, b.stm.other)) = 1)
    (hkk : ∀ x k, (b.abs.put s (some (p, c))).board x = some (.king, b.stm) →
      (b.abs.put s (some (p, c))).board k = some (.king, b.stm.other) →
      attacks (b.abs.put s (some (p, c))) x k = false) :
    b.setPiece T p c s = none ↔ inCheck (b.abs.put s (some (p, c))) b.stm.other = true :=
  setPiece_refuses hT hc p c s hk hkk

/-- the hypotheses hold for the white queen put on e7 in the initial position; the edit is refused and Black
would indeed be in check -/
example : Core codeTables depStart ∧
    count (depStart.abs.put 52 (some (.queen, .white))) (· == (.king, depStart.stm.other)) = 1 ∧
    (∀ x k, (depStart.abs.put 52 (some (.queen, .white))).board x = some (.king, depStart.stm) →
      (depStart.abs.put 52 (some (.queen, .white))).board k = some (.king, depStart.stm.other) →
      attacks (depStart.abs.put 52 (some (.queen, .white))) x k = false) ∧
    depStart.setPiece codeTables .queen .white 52 = none ∧
    inCheck (depStart.abs.put 52 (some (.queen, .white))) depStart.stm.other = true := by
  refine ⟨depStart_core, by decide +kernel, by decide +kernel, depStart_set_e7, by decide +kernel⟩

theorem C03_clearSquare_refuses {T : Tables} (hT : TablesOK T) {b : Board} (hc : Core T b) (s : Sq)
    (hk : count (b.abs.put s none) (· == (.king, b.stm.other)) = 1)
    (hkk : ∀ x k, (b.abs.put s none).board x = some (.king, b.stm) →
      (b.abs.put s none).board k = some (.king, b.stm.other) → attacks (b.abs.put s none) x k = false) :
    b.clearSquare T s = none ↔ inCheck (b.abs.put s none) b.stm.other = true :=
  clearSquare_refuses hT hc s hk hkk

/-- White Ke1, Re2; Black Ke8, Be7, White to move: clearing e7 (52) would leave Black, not to move, in
check from the rook, so `clear_square` refuses -/
def depPinBd : Builder where
  pieces s := match s.val with
    | 4 => some (.king, .white) | 12 => some (.rook, .white)
    | 60 => some (.king, .black) | 52 => some (.bishop, .black) | _ => none
  stm := .white
  wcr := .noRights
  bcr := .noRights
  epFile := none

example : ∃ b, Board.tryFrom codeTables depPinBd = some b ∧ Core codeTables b ∧
    b.clearSquare codeTables 52 = none := by
  have h : (Board.tryFrom codeTables depPinBd).isSome = true := by decide +kernel
  obtain ⟨b, hb⟩ := Option.isSome_iff_exists.mp h
  have h2 : (Board.tryFrom codeTables depPinBd).bind (fun b => b.clearSquare codeTables 52) = none := by
    decide +kernel
  rw [hb] at h2
  exact ⟨b, hb, (tryFrom_spec _ _ _ hb).1, h2⟩

/-- the hypotheses of `C03_clearSquare_refuses` on the initial position with e2 cleared (accepted: Black is
not in check there) -/
example : Core codeTables depStart ∧ count (depStart.abs.put 12 none) (· == (.king, depStart.stm.other)) = 1 ∧
    (∀ x k, (depStart.abs.put 12 none).board x = some (.king, depStart.stm) →
      (depStart.abs.put 12 none).board k = some (.king, depStart.stm.other) →
      attacks (depStart.abs.put 12 none) x k = false) ∧
    inCheck (depStart.abs.put 12 none) depStart.stm.other = false := by
  refine ⟨depStart_core, by decide +kernel, by decide +kernel, by decide +kernel⟩

/-! ### the remaining helpers of the model file -/

/-- `rook_square_to_castle_rights`: a-file → queen side, h-file → king side, otherwise none -/
theorem C08_rookSquareToCastleRights (s : Sq) :
    rookSquareToCastleRights s =
      ⟨decide (s.val % 8 = 7), decide (s.val % 8 = 0)⟩ := by
  revert s; decide +kernel

end Chess.Props
