import ChessVerif.Props.Compose
import ChessVerif.Props.C17
/-!
# Composition of C01 / C04 with C17: the symmetries on the library's boards

* `C17_model_mirror`, `C17_model_flip` — the library's generated moves, `Board::legal` and `Board::status`
  on two well-formed boards holding mirror-image positions (file-flipped positions without castling rights)
  correspond;
* `C17_model_mirror_exists`, `C17_model_flip_exists` — the image of the position of a board reached by play
  can be set up through `try_from`, and the board built holds exactly the image.
-/
namespace Chess.Props
open Chess.Final

variable {T : Tables} {b : Board}

/-! ### C17 -/

/-- **C17 on the library.** Two well-formed boards holding a valid position and its colour/rank mirror image:
the generated moves of one are the mirror images of the generated moves of the other, `Board::legal`
agrees, and the statuses are equal. -/
theorem C17_model_mirror (hT : TablesOK T) {b₂ : Board} (hg : b.Good T) (hg₂ : b₂.Good T)
    (h : b₂.abs = b.abs.mirror) :
    (∀ m : Move, m ∈ b.legalMoves T ↔ m.mirror ∈ b₂.legalMoves T) ∧
    (∀ m : Move, b₂.legal T m.mirror = b.legal T m) ∧
    b₂.status T = b.status T := by
  have h1 := C17_valid_unique_king hg.valid b.abs.stm
  refine C17_model_transfer hT hg hg₂ Move.mirror (fun m => ?_) ?_
  · rw [h]; exact C17_mirror_legal b.abs h1 m
  · rw [h]; exact C17_mirror_status b.abs h1

/-- the mirror image of the position of a board reached by play can be set up, and the board built holds
exactly the mirror image -/
theorem C17_model_mirror_exists (hT : TablesOK T) (hr : PlayReachable T b) :
    ∃ b₂, Board.tryFrom T b.abs.mirror.toBuilder = some b₂ ∧ b₂.abs = b.abs.mirror ∧ b₂.Good T := by
  have hi := reachInv_of_playReachable hT hr
  have hv : Valid b.abs.mirror = true := by rw [C17_mirror_valid]; exact hi.valid
  obtain ⟨b₂, ht, habs, hg⟩ := good_of_valid_pos hT hv
  refine ⟨b₂, ht, ?_, hg⟩
  rw [habs, ← C17_mirror_norm, hi.epn]

/-- the same for the file flip, for positions without castling rights -/
theorem C17_model_flip (hT : TablesOK T) {b₂ : Board} (hg : b.Good T) (hg₂ : b₂.Good T)
    (hn : NoCastle b.abs) (h : b₂.abs = b.abs.flipFiles) :
    (∀ m : Move, m ∈ b.legalMoves T ↔ m.flipFile ∈ b₂.legalMoves T) ∧
    (∀ m : Move, b₂.legal T m.flipFile = b.legal T m) ∧
    b₂.status T = b.status T := by
  have h1 := C17_valid_unique_king hg.valid b.abs.stm
  refine C17_model_transfer hT hg hg₂ Move.flipFile (fun m => ?_) ?_
  · rw [h]; exact C17_flip_legal b.abs hn h1 m
  · rw [h]; exact C17_flip_status b.abs hn h1

theorem C17_model_flip_exists (hT : TablesOK T) (hr : PlayReachable T b) (hn : NoCastle b.abs) :
    ∃ b₂, Board.tryFrom T b.abs.flipFiles.toBuilder = some b₂ ∧ b₂.abs = b.abs.flipFiles ∧ b₂.Good T := by
  have hi := reachInv_of_playReachable hT hr
  have hv : Valid b.abs.flipFiles = true := by rw [C17_flip_valid _ hn]; exact hi.valid
  obtain ⟨b₂, ht, habs, hg⟩ := good_of_valid_pos hT hv
  refine ⟨b₂, ht, ?_, hg⟩
  rw [habs, ← C17_flip_norm, hi.epn]

/-! ### non-vacuity -/

section Examples
open GameExamples

/-- the initial position and its mirror image, both set up through `try_from` with the code's tables -/
example : ∃ b b₂ : Board, b.Good codeTables ∧ b₂.Good codeTables ∧ b₂.abs = b.abs.mirror ∧
    (∀ m : Move, m ∈ b.legalMoves codeTables ↔ m.mirror ∈ b₂.legalMoves codeTables) ∧
    b₂.status codeTables = b.status codeTables := by
  obtain ⟨b, ht, _, hg⟩ := C01_good_of_valid_pos codeTables_ok startPos_valid
  have hr : PlayReachable codeTables b := .start _ b ht hg.valid
  obtain ⟨b₂, _, h2, hg₂⟩ := C17_model_mirror_exists codeTables_ok hr
  have r := C17_model_mirror codeTables_ok hg hg₂ h2
  exact ⟨b, b₂, hg, hg₂, h2, r.1, r.2.2⟩

end Examples

end Chess.Props
