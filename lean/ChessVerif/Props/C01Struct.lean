import ChessVerif.Lemmas.Entries
import ChessVerif.Lemmas.Sane
import ChessVerif.CodeTables
/-!
# C01 (structural half) — what `enumerate_moves` generates, in terms of bits only

No chess geometry here.  The statements describe the entry list `MoveGen.enumerate T b` and the
generated move list `Board.legalMoves T b` for **every** table set `T` and **every** `Board` value `b`
through the per-source destination sets exactly as the code computes them (`Lemmas/Entries.lean`):

* `Entries.own b p` — the men of kind `p` of the side to move, `b.pieces p &&& b.colorCombined b.stm`;
* `Entries.dests T b inCheck p src` — `destsPawn` / `destsKnight` / `destsGeneric` (bishop, rook, queen) /
  `destsKing`; `Entries.promoFlag b p src` — `src.getRank = seventhRank` for pawns, `false` otherwise;
* `Entries.epSources T b epSq`, `Entries.epDest b epSq = epSq.uforward b.stm` — the en-passant entries;
* `Entries.IsEntry T b inCheck e`, `Entries.IsMove T b inCheck m` — "an own non-king man's entry / move,
  or an en-passant entry / move, or the king entry / a king move".

The proof that generated moves = FIDE-legal moves only has to relate these destination sets to geometry.
-/
namespace Chess.Props
open Chess.Entries Chess.MoveGen

/-- 1. a move is generated iff some entry has its source, its destination bit, and the promotion shape -/
theorem C01S_mem_legalMoves_iff (T : Tables) (b : Board) (m : Move) :
    m ∈ b.legalMoves T ↔ ∃ e ∈ enumerate T b, e.sq = m.src ∧ e.bb.getLsbD m.dst.val = true ∧
      (if e.promo then ∃ q ∈ promotionPieces, m.promo = some q else m.promo = none) :=
  mem_legalMoves_iff T b m

/-- 2a. the entry list is, in this order: pawn entries, en-passant entries, knight, bishop, rook, queen
entries (per kind: unpinned men in square order, then pinned men), then the king entry; with two or
more checkers only the king entry -/
theorem C01S_enumerate_eq (T : Tables) (b : Board) :
    enumerate T b =
      if b.checkers = 0#64 then secAll T b false
      else if b.checkers.popcnt = 1 then secAll T b true
      else secKing T b true := enumerate_eq T b

/-- 2b. membership in the entry list in the three check regimes -/
theorem C01S_mem_enumerate_iff (T : Tables) (b : Board) (e : Entry) :
    e ∈ enumerate T b ↔
      if b.checkers = 0#64 then IsEntry T b false e
      else if b.checkers.popcnt = 1 then IsEntry T b true e
      else destsKing T b true ≠ 0#64 ∧ e = ⟨b.kingSquare b.stm, destsKing T b true, false⟩ :=
  mem_enumerate_iff T b e

/-- 3. membership in the generated move list, by the kind of man on the source square -/
theorem C01S_mem_legalMoves_cases (T : Tables) (b : Board) (m : Move) :
    m ∈ b.legalMoves T ↔
      if b.checkers = 0#64 then IsMove T b false m
      else if b.checkers.popcnt = 1 then IsMove T b true m
      else m.src = b.kingSquare b.stm ∧ (destsKing T b true).getLsbD m.dst.val = true ∧ m.promo = none :=
  mem_legalMoves_cases T b m

/-- 3'. with disjoint piece boards the kind `p` in `IsMove` / `IsEntry` is determined by the source square -/
theorem C01S_kind_unique {b : Board} (hs : Struct b) {p q : Piece} {s : Sq}
    (hp : (own b p).getLsbD s.val = true) (hq : (own b q).getLsbD s.val = true) : p = q :=
  kind_unique hs hp hq

/-- the first loop of `KingType::legals`, bit by bit -/
theorem C01S_kingSteps_getLsbD (T : Tables) (b : Board) (s : Sq) :
    (kingSteps T b).getLsbD s.val =
      ((T.king (b.kingSquare b.stm) &&& ownMask b).getLsbD s.val && legalKingMove T b s) :=
  kingSteps_getLsbD T b s

/-- 4. no move is generated twice: piece boards disjoint, the side to move has a king bit, and the
en-passant destination is not an ordinary destination of the capturing pawn -/
theorem C01S_legalMoves_nodup (T : Tables) (b : Board) (hs : Struct b) (hk : own b .king ≠ 0#64)
    (hep : NoEpClash T b (decide (b.checkers ≠ 0#64))) : (b.legalMoves T).Nodup :=
  legalMoves_nodup T b hs hk hep

/-- 4'. the entries are pairwise apart (different sources, or no common destination) -/
theorem C01S_enumerate_apart (T : Tables) (b : Board) (hs : Struct b) (hk : own b .king ≠ 0#64)
    (hep : NoEpClash T b (decide (b.checkers ≠ 0#64))) : (enumerate T b).Pairwise Apart :=
  enumerate_apart T b hs hk hep

/-- a regime-independent sufficient form of the en-passant hypothesis -/
theorem C01S_noEpClash_of_pseudo (T : Tables) (b : Board)
    (h : ∀ epSq src : Sq, b.ep = some epSq → (epSources T b epSq).getLsbD src.val = true →
      (pseudoLegals T .pawn src b.stm b.combined (ownMask b)).getLsbD (epDest b epSq).val = false)
    (ic : Bool) : NoEpClash T b ic := noEpClash_of_pseudo T b h ic

/-- 5a. `Board::legal(m)` is membership in the generated list -/
theorem C01S_legal_query_iff (T : Tables) (b : Board) (m : Move) :
    b.legal T m = true ↔ m ∈ b.legalMoves T := legal_query_iff T b m

/-- 5b. `Board::legal` and the generator agree on every one of the 64 × 64 × 7 move values -/
theorem C01S_enumerate_moves_eq (T : Tables) (b : Board) :
    (∀ m : Move, m ∈ allMoveValues) ∧ allMoveValues.length = 64 * 64 * 7 ∧ allMoveValues.Nodup ∧
    (∀ m, m ∈ allMoveValues.filter (fun m => b.legal T m) ↔ m ∈ b.legalMoves T) ∧
    ((b.legalMoves T).Nodup → (allMoveValues.filter fun m => b.legal T m).Perm (b.legalMoves T)) :=
  ⟨mem_allMoveValues, allMoveValues_length, allMoveValues_nodup, mem_filter_legal_iff T b,
    filter_legal_perm T b⟩

/-! ### non-vacuity -/

/-- White: Ke1, Pe5; Black: Ke8, Pd5 (just played d7-d5, so `ep = some d5`); White to move -/
def exEpBoard : Board :=
  { pawns := 0x0000001800000000#64, knights := 0#64, bishops := 0#64, rooks := 0#64, queens := 0#64,
    kings := 0x1000000000000010#64, white := 0x0000001000000010#64, black := 0x1000000800000000#64,
    combined := 0x1000001800000010#64, stm := .white, wcr := .noRights, bcr := .noRights,
    pinned := 0#64, checkers := 0#64, hash := 0#64, ep := some ⟨35, by decide⟩ }

example : Struct exEpBoard :=
  Struct.of_eqs' (by intro x y h; cases x <;> cases y <;> first | exact absurd rfl h | decide)
    (by decide) (by decide) (by decide)
example : own exEpBoard .king ≠ 0#64 := by decide
set_option maxRecDepth 100000 in
example : NoEpClash codeTables exEpBoard (decide (exEpBoard.checkers ≠ 0#64)) := by
  unfold NoEpClash; decide +kernel
set_option maxRecDepth 100000 in
/-- e5-e6, e5xd6 e.p. (a second entry with source e5), and five king moves -/
example : (exEpBoard.legalMoves codeTables).length = 7 ∧
    (⟨⟨36, by decide⟩, ⟨43, by decide⟩, none⟩ : Move) ∈ exEpBoard.legalMoves codeTables ∧
    (enumerate codeTables exEpBoard).map (·.sq) = [⟨36, by decide⟩, ⟨36, by decide⟩, ⟨4, by decide⟩] := by
  decide +kernel

end Chess.Props
