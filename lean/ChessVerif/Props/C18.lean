import ChessVerif.Lemmas.MakeMove
import ChessVerif.CodeTables
/-!
# C18 — `null_move`

`Board.nullMove` is the model of `Board::null_move`.  For every board and table set: it returns `None`
exactly when the cached `checkers` is non-empty; otherwise the result has the same placement
(`content`, square by square) and castling rights, the other side to move, no ep mark, keeps the
invariant `Core`, and its cached `pinned`/`checkers` are the ones computed from scratch
(`update_pin_info` of the result is the result).  The hash of the result is the position hash.
-/
namespace Chess.Props

theorem C18_null_none_iff (T : Tables) (b : Board) : b.nullMove T = none ↔ b.checkers ≠ 0#64 :=
  nullMove_none_iff T b

theorem C18_null_some (T : Tables) (b b' : Board) (h : b.nullMove T = some b') :
    b'.content = b.content ∧ b'.wcr = b.wcr ∧ b'.bcr = b.bcr ∧ b'.stm = b.stm.other ∧ b'.ep = none ∧
    (Core T b → Core T b') ∧ Board.updatePinInfo T b' = b' := by
  obtain ⟨hs, h1, h2, h3, h4, h5⟩ := nullMove_spec T b b' h
  exact ⟨hs.content_eq, h1, h2, h3, h4, (hs.core_iff T).mpr, h5⟩

/-- on the abstraction: the position after a null move is the same position with the side flipped and the
ep mark cleared -/
theorem C18_null_abs (T : Tables) (b b' : Board) (h : b.nullMove T = some b') :
    b'.abs = { b.abs with stm := b.stm.other, ep := none } := by
  obtain ⟨_, e⟩ := nullMove_some T b b' h
  subst e
  rfl

theorem C18_null_hash (T : Tables) (b b' : Board) (hc : Core T b) (h : b.nullMove T = some b') :
    b'.getHash T = b'.abs.hashOf T :=
  getHash_eq_hashOf T b' (((C18_null_some T b b' h).2.2.2.2.2.1) hc).hash

/-- `null_move` never touches its argument (it is a pure function of `&self`) and the result differs from the
source in the side to move -/
theorem C18_null_flips (T : Tables) (b b' : Board) (h : b.nullMove T = some b') : b'.stm ≠ b.stm := by
  rw [(C18_null_some T b b' h).2.2.2.1]; exact Color.other_ne b.stm

/-! non-vacuity: kings on e1/e8 and a white pawn on e4, white to move, built by `try_from` with the
code's tables: the null move exists, black is to move afterwards, and a board in check has none -/
def c18ExNullBd : Builder where
  pieces s := match s.val with
    | 4 => some (.king, .white) | 28 => some (.pawn, .white) | 60 => some (.king, .black) | _ => none
  stm := .white
  wcr := .noRights
  bcr := .noRights
  epFile := none

set_option maxRecDepth 100000 in
example : ((Board.tryFrom codeTables c18ExNullBd).bind (Board.nullMove codeTables)).map (·.stm) = some .black := by
  decide +kernel

/-- white Ke1 in check from a black rook on e8 (black king a8): no null move -/
def c18ExCheckBd : Builder where
  pieces s := match s.val with
    | 4 => some (.king, .white) | 60 => some (.rook, .black) | 56 => some (.king, .black) | _ => none
  stm := .white
  wcr := .noRights
  bcr := .noRights
  epFile := none

set_option maxRecDepth 100000 in
example : (Board.tryFrom codeTables c18ExCheckBd).isSome = true ∧
    (Board.tryFrom codeTables c18ExCheckBd).bind (Board.nullMove codeTables) = none := by
  decide +kernel

end Chess.Props
