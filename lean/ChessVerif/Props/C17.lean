import ChessVerif.Lemmas.Sym
/-!
# C17 — colour/rank mirror and file flip are symmetries of the rules

"Swapping the colours and flipping the board top to bottom (side to move, castling rights and
en-passant state swapped accordingly) maps the legal moves, the status, the check and pin sets and
every successor position of a position onto those of its mirror image.  For positions without
castling rights the same holds for flipping the board left to right."

Everything here is about the FIDE specification `Spec/Rules.lean` (`Pos`, `legal`, `apply`, `status`,
`checkerSq`, `pinnedSq`, `Valid`, `norm`) and the maps `Sq.mirror`, `Move.mirror`, `Pos.mirror`,
`Sq.flipFile`, `Move.flipFile`, `Pos.flipFiles` defined there.  All statements hold for ALL positions
(no validity assumption) except:

* whatever looks up the king (`kingSq?`, `inCheck`, hence `legal`, `legalMoves`, `status`,
  `checkerSq`, `pinnedSq`) needs "at most one king of the colour concerned",
  `count p (· == (.king, c)) ≤ 1`, because `kingSq?` returns the first king in a1..h8 order;
  `C17_mirror_inCheck_counterexample` shows the hypothesis cannot be dropped.  `Valid p` implies it
  (`C17_valid_unique_king`), and `Valid` itself is mirror-invariant without any hypothesis;
* the file flip needs "no castling rights" (`NoCastle p`), and `apply` commutes with the file flip
  only for moves that are not a two-file king move (`isCastle p m = false`; every pseudo-legal move
  of a position without castling rights is such): `apply` relocates a rook to file d/f for any
  two-file king move, which is not left/right symmetric (`C17_flip_apply_counterexample`).
-/
set_option maxRecDepth 100000
namespace Chess.Props
open Chess.Sym (mirror_pos flip_pos mirror_dir flip_dir)

/-- the hypothesis used for king look-ups: at most one king of colour `c` -/
abbrev OneKing (p : Pos) (c : Color) : Prop := count p (· == (.king, c)) ≤ 1

theorem C17_valid_unique_king {p : Pos} (h : Valid p = true) (c : Color) : OneKing p c := by
  rw [Valid_eq] at h
  simp only [Bool.and_eq_true, List.all_cons, List.all_nil, Bool.and_true] at h
  cases c
  · have := h.1.1.1.1; simp only [validSide, Bool.and_eq_true, beq_iff_eq] at this; unfold OneKing; omega
  · have := h.1.1.1.2; simp only [validSide, Bool.and_eq_true, beq_iff_eq] at this; unfold OneKing; omega

/-! ## 1. geometry -/

theorem C17_mirror_involutive (s : Sq) : s.mirror.mirror = s := Sq.mirror_mirror s
theorem C17_mirror_file (s : Sq) : s.mirror.file = s.file := Sq.mirror_file s
theorem C17_mirror_rank (s : Sq) : s.mirror.rank = 7 - s.rank := Sq.mirror_rank s
theorem C17_mirror_move_involutive (m : Move) : m.mirror.mirror = m := Sym.mirror.mv_mv m
theorem C17_mirror_strictlyBetween (a x b : Sq) :
    strictlyBetween a.mirror x.mirror b.mirror = strictlyBetween a x b := Sym.mirror.strictlyBetween_sym a x b
/-- rays transform with the direction reflected: n↔s, ne↔se, nw↔sw -/
theorem C17_mirror_onRay (a : Sq) (u : Dir) (n : Nat) (b : Sq) :
    onRay a.mirror u.mirror n b.mirror = onRay a u n b := by
  rw [mirror_dir]; exact Sym.mirror.onRay_sym a u n b
theorem C17_mirror_aligned (ds : List Dir) (hds : ds = rookDirs ∨ ds = bishopDirs ∨ ds = allDirs) (a b : Sq) :
    aligned ds a.mirror b.mirror = aligned ds a b := by
  rcases hds with h | h | h <;> subst h
  · exact Sym.mirror.aligned_sym Sym.dirsClosed_rook a b
  · exact Sym.mirror.aligned_sym Sym.dirsClosed_bishop a b
  · exact Sym.mirror.aligned_sym Sym.dirsClosed_all a b

theorem C17_flip_involutive (s : Sq) : s.flipFile.flipFile = s := Sq.flipFile_flipFile s
theorem C17_flip_file (s : Sq) : s.flipFile.file = 7 - s.file := Sq.flipFile_file s
theorem C17_flip_rank (s : Sq) : s.flipFile.rank = s.rank := Sq.flipFile_rank s
theorem C17_flip_move_involutive (m : Move) : m.flipFile.flipFile = m := Sym.flip.mv_mv m
theorem C17_flip_strictlyBetween (a x b : Sq) :
    strictlyBetween a.flipFile x.flipFile b.flipFile = strictlyBetween a x b := Sym.flip.strictlyBetween_sym a x b
/-- rays transform with the direction reflected: e↔w, ne↔nw, se↔sw -/
theorem C17_flip_onRay (a : Sq) (u : Dir) (n : Nat) (b : Sq) :
    onRay a.flipFile u.flipFile n b.flipFile = onRay a u n b := by
  rw [flip_dir]; exact Sym.flip.onRay_sym a u n b
theorem C17_flip_aligned (ds : List Dir) (hds : ds = rookDirs ∨ ds = bishopDirs ∨ ds = allDirs) (a b : Sq) :
    aligned ds a.flipFile b.flipFile = aligned ds a b := by
  rcases hds with h | h | h <;> subst h
  · exact Sym.flip.aligned_sym Sym.dirsClosed_rook a b
  · exact Sym.flip.aligned_sym Sym.dirsClosed_bishop a b
  · exact Sym.flip.aligned_sym Sym.dirsClosed_all a b

/-- quantifying over all squares is insensitive to the mirror (it permutes `allSq`) -/
theorem C17_any_mirror (f : Sq → Bool) : allSq.any f = allSq.any fun s => f s.mirror := Sym.mirror.any_sym f
theorem C17_all_mirror (f : Sq → Bool) : allSq.all f = allSq.all fun s => f s.mirror := Sym.mirror.all_sym f

/-! ## 2.–4. colour / rank mirror -/

theorem C17_mirror_pathClear (p : Pos) (a b : Sq) : pathClear p.mirror a.mirror b.mirror = pathClear p a b := by
  rw [mirror_pos]; exact Sym.mirror.pathClear_sym p a b

theorem C17_mirror_attacks (p : Pos) (a b : Sq) : attacks p.mirror a.mirror b.mirror = attacks p a b := by
  rw [mirror_pos]; exact Sym.mirror.attacks_sym p a b

theorem C17_mirror_attackedBy (p : Pos) (c : Color) (t : Sq) :
    attackedBy p.mirror c.other t.mirror = attackedBy p c t := by
  rw [mirror_pos]; exact Sym.mirror.attackedBy_sym p c t

theorem C17_mirror_kingSq (p : Pos) (c : Color) (h1 : OneKing p c) :
    kingSq? p.mirror c.other = (kingSq? p c).map Sq.mirror := by
  rw [mirror_pos]; exact Sym.mirror.kingSq?_sym p c (UniqueKing.of_count h1)

theorem C17_mirror_inCheck (p : Pos) (c : Color) (h1 : OneKing p c) : inCheck p.mirror c.other = inCheck p c := by
  rw [mirror_pos]; exact Sym.mirror.inCheck_sym p c (UniqueKing.of_count h1)

theorem C17_mirror_pseudoLegal (p : Pos) (m : Move) : pseudoLegal p.mirror m.mirror = pseudoLegal p m := by
  rw [mirror_pos]; exact Sym.mirror.pseudoLegal_sym p (Sym.ok_mirror p) m

/-- every successor position: the successor of the mirror image is the mirror image of the successor
(equality of positions, all five fields) -/
theorem C17_mirror_apply (p : Pos) (m : Move) : (apply p m).mirror = apply p.mirror m.mirror := by
  rw [mirror_pos, mirror_pos]
  exact Sym.mirror.apply_sym p (Sym.ok_mirror p) m (fun h => by cases h)

theorem C17_mirror_legal (p : Pos) (h1 : OneKing p p.stm) (m : Move) : legal p.mirror m.mirror = legal p m := by
  rw [mirror_pos]; exact Sym.mirror.legal_sym p (Sym.ok_mirror p) (UniqueKing.of_count h1) m

theorem C17_mirror_legalMoves (p : Pos) (h1 : OneKing p p.stm) (m : Move) :
    m ∈ legalMoves p ↔ m.mirror ∈ legalMoves p.mirror := by
  rw [mirror_pos]; exact (Sym.mirror.mem_legalMoves_sym p (Sym.ok_mirror p) (UniqueKing.of_count h1) m).symm

/-- the legal moves of the mirror image are exactly the mirror images of the legal moves -/
theorem C17_mirror_legalMoves' (p : Pos) (h1 : OneKing p p.stm) (m' : Move) :
    m' ∈ legalMoves p.mirror ↔ ∃ m ∈ legalMoves p, m.mirror = m' := by
  constructor
  · intro h
    refine ⟨m'.mirror, ?_, C17_mirror_move_involutive m'⟩
    rw [C17_mirror_legalMoves p h1, C17_mirror_move_involutive]; exact h
  · rintro ⟨m, hm, rfl⟩; exact (C17_mirror_legalMoves p h1 m).mp hm

theorem C17_mirror_status (p : Pos) (h1 : OneKing p p.stm) : status p.mirror = status p := by
  rw [mirror_pos]; exact Sym.mirror.status_sym p (Sym.ok_mirror p) (UniqueKing.of_count h1)

theorem C17_mirror_checkers (p : Pos) (h1 : OneKing p p.stm) (x : Sq) : checkerSq p.mirror x.mirror = checkerSq p x := by
  rw [mirror_pos]; exact Sym.mirror.checkerSq_sym p (UniqueKing.of_count h1) x

theorem C17_mirror_pinned (p : Pos) (h1 : OneKing p p.stm) (y : Sq) : pinnedSq p.mirror y.mirror = pinnedSq p y := by
  rw [mirror_pos]; exact Sym.mirror.pinnedSq_sym p (UniqueKing.of_count h1) y

theorem C17_mirror_valid (p : Pos) : Valid p.mirror = Valid p := by
  rw [mirror_pos]; exact Sym.mirror.valid_sym p (Sym.ok_mirror p)

theorem C17_mirror_norm (p : Pos) : (norm p).mirror = norm p.mirror := by
  rw [mirror_pos, mirror_pos]; exact Sym.mirror.norm_sym p

/-- the property as quoted, for valid positions: legal moves, status, checkers, pinned men and successor
positions of `p.mirror` are the mirror images of those of `p`, and `p.mirror` is valid again -/
theorem C17_mirror (p : Pos) (hv : Valid p = true) :
    Valid p.mirror = true ∧
    (∀ m, m ∈ legalMoves p ↔ m.mirror ∈ legalMoves p.mirror) ∧
    status p.mirror = status p ∧
    inCheck p.mirror p.mirror.stm = inCheck p p.stm ∧
    (∀ x, checkerSq p.mirror x.mirror = checkerSq p x) ∧
    (∀ y, pinnedSq p.mirror y.mirror = pinnedSq p y) ∧
    (∀ m, (apply p m).mirror = apply p.mirror m.mirror) := by
  have h1 := C17_valid_unique_king hv p.stm
  exact ⟨by rw [C17_mirror_valid]; exact hv, C17_mirror_legalMoves p h1, C17_mirror_status p h1,
    C17_mirror_inCheck p p.stm h1, C17_mirror_checkers p h1, C17_mirror_pinned p h1, C17_mirror_apply p⟩

/-! ## file flip, for positions without castling rights -/

theorem C17_flip_pathClear (p : Pos) (a b : Sq) : pathClear p.flipFiles a.flipFile b.flipFile = pathClear p a b := by
  rw [flip_pos]; exact Sym.flip.pathClear_sym p a b

theorem C17_flip_attacks (p : Pos) (a b : Sq) : attacks p.flipFiles a.flipFile b.flipFile = attacks p a b := by
  rw [flip_pos]; exact Sym.flip.attacks_sym p a b

theorem C17_flip_attackedBy (p : Pos) (c : Color) (t : Sq) : attackedBy p.flipFiles c t.flipFile = attackedBy p c t := by
  rw [flip_pos]; exact Sym.flip.attackedBy_sym p c t

theorem C17_flip_kingSq (p : Pos) (c : Color) (h1 : OneKing p c) :
    kingSq? p.flipFiles c = (kingSq? p c).map Sq.flipFile := by
  rw [flip_pos]; exact Sym.flip.kingSq?_sym p c (UniqueKing.of_count h1)

theorem C17_flip_inCheck (p : Pos) (c : Color) (h1 : OneKing p c) : inCheck p.flipFiles c = inCheck p c := by
  rw [flip_pos]; exact Sym.flip.inCheck_sym p c (UniqueKing.of_count h1)

theorem C17_flip_noCastle (p : Pos) (hn : NoCastle p) : NoCastle p.flipFiles := hn

theorem C17_flip_pseudoLegal (p : Pos) (hn : NoCastle p) (m : Move) :
    pseudoLegal p.flipFiles m.flipFile = pseudoLegal p m := by
  rw [flip_pos]; exact Sym.flip.pseudoLegal_sym p (Sym.ok_flip hn) m

/-- successor positions, for every move that is not a two-file king move -/
theorem C17_flip_apply (p : Pos) (hn : NoCastle p) (m : Move) (hm : isCastle p m = false) :
    (apply p m).flipFiles = apply p.flipFiles m.flipFile := by
  rw [flip_pos, flip_pos]
  exact Sym.flip.apply_sym p (Sym.ok_flip hn) m (fun _ => hm)

/-- in particular for every pseudo-legal (hence every legal) move -/
theorem C17_flip_apply_pseudoLegal (p : Pos) (hn : NoCastle p) (m : Move) (hm : pseudoLegal p m = true) :
    (apply p m).flipFiles = apply p.flipFiles m.flipFile :=
  C17_flip_apply p hn m (pseudoLegal_not_castle hn hm)

/-- successors of positions without castling rights have no castling rights -/
theorem C17_apply_noCastle (p : Pos) (hn : NoCastle p) (m : Move) : NoCastle (apply p m) := by
  intro c
  rw [Sym.apply_castleK, Sym.apply_castleQ, (hn c).1, (hn c).2]
  exact ⟨rfl, rfl⟩

theorem C17_flip_legal (p : Pos) (hn : NoCastle p) (h1 : OneKing p p.stm) (m : Move) :
    legal p.flipFiles m.flipFile = legal p m := by
  rw [flip_pos]; exact Sym.flip.legal_sym p (Sym.ok_flip hn) (UniqueKing.of_count h1) m

theorem C17_flip_legalMoves (p : Pos) (hn : NoCastle p) (h1 : OneKing p p.stm) (m : Move) :
    m ∈ legalMoves p ↔ m.flipFile ∈ legalMoves p.flipFiles := by
  rw [flip_pos]; exact (Sym.flip.mem_legalMoves_sym p (Sym.ok_flip hn) (UniqueKing.of_count h1) m).symm

theorem C17_flip_legalMoves' (p : Pos) (hn : NoCastle p) (h1 : OneKing p p.stm) (m' : Move) :
    m' ∈ legalMoves p.flipFiles ↔ ∃ m ∈ legalMoves p, m.flipFile = m' := by
  constructor
  · intro h
    refine ⟨m'.flipFile, ?_, C17_flip_move_involutive m'⟩
    rw [C17_flip_legalMoves p hn h1, C17_flip_move_involutive]; exact h
  · rintro ⟨m, hm, rfl⟩; exact (C17_flip_legalMoves p hn h1 m).mp hm

theorem C17_flip_status (p : Pos) (hn : NoCastle p) (h1 : OneKing p p.stm) : status p.flipFiles = status p := by
  rw [flip_pos]; exact Sym.flip.status_sym p (Sym.ok_flip hn) (UniqueKing.of_count h1)

theorem C17_flip_checkers (p : Pos) (h1 : OneKing p p.stm) (x : Sq) :
    checkerSq p.flipFiles x.flipFile = checkerSq p x := by
  rw [flip_pos]; exact Sym.flip.checkerSq_sym p (UniqueKing.of_count h1) x

theorem C17_flip_pinned (p : Pos) (h1 : OneKing p p.stm) (y : Sq) :
    pinnedSq p.flipFiles y.flipFile = pinnedSq p y := by
  rw [flip_pos]; exact Sym.flip.pinnedSq_sym p (UniqueKing.of_count h1) y

theorem C17_flip_valid (p : Pos) (hn : NoCastle p) : Valid p.flipFiles = Valid p := by
  rw [flip_pos]; exact Sym.flip.valid_sym p (Sym.ok_flip hn)

theorem C17_flip_norm (p : Pos) : (norm p).flipFiles = norm p.flipFiles := by
  rw [flip_pos, flip_pos]; exact Sym.flip.norm_sym p

/-- the property as quoted, for valid positions without castling rights -/
theorem C17_flip (p : Pos) (hv : Valid p = true) (hn : NoCastle p) :
    Valid p.flipFiles = true ∧ NoCastle p.flipFiles ∧
    (∀ m, m ∈ legalMoves p ↔ m.flipFile ∈ legalMoves p.flipFiles) ∧
    status p.flipFiles = status p ∧
    inCheck p.flipFiles p.flipFiles.stm = inCheck p p.stm ∧
    (∀ x, checkerSq p.flipFiles x.flipFile = checkerSq p x) ∧
    (∀ y, pinnedSq p.flipFiles y.flipFile = pinnedSq p y) ∧
    (∀ m, m ∈ legalMoves p → (apply p m).flipFiles = apply p.flipFiles m.flipFile) := by
  have h1 := C17_valid_unique_king hv p.stm
  refine ⟨by rw [C17_flip_valid p hn]; exact hv, hn, C17_flip_legalMoves p hn h1, C17_flip_status p hn h1,
    C17_flip_inCheck p p.stm h1, C17_flip_checkers p h1, C17_flip_pinned p h1, ?_⟩
  intro m hm
  unfold legalMoves legal at hm
  rw [List.mem_filter, Bool.and_eq_true] at hm
  exact C17_flip_apply_pseudoLegal p hn m hm.2.1

/-! ## the hypotheses are satisfiable, and cannot be dropped -/

/-- K+R+P v K+P, White to move, White may still castle king side -/
def exPos : Pos where
  board s := match s.val with
    | 4 => some (.king, .white) | 7 => some (.rook, .white) | 12 => some (.pawn, .white)
    | 60 => some (.king, .black) | 51 => some (.pawn, .black) | _ => none
  stm := .white
  castleK c := c == .white
  castleQ _ := false
  ep := none
/-- the same men without castling rights -/
def exPosNC : Pos := { exPos with castleK := fun _ => false }

example : Valid exPos = true := by decide +kernel
example : OneKing exPos exPos.stm := by decide +kernel
example : Valid exPosNC = true ∧ NoCastle exPosNC := ⟨by decide +kernel, fun _ => ⟨rfl, rfl⟩⟩
example : OneKing exPosNC exPosNC.stm := by decide +kernel
/-- castling e1g1 is legal in `exPos`, and its mirror image e8g8 is legal in the mirror image -/
example : legal exPos ⟨4, 6, none⟩ = true ∧ legal exPos.mirror ⟨60, 62, none⟩ = true := by decide +kernel
example : isCastle exPosNC ⟨12, 28, none⟩ = false ∧ pseudoLegal exPosNC ⟨12, 28, none⟩ = true := by decide +kernel

/-- two white kings a1, a8 and a black rook h1: White "is in check" (first king a1), but in the mirror
image the first black king is the mirror image of a8, which is not attacked -/
def twoKings : Pos where
  board s := match s.val with
    | 0 => some (.king, .white) | 56 => some (.king, .white) | 7 => some (.rook, .black) | _ => none
  stm := .white
  castleK _ := false
  castleQ _ := false
  ep := none

theorem C17_mirror_inCheck_counterexample :
    inCheck twoKings .white = true ∧ inCheck twoKings.mirror Color.white.other = false := by decide +kernel

/-- a lone king "moving" e1–g1 without castling rights (not pseudo-legal): `apply` puts a rook on f1;
flipped, the king goes d1–b1 and the rook would land on d1 (file 3), the king's origin, not on c1 -/
def loneKing : Pos where
  board s := match s.val with | 4 => some (.king, .white) | 60 => some (.king, .black) | _ => none
  stm := .white
  castleK _ := false
  castleQ _ := false
  ep := none

theorem C17_flip_apply_counterexample :
    NoCastle loneKing ∧ pseudoLegal loneKing ⟨4, 6, none⟩ = false ∧
    (apply loneKing ⟨4, 6, none⟩).flipFiles.board 2 = some (.rook, .white) ∧
    (apply loneKing.flipFiles (Move.flipFile ⟨4, 6, none⟩)).board 2 = none := by
  refine ⟨fun _ => ⟨rfl, rfl⟩, ?_, ?_, ?_⟩ <;> decide +kernel

end Chess.Props
