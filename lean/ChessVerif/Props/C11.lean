import ChessVerif.Lemmas.Game
import ChessVerif.Lemmas.GameExamples
/-!
# C11 — claiming a draw (`can_declare_draw` / `declare_draw` of the Model `Chess.Game`)

"A draw can be claimed exactly when the game has no result and either the current position has
occurred at least three times in the game or the last 100 half-moves contained no pawn move and no
capture.  Claiming succeeds in exactly those situations and ends the game as a declared draw;
otherwise it is refused and changes nothing."

What is proved here, for every game value `g` and every `T : Tables`:

* `declare_draw` succeeds exactly when `can_declare_draw` says `true`, then appends `declareDraw` to the
  log and the result becomes `DrawDeclared`; otherwise the game is returned unchanged (`C11_declare_iff`,
  `C11_declare_result`).
* `can_declare_draw = true` exactly when the game has no result and `100 ≤ reversible` or the last entry
  of `seen` occurs at least three times in `seen` (`C11_can_declare_iff_model`); the pair search of
  the code is the count (`C11_threefold_iff`).
* what the two scan values are (`C11_drawStep`, `C11_drawScan_append_move`, `C11_drawScan_append_other`,
  `C11_drawScan_closed_form`, `C11_can_declare_iff_history`): with `plies T g` the list of
  `(position before, move, position after)` of the `makeMove` actions of the log,
  - `reversible` = number of trailing plies that were neither a pawn move nor a capture in the position
    they were played in (test of the code: pawn on the source square, or destination square occupied),
  - `seen` = the `(get_hash, legal move list)` entries of the last `k + 1` positions of the game, `k` =
    number of trailing plies that were neither a pawn move, nor a capture, nor changed any castling
    right; i.e. the positions since the last such irreversible ply, *including* the position it
    produced (or since the start position when there was none), and the last entry is the one of
    the current position.

**What is not proved here (not part of this task).**  The step from "the `(hash, legal move list)`
entry of the current position occurs three times among the entries recorded since the last
irreversible ply" to "the current position has occurred three times in the whole game" needs
(a) that two *different* positions of the game never have the same `(get_hash, legal moves)` entry
    (no Zobrist collision that also preserves the legal move list), and that equal positions have
    equal entries, and
(b) that a position from before a pawn move, a capture or a loss of castling rights cannot recur
    afterwards (so cutting the list there loses no occurrence).
Likewise "pawn on the source square / destination occupied" is the model-level test for "pawn move or
capture"; its agreement with the rules of chess belongs to the refinement to `Spec`.
-/
namespace Chess.Props
open Chess Chess.Game Chess.GameExamples

/-- claiming succeeds exactly when `can_declare_draw` holds; then `declareDraw` is appended to the log,
otherwise the game is unchanged -/
theorem C11_declare_iff {T : Tables} {g g' : Game} {acc : Bool} (h : g.declareDraw T = some (g', acc)) :
    (acc = true ↔ g.canDeclareDraw T = some true) ∧
    (acc = true → g'.moves = g.moves ++ [.declareDraw] ∧ g'.startPos = g.startPos) ∧
    (acc = false → g' = g) := by
  obtain ⟨h0, h1, h2⟩ := declareDraw_spec h
  refine ⟨h0, fun ha => ?_, h2⟩
  simp [h1 ha]

/-- a successful claim ends the game as a declared draw (the position is necessarily ongoing) -/
theorem C11_declare_result {T : Tables} {g g' : Game} (h : g.declareDraw T = some (g', true)) :
    g'.result T = some (some .drawDeclared) := declareDraw_result h

/-- `declare_draw` panics exactly when `can_declare_draw` does, which is exactly when the replay of
the log panics -/
theorem C11_total (T : Tables) (g : Game) :
    (g.declareDraw T = none ↔ g.currentPosition T = none) ∧
    (g.canDeclareDraw T = none ↔ g.currentPosition T = none) := by
  refine ⟨?_, canDeclareDraw_eq_none_iff T g⟩
  rw [← canDeclareDraw_eq_none_iff T g]
  simp [declareDraw]

/-- the pair search `for i in 1..n-1 { for j in 0..i { seen[i] == last && seen[j] == last } }` finds
a pair exactly when the last entry occurs at least three times in the list, itself included -/
theorem C11_threefold_iff (seen : List (BB × List Move)) (last : BB × List Move)
    (h : seen.getLast? = some last) : threefold seen = true ↔ 3 ≤ seen.count last :=
  threefold_iff seen last h

/-- one scan step: the half-move counter is reset by a pawn move or capture, otherwise incremented;
the repetition list is cleared by a pawn move, a capture or a change of castling rights; the entry of
the new position is appended -/
theorem C11_drawStep (T : Tables) (st : DrawScan) (m : Move) :
    drawStep T st m = (st.board.makeMoveNew T m).map fun b' =>
      ⟨b', if isPawnOrCapture st.board m then 0 else st.reversible + 1,
        (if isPawnOrCapture st.board m || rightsChanged st.board b' then [] else st.seen) ++ [entry T b']⟩ :=
  drawStep_eq T st m

theorem C11_drawScan_new (T : Tables) (s : Board) :
    drawScan T ⟨s, []⟩ = some ⟨s, 0, [entry T s]⟩ := rfl

theorem C11_drawScan_append_move (T : Tables) (s : Board) (l : List Action) (m : Move) :
    drawScan T ⟨s, l ++ [.makeMove m]⟩ = (drawScan T ⟨s, l⟩).bind fun st => drawStep T st m :=
  drawScan_append_move T s l m

theorem C11_drawScan_append_other (T : Tables) (s : Board) (l : List Action) (a : Action)
    (ha : isMove a = false) : drawScan T ⟨s, l ++ [a]⟩ = drawScan T ⟨s, l⟩ :=
  drawScan_append_other T s l a ha

/-- the scan follows the current position and its last entry is the one of the current position -/
theorem C11_drawScan_tracks_position {T : Tables} {g : Game} {st : DrawScan} (h : drawScan T g = some st) :
    currentPosition T g = some st.board ∧ st.seen.getLast? = some (entry T st.board) :=
  drawScan_board_last h

/-- the plies of a game, from the right: a move adds `(current position, move, next position)`, any
other action adds nothing -/
theorem C11_plies_new (T : Tables) (s : Board) : plies T ⟨s, []⟩ = some [] := rfl

theorem C11_plies_append_move (T : Tables) (s : Board) (l : List Action) (m : Move) :
    plies T ⟨s, l ++ [.makeMove m]⟩ =
      (plies T ⟨s, l⟩).bind fun tr => (currentPosition T ⟨s, l⟩).bind fun c =>
        (c.makeMoveNew T m).map fun c' => tr ++ [(c, m, c')] := pliesFrom_snoc_move T s l m

theorem C11_plies_append_other (T : Tables) (s : Board) (l : List Action) (a : Action)
    (ha : isMove a = false) : plies T ⟨s, l ++ [a]⟩ = plies T ⟨s, l⟩ := pliesFrom_snoc_other T s l a ha

/-- closed form of the two scan values (see the header) -/
theorem C11_drawScan_closed_form (T : Tables) (g : Game) :
    drawScan T g = (currentPosition T g).bind fun cur => (plies T g).map fun tr =>
      ⟨cur, trailing plyQuiet tr,
        (historyEntries T g.startPos tr).drop (tr.length - trailing plyRepeatable tr)⟩ :=
  drawScan_closed_form T g

/-- a draw can be claimed exactly when the game has no result and the scan found 100 reversible
half-moves or the last entry of `seen` (that of the current position) at least three times -/
theorem C11_can_declare_iff_model (T : Tables) (g : Game) :
    g.canDeclareDraw T = some true ↔
      g.result T = some none ∧ ∃ st, g.drawScan T = some st ∧
        (100 ≤ st.reversible ∨ 3 ≤ st.seen.count (entry T st.board)) := canDeclareDraw_iff T g

/-- the same with the scan values replaced by their meaning over the plies of the game -/
theorem C11_can_declare_iff_history (T : Tables) (g : Game) :
    g.canDeclareDraw T = some true ↔
      g.result T = some none ∧ ∃ cur tr, g.currentPosition T = some cur ∧ plies T g = some tr ∧
        (100 ≤ trailing plyQuiet tr ∨
         3 ≤ ((historyEntries T g.startPos tr).drop (tr.length - trailing plyRepeatable tr)).count (entry T cur)) :=
  canDeclareDraw_iff_history T g

/-- with a result nothing can be claimed -/
theorem C11_no_claim_after_result {T : Tables} {g : Game} {r : GameResult}
    (hr : g.result T = some (some r)) : g.canDeclareDraw T = some false ∧ g.declareDraw T = some (g, false) :=
  ⟨canDeclareDraw_of_result hr, perform_of_result hr .declareDraw⟩

/-! ## non-vacuity (real tables) -/

set_option maxRecDepth 100000

/-- after 1. Nf3 Nf6 2. Ng1 Ng8 3. Nf3 Nf6 4. Ng1 Ng8 the initial position stands for the third time:
the claim is possible and succeeds; in the initial position it is refused -/
example : shuffle.canDeclareDraw codeTables = some true ∧
    (shuffle.declareDraw codeTables).map (·.2) = some true ∧
    newGame.canDeclareDraw codeTables = some false ∧
    newGame.declareDraw codeTables = some (newGame, false) := by decide +kernel

/-- the scan values of that game: 8 reversible half-moves, 9 recorded positions -/
example : (shuffle.drawScan codeTables).map (fun st => (st.reversible, st.seen.length)) = some (8, 9) := by
  decide +kernel

end Chess.Props
