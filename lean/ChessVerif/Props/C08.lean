import ChessVerif.Lemmas.MoveInv
import ChessVerif.Proofs.TablesOK
import ChessVerif.Refine.Dump
/-!
# C08 — the hash is a function of the position, whatever the path

`Board.getHash` models `Board::get_hash`; `Pos.hashOf` is the from-scratch hash of a position (xor of
the placement keys of the 64 squares, ep-file key, rights keys, side key).  `Core T b` is the invariant
"bitboards consistent and raw `hash` field = xor of the placement keys of the men on the board".
* `C08_hash_pure`: under `Core`, `get_hash` is `hashOf` of the abstract position.
* `C08_path_independent`: two `Core` boards with the same men, side, rights and ep mark hash equal.
* `C08_tryFrom_spec`: every board accepted by `try_from` satisfies `Core` and holds the builder's state.
* `BoardReachable`: boards obtained from `try_from` by `null_move` and by `make_move_new` of moves that are
  pseudo-legal on a position whose ep mark and castling rights are consistent (`Pos.EpSane`,
  `Pos.RightsSane`, both implied by `Valid`); `C08_reachable_core`: all of them satisfy `Core`, hence
  (`C08_reachable_hash`) their hash is the position hash whatever the path.
* `Played` (no side condition along the way): boards obtained from an accepted builder state whose ep mark is
  consistent (always the case when the builder has no ep square) by null moves and pseudo-legal moves;
  `C08_played_core`, `C08_played_hash`: they satisfy `Core` and hash as their position.
-/
namespace Chess.Props

theorem C08_hash_pure (T : Tables) (b : Board) (h : Core T b) : b.getHash T = b.abs.hashOf T :=
  getHash_eq_hashOf T b h.hash

theorem C08_path_independent (T : Tables) (b₁ b₂ : Board) (h₁ : Core T b₁) (h₂ : Core T b₂)
    (hcont : ∀ s, b₁.content s = b₂.content s) (hs : b₁.stm = b₂.stm) (hw : b₁.wcr = b₂.wcr)
    (hb : b₁.bcr = b₂.bcr) (he : b₁.ep = b₂.ep) : b₁.getHash T = b₂.getHash T := by
  rw [C08_hash_pure T b₁ h₁, C08_hash_pure T b₂ h₂, abs_eq_of_fields hcont hs hw hb he]

/-- the tie: a board dump of the line protocol carries the observable `get_hash()`, and the model is run on the
board whose private `hash` field is `rawOfGhash` of it — the value that reproduces the observable … -/
theorem C08_dump_hash_roundtrip (T : Tables) (b : Board) (g : BB) :
    ({ b with hash := b.rawOfGhash T g } : Board).getHash T = g := Board.getHash_rawOfGhash T b g

/-- … and the only one: the model state is determined by what the implementation lets a caller observe -/
theorem C08_dump_hash_unique (T : Tables) (b : Board) (g : BB) :
    b.getHash T = g ↔ b.hash = b.rawOfGhash T g := Board.getHash_eq_iff_raw T b g

/-- the `Hash` impl feeds only the raw `hash` field -/
theorem C08_hash_trait (b₁ b₂ : Board) (h : b₁ = b₂) : b₁.hash = b₂.hash := congrArg Board.hash h

/-- for every builder state, the placement loop of `try_from` yields a `Core` board holding exactly the
builder's men -/
theorem C08_tryFrom_fold (T : Tables) (bd : Builder) :
    Core T (allSq.foldl (fun b s => match bd.pieces s with
      | some (p, c) => b.xor T p (BB.ofSq s) c
      | none => b) Board.blank) ∧
    (allSq.foldl (fun b s => match bd.pieces s with
      | some (p, c) => b.xor T p (BB.ofSq s) c
      | none => b) Board.blank).content = bd.pieces := buildFold_allSq T bd

/-- what an accepted builder state yields: invariant, placement, side, rights, and the ep mark is the
builder's ep square iff a pawn of the side to move stands beside it on the same rank -/
theorem C08_tryFrom_spec (T : Tables) (bd : Builder) (b : Board) (h : Board.tryFrom T bd = some b) :
    Core T b ∧ b.content = bd.pieces ∧ b.stm = bd.stm ∧ b.wcr = bd.wcr ∧ b.bcr = bd.bcr ∧
    b.ep = (match bd.getEnPassant with
      | some e =>
        if T.adjFiles e.getFile &&& T.ranks e.getRank &&& b.pawns &&& b.colorCombined b.stm ≠ 0#64
        then some e else none
      | none => none) ∧
    Board.updatePinInfo T b = b ∧ b.isSane T = true := tryFrom_spec T bd b h

/-- the ep part read as geometry -/
theorem C08_tryFrom_ep (T : Tables) (hT : TablesOK T) (bd : Builder) (b : Board) (h : Board.tryFrom T bd = some b)
    (q : Sq) : b.ep = some q ↔ (bd.getEnPassant = some q ∧
      ∃ s : Sq, s.rank = q.rank ∧ (s.file - q.file).natAbs = 1 ∧ b.content s = some (.pawn, b.stm)) := by
  obtain ⟨hc, _, _, _, _, hep, _, _⟩ := tryFrom_spec T bd b h
  rw [hep]
  cases hg : bd.getEnPassant with
  | none => simp
  | some e =>
    simp only [adjTest_iff hT hc.toStruct]
    constructor
    · intro hh
      split at hh
      · rename_i hex
        injection hh with hh; subst hh; exact ⟨rfl, hex⟩
      · cases hh
    · rintro ⟨he, hex⟩
      injection he with he; subst he
      rw [if_pos hex]

/-- boards obtained from `try_from` by null moves and by pseudo-legal moves made on consistent positions -/
inductive BoardReachable (T : Tables) : Board → Prop
  | tryFrom (bd : Builder) (b : Board) : Board.tryFrom T bd = some b → BoardReachable T b
  | null (b b' : Board) : BoardReachable T b → b.nullMove T = some b' → BoardReachable T b'
  | move (b b' : Board) (m : Move) : BoardReachable T b → pseudoLegal b.abs m = true → b.abs.EpSane →
      b.abs.RightsSane → b.makeMoveNew T m = some b' → BoardReachable T b'

theorem C08_reachable_core (T : Tables) (hT : TablesOK T) (b : Board) (h : BoardReachable T b) : Core T b := by
  induction h with
  | tryFrom bd b h => exact (tryFrom_spec T bd b h).1
  | null b b' _ h ih => exact ((nullMove_spec T b b' h).1.core_iff T).mpr ih
  | move b b' m _ hpl hep hrs hmk ih =>
    obtain ⟨b'', e, hc, _⟩ := make_move_refines hT ih hpl hep hrs
    rw [hmk] at e
    injection e with e
    rw [e]; exact hc

theorem C08_reachable_hash (T : Tables) (hT : TablesOK T) (b : Board) (h : BoardReachable T b) :
    b.getHash T = b.abs.hashOf T := C08_hash_pure T b (C08_reachable_core T hT b h)

/-- two reachable boards showing the same position have the same hash, whatever the two paths -/
theorem C08_reachable_path_independent (T : Tables) (hT : TablesOK T) (b₁ b₂ : Board) (h₁ : BoardReachable T b₁)
    (h₂ : BoardReachable T b₂) (he : b₁.abs = b₂.abs) : b₁.getHash T = b₂.getHash T := by
  rw [C08_reachable_hash T hT b₁ h₁, C08_reachable_hash T hT b₂ h₂, he]

/-- play without side conditions: only the ep mark of the starting board has to be consistent -/
theorem C08_played_core (T : Tables) (hT : TablesOK T) (b : Board) (h : Played T b) :
    Core T b ∧ b.abs.EpSane ∧ b.abs.RightsSane := h.inv hT

theorem C08_played_reachable (T : Tables) (hT : TablesOK T) (b : Board) (h : Played T b) : BoardReachable T b := by
  induction h with
  | start bd b h _ => exact .tryFrom bd b h
  | null b b' _ h ih => exact .null b b' ih h
  | move b b' m hp hpl h ih => exact .move b b' m ih hpl (hp.inv hT).2.1 (hp.inv hT).2.2 h

theorem C08_played_hash (T : Tables) (hT : TablesOK T) (b : Board) (h : Played T b) :
    b.getHash T = b.abs.hashOf T := C08_hash_pure T b (h.inv hT).1

theorem C08_played_path_independent (T : Tables) (hT : TablesOK T) (b₁ b₂ : Board) (h₁ : Played T b₁)
    (h₂ : Played T b₂) (he : b₁.abs = b₂.abs) : b₁.getHash T = b₂.getHash T := by
  rw [C08_played_hash T hT b₁ h₁, C08_played_hash T hT b₂ h₂, he]

/-- with the tables of the code -/
theorem C08_played_hash_code (b : Board) (h : Played codeTables b) :
    b.getHash codeTables = b.abs.hashOf codeTables := C08_played_hash codeTables codeTables_ok b h

/-- with the tables of the code -/
theorem C08_reachable_hash_code (b : Board) (h : BoardReachable codeTables b) :
    b.getHash codeTables = b.abs.hashOf codeTables := C08_reachable_hash codeTables codeTables_ok b h

/-! non-vacuity: two different move orders (Ng1-f3, Ng8-f6, Nb1-c3 / Nb1-c3, Ng8-f6, Ng1-f3 … here on a
small board: kings and two white knights, one black knight) reach boards with equal `get_hash` -/
def c08ExBd : Builder where
  pieces s := match s.val with
    | 4 => some (.king, .white) | 1 => some (.knight, .white) | 6 => some (.knight, .white)
    | 60 => some (.king, .black) | 62 => some (.knight, .black) | 57 => some (.knight, .black)
    | _ => none
  stm := .white
  wcr := .noRights
  bcr := .noRights
  epFile := none

def c08PlayAll (T : Tables) (ms : List Move) (b : Board) : Option Board :=
  ms.foldl (fun ob m => ob.bind fun b => b.makeMoveNew T m) (some b)

set_option maxRecDepth 100000 in
example : ((Board.tryFrom codeTables c08ExBd).bind (c08PlayAll codeTables [⟨6, 21, none⟩, ⟨62, 45, none⟩, ⟨1, 18, none⟩, ⟨57, 42, none⟩])).map
      (Board.getHash codeTables) =
    ((Board.tryFrom codeTables c08ExBd).bind (c08PlayAll codeTables [⟨1, 18, none⟩, ⟨57, 42, none⟩, ⟨6, 21, none⟩, ⟨62, 45, none⟩])).map
      (Board.getHash codeTables) ∧
    ((Board.tryFrom codeTables c08ExBd).bind (c08PlayAll codeTables [⟨6, 21, none⟩, ⟨62, 45, none⟩])).isSome = true := by
  decide +kernel

/-- the board built from `c08ExBd` starts a play (no ep square), so `C08_played_hash` applies to it and to
everything reached from it -/
example : ∃ b, Played codeTables b ∧ BoardReachable codeTables b := by
  cases ht : Board.tryFrom codeTables c08ExBd with
  | none =>
    have : (Board.tryFrom codeTables c08ExBd).isSome = true := by
      set_option maxRecDepth 100000 in decide +kernel
    rw [ht] at this; cases this
  | some b => exact ⟨b, Played.start_noep ht rfl, .tryFrom c08ExBd b ht⟩

end Chess.Props
