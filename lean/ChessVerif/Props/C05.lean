import ChessVerif.Lemmas.Closure
/-!
# C05 — validity is closed under legal moves; rights, men and pawns never grow

Everything here is proved on the FIDE specification (`ChessVerif/Spec/Rules.lean`) for ALL positions and
ALL moves, from the single hypothesis `Valid p = true` (no extra hypothesis was needed for any clause).

* `C05_valid_step`: a legal move from a valid position gives a valid position (one king per side, ≤ 16
  men and ≤ 8 pawns per side, castling rights backed by king and rook at home, no pawn on rank 1/8, the
  side that just moved is not in check, the en-passant mark is directly after a double push).
* `C05_rights_shrink_*`, `C05_men_shrink`, `C05_pawns_shrink`: the monotone quantities, for every
  pseudo-legal move of every position (no validity needed).
* `C05_reachable_valid`, `C05_reachable_monotone`: the same along every history of legal moves
  (`playLegal`), and `C05_reachable_clauses` spells the consequences out.
* `C05_valid_norm`, `C05_legal_norm`, `C05_library_history_valid`, `C05_library_history_monotone`: the
  library records the en-passant mark only when an enemy pawn stands beside the pushed pawn (`norm`);
  dropping the mark keeps validity and does not change which moves are legal (no `Valid` needed), so the
  statements hold for the positions the library actually holds (`playLegalNorm`).
-/
namespace Chess.Props
open Chess.Closure

theorem C05_valid_step (p : Pos) (m : Move) (hv : Valid p = true) (hl : legal p m = true) :
    Valid (apply p m) = true :=
  (valid_iff _).mpr (validP_step ((valid_iff p).mp hv) hl)

theorem C05_rights_shrink_K (p : Pos) (m : Move) (c : Color) :
    (apply p m).castleK c = true → p.castleK c = true := rights_shrinkK

theorem C05_rights_shrink_Q (p : Pos) (m : Move) (c : Color) :
    (apply p m).castleQ c = true → p.castleQ c = true := rights_shrinkQ

theorem C05_rights_shrink (p : Pos) (m : Move) (c : Color) :
    ((apply p m).castleK c = true → p.castleK c = true) ∧ ((apply p m).castleQ c = true → p.castleQ c = true) :=
  ⟨rights_shrinkK, rights_shrinkQ⟩

theorem C05_men_shrink (p : Pos) (m : Move) (c : Color) (h : pseudoLegal p m = true) :
    count (apply p m) (·.2 == c) ≤ count p (·.2 == c) := men_shrink h c

theorem C05_pawns_shrink (p : Pos) (m : Move) (c : Color) (h : pseudoLegal p m = true) :
    count (apply p m) (· == (.pawn, c)) ≤ count p (· == (.pawn, c)) := pawns_shrink h c

/-- no king is ever captured: the number of kings of each colour is unchanged by a legal move -/
theorem C05_kings_preserved (p : Pos) (m : Move) (c : Color) (hv : Valid p = true) (h : pseudoLegal p m = true) :
    count (apply p m) (· == (.king, c)) = count p (· == (.king, c)) :=
  kings_eq h (no_king_capture ((valid_iff p).mp hv) h) c

/-- `inCheck` depends only on the placement of the men -/
theorem C05_inCheck_congr (p q : Pos) (c : Color) (h : p.board = q.board) : inCheck p c = inCheck q c :=
  inCheck_congr h c

theorem C05_reachable_valid (p q : Pos) (ms : List Move) (hv : Valid p = true) (h : playLegal p ms = some q) :
    Valid q = true :=
  (valid_iff _).mpr (playLegal_validP ((valid_iff p).mp hv) h)

theorem C05_Reachable_valid (p q : Pos) (hv : Valid p = true) (h : Reachable p q) : Valid q = true := by
  obtain ⟨ms, h⟩ := h
  exact C05_reachable_valid p q ms hv h

/-- the clauses of the property, spelled out, at every position of every legal history from a valid start -/
theorem C05_reachable_clauses (p q : Pos) (ms : List Move) (hv : Valid p = true) (h : playLegal p ms = some q) :
    (∀ c, count q (· == (.king, c)) = 1) ∧
    inCheck q q.stm.other = false ∧
    (∀ s c, q.board s = some (.pawn, c) → s.rank ≠ 0 ∧ s.rank ≠ 7) ∧
    (∀ c, count q (·.2 == c) ≤ 16) ∧ (∀ c, count q (· == (.pawn, c)) ≤ 8) := by
  have hq := playLegal_validP ((valid_iff p).mp hv) h
  exact ⟨hq.king, hq.notInCheck, fun s c hs => hq.noPawn s (by simp [hs]), hq.men, hq.pawns⟩

/-- along any legal history (no validity needed): castling rights never come back, the number of men of a
side never grows, a side's pawn count never grows.  Because every segment of a legal history is a legal
history (`C05_history_segment`), this compares any two points of a history. -/
theorem C05_reachable_monotone (p q : Pos) (ms : List Move) (h : playLegal p ms = some q) :
    (∀ c, q.castleK c = true → p.castleK c = true) ∧
    (∀ c, q.castleQ c = true → p.castleQ c = true) ∧
    (∀ c, count q (·.2 == c) ≤ count p (·.2 == c)) ∧
    (∀ c, count q (· == (.pawn, c)) ≤ count p (· == (.pawn, c))) :=
  have hm := playLegal_mono h
  ⟨hm.castleK, hm.castleQ, hm.men, hm.pawns⟩

theorem C05_history_segment (p : Pos) (a b : List Move) :
    playLegal p (a ++ b) = (playLegal p a).bind (fun q => playLegal q b) := playLegal_append p a b

theorem C05_valid_norm (p : Pos) (hv : Valid p = true) : Valid (norm p) = true :=
  (valid_iff _).mpr (validP_norm ((valid_iff p).mp hv))

/-- holds for every position, valid or not: the mark matters only for en-passant captures, which need a
pawn of the side to move beside the marked pawn, which is exactly when `norm` keeps the mark -/
theorem C05_legal_norm (p : Pos) (m : Move) : legal (norm p) m = legal p m := legal_norm p m

theorem C05_apply_norm (p : Pos) (m : Move) : apply (norm p) m = apply p m := rfl

theorem C05_library_history_valid (p q : Pos) (ms : List Move) (hv : Valid p = true)
    (h : playLegalNorm p ms = some q) : Valid q = true :=
  (valid_iff _).mpr (playLegalNorm_validP ((valid_iff p).mp hv) h)

theorem C05_library_history_monotone (p q : Pos) (ms : List Move) (h : playLegalNorm p ms = some q) :
    (∀ c, q.castleK c = true → p.castleK c = true) ∧
    (∀ c, q.castleQ c = true → p.castleQ c = true) ∧
    (∀ c, count q (·.2 == c) ≤ count p (·.2 == c)) ∧
    (∀ c, count q (· == (.pawn, c)) ≤ count p (· == (.pawn, c))) :=
  have hm := playLegalNorm_mono h
  ⟨hm.castleK, hm.castleQ, hm.men, hm.pawns⟩

/-- the library's history and the specification's history play the same move lists and end in the same
position up to `norm` -/
theorem C05_library_history_eq (p : Pos) (ms : List Move) :
    (playLegalNorm p ms).map norm = (playLegal p ms).map norm := (playLegalNorm_eq p ms).2

/-! ### the hypotheses are satisfiable -/

namespace C05Example
def backRank : Nat → Piece
  | 0 | 7 => .rook | 1 | 6 => .knight | 2 | 5 => .bishop | 3 => .queen | _ => .king
def startBoard : Sq → Option (Piece × Color) := fun s =>
  match s.val / 8 with
  | 0 => some (backRank (s.val % 8), .white)
  | 1 => some (.pawn, .white)
  | 6 => some (.pawn, .black)
  | 7 => some (backRank (s.val % 8), .black)
  | _ => none
def startPos : Pos := ⟨startBoard, .white, fun _ => true, fun _ => true, none⟩
/-- 1. e4 d5 2. exd5 Qxd5 3. Ke2 -/
def line : List Move := [⟨12, 28, none⟩, ⟨51, 35, none⟩, ⟨28, 35, none⟩, ⟨59, 35, none⟩, ⟨4, 12, none⟩]
end C05Example

set_option maxRecDepth 100000 in
example : Valid C05Example.startPos = true := by decide +kernel
set_option maxRecDepth 100000 in
example : legal C05Example.startPos ⟨12, 28, none⟩ = true := by decide +kernel
set_option maxRecDepth 100000 in
example : pseudoLegal C05Example.startPos ⟨6, 21, none⟩ = true := by decide +kernel
set_option maxRecDepth 100000 in
example : (playLegal C05Example.startPos C05Example.line).isSome = true := by decide +kernel
set_option maxRecDepth 100000 in
example : (playLegalNorm C05Example.startPos C05Example.line).isSome = true := by decide +kernel
/-- after 1. e4 the mark is set but no black pawn stands beside e4: `norm` really drops something -/
example : (apply C05Example.startPos ⟨12, 28, none⟩).ep = some 28 ∧
    (norm (apply C05Example.startPos ⟨12, 28, none⟩)).ep = none := by decide +kernel

end Chess.Props
