import ChessVerif.Lemmas.GameClaim
import ChessVerif.Props.C10Full
import ChessVerif.Props.C11
/-!
# C11 at full strength — claiming a draw, against the specification

"A draw can be claimed exactly when the game has no result and either the current position has occurred at
least three times in the game or the last 100 half-moves contained no pawn move and no capture.  Claiming
succeeds in exactly those situations and ends the game as a declared draw; otherwise it is refused and changes
nothing."

`Props/C11.lean` describes what `can_declare_draw` computes in the model's own terms: a counter `reversible`
and a list `seen` of `(get_hash, legal move list)` entries kept since the last pawn move, capture or change
of castling rights.  Here these are tied to the Spec (`Spec/Game.lean`): `GameSt.clock`, and
`GameSt.occurrences` = the number of positions of the **whole** history with the `Pos.key` of the current one.

* B1 `C11_tests_agree`, `C11_clock_is_reversible`: on `Good` boards the model's "pawn on the source square or
  destination occupied" is the Spec's "pawn move or capture" (en passant is a pawn move for both), and
  "`wcr`/`bcr` changed" is "the four rights changed"; hence `reversible` = `clock`.
* B2 (pure Spec, `Lemmas/Irreversible.lean`) `C11_potential_step`, `C11_irreversible_no_recurrence`: the
  potential `Φ` = Σ weights of the men (pawn: 1 + distance to promotion, other men: 1) + number of castling
  rights never increases under a pseudo-legal move and strictly decreases under a pawn move, a capture or a
  change of castling rights; so a position from before such a half-move never recurs after it, and
  forgetting the entries before the cut loses no occurrence.
* B3 `C11_seen_count_eq_occurrences`: under `NoCollision` (two different positions of the game never have the
  same hash *and* the same legal move list) the count in `seen` is `occurrences`.
  The converse direction needs no hypothesis: equal positions are held by equal boards
  (`C03_board_determined_abs`), hence have equal entries.
* B4 `C11_can_declare_iff_spec`, `C11_declare_refines`, `C11_refines`.

`NoCollision` cannot be dropped: `get_hash` is a 64-bit xor of table entries, and nothing in the code excludes
two different positions of one game with equal hash and equal legal move list (then the model would count a
repetition the rules do not see).  Apart from that, no discrepancy between model and Spec was found.
-/
namespace Chess.Props
open Chess Chess.Game Chess.GameRefine Chess.GameExamples Chess.Irreversible

variable {T : Tables}

/-! ## B1: the tests of the scan -/

/-- the model's tests for "pawn move or capture" and "castling rights changed" are the Spec's -/
theorem C11_tests_agree {b : Board} (hg : b.Good T) (m : Move) (b' : Board) :
    isPawnOrCapture b m = Spec.GameSt.isCaptureOrPawn b.abs m ∧
    rightsChanged b b' = (rightsList b'.abs != rightsList b.abs) :=
  ⟨isPawnOrCapture_eq hg.struct m, rightsChanged_eq b b'⟩

/-- the extended relation holds initially and contains `Sim` -/
theorem C11_simH_init {b0 : Board} (h0 : b0.Good T) : SimH T ⟨b0, []⟩ (Spec.GameSt.init b0.abs) := simH_init h0

theorem C11_simH_sim {g : Game} {sg : Spec.GameSt} (h : SimH T g sg) : Sim T g sg := h.sim

/-- the counter of the scan is the Spec's half-move clock -/
theorem C11_clock_is_reversible {g : Game} {sg : Spec.GameSt} (h : SimH T g sg) :
    ∃ st, g.drawScan T = some st ∧ st.reversible = sg.clock := by
  obtain ⟨_, st, _, _, inv⟩ := h
  exact ⟨st, inv.scan, inv.clock⟩

/-! ## B2: irreversible half-moves (pure Spec) -/

/-- no pseudo-legal move increases the potential; a pawn move, a capture or a change of castling rights
strictly decreases it -/
theorem C11_potential_step {p : Pos} {m : Move} (h : pseudoLegal p m = true) :
    Φ (norm (apply p m)) ≤ Φ p ∧ (irreversible p m = true → Φ (norm (apply p m)) < Φ p) := Φ_step h

/-- `Pos.key` identifies the position -/
theorem C11_key_eq_iff {p q : Pos} : Spec.Pos.key p = Spec.Pos.key q ↔ p = q := key_eq_iff

/-- a position that occurred before an irreversible half-move does not occur after it -/
theorem C11_irreversible_no_recurrence {q p q' : Pos} {m : Move} {ms ms' : List Move}
    (h1 : playLegalNorm q ms = some p) (hl : legal p m = true) (hirr : irreversible p m = true)
    (h2 : playLegalNorm (norm (apply p m)) ms' = some q') : Spec.Pos.key q ≠ Spec.Pos.key q' :=
  irreversible_no_recurrence h1 hl hirr h2

/-! ## B3: the repetition count -/

/-- the hypothesis `NoCollision` follows from injectivity of the position hash on the history -/
theorem C11_noCollision_of_hash_inj {H : List Pos}
    (h : ∀ q₁ ∈ H, ∀ q₂ ∈ H, q₁.hashOf T = q₂.hashOf T → Spec.Pos.key q₁ = Spec.Pos.key q₂) : NoCollision T H :=
  noCollision_of_hash_inj h

/-- the scan values are the Spec's: `reversible` = `clock`, and the current entry occurs in `seen` exactly as
often as the current position occurs in the whole history -/
theorem C11_seen_count_eq_occurrences {g : Game} {sg : Spec.GameSt} (h : SimH T g sg)
    (hnc : NoCollision T sg.history) :
    ∃ st, g.drawScan T = some st ∧ st.reversible = sg.clock ∧
      st.seen.count (entry T st.board) = sg.occurrences := scan_values h hnc

/-! ## B4: claiming -/

theorem C11_claimable_iff (sg : Spec.GameSt) :
    sg.claimable = true ↔ sg.result = none ∧ (3 ≤ sg.occurrences ∨ 100 ≤ sg.clock) := by
  simp [Spec.GameSt.claimable]

/-- **C11.** `can_declare_draw` says `true` exactly when the Spec allows a claim: no result, and the current
position has occurred at least three times in the game or the last 100 half-moves were neither pawn moves nor
captures. -/
theorem C11_can_declare_iff_spec (hT : TablesOK T) {g : Game} {sg : Spec.GameSt} (h : SimH T g sg)
    (hnc : NoCollision T sg.history) : g.canDeclareDraw T = some true ↔ sg.claimable = true :=
  canDeclareDraw_iff_claimable hT h hnc

/-- … and it never panics on such a game, so otherwise it says `false` -/
theorem C11_can_declare_eq_spec (hT : TablesOK T) {g : Game} {sg : Spec.GameSt} (h : SimH T g sg)
    (hnc : NoCollision T sg.history) : g.canDeclareDraw T = some sg.claimable := by
  have hiff := canDeclareDraw_iff_claimable hT h hnc
  cases hc : g.canDeclareDraw T with
  | none =>
    obtain ⟨cur, hcur, _⟩ := h.sim
    rw [(canDeclareDraw_eq_none_iff T g).1 hc] at hcur; cases hcur
  | some x =>
    cases x with
    | true => rw [hiff.mp hc]
    | false =>
      cases hcl : sg.claimable with
      | false => rfl
      | true => rw [hiff.mpr hcl] at hc; cases hc

/-- **C11, the claim.** `declare_draw` succeeds exactly when the Spec allows the claim; then `declareDraw` is
appended to the log and the result becomes `DrawDeclared` (for the model and for the Spec); otherwise model and
Spec refuse and nothing changes. -/
theorem C11_declare_refines (hT : TablesOK T) {g g' : Game} {sg : Spec.GameSt} (h : SimH T g sg)
    (hnc : NoCollision T sg.history) {acc : Bool} (hp : g.declareDraw T = some (g', acc)) :
    (acc = true ↔ sg.claimable = true) ∧
    (acc = true → g'.moves = sg.log ++ [.declareDraw] ∧ g'.result T = some (some .drawDeclared) ∧
      (sg.step .declareDraw).1.result = some .drawDeclared ∧ (sg.step .declareDraw).2 = true) ∧
    (acc = false → g' = g ∧ sg.step .declareDraw = (sg, false)) ∧
    SimH T g' (sg.step .declareDraw).1 := by
  obtain ⟨hacc, hs'⟩ := simH_perform hT h hnc (a := .declareDraw) hp
  have hiff := canDeclareDraw_iff_claimable hT h hnc
  obtain ⟨h1, h2, h3⟩ := declareDraw_spec hp
  refine ⟨h1.trans hiff, ?_, ?_, hs'⟩
  · intro ht
    subst ht
    have hres := declareDraw_result hp
    refine ⟨by rw [h2 rfl, sim_log h.sim], hres, ?_, hacc.symm⟩
    have := sim_result hT hs'.sim
    rw [hres] at this
    exact (Option.some.inj this).symm
  · intro hf
    subst hf
    refine ⟨h3 rfl, ?_⟩
    have hcl : sg.claimable = false := by
      cases hcl : sg.claimable with
      | false => rfl
      | true => have := (h1.trans hiff).mpr hcl; cases this
    unfold Spec.GameSt.step
    split
    · rfl
    · simp [hcl]

/-- one request of any kind -/
theorem C11_sim_step (hT : TablesOK T) {g g' : Game} {sg : Spec.GameSt} (h : SimH T g sg)
    (hnc : NoCollision T sg.history) {a : Action} {acc : Bool} (hp : g.perform T a = some (g', acc)) :
    acc = (sg.step a).2 ∧ SimH T g' (sg.step a).1 := simH_perform hT h hnc hp

/-- **C10 + C11, refinement with draw claims.** From a `Good` start board, for every list of requests: if no two
different positions of the Spec's history share hash and legal move list, the model run does not panic,
accepts exactly the requests the Spec accepts, and ends related to the Spec's final state (same result, side
to move, position, log; `reversible` = `clock`; repetition count = `occurrences`). -/
theorem C11_refines (hT : TablesOK T) {b0 : Board} (h0 : b0.Good T) (acts : List Action)
    (hnc : NoCollision T (specRun (Spec.GameSt.init b0.abs) acts).1.history) :
    ∃ gf, run T ⟨b0, []⟩ acts = some (gf, (specRun (Spec.GameSt.init b0.abs) acts).2) ∧
      SimH T gf (specRun (Spec.GameSt.init b0.abs) acts).1 :=
  simH_run hT (simH_init h0) acts hnc

theorem C11_refines_from (hT : TablesOK T) {g : Game} {sg : Spec.GameSt} (h : SimH T g sg) (acts : List Action)
    (hnc : NoCollision T (specRun sg acts).1.history) :
    ∃ gf, run T g acts = some (gf, (specRun sg acts).2) ∧ SimH T gf (specRun sg acts).1 :=
  simH_run hT h acts hnc

/-! ## non-vacuity (real tables): the threefold knight shuffle through both runs -/

section Examples
set_option maxRecDepth 100000

/-- a claim in the initial position (refused), 1. Nf3 Nf6 2. Ng1 Ng8 3. Nf3 Nf6 4. Ng1 Ng8, a claim (accepted:
the initial position stands for the third time), a further move (refused) -/
def shuffleReqs : List Action := .declareDraw :: shuffle.moves ++ [.declareDraw, mv 12 28]

theorem shuffle_spec :
    (specRun (Spec.GameSt.init startBoard.abs) shuffleReqs).2 = shuffle.moves ++ [.declareDraw] ∧
    (specRun (Spec.GameSt.init startBoard.abs) shuffleReqs).1.result = some .drawDeclared ∧
    (specRun (Spec.GameSt.init startBoard.abs) shuffleReqs).1.occurrences = 3 ∧
    (specRun (Spec.GameSt.init startBoard.abs) shuffleReqs).1.clock = 8 ∧
    (specRun (Spec.GameSt.init startBoard.abs) shuffleReqs).1.history.length = 9 := by
  decide +kernel

/-- on this history the position hash of the code's tables separates the positions -/
theorem shuffle_noCollision :
    NoCollision codeTables (specRun (Spec.GameSt.init startBoard.abs) shuffleReqs).1.history := by
  apply noCollision_of_hash_inj
  decide +kernel

/-- the hypotheses of `C11_refines` are satisfiable, and its conclusion on this game: the model accepts the
eight moves and the second claim, and reports `DrawDeclared` -/
example : ∃ b0 : Board, b0.Good codeTables ∧ b0.abs = startBoard.abs ∧
    ∃ gf, run codeTables ⟨b0, []⟩ shuffleReqs = some (gf, shuffle.moves ++ [.declareDraw]) ∧
      gf.result codeTables = some (some .drawDeclared) ∧
      SimH codeTables gf (specRun (Spec.GameSt.init startBoard.abs) shuffleReqs).1 := by
  obtain ⟨b0, _, habs, hg⟩ := C01_good_of_valid_pos codeTables_ok startPos_valid
  have habs' : b0.abs = startBoard.abs := habs
  have hnc := shuffle_noCollision
  rw [← habs'] at hnc
  obtain ⟨gf, hrun, hsim⟩ := C11_refines codeTables_ok hg shuffleReqs hnc
  rw [habs'] at hrun hsim
  refine ⟨b0, hg, habs', gf, ?_, ?_, hsim⟩
  · rw [hrun, shuffle_spec.1]
  · rw [sim_result codeTables_ok hsim.sim, shuffle_spec.2.1]

/-- the same evaluated directly on the model (independent of the theorems) -/
example : ((Board.tryFrom codeTables startBoard.abs.toBuilder).bind fun b0 =>
      (run codeTables ⟨b0, []⟩ shuffleReqs).map fun r => (r.2, r.1.result codeTables)) =
    some (shuffle.moves ++ [.declareDraw], some (some .drawDeclared)) := by decide +kernel

/-- B2 is not vacuous: 1. e4 is irreversible and lowers the potential of the initial position from 132 to 130;
1. Nf3 is reversible -/
example : pseudoLegal startBoard.abs ⟨12, 28, none⟩ = true ∧ irreversible startBoard.abs ⟨12, 28, none⟩ = true ∧
    Φ startBoard.abs = 132 ∧ Φ (norm (apply startBoard.abs ⟨12, 28, none⟩)) = 130 ∧
    irreversible startBoard.abs ⟨6, 21, none⟩ = false := by decide +kernel

end Examples

end Chess.Props
