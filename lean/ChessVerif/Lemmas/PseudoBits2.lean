import ChessVerif.Lemmas.PseudoBits1
import ChessVerif.Lemmas.PawnQuiets
/-
Pseudo-legal destination sets, part 2: pawns (single step, double step, capture; en passant is
generated separately by the code and excluded here), the promotion condition and the code's
promotion flag.
-/
namespace Chess
namespace PseudoBits

set_option maxRecDepth 100000

/-! ### `get_pawn_quiets` for any correct tables -/

/-- `pawnQuiets_exact` for any tables satisfying `TablesOK` (the proof only uses `hT.pawnMoves`) -/
theorem pawnQuiets_exact_T {T : Tables} (hT : TablesOK T) (c : Color) (s : Sq) (bl : BB) :
    Board.pawnQuiets T s c bl = Geom.pawnQuiets c s bl := by
  have hs : pushShape c s = true := by
    have h1 := List.all_eq_true.mp pushShape_all c (by cases c <;> simp [allColors])
    exact List.all_eq_true.mp h1 s (List.mem_finRange s)
  unfold Board.pawnQuiets Geom.pawnQuiets
  rw [hT.pawnMoves]
  unfold pushShape at hs
  cases hst : Geom.step s 0 c.fwd with
  | none =>
    rw [hst] at hs
    simp only [beq_iff_eq] at hs
    rw [hs]
    dsimp only
    simp
  | some o =>
    rw [hst] at hs
    simp only [Bool.and_eq_true, beq_iff_eq] at hs
    obtain ⟨hu, hm⟩ := hs
    rw [hu, hm]
    dsimp only
    have hc : (BB.ofSq o &&& bl ≠ 0#64) ↔ bl.getLsbD o.val = true := by
      rw [BitVec.and_comm]; exact and_ofSq_ne_zero_iff bl o
    cases hbo : bl.getLsbD o.val with
    | true =>
      rw [if_pos (hc.mpr hbo)]
      have : bl.has o = true := hbo
      rw [this]; rfl
    | false =>
      rw [if_neg (fun hh => by rw [hc.mp hh] at hbo; cases hbo)]
      have hf : bl.has o = false := hbo
      rw [hf]
      simp only [Bool.false_eq_true, if_false]
      rw [BitVec.and_comm, BitVec.and_or_distrib_left, BitVec.and_comm (~~~bl) (BB.ofSq o), ofSq_and_not, hf]
      simp only [Bool.false_eq_true, if_false]
      congr 1
      by_cases hr : (s.rank == c.pawnRank) = true
      · have hr' : s.rank = c.pawnRank := by simpa using hr
        simp only [hr', if_true]
        cases Geom.step s 0 (2 * c.fwd) with
        | none => simp
        | some t => rw [BitVec.and_comm, ofSq_and_not]; simp
      · have hr' : ¬ s.rank = c.pawnRank := by simpa using hr
        simp only [hr, hr', if_false]; simp

/-! ### the specification's pawn clause without en passant -/

/-- the first three disjuncts of the pawn clause of `pseudoLegal`: single step, double step, capture
(same text as in `Spec/Rules.lean`) -/
def pawnStd (p : Pos) (src d : Sq) (c : Color) : Bool :=
  let df := d.file - src.file; let dr := d.rank - src.rank
  (df == 0 && dr == c.fwd && p.empty d)
  || (df == 0 && dr == 2 * c.fwd && src.rank == c.pawnRank && p.empty d &&
        (match sq? src.file (src.rank + c.fwd) with | some x => p.empty x | none => false))
  || (df.natAbs == 1 && dr == c.fwd && p.colorAt d == some c.other)

/-- the promotion condition `promoOk` of the pawn clause of `pseudoLegal` (same text) -/
def promoShape (c : Color) (d : Sq) (q : Option Piece) : Bool :=
  if d.rank == c.lastRank then (match q with | some q => promoPieces.contains q | none => false)
  else q.isNone

theorem midEmpty_iff (p : Pos) (src : Sq) (c : Color) :
    (match sq? src.file (src.rank + c.fwd) with | some x => p.empty x | none => false) = true ↔
      ∃ o : Sq, o.file = src.file ∧ o.rank = src.rank + c.fwd ∧ p.empty o = true := by
  cases h : sq? src.file (src.rank + c.fwd) with
  | none =>
    simp only [Bool.false_eq_true, false_iff]
    rintro ⟨o, h1, h2, _⟩
    have := (sq?_eq_some_iff _ _ o).mpr ⟨h1, h2⟩
    rw [h] at this; cases this
  | some x =>
    simp only
    have hx := (sq?_eq_some_iff _ _ x).mp h
    constructor
    · intro he; exact ⟨x, hx.1, hx.2, he⟩
    · rintro ⟨o, h1, h2, he⟩
      have : o = x := Sq.ext_coord (by omega) (by omega)
      subst this; exact he

theorem pawnStd_iff (p : Pos) (src d : Sq) (c : Color) :
    pawnStd p src d c = true ↔
      (d.file = src.file ∧ d.rank = src.rank + c.fwd ∧ p.empty d = true) ∨
      (d.file = src.file ∧ d.rank = src.rank + 2 * c.fwd ∧ src.rank = c.pawnRank ∧ p.empty d = true ∧
        ∃ o : Sq, o.file = src.file ∧ o.rank = src.rank + c.fwd ∧ p.empty o = true) ∨
      ((d.file = src.file + 1 ∨ d.file = src.file - 1) ∧ d.rank = src.rank + c.fwd ∧
        p.colorAt d = some c.other) := by
  unfold pawnStd
  simp only [Bool.or_eq_true, Bool.and_eq_true, beq_iff_eq, midEmpty_iff]
  constructor
  · rintro ((⟨⟨h1, h2⟩, h3⟩ | ⟨⟨⟨⟨h1, h2⟩, h3⟩, h4⟩, h5⟩) | ⟨⟨h1, h2⟩, h3⟩)
    · exact Or.inl ⟨by omega, by omega, h3⟩
    · exact Or.inr (Or.inl ⟨by omega, by omega, h3, h4, h5⟩)
    · exact Or.inr (Or.inr ⟨by omega, by omega, h3⟩)
  · rintro (⟨h1, h2, h3⟩ | ⟨h1, h2, h3, h4, h5⟩ | ⟨h1, h2, h3⟩)
    · exact Or.inl (Or.inl ⟨⟨by omega, by omega⟩, h3⟩)
    · exact Or.inl (Or.inr ⟨⟨⟨⟨by omega, by omega⟩, h3⟩, h4⟩, h5⟩)
    · exact Or.inr ⟨⟨by omega, by omega⟩, h3⟩

/-! ### 2. the code's pawn destinations -/

/-- bit `d` of the code's pawn destination set (attacks on occupied squares xor pushes, masked by
"not an own man") iff `src → d` is a single step, a double step or a capture of the specification.
Holds for every source square (a pawn of `c` on its own last rank has no destination on either side);
the content of `src` is irrelevant. -/
theorem pawn_bits {T : Tables} (hT : TablesOK T) {b : Board} (hs : Struct b) (src : Sq) (c : Color) (d : Sq) :
    (MoveGen.pseudoLegals T .pawn src c b.combined (~~~(b.colorCombined c))).getLsbD d.val = true ↔
      pawnStd b.abs src d c = true := by
  unfold MoveGen.pseudoLegals
  simp only
  unfold Board.pawnMoves Board.pawnAttacks
  rw [pawnQuiets_exact_T hT, hT.pawnAttacks, BitVec.getLsbD_and, Bool.and_eq_true, mask_iff hs,
    BitVec.getLsbD_xor, BitVec.getLsbD_and, pawnStd_iff]
  have hA : ((Geom.pawnAttacks c src).getLsbD d.val && b.combined.getLsbD d.val) = true ↔
      (d.rank = src.rank + c.fwd ∧ (d.file = src.file + 1 ∨ d.file = src.file - 1)) ∧
        b.abs.empty d = false := by
    rw [Bool.and_eq_true, mem_pawnAttacks_iff, empty_false_iff_combined hs]
  have hQ := mem_pawnQuiets_coord c src b.combined d
  simp only [occ_bridge hs, Bool.not_eq_false'] at hQ
  have hQ' : (Geom.pawnQuiets c src b.combined).getLsbD d.val = true ↔
      d.file = src.file ∧ b.abs.empty d = true ∧
        (d.rank = src.rank + c.fwd ∨ (d.rank = src.rank + 2 * c.fwd ∧ src.rank = c.pawnRank ∧
          ∃ o : Sq, o.file = src.file ∧ o.rank = src.rank + c.fwd ∧ b.abs.empty o = true)) := by
    rw [hQ]
  clear hQ
  by_cases hf : d.file = src.file
  · -- same file: only pushes
    have hA0 : ((Geom.pawnAttacks c src).getLsbD d.val && b.combined.getLsbD d.val) = false := by
      rw [Bool.eq_false_iff]; intro h; have := (hA.mp h).1.2; omega
    rw [hA0, Bool.false_xor, hQ']
    constructor
    · rintro ⟨⟨_, he, h | ⟨h1, h2, h3⟩⟩, _⟩
      · exact Or.inl ⟨hf, h, he⟩
      · exact Or.inr (Or.inl ⟨hf, h1, h2, he, h3⟩)
    · rintro (⟨_, h, he⟩ | ⟨_, h1, h2, he, h3⟩ | ⟨h, _, _⟩)
      · refine ⟨⟨hf, he, Or.inl h⟩, ?_⟩
        rw [abs_colorAt]; rw [abs_empty] at he
        cases hc : b.content d with
        | none => simp
        | some x => rw [hc] at he; cases he
      · refine ⟨⟨hf, he, Or.inr ⟨h1, h2, h3⟩⟩, ?_⟩
        rw [abs_colorAt]; rw [abs_empty] at he
        cases hc : b.content d with
        | none => simp
        | some x => rw [hc] at he; cases he
      · omega
  · -- another file: only captures
    have hQ0 : (Geom.pawnQuiets c src b.combined).getLsbD d.val = false := by
      rw [Bool.eq_false_iff]; intro h; exact hf (hQ'.mp h).1
    rw [hQ0, Bool.xor_false, hA, colorAt_other_iff]
    constructor
    · rintro ⟨⟨⟨h1, h2⟩, h3⟩, h4⟩
      exact Or.inr (Or.inr ⟨h2, h1, h3, h4⟩)
    · rintro (⟨h, _, _⟩ | ⟨h, _⟩ | ⟨h2, h1, h3, h4⟩)
      · exact absurd h hf
      · exact absurd h hf
      · exact ⟨⟨⟨h1, h2⟩, h3⟩, h4⟩

/-! ### the specification's pawn clause: standard pawn moves = pseudo-legal and not en passant -/

theorem colorAt_of_empty {p : Pos} {d : Sq} (h : p.empty d = true) : p.colorAt d = none := by
  unfold Pos.empty at h; unfold Pos.colorAt
  cases hb : p.board d with
  | none => rfl
  | some x => rw [hb] at h; cases h

theorem empty_of_colorAt {p : Pos} {d : Sq} {c : Color} (h : p.colorAt d = some c) : p.empty d = false := by
  unfold Pos.colorAt at h; unfold Pos.empty
  cases hb : p.board d with
  | none => rw [hb] at h; cases h
  | some x => rfl

/-- a pawn of the side to move: the move `src → d` with promotion value `q` is pseudo-legal and not an
en-passant capture iff it is a single step, double step or capture and `q` satisfies the promotion
condition -/
theorem pseudoLegal_pawn {p : Pos} {src : Sq} (hsrc : p.board src = some (.pawn, p.stm)) (d : Sq)
    (q : Option Piece) :
    (pseudoLegal p ⟨src, d, q⟩ = true ∧ isEnPassant p ⟨src, d, q⟩ = false) ↔
      (pawnStd p src d p.stm = true ∧ promoShape p.stm d q = true) := by
  unfold pseudoLegal isEnPassant pawnStd promoShape
  simp only [hsrc, beq_self_eq_true, Bool.true_and]
  -- name the Boolean components
  generalize hP : (if (d.rank == p.stm.lastRank) = true then
      (match q with | some q => promoPieces.contains q | none => false) else q.isNone) = P
  generalize hA : (d.file - src.file == 0 && d.rank - src.rank == p.stm.fwd && p.empty d) = A
  generalize hB : (d.file - src.file == 0 && d.rank - src.rank == 2 * p.stm.fwd && src.rank == p.stm.pawnRank &&
      p.empty d && (match sq? src.file (src.rank + p.stm.fwd) with | some x => p.empty x | none => false)) = B
  generalize hC : ((d.file - src.file).natAbs == 1 && d.rank - src.rank == p.stm.fwd &&
      p.colorAt d == some p.stm.other) = C
  generalize hD : ((d.file - src.file).natAbs == 1 && d.rank - src.rank == p.stm.fwd && p.empty d &&
      (match sq? d.file src.rank with
       | some q => p.ep == some q && p.has q .pawn p.stm.other
       | none => false)) = D
  generalize hM : (p.colorAt d != some p.stm) = M
  generalize hE : (src.file != d.file && p.empty d) = E
  have fA : A = true → M = true ∧ E = false := by
    intro h; subst hA hM hE
    simp only [Bool.and_eq_true, beq_iff_eq] at h
    refine ⟨?_, ?_⟩
    · rw [colorAt_of_empty h.2]; rfl
    · have : src.file = d.file := by omega
      simp [this]
  have fB : B = true → M = true ∧ E = false := by
    intro h; subst hB hM hE
    simp only [Bool.and_eq_true, beq_iff_eq] at h
    refine ⟨?_, ?_⟩
    · rw [colorAt_of_empty h.1.2]; rfl
    · have : src.file = d.file := by omega
      simp [this]
  have fC : C = true → M = true ∧ E = false := by
    intro h; subst hC hM hE
    simp only [Bool.and_eq_true, beq_iff_eq] at h
    refine ⟨?_, ?_⟩
    · rw [h.2]; cases p.stm <;> rfl
    · rw [empty_of_colorAt h.2]; simp
  have fD : D = true → E = true := by
    intro h; subst hD hE
    simp only [Bool.and_eq_true, beq_iff_eq] at h
    have : src.file ≠ d.file := by omega
    simp [this, h.1.2]
  clear hP hA hB hC hD hM hE
  revert fA fB fC fD
  revert A B C D M E P
  decide

/-! ### the remaining disjunct (for the en-passant generator, proved elsewhere) -/

/-- the fourth disjunct of the pawn clause of `pseudoLegal`: the en-passant capture (same text) -/
def epClause (p : Pos) (src d : Sq) (c : Color) : Bool :=
  let df := d.file - src.file; let dr := d.rank - src.rank
  df.natAbs == 1 && dr == c.fwd && p.empty d &&
    (match sq? d.file src.rank with
     | some q => p.ep == some q && p.has q .pawn c.other
     | none => false)

/-- the pawn clause of `pseudoLegal`, split into the standard moves and the en-passant capture -/
theorem pseudoLegal_pawn_eq {p : Pos} {src : Sq} (hsrc : p.board src = some (.pawn, p.stm)) (d : Sq)
    (q : Option Piece) :
    pseudoLegal p ⟨src, d, q⟩ =
      (p.colorAt d != some p.stm && (promoShape p.stm d q && (pawnStd p src d p.stm || epClause p src d p.stm))) := by
  unfold pseudoLegal pawnStd promoShape epClause
  simp only [hsrc, beq_self_eq_true, Bool.true_and]
  rfl

/-- a pawn of the side to move: pseudo-legal en-passant captures are exactly the fourth disjunct
(with the promotion condition) -/
theorem pseudoLegal_pawn_ep {p : Pos} {src : Sq} (hsrc : p.board src = some (.pawn, p.stm)) (d : Sq)
    (q : Option Piece) :
    (pseudoLegal p ⟨src, d, q⟩ = true ∧ isEnPassant p ⟨src, d, q⟩ = true) ↔
      (epClause p src d p.stm = true ∧ promoShape p.stm d q = true) := by
  have h1 := pseudoLegal_pawn hsrc d q
  rw [pseudoLegal_pawn_eq hsrc] at h1 ⊢
  have hE : epClause p src d p.stm = true → (isEnPassant p ⟨src, d, q⟩ = true ∧ p.colorAt d ≠ some p.stm) := by
    intro h
    unfold epClause at h
    unfold isEnPassant
    simp only [Bool.and_eq_true, beq_iff_eq] at h
    have : src.file ≠ d.file := by omega
    refine ⟨by simp [hsrc, this, h.1.2], ?_⟩
    rw [colorAt_of_empty h.1.2]; exact fun hh => by cases hh
  have hM : (p.colorAt d != some p.stm) = true ↔ p.colorAt d ≠ some p.stm := by simp
  revert h1 hE hM
  generalize (p.colorAt d != some p.stm) = M
  generalize promoShape p.stm d q = P
  generalize pawnStd p src d p.stm = S
  generalize epClause p src d p.stm = E
  generalize isEnPassant p ⟨src, d, q⟩ = I
  generalize (p.colorAt d ≠ some p.stm) = X
  intro h1 hE hM
  cases M <;> cases P <;> cases S <;> cases E <;> cases I <;> simp_all

/-! ### the promotion flag of the code's pawn entries -/

theorem getRank_seventh_iff (src : Sq) (c : Color) :
    src.getRank = c.seventhRank ↔ src.rank + c.fwd = c.lastRank := by
  have h := Sq.getRank_val src
  rw [Fin.ext_iff]
  cases c
  · show src.getRank.val = 6 ↔ src.rank + 1 = 7
    omega
  · show src.getRank.val = 1 ↔ src.rank + -1 = 0
    omega

/-- the code's promotion flag of a pawn entry (`src.get_rank() == color.to_seventh_rank()`) is, for
every destination of that pawn, "the destination is on the last rank".  No hypothesis on `src`: a pawn
on its own last rank has no destination at all (see `pawn_lastRank_no_bits`). -/
theorem pawn_promo_flag {p : Pos} {src d : Sq} {c : Color} (h : pawnStd p src d c = true) :
    src.getRank = c.seventhRank ↔ d.rank = c.lastRank := by
  rw [getRank_seventh_iff]
  rw [pawnStd_iff] at h
  have hs := Sq.coord_bounds src
  have hd := Sq.coord_bounds d
  rcases h with ⟨_, h, _⟩ | ⟨_, h1, h2, _⟩ | ⟨_, h, _⟩
  · rw [h]
  · cases c <;> simp only [Color.fwd, Color.lastRank, Color.pawnRank, Color.homeRank, Color.other] at * <;> omega
  · rw [h]

/-- a pawn standing on its own last rank (possible under `is_sane`, excluded by `Valid`) has no
standard move in the specification … -/
theorem pawnStd_lastRank {p : Pos} {src d : Sq} {c : Color} (hl : src.rank = c.lastRank) :
    pawnStd p src d c = false := by
  rw [Bool.eq_false_iff, ne_eq, pawnStd_iff]
  have hd := Sq.coord_bounds d
  rintro (⟨_, h, _⟩ | ⟨_, h1, h2, _⟩ | ⟨_, h, _⟩) <;>
    cases c <;> simp only [Color.fwd, Color.lastRank, Color.pawnRank, Color.homeRank, Color.other] at * <;> omega

/-- … and no destination in the code -/
theorem pawn_lastRank_no_bits {T : Tables} (hT : TablesOK T) {b : Board} (hs : Struct b) {src : Sq} {c : Color}
    (hl : src.rank = c.lastRank) (d : Sq) :
    (MoveGen.pseudoLegals T .pawn src c b.combined (~~~(b.colorCombined c))).getLsbD d.val = false := by
  rw [Bool.eq_false_iff, ne_eq, pawn_bits hT hs, pawnStd_lastRank hl]
  exact Bool.false_ne_true

/-- a pawn that has a standard move is not on its last rank, and the destination is one rank ahead, or
two ranks ahead from the start rank -/
theorem pawn_dest_rank {p : Pos} {src d : Sq} {c : Color} (h : pawnStd p src d c = true) :
    src.rank ≠ c.lastRank ∧ (d.rank = src.rank + c.fwd ∨ (d.rank = src.rank + 2 * c.fwd ∧ src.rank = c.pawnRank)) := by
  refine ⟨fun hl => (by rw [pawnStd_lastRank hl] at h; cases h), ?_⟩
  rw [pawnStd_iff] at h
  rcases h with ⟨_, h, _⟩ | ⟨_, h1, h2, _⟩ | ⟨_, h, _⟩
  · exact Or.inl h
  · exact Or.inr ⟨h1, h2⟩
  · exact Or.inl h

theorem promoPieces_same (x : Piece) : promoPieces.contains x = true ↔ x ∈ promotionPieces := by
  cases x <;> decide

/-- the promotion condition of the specification in terms of the code's promotion list -/
theorem promoShape_iff (c : Color) (d : Sq) (q : Option Piece) :
    promoShape c d q = true ↔
      (if d.rank = c.lastRank then ∃ x ∈ promotionPieces, q = some x else q = none) := by
  unfold promoShape
  by_cases h : d.rank = c.lastRank
  · simp only [h, beq_self_eq_true, if_true]
    cases q with
    | none => simp
    | some x =>
      simp only [promoPieces_same, Option.some.injEq]
      constructor
      · intro hx; exact ⟨x, hx, rfl⟩
      · rintro ⟨y, hy, rfl⟩; exact hy
  · have : (d.rank == c.lastRank) = false := by simpa using h
    simp only [this, h, if_false, Bool.false_eq_true, Option.isNone_iff_eq_none]

end PseudoBits
end Chess
