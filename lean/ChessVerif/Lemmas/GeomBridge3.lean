import ChessVerif.Lemmas.GeomBridge2
/-
Bridge library, part 3: the arithmetic `strictlyBetween` is the direction form
(`∃ u n t, onRay a u n b ∧ onRay a u t x ∧ t < n`), by coordinate arithmetic (no 64³ enumeration).
-/
namespace Chess

/-- `strictlyBetween` on coordinate differences `(P, Q) = b - a`, `(p, q) = x - a` -/
def sbArith (P Q p q : Int) : Bool :=
  (P == 0 || Q == 0 || P.natAbs == Q.natAbs) &&
  p * Q == q * P &&
  decide (0 < p * P + q * Q) &&
  decide (p * p + q * q < P * P + Q * Q)

theorem strictlyBetween_eq_sbArith (a x b : Sq) :
    strictlyBetween a x b =
      sbArith (b.file - a.file) (b.rank - a.rank) (x.file - a.file) (x.rank - a.rank) := rfl

theorem sbArith_iff (P Q p q : Int) : sbArith P Q p q = true ↔
    (P = 0 ∨ Q = 0 ∨ P.natAbs = Q.natAbs) ∧ p * Q = q * P ∧ 0 < p * P + q * Q ∧
      p * p + q * q < P * P + Q * Q := by
  unfold sbArith
  simp only [Bool.and_eq_true, Bool.or_eq_true, beq_iff_eq, decide_eq_true_eq, and_assoc, or_assoc]

private theorem mul_self_le_of_natAbs_le (V v : Int) (h : V.natAbs ≤ v.natAbs) : V * V ≤ v * v := by
  rw [← Int.natAbs_mul_self (a := V), ← Int.natAbs_mul_self (a := v)]
  exact_mod_cast Nat.mul_le_mul h h

private theorem mul_self_nonneg' (v : Int) : 0 ≤ v * v := by
  rw [← Int.natAbs_mul_self (a := v)]; omega

/-- direction form ⇒ arithmetic form -/
theorem sbArith_of_dir (u : Dir) (n t : Int) (ht : 0 < t) (htn : t < n) :
    sbArith (n * u.df) (n * u.dr) (t * u.df) (t * u.dr) = true := by
  have h1 : 0 < t * n := Int.mul_pos ht (by omega)
  have h2 : t * t < n * n := Int.mul_lt_mul htn (by omega) ht (by omega)
  rw [sbArith_iff]
  cases u <;> refine ⟨?_, ?_, ?_, ?_⟩ <;>
    (simp only [Dir.df, Dir.dr, Int.mul_zero, Int.mul_one, Int.mul_neg, Int.neg_mul, Int.neg_neg,
      Int.zero_mul, Int.add_zero, Int.zero_add, true_or, or_true] <;>
     omega)

/-- one-dimensional core: a positive product and a smaller square -/
private theorem one_dim_pos (Q q : Int) (hQ : 0 < Q) (h3 : 0 < q * Q) (h4 : q * q < Q * Q) :
    0 < q ∧ q < Q := by
  constructor
  · rcases Int.lt_trichotomy 0 q with h | h | h
    · exact h
    · subst h; omega
    · have := Int.mul_nonneg (a := -q) (b := Q) (by omega) (by omega)
      rw [Int.neg_mul] at this
      omega
  · rcases Int.lt_trichotomy q Q with h | h | h
    · exact h
    · subst h; omega
    · have := mul_self_le_of_natAbs_le Q q (by omega)
      omega

private theorem one_dim (Q q : Int) (h3 : 0 < q * Q) (h4 : q * q < Q * Q) :
    (0 < Q ∧ 0 < q ∧ q < Q) ∨ (Q < 0 ∧ q < 0 ∧ Q < q) := by
  rcases Int.lt_trichotomy Q 0 with h | h | h
  · right
    have := one_dim_pos (-Q) (-q) (by omega) (by rw [Int.neg_mul_neg]; exact h3)
      (by rw [Int.neg_mul_neg, Int.neg_mul_neg]; exact h4)
    omega
  · subst h; omega
  · left
    have := one_dim_pos Q q h h3 h4
    omega

/-- arithmetic form ⇒ direction form -/
theorem dir_of_sbArith (P Q p q : Int) (h : sbArith P Q p q = true) :
    ∃ (u : Dir) (n t : Nat), 0 < t ∧ t < n ∧ P = n * u.df ∧ Q = n * u.dr ∧
      p = t * u.df ∧ q = t * u.dr := by
  rw [sbArith_iff] at h
  obtain ⟨h1, h2, h3, h4⟩ := h
  rcases (by omega : P = 0 ∨ (P ≠ 0 ∧ Q = 0) ∨ (Q ≠ 0 ∧ P = Q) ∨ (Q ≠ 0 ∧ P = -Q)) with
    hc | ⟨hn, hc⟩ | ⟨hn, hc⟩ | ⟨hn, hc⟩
  · -- vertical
    subst hc
    simp only [Int.mul_zero, Int.zero_add] at h2 h3 h4
    have hp : p = 0 := by
      rcases Int.mul_eq_zero.mp h2 with h | h
      · exact h
      · subst h; omega
    subst hp
    simp only [Int.mul_zero, Int.zero_add] at h4
    rcases one_dim Q q h3 h4 with ⟨a, b, c⟩ | ⟨a, b, c⟩
    · refine ⟨.n, Q.toNat, q.toNat, ?_⟩
      simp only [Dir.df, Dir.dr]; omega
    · refine ⟨.s, Q.natAbs, q.natAbs, ?_⟩
      simp only [Dir.df, Dir.dr]; omega
  · -- horizontal
    subst hc
    simp only [Int.mul_zero, Int.add_zero] at h2 h3 h4
    have hq : q = 0 := by
      rcases Int.mul_eq_zero.mp h2.symm with h | h
      · exact h
      · exact absurd h hn
    subst hq
    simp only [Int.mul_zero, Int.add_zero] at h4
    rcases one_dim P p h3 h4 with ⟨a, b, c⟩ | ⟨a, b, c⟩
    · refine ⟨.e, P.toNat, p.toNat, ?_⟩
      simp only [Dir.df, Dir.dr]; omega
    · refine ⟨.w, P.natAbs, p.natAbs, ?_⟩
      simp only [Dir.df, Dir.dr]; omega
  · -- diagonal
    subst hc
    have hp : p = q := Int.eq_of_mul_eq_mul_right hn h2
    subst hp
    rcases one_dim P p (by omega) (by omega) with ⟨a, b, c⟩ | ⟨a, b, c⟩
    · refine ⟨.ne, P.toNat, p.toNat, ?_⟩
      simp only [Dir.df, Dir.dr]; omega
    · refine ⟨.sw, P.natAbs, p.natAbs, ?_⟩
      simp only [Dir.df, Dir.dr]; omega
  · -- anti-diagonal
    subst hc
    have hp : p = -q := by
      apply Int.eq_of_mul_eq_mul_right hn
      rw [h2, Int.mul_neg, Int.neg_mul]
    subst hp
    rw [Int.neg_mul_neg] at h3 h4
    rw [Int.neg_mul_neg] at h4
    rcases one_dim Q q (by omega) (by omega) with ⟨a, b, c⟩ | ⟨a, b, c⟩
    · refine ⟨.nw, Q.toNat, q.toNat, ?_⟩
      simp only [Dir.df, Dir.dr]; omega
    · refine ⟨.se, Q.natAbs, q.natAbs, ?_⟩
      simp only [Dir.df, Dir.dr]; omega

/-- the arithmetic betweenness in direction form -/
theorem strictlyBetween_iff (a x b : Sq) : strictlyBetween a x b = true ↔
    ∃ (u : Dir) (n t : Nat), onRay a u n b = true ∧ onRay a u t x = true ∧ t < n := by
  rw [strictlyBetween_eq_sbArith]
  have ha := Sq.coord_bounds a
  have hb := Sq.coord_bounds b
  constructor
  · intro h
    obtain ⟨u, n, t, ht, htn, hP, hQ, hp, hq⟩ :=
      dir_of_sbArith _ _ _ _ h
    refine ⟨u, n, t, ?_, ?_, htn⟩
    · rw [onRay_iff]; refine ⟨by omega, by omega, by omega⟩
    · rw [onRay_iff]; refine ⟨ht, by omega, by omega⟩
  · rintro ⟨u, n, t, hb', hx', htn⟩
    rw [onRay_iff] at hb' hx'
    obtain ⟨_, hb1, hb2⟩ := hb'
    obtain ⟨ht, hx1, hx2⟩ := hx'
    have e1 : b.file - a.file = (n : Int) * u.df := by omega
    have e2 : b.rank - a.rank = (n : Int) * u.dr := by omega
    have e3 : x.file - a.file = (t : Int) * u.df := by omega
    have e4 : x.rank - a.rank = (t : Int) * u.dr := by omega
    rw [e1, e2, e3, e4]
    exact sbArith_of_dir u n t (by omega) (by omega)

/-- the two forms of betweenness agree on all 64³ triples -/
theorem strictlyBetween_eq_spec (a x b : Sq) : strictlyBetween a x b = strictlyBetweenSpec a x b := by
  rw [Bool.eq_iff_iff, strictlyBetween_iff]
  unfold strictlyBetweenSpec
  simp only [List.any_eq_true, List.mem_range, Bool.and_eq_true]
  constructor
  · rintro ⟨u, n, t, h1, h2, h3⟩
    have := onRay_le7 h1
    exact ⟨u, mem_allDirs u, n, by omega, t, h3, h1, h2⟩
  · rintro ⟨u, _, n, _, t, h3, h1, h2⟩
    exact ⟨u, n, t, h1, h2, h3⟩

/-- `aligned` as an existential -/
theorem aligned_iff (ds : List Dir) (a b : Sq) :
    aligned ds a b = true ↔ ∃ u ∈ ds, ∃ n, onRay a u n b = true := by
  unfold aligned
  simp only [List.any_eq_true, List.mem_range]
  constructor
  · rintro ⟨u, hu, n, _, h⟩; exact ⟨u, hu, n, h⟩
  · rintro ⟨u, hu, n, h⟩
    have := onRay_le7 h
    exact ⟨u, hu, n, by omega, h⟩

end Chess
