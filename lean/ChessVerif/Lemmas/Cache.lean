import ChessVerif.Model.Cache
import ChessVerif.Spec.Small
/-
Lemmas for C19: the model of `CacheTable` refines the slot-map specification `Spec.CacheSpec`,
for every sequence of operations, generically in the entry type.
-/
namespace Chess

/-! ### `count_ones = 1` iff power of two -/

theorem popcountNat_eq_zero_iff (n : Nat) : popcountNat n = 0 ↔ n = 0 := by
  induction n using Nat.strongRecOn with
  | _ n ih =>
    cases n with
    | zero => simp [popcountNat]
    | succ m =>
      unfold popcountNat
      have := ih ((m+1)/2) (by omega)
      constructor
      · intro h; omega
      · intro h; omega

theorem popcountNat_eq_one_iff (n : Nat) : popcountNat n = 1 ↔ ∃ k, n = 2 ^ k := by
  induction n using Nat.strongRecOn with
  | _ n ih =>
    cases n with
    | zero =>
      simp only [popcountNat]
      constructor
      · intro h; cases h
      · rintro ⟨k, hk⟩
        have := Nat.two_pow_pos k
        omega
    | succ m =>
      unfold popcountNat
      have ih' := ih ((m+1)/2) (by omega)
      have hz := popcountNat_eq_zero_iff ((m+1)/2)
      constructor
      · intro h
        by_cases hodd : (m+1) % 2 = 1
        · have : (m+1)/2 = 0 := hz.mp (by omega)
          exact ⟨0, by omega⟩
        · obtain ⟨k, hk⟩ := ih'.mp (by omega)
          exact ⟨k+1, by rw [Nat.pow_succ]; omega⟩
      · rintro ⟨k, hk⟩
        cases k with
        | zero =>
          have hm : m = 0 := by simpa using hk
          subst hm
          have : popcountNat ((0+1)/2) = 0 := hz.mpr (by omega)
          omega
        | succ k =>
          rw [Nat.pow_succ] at hk
          have h1 : (m+1) % 2 = 0 := by omega
          have h2 : (m+1) / 2 = 2 ^ k := by omega
          have := ih'.mpr ⟨k, h2⟩
          omega

theorem isPow2_iff (n : Nat) : Spec.isPow2 n = true ↔ ∃ k, k < 64 ∧ n = 2 ^ k := by
  unfold Spec.isPow2
  simp only [Bool.and_eq_true, List.any_eq_true, List.mem_range, beq_iff_eq, ne_eq,
    decide_eq_true_eq]
  constructor
  · rintro ⟨_, k, hk, h⟩; exact ⟨k, hk, h⟩
  · rintro ⟨k, hk, h⟩
    refine ⟨?_, k, hk, h⟩
    have := Nat.two_pow_pos k
    omega

theorem isPow2_iff_popcount (n : Nat) (hn : n < 2 ^ 64) : Spec.isPow2 n = true ↔ popcountNat n = 1 := by
  rw [isPow2_iff, popcountNat_eq_one_iff]
  constructor
  · rintro ⟨k, _, h⟩; exact ⟨k, h⟩
  · rintro ⟨k, h⟩
    refine ⟨k, ?_, h⟩
    apply Classical.byContradiction
    intro hk
    have : 2 ^ 64 ≤ 2 ^ k := Nat.pow_le_pow_right (by decide) (by omega)
    omega

/-! ### the specification's own laws -/

namespace Spec.CacheSpec
variable {α : Type}

theorem slotOf_add (s : CacheSpec α) (h h' : BB) (v : α) : (s.add h v).slotOf h' = s.slotOf h' := rfl

theorem cur_add_same (s : CacheSpec α) (h h' : BB) (v : α) (e : s.slotOf h' = s.slotOf h) :
    (s.add h v).cur h' = (h, v) := by
  unfold cur
  rw [slotOf_add]
  simp only [add, e, if_true, Option.getD_some]

theorem cur_add_other (s : CacheSpec α) (h h' : BB) (v : α) (e : s.slotOf h' ≠ s.slotOf h) :
    (s.add h v).cur h' = s.cur h' := by
  unfold cur
  rw [slotOf_add]
  simp only [add, e, if_false]

theorem get_add_self (s : CacheSpec α) (h : BB) (v : α) : (s.add h v).get h = some v := by
  unfold get
  rw [cur_add_same s h h v rfl]
  simp

theorem get_add_same_slot (s : CacheSpec α) (h h' : BB) (v : α) (hne : h' ≠ h)
    (e : s.slotOf h' = s.slotOf h) : (s.add h v).get h' = none := by
  unfold get
  rw [cur_add_same s h h' v e]
  exact if_neg (fun e' => hne e'.symm)

theorem get_add_other_slot (s : CacheSpec α) (h h' : BB) (v : α) (e : s.slotOf h' ≠ s.slotOf h) :
    (s.add h v).get h' = s.get h' := by
  unfold get
  rw [cur_add_other s h h' v e]

theorem get_untouched (s : CacheSpec α) (h : BB) (e : s.slots (s.slotOf h) = none) :
    s.get h = if h = 0#64 then some s.default else none := by
  unfold get cur
  rw [e]
  simp only [Option.getD_none]
  by_cases hh : h = 0#64
  · subst hh; simp
  · have : ¬ 0#64 = h := fun e => hh e.symm
    simp [hh, this]

end Spec.CacheSpec

namespace Cache
variable {α : Type}

theorem new_isNone_iff (size : Nat) (d : α) (hs : size < 2 ^ 64) :
    (Cache.new size d).isNone = true ↔ ¬ Spec.isPow2 size = true := by
  rw [isPow2_iff_popcount size hs]
  unfold Cache.new
  by_cases h : popcountNat size = 1
  · simp [h]
  · simp [h]

/-! ### well-formedness: the table length is a power of two and the mask is length − 1 -/

def WF (c : Cache α) : Prop := ∃ k, c.table.length = 2 ^ k ∧ c.mask = 2 ^ k - 1

theorem WF.slot_lt {c : Cache α} (w : WF c) (h : BB) : c.slot h < c.table.length := by
  obtain ⟨k, hl, hm⟩ := w
  unfold slot
  rw [hm, hl, Nat.and_two_pow_sub_one_eq_mod]
  exact Nat.mod_lt _ (Nat.two_pow_pos k)

theorem WF.slot_eq {c : Cache α} (w : WF c) (h : BB) : c.slot h = h.toNat % c.table.length := by
  obtain ⟨k, hl, hm⟩ := w
  unfold slot
  rw [hm, hl, Nat.and_two_pow_sub_one_eq_mod]

theorem new_eq_some {size : Nat} {d : α} {c : Cache α} (h : Cache.new size d = some c) :
    popcountNat size = 1 ∧ c = ⟨List.replicate size (0#64, d), size - 1⟩ := by
  unfold Cache.new at h
  by_cases hp : popcountNat size = 1
  · simp [hp] at h
    exact ⟨hp, h.symm⟩
  · simp [hp] at h

theorem WF_new {size : Nat} {d : α} {c : Cache α} (h : Cache.new size d = some c) : WF c := by
  obtain ⟨hp, hc⟩ := new_eq_some h
  obtain ⟨k, hk⟩ := (popcountNat_eq_one_iff size).mp hp
  subst hc
  exact ⟨k, by simp [hk], by simp [hk]⟩

theorem WF_add {c c' : Cache α} {h : BB} {v : α} (w : WF c) (e : c.add h v = some c') : WF c' := by
  unfold add at e
  split at e
  · cases e
    obtain ⟨k, hl, hm⟩ := w
    exact ⟨k, by simpa using hl, hm⟩
  · cases e

theorem WF_replaceIf {c c' : Cache α} {h : BB} {v : α} {p : α → Bool} (w : WF c)
    (e : c.replaceIf h v p = some c') : WF c' := by
  unfold replaceIf at e
  split at e
  · cases e
  · split at e
    · cases e
      obtain ⟨k, hl, hm⟩ := w
      exact ⟨k, by simpa using hl, hm⟩
    · cases e; exact w

/-! ### the refinement relation -/

/-- `c` represents `s`: same size (a power of two, mask = size − 1), and every slot of the table holds
what the specification's slot map says, an untouched slot being `(0, default)` -/
def Rel (c : Cache α) (s : Spec.CacheSpec α) : Prop :=
  s.size = c.table.length ∧ WF c ∧
  ∀ i, i < s.size → c.table[i]? = some ((s.slots i).getD (0#64, s.default))

theorem Rel.slot_eq {c : Cache α} {s : Spec.CacheSpec α} (r : Rel c s) (h : BB) :
    c.slot h = s.slotOf h := by
  unfold Spec.CacheSpec.slotOf
  rw [r.1]; exact r.2.1.slot_eq h

theorem Rel.slot_lt {c : Cache α} {s : Spec.CacheSpec α} (r : Rel c s) (h : BB) :
    s.slotOf h < s.size := by
  rw [← r.slot_eq, r.1]; exact r.2.1.slot_lt h

theorem Rel.lookup {c : Cache α} {s : Spec.CacheSpec α} (r : Rel c s) (h : BB) :
    c.table[c.slot h]? = some (s.cur h) := by
  rw [r.slot_eq h]
  exact r.2.2 _ (r.slot_lt h)

theorem Rel_new {size : Nat} {d : α} {c : Cache α} (h : Cache.new size d = some c) :
    Rel c (Spec.CacheSpec.new size d) := by
  refine ⟨?_, WF_new h, ?_⟩
  · obtain ⟨_, hc⟩ := new_eq_some h
    subst hc; simp [Spec.CacheSpec.new]
  · obtain ⟨_, hc⟩ := new_eq_some h
    subst hc
    intro i hi
    simp only [Spec.CacheSpec.new] at hi ⊢
    simp [hi]

theorem Rel.get {c : Cache α} {s : Spec.CacheSpec α} (r : Rel c s) (h : BB) :
    c.get h = some (s.get h) := by
  unfold Cache.get
  rw [r.lookup h]
  rfl

theorem Rel.set {c : Cache α} {s : Spec.CacheSpec α} (r : Rel c s) (h : BB) (v : α) :
    Rel { c with table := c.table.set (c.slot h) (h, v) } (s.add h v) := by
  refine ⟨?_, ?_, ?_⟩
  · simp only [Spec.CacheSpec.add, List.length_set]; exact r.1
  · obtain ⟨k, hl, hm⟩ := r.2.1
    exact ⟨k, by simpa using hl, hm⟩
  · intro i hi
    simp only [Spec.CacheSpec.add] at hi ⊢
    rw [List.getElem?_set, r.slot_eq h]
    by_cases hi' : i = s.slotOf h
    · subst hi'
      have : s.slotOf h < c.table.length := by rw [← r.1]; exact hi
      simp [this]
    · have : ¬ s.slotOf h = i := fun e => hi' e.symm
      simp only [this, hi', if_false]
      exact r.2.2 i hi

theorem Rel.add {c : Cache α} {s : Spec.CacheSpec α} (r : Rel c s) (h : BB) (v : α) :
    ∃ c', c.add h v = some c' ∧ Rel c' (s.add h v) := by
  refine ⟨_, ?_, r.set h v⟩
  unfold Cache.add
  rw [if_pos (r.2.1.slot_lt h)]

theorem Rel.replaceIf {c : Cache α} {s : Spec.CacheSpec α} (r : Rel c s) (h : BB) (v : α)
    (p : α → Bool) : ∃ c', c.replaceIf h v p = some c' ∧ Rel c' (s.replaceIf h v p) := by
  unfold Cache.replaceIf Spec.CacheSpec.replaceIf
  rw [r.lookup h]
  by_cases hp : p (s.cur h).2 = true
  · simp only [hp, if_true]
    exact ⟨_, rfl, r.set h v⟩
  · simp only [hp]
    exact ⟨_, rfl, r⟩

end Cache

/-! ### operation sequences -/

inductive Cache.Op (α : Type) where
  | add (h : BB) (v : α)
  | replaceIf (h : BB) (v : α) (p : α → Bool)
  | get (h : BB)

namespace Cache
variable {α : Type}

/-- one operation on the model: new state and the output (`get` only); `none` = undefined behaviour -/
def stepModel (c : Cache α) : Op α → Option (Cache α × Option (Option α))
  | .add h v => (c.add h v).map fun c' => (c', none)
  | .replaceIf h v p => (c.replaceIf h v p).map fun c' => (c', none)
  | .get h => (c.get h).map fun r => (c, some r)

def stepSpec (s : Spec.CacheSpec α) : Op α → Spec.CacheSpec α × Option (Option α)
  | .add h v => (s.add h v, none)
  | .replaceIf h v p => (s.replaceIf h v p, none)
  | .get h => (s, some (s.get h))

/-- final state and the list of `get` results of a run of the model -/
def execModel : Cache α → List (Op α) → Option (Cache α × List (Option α))
  | c, [] => some (c, [])
  | c, op :: ops =>
    match stepModel c op with
    | none => none
    | some (c', out) =>
      match execModel c' ops with
      | none => none
      | some (c'', outs) => some (c'', out.toList ++ outs)

def execSpec : Spec.CacheSpec α → List (Op α) → Spec.CacheSpec α × List (Option α)
  | s, [] => (s, [])
  | s, op :: ops =>
    let r := stepSpec s op
    let r' := execSpec r.1 ops
    (r'.1, r.2.toList ++ r'.2)

def runModel (c : Cache α) (ops : List (Op α)) : Option (List (Option α)) := (execModel c ops).map (·.2)
def runSpec (s : Spec.CacheSpec α) (ops : List (Op α)) : List (Option α) := (execSpec s ops).2

theorem Rel.step {c : Cache α} {s : Spec.CacheSpec α} (r : Rel c s) (op : Op α) :
    ∃ c', stepModel c op = some (c', (stepSpec s op).2) ∧ Rel c' (stepSpec s op).1 := by
  cases op with
  | add h v =>
    obtain ⟨c', e, r'⟩ := r.add h v
    exact ⟨c', by simp [stepModel, stepSpec, e], r'⟩
  | replaceIf h v p =>
    obtain ⟨c', e, r'⟩ := r.replaceIf h v p
    exact ⟨c', by simp [stepModel, stepSpec, e], r'⟩
  | get h =>
    exact ⟨c, by simp [stepModel, stepSpec, r.get h], r⟩

theorem Rel.exec {c : Cache α} {s : Spec.CacheSpec α} (r : Rel c s) (ops : List (Op α)) :
    ∃ c', execModel c ops = some (c', (execSpec s ops).2) ∧ Rel c' (execSpec s ops).1 := by
  induction ops generalizing c s with
  | nil => exact ⟨c, rfl, r⟩
  | cons op ops ih =>
    obtain ⟨c1, e1, r1⟩ := r.step op
    obtain ⟨c2, e2, r2⟩ := ih r1
    refine ⟨c2, ?_, r2⟩
    simp only [execModel, e1, e2, execSpec]

/-- a cache is reachable if it is the state after some operation sequence on a freshly created table -/
def Reachable (c : Cache α) : Prop :=
  ∃ (size : Nat) (d : α) (c0 : Cache α) (ops : List (Op α)) (outs : List (Option α)),
    Cache.new size d = some c0 ∧ execModel c0 ops = some (c, outs)

theorem Reachable.rel {c : Cache α} (hc : Reachable c) : ∃ s : Spec.CacheSpec α, Rel c s := by
  obtain ⟨size, d, c0, ops, outs, hn, he⟩ := hc
  obtain ⟨c', e, r⟩ := (Rel_new hn).exec ops
  rw [he] at e
  cases e
  exact ⟨_, r⟩

/-! ### untouched slots -/

def Op.hash : Op α → Option BB
  | .add h _ => some h
  | .replaceIf h _ _ => some h
  | .get _ => none

theorem stepSpec_size (s : Spec.CacheSpec α) (op : Op α) :
    (stepSpec s op).1.size = s.size ∧ (stepSpec s op).1.default = s.default := by
  cases op with
  | add h v => exact ⟨rfl, rfl⟩
  | replaceIf h v p =>
    simp only [stepSpec, Spec.CacheSpec.replaceIf]
    split
    · exact ⟨rfl, rfl⟩
    · exact ⟨rfl, rfl⟩
  | get h => exact ⟨rfl, rfl⟩

theorem stepSpec_slots (s : Spec.CacheSpec α) (op : Op α) (i : Nat)
    (hi : ∀ h, op.hash = some h → s.slotOf h ≠ i) : (stepSpec s op).1.slots i = s.slots i := by
  cases op with
  | add h v =>
    have := hi h rfl
    simp only [stepSpec, Spec.CacheSpec.add]
    rw [if_neg (fun e => this e.symm)]
  | replaceIf h v p =>
    have := hi h rfl
    simp only [stepSpec, Spec.CacheSpec.replaceIf]
    split
    · simp only [Spec.CacheSpec.add]
      rw [if_neg (fun e => this e.symm)]
    · rfl
  | get h => rfl

theorem execSpec_untouched (s : Spec.CacheSpec α) (ops : List (Op α)) (i : Nat)
    (hi : ∀ op ∈ ops, ∀ h, op.hash = some h → h.toNat % s.size ≠ i) :
    (execSpec s ops).1.slots i = s.slots i ∧ (execSpec s ops).1.size = s.size ∧
      (execSpec s ops).1.default = s.default := by
  induction ops generalizing s with
  | nil => exact ⟨rfl, rfl, rfl⟩
  | cons op ops ih =>
    have h1 := stepSpec_slots s op i (fun h hh => hi op (by simp) h hh)
    have h2 := stepSpec_size s op
    have := ih (stepSpec s op).1 (by
      intro op' hop' h hh
      rw [h2.1]
      exact hi op' (by simp [hop']) h hh)
    simp only [execSpec]
    rw [this.1, this.2.1, this.2.2, h1, h2.1, h2.2]
    exact ⟨rfl, rfl, rfl⟩

end Cache
end Chess
