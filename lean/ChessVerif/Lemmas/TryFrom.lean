import ChessVerif.Lemmas.Placement
/-!
`Board::try_from(&BoardBuilder)` establishes `Core` and builds exactly the builder's placement;
`null_move` keeps placement and rights, flips the side, clears ep, and its cached fields are the
from-scratch ones.
-/
namespace Chess

/-! ### the placement fold of `try_from` -/

/-- the loop `for sq in ALL_SQUARES { if let Some((piece, color)) = fen[sq] { board.xor(..) } }` -/
def buildFold (T : Tables) (bd : Builder) (l : List Sq) (acc : Board) : Board :=
  l.foldl (fun b s => match bd.pieces s with
    | some (p, c) => b.xor T p (BB.ofSq s) c
    | none => b) acc

theorem buildFold_nil (T : Tables) (bd : Builder) (acc : Board) : buildFold T bd [] acc = acc := rfl
theorem buildFold_cons (T : Tables) (bd : Builder) (t : Sq) (ts : List Sq) (acc : Board) :
    buildFold T bd (t :: ts) acc = buildFold T bd ts (match bd.pieces t with
      | some (p, c) => acc.xor T p (BB.ofSq t) c
      | none => acc) := rfl

theorem buildFold_core (T : Tables) (bd : Builder) : ∀ (l : List Sq) (acc : Board), l.Nodup → Core T acc →
    (∀ s ∈ l, acc.content s = none) →
    Core T (buildFold T bd l acc) ∧
    ∀ s, (buildFold T bd l acc).content s = if s ∈ l then bd.pieces s else acc.content s := by
  intro l
  induction l with
  | nil => intro acc _ h _; exact ⟨h, fun s => by simp [buildFold_nil]⟩
  | cons t ts ih =>
    intro acc hnd h hemp
    rw [List.nodup_cons] at hnd
    rw [buildFold_cons]
    have ht : acc.content t = none := hemp t (by simp)
    have step : ∃ acc', (match bd.pieces t with
        | some (p, c) => acc.xor T p (BB.ofSq t) c
        | none => acc) = acc' ∧ Core T acc' ∧ ∀ s, acc'.content s = if s = t then bd.pieces t else acc.content s := by
      cases hb : bd.pieces t with
      | none =>
        refine ⟨acc, rfl, h, ?_⟩
        intro s
        by_cases hs : s = t
        · rw [if_pos hs, hs, ht]
        · rw [if_neg hs]
      | some pc =>
        obtain ⟨p, c⟩ := pc
        obtain ⟨h1, c1⟩ := h.add p c ht
        exact ⟨_, rfl, h1, c1⟩
    obtain ⟨acc', e, h', c'⟩ := step
    rw [e]
    have hemp' : ∀ s ∈ ts, acc'.content s = none := by
      intro s hs
      have hne : s ≠ t := by intro e; rw [e] at hs; exact hnd.1 hs
      rw [c', if_neg hne]
      exact hemp s (by simp [hs])
    obtain ⟨h2, c2⟩ := ih acc' hnd.2 h' hemp'
    refine ⟨h2, ?_⟩
    intro s
    rw [c2, c']
    by_cases hs : s ∈ ts
    · have hne : s ≠ t := by intro e; rw [e] at hs; exact hnd.1 hs
      rw [if_pos hs, if_pos (by simp [hs])]
    · rw [if_neg hs]
      by_cases hst : s = t
      · rw [if_pos hst, if_pos (by simp [hst]), hst]
      · rw [if_neg hst, if_neg (by simp [hs, hst])]

theorem buildFold_fields (T : Tables) (bd : Builder) : ∀ (l : List Sq) (acc : Board),
    (buildFold T bd l acc).stm = acc.stm ∧ (buildFold T bd l acc).wcr = acc.wcr ∧
    (buildFold T bd l acc).bcr = acc.bcr ∧ (buildFold T bd l acc).ep = acc.ep := by
  intro l
  induction l with
  | nil => intro acc; exact ⟨rfl, rfl, rfl, rfl⟩
  | cons t ts ih =>
    intro acc
    rw [buildFold_cons]
    cases hb : bd.pieces t with
    | none => exact ih acc
    | some pc =>
      obtain ⟨p, c⟩ := pc
      obtain ⟨h1, h2, h3, h4⟩ := ih (acc.xor T p (BB.ofSq t) c)
      rw [xor_stm] at h1; rw [xor_wcr] at h2; rw [xor_bcr] at h3; rw [xor_ep] at h4
      exact ⟨h1, h2, h3, h4⟩

/-- for every builder state, the placement loop yields a `Core` board holding exactly the builder's men -/
theorem buildFold_allSq (T : Tables) (bd : Builder) :
    Core T (buildFold T bd allSq Board.blank) ∧ (buildFold T bd allSq Board.blank).content = bd.pieces := by
  obtain ⟨h, c⟩ := buildFold_core T bd allSq Board.blank allSq_nodup (Core.blank T) (fun s _ => blank_content s)
  refine ⟨h, ?_⟩
  funext s
  rw [c, if_pos (mem_allSq s)]

/-! ### `try_from` -/

/-- everything `try_from` does after the placement loop and before `is_sane` -/
def tryFromFinish (T : Tables) (bd : Builder) (b : Board) : Board :=
  let b := { b with stm := bd.stm }
  let b := match bd.getEnPassant with
    | some ep =>
      let b1 := { b with stm := b.stm.other }
      let b2 := b1.setEp T ep
      { b2 with stm := b2.stm.other }
    | none => b
  let b := b.setCastleRights .white ((b.castleRights .white).add bd.wcr)
  let b := b.setCastleRights .black ((b.castleRights .black).add bd.bcr)
  b.updatePinInfo T

/-- the board `try_from` hands to `is_sane` -/
def tryFromPre (T : Tables) (bd : Builder) : Board := tryFromFinish T bd (buildFold T bd allSq Board.blank)

theorem tryFrom_eq (T : Tables) (bd : Builder) :
    Board.tryFrom T bd = if (tryFromPre T bd).isSane T then some (tryFromPre T bd) else none := rfl

theorem noRights_add (x : CastleRights) : CastleRights.noRights.add x = x := by
  cases x; simp [CastleRights.noRights, CastleRights.add]

theorem setEp_stm (T : Tables) (b : Board) (s : Sq) : (b.setEp T s).stm = b.stm := by
  unfold Board.setEp; split <;> rfl
theorem setEp_wcr (T : Tables) (b : Board) (s : Sq) : (b.setEp T s).wcr = b.wcr := by
  unfold Board.setEp; split <;> rfl
theorem setEp_bcr (T : Tables) (b : Board) (s : Sq) : (b.setEp T s).bcr = b.bcr := by
  unfold Board.setEp; split <;> rfl
theorem setEp_ep (T : Tables) (b : Board) (s : Sq) : (b.setEp T s).ep =
    if T.adjFiles s.getFile &&& T.ranks s.getRank &&& b.pawns &&& b.colorCombined b.stm.other ≠ 0#64
    then some s else b.ep := by
  unfold Board.setEp; split <;> rfl

theorem tryFromFinish_spec (T : Tables) (bd : Builder) (b0 : Board) (hw : b0.wcr = .noRights)
    (hb : b0.bcr = .noRights) (he : b0.ep = none) :
    SamePl (tryFromFinish T bd b0) b0 ∧ (tryFromFinish T bd b0).stm = bd.stm ∧
    (tryFromFinish T bd b0).wcr = bd.wcr ∧ (tryFromFinish T bd b0).bcr = bd.bcr ∧
    (tryFromFinish T bd b0).ep = (match bd.getEnPassant with
      | some e =>
        if T.adjFiles e.getFile &&& T.ranks e.getRank &&& b0.pawns &&& b0.colorCombined bd.stm ≠ 0#64
        then some e else none
      | none => none) ∧
    Board.updatePinInfo T (tryFromFinish T bd b0) = tryFromFinish T bd b0 := by
  cases hep : bd.getEnPassant with
  | none =>
    unfold tryFromFinish; rw [hep]
    refine ⟨rfl, rfl, ?_, ?_, he, rfl⟩
    · show CastleRights.add b0.wcr bd.wcr = bd.wcr
      rw [hw, noRights_add]
    · show CastleRights.add b0.bcr bd.bcr = bd.bcr
      rw [hb, noRights_add]
  | some e =>
    unfold tryFromFinish; rw [hep]
    refine ⟨?_, ?_, ?_, ?_, ?_, rfl⟩
    · unfold SamePl
      rw [pl_updatePinInfo, pl_setCastleRights, pl_setCastleRights]
      show (Board.setEp T _ e).pl = _
      rw [pl_setEp]; rfl
    · show (Board.setEp T _ e).stm.other = bd.stm
      rw [setEp_stm]; exact Color.other_other _
    · show CastleRights.add (Board.setEp T _ e).wcr bd.wcr = bd.wcr
      rw [setEp_wcr]
      show CastleRights.add b0.wcr bd.wcr = bd.wcr
      rw [hw, noRights_add]
    · show CastleRights.add (Board.setEp T _ e).bcr bd.bcr = bd.bcr
      rw [setEp_bcr]
      show CastleRights.add b0.bcr bd.bcr = bd.bcr
      rw [hb, noRights_add]
    · show (Board.setEp T _ e).ep = _
      rw [setEp_ep]
      show (if T.adjFiles e.getFile &&& T.ranks e.getRank &&& b0.pawns &&&
          b0.colorCombined bd.stm.other.other ≠ 0#64 then some e else b0.ep) = _
      rw [Color.other_other, he]

theorem tryFromPre_spec (T : Tables) (bd : Builder) :
    Core T (tryFromPre T bd) ∧ (tryFromPre T bd).content = bd.pieces ∧ (tryFromPre T bd).stm = bd.stm ∧
    (tryFromPre T bd).wcr = bd.wcr ∧ (tryFromPre T bd).bcr = bd.bcr ∧
    (tryFromPre T bd).ep = (match bd.getEnPassant with
      | some e =>
        if T.adjFiles e.getFile &&& T.ranks e.getRank &&& (tryFromPre T bd).pawns &&&
            (tryFromPre T bd).colorCombined (tryFromPre T bd).stm ≠ 0#64 then some e else none
      | none => none) ∧
    Board.updatePinInfo T (tryFromPre T bd) = tryFromPre T bd := by
  obtain ⟨hc, hcont⟩ := buildFold_allSq T bd
  obtain ⟨_, f2, f3, f4⟩ := buildFold_fields T bd allSq Board.blank
  obtain ⟨hs, h1, h2, h3, h4, h5⟩ := tryFromFinish_spec T bd (buildFold T bd allSq Board.blank) f2 f3 f4
  have hp : (tryFromPre T bd).pawns = (buildFold T bd allSq Board.blank).pawns := ((samePl_iff _ _).mp hs).1
  have hcc : ∀ d, (tryFromPre T bd).colorCombined d = (buildFold T bd allSq Board.blank).colorCombined d := by
    intro d
    cases d
    · exact ((samePl_iff _ _).mp hs).2.2.2.2.2.2.1
    · exact ((samePl_iff _ _).mp hs).2.2.2.2.2.2.2.1
  refine ⟨(hs.core_iff T).mpr hc, ?_, h1, h2, h3, ?_, h5⟩
  · unfold tryFromPre; rw [hs.content_eq, hcont]
  · rw [hp, hcc]
    have : (tryFromPre T bd).stm = bd.stm := h1
    rw [this]
    exact h4

/-- what an accepted builder state yields -/
theorem tryFrom_spec (T : Tables) (bd : Builder) (b : Board) (h : Board.tryFrom T bd = some b) :
    Core T b ∧ b.content = bd.pieces ∧ b.stm = bd.stm ∧ b.wcr = bd.wcr ∧ b.bcr = bd.bcr ∧
    b.ep = (match bd.getEnPassant with
      | some e =>
        if T.adjFiles e.getFile &&& T.ranks e.getRank &&& b.pawns &&& b.colorCombined b.stm ≠ 0#64
        then some e else none
      | none => none) ∧
    Board.updatePinInfo T b = b ∧ b.isSane T = true := by
  rw [tryFrom_eq] at h
  by_cases hs : (tryFromPre T bd).isSane T = true
  · rw [if_pos hs] at h
    injection h with h
    subst h
    obtain ⟨h1, h2, h3, h4, h5, h6, h7⟩ := tryFromPre_spec T bd
    exact ⟨h1, h2, h3, h4, h5, h6, h7, hs⟩
  · rw [if_neg hs] at h; cases h

/-! ### `null_move` -/

theorem updatePinInfo_idem (T : Tables) (b : Board) :
    Board.updatePinInfo T (Board.updatePinInfo T b) = Board.updatePinInfo T b := rfl

theorem nullMove_none_iff (T : Tables) (b : Board) : b.nullMove T = none ↔ b.checkers ≠ 0#64 := by
  unfold Board.nullMove
  by_cases h : b.checkers ≠ 0#64
  · rw [if_pos h]; exact ⟨fun _ => h, fun _ => rfl⟩
  · rw [if_neg h]; exact ⟨fun e => (by cases e), fun e => absurd e h⟩

theorem nullMove_some (T : Tables) (b b' : Board) (h : b.nullMove T = some b') :
    b.checkers = 0#64 ∧ b' = Board.updatePinInfo T { b with stm := b.stm.other, ep := none } := by
  unfold Board.nullMove at h
  by_cases hc : b.checkers ≠ 0#64
  · rw [if_pos hc] at h; cases h
  · rw [if_neg hc] at h
    injection h with h
    exact ⟨Classical.not_not.mp hc, h.symm⟩

theorem nullMove_spec (T : Tables) (b b' : Board) (h : b.nullMove T = some b') :
    SamePl b' b ∧ b'.wcr = b.wcr ∧ b'.bcr = b.bcr ∧ b'.stm = b.stm.other ∧ b'.ep = none ∧
    Board.updatePinInfo T b' = b' := by
  obtain ⟨_, e⟩ := nullMove_some T b b' h
  subst e
  exact ⟨rfl, rfl, rfl, rfl, rfl, rfl⟩

end Chess
