import ChessVerif.Lemmas.GameRefine
import ChessVerif.Lemmas.Irreversible
/-!
# The Model game refines the Spec game — part B: draw claims

The model's `can_declare_draw` scans the log and keeps a counter `reversible` and a list `seen` of
`(get_hash, legal move list)` entries since the last pawn move, capture or change of castling rights.  The
Spec counts the occurrences of the current `Pos.key` in the *whole* history and keeps a half-move `clock`.

* B1 `isPawnOrCapture_eq`, `rightsChanged_eq`: the model's tests are the Spec's.
* `SimH`: `Sim` extended by the scan: `reversible = clock`, and the Spec history splits into `old ++ new` with
  `seen` = the entries of the (`Good`) boards of `new`, every position of `old` having a strictly larger
  potential `Φ` (`Lemmas/Irreversible.lean`) than the current one.
* B3 `seen_count_eq_occurrences`: under `NoCollision` the number of occurrences of the current entry in `seen`
  is the number of occurrences of the current position in the whole history.
* B4 `canDeclareDraw_iff_claimable`, `simH_perform`, `simH_run`.
-/
namespace Chess
namespace GameRefine
open Chess.Game Chess.Final Chess.Props Chess.Irreversible

variable {T : Tables}

/-! ### B1: the model's tests are the Spec's -/

/-- "a pawn stands on the source square or the destination is occupied" is the Spec's "pawn move or capture"
(an en-passant capture is a pawn move) -/
theorem isPawnOrCapture_eq {b : Board} (hs : Struct b) (m : Move) :
    isPawnOrCapture b m = Spec.GameSt.isCaptureOrPawn b.abs m := by
  unfold isPawnOrCapture Spec.GameSt.isCaptureOrPawn Pos.empty
  rw [abs_board]
  congr 1
  · cases hc : b.content m.src with
    | none => rw [pieceOn_of_content_none hs hc]; rfl
    | some x =>
      obtain ⟨pc, c⟩ := x
      rw [pieceOn_of_content hs hc]
      cases pc <;> rfl
  · cases hc : b.content m.dst with
    | none => rw [pieceOn_of_content_none hs hc]; rfl
    | some x =>
      obtain ⟨pc, c⟩ := x
      rw [pieceOn_of_content hs hc]; rfl

theorem rightsList_abs (b : Board) : rightsList b.abs = [b.wcr.ks, b.wcr.qs, b.bcr.ks, b.bcr.qs] := rfl

theorem rightsChanged_aux : ∀ a b c d a' b' c' d' : Bool,
    decide ((⟨a', b'⟩ : CastleRights) ≠ ⟨a, b⟩ ∨ (⟨c', d'⟩ : CastleRights) ≠ ⟨c, d⟩) =
      ([a', b', c', d'] != [a, b, c, d]) := by decide

/-- "the castling rights of `b'` differ from those of `b`" on the positions -/
theorem rightsChanged_eq (b b' : Board) : rightsChanged b b' = (rightsList b'.abs != rightsList b.abs) := by
  rw [rightsList_abs, rightsList_abs]
  unfold rightsChanged
  exact rightsChanged_aux _ _ _ _ _ _ _ _

/-- the model's cut condition is the Spec-level `irreversible` -/
theorem cut_eq {b b' : Board} (hs : Struct b) (m : Move) (habs : b'.abs = norm (apply b.abs m)) :
    (isPawnOrCapture b m || rightsChanged b b') = irreversible b.abs m := by
  rw [isPawnOrCapture_eq hs, rightsChanged_eq, habs]
  rfl

/-! ### the extended relation -/

structure ScanInv (T : Tables) (g : Game) (sg : Spec.GameSt) (st : DrawScan) (old : List Pos)
    (newB : List Board) : Prop where
  scan : g.drawScan T = some st
  clock : st.reversible = sg.clock
  hist : sg.history = old ++ newB.map Board.abs
  seen : st.seen = newB.map (entry T)
  good : ∀ b ∈ newB, b.Good T
  cur : st.board ∈ newB
  oldΦ : ∀ q ∈ old, Φ sg.pos < Φ q
  newΦ : ∀ b ∈ newB, Φ sg.pos ≤ Φ b.abs

/-- `Sim` plus: the scan of `can_declare_draw` agrees with the Spec's clock and history -/
def SimH (T : Tables) (g : Game) (sg : Spec.GameSt) : Prop :=
  Sim T g sg ∧ ∃ st old newB, ScanInv T g sg st old newB

theorem SimH.sim {g : Game} {sg : Spec.GameSt} (h : SimH T g sg) : Sim T g sg := h.1

theorem simH_init {b0 : Board} (h0 : b0.Good T) : SimH T ⟨b0, []⟩ (Spec.GameSt.init b0.abs) := by
  refine ⟨sim_init h0, scanInit T b0, [], [b0], ?_⟩
  exact
    { scan := rfl, clock := rfl, hist := rfl, seen := rfl
      good := fun b hb => by simp at hb; subst hb; exact h0
      cur := by simp [scanInit]
      oldΦ := fun q hq => by simp at hq
      newΦ := fun b hb => by simp at hb; subst hb; exact Nat.le_refl _ }

theorem simH_snoc_other {g : Game} {sg : Spec.GameSt} (h : SimH T g sg) (a : Action) (ha : isMove a = false) :
    SimH T { g with moves := g.moves ++ [a] } { sg with log := sg.log ++ [a] } := by
  obtain ⟨hsim, st, old, newB, inv⟩ := h
  refine ⟨sim_snoc_other hsim a ha, st, old, newB, ?_⟩
  exact
    { scan := by rw [← inv.scan]; exact drawScan_append_other T g.startPos g.moves a ha
      clock := inv.clock, hist := inv.hist, seen := inv.seen, good := inv.good, cur := inv.cur
      oldΦ := inv.oldΦ, newΦ := inv.newΦ }

theorem simH_snoc_move (hT : TablesOK T) {g : Game} {sg : Spec.GameSt} (h : SimH T g sg) (m : Move)
    (hl : legal sg.pos m = true) :
    SimH T { g with moves := g.moves ++ [.makeMove m] }
      { pos := norm (apply sg.pos m), log := sg.log ++ [.makeMove m],
        history := sg.history ++ [norm (apply sg.pos m)],
        clock := if Spec.GameSt.isCaptureOrPawn sg.pos m then 0 else sg.clock + 1 } := by
  obtain ⟨hsim, st, old, newB, inv⟩ := h
  refine ⟨sim_snoc_move hT hsim m hl _ _, ?_⟩
  obtain ⟨cur, hc, hg, habs, hlog⟩ := hsim
  have hb : st.board = cur := by
    have := (drawScan_board_last inv.scan).1
    rw [hc] at this
    exact (Option.some.inj this).symm
  rw [← habs] at hl
  obtain ⟨b', hmk, hg', habs'⟩ := good_makeMove hT hg hl
  have hΦ := Φ_step (Closure.legal_pseudo hl)
  rw [← habs'] at hΦ
  have hcut := cut_eq hg.struct m habs'
  have hpc := isPawnOrCapture_eq hg.struct m
  obtain ⟨st', hst'⟩ : ∃ st' : DrawScan, st' = ⟨b', if isPawnOrCapture cur m then 0 else st.reversible + 1,
    (if isPawnOrCapture cur m || rightsChanged cur b' then [] else st.seen) ++ [entry T b']⟩ := ⟨_, rfl⟩
  have hscan : drawScan T ⟨g.startPos, g.moves ++ [.makeMove m]⟩ = some st' := by
    rw [drawScan_append_move, show drawScan T ⟨g.startPos, g.moves⟩ = some st from inv.scan, Option.bind_some,
      drawStep_eq, hb, hmk, Option.map_some, hst']
  have hst1 : st'.board = b' := by rw [hst']
  have hst2 : st'.reversible = if Spec.GameSt.isCaptureOrPawn cur.abs m then 0 else sg.clock + 1 := by
    rw [hst', ← hpc, inv.clock]
  have hst3 : st'.seen = (if irreversible cur.abs m then [] else st.seen) ++ [entry T b'] := by
    rw [hst', ← hcut]
  rw [← habs]
  by_cases hirr : irreversible cur.abs m = true
  · -- the list is cut: everything so far becomes old
    refine ⟨st', sg.history, [b'], ?_⟩
    exact
      { scan := hscan
        clock := hst2
        hist := by simp [habs']
        seen := by rw [hst3]; simp only [hirr, if_true, List.nil_append, List.map_cons, List.map_nil]
        good := fun b hb' => by simp at hb'; subst hb'; exact hg'
        cur := by simp [hst1]
        oldΦ := by
          intro q hq
          have hlt := hΦ.2 hirr
          simp only [← habs']
          rw [inv.hist, List.mem_append] at hq
          rcases hq with hq | hq
          · have := inv.oldΦ q hq; rw [← habs] at this; omega
          · obtain ⟨b, hbm, rfl⟩ := List.mem_map.mp hq
            have := inv.newΦ b hbm; rw [← habs] at this; omega
        newΦ := fun b hb' => by
          simp at hb'; subst hb'; simp only [← habs']; exact Nat.le_refl _ }
  · -- the list goes on
    have hirr' : irreversible cur.abs m = false := by simpa using hirr
    refine ⟨st', old, newB ++ [b'], ?_⟩
    exact
      { scan := hscan
        clock := hst2
        hist := by simp [inv.hist, habs']
        seen := by rw [hst3]; simp [hirr', inv.seen]
        good := fun b hb' => by
          rw [List.mem_append] at hb'
          rcases hb' with hb' | hb'
          · exact inv.good b hb'
          · simp at hb'; subst hb'; exact hg'
        cur := by simp [hst1]
        oldΦ := by
          intro q hq
          simp only [← habs']
          have := inv.oldΦ q hq; rw [← habs] at this; omega
        newΦ := fun b hb' => by
          simp only [← habs']
          rw [List.mem_append] at hb'
          rcases hb' with hb' | hb'
          · have := inv.newΦ b hb'; rw [← habs] at this; omega
          · simp at hb'; subst hb'; exact Nat.le_refl _ }

/-! ### B3: `seen` against the whole history -/

/-- no two different positions of the history have the same `(get_hash, legal move list)` entry.  (Stated on the
`Good` boards holding them; such a board is determined by its position, `C03_board_determined_abs`, and its
`get_hash` is `Pos.hashOf` of the position, `C08_hash_pure`.) -/
def NoCollision (T : Tables) (H : List Pos) : Prop :=
  ∀ b₁ b₂ : Board, b₁.Good T → b₂.Good T → b₁.abs ∈ H → b₂.abs ∈ H →
    b₁.abs.hashOf T = b₂.abs.hashOf T → b₁.legalMoves T = b₂.legalMoves T →
    Spec.Pos.key b₁.abs = Spec.Pos.key b₂.abs

theorem NoCollision.mono {H H' : List Pos} (h : NoCollision T H') (hs : H ⊆ H') : NoCollision T H :=
  fun b₁ b₂ g₁ g₂ m₁ m₂ => h b₁ b₂ g₁ g₂ (hs m₁) (hs m₂)

/-- sufficient (and decidable on a concrete history): the position hash alone separates the positions -/
theorem noCollision_of_hash_inj {H : List Pos}
    (h : ∀ q₁ ∈ H, ∀ q₂ ∈ H, q₁.hashOf T = q₂.hashOf T → Spec.Pos.key q₁ = Spec.Pos.key q₂) : NoCollision T H :=
  fun _ _ _ _ m₁ m₂ hh _ => h _ m₁ _ m₂ hh

/-- for `Good` boards of the history: equal entries ⇔ equal positions -/
theorem entry_eq_iff {H : List Pos} (hnc : NoCollision T H) {b₁ b₂ : Board} (g₁ : b₁.Good T) (g₂ : b₂.Good T)
    (m₁ : b₁.abs ∈ H) (m₂ : b₂.abs ∈ H) :
    entry T b₁ = entry T b₂ ↔ Spec.Pos.key b₁.abs = Spec.Pos.key b₂.abs := by
  constructor
  · intro he
    unfold entry at he
    rw [Prod.mk.injEq, getHash_eq_hashOf T b₁ g₁.core.hash, getHash_eq_hashOf T b₂ g₂.core.hash] at he
    exact hnc b₁ b₂ g₁ g₂ m₁ m₂ he.1 he.2
  · intro hk
    have := PinStep.board_determined_abs g₁.core g₂.core g₁.pin g₂.pin (key_inj hk)
    rw [this]

/-- **the repetition count of the scan is the Spec's**: the current entry occurs in `seen` exactly as often as
the current position occurs in the whole history -/
theorem seen_count_eq_occurrences {g : Game} {sg : Spec.GameSt} {st : DrawScan} {old : List Pos}
    {newB : List Board} (inv : ScanInv T g sg st old newB) (habs : st.board.abs = sg.pos)
    (hnc : NoCollision T sg.history) : st.seen.count (entry T st.board) = sg.occurrences := by
  unfold Spec.GameSt.occurrences
  rw [inv.seen, inv.hist, List.filter_append, List.length_append]
  have hold : old.filter (fun q => Spec.Pos.key q == Spec.Pos.key sg.pos) = [] := by
    rw [List.filter_eq_nil_iff]
    intro q hq hk
    have := Φ_of_key (by simpa using hk : Spec.Pos.key q = Spec.Pos.key sg.pos)
    have := inv.oldΦ q hq
    omega
  rw [hold, List.length_nil, Nat.zero_add, List.count_eq_countP, List.countP_map, List.filter_map,
    List.length_map, ← List.countP_eq_length_filter]
  apply List.countP_congr
  intro b hb
  have hmem : ∀ b ∈ newB, b.abs ∈ sg.history := fun b hb => by
    rw [inv.hist]; exact List.mem_append_right _ (List.mem_map_of_mem hb)
  have := entry_eq_iff hnc (inv.good b hb) (inv.good _ inv.cur) (hmem b hb) (hmem _ inv.cur)
  rw [habs] at this
  simp only [Function.comp, beq_iff_eq]
  exact this

/-! ### B4: claiming -/

theorem simH_board {g : Game} {sg : Spec.GameSt} {st : DrawScan} {old : List Pos} {newB : List Board}
    (hsim : Sim T g sg) (inv : ScanInv T g sg st old newB) : st.board.abs = sg.pos := by
  obtain ⟨cur, hc, _, habs, _⟩ := hsim
  have := (drawScan_board_last inv.scan).1
  rw [hc] at this
  rw [← Option.some.inj this]; exact habs

/-- **`can_declare_draw` answers the Spec's `claimable`** -/
theorem canDeclareDraw_iff_claimable (hT : TablesOK T) {g : Game} {sg : Spec.GameSt} (h : SimH T g sg)
    (hnc : NoCollision T sg.history) : g.canDeclareDraw T = some true ↔ sg.claimable = true := by
  obtain ⟨hsim, st, old, newB, inv⟩ := h
  have hcount := seen_count_eq_occurrences inv (simH_board hsim inv) hnc
  rw [canDeclareDraw_iff, sim_result hT hsim]
  unfold Spec.GameSt.claimable
  simp only [Bool.and_eq_true, Bool.or_eq_true, decide_eq_true_eq, Option.isNone_iff_eq_none, Option.some.injEq]
  constructor
  · rintro ⟨hr, st', hs', hcl⟩
    rw [inv.scan] at hs'; injection hs' with hs'; subst hs'
    rw [hcount, inv.clock] at hcl
    exact ⟨hr, hcl.symm⟩
  · rintro ⟨hr, hcl⟩
    refine ⟨hr, st, inv.scan, ?_⟩
    rw [hcount, inv.clock]
    exact hcl.symm

/-- the scan values, one by one: the counter is the Spec's clock, the count is the Spec's occurrences -/
theorem scan_values {g : Game} {sg : Spec.GameSt} (h : SimH T g sg) (hnc : NoCollision T sg.history) :
    ∃ st, g.drawScan T = some st ∧ st.reversible = sg.clock ∧
      st.seen.count (entry T st.board) = sg.occurrences := by
  obtain ⟨hsim, st, old, newB, inv⟩ := h
  exact ⟨st, inv.scan, inv.clock, seen_count_eq_occurrences inv (simH_board hsim inv) hnc⟩

/-- one request, draw claims included -/
theorem simH_perform (hT : TablesOK T) {g g' : Game} {sg : Spec.GameSt} (h : SimH T g sg)
    (hnc : NoCollision T sg.history) {a : Action} {acc : Bool} (hp : g.perform T a = some (g', acc)) :
    acc = (sg.step a).2 ∧ SimH T g' (sg.step a).1 := by
  have hr := sim_result hT h.sim
  cases hres : sg.result with
  | some r =>
    rw [hres] at hr
    rw [perform_of_result hr a] at hp
    simp only [Option.some.injEq, Prod.mk.injEq] at hp
    obtain ⟨rfl, rfl⟩ := hp
    simp only [Spec.GameSt.step, hres, Option.isSome_some, if_true]
    exact ⟨trivial, h⟩
  | none =>
    have hstep : ∀ x, (if sg.result.isSome = true then (sg, false) else x) = x := by
      intro x; rw [hres]; rfl
    cases a with
    | declareDraw =>
      obtain ⟨h1, h2, h3⟩ := declareDraw_spec hp
      have hiff := canDeclareDraw_iff_claimable hT h hnc
      simp only [Spec.GameSt.step, hstep]
      cases hcl : sg.claimable with
      | true =>
        have hacc : acc = true := h1.mpr (hiff.mpr hcl)
        subst hacc
        rw [h2 rfl]
        simp only [if_true]
        exact ⟨trivial, simH_snoc_other h _ rfl⟩
      | false =>
        have hacc : acc = false := by
          cases acc with
          | false => rfl
          | true => have := hiff.mp (h1.mp rfl); rw [hcl] at this; cases this
        subst hacc
        rw [h3 rfl]
        simp only [Bool.false_eq_true, if_false]
        exact ⟨trivial, h⟩
    | makeMove m =>
      obtain ⟨hacc, _⟩ := sim_perform hT h.sim (a := .makeMove m) (by simp) hp
      refine ⟨hacc, ?_⟩
      obtain ⟨_, h2, h3⟩ := makeMove_spec hp
      simp only [Spec.GameSt.step, hstep] at hacc ⊢
      cases hl : legal sg.pos m with
      | true =>
        rw [hl] at hacc
        simp only [if_true] at hacc ⊢
        rw [h2 hacc]
        exact simH_snoc_move hT h m hl
      | false =>
        rw [hl] at hacc
        simp only [Bool.false_eq_true, if_false] at hacc ⊢
        rw [h3 hacc]
        exact h
    | offerDraw c =>
      obtain ⟨hacc, _⟩ := sim_perform hT h.sim (a := .offerDraw c) (by simp) hp
      refine ⟨hacc, ?_⟩
      simp only [Spec.GameSt.step, hstep] at hacc ⊢
      rw [(offerDraw_spec hp).2.1 hacc]
      exact simH_snoc_other h _ rfl
    | resign c =>
      obtain ⟨hacc, _⟩ := sim_perform hT h.sim (a := .resign c) (by simp) hp
      refine ⟨hacc, ?_⟩
      simp only [Spec.GameSt.step, hstep] at hacc ⊢
      rw [(resign_spec hp).2.1 hacc]
      exact simH_snoc_other h _ rfl
    | acceptDraw =>
      obtain ⟨hacc, _⟩ := sim_perform hT h.sim (a := .acceptDraw) (by simp) hp
      refine ⟨hacc, ?_⟩
      simp only [Spec.GameSt.step, hstep] at hacc ⊢
      cases hal : sg.acceptAllowed with
      | true =>
        rw [hal] at hacc
        simp only [if_true] at hacc ⊢
        rw [(acceptDraw_spec hp).2.1 hacc]
        exact simH_snoc_other h _ rfl
      | false =>
        rw [hal] at hacc
        simp only [Bool.false_eq_true, if_false] at hacc ⊢
        rw [(acceptDraw_spec hp).2.2 hacc]
        exact h

/-- the Spec's history only grows -/
theorem step_history_subset (sg : Spec.GameSt) (a : Action) : sg.history ⊆ (sg.step a).1.history := by
  unfold Spec.GameSt.step
  split
  · exact fun _ h => h
  · cases a with
    | makeMove m =>
      simp only []
      split
      · exact fun _ h => List.mem_append_left _ h
      · exact fun _ h => h
    | offerDraw c => exact fun _ h => h
    | resign c => exact fun _ h => h
    | acceptDraw => simp only []; split <;> exact fun _ h => h
    | declareDraw => simp only []; split <;> exact fun _ h => h

theorem specRun_history_subset (sg : Spec.GameSt) (acts : List Action) :
    sg.history ⊆ (specRun sg acts).1.history := by
  induction acts generalizing sg with
  | nil => exact fun _ h => h
  | cons a rest ih =>
    exact fun q hq => ih (sg.step a).1 (step_history_subset sg a hq)

/-- **refinement, draw claims included**: if no two different positions of the (Spec's) game have the same
`(hash, legal moves)` entry, the model run does not panic, accepts exactly the requests the Spec accepts and
ends in a related state -/
theorem simH_run (hT : TablesOK T) {g : Game} {sg : Spec.GameSt} (h : SimH T g sg) (acts : List Action)
    (hnc : NoCollision T (specRun sg acts).1.history) :
    ∃ gf, run T g acts = some (gf, (specRun sg acts).2) ∧ SimH T gf (specRun sg acts).1 := by
  induction acts generalizing g sg with
  | nil => exact ⟨g, rfl, h⟩
  | cons a rest ih =>
    have hsome := sim_perform_isSome hT h.sim a
    cases hp : g.perform T a with
    | none => rw [hp] at hsome; cases hsome
    | some r =>
      obtain ⟨g', acc⟩ := r
      have hnc0 : NoCollision T sg.history := hnc.mono (specRun_history_subset sg (a :: rest))
      obtain ⟨hacc, hs'⟩ := simH_perform hT h hnc0 hp
      obtain ⟨gf, hrun, hsf⟩ := ih hs' hnc
      refine ⟨gf, ?_, hsf⟩
      simp only [run, hp, hrun, Option.map_some, specRun, hacc]

end GameRefine
end Chess
