import ChessVerif.Spec.SanExec
import ChessVerif.Lemmas.Plausible
import ChessVerif.Lemmas.SanScan
import ChessVerif.Lemmas.Final
/-!
Helpers for `Props/C12Exec.lean`: the executable SAN oracle `SanSpec.isSpellingB` / `SanSpec.sanDenotes` decides
exactly `SanSpec.IsSpelling`.
-/
namespace Chess
namespace SanSpec

/-! ### the enumerations are exhaustive -/

theorem any_suffix (f : Suffix → Bool) :
    [Suffix.none, .check, .mate].any f = true ↔ ∃ sfx, f sfx = true := by
  rw [List.any_eq_true]
  constructor
  · rintro ⟨x, _, h⟩; exact ⟨x, h⟩
  · rintro ⟨x, h⟩; exact ⟨x, by cases x <;> simp, h⟩

theorem any_disamb (f : Disamb → Bool) :
    [Disamb.none, .file, .rank, .both].any f = true ↔ ∃ d, f d = true := by
  rw [List.any_eq_true]
  constructor
  · rintro ⟨x, _, h⟩; exact ⟨x, h⟩
  · rintro ⟨x, h⟩; exact ⟨x, by cases x <;> simp, h⟩

theorem any_bool (f : Bool → Bool) :
    [false, true].any f = true ↔ ∃ b, f b = true := by
  rw [List.any_eq_true]
  constructor
  · rintro ⟨x, _, h⟩; exact ⟨x, h⟩
  · rintro ⟨x, h⟩; exact ⟨x, by cases x <;> simp, h⟩

/-! ### the two branches -/

theorem isSpellingB_castle {p : Pos} {lm : List Move} {m : Move} {s : List Char} (hc : isCastle p m = true) :
    isSpellingB p lm m s = true ↔
      ∃ sfx, s = (if m.dst.file > m.src.file then "O-O".toList else "O-O-O".toList) ++ suffixText sfx := by
  unfold isSpellingB
  rw [if_pos hc, any_suffix]
  simp only [beq_iff_eq]

theorem pawnCapture_iff (p : Pos) (m : Move) (d : Disamb) :
    (!(((p.board m.src).map (·.1) == some Piece.pawn) && isCapture p m) || d == .file || d == .both) = true ↔
      (((p.board m.src).map (·.1) = some .pawn ∧ isCapture p m = true) → d = .file ∨ d = .both) := by
  cases h1 : ((p.board m.src).map (·.1) == some Piece.pawn) <;> cases h2 : isCapture p m <;>
    simp only [beq_eq_false_iff_ne, beq_iff_eq, ne_eq] at h1 <;>
    simp [h1]

theorem isSpellingB_nonCastle {p : Pos} {m : Move} {s : List Char} (hc : isCastle p m = false) :
    isSpellingB p (legalMoves p) m s = true ↔
      ∃ d sfx epMark, unambiguous p d m = true ∧ (epMark = true → isEnPassant p m = true) ∧
        (((p.board m.src).map (·.1) = some .pawn ∧ isCapture p m = true) → d = .file ∨ d = .both) ∧
        s = spell p m d sfx epMark := by
  unfold isSpellingB
  rw [hc]
  simp only [Bool.false_eq_true, if_false]
  rw [any_disamb]
  constructor
  · rintro ⟨d, h⟩
    rw [Bool.and_eq_true, pawnCapture_iff, any_suffix] at h
    obtain ⟨hpc, sfx, h⟩ := h
    rw [any_bool] at h
    obtain ⟨e, h⟩ := h
    rw [Bool.and_eq_true, Bool.and_eq_true, beq_iff_eq] at h
    obtain ⟨⟨he, hs⟩, hu⟩ := h
    refine ⟨d, sfx, e, hu, ?_, hpc, hs⟩
    intro h; subst h; simpa using he
  · rintro ⟨d, sfx, e, hu, he, hpc, hs⟩
    refine ⟨d, ?_⟩
    rw [Bool.and_eq_true, pawnCapture_iff, any_suffix]
    refine ⟨hpc, sfx, ?_⟩
    rw [any_bool]
    refine ⟨e, ?_⟩
    rw [Bool.and_eq_true, Bool.and_eq_true, beq_iff_eq]
    refine ⟨⟨?_, hs⟩, hu⟩
    cases e with
    | false => rfl
    | true => simpa using he rfl

/-- the oracle on the list of legal moves, without the legality clause of `IsSpelling` -/
theorem isSpellingB_iff_body (p : Pos) (m : Move) (s : List Char) :
    isSpellingB p (legalMoves p) m s = true ↔
      ((isCastle p m = true ∧ ∃ sfx, s = (if m.dst.file > m.src.file then "O-O".toList else "O-O-O".toList) ++ suffixText sfx) ∨
       (isCastle p m = false ∧ ∃ d sfx epMark, unambiguous p d m = true ∧ (epMark = true → isEnPassant p m = true) ∧
          (((p.board m.src).map (·.1) = some .pawn ∧ isCapture p m = true) → d = .file ∨ d = .both) ∧
          s = spell p m d sfx epMark)) := by
  cases hc : isCastle p m with
  | true =>
    rw [isSpellingB_castle hc]
    simp
  | false =>
    rw [isSpellingB_nonCastle hc]
    simp

theorem isSpellingB_iff {p : Pos} {m : Move} (s : List Char) (hl : legal p m = true) :
    isSpellingB p (legalMoves p) m s = true ↔ IsSpelling p m s := by
  rw [isSpellingB_iff_body]
  unfold IsSpelling
  exact ⟨fun h => ⟨hl, h⟩, fun h => h.2⟩

theorem mem_sanDenotes_iff (p : Pos) (m : Move) (s : List Char) :
    m ∈ sanDenotes p s ↔ IsSpelling p m s := by
  unfold sanDenotes
  simp only [List.mem_filter, Plausible.mem_legalMoves_iff]
  constructor
  · rintro ⟨hl, h⟩; exact (isSpellingB_iff s hl).mp h
  · intro h; exact ⟨h.1, (isSpellingB_iff s h.1).mpr h⟩

/-! ### a text is an admissible spelling of at most one legal move -/

theorem board_of_legal {p : Pos} {m : Move} (h : legal p m = true) : ∃ pc col, p.board m.src = some (pc, col) := by
  have hp := (Plausible.plausible_iff p m).mp (Plausible.legal_plausible h)
  have h1 := hp.1
  unfold Pos.colorAt at h1
  cases hb : p.board m.src with
  | none => rw [hb] at h1; cases h1
  | some x => exact ⟨x.1, x.2, rfl⟩

theorem promo_of_legal {p : Pos} {m : Move} (h : legal p m = true) :
    m.promo ∈ [none, some Piece.queen, some .rook, some .bishop, some .knight] := by
  have hp := (Plausible.plausible_iff p m).mp (Plausible.legal_plausible h)
  rcases hp.2.2.2 with h0 | ⟨q, hq, hc⟩
  · rw [h0]; simp
  · rw [hq]; cases q <;> simp [promoPieces] at hc ⊢

theorem sq_eq_of_file_rank {a b : Sq} (hf : a.file = b.file) (hr : a.rank = b.rank) : a = b := by
  unfold Sq.file at hf; unfold Sq.rank at hr
  apply Fin.ext; omega

/-- equal scanned source parts under `d₁`, `d₂`: the disambiguation kinds are equal and the sources agree on the
spelled parts -/
theorem disamb_eq {d1 d2 : Disamb} {a b : Sq} (hf : San.disambFile d1 a = San.disambFile d2 b)
    (hr : San.disambRank d1 a = San.disambRank d2 b) :
    d1 = d2 ∧ (d1 = .file → b.file = a.file) ∧ (d1 = .rank → b.rank = a.rank) ∧ (d1 = .both → b = a) := by
  cases d1 <;> cases d2 <;> simp only [San.disambFile, San.disambRank, Option.some.injEq, reduceCtorEq] at hf hr <;>
    refine ⟨rfl, ?_, ?_, ?_⟩ <;> intro h <;> cases h
  · unfold Sq.getFile at hf; unfold Sq.file
    have := congrArg Fin.val hf; simp only at this; omega
  · unfold Sq.getRank at hr; unfold Sq.rank
    have := congrArg Fin.val hr; simp only at this; omega
  · unfold Sq.getFile at hf; unfold Sq.getRank at hr
    have h1 := congrArg Fin.val hf; have h2 := congrArg Fin.val hr; simp only at h1 h2
    apply Fin.ext; omega

/-- two legal non-castling moves with a common text, the first spelled unambiguously: the same move -/
theorem spell_unique {p : Pos} {m1 m2 : Move} {d1 d2 : Disamb} {s1 s2 : Suffix} {e1 e2 : Bool}
    (h1 : legal p m1 = true) (h2 : legal p m2 = true) (hu : unambiguous p d1 m1 = true)
    (heq : spell p m1 d1 s1 e1 = spell p m2 d2 s2 e2) : m2 = m1 := by
  obtain ⟨pc1, c1, hb1⟩ := board_of_legal h1
  obtain ⟨pc2, c2, hb2⟩ := board_of_legal h2
  have q1 := San.scan_spell p m1 d1 s1 e1 pc1 c1 hb1 (promo_of_legal h1)
  have q2 := San.scan_spell p m2 d2 s2 e2 pc2 c2 hb2 (promo_of_legal h2)
  rw [heq, q2, Option.some.injEq, San.Fields.mk.injEq] at q1
  obtain ⟨hpc, hf, hr, _, hd, hpr, _⟩ := q1
  obtain ⟨_, hsf, hsr, hsb⟩ := disamb_eq hf.symm hr.symm
  have hag : agrees p d1 m1 m2 = true := by
    unfold agrees
    rw [hb1, hb2, hpc, hd, hpr]
    cases d1
    · simp
    · simp [hsf rfl]
    · simp [hsr rfl]
    · simp [hsb rfl]
  unfold unambiguous at hu
  rw [List.all_eq_true] at hu
  have := hu m2 ((Plausible.mem_legalMoves_iff p m2).mpr h2)
  rw [hag] at this
  simpa using this

/-- a legal move that `isCastle` recognises starts on the e-file home square of the side to move, stays on its rank
and carries no promotion -/
theorem castle_shape {p : Pos} {m : Move} (hl : legal p m = true) (hc : isCastle p m = true) :
    m.src.rank = p.stm.homeRank ∧ m.src.file = 4 ∧ m.dst.rank = m.src.rank ∧
      (m.dst.file - m.src.file).natAbs = 2 ∧ m.promo = none := by
  unfold legal at hl
  rw [Bool.and_eq_true] at hl
  have hps := hl.1
  unfold isCastle at hc
  rw [Bool.and_eq_true, beq_iff_eq] at hc
  obtain ⟨hk, hdf⟩ := hc
  unfold pseudoLegal at hps
  cases hb : p.board m.src with
  | none => rw [hb] at hk; cases hk
  | some x =>
    obtain ⟨pc, c'⟩ := x
    rw [hb] at hk hps
    cases pc <;> simp only [Bool.false_eq_true] at hk
    simp only [Bool.and_eq_true, Bool.or_eq_true, beq_iff_eq, Option.isNone_iff_eq_none] at hps
    obtain ⟨_, hpr, hmv⟩ := hps
    rcases hmv with hat | hcs
    · exfalso
      unfold attacks at hat
      rw [hb] at hat
      have := Plausible.king_step_coord hat
      omega
    · obtain ⟨⟨⟨⟨hr, hf⟩, hdr⟩, _⟩, _⟩ := hcs
      refine ⟨hr, hf, by omega, hdf, hpr⟩

/-- two legal castling moves to the same side are the same move -/
theorem castle_unique {p : Pos} {m1 m2 : Move} (h1 : legal p m1 = true) (h2 : legal p m2 = true)
    (c1 : isCastle p m1 = true) (c2 : isCastle p m2 = true)
    (hside : (m1.dst.file > m1.src.file) ↔ (m2.dst.file > m2.src.file)) : m1 = m2 := by
  obtain ⟨a1, a2, a3, a4, a5⟩ := castle_shape h1 c1
  obtain ⟨b1, b2, b3, b4, b5⟩ := castle_shape h2 c2
  have hs : m1.src = m2.src := sq_eq_of_file_rank (by omega) (by omega)
  have hd : m1.dst = m2.dst := sq_eq_of_file_rank (by omega) (by omega)
  cases m1; cases m2
  simp only at hs hd a5 b5
  rw [hs, hd, a5, b5]

theorem castleText_of_castle (m : Move) (sfx : Suffix) :
    San.castleText ((if m.dst.file > m.src.file then "O-O".toList else "O-O-O".toList) ++ suffixText sfx) =
      (if m.dst.file > m.src.file then "O-O".toList else "O-O-O".toList) := by
  split
  · exact San.castleText_short sfx
  · exact San.castleText_long sfx

/-- **uniqueness**: a text is an admissible spelling of at most one legal move -/
theorem isSpelling_unique {p : Pos} {m1 m2 : Move} {s : List Char}
    (h1 : IsSpelling p m1 s) (h2 : IsSpelling p m2 s) : m1 = m2 := by
  obtain ⟨l1, h1⟩ := h1
  obtain ⟨l2, h2⟩ := h2
  rcases h1 with ⟨c1, sf1, e1⟩ | ⟨c1, d1, sf1, ep1, u1, _, _, e1⟩ <;>
    rcases h2 with ⟨c2, sf2, e2⟩ | ⟨c2, d2, sf2, ep2, u2, _, _, e2⟩
  · apply castle_unique l1 l2 c1 c2
    have t1 := castleText_of_castle m1 sf1
    have t2 := castleText_of_castle m2 sf2
    rw [← e1] at t1
    rw [← e2, t1] at t2
    by_cases g1 : m1.dst.file > m1.src.file <;> by_cases g2 : m2.dst.file > m2.src.file <;>
      simp only [g1, g2, if_true, if_false] at t2 <;> simp only [g1, g2]
    · exact absurd t2 (by decide)
    · exact absurd t2 (by decide)
  · exfalso
    obtain ⟨pc, col, hb⟩ := board_of_legal l2
    have t1 := castleText_of_castle m1 sf1
    rw [← e1, e2] at t1
    apply San.castleText_spell p m2 d2 sf2 ep2 pc col hb
    rw [t1]; split
    · exact Or.inl rfl
    · exact Or.inr rfl
  · exfalso
    obtain ⟨pc, col, hb⟩ := board_of_legal l1
    have t2 := castleText_of_castle m2 sf2
    rw [← e2, e1] at t2
    apply San.castleText_spell p m1 d1 sf1 ep1 pc col hb
    rw [t2]; split
    · exact Or.inl rfl
    · exact Or.inr rfl
  · exact (spell_unique l1 l2 u1 (e1.symm.trans e2)).symm

theorem legalMoves_nodup (p : Pos) : (legalMoves p).Nodup :=
  List.Nodup.sublist List.filter_sublist (Final.candidates_nodup p)

theorem sanDenotes_nodup (p : Pos) (s : List Char) : (sanDenotes p s).Nodup :=
  List.Nodup.sublist List.filter_sublist (legalMoves_nodup p)

/-- the oracle's answer is the empty list or a single move -/
theorem sanDenotes_length_le_one (p : Pos) (s : List Char) : (sanDenotes p s).length ≤ 1 := by
  have hn := sanDenotes_nodup p s
  have hu : ∀ a ∈ sanDenotes p s, ∀ b ∈ sanDenotes p s, a = b := fun a ha b hb =>
    isSpelling_unique ((mem_sanDenotes_iff p a s).mp ha) ((mem_sanDenotes_iff p b s).mp hb)
  match hl : sanDenotes p s with
  | [] => simp
  | [_] => simp
  | a :: b :: r =>
    rw [hl] at hn hu
    have : a = b := hu a (by simp) b (by simp)
    subst this
    simp at hn

end SanSpec
end Chess
