import ChessVerif.Lemmas.MakeMove
/-!
The two side conditions of `make_move_refines` are invariants of play: `Pos.EpSane` holds after every
pseudo-legal move (and null move), `Pos.RightsSane` is preserved by them, and `is_sane` implies
`Pos.RightsSane`.  So the only place where a side condition can fail is the ep mark of the board
`try_from` starts from.
-/
namespace Chess

/-- a table set defined by geometry, used to call the case lemmas from specification-only statements -/
def geomT : Tables := geomTables 0#64 (fun _ _ _ => 0#64) (fun _ _ => 0#64) (fun _ _ => 0#64)

theorem geomT_ok : TablesOK geomT :=
  ⟨fun _ => rfl, fun _ => rfl, fun _ => rfl, fun _ => rfl, fun _ _ => rfl, fun _ _ => rfl, fun _ _ => rfl,
   fun _ _ => rfl, rfl, rfl, rfl, fun _ => rfl, fun _ => rfl, fun _ => rfl, fun _ => rfl, fun _ => rfl, rfl,
   fun _ _ => rfl, fun _ _ => rfl⟩

theorem norm_ep_some {P : Pos} {q : Sq} (h : (norm P).ep = some q) : P.ep = some q := by
  unfold norm at h
  simp only at h
  cases hp : P.ep with
  | none => rw [hp] at h; cases h
  | some q' =>
    rw [hp] at h
    simp only at h
    split at h
    · exact h
    · cases h

theorem apply_ep_some {p : Pos} {m : Move} {q : Sq} (h : (apply p m).ep = some q) :
    isDoubleStep p m = true ∧ q = m.dst := by
  unfold apply at h
  simp only at h
  split at h
  · rename_i hd
    injection h with h
    exact ⟨hd, h.symm⟩
  · cases h

theorem isDoubleStep_src {p : Pos} {m : Move} (h : isDoubleStep p m = true) :
    ∃ c', p.board m.src = some (.pawn, c') := by
  unfold isDoubleStep at h
  cases hs : p.board m.src with
  | none => rw [hs] at h; cases h
  | some x =>
    obtain ⟨pc, c'⟩ := x
    rw [hs] at h
    cases pc <;> first | exact ⟨c', rfl⟩ | cases h

/-- after a pseudo-legal move the recorded ep mark is consistent, whatever the position before -/
theorem epSane_after {p : Pos} {m : Move} (h : pseudoLegal p m = true) : (norm (apply p m)).EpSane := by
  intro q hq
  obtain ⟨hd, hqD⟩ := apply_ep_some (norm_ep_some hq)
  subst hqD
  obtain ⟨pc, hsrc, _⟩ := pseudoLegal_src h
  obtain ⟨c', hs'⟩ := isDoubleStep_src hd
  rw [hsrc] at hs'
  injection hs' with hs'; injection hs' with hpc _
  subst hpc
  obtain ⟨hpromo, hk⟩ := pseudoLegal_pawn h hsrc
  have hdd := (isDoubleStep_pawn hsrc).mp hd
  have hSf := file_range m.src; have hSr := rank_range m.src
  have hDf := file_range m.dst; have hDr := rank_range m.dst
  have hcc := color_consts p.stm
  have hc := isCastle_not_king hsrc (by decide)
  rcases hk with ⟨a, b, c⟩ | ⟨a, b, c, d, x, hx, hxe⟩ | ⟨a, b, x, c⟩ | ⟨a, b, c, _⟩
  · omega
  · have he : isEnPassant p m = false := bool_false_of_not (by rw [isEnPassant_pawn hsrc]; intro hh; omega)
    have hpn : m.promo = none := hpromo (by omega)
    show (apply p m).board m.dst = some (.pawn, p.stm.other.other) ∧
      m.dst.rank = p.stm.other.other.pawnRank + 2 * p.stm.other.other.fwd ∧
      ∀ mid, sq? m.dst.file (m.dst.rank - p.stm.other.other.fwd) = some mid → (apply p m).board mid = none
    rw [Color.other_other]
    refine ⟨?_, by omega, ?_⟩
    · rw [apply_board_plain hc he, if_pos rfl, applyMoved_eq hsrc, hpn]
    · intro mid hmid
      rw [sq?_eq_some] at hmid hx
      have hmx : mid = x := by rw [sq_eq_iff]; omega
      subst hmx
      have n1 : mid ≠ m.dst := by intro e; rw [e] at hmid; omega
      have n2 : mid ≠ m.src := by intro e; rw [e] at hx; omega
      rw [apply_board_plain hc he, if_neg n1, if_neg n2, hxe]
  · omega
  · omega

theorem homeRank_inj {c d : Color} (h : c.homeRank = d.homeRank) : c = d := by
  cases c <;> cases d <;> first | rfl | (simp [Color.homeRank] at h)

/-- a king or rook standing on its colour's home rank away from source and destination stays, unless its
own king castles (then the source is that colour's e-square) -/
theorem apply_board_keep {p : Pos} {m : Move} (h : pseudoLegal p m = true) (hep : p.EpSane) {x : Sq}
    {pc' : Piece} {d : Color} (hxS : x ≠ m.src) (hxD : x ≠ m.dst) (hx : p.board x = some (pc', d))
    (hpc : pc' ≠ .pawn) (hrank : x.rank = d.homeRank) (hcast : d = p.stm → mkSq d.backrank 4 ≠ m.src) :
    (apply p m).board x = some (pc', d) := by
  obtain ⟨pc, hsrc, hdc⟩ := pseudoLegal_src h
  have hne : m.src ≠ m.dst := by
    intro e; apply hdc; rw [colorAt_eq_some]; exact ⟨pc, by rw [← e]; exact hsrc⟩
  by_cases hp : pc = .pawn
  · subst hp
    have hc := isCastle_not_king hsrc (by decide)
    rcases pawn_cases geomT_ok h hsrc hep with ⟨he, _, _⟩ | ⟨_, _, he, _⟩ | ⟨_, _, _, he, _, hv, hvict, _⟩
    · rw [apply_board_plain hc he, if_neg hxD, if_neg hxS, hx]
    · rw [apply_board_plain hc he, if_neg hxD, if_neg hxS, hx]
    · have n : x ≠ m.dst.ubackward p.stm := by
        intro e; rw [e, hvict] at hx
        injection hx with hx; injection hx with hx _
        exact hpc hx.symm
      rw [apply_board_ep hc he hv, if_neg hxD, if_neg hxS, if_neg n, hx]
  · have he := isEnPassant_not_pawn hsrc hp
    by_cases hk : pc = .king
    · subst hk
      rcases king_cases geomT_ok h hsrc hne with ⟨hc, _⟩ | ⟨hc, _, _, hrs, hre, _, _, _, _, _, _, _⟩
      · rw [apply_board_plain hc he, if_neg hxD, if_neg hxS, hx]
      · -- castling: the source is the mover's e-square
        have hSe : mkSq p.stm.backrank 4 = m.src := by
          rcases pseudoLegal_king h hsrc with ha | ⟨a, b, _⟩
          · have := king_attacks_near hsrc ha
            have := (isCastle_king hsrc).mp hc
            omega
          · rw [sq_eq_iff, mkSq_file, mkSq_rank, backrank_val]
            exact ⟨by rw [b]; rfl, a.symm⟩
        have hd : d ≠ p.stm := fun e => hcast e (by rw [e]; exact hSe)
        have nr : ∀ f : Fin 8, x ≠ mkSq p.stm.backrank f := by
          intro f e
          rw [e, mkSq_rank, backrank_val] at hrank
          exact hd (homeRank_inj hrank).symm
        rw [apply_board_castle hc he hrs hre, if_neg hxD, if_neg hxS, if_neg (nr _), if_neg (nr _), hx]
    · have hc := isCastle_not_king hsrc hk
      rw [apply_board_plain hc he, if_neg hxD, if_neg hxS, hx]

theorem touched_false {a S D : Sq} (h : (!(some a == some S || some a == some D)) = true) : a ≠ S ∧ a ≠ D := by
  simp only [Bool.not_eq_true', Bool.or_eq_false_iff, beq_eq_false_iff_ne, ne_eq, Option.some.injEq] at h
  exact h

/-- castling rights keep implying king and rook at home after a pseudo-legal move -/
theorem rightsSane_after {p : Pos} {m : Move} (hr : p.RightsSane) (hep : p.EpSane) (h : pseudoLegal p m = true) :
    (norm (apply p m)).RightsSane := by
  intro d
  obtain ⟨hK, hQ⟩ := hr d
  have keep : ∀ (f : Fin 8) (pc' : Piece), pc' ≠ .pawn → mkSq d.backrank f ≠ m.src → mkSq d.backrank f ≠ m.dst →
      mkSq d.backrank 4 ≠ m.src →
      (some (mkSq d.backrank f)).any (p.has · pc' d) = true →
      (some (mkSq d.backrank f)).any ((norm (apply p m)).has · pc' d) = true := by
    intro f pc' hpc n1 n2 n3 hh
    simp only [Option.any_some, Pos.has, beq_iff_eq] at hh ⊢
    show (apply p m).board (mkSq d.backrank f) = some (pc', d)
    exact apply_board_keep h hep n1 n2 hh hpc (by rw [mkSq_rank, backrank_val]) (fun _ => n3)
  constructor
  · intro hk
    have hk' : (p.castleK d && !(homeSq d 4 == some m.src || homeSq d 4 == some m.dst) &&
        !(homeSq d 7 == some m.src || homeSq d 7 == some m.dst)) = true := hk
    rw [homeSq_4, homeSq_7, Bool.and_eq_true, Bool.and_eq_true] at hk'
    obtain ⟨⟨k0, k1⟩, k2⟩ := hk'
    obtain ⟨e1, e2⟩ := touched_false k1
    obtain ⟨r1, r2⟩ := touched_false k2
    obtain ⟨a1, a2⟩ := hK k0
    rw [homeSq_4] at a1 ⊢; rw [homeSq_7] at a2 ⊢
    exact ⟨keep 4 .king (by decide) e1 e2 e1 a1, keep 7 .rook (by decide) r1 r2 e1 a2⟩
  · intro hk
    have hk' : (p.castleQ d && !(homeSq d 4 == some m.src || homeSq d 4 == some m.dst) &&
        !(homeSq d 0 == some m.src || homeSq d 0 == some m.dst)) = true := hk
    rw [homeSq_4, homeSq_0, Bool.and_eq_true, Bool.and_eq_true] at hk'
    obtain ⟨⟨k0, k1⟩, k2⟩ := hk'
    obtain ⟨e1, e2⟩ := touched_false k1
    obtain ⟨r1, r2⟩ := touched_false k2
    obtain ⟨a1, a2⟩ := hQ k0
    rw [homeSq_4] at a1 ⊢; rw [homeSq_0] at a2 ⊢
    exact ⟨keep 4 .king (by decide) e1 e2 e1 a1, keep 0 .rook (by decide) r1 r2 e1 a2⟩

/-! ### `is_sane` implies `RightsSane` -/

theorem isSane_rights {T : Tables} {b : Board} (h : b.isSane T = true) (c : Color) :
    ((b.castleRights c).unmovedRooks c &&& b.rooks &&& b.colorCombined c) = (b.castleRights c).unmovedRooks c ∧
    (b.castleRights c = .noRights ∨ (b.kings &&& b.colorCombined c) = (T.files 4 &&& T.ranks c.backrank)) := by
  unfold Board.isSane at h
  simp only [Bool.and_eq_true] at h
  have hc := List.all_eq_true.mp h.1.2 c (by cases c <;> simp [allColors])
  simp only [Bool.and_eq_true, Bool.or_eq_true, beq_iff_eq] at hc
  exact hc

theorem e_square_bit {T : Tables} (hT : TablesOK T) (r : Fin 8) :
    (T.files 4 &&& T.ranks r).getLsbD (mkSq r 4).val = true := by
  rw [hT.files, hT.ranks]
  unfold Geom.files Geom.ranks
  rw [BitVec.getLsbD_and, getLsbD_setOf, getLsbD_setOf]
  have h1 : (mkSq r 4).fileN = (4 : Fin 8).val := by
    show (r.val * 8 + 4) % 8 = 4; omega
  have h2 : (mkSq r 4).rankN = r.val := by
    show (r.val * 8 + 4) / 8 = r.val; omega
  rw [Bool.and_eq_true, beq_iff_eq, beq_iff_eq]
  exact ⟨h1, h2⟩

theorem set_bit_other (r : Fin 8) {f g : Fin 8} (h : f ≠ g) : (BB.set r f).getLsbD (mkSq r g).val = false := by
  unfold BB.set
  rw [BB.getLsbD_ofSq]
  apply decide_eq_false
  intro e
  exact mkSq_ne_file r h (Fin.ext e).symm

theorem set_bit_self (r f : Fin 8) : (BB.set r f).getLsbD (mkSq r f).val = true := BB.getLsbD_ofSq_self _

theorem unmovedRooks_ks {cr : CastleRights} (c : Color) (h : cr.ks = true) :
    (cr.unmovedRooks c).getLsbD (mkSq c.backrank 7).val = true := by
  obtain ⟨ks, qs⟩ := cr
  simp only at h; subst h
  cases qs
  · exact set_bit_self _ _
  · show (BB.set c.backrank 0 ^^^ BB.set c.backrank 7).getLsbD _ = true
    rw [BitVec.getLsbD_xor, set_bit_self, set_bit_other _ (by decide)]; rfl

theorem unmovedRooks_qs {cr : CastleRights} (c : Color) (h : cr.qs = true) :
    (cr.unmovedRooks c).getLsbD (mkSq c.backrank 0).val = true := by
  obtain ⟨ks, qs⟩ := cr
  simp only at h; subst h
  cases ks
  · exact set_bit_self _ _
  · show (BB.set c.backrank 0 ^^^ BB.set c.backrank 7).getLsbD _ = true
    rw [BitVec.getLsbD_xor, set_bit_self, set_bit_other _ (by decide)]; rfl

/-- boards accepted by `is_sane` have king and rook at home wherever a castling right is recorded -/
theorem isSane_rightsSane {T : Tables} (hT : TablesOK T) {b : Board} (hs : Struct b) (h : b.isSane T = true) :
    b.abs.RightsSane := by
  intro c
  obtain ⟨hrooks, hking⟩ := isSane_rights h c
  have kingAt : b.castleRights c ≠ .noRights → (homeSq c 4).any (b.abs.has · .king c) = true := by
    intro hn
    rcases hking with hk | hk
    · exact absurd hk hn
    · have hb := e_square_bit hT c.backrank
      rw [← hk, BitVec.getLsbD_and, Bool.and_eq_true] at hb
      rw [homeSq_4]
      simp only [Option.any_some, Pos.has, beq_iff_eq]
      exact (hs.content_some_iff _ _ _).mpr hb
  have rookAt : ∀ f : Fin 8, ((b.castleRights c).unmovedRooks c).getLsbD (mkSq c.backrank f).val = true →
      (some (mkSq c.backrank f)).any (b.abs.has · .rook c) = true := by
    intro f hf
    have hb := hf
    rw [← hrooks, BitVec.getLsbD_and, BitVec.getLsbD_and, Bool.and_eq_true, Bool.and_eq_true] at hb
    simp only [Option.any_some, Pos.has, beq_iff_eq]
    exact (hs.content_some_iff _ _ _).mpr ⟨hb.1.2, hb.2⟩
  constructor
  · intro hk
    have hk' : (b.castleRights c).ks = true := hk
    refine ⟨kingAt (fun e => by rw [e] at hk'; cases hk'), ?_⟩
    rw [homeSq_7]
    exact rookAt 7 (unmovedRooks_ks c hk')
  · intro hq
    have hq' : (b.castleRights c).qs = true := hq
    refine ⟨kingAt (fun e => by rw [e] at hq'; cases hq'), ?_⟩
    rw [homeSq_0]
    exact rookAt 0 (unmovedRooks_qs c hq')

/-! ### the invariant of play -/

/-- `Core`, and the two side conditions of `make_move_refines` -/
def PlayInv (T : Tables) (b : Board) : Prop := Core T b ∧ b.abs.EpSane ∧ b.abs.RightsSane

theorem PlayInv.tryFrom {T : Tables} (hT : TablesOK T) {bd : Builder} {b : Board} (h : Board.tryFrom T bd = some b)
    (hep : b.abs.EpSane) : PlayInv T b := by
  obtain ⟨hc, _, _, _, _, _, _, hs⟩ := tryFrom_spec T bd b h
  exact ⟨hc, hep, isSane_rightsSane hT hc.toStruct hs⟩

theorem PlayInv.null {T : Tables} {b b' : Board} (hi : PlayInv T b) (h : b.nullMove T = some b') : PlayInv T b' := by
  obtain ⟨hs, hw, hb, _, he, _⟩ := nullMove_spec T b b' h
  refine ⟨(hs.core_iff T).mpr hi.1, ?_, ?_⟩
  · intro q hq
    have : b'.ep = some q := hq
    rw [he] at this; cases this
  · intro c
    have hcr : b'.castleRights c = b.castleRights c := castleRights_of_fields hw hb c
    have hbd : b'.abs.board = b.abs.board := hs.content_eq
    obtain ⟨hK, hQ⟩ := hi.2.2 c
    constructor
    · intro hk
      have hk' : b.abs.castleK c = true := by
        show (b.castleRights c).ks = true
        rw [← hcr]; exact hk
      have := hK hk'
      unfold Pos.has at this ⊢
      rw [hbd]; exact this
    · intro hk
      have hk' : b.abs.castleQ c = true := by
        show (b.castleRights c).qs = true
        rw [← hcr]; exact hk
      have := hQ hk'
      unfold Pos.has at this ⊢
      rw [hbd]; exact this

theorem PlayInv.move {T : Tables} (hT : TablesOK T) {b b' : Board} {m : Move} (hi : PlayInv T b)
    (hpl : pseudoLegal b.abs m = true) (h : b.makeMoveNew T m = some b') :
    PlayInv T b' ∧ b'.abs = norm (apply b.abs m) := by
  obtain ⟨b'', e, hc, habs⟩ := make_move_abs hT hi.1 hpl hi.2.1 hi.2.2
  rw [h] at e
  injection e with e
  subst e
  refine ⟨⟨hc, ?_, ?_⟩, habs⟩
  · rw [habs]; exact epSane_after hpl
  · rw [habs]; exact rightsSane_after hi.2.2 hi.2.1 hpl

theorem epSane_of_ep_none {b : Board} (h : b.ep = none) : b.abs.EpSane := by
  intro q hq
  have : b.ep = some q := hq
  rw [h] at this; cases this

/-- boards reached from an accepted builder state whose ep mark is consistent, by null moves and
pseudo-legal moves: no further side condition along the way -/
inductive Played (T : Tables) : Board → Prop
  | start (bd : Builder) (b : Board) : Board.tryFrom T bd = some b → b.abs.EpSane → Played T b
  | null (b b' : Board) : Played T b → b.nullMove T = some b' → Played T b'
  | move (b b' : Board) (m : Move) : Played T b → pseudoLegal b.abs m = true → b.makeMoveNew T m = some b' →
      Played T b'

theorem Played.inv {T : Tables} (hT : TablesOK T) {b : Board} (h : Played T b) : PlayInv T b := by
  induction h with
  | start bd b h hep => exact PlayInv.tryFrom hT h hep
  | null b b' _ h ih => exact ih.null h
  | move b b' m _ hpl h ih => exact (ih.move hT hpl h).1

/-- a builder state without ep square can always start -/
theorem Played.start_noep {T : Tables} {bd : Builder} {b : Board} (h : Board.tryFrom T bd = some b)
    (hn : bd.epFile = none) : Played T b := by
  refine Played.start bd b h (epSane_of_ep_none ?_)
  have := (tryFrom_spec T bd b h).2.2.2.2.2.1
  have hg : bd.getEnPassant = none := by unfold Builder.getEnPassant; rw [hn]; rfl
  rw [hg] at this
  exact this

end Chess
