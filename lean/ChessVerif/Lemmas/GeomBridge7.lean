import ChessVerif.Lemmas.GeomBridge6
/-
Bridge library, part 7: `between &&& occ`, symmetry of slider attacks, `Geom.step`, `Geom.pawnQuiets`.
-/
namespace Chess

/-! ### generic: a bitboard is zero iff no square is in it -/

theorem BB.eq_zero_iff (b : BB) : b = 0#64 ↔ ∀ z : Sq, b.getLsbD z.val = false := by
  constructor
  · intro h z; rw [h]; simp
  · intro h
    apply BitVec.eq_of_getLsbD_eq
    intro i hi
    rw [BitVec.getLsbD_zero]
    exact h ⟨i, hi⟩

theorem BB.ne_zero_iff (b : BB) : b ≠ 0#64 ↔ ∃ z : Sq, b.getLsbD z.val = true := by
  constructor
  · intro h
    obtain ⟨i, hi, hb⟩ := BB.exists_bit_of_ne_zero b h
    exact ⟨⟨i, hi⟩, hb⟩
  · rintro ⟨z, hz⟩
    exact BB.ne_zero_of_getLsbD b z.val hz

/-- the code's "nothing between" test -/
theorem between_and_eq_zero_iff (a b : Sq) (occ : BB) :
    Geom.between a b &&& occ = 0#64 ↔ ∀ z, strictlyBetween a z b = true → occ.has z = false := by
  rw [BB.eq_zero_iff]
  constructor
  · intro h z hz
    have := h z
    rw [BitVec.getLsbD_and, mem_between, hz, Bool.true_and] at this
    exact this
  · intro h z
    rw [BitVec.getLsbD_and, mem_between]
    cases hz : strictlyBetween a z b with
    | false => rfl
    | true => rw [Bool.true_and]; exact h z hz

/-- ray walking = aligned and the `between` mask misses the occupancy -/
theorem mem_sliderWalk_between (ds : List Dir) (s : Sq) (occ : BB) (x : Sq) :
    (Geom.sliderWalk ds s occ).getLsbD x.val = true ↔
      aligned ds s x = true ∧ Geom.between s x &&& occ = 0#64 := by
  rw [mem_sliderWalk_iff, between_and_eq_zero_iff]

/-- slider attacks are symmetric: `x` is reached from `s` iff `s` is reached from `x` -/
theorem mem_sliderWalk_symm (ds : List Dir) (hds : ds = rookDirs ∨ ds = bishopDirs ∨ ds = allDirs)
    (s : Sq) (occ : BB) (x : Sq) :
    (Geom.sliderWalk ds s occ).getLsbD x.val = (Geom.sliderWalk ds x occ).getLsbD s.val := by
  rw [Bool.eq_iff_iff, mem_sliderWalk_iff, mem_sliderWalk_iff, aligned_symm ds hds s x]
  constructor
  · rintro ⟨h1, h2⟩
    exact ⟨h1, fun z hz => h2 z (by rw [strictlyBetween_symm]; exact hz)⟩
  · rintro ⟨h1, h2⟩
    exact ⟨h1, fun z hz => h2 z (by rw [strictlyBetween_symm]; exact hz)⟩

theorem mem_rookWalk_symm (s : Sq) (occ : BB) (x : Sq) :
    (Geom.rookWalk s occ).getLsbD x.val = (Geom.rookWalk x occ).getLsbD s.val :=
  mem_sliderWalk_symm rookDirs (Or.inl rfl) s occ x

theorem mem_bishopWalk_symm (s : Sq) (occ : BB) (x : Sq) :
    (Geom.bishopWalk s occ).getLsbD x.val = (Geom.bishopWalk x occ).getLsbD s.val :=
  mem_sliderWalk_symm bishopDirs (Or.inr (Or.inl rfl)) s occ x

/-- the walk only looks at the occupancy strictly between: the walk is inside the empty-board rays -/
theorem sliderWalk_subset_rays {ds : List Dir} {s : Sq} {occ : BB} {x : Sq}
    (h : (Geom.sliderWalk ds s occ).getLsbD x.val = true) :
    (Geom.sliderWalk ds s 0#64).getLsbD x.val = true := by
  rw [mem_sliderRays]
  exact ((mem_sliderWalk_iff ds s occ x).mp h).1

/-! ### `Geom.step` and pawn pushes -/

theorem Geom.step_eq_some (s : Sq) (df dr : Int) (x : Sq) :
    Geom.step s df dr = some x ↔ x.file = s.file + df ∧ x.rank = s.rank + dr := by
  unfold Geom.step; exact sq?_eq_some_iff _ _ _

/-- pawn pushes with blockers: the square ahead if empty; from the start rank also the second square
if both are empty -/
theorem mem_pawnQuiets (c : Color) (s : Sq) (bl : BB) (x : Sq) :
    (Geom.pawnQuiets c s bl).getLsbD x.val = true ↔
      ∃ o, Geom.step s 0 c.fwd = some o ∧ bl.has o = false ∧
        (x = o ∨ (s.rank = c.pawnRank ∧ Geom.step s 0 (2 * c.fwd) = some x ∧ bl.has x = false)) := by
  unfold Geom.pawnQuiets
  cases ho : Geom.step s 0 c.fwd with
  | none => simp
  | some o =>
    simp only [Option.some.injEq, exists_eq_left']
    cases hbo : bl.has o with
    | true => simp
    | false =>
      simp only [Bool.false_eq_true, if_false, true_and, BitVec.getLsbD_or, BB.has_ofSq,
        Bool.or_eq_true, decide_eq_true_eq, beq_iff_eq]
      by_cases hr : s.rank = c.pawnRank
      · simp only [hr, if_true, true_and]
        cases ht : Geom.step s 0 (2 * c.fwd) with
        | none => simp
        | some t =>
          cases hbt : bl.has t with
          | true =>
            simp only [hbt, if_true, BitVec.getLsbD_zero, Bool.false_eq_true, or_false, Option.some.injEq]
            constructor
            · exact fun h => Or.inl h
            · rintro (h | ⟨h, hb⟩)
              · exact h
              · subst h; rw [hbt] at hb; cases hb
          | false =>
            simp only [hbt, Bool.false_eq_true, if_false, BB.has_ofSq, decide_eq_true_eq, Option.some.injEq]
            constructor
            · rintro (h | h)
              · exact Or.inl h
              · subst h; exact Or.inr ⟨rfl, hbt⟩
            · rintro (h | ⟨h, _⟩)
              · exact Or.inl h
              · exact Or.inr h.symm
      · simp [hr]

/-- coordinate form of `mem_pawnQuiets` -/
theorem mem_pawnQuiets_coord (c : Color) (s : Sq) (bl : BB) (x : Sq) :
    (Geom.pawnQuiets c s bl).getLsbD x.val = true ↔
      x.file = s.file ∧ bl.has x = false ∧
        (x.rank = s.rank + c.fwd ∨
          (x.rank = s.rank + 2 * c.fwd ∧ s.rank = c.pawnRank ∧
            ∃ o : Sq, o.file = s.file ∧ o.rank = s.rank + c.fwd ∧ bl.has o = false)) := by
  rw [mem_pawnQuiets]
  simp only [Geom.step_eq_some, Int.add_zero]
  constructor
  · rintro ⟨o, ⟨ho1, ho2⟩, hbo, rfl | ⟨hr, ⟨hx1, hx2⟩, hbx⟩⟩
    · exact ⟨ho1, hbo, Or.inl ho2⟩
    · exact ⟨hx1, hbx, Or.inr ⟨hx2, hr, o, ho1, ho2, hbo⟩⟩
  · rintro ⟨hf, hbx, hr | ⟨hr, hp, o, ho1, ho2, hbo⟩⟩
    · exact ⟨x, ⟨hf, hr⟩, hbx, Or.inl rfl⟩
    · exact ⟨o, ⟨ho1, ho2⟩, hbo, Or.inr ⟨hp, ⟨hf, hr⟩, hbx⟩⟩

end Chess
