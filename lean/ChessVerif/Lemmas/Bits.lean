import ChessVerif.Model.Board
import ChessVerif.Proofs.SliderLemmas
/-! Bit-level bridge lemmas: single-square bitboards, membership tests as the code writes them. -/
namespace Chess

theorem toSq_ofSq : ∀ s : Sq, (BB.ofSq s).toSq = s := by decide +kernel

theorem BB.getLsbD_ofSq_self (s : Sq) : (BB.ofSq s).getLsbD s.val = true := by
  rw [BB.getLsbD_ofSq]; exact decide_eq_true rfl

theorem BB.ofSq_ne_zero (s : Sq) : BB.ofSq s ≠ 0#64 := by
  intro h
  have h1 := BB.getLsbD_ofSq_self s
  rw [h] at h1
  rw [BitVec.getLsbD_zero] at h1
  cases h1

theorem and_ofSq_eq_zero_iff (x : BB) (s : Sq) : (x &&& BB.ofSq s = 0#64) ↔ x.getLsbD s.val = false := by
  constructor
  · intro h
    have h1 : (x &&& BB.ofSq s).getLsbD s.val = false := by rw [h]; exact BitVec.getLsbD_zero
    rw [BitVec.getLsbD_and, BB.getLsbD_ofSq_self, Bool.and_true] at h1
    exact h1
  · intro h
    apply BitVec.eq_of_getLsbD_eq
    intro i _
    rw [BitVec.getLsbD_and, BB.getLsbD_ofSq, BitVec.getLsbD_zero]
    by_cases hs : i = s.val
    · subst hs; rw [h]; rfl
    · rw [decide_eq_false hs, Bool.and_false]

theorem and_ofSq_ne_zero_iff (x : BB) (s : Sq) : (x &&& BB.ofSq s ≠ 0#64) ↔ x.getLsbD s.val = true := by
  rw [Ne, and_ofSq_eq_zero_iff]; cases x.getLsbD s.val <;> simp

theorem getLsbD_xor_ofSq (x : BB) (s : Sq) (i : Nat) :
    (x ^^^ BB.ofSq s).getLsbD i = (if i = s.val then !x.getLsbD i else x.getLsbD i) := by
  rw [BitVec.getLsbD_xor, BB.getLsbD_ofSq]
  by_cases h : i = s.val
  · rw [if_pos h, decide_eq_true h]; cases x.getLsbD i <;> rfl
  · rw [if_neg h, decide_eq_false h]; cases x.getLsbD i <;> rfl

theorem sq_ext {a b : Sq} (h : a.val = b.val) : a = b := Fin.ext h

end Chess
