import ChessVerif.Lemmas.GeomBridge4
/-
Bridge library, part 5: symmetry and basic facts of `strictlyBetween`, `aligned`, the leaper tables,
`between` and `line`.
-/
namespace Chess

set_option maxRecDepth 100000

/-! ### opposite directions -/

def Dir.opp : Dir → Dir
  | .n => .s | .ne => .sw | .e => .w | .se => .nw | .s => .n | .sw => .ne | .w => .e | .nw => .se

theorem Dir.opp_opp (u : Dir) : u.opp.opp = u := by cases u <;> rfl
theorem Dir.opp_df (u : Dir) : u.opp.df = -u.df := by cases u <;> rfl
theorem Dir.opp_dr (u : Dir) : u.opp.dr = -u.dr := by cases u <;> rfl
theorem Dir.opp_ne (u : Dir) : u.opp ≠ u := by cases u <;> decide
theorem Dir.opp_mem_rookDirs {u : Dir} (h : u ∈ rookDirs) : u.opp ∈ rookDirs := by
  cases u <;> simp [rookDirs, Dir.opp] at h ⊢
theorem Dir.opp_mem_bishopDirs {u : Dir} (h : u ∈ bishopDirs) : u.opp ∈ bishopDirs := by
  cases u <;> simp [bishopDirs, Dir.opp] at h ⊢
theorem Dir.mem_rook_or_bishop (u : Dir) : u ∈ rookDirs ∨ u ∈ bishopDirs := by
  cases u <;> simp [rookDirs, bishopDirs]

/-- walking back: `b` is `n` steps from `a` along `u` iff `a` is `n` steps from `b` along `u.opp` -/
theorem onRay_opp {a b : Sq} {u : Dir} {n : Nat} (h : onRay a u n b = true) :
    onRay b u.opp n a = true := by
  rw [onRay_iff] at h ⊢
  obtain ⟨h0, h1, h2⟩ := h
  rw [Dir.opp_df, Dir.opp_dr]
  refine ⟨h0, ?_, ?_⟩
  · rw [h1, Int.mul_neg]; omega
  · rw [h2, Int.mul_neg]; omega

theorem onRay_opp_iff (a b : Sq) (u : Dir) (n : Nat) :
    onRay b u.opp n a = onRay a u n b := by
  rw [Bool.eq_iff_iff]
  constructor
  · intro h; have := onRay_opp h; rwa [Dir.opp_opp] at this
  · exact onRay_opp

/-- steps along one ray add up -/
theorem onRay_add {a x b : Sq} {u : Dir} {t m : Nat} (h1 : onRay a u t x = true)
    (h2 : onRay x u m b = true) : onRay a u (t + m) b = true := by
  rw [onRay_iff] at h1 h2 ⊢
  obtain ⟨a0, a1, a2⟩ := h1
  obtain ⟨b0, b1, b2⟩ := h2
  refine ⟨by omega, ?_, ?_⟩
  · rw [b1, a1, Int.natCast_add, Int.add_mul]; omega
  · rw [b2, a2, Int.natCast_add, Int.add_mul]; omega

/-- two squares on one ray from `a`: the farther one is on the same ray from the nearer one -/
theorem onRay_sub {a x b : Sq} {u : Dir} {t n : Nat} (h1 : onRay a u t x = true)
    (h2 : onRay a u n b = true) (htn : t < n) : onRay x u (n - t) b = true := by
  rw [onRay_iff] at h1 h2 ⊢
  obtain ⟨a0, a1, a2⟩ := h1
  obtain ⟨b0, b1, b2⟩ := h2
  have e : ((n - t : Nat) : Int) = (n : Int) - (t : Int) := by omega
  refine ⟨by omega, ?_, ?_⟩
  · rw [b1, a1, e, Int.sub_mul]; omega
  · rw [b2, a2, e, Int.sub_mul]; omega

/-! ### `strictlyBetween` -/

/-- if `x` is strictly between `a` and `b` and `b` is `n` steps from `a` along `u`, then `x` is on the
same ray, nearer, and `b` is on the same ray from `x` -/
theorem strictlyBetween_onRay {a x b : Sq} {u : Dir} {n : Nat} (h : strictlyBetween a x b = true)
    (hb : onRay a u n b = true) :
    ∃ t, 0 < t ∧ t < n ∧ onRay a u t x = true ∧ onRay x u (n - t) b = true := by
  obtain ⟨u', n', t, h1, h2, h3⟩ := (strictlyBetween_iff a x b).mp h
  obtain ⟨hu, hn⟩ := ray_dir_unique hb h1
  subst hu hn
  have ht := ((onRay_iff a u t x).mp h2).1
  exact ⟨t, ht, h3, h2, onRay_sub h2 hb h3⟩

theorem strictlyBetween_symm' {a x b : Sq} (h : strictlyBetween a x b = true) :
    strictlyBetween b x a = true := by
  obtain ⟨u, n, t, h1, h2, h3⟩ := (strictlyBetween_iff a x b).mp h
  have ht := ((onRay_iff a u t x).mp h2).1
  have hxb := onRay_sub h2 h1 h3
  exact (strictlyBetween_iff b x a).mpr ⟨u.opp, n, n - t, onRay_opp h1, onRay_opp hxb, by omega⟩

theorem strictlyBetween_symm (a x b : Sq) : strictlyBetween a x b = strictlyBetween b x a := by
  rw [Bool.eq_iff_iff]
  exact ⟨strictlyBetween_symm', strictlyBetween_symm'⟩

theorem strictlyBetween_ne_left {a x b : Sq} (h : strictlyBetween a x b = true) : x ≠ a := by
  obtain ⟨u, n, t, _, h2, _⟩ := (strictlyBetween_iff a x b).mp h
  exact onRay_ne h2

theorem strictlyBetween_ne_right {a x b : Sq} (h : strictlyBetween a x b = true) : x ≠ b :=
  strictlyBetween_ne_left (strictlyBetween_symm' h)

theorem strictlyBetween_ends_ne {a x b : Sq} (h : strictlyBetween a x b = true) : a ≠ b := by
  obtain ⟨u, n, t, h1, _, _⟩ := (strictlyBetween_iff a x b).mp h
  exact (onRay_ne h1).symm

theorem strictlyBetween_aligned {a x b : Sq} (h : strictlyBetween a x b = true) :
    aligned allDirs a b = true := by
  obtain ⟨u, n, t, h1, _, _⟩ := (strictlyBetween_iff a x b).mp h
  exact (aligned_iff allDirs a b).mpr ⟨u, mem_allDirs u, n, h1⟩

/-- the requested summary: a square strictly between `a` and `b` differs from both, and `a`, `b` are
aligned -/
theorem strictlyBetween_basic {a x b : Sq} (h : strictlyBetween a x b = true) :
    x ≠ a ∧ x ≠ b ∧ aligned allDirs a b = true :=
  ⟨strictlyBetween_ne_left h, strictlyBetween_ne_right h, strictlyBetween_aligned h⟩

/-- a square strictly between two squares aligned along `ds` is aligned with both along `ds`
(same direction) -/
theorem strictlyBetween_aligned_ds {ds : List Dir} {a x b : Sq} (h : strictlyBetween a x b = true)
    (hab : aligned ds a b = true) : aligned ds a x = true ∧ aligned ds x b = true := by
  obtain ⟨u, hu, n, hn⟩ := (aligned_iff ds a b).mp hab
  obtain ⟨t, _, _, h1, h2⟩ := strictlyBetween_onRay h hn
  exact ⟨(aligned_iff ds a x).mpr ⟨u, hu, t, h1⟩, (aligned_iff ds x b).mpr ⟨u, hu, n - t, h2⟩⟩

theorem strictlyBetween_irrefl_left (a b : Sq) : strictlyBetween a a b = false := by
  cases h : strictlyBetween a a b with
  | false => rfl
  | true => exact absurd rfl (strictlyBetween_ne_left h)

theorem strictlyBetween_irrefl_right (a b : Sq) : strictlyBetween a b b = false := by
  cases h : strictlyBetween a b b with
  | false => rfl
  | true => exact absurd rfl (strictlyBetween_ne_right h)

/-- transitivity towards the near end -/
theorem strictlyBetween_trans {a x y b : Sq} (h1 : strictlyBetween a x b = true)
    (h2 : strictlyBetween a y x = true) : strictlyBetween a y b = true := by
  obtain ⟨u, n, t, hb, hx, htn⟩ := (strictlyBetween_iff a x b).mp h1
  obtain ⟨t', _, hlt, hy, _⟩ := strictlyBetween_onRay h2 hx
  exact (strictlyBetween_iff a y b).mpr ⟨u, n, t', hb, hy, by omega⟩

/-- two squares strictly between `a` and `b` are equal or one is between `a` and the other -/
theorem strictlyBetween_trichotomy {a x y b : Sq} (hx : strictlyBetween a x b = true)
    (hy : strictlyBetween a y b = true) :
    x = y ∨ strictlyBetween a x y = true ∨ strictlyBetween a y x = true := by
  obtain ⟨u, n, t, hb, hx', _⟩ := (strictlyBetween_iff a x b).mp hx
  obtain ⟨t', _, _, hy', _⟩ := strictlyBetween_onRay hy hb
  rcases Nat.lt_trichotomy t t' with h | h | h
  · exact Or.inr (Or.inl ((strictlyBetween_iff a x y).mpr ⟨u, t', t, hy', hx', h⟩))
  · subst h
    left
    have e1 := ((onRay_iff_step a u t x).mp hx').2
    have e2 := ((onRay_iff_step a u t y).mp hy').2
    rw [e1] at e2
    exact Option.some.inj e2
  · exact Or.inr (Or.inr ((strictlyBetween_iff a y x).mpr ⟨u, t, t', hx', hy', h⟩))

/-- `x` strictly between `a` and `b`: the squares between `a` and `b` are `x`, those between `a` and
`x`, and those between `x` and `b` -/
theorem strictlyBetween_split {a x b : Sq} (h : strictlyBetween a x b = true) (z : Sq) :
    strictlyBetween a z b = true ↔
      z = x ∨ strictlyBetween a z x = true ∨ strictlyBetween x z b = true := by
  obtain ⟨u, n, t, hb, hx, htn⟩ := (strictlyBetween_iff a x b).mp h
  have ht := ((onRay_iff a u t x).mp hx).1
  have hxb := onRay_sub hx hb htn
  constructor
  · intro hz
    obtain ⟨t', ht'0, ht'n, hz', _⟩ := strictlyBetween_onRay hz hb
    rcases Nat.lt_trichotomy t' t with h' | h' | h'
    · exact Or.inr (Or.inl ((strictlyBetween_iff a z x).mpr ⟨u, t, t', hx, hz', h'⟩))
    · subst h'
      left
      have e1 := ((onRay_iff_step a u t' x).mp hx).2
      have e2 := ((onRay_iff_step a u t' z).mp hz').2
      rw [e2] at e1
      exact Option.some.inj e1
    · right; right
      exact (strictlyBetween_iff x z b).mpr ⟨u, n - t, t' - t, hxb, onRay_sub hx hz' h', by omega⟩
  · rintro (rfl | hz | hz)
    · exact h
    · obtain ⟨t', _, hlt, hz', _⟩ := strictlyBetween_onRay hz hx
      exact (strictlyBetween_iff a z b).mpr ⟨u, n, t', hb, hz', by omega⟩
    · obtain ⟨t', ht'0, hlt, hz', _⟩ := strictlyBetween_onRay hz hxb
      have := onRay_add hx hz'
      exact (strictlyBetween_iff a z b).mpr ⟨u, n, t + t', hb, this, by omega⟩

/-! ### `aligned` -/

theorem aligned_symm_of_closed (ds : List Dir) (hds : ∀ u ∈ ds, u.opp ∈ ds) (a b : Sq) :
    aligned ds a b = aligned ds b a := by
  rw [Bool.eq_iff_iff, aligned_iff, aligned_iff]
  constructor
  · rintro ⟨u, hu, n, hn⟩; exact ⟨u.opp, hds u hu, n, onRay_opp hn⟩
  · rintro ⟨u, hu, n, hn⟩; exact ⟨u.opp, hds u hu, n, onRay_opp hn⟩

theorem aligned_rook_symm (a b : Sq) : aligned rookDirs a b = aligned rookDirs b a :=
  aligned_symm_of_closed rookDirs (fun _ h => Dir.opp_mem_rookDirs h) a b

theorem aligned_bishop_symm (a b : Sq) : aligned bishopDirs a b = aligned bishopDirs b a :=
  aligned_symm_of_closed bishopDirs (fun _ h => Dir.opp_mem_bishopDirs h) a b

theorem aligned_all_symm (a b : Sq) : aligned allDirs a b = aligned allDirs b a :=
  aligned_symm_of_closed allDirs (fun u _ => mem_allDirs u.opp) a b

theorem aligned_symm (ds : List Dir) (hds : ds = rookDirs ∨ ds = bishopDirs ∨ ds = allDirs)
    (a b : Sq) : aligned ds a b = aligned ds b a := by
  rcases hds with rfl | rfl | rfl
  · exact aligned_rook_symm a b
  · exact aligned_bishop_symm a b
  · exact aligned_all_symm a b

theorem aligned_ne {ds : List Dir} {a b : Sq} (h : aligned ds a b = true) : a ≠ b := by
  obtain ⟨u, _, n, hn⟩ := (aligned_iff ds a b).mp h
  exact (onRay_ne hn).symm

theorem aligned_irrefl (ds : List Dir) (a : Sq) : aligned ds a a = false := by
  cases h : aligned ds a a with
  | false => rfl
  | true => exact absurd rfl (aligned_ne h)

/-- coordinate form of rook alignment -/
theorem aligned_rook_iff (a b : Sq) : aligned rookDirs a b = true ↔
    a ≠ b ∧ (a.file = b.file ∨ a.rank = b.rank) := by
  have ha := Sq.coord_bounds a
  have hb := Sq.coord_bounds b
  rw [aligned_iff, ne_eq, Sq.eq_iff_coord a b]
  constructor
  · rintro ⟨u, hu, n, hn⟩
    rw [onRay_iff] at hn
    obtain ⟨h0, h1, h2⟩ := hn
    cases u <;> simp [rookDirs] at hu <;> simp only [Dir.df, Dir.dr] at h1 h2 <;> omega
  · rintro ⟨hne, h⟩
    rcases Int.lt_trichotomy a.file b.file with hf | hf | hf
    · exact ⟨.e, by simp [rookDirs], (b.file - a.file).toNat, by
        rw [onRay_iff]; simp only [Dir.df, Dir.dr]; omega⟩
    · rcases Int.lt_trichotomy a.rank b.rank with hr | hr | hr
      · exact ⟨.n, by simp [rookDirs], (b.rank - a.rank).toNat, by
          rw [onRay_iff]; simp only [Dir.df, Dir.dr]; omega⟩
      · exact absurd ⟨hf, hr⟩ hne
      · exact ⟨.s, by simp [rookDirs], (a.rank - b.rank).toNat, by
          rw [onRay_iff]; simp only [Dir.df, Dir.dr]; omega⟩
    · exact ⟨.w, by simp [rookDirs], (a.file - b.file).toNat, by
        rw [onRay_iff]; simp only [Dir.df, Dir.dr]; omega⟩

/-- coordinate form of bishop alignment -/
theorem aligned_bishop_iff (a b : Sq) : aligned bishopDirs a b = true ↔
    a ≠ b ∧ (b.file - a.file).natAbs = (b.rank - a.rank).natAbs := by
  have ha := Sq.coord_bounds a
  have hb := Sq.coord_bounds b
  rw [aligned_iff, ne_eq, Sq.eq_iff_coord a b]
  constructor
  · rintro ⟨u, hu, n, hn⟩
    rw [onRay_iff] at hn
    obtain ⟨h0, h1, h2⟩ := hn
    cases u <;> simp [bishopDirs] at hu <;> simp only [Dir.df, Dir.dr] at h1 h2 <;> omega
  · rintro ⟨hne, h⟩
    rcases Int.lt_trichotomy a.file b.file with hf | hf | hf
    · rcases Int.lt_trichotomy a.rank b.rank with hr | hr | hr
      · exact ⟨.ne, by simp [bishopDirs], (b.file - a.file).toNat, by
          rw [onRay_iff]; simp only [Dir.df, Dir.dr]; omega⟩
      · omega
      · exact ⟨.se, by simp [bishopDirs], (b.file - a.file).toNat, by
          rw [onRay_iff]; simp only [Dir.df, Dir.dr]; omega⟩
    · omega
    · rcases Int.lt_trichotomy a.rank b.rank with hr | hr | hr
      · exact ⟨.nw, by simp [bishopDirs], (a.file - b.file).toNat, by
          rw [onRay_iff]; simp only [Dir.df, Dir.dr]; omega⟩
      · omega
      · exact ⟨.sw, by simp [bishopDirs], (a.file - b.file).toNat, by
          rw [onRay_iff]; simp only [Dir.df, Dir.dr]; omega⟩

/-- coordinate form of queen alignment -/
theorem aligned_all_iff (a b : Sq) : aligned allDirs a b = true ↔
    a ≠ b ∧ (a.file = b.file ∨ a.rank = b.rank ∨
      (b.file - a.file).natAbs = (b.rank - a.rank).natAbs) := by
  rw [aligned_allDirs, Bool.or_eq_true, aligned_rook_iff, aligned_bishop_iff]
  constructor
  · rintro (⟨h, h1 | h1⟩ | ⟨h, h1⟩)
    · exact ⟨h, Or.inl h1⟩
    · exact ⟨h, Or.inr (Or.inl h1)⟩
    · exact ⟨h, Or.inr (Or.inr h1)⟩
  · rintro ⟨h, h1 | h1 | h1⟩
    · exact Or.inl ⟨h, Or.inl h1⟩
    · exact Or.inl ⟨h, Or.inr h1⟩
    · exact Or.inr ⟨h, h1⟩

/-! ### leapers -/

theorem mem_knight_symm (a b : Sq) :
    (Geom.knight a).getLsbD b.val = (Geom.knight b).getLsbD a.val := by
  rw [mem_knight, mem_knight]
  have h1 : (b.file - a.file).natAbs = (a.file - b.file).natAbs := by omega
  have h2 : (b.rank - a.rank).natAbs = (a.rank - b.rank).natAbs := by omega
  rw [h1, h2]

theorem mem_king_symm (a b : Sq) :
    (Geom.king a).getLsbD b.val = (Geom.king b).getLsbD a.val := by
  rw [mem_king, mem_king]
  have h1 : (b.file - a.file).natAbs = (a.file - b.file).natAbs := by omega
  have h2 : (b.rank - a.rank).natAbs = (a.rank - b.rank).natAbs := by omega
  rw [h1, h2, bne_comm]

/-- the king table is the specification's king attack (`attacks` for a king: one step in any direction) -/
theorem mem_king_spec (s x : Sq) :
    (Geom.king s).getLsbD x.val = allDirs.any fun u => onRay s u 1 x := by
  have hs := Sq.coord_bounds s
  have hx := Sq.coord_bounds x
  rw [mem_king, Bool.eq_iff_iff, List.any_eq_true]
  simp only [Bool.and_eq_true, bne_iff_ne, ne_eq, decide_eq_true_eq]
  rw [Sq.eq_iff_coord]
  constructor
  · rintro ⟨⟨hne, hf⟩, hr⟩
    have key : ∃ u : Dir, x.file = s.file + u.df ∧ x.rank = s.rank + u.dr := by
      rcases (by omega : x.file - s.file = -1 ∨ x.file - s.file = 0 ∨ x.file - s.file = 1) with
        h1 | h1 | h1 <;>
      rcases (by omega : x.rank - s.rank = -1 ∨ x.rank - s.rank = 0 ∨ x.rank - s.rank = 1) with
        h2 | h2 | h2
      · exact ⟨.sw, by simp only [Dir.df, Dir.dr]; omega⟩
      · exact ⟨.w, by simp only [Dir.df, Dir.dr]; omega⟩
      · exact ⟨.nw, by simp only [Dir.df, Dir.dr]; omega⟩
      · exact ⟨.s, by simp only [Dir.df, Dir.dr]; omega⟩
      · exact absurd ⟨by omega, by omega⟩ hne
      · exact ⟨.n, by simp only [Dir.df, Dir.dr]; omega⟩
      · exact ⟨.se, by simp only [Dir.df, Dir.dr]; omega⟩
      · exact ⟨.e, by simp only [Dir.df, Dir.dr]; omega⟩
      · exact ⟨.ne, by simp only [Dir.df, Dir.dr]; omega⟩
    obtain ⟨u, h1, h2⟩ := key
    refine ⟨u, mem_allDirs u, ?_⟩
    rw [onRay_iff]
    exact ⟨by omega, by omega, by omega⟩
  · rintro ⟨u, _, hu⟩
    rw [onRay_iff] at hu
    obtain ⟨_, h1, h2⟩ := hu
    cases u <;> simp only [Dir.df, Dir.dr] at h1 h2 <;> omega

/-- a knight's jump is never along a rank, file or diagonal -/
theorem knight_not_aligned {s d : Sq} (hk : (Geom.knight s).getLsbD d.val = true)
    (ha : aligned allDirs s d = true) : False := by
  rw [mem_knight] at hk
  rw [aligned_all_iff] at ha
  simp only [Bool.or_eq_true, Bool.and_eq_true, beq_iff_eq] at hk
  omega

theorem Color.other_fwd (c : Color) : c.other.fwd = -c.fwd := by cases c <;> rfl

/-- a pawn of colour `c.other` on `x` attacks `k` iff `x` is in the `c`-pawn attack set of `k` -/
theorem mem_pawnAttacks_symm (c : Color) (k x : Sq) :
    (Geom.pawnAttacks c k).getLsbD x.val = (Geom.pawnAttacks c.other x).getLsbD k.val := by
  rw [mem_pawnAttacks, mem_pawnAttacks, Color.other_fwd]
  have h1 : (x.file - k.file).natAbs = (k.file - x.file).natAbs := by omega
  rw [h1, Bool.eq_iff_iff]
  simp only [Bool.and_eq_true, beq_iff_eq]
  constructor <;> rintro ⟨h, h'⟩ <;> exact ⟨by omega, h'⟩

theorem mem_pawnAttacks_symm_iff (c : Color) (k x : Sq) :
    (Geom.pawnAttacks c k).getLsbD x.val = true ↔ (Geom.pawnAttacks c.other x).getLsbD k.val = true := by
  rw [mem_pawnAttacks_symm]

/-! ### `between` and `line` -/

theorem between_symm (a b : Sq) : Geom.between a b = Geom.between b a := by
  apply BitVec.eq_of_getLsbD_eq
  intro i hi
  have h1 := mem_between a b ⟨i, hi⟩
  have h2 := mem_between b a ⟨i, hi⟩
  simp only at h1 h2
  rw [h1, h2, strictlyBetween_symm]

theorem between_aligned {a b x : Sq} (h : (Geom.between a b).getLsbD x.val = true) :
    aligned allDirs a b = true := by
  rw [mem_between] at h
  exact strictlyBetween_aligned h

theorem between_self (a : Sq) : Geom.between a a = 0#64 := by
  apply BitVec.eq_of_getLsbD_eq
  intro i hi
  have h1 := mem_between a a ⟨i, hi⟩
  simp only at h1
  rw [h1, BitVec.getLsbD_zero]
  cases h : strictlyBetween a ⟨i, hi⟩ a with
  | false => rfl
  | true => exact absurd rfl (strictlyBetween_ends_ne h)

end Chess
