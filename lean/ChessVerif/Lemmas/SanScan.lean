import ChessVerif.Lemmas.TextTotal
import ChessVerif.Spec.San
/-!
The SAN scanner (`San.scan`, the part of `ChessMove::from_san` before the move loop) inverts the
documented SAN writer (`SanSpec.spell`): pure text lemmas, no chess.
-/
namespace Chess
namespace San

/-! ### one-byte characters: the byte cursor is the list index -/

theorem get1_nil (i : Nat) : get1 [] i = none := by
  unfold get1 Str.get
  simp only [Nat.le_add_right, if_true, Str.dropBytes_nil]
  cases i <;> simp [Str.takeBytes_nil]

theorem get1_cons_zero (c : Char) (r : List Char) (h : c.utf8Size = 1) : get1 (c :: r) 0 = some c := by
  unfold get1
  rw [Str.get_zero, Str.takeBytes_cons]
  simp [h, Str.takeBytes_zero]

theorem get_cons_succ (c : Char) (r : List Char) (h : c.utf8Size = 1) (i j : Nat) :
    Str.get (c :: r) (i + 1) (j + 1) = Str.get r i j := by
  have := Str.get_append [c] r i j
  simp only [Str.len_cons, Str.len_nil, h, List.singleton_append] at this
  rw [← this, Nat.add_comm 1 i, Nat.add_comm 1 j]

theorem get1_cons_succ (c : Char) (r : List Char) (h : c.utf8Size = 1) (i : Nat) :
    get1 (c :: r) (i + 1) = get1 r i := by
  unfold get1
  rw [get_cons_succ c r h]

theorem getFrom_zero (s : List Char) : Str.getFrom s 0 = some s := Str.dropBytes_zero s

theorem getFrom_cons_succ (c : Char) (r : List Char) (h : c.utf8Size = 1) (i : Nat) :
    Str.getFrom (c :: r) (i + 1) = Str.getFrom r i := by
  unfold Str.getFrom
  rw [Str.dropBytes_cons]
  simp [h]

theorem get_two (a b : Char) (r : List Char) (ha : a.utf8Size = 1) (hb : b.utf8Size = 1) :
    Str.get (a :: b :: r) 0 2 = some [a, b] := by
  have := Str.takeBytes_append [a, b] r
  simp only [Str.len_cons, Str.len_nil, ha, hb] at this
  rw [Str.get_zero]
  exact this

theorem get_two_nil : Str.get [] 0 2 = none := by
  rw [Str.get_zero, Str.takeBytes_nil]; simp
theorem get_two_single (a : Char) (ha : a.utf8Size = 1) : Str.get [a] 0 2 = none := by
  rw [Str.get_zero, Str.takeBytes_cons]
  simp [ha, Str.takeBytes_nil]

end San
end Chess
