import ChessVerif.Lemmas.TextTotal
import ChessVerif.Spec.San
import ChessVerif.Props.TextTotal
import ChessVerif.Refine.Abs
import ChessVerif.Lemmas.Core
/-!
The SAN scanner (`San.scan`, the part of `ChessMove::from_san` before the move loop) inverts the
documented SAN writer (`SanSpec.spell`): pure text lemmas, no chess.
-/
namespace Chess
namespace San
set_option linter.unusedSimpArgs false

/-! ### one-byte characters: the byte cursor is the list index -/

theorem get1_nil (i : Nat) : get1 [] i = none := by
  unfold get1 Str.get
  simp only [Nat.le_add_right, if_true, Str.dropBytes_nil]
  cases i <;> simp [Str.takeBytes_nil]

theorem get1_cons_zero (c : Char) (r : List Char) (h : c.utf8Size = 1) : get1 (c :: r) 0 = some c := by
  unfold get1
  rw [Str.get_zero, Str.takeBytes_cons]
  simp [h, Str.takeBytes_zero]

theorem get_cons_succ (c : Char) (r : List Char) (h : c.utf8Size = 1) (i j : Nat) :
    Str.get (c :: r) (i + 1) (j + 1) = Str.get r i j := by
  have := Str.get_append [c] r i j
  simp only [Str.len_cons, Str.len_nil, h, List.singleton_append] at this
  rw [← this, Nat.add_comm 1 i, Nat.add_comm 1 j]

theorem get1_cons_succ (c : Char) (r : List Char) (h : c.utf8Size = 1) (i : Nat) :
    get1 (c :: r) (i + 1) = get1 r i := by
  unfold get1
  rw [get_cons_succ c r h]

theorem getFrom_zero (s : List Char) : Str.getFrom s 0 = some s := Str.dropBytes_zero s

theorem getFrom_cons_succ (c : Char) (r : List Char) (h : c.utf8Size = 1) (i : Nat) :
    Str.getFrom (c :: r) (i + 1) = Str.getFrom r i := by
  unfold Str.getFrom
  rw [Str.dropBytes_cons]
  simp [h]

theorem get_two (a b : Char) (r : List Char) (ha : a.utf8Size = 1) (hb : b.utf8Size = 1) :
    Str.get (a :: b :: r) 0 2 = some [a, b] := by
  have := Str.takeBytes_append [a, b] r
  simp only [Str.len_cons, Str.len_nil, ha, hb] at this
  rw [Str.get_zero]
  exact this

theorem get_two_nil : Str.get [] 0 2 = none := by
  rw [Str.get_zero, Str.takeBytes_nil]; simp
theorem get_two_single (a : Char) (ha : a.utf8Size = 1) : Str.get [a] 0 2 = none := by
  rw [Str.get_zero, Str.takeBytes_cons]
  simp [ha, Str.takeBytes_nil]

/-! ### the scanner in phases -/

/-- the part of the scanner after the destination: promotion letter, `+`/`#`, ` e.p.` -/
def promoAt (s : List Char) (cur : Nat) : Option Piece × Nat :=
  match (get1 s cur).bind promoOfLetter? with
  | some p => (some p, cur + 1) | none => (none, cur)
def sfxAt (s : List Char) (cur : Nat) : Nat :=
  match get1 s cur with | some '+' => cur + 1 | some '#' => cur + 1 | _ => cur
def epAt (s : List Char) (cur : Nat) : Bool :=
  match Str.getFrom s cur with | some rest => rest == " e.p.".toList | none => false
def tailScan (s : List Char) (cur : Nat) : Option Piece × Bool :=
  ((promoAt s cur).1, epAt s (sfxAt s (promoAt s cur).2))

/-- the `x` test -/
def takesAt (s : List Char) (cur : Nat) : Bool × Nat :=
  match get1 s cur with | some 'x' => (true, cur + 1) | _ => (false, cur)

/-- the destination square, or the "source" turned back into the destination -/
def destAt (s : List Char) (srcFile srcRank : Option (Fin 8)) (cur : Nat) :
    Option (Sq × Option (Fin 8) × Option (Fin 8) × Nat) :=
  let fromSource : Option (Sq × Option (Fin 8) × Option (Fin 8) × Nat) :=
    match srcRank, srcFile with
    | some r, some f => some (mkSq r f, none, none, cur)
    | _, _ => none
  match Str.get s cur (cur + 2) with
  | some t =>
    match parseSquare t with
    | .ok q => some (q, srcFile, srcRank, cur + 2)
    | _ => fromSource
  | none => fromSource

def pieceAt (s : List Char) : Option (Piece × Nat) :=
  (get1 s 0).map fun c0 => match pieceOfLetter? c0 with | some p => (p, 1) | none => (Piece.pawn, 0)
def fileAt (s : List Char) (cur : Nat) : Option (Option (Fin 8) × Nat) :=
  (get1 s cur).map fun c1 => match charFile? c1 with | some f => (some f, cur + 1) | none => (none, cur)
def rankAt (s : List Char) (cur : Nat) : Option (Option (Fin 8) × Nat) :=
  (get1 s cur).map fun c1 => match charRank? c1 with | some f => (some f, cur + 1) | none => (none, cur)

theorem scan_eq (s : List Char) : scan s =
    (pieceAt s).bind fun (piece, cur) =>
    (fileAt s cur).bind fun (srcFile, cur) =>
    (rankAt s cur).bind fun (srcRank, cur) =>
    (destAt s srcFile srcRank (takesAt s cur).2).map fun (dest, srcFile, srcRank, cur') =>
      ⟨piece, srcFile, srcRank, (takesAt s cur).1, dest, (tailScan s cur').1, (tailScan s cur').2⟩ := by
  unfold scan pieceAt fileAt rankAt
  dsimp only
  cases h0 : get1 s 0 with
  | none => rfl
  | some c0 =>
    dsimp only [Option.map_some, Option.bind_some]
    cases hp : pieceOfLetter? c0 <;> dsimp only [Nat.zero_add] <;>
    (cases h1 : get1 s _ with
     | none => rfl
     | some c1 =>
      dsimp only [Option.map_some, Option.bind_some]
      cases hf : charFile? c1 <;> dsimp only [Nat.zero_add] <;>
      (cases h2 : get1 s _ with
       | none => rfl
       | some c2 =>
        dsimp only [Option.map_some, Option.bind_some]
        cases hr : charRank? c2 <;> dsimp only [Nat.zero_add] <;>
        (unfold destAt takesAt tailScan promoAt sfxAt epAt; dsimp only
         cases Str.get s _ _ with
         | none => rfl
         | some t => dsimp only; cases parseSquare t <;> rfl)))

/-! ### each phase on a text given as a list of one-byte characters -/

theorem pieceAt_cons (c : Char) (r : List Char) (h : c.utf8Size = 1) :
    pieceAt (c :: r) = some (match pieceOfLetter? c with | some p => (p, 1) | none => (Piece.pawn, 0)) := by
  simp only [pieceAt, get1_cons_zero c r h, Option.map_some]

theorem fileAt_cons_zero (c : Char) (r : List Char) (h : c.utf8Size = 1) :
    fileAt (c :: r) 0 = some (match charFile? c with | some f => (some f, 1) | none => (none, 0)) := by
  simp only [fileAt, get1_cons_zero c r h, Option.map_some]

theorem fileAt_cons_succ (c : Char) (r : List Char) (h : c.utf8Size = 1) (i : Nat) :
    fileAt (c :: r) (i + 1) = (fileAt r i).map fun x => (x.1, x.2 + 1) := by
  simp only [fileAt, get1_cons_succ c r h, Option.map_map]
  congr 1; funext c1; simp only [Function.comp]; split <;> rfl

theorem rankAt_cons_zero (c : Char) (r : List Char) (h : c.utf8Size = 1) :
    rankAt (c :: r) 0 = some (match charRank? c with | some f => (some f, 1) | none => (none, 0)) := by
  simp only [rankAt, get1_cons_zero c r h, Option.map_some]

theorem rankAt_cons_succ (c : Char) (r : List Char) (h : c.utf8Size = 1) (i : Nat) :
    rankAt (c :: r) (i + 1) = (rankAt r i).map fun x => (x.1, x.2 + 1) := by
  simp only [rankAt, get1_cons_succ c r h, Option.map_map]
  congr 1; funext c1; simp only [Function.comp]; split <;> rfl

theorem takesAt_of_ne (s : List Char) (i : Nat) (h : get1 s i ≠ some 'x') : takesAt s i = (false, i) := by
  unfold takesAt
  split
  · rename_i h'; exact absurd h' h
  · rfl

theorem takesAt_x (r : List Char) : takesAt ('x' :: r) 0 = (true, 1) := by
  unfold takesAt
  rw [get1_cons_zero _ _ (by decide)]
  rfl

theorem takesAt_cons_zero (c : Char) (r : List Char) (h : c.utf8Size = 1) (hx : c ≠ 'x') :
    takesAt (c :: r) 0 = (false, 0) := by
  apply takesAt_of_ne
  rw [get1_cons_zero c r h]
  simpa using hx

theorem takesAt_cons_succ (c : Char) (r : List Char) (h : c.utf8Size = 1) (i : Nat) :
    takesAt (c :: r) (i + 1) = ((takesAt r i).1, (takesAt r i).2 + 1) := by
  unfold takesAt
  rw [get1_cons_succ c r h]
  split <;> rfl

theorem promoAt_cons_succ (c : Char) (r : List Char) (h : c.utf8Size = 1) (i : Nat) :
    promoAt (c :: r) (i + 1) = ((promoAt r i).1, (promoAt r i).2 + 1) := by
  unfold promoAt
  rw [get1_cons_succ c r h]
  cases (get1 r i).bind promoOfLetter? <;> rfl

theorem sfxAt_cons_succ (c : Char) (r : List Char) (h : c.utf8Size = 1) (i : Nat) :
    sfxAt (c :: r) (i + 1) = sfxAt r i + 1 := by
  unfold sfxAt
  rw [get1_cons_succ c r h]
  split <;> rfl

theorem epAt_cons_succ (c : Char) (r : List Char) (h : c.utf8Size = 1) (i : Nat) :
    epAt (c :: r) (i + 1) = epAt r i := by
  unfold epAt
  rw [getFrom_cons_succ c r h]

theorem tailScan_cons_succ (c : Char) (r : List Char) (h : c.utf8Size = 1) (i : Nat) :
    tailScan (c :: r) (i + 1) = tailScan r i := by
  unfold tailScan
  rw [promoAt_cons_succ c r h, sfxAt_cons_succ c r h, epAt_cons_succ c r h]

theorem destAt_cons_succ (c : Char) (r : List Char) (h : c.utf8Size = 1) (sf sr : Option (Fin 8)) (i : Nat) :
    destAt (c :: r) sf sr (i + 1) = (destAt r sf sr i).map fun x => (x.1, x.2.1, x.2.2.1, x.2.2.2 + 1) := by
  unfold destAt
  have : i + 1 + 2 = (i + 2) + 1 := by omega
  simp only [this, get_cons_succ c r h]
  cases Str.get r i (i + 2) with
  | none => dsimp only; cases sr <;> cases sf <;> rfl
  | some t => dsimp only; cases parseSquare t <;> dsimp only <;> cases sr <;> cases sf <;> rfl

theorem destAt_square (q : Sq) (r : List Char) (sf sr : Option (Fin 8)) :
    destAt (showSquare q ++ r) sf sr 0 = some (q, sf, sr, 2) := by
  unfold destAt
  simp only [Nat.zero_add, get_src, parseSquare_showSquare]

/-- nothing that parses as a square follows: the "source" is the destination -/
theorem destAt_back (T : List Char) (f r : Fin 8)
    (h : ∀ t, Str.get T 0 2 = some t → ∀ q, parseSquare t ≠ .ok q) :
    destAt T (some f) (some r) 0 = some (mkSq r f, none, none, 0) := by
  unfold destAt
  simp only [Nat.zero_add]
  cases hg : Str.get T 0 2 with
  | none => rfl
  | some t =>
    dsimp only
    cases hp : parseSquare t with
    | ok q => exact absurd hp (h t hg q)
    | err => rfl
    | panic => rfl

open SanSpec

theorem charRank?_fileChar : ∀ f : Fin 8, charRank? (fileChar f) = none := by decide
theorem charFile?_rankChar : ∀ r : Fin 8, charFile? (rankChar r) = none := by decide
theorem pieceOfLetter?_fileChar : ∀ f : Fin 8, pieceOfLetter? (fileChar f) = none := by decide
theorem pieceOfLetter?_rankChar : ∀ r : Fin 8, pieceOfLetter? (rankChar r) = none := by decide
theorem fileChar_ne_x : ∀ f : Fin 8, fileChar f ≠ 'x' := by decide
theorem rankChar_ne_x : ∀ r : Fin 8, rankChar r ≠ 'x' := by decide

theorem fileCh_eq (s : Sq) : fileCh s = fileChar s.getFile := rfl
theorem rankCh_eq (s : Sq) : rankCh s = rankChar s.getRank := rfl
theorem sqName_eq (s : Sq) : Fen.sqName s = showSquare s := rfl

/-- the source parts spelled by a disambiguation -/
def disambFile (d : Disamb) (src : Sq) : Option (Fin 8) :=
  match d with | .file => some src.getFile | .both => some src.getFile | _ => none
def disambRank (d : Disamb) (src : Sq) : Option (Fin 8) :=
  match d with | .rank => some src.getRank | .both => some src.getRank | _ => none

/-- what may follow the destination: no `x`, and nothing that reads as a square -/
def TailOK (T : List Char) : Prop :=
  get1 T 0 ≠ some 'x' ∧ ∀ t, Str.get T 0 2 = some t → ∀ q, parseSquare t ≠ .ok q

theorem destAt_square' (q : Sq) (r : List Char) (sf sr : Option (Fin 8)) :
    destAt (fileChar q.getFile :: rankChar q.getRank :: r) sf sr 0 = some (q, sf, sr, 2) :=
  destAt_square q r sf sr

theorem scan_head_pawn (d : Disamb) (src : Sq) (cap : Bool) (dest : Sq) (T : List Char) (hT : TailOK T) :
    scan (disambText d src ++ (if cap then ['x'] else []) ++ Fen.sqName dest ++ T) =
      some ⟨.pawn, disambFile d src, disambRank d src, cap, dest, (tailScan T 0).1, (tailScan T 0).2⟩ := by
  have hx : 'x'.utf8Size = 1 := by decide
  have hx1 : pieceOfLetter? 'x' = none := by decide
  have hx2 : charFile? 'x' = none := by decide
  have hx3 : charRank? 'x' = none := by decide
  have hT1 := takesAt_of_ne T 0 hT.1
  have hT2 := fun f r => destAt_back T f r hT.2
  rw [scan_eq]
  cases d <;> cases cap <;>
    simp [disambText, disambFile, disambRank, sqName_eq, showSquare, fileCh_eq, rankCh_eq,
      pieceAt_cons, fileAt_cons_zero, fileAt_cons_succ, rankAt_cons_zero, rankAt_cons_succ,
      takesAt_x, takesAt_cons_zero, takesAt_cons_succ, destAt_cons_succ, destAt_square',
      tailScan_cons_succ, fileChar_size, rankChar_size, hx, hx1, hx2, hx3, hT1, hT2,
      charFile?_fileChar, charRank?_rankChar, charRank?_fileChar, charFile?_rankChar,
      pieceOfLetter?_fileChar, pieceOfLetter?_rankChar, fileChar_ne_x, rankChar_ne_x,
      mkSq_getRank_getFile]

theorem scan_head_piece (c : Char) (pc : Piece) (hc : c.utf8Size = 1) (hpc : pieceOfLetter? c = some pc)
    (d : Disamb) (src : Sq) (cap : Bool) (dest : Sq) (T : List Char) (hT : TailOK T) :
    scan ([c] ++ disambText d src ++ (if cap then ['x'] else []) ++ Fen.sqName dest ++ T) =
      some ⟨pc, disambFile d src, disambRank d src, cap, dest, (tailScan T 0).1, (tailScan T 0).2⟩ := by
  have hx : 'x'.utf8Size = 1 := by decide
  have hx2 : charFile? 'x' = none := by decide
  have hx3 : charRank? 'x' = none := by decide
  have hT1 := takesAt_of_ne T 0 hT.1
  have hT2 := fun f r => destAt_back T f r hT.2
  rw [scan_eq]
  cases d <;> cases cap <;>
    simp [disambText, disambFile, disambRank, sqName_eq, showSquare, fileCh_eq, rankCh_eq,
      pieceAt_cons, fileAt_cons_zero, fileAt_cons_succ, rankAt_cons_zero, rankAt_cons_succ,
      takesAt_x, takesAt_cons_zero, takesAt_cons_succ, destAt_cons_succ, destAt_square',
      tailScan_cons_succ, fileChar_size, rankChar_size, hx, hx2, hx3, hT1, hT2, hc, hpc,
      charFile?_fileChar, charRank?_rankChar, charRank?_fileChar, charFile?_rankChar,
      fileChar_ne_x, rankChar_ne_x, mkSq_getRank_getFile]

/-! ### the tail -/

def tailText (promo : Option Piece) (sfx : Suffix) (epMark : Bool) : List Char :=
  (match promo with | some q => [promoLetter q] | Option.none => []) ++ suffixText sfx ++
  (if epMark then " e.p.".toList else [])

set_option maxRecDepth 100000 in
theorem tailScan_tailText (promo : Option Piece) (sfx : Suffix) (epMark : Bool)
    (hp : promo ∈ [none, some .queen, some .rook, some .bishop, some .knight]) :
    tailScan (tailText promo sfx epMark) 0 = (promo, epMark) := by
  simp only [List.mem_cons, List.not_mem_nil, or_false] at hp
  rcases hp with h | h | h | h | h <;> subst h <;> cases sfx <;> cases epMark <;> decide +kernel

def tailOKb (T : List Char) : Bool :=
  (get1 T 0 != some 'x') &&
  (match Str.get T 0 2 with
   | none => true
   | some t => match parseSquare t with | .ok _ => false | _ => true)

theorem tailOK_of_b (T : List Char) (h : tailOKb T = true) : TailOK T := by
  unfold tailOKb at h
  simp only [Bool.and_eq_true, bne_iff_ne] at h
  refine ⟨h.1, ?_⟩
  intro t ht q hq
  rw [ht] at h
  simp only [hq] at h
  exact absurd h.2 (by decide)

set_option maxRecDepth 100000 in
theorem tailOK_tailText (promo : Option Piece) (sfx : Suffix) (epMark : Bool)
    (hp : promo ∈ [none, some .queen, some .rook, some .bishop, some .knight]) :
    TailOK (tailText promo sfx epMark) := by
  apply tailOK_of_b
  simp only [List.mem_cons, List.not_mem_nil, or_false] at hp
  rcases hp with h | h | h | h | h <;> subst h <;> cases sfx <;> cases epMark <;> decide +kernel

/-! ### the scanner inverts the writer -/

/-- the text `SanSpec.spell` assembles, over explicit components -/
def spellText (pc : Piece) (d : Disamb) (src : Sq) (cap : Bool) (dest : Sq) (promo : Option Piece)
    (sfx : Suffix) (epMark : Bool) : List Char :=
  (match pieceLetter? pc with | some c => [c] | Option.none => []) ++
  disambText d src ++
  (if cap then ['x'] else []) ++
  Fen.sqName dest ++
  (match promo with | some q => [promoLetter q] | Option.none => []) ++
  suffixText sfx ++
  (if epMark then " e.p.".toList else [])

theorem spellText_eq (pc : Piece) (d : Disamb) (src : Sq) (cap : Bool) (dest : Sq) (promo : Option Piece)
    (sfx : Suffix) (epMark : Bool) :
    spellText pc d src cap dest promo sfx epMark =
      (match pieceLetter? pc with | some c => [c] | Option.none => []) ++ disambText d src ++
        (if cap then ['x'] else []) ++ Fen.sqName dest ++ tailText promo sfx epMark := by
  simp only [spellText, tailText, List.append_assoc]

theorem scan_spell_fields (pc : Piece) (d : Disamb) (src : Sq) (cap : Bool) (dest : Sq)
    (promo : Option Piece) (sfx : Suffix) (epMark : Bool)
    (hp : promo ∈ [none, some .queen, some .rook, some .bishop, some .knight]) :
    scan (spellText pc d src cap dest promo sfx epMark) =
      some ⟨pc, disambFile d src, disambRank d src, cap, dest, promo, epMark⟩ := by
  have hT := tailOK_tailText promo sfx epMark hp
  have hS := tailScan_tailText promo sfx epMark hp
  rw [spellText_eq]
  cases pc
  · have := scan_head_pawn d src cap dest _ hT
    rw [hS] at this
    simpa [pieceLetter?] using this
  · have := scan_head_piece 'N' _ (by decide) rfl d src cap dest _ hT
    rw [hS] at this
    exact this
  · have := scan_head_piece 'B' _ (by decide) rfl d src cap dest _ hT
    rw [hS] at this
    exact this
  · have := scan_head_piece 'R' _ (by decide) rfl d src cap dest _ hT
    rw [hS] at this
    exact this
  · have := scan_head_piece 'Q' _ (by decide) rfl d src cap dest _ hT
    rw [hS] at this
    exact this
  · have := scan_head_piece 'K' _ (by decide) rfl d src cap dest _ hT
    rw [hS] at this
    exact this

theorem spell_eq_spellText (p : Pos) (m : Move) (d : Disamb) (sfx : Suffix) (epMark : Bool)
    (pc : Piece) (col : Color) (hb : p.board m.src = some (pc, col)) :
    spell p m d sfx epMark = spellText pc d m.src (isCapture p m) m.dst m.promo sfx epMark := by
  unfold spell spellText
  rw [hb]
  rfl

theorem scan_spell (p : Pos) (m : Move) (d : Disamb) (sfx : Suffix) (epMark : Bool)
    (pc : Piece) (col : Color) (hb : p.board m.src = some (pc, col))
    (hp : m.promo ∈ [none, some .queen, some .rook, some .bishop, some .knight]) :
    scan (spell p m d sfx epMark) =
      some ⟨pc, disambFile d m.src, disambRank d m.src, isCapture p m, m.dst, m.promo, epMark⟩ := by
  rw [spell_eq_spellText p m d sfx epMark pc col hb]
  exact scan_spell_fields pc d m.src (isCapture p m) m.dst m.promo sfx epMark hp

/-! ### castling text -/

theorem castleText_short (sfx : Suffix) : castleText ("O-O".toList ++ suffixText sfx) = "O-O".toList := by
  cases sfx <;> decide
theorem castleText_long (sfx : Suffix) : castleText ("O-O-O".toList ++ suffixText sfx) = "O-O-O".toList := by
  cases sfx <;> decide

theorem castleText_head (a b : Char) (r : List Char) : ∃ r', castleText (a :: b :: r) = a :: r' := by
  unfold castleText
  split
  · exact ⟨(b :: r).dropLast, by simp⟩
  · exact ⟨(b :: r).dropLast, by simp⟩
  · exact ⟨_, rfl⟩

theorem fileChar_ne_O : ∀ f : Fin 8, fileChar f ≠ 'O' := by decide
theorem rankChar_ne_O : ∀ r : Fin 8, rankChar r ≠ 'O' := by decide

/-- a non-castling spelling starts with a piece letter, a file letter, a rank digit or `x`, and has
at least two characters -/
theorem spellText_head (pc : Piece) (d : Disamb) (src : Sq) (cap : Bool) (dest : Sq) (promo : Option Piece)
    (sfx : Suffix) (epMark : Bool) :
    ∃ a b r, spellText pc d src cap dest promo sfx epMark = a :: b :: r ∧ a ≠ 'O' := by
  have h1 := fileChar_ne_O
  have h2 := rankChar_ne_O
  cases pc <;> cases d <;> cases cap <;>
    simp [spellText, pieceLetter?, disambText, sqName_eq, showSquare, fileCh_eq, rankCh_eq, h1, h2]

theorem castleText_spellText (pc : Piece) (d : Disamb) (src : Sq) (cap : Bool) (dest : Sq)
    (promo : Option Piece) (sfx : Suffix) (epMark : Bool) :
    ¬ (castleText (spellText pc d src cap dest promo sfx epMark) = "O-O".toList ∨
       castleText (spellText pc d src cap dest promo sfx epMark) = "O-O-O".toList) := by
  obtain ⟨a, b, r, h, ha⟩ := spellText_head pc d src cap dest promo sfx epMark
  obtain ⟨r', hr⟩ := castleText_head a b r
  rw [h, hr]
  intro hh
  rcases hh with hh | hh <;>
  · have := (List.cons.inj hh).1
    exact ha this

theorem castleText_spell (p : Pos) (m : Move) (d : Disamb) (sfx : Suffix) (epMark : Bool)
    (pc : Piece) (col : Color) (hb : p.board m.src = some (pc, col)) :
    ¬ (castleText (spell p m d sfx epMark) = "O-O".toList ∨
       castleText (spell p m d sfx epMark) = "O-O-O".toList) := by
  rw [spell_eq_spellText p m d sfx epMark pc col hb]
  exact castleText_spellText _ _ _ _ _ _ _ _

/-! ### completeness relative to the generated move list -/

theorem getFile_eq_iff (s t : Sq) : s.getFile = t.getFile ↔ s.file = t.file := by
  unfold Sq.getFile Sq.file
  constructor
  · intro h; have := congrArg Fin.val h; simp only at this; rw [this]
  · intro h; apply Fin.ext; simp only; omega
theorem getRank_eq_iff (s t : Sq) : s.getRank = t.getRank ↔ s.rank = t.rank := by
  unfold Sq.getRank Sq.rank
  constructor
  · intro h; have := congrArg Fin.val h; simp only at this; rw [this]
  · intro h; apply Fin.ext; simp only; omega
theorem sq_ext_fr {s t : Sq} (hf : s.getFile = t.getFile) (hr : s.getRank = t.getRank) : s = t := by
  rw [← mkSq_getRank_getFile s, ← mkSq_getRank_getFile t, hf, hr]

/-- the fields the scanner extracts from a spelling of `m` -/
def fieldsOf (p : Pos) (pc : Piece) (m : Move) (d : Disamb) (epMark : Bool) : Fields :=
  ⟨pc, disambFile d m.src, disambRank d m.src, isCapture p m, m.dst, m.promo, epMark⟩

/-- the per-square queries of the board agree with its abstraction (holds under `Struct b`) -/
def Agree (b : Board) : Prop := ∀ s, b.pieceOn s = (b.abs.board s).map (·.1)

theorem baseMatch_fieldsOf (b : Board) (ha : Agree b) (pc : Piece) (col : Color) (m : Move) (d : Disamb)
    (epMark : Bool) (hb : b.abs.board m.src = some (pc, col)) :
    baseMatch b (fieldsOf b.abs pc m d epMark) m = true := by
  unfold baseMatch fieldsOf
  simp only [ha m.src, hb, Option.map_some, beq_self_eq_true, Bool.and_true, Bool.true_and, Bool.and_eq_true]
  cases d <;> simp [disambFile, disambRank]

theorem takesSkip_fieldsOf (b : Board) (ha : Agree b) (pc : Piece) (col : Color) (m : Move) (d : Disamb)
    (epMark : Bool) (hb : b.abs.board m.src = some (pc, col)) :
    takesSkip b (fieldsOf b.abs pc m d epMark) m = false := by
  unfold takesSkip fieldsOf isCapture isEnPassant Pos.empty
  simp only [ha m.dst, hb]
  cases hd : b.abs.board m.dst with
  | some x => simp
  | none =>
    cases pc <;> simp
    intro _ h1 h2
    exact h1 ((getFile_eq_iff _ _).1 h2)

theorem agrees_of_baseMatch (b : Board) (ha : Agree b) (pc : Piece) (col : Color) (m x : Move) (d : Disamb)
    (epMark : Bool) (hb : b.abs.board m.src = some (pc, col))
    (hx : baseMatch b (fieldsOf b.abs pc m d epMark) x = true) : agrees b.abs d m x = true := by
  unfold baseMatch fieldsOf at hx
  simp only [Bool.and_eq_true, beq_iff_eq] at hx
  obtain ⟨⟨⟨⟨h1, h2⟩, h3⟩, h4⟩, h5⟩ := hx
  rw [ha x.src] at h1
  unfold agrees
  simp only [h1, hb, Option.map_some, beq_self_eq_true, h4, h5, Bool.true_and]
  cases d
  · rfl
  · simp only [disambFile, beq_iff_eq] at h3
    simpa using (getFile_eq_iff _ _).1 h3
  · simp only [disambRank, beq_iff_eq] at h2
    simpa using (getRank_eq_iff _ _).1 h2
  · simp only [disambFile, disambRank, beq_iff_eq] at h2 h3
    simpa using sq_ext_fr h3 h2

theorem fromSan_spell (T : Tables) (b : Board) (m : Move) (d : Disamb) (sfx : Suffix) (epMark : Bool)
    (pc : Piece) (col : Color)
    (hnd : (b.legalMoves T).Nodup) (hm : m ∈ b.legalMoves T) (ha : Agree b)
    (hb : b.abs.board m.src = some (pc, col))
    (hp : m.promo ∈ [none, some .queen, some .rook, some .bishop, some .knight])
    (hu : ∀ m' ∈ b.legalMoves T, agrees b.abs d m m' = true → m' = m) :
    fromSan T b (spell b.abs m d sfx epMark) = .ok m := by
  rw [Props.fromSan_ok_iff T b _ m (castleText_spell b.abs m d sfx epMark pc col hb)]
  refine ⟨fieldsOf b.abs pc m d epMark, scan_spell b.abs m d sfx epMark pc col hb hp, ?_⟩
  exact Props.san_loop_complete b _ _ m hnd hm (baseMatch_fieldsOf b ha pc col m d epMark hb)
    (takesSkip_fieldsOf b ha pc col m d epMark hb)
    (fun x hx hbx => hu x hx (agrees_of_baseMatch b ha pc col m x d epMark hb hbx))

theorem fromSan_castle_short (T : Tables) (b : Board) (sfx : Suffix)
    (hk : b.pieceOn (mkSq b.stm.backrank 4) = some .king)
    (hm : (⟨mkSq b.stm.backrank 4, mkSq b.stm.backrank 6, none⟩ : Move) ∈ b.legalMoves T) :
    fromSan T b ("O-O".toList ++ suffixText sfx) = .ok ⟨mkSq b.stm.backrank 4, mkSq b.stm.backrank 6, none⟩ := by
  unfold fromSan
  simp only [castleText_short, true_or, if_true, List.contains_iff_mem.2 hm, hk, beq_self_eq_true,
    Bool.and_self]

theorem fromSan_castle_long (T : Tables) (b : Board) (sfx : Suffix)
    (hk : b.pieceOn (mkSq b.stm.backrank 4) = some .king)
    (hm : (⟨mkSq b.stm.backrank 4, mkSq b.stm.backrank 2, none⟩ : Move) ∈ b.legalMoves T) :
    fromSan T b ("O-O-O".toList ++ suffixText sfx) = .ok ⟨mkSq b.stm.backrank 4, mkSq b.stm.backrank 2, none⟩ := by
  unfold fromSan
  have h : ¬ ("O-O-O".toList = "O-O".toList) := by decide
  simp only [castleText_long, or_true, if_true, if_neg h, List.contains_iff_mem.2 hm, hk,
    beq_self_eq_true, Bool.and_self]

/-- what the castling branch of `from_san` accepts: exactly the generated move from the e-file home square
two files to the right / left, and only when the man on that square is the king -/
theorem fromSan_castle_ok_iff (T : Tables) (b : Board) (s : List Char) (m : Move)
    (hc : castleText s = "O-O".toList ∨ castleText s = "O-O-O".toList) :
    fromSan T b s = .ok m ↔
      (b.pieceOn m.src = some .king ∧ m ∈ b.legalMoves T ∧
        m = ⟨mkSq b.stm.backrank 4,
             mkSq b.stm.backrank (if castleText s = "O-O".toList then 6 else 2), none⟩) := by
  have aux : ∀ (c : Bool) (x : Move),
      ((if c = true then Res.ok x else Res.err) = Res.ok m) ↔ (c = true ∧ m = x) := by
    intro c x
    cases c
    · simp
    · simp only [if_true, true_and, Res.ok.injEq]
      exact eq_comm
  unfold fromSan
  simp only [if_pos hc]
  rw [aux, Bool.and_eq_true, beq_iff_eq, List.contains_iff_mem]
  constructor
  · rintro ⟨⟨hk, hm⟩, he⟩
    subst he
    exact ⟨hk, hm, rfl⟩
  · rintro ⟨hk, hm, he⟩
    subst he
    exact ⟨⟨hk, hm⟩, rfl⟩

theorem agree_of_struct {b : Board} (h : Struct b) : Agree b := by
  intro s
  rw [abs_board]
  cases hc : b.content s with
  | none =>
    rw [(pieceOn_none_iff b s).2 ((h.content_none_iff s).1 hc)]; rfl
  | some x =>
    unfold Board.content at hc
    cases hp : b.pieceOn s with
    | none => rw [hp] at hc; cases hc
    | some p =>
      rw [hp] at hc
      cases hcol : b.colorOn s with
      | none => rw [hcol] at hc; cases hc
      | some c => rw [hcol] at hc; injection hc with hc; subst hc; rfl

/-! ### rejection -/

/-- the moves the loop can return: base matches that pass the capture filter -/
def hit (b : Board) (f : Fields) (m : Move) : Bool := baseMatch b f m && !takesSkip b f m

theorem filter_hit (b : Board) (f : Fields) (l : List Move) :
    l.filter (hit b f) = (l.filter (baseMatch b f)).filter (fun m => !takesSkip b f m) := by
  rw [List.filter_filter]
  congr 1
  funext m
  simp only [hit, Bool.and_comm]

/-- accepted ⇒ exactly one entry of the list is a base match that passes the capture filter -/
theorem loop_ok_count (b : Board) (f : Fields) (l : List Move) (m : Move)
    (h : loop b f l none = some (some m)) : l.countP (hit b f) = 1 := by
  obtain ⟨pre, h1, h2, h3⟩ := (loop_ok_iff b f l m).1 h
  rw [List.countP_eq_length_filter, filter_hit, h1, List.filter_append]
  have : pre.filter (fun m => !takesSkip b f m) = [] := by
    rw [List.filter_eq_nil_iff]
    intro x hx
    simp [h2 x hx]
  rw [this]
  simp [h3]

theorem fromSan_err_of_not_ok (T : Tables) (b : Board) (s : List Char)
    (h : ∀ m, fromSan T b s ≠ .ok m) : fromSan T b s = .err := by
  cases hr : fromSan T b s with
  | ok m => exact absurd hr (h m)
  | err => rfl
  | panic => exact absurd hr (fromSan_ne_panic T b s)

/-- well-formed non-castling text whose fields are not matched by exactly one generated move -/
theorem fromSan_rejects_count (T : Tables) (b : Board) (s : List Char) (f : Fields)
    (hc : ¬ (castleText s = "O-O".toList ∨ castleText s = "O-O-O".toList))
    (hs : scan s = some f) (hn : (b.legalMoves T).countP (hit b f) ≠ 1) :
    fromSan T b s = .err := by
  apply fromSan_err_of_not_ok
  intro m hm
  obtain ⟨f', hf', hl⟩ := (Props.fromSan_ok_iff T b s m hc).1 hm
  rw [hs] at hf'
  injection hf' with hf'
  subst hf'
  exact hn (loop_ok_count b f _ m hl)

theorem fromSan_rejects_malformed (T : Tables) (b : Board) (s : List Char)
    (hc : ¬ (castleText s = "O-O".toList ∨ castleText s = "O-O-O".toList))
    (hs : scan s = none) : fromSan T b s = .err := by
  apply fromSan_err_of_not_ok
  intro m hm
  obtain ⟨f', hf', _⟩ := (Props.fromSan_ok_iff T b s m hc).1 hm
  rw [hs] at hf'
  cases hf'

/-- no generated move is a base match that passes the capture filter -/
theorem fromSan_rejects_none (T : Tables) (b : Board) (s : List Char) (f : Fields)
    (hc : ¬ (castleText s = "O-O".toList ∨ castleText s = "O-O-O".toList))
    (hs : scan s = some f)
    (hn : ∀ m ∈ b.legalMoves T, baseMatch b f m = true → takesSkip b f m = true) :
    fromSan T b s = .err := by
  apply fromSan_err_of_not_ok
  intro m hm
  obtain ⟨f', hf', hl⟩ := (Props.fromSan_ok_iff T b s m hc).1 hm
  rw [hs] at hf'
  injection hf' with hf'
  subst hf'
  have := (loop_notfound_iff b f _).2 hn
  rw [this] at hl
  cases hl

/-- two different generated moves fit the text (capture filter uniform on the base matches) -/
theorem fromSan_rejects_ambiguous (T : Tables) (b : Board) (s : List Char) (f : Fields)
    (hc : ¬ (castleText s = "O-O".toList ∨ castleText s = "O-O-O".toList))
    (hs : scan s = some f)
    (hu : f.piece ≠ .pawn ∨ f.takes = false ∨ f.ep = true ∨ (b.pieceOn f.dest).isSome = true)
    (m₁ m₂ : Move) (h1 : m₁ ∈ b.legalMoves T) (h2 : m₂ ∈ b.legalMoves T) (hne : m₁ ≠ m₂)
    (hb1 : baseMatch b f m₁ = true) (hb2 : baseMatch b f m₂ = true) :
    fromSan T b s = .err := by
  apply fromSan_err_of_not_ok
  intro m hm
  obtain ⟨f', hf', hl⟩ := (Props.fromSan_ok_iff T b s m hc).1 hm
  rw [hs] at hf'
  injection hf' with hf'
  subst hf'
  rcases loop_ambiguous_uniform b f _ m₁ m₂ h1 h2 hne hb1 hb2
    (fun x _ y _ hx hy => takesSkip_uniform b f hu hx hy) with h | h <;>
  · rw [h] at hl; cases hl

/-- castling text when the castling move is not among the generated moves, or the e-file home square does
not hold the king -/
theorem fromSan_rejects_castle (T : Tables) (b : Board) (s : List Char)
    (hc : castleText s = "O-O".toList ∨ castleText s = "O-O-O".toList)
    (hn : (⟨mkSq b.stm.backrank 4, mkSq b.stm.backrank (if castleText s = "O-O".toList then 6 else 2), none⟩ : Move)
        ∉ b.legalMoves T ∨
      b.pieceOn (mkSq b.stm.backrank 4) ≠ some .king) :
    fromSan T b s = .err := by
  unfold fromSan
  simp only [if_pos hc]
  rw [if_neg]
  intro h
  rw [Bool.and_eq_true, beq_iff_eq] at h
  rcases hn with hn | hn
  · exact hn (List.contains_iff_mem.1 h.2)
  · exact hn h.1

/-! ### against FIDE legality (needs C01 for the board at hand) -/

theorem pseudoLegal_src {p : Pos} {m : Move} (h : pseudoLegal p m = true) :
    ∃ pc, p.board m.src = some (pc, p.stm) := by
  unfold pseudoLegal at h
  cases hb : p.board m.src with
  | none => rw [hb] at h; cases h
  | some x =>
    obtain ⟨pc, c'⟩ := x
    rw [hb] at h
    simp only [Bool.and_eq_true, beq_iff_eq] at h
    exact ⟨pc, by rw [h.1.1]⟩

theorem pseudoLegal_promo {p : Pos} {m : Move} (h : pseudoLegal p m = true) :
    m.promo ∈ [none, some .queen, some .rook, some .bishop, some .knight] := by
  unfold pseudoLegal at h
  cases hb : p.board m.src with
  | none => rw [hb] at h; cases h
  | some x =>
    obtain ⟨pc, c'⟩ := x
    rw [hb] at h
    simp only [Bool.and_eq_true] at h
    obtain ⟨_, h⟩ := h
    have hn : m.promo.isNone = true → m.promo ∈ [none, some Piece.queen, some .rook, some .bishop, some .knight] := by
      intro h; cases hm : m.promo <;> simp [hm] at h ⊢
    cases pc
    · simp only [Bool.and_eq_true] at h
      have h := h.1
      split at h
      · cases hm : m.promo with
        | none => simp
        | some q => rw [hm] at h; cases q <;> simp [promoPieces] at h ⊢
      · exact hn h
    all_goals (simp only [Bool.and_eq_true] at h; exact hn h.1)

theorem legal_mem_candidates {p : Pos} {m : Move} (h : legal p m = true) : m ∈ candidates p := by
  unfold legal at h
  simp only [Bool.and_eq_true] at h
  obtain ⟨pc, hs⟩ := pseudoLegal_src h.1
  have hp := pseudoLegal_promo h.1
  unfold candidates
  simp only [List.mem_flatMap, List.mem_filter, List.mem_map]
  refine ⟨m.src, ⟨by simp [allSq, List.mem_finRange], by simp [Pos.colorAt, hs]⟩, m.dst,
    by simp [allSq, List.mem_finRange], m.promo, ?_, rfl⟩
  simpa [promoPieces] using hp

theorem sq?_some {f r : Int} {x : Sq} (h : sq? f r = some x) : x.file = f ∧ x.rank = r := by
  unfold sq? at h
  split at h
  · injection h with h
    subst h
    unfold Sq.file Sq.rank
    simp only
    omega
  · cases h

theorem king_step_file {a b : Sq} (h : (allDirs.any fun u => onRay a u 1 b) = true) :
    (b.file - a.file).natAbs ≠ 2 := by
  simp only [List.any_eq_true] at h
  obtain ⟨u, _, hu⟩ := h
  unfold onRay step? at hu
  simp only [Bool.and_eq_true, beq_iff_eq] at hu
  have := (sq?_some hu.2).1
  cases u <;> simp only [Dir.df] at this <;> omega

theorem castle_shape {p : Pos} {m : Move} (hl : pseudoLegal p m = true) (hc : isCastle p m = true) :
    m = ⟨mkSq p.stm.backrank 4, mkSq p.stm.backrank (if m.dst.file > m.src.file then 6 else 2), none⟩ := by
  unfold isCastle at hc
  unfold pseudoLegal at hl
  cases hb : p.board m.src with
  | none => rw [hb] at hl; cases hl
  | some x =>
    obtain ⟨pc, c'⟩ := x
    rw [hb] at hl hc
    cases pc <;> simp only [Bool.false_and, Bool.true_and, Bool.false_eq_true] at hc
    simp only [Bool.and_eq_true, Bool.or_eq_true, beq_iff_eq] at hl hc
    obtain ⟨_, hpr, hmv⟩ := hl
    rcases hmv with hmv | hmv
    · unfold attacks at hmv
      rw [hb] at hmv
      exact absurd hc (king_step_file hmv)
    · obtain ⟨⟨⟨⟨h1, h2⟩, h3⟩, h4⟩, _⟩ := hmv
      obtain ⟨src, dst, promo⟩ := m
      simp only at h1 h2 h3 h4 hpr ⊢
      have hp : promo = none := by cases promo <;> simp at hpr ⊢
      subst hp
      have hs : src = mkSq p.stm.backrank 4 := by
        apply Fin.ext
        unfold Sq.file at h2
        unfold Sq.rank at h1
        revert h1
        cases p.stm <;> intro h1 <;> simp only [Color.homeRank, Color.backrank, mkSq] at h1 ⊢ <;> omega
      have hd : dst = mkSq p.stm.backrank (if dst.file > src.file then 6 else 2) := by
        apply Fin.ext
        unfold Sq.file at h2 h4 ⊢
        unfold Sq.rank at h1 h3
        revert h1
        split <;> rename_i hgt <;>
        cases p.stm <;> intro h1 <;> simp only [Color.homeRank, Color.backrank, mkSq] at h1 ⊢ <;> omega
      rw [← hd, ← hs]

/-- a castling move of the specification starts on a square where the board reports a king -/
theorem pieceOn_king_of_isCastle {b : Board} (ha : Agree b) {m : Move} (hc : isCastle b.abs m = true) :
    b.pieceOn m.src = some .king := by
  unfold isCastle at hc
  rw [ha m.src]
  cases hb : b.abs.board m.src with
  | none => rw [hb] at hc; cases hc
  | some x =>
    obtain ⟨pc, c'⟩ := x
    rw [hb] at hc
    cases pc <;> simp only [Bool.false_and, Bool.false_eq_true] at hc
    rfl

/-- a move of the king from the e-file to the g- or c-file is a castling move of the specification -/
theorem isCastle_of_pieceOn_king {b : Board} (ha : Agree b) (r : Fin 8) (long : Bool)
    (hk : b.pieceOn (mkSq r 4) = some .king) :
    isCastle b.abs ⟨mkSq r 4, mkSq r (if long then 2 else 6), none⟩ = true := by
  unfold isCastle
  rw [ha] at hk
  cases hb : b.abs.board (mkSq r 4) with
  | none => rw [hb] at hk; cases hk
  | some x =>
    obtain ⟨pc, c'⟩ := x
    rw [hb] at hk
    simp only [Option.map_some, Option.some.injEq] at hk
    subst hk
    simp only [Bool.true_and, beq_iff_eq]
    clear hb
    revert r
    cases long <;> decide

theorem castle_file_short : ∀ r : Fin 8, (mkSq r 6).file > (mkSq r 4).file := by decide
theorem castle_file_long : ∀ r : Fin 8, ¬ (mkSq r 2).file > (mkSq r 4).file := by decide

/-- "the generated moves are the FIDE-legal moves, each once" (the conclusion of C01) for this board -/
def GenExact (T : Tables) (b : Board) : Prop :=
  (b.legalMoves T).Nodup ∧ ∀ m, m ∈ b.legalMoves T ↔ (legal b.abs m = true ∧ m ∈ candidates b.abs)

theorem fromSan_complete_of_genExact (T : Tables) (b : Board) (ha : Agree b) (hg : GenExact T b)
    (m : Move) (s : List Char) (hs : IsSpelling b.abs m s) : fromSan T b s = .ok m := by
  obtain ⟨hnd, hex⟩ := hg
  obtain ⟨hleg, hcase⟩ := hs
  have hm : m ∈ b.legalMoves T := (hex m).2 ⟨hleg, legal_mem_candidates hleg⟩
  have hpl : pseudoLegal b.abs m = true := by
    unfold legal at hleg
    simp only [Bool.and_eq_true] at hleg
    exact hleg.1
  rcases hcase with ⟨hc, sfx, hs⟩ | ⟨hc, d, sfx, ep, hun, _, _, hs⟩
  · have hshape := castle_shape hpl hc
    have hk := pieceOn_king_of_isCastle ha hc
    by_cases hgt : m.dst.file > m.src.file
    · simp only [if_pos hgt] at hshape hs
      subst hs
      have h2 := fromSan_castle_short T b sfx (by rw [hshape] at hk; exact hk)
        (by rw [hshape] at hm; exact hm)
      rw [hshape]
      exact h2
    · simp only [if_neg hgt] at hshape hs
      subst hs
      have h2 := fromSan_castle_long T b sfx (by rw [hshape] at hk; exact hk)
        (by rw [hshape] at hm; exact hm)
      rw [hshape]
      exact h2
  · subst hs
    obtain ⟨pc, hb⟩ := pseudoLegal_src hpl
    refine fromSan_spell T b m d sfx ep pc _ hnd hm ha hb (pseudoLegal_promo hpl) ?_
    intro m' hm' hag
    have hm'' := (hex m').1 hm'
    unfold unambiguous at hun
    rw [List.all_eq_true] at hun
    have := hun m' (by unfold Chess.legalMoves; exact List.mem_filter.2 ⟨hm''.2, hm''.1⟩)
    simpa [hag] using this

end San
end Chess
