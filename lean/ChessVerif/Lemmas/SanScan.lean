import ChessVerif.Lemmas.TextTotal
import ChessVerif.Spec.San
/-!
The SAN scanner (`San.scan`, the part of `ChessMove::from_san` before the move loop) inverts the
documented SAN writer (`SanSpec.spell`): pure text lemmas, no chess.
-/
namespace Chess
namespace San

/-! ### one-byte characters: the byte cursor is the list index -/

theorem get1_nil (i : Nat) : get1 [] i = none := by
  unfold get1 Str.get
  simp only [Nat.le_add_right, if_true, Str.dropBytes_nil]
  cases i <;> simp [Str.takeBytes_nil]

theorem get1_cons_zero (c : Char) (r : List Char) (h : c.utf8Size = 1) : get1 (c :: r) 0 = some c := by
  unfold get1
  rw [Str.get_zero, Str.takeBytes_cons]
  simp [h, Str.takeBytes_zero]

theorem get_cons_succ (c : Char) (r : List Char) (h : c.utf8Size = 1) (i j : Nat) :
    Str.get (c :: r) (i + 1) (j + 1) = Str.get r i j := by
  have := Str.get_append [c] r i j
  simp only [Str.len_cons, Str.len_nil, h, List.singleton_append] at this
  rw [← this, Nat.add_comm 1 i, Nat.add_comm 1 j]

theorem get1_cons_succ (c : Char) (r : List Char) (h : c.utf8Size = 1) (i : Nat) :
    get1 (c :: r) (i + 1) = get1 r i := by
  unfold get1
  rw [get_cons_succ c r h]

theorem getFrom_zero (s : List Char) : Str.getFrom s 0 = some s := Str.dropBytes_zero s

theorem getFrom_cons_succ (c : Char) (r : List Char) (h : c.utf8Size = 1) (i : Nat) :
    Str.getFrom (c :: r) (i + 1) = Str.getFrom r i := by
  unfold Str.getFrom
  rw [Str.dropBytes_cons]
  simp [h]

theorem get_two (a b : Char) (r : List Char) (ha : a.utf8Size = 1) (hb : b.utf8Size = 1) :
    Str.get (a :: b :: r) 0 2 = some [a, b] := by
  have := Str.takeBytes_append [a, b] r
  simp only [Str.len_cons, Str.len_nil, ha, hb] at this
  rw [Str.get_zero]
  exact this

theorem get_two_nil : Str.get [] 0 2 = none := by
  rw [Str.get_zero, Str.takeBytes_nil]; simp
theorem get_two_single (a : Char) (ha : a.utf8Size = 1) : Str.get [a] 0 2 = none := by
  rw [Str.get_zero, Str.takeBytes_cons]
  simp [ha, Str.takeBytes_nil]

/-! ### the scanner in phases -/

/-- the part of the scanner after the destination: promotion letter, `+`/`#`, ` e.p.` -/
def tailScan (s : List Char) (cur : Nat) : Option Piece × Bool :=
  let (promo, cur) := match (get1 s cur).bind promoOfLetter? with
    | some p => (some p, cur + 1) | none => (none, cur)
  let cur := match get1 s cur with | some '+' => cur + 1 | some '#' => cur + 1 | _ => cur
  let ep := match Str.getFrom s cur with | some rest => rest == " e.p.".toList | none => false
  (promo, ep)

/-- the `x` test -/
def takesAt (s : List Char) (cur : Nat) : Bool × Nat :=
  match get1 s cur with | some 'x' => (true, cur + 1) | _ => (false, cur)

/-- the destination square, or the "source" turned back into the destination -/
def destAt (s : List Char) (srcFile srcRank : Option (Fin 8)) (cur : Nat) :
    Option (Sq × Option (Fin 8) × Option (Fin 8) × Nat) :=
  let fromSource : Option (Sq × Option (Fin 8) × Option (Fin 8) × Nat) :=
    match srcRank, srcFile with
    | some r, some f => some (mkSq r f, none, none, cur)
    | _, _ => none
  match Str.get s cur (cur + 2) with
  | some t =>
    match parseSquare t with
    | .ok q => some (q, srcFile, srcRank, cur + 2)
    | _ => fromSource
  | none => fromSource

def pieceAt (s : List Char) : Option (Piece × Nat) :=
  (get1 s 0).map fun c0 => match pieceOfLetter? c0 with | some p => (p, 1) | none => (Piece.pawn, 0)
def fileAt (s : List Char) (cur : Nat) : Option (Option (Fin 8) × Nat) :=
  (get1 s cur).map fun c1 => match charFile? c1 with | some f => (some f, cur + 1) | none => (none, cur)
def rankAt (s : List Char) (cur : Nat) : Option (Option (Fin 8) × Nat) :=
  (get1 s cur).map fun c1 => match charRank? c1 with | some f => (some f, cur + 1) | none => (none, cur)

theorem scan_eq (s : List Char) : scan s =
    (pieceAt s).bind fun (piece, cur) =>
    (fileAt s cur).bind fun (srcFile, cur) =>
    (rankAt s cur).bind fun (srcRank, cur) =>
    (destAt s srcFile srcRank (takesAt s cur).2).map fun (dest, srcFile, srcRank, cur') =>
      ⟨piece, srcFile, srcRank, (takesAt s cur).1, dest, (tailScan s cur').1, (tailScan s cur').2⟩ := by
  unfold scan pieceAt fileAt rankAt
  dsimp only
  cases h0 : get1 s 0 with
  | none => rfl
  | some c0 =>
    dsimp only [Option.map_some, Option.bind_some]
    cases hp : pieceOfLetter? c0 <;> dsimp only [Nat.zero_add] <;>
    (cases h1 : get1 s _ with
     | none => rfl
     | some c1 =>
      dsimp only [Option.map_some, Option.bind_some]
      cases hf : charFile? c1 <;> dsimp only [Nat.zero_add] <;>
      (cases h2 : get1 s _ with
       | none => rfl
       | some c2 =>
        dsimp only [Option.map_some, Option.bind_some]
        cases hr : charRank? c2 <;> dsimp only [Nat.zero_add] <;>
        (unfold destAt takesAt tailScan; dsimp only
         cases Str.get s _ _ with
         | none => rfl
         | some t => dsimp only; cases parseSquare t <;> rfl)))

end San
end Chess
