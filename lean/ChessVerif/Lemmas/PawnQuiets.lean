import ChessVerif.Proofs.TablesOK
import ChessVerif.Lemmas.Bits
/-! `get_pawn_quiets` with blockers equals the specification for every blocker set (C16). -/
namespace Chess
set_option maxRecDepth 100000

/-- shape of the push table entry of every (colour, square): nothing on the last rank, else the
square ahead, plus the square two ahead from the start rank -/
def pushShape (c : Color) (s : Sq) : Bool :=
  match Geom.step s 0 c.fwd with
  | none => Geom.pawnMoves c s == 0#64
  | some o =>
    s.uforward c == o &&
    Geom.pawnMoves c s == (BB.ofSq o ||| (if s.rank == c.pawnRank then
      (match Geom.step s 0 (2 * c.fwd) with | some t => BB.ofSq t | none => 0#64) else 0#64))

theorem pushShape_all : (allColors.all fun c => allSq.all fun s => pushShape c s) = true := by decide +kernel

theorem ofSq_and_not (t : Sq) (bl : BB) : BB.ofSq t &&& ~~~bl = if bl.has t then 0#64 else BB.ofSq t := by
  apply BitVec.eq_of_getLsbD_eq
  intro i hi
  rw [BitVec.getLsbD_and, BB.getLsbD_ofSq]
  by_cases h : i = t.val
  · subst h
    rw [decide_eq_true rfl, Bool.true_and, BitVec.getLsbD_not]
    simp only [hi, decide_true, Bool.true_and]
    unfold BB.has
    cases hb : bl.getLsbD t.val with
    | true => simp
    | false => simp [BB.getLsbD_ofSq]
  · rw [decide_eq_false h, Bool.false_and]
    split
    · simp
    · rw [BB.getLsbD_ofSq, decide_eq_false h]

theorem pawnQuiets_exact (c : Color) (s : Sq) (bl : BB) :
    Board.pawnQuiets codeTables s c bl = Geom.pawnQuiets c s bl := by
  have hs : pushShape c s = true := by
    have h1 := List.all_eq_true.mp pushShape_all c (by cases c <;> simp [allColors])
    exact List.all_eq_true.mp h1 s (List.mem_finRange s)
  unfold Board.pawnQuiets Geom.pawnQuiets
  rw [codeTables_ok.pawnMoves]
  unfold pushShape at hs
  cases hst : Geom.step s 0 c.fwd with
  | none =>
    rw [hst] at hs
    simp only [beq_iff_eq] at hs
    rw [hs]
    dsimp only
    simp
  | some o =>
    rw [hst] at hs
    simp only [Bool.and_eq_true, beq_iff_eq] at hs
    obtain ⟨hu, hm⟩ := hs
    rw [hu, hm]
    dsimp only
    have hc : (BB.ofSq o &&& bl ≠ 0#64) ↔ bl.getLsbD o.val = true := by
      rw [BitVec.and_comm]; exact and_ofSq_ne_zero_iff bl o
    cases hbo : bl.getLsbD o.val with
    | true =>
      rw [if_pos (hc.mpr hbo)]
      have : bl.has o = true := hbo
      rw [this]; rfl
    | false =>
      rw [if_neg (fun hh => by rw [hc.mp hh] at hbo; cases hbo)]
      have hf : bl.has o = false := hbo
      rw [hf]
      simp only [Bool.false_eq_true, if_false]
      rw [BitVec.and_comm, BitVec.and_or_distrib_left, BitVec.and_comm (~~~bl) (BB.ofSq o), ofSq_and_not, hf]
      simp only [Bool.false_eq_true, if_false]
      congr 1
      by_cases hr : (s.rank == c.pawnRank) = true
      · have hr' : s.rank = c.pawnRank := by simpa using hr
        simp only [hr, hr', if_true]
        cases Geom.step s 0 (2 * c.fwd) with
        | none => simp
        | some t => rw [BitVec.and_comm, ofSq_and_not]; simp
      · have hr' : ¬ s.rank = c.pawnRank := by simpa using hr
        simp only [hr, hr', if_false]; simp

end Chess
