import ChessVerif.Lemmas.PinCheck2
/-
Pins and checks on the specification, part 3: the geometry toolbox.  Squares on a common line are
given integer positions `At o u i z` (`z = o + i·u`); betweenness is order of positions.
-/
namespace Chess
namespace PinCheck

set_option maxRecDepth 100000

/-! ### integer positions along a direction -/

/-- `z` is the square at (signed) position `i` from `o` along `u` -/
def At (o : Sq) (u : Dir) (i : Int) (z : Sq) : Prop :=
  z.file = o.file + i * u.df ∧ z.rank = o.rank + i * u.dr

theorem At.zero (o : Sq) (u : Dir) : At o u 0 o := by
  unfold At; omega

theorem onRay_iff_At (a : Sq) (u : Dir) (n : Nat) (b : Sq) :
    onRay a u n b = true ↔ 0 < n ∧ At a u n b := onRay_iff a u n b

theorem At.inj {o : Sq} {u : Dir} {i j : Int} {z : Sq} (h1 : At o u i z) (h2 : At o u j z) : i = j := by
  unfold At at h1 h2
  obtain ⟨a1, a2⟩ := h1
  obtain ⟨b1, b2⟩ := h2
  cases u <;> simp only [Dir.df, Dir.dr] at a1 a2 b1 b2 <;> omega

theorem At.ext {o : Sq} {u : Dir} {i : Int} {z z' : Sq} (h1 : At o u i z) (h2 : At o u i z') : z = z' := by
  unfold At at h1 h2
  exact Sq.ext_coord (by omega) (by omega)

/-- change of origin -/
theorem At.shift {o : Sq} {u : Dir} {i j : Int} {b z : Sq} (h1 : At o u i b) (h2 : At o u j z) :
    At b u (j - i) z := by
  unfold At at h1 h2 ⊢
  rw [Int.sub_mul, Int.sub_mul]
  omega

/-- three squares at increasing positions: the middle one is strictly between the outer ones -/
theorem sb_of_At_lt {o : Sq} {u : Dir} {i j l : Int} {a z b : Sq} (ha : At o u i a) (hz : At o u j z)
    (hb : At o u l b) (h1 : i < j) (h2 : j < l) : strictlyBetween a z b = true := by
  have hz' := ha.shift hz
  have hb' := ha.shift hb
  rw [strictlyBetween_iff]
  refine ⟨u, (l - i).toNat, (j - i).toNat, ?_, ?_, by omega⟩
  · rw [onRay_iff_At]
    refine ⟨by omega, ?_⟩
    rw [Int.toNat_of_nonneg (by omega)]; exact hb'
  · rw [onRay_iff_At]
    refine ⟨by omega, ?_⟩
    rw [Int.toNat_of_nonneg (by omega)]; exact hz'

/-- … or at decreasing positions -/
theorem sb_of_At_gt {o : Sq} {u : Dir} {i j l : Int} {a z b : Sq} (ha : At o u i a) (hz : At o u j z)
    (hb : At o u l b) (h1 : j < i) (h2 : l < j) : strictlyBetween a z b = true :=
  strictlyBetween_symm' (sb_of_At_lt hb hz ha h2 h1)

/-- betweenness gives positions -/
theorem At_of_sb {a z b : Sq} (h : strictlyBetween a z b = true) :
    ∃ (u : Dir) (n t : Int), 0 < t ∧ t < n ∧ At a u n b ∧ At a u t z := by
  obtain ⟨u, n, t, h1, h2, h3⟩ := (strictlyBetween_iff a z b).mp h
  rw [onRay_iff_At] at h1 h2
  exact ⟨u, n, t, by omega, by omega, h1.2, h2.2⟩

/-- positions on a known line: if `b` is at `n > 0` from `a` along `u` and `z` is strictly between,
`z` is at some `t` with `0 < t < n` along the same `u` -/
theorem At_of_sb_dir {a z b : Sq} {u : Dir} {n : Int} (hn : 0 < n) (hb : At a u n b)
    (h : strictlyBetween a z b = true) : ∃ t : Int, 0 < t ∧ t < n ∧ At a u t z := by
  have hb' : onRay a u n.toNat b = true := by
    rw [onRay_iff_At]
    refine ⟨by omega, ?_⟩
    rw [Int.toNat_of_nonneg (by omega)]; exact hb
  obtain ⟨t, h0, h1, h2, _⟩ := strictlyBetween_onRay h hb'
  rw [onRay_iff_At] at h2
  exact ⟨t, by omega, by omega, h2.2⟩

/-- two rays from one square through a common square have the same direction -/
theorem At.dir_unique {k : Sq} {u u' : Dir} {i i' : Int} {y : Sq} (hi : 0 < i) (hi' : 0 < i')
    (h : At k u i y) (h' : At k u' i' y) : u = u' ∧ i = i' := by
  have h1 : onRay k u i.toNat y = true := by
    rw [onRay_iff_At]; refine ⟨by omega, ?_⟩; rw [Int.toNat_of_nonneg (by omega)]; exact h
  have h2 : onRay k u' i'.toNat y = true := by
    rw [onRay_iff_At]; refine ⟨by omega, ?_⟩; rw [Int.toNat_of_nonneg (by omega)]; exact h'
  obtain ⟨e1, e2⟩ := ray_dir_unique h1 h2
  exact ⟨e1, by omega⟩

/-! ### leapers have nothing between them and their target -/

theorem leaper_no_between {b : Option (Piece × Color)} {x z k : Sq} (hl : leaperAtt b x k = true)
    (h : strictlyBetween x z k = true) : False := by
  unfold leaperAtt at hl
  rcases b with _ | ⟨pc, c⟩
  · simp at hl
  · cases pc with
    | knight => exact no_between_of_knight hl h
    | king =>
      simp only [List.any_eq_true] at hl
      obtain ⟨u, _, hu⟩ := hl
      rw [onRay_iff] at hu
      obtain ⟨_, h1, h2⟩ := hu
      refine no_between_of_adjacent ?_ ?_ h <;>
        cases u <;> simp only [Dir.df, Dir.dr] at h1 h2 <;> omega
    | pawn =>
      simp only [Bool.and_eq_true, beq_iff_eq] at hl
      have := fwd_cases c
      exact no_between_of_adjacent (by omega) (by omega) h
    | bishop => simp at hl
    | rook => simp at hl
    | queen => simp at hl

/-! ### two attackers' lines through one interposing square -/

/-- if `d` is strictly between `x` and `k` and also strictly between `y` and `k`, then `x` and `y` are
on the same ray from `k`: they coincide or one is between the other and `k` -/
theorem same_ray {x y d k : Sq} (hx : strictlyBetween x d k = true) (hy : strictlyBetween y d k = true) :
    x = y ∨ strictlyBetween y x k = true ∨ strictlyBetween x y k = true := by
  obtain ⟨u, n, t, t0, tn, hX, hD⟩ := At_of_sb (strictlyBetween_symm' hx)
  obtain ⟨u', n', t', t0', tn', hY, hD'⟩ := At_of_sb (strictlyBetween_symm' hy)
  obtain ⟨eu, et⟩ := At.dir_unique t0 t0' hD hD'
  subst eu
  have hK := At.zero k u
  rcases Int.lt_trichotomy n n' with hlt | heq | hgt
  · exact Or.inr (Or.inl (sb_of_At_gt hY hX hK hlt (by omega)))
  · subst heq; exact Or.inl (At.ext hX hY)
  · exact Or.inr (Or.inr (sb_of_At_gt hX hY hK hgt (by omega)))

/-! ### the line through two squares -/

/-- `x` is on the full line through the distinct, aligned squares `a` and `b` (`Geom.line`) -/
def onLine (a b x : Sq) : Bool := (Geom.line a b).getLsbD x.val

theorem onLine_iff (a b x : Sq) : onLine a b x = true ↔
    a ≠ b ∧ (b.file - a.file = 0 ∨ b.rank - a.rank = 0 ∨ (b.file - a.file).natAbs = (b.rank - a.rank).natAbs) ∧
      (x.file - a.file) * (b.rank - a.rank) = (x.rank - a.rank) * (b.file - a.file) := by
  unfold onLine
  rw [mem_line]
  simp only [Bool.and_eq_true, Bool.or_eq_true, bne_iff_ne, ne_eq, beq_iff_eq, and_assoc, or_assoc]

theorem cross_id (a b f r : Int) : a * f * (b * r) = a * r * (b * f) := by
  ac_rfl

/-- squares at integer positions of a line through `a` are on `line a b` -/
theorem onLine_of_At {a b x : Sq} {u : Dir} {n i : Int} (hn : n ≠ 0) (hb : At a u n b) (hx : At a u i x) :
    onLine a b x = true := by
  rw [onLine_iff]
  unfold At at hb hx
  obtain ⟨b1, b2⟩ := hb
  obtain ⟨x1, x2⟩ := hx
  refine ⟨?_, ?_, ?_⟩
  · intro he; subst he
    cases u <;> simp only [Dir.df, Dir.dr] at b1 b2 <;> omega
  · cases u <;> simp only [Dir.df, Dir.dr] at b1 b2 <;> omega
  · have e1 : x.file - a.file = i * u.df := by omega
    have e2 : b.rank - a.rank = n * u.dr := by omega
    have e3 : x.rank - a.rank = i * u.dr := by omega
    have e4 : b.file - a.file = n * u.df := by omega
    rw [e1, e2, e3, e4]
    exact cross_id i n u.df u.dr

/-- a square on `line a b` has an integer position along the direction from `a` to `b` -/
theorem At_of_onLine {a b x : Sq} {u : Dir} {n : Int} (hn : n ≠ 0) (hb : At a u n b)
    (hx : onLine a b x = true) : ∃ i : Int, At a u i x := by
  rw [onLine_iff] at hx
  obtain ⟨_, _, hc⟩ := hx
  unfold At at hb ⊢
  obtain ⟨b1, b2⟩ := hb
  have e2 : b.rank - a.rank = n * u.dr := by omega
  have e4 : b.file - a.file = n * u.df := by omega
  rw [e2, e4, Int.mul_left_comm, Int.mul_left_comm (x.rank - a.rank)] at hc
  have hc' := Int.eq_of_mul_eq_mul_left hn hc
  cases u <;> simp only [Dir.df, Dir.dr] at hc' ⊢
  · exact ⟨x.rank - a.rank, by omega, by omega⟩
  · exact ⟨x.rank - a.rank, by omega, by omega⟩
  · exact ⟨x.file - a.file, by omega, by omega⟩
  · exact ⟨x.file - a.file, by omega, by omega⟩
  · exact ⟨a.rank - x.rank, by omega, by omega⟩
  · exact ⟨a.rank - x.rank, by omega, by omega⟩
  · exact ⟨a.file - x.file, by omega, by omega⟩
  · exact ⟨a.file - x.file, by omega, by omega⟩

/-! ### the pin line -/

/-- **staying on the pin line**: with `s` strictly between the pinner `x` and the king `k`, a
destination that captures the pinner or stays strictly between pinner and king is on `line s k` -/
theorem pin_line_fwd {x s k d : Sq} (hs : strictlyBetween x s k = true)
    (hd : d = x ∨ strictlyBetween x d k = true) : onLine s k d = true := by
  obtain ⟨u, n, t, t0, tn, hK, hS⟩ := At_of_sb hs
  have hK' := hS.shift hK
  rcases hd with rfl | hd
  · exact onLine_of_At (by omega) hK' (hS.shift (At.zero d u))
  · obtain ⟨j, _, _, hD⟩ := At_of_sb_dir (by omega) hK hd
    exact onLine_of_At (by omega) hK' (hS.shift hD)

/-- **leaving the pin segment along the line**: `s` strictly between `x` and `k`; a destination on
`line s k` other than `s`, `k`, `x` and not strictly between `x` and `k` lies beyond `x` or beyond
`k`, so the move from `s` jumps over `x` or over `k` -/
theorem pin_line_bwd {x s k d : Sq} (hs : strictlyBetween x s k = true) (hl : onLine s k d = true)
    (h1 : d ≠ s) (h2 : d ≠ k) (h3 : d ≠ x) (h4 : strictlyBetween x d k = false) :
    strictlyBetween s x d = true ∨ strictlyBetween s k d = true := by
  obtain ⟨u, n, t, t0, tn, hK, hS⟩ := At_of_sb hs
  have hK' := hS.shift hK
  obtain ⟨i, hD⟩ := At_of_onLine (by omega) hK' hl
  have hX := hS.shift (At.zero x u)
  have hS0 := At.zero s u
  -- positions from `s`: x at -t, s at 0, k at n - t, d at i
  have c1 : i ≠ 0 := fun h => h1 (At.ext (h ▸ hD) hS0)
  have c2 : i ≠ n - t := fun h => h2 (At.ext (h ▸ hD) hK')
  have c3 : i ≠ 0 - t := fun h => h3 (At.ext (h ▸ hD) hX)
  have c4 : ¬ (0 - t < i ∧ i < n - t) := by
    rintro ⟨a, b⟩
    rw [sb_of_At_lt hX hD hK' a b] at h4
    exact Bool.noConfusion h4
  by_cases hneg : i < 0 - t
  · exact Or.inl (sb_of_At_gt hS0 hX hD (by omega) hneg)
  · exact Or.inr (sb_of_At_lt hS0 hK' hD (by omega) (by omega))

/-- **pinned_slide**: `s` strictly between the occupied squares `x` and `k`; for a destination `d ≠ s, k`
reached from `s` over empty squares only, capturing `x` or landing strictly between `x` and `k` is the
same as landing on `line s k` -/
theorem pinned_slide {p : Pos} {x s k d : Sq} (hs : strictlyBetween x s k = true)
    (hx : p.empty x = false) (hk : p.empty k = false)
    (hpath : ∀ z, strictlyBetween s z d = true → p.empty z = true) (h1 : d ≠ s) (h2 : d ≠ k) :
    (d = x ∨ strictlyBetween x d k = true) ↔ onLine s k d = true := by
  constructor
  · exact pin_line_fwd hs
  · intro hl
    by_cases h3 : d = x
    · exact Or.inl h3
    · cases h4 : strictlyBetween x d k with
      | true => exact Or.inr rfl
      | false =>
        exfalso
        rcases pin_line_bwd hs hl h1 h2 h3 h4 with e | e
        · rw [hpath x e] at hx; exact Bool.noConfusion hx
        · rw [hpath k e] at hk; exact Bool.noConfusion hk

end PinCheck
end Chess
