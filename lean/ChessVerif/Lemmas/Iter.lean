import ChessVerif.Model.MoveGen
import ChessVerif.Proofs.SliderLemmas
/-
Lemmas for C14: the `MoveGen` iterator state machine (`next`, `len`, `set_iterator_mask`,
`remove_mask`, `remove_move`) over *arbitrary* entry lists, masks and states.

Everything lives in `Chess.Iter`.  The bitboard facts of the first section are local versions (the
same facts are proved independently in `Lemmas/BitBoard.lean` for C20; this file does not depend on it).
-/
namespace Chess
namespace Iter

open MoveGen

/-! ### bitboards as ascending square lists (local versions) -/

/-- the squares of a bitboard in ascending order (the specification of bitboard iteration) -/
def sqsOf (b : BB) : List Sq := allSq.filter fun s => b.getLsbD s.val

theorem exists_bit_of_ne_zero (b : BB) (h : b ≠ 0#64) : ∃ i, i < 64 ∧ b.getLsbD i = true := by
  apply Classical.byContradiction
  intro hn
  apply h
  apply BitVec.eq_of_getLsbD_eq
  intro i hi
  cases hb : b.getLsbD i with
  | false => simp
  | true => exact absurd ⟨i, hi, hb⟩ hn

theorem tz_spec (b : BB) (h : b ≠ 0#64) :
    BB.tz b < 64 ∧ b.getLsbD (BB.tz b) = true ∧ ∀ j, j < BB.tz b → b.getLsbD j = false := by
  unfold BB.tz
  cases hf : (List.range 64).find? (fun i => b.getLsbD i) with
  | none =>
    rw [List.find?_range_eq_none] at hf
    obtain ⟨i, hi, hb⟩ := exists_bit_of_ne_zero b h
    have := hf i hi
    simp [hb] at this
  | some k =>
    rw [List.find?_range_eq_some] at hf
    obtain ⟨h1, h2, h3⟩ := hf
    simp only [Option.getD_some]
    refine ⟨List.mem_range.mp h2, h1, ?_⟩
    intro j hj
    have := h3 j hj
    simpa using this

theorem toSq_val (b : BB) (h : b ≠ 0#64) : (BB.toSq b).val = BB.tz b := by
  unfold BB.toSq
  exact Nat.mod_eq_of_lt (tz_spec b h).1

/-- `to_square` of a non-empty bitboard is one of its squares -/
theorem getLsbD_toSq (b : BB) (h : b ≠ 0#64) : b.getLsbD (BB.toSq b).val = true := by
  rw [toSq_val b h]; exact (tz_spec b h).2.1

/-- … and the lowest one -/
theorem getLsbD_lt_toSq (b : BB) (h : b ≠ 0#64) (j : Nat) (hj : j < (BB.toSq b).val) :
    b.getLsbD j = false := by
  rw [toSq_val b h] at hj; exact (tz_spec b h).2.2 j hj

theorem getLsbD_clearLowest (b : BB) (h : b ≠ 0#64) (i : Nat) :
    (b ^^^ BB.ofSq (BB.toSq b)).getLsbD i = (b.getLsbD i && decide (i ≠ (BB.toSq b).val)) := by
  rw [BitVec.getLsbD_xor, BB.getLsbD_ofSq]
  by_cases hi : i = (BB.toSq b).val
  · subst hi; simp [getLsbD_toSq b h]
  · simp [hi]

theorem map_val_allSq : allSq.map (fun s : Sq => s.val) = List.range 64 := by
  apply List.ext_getElem
  · simp [allSq]
  · intro i h1 h2
    simp [allSq]

theorem popcnt_eq_length_sqsOf (b : BB) : b.popcnt = (sqsOf b).length := by
  unfold BB.popcnt sqsOf
  rw [← map_val_allSq, List.filter_map, List.length_map]
  rfl

theorem sqsOf_zero : sqsOf 0#64 = [] := by
  unfold sqsOf
  rw [List.filter_eq_nil_iff]
  intro a _; simp

theorem sqsOf_eq_nil_iff (b : BB) : sqsOf b = [] ↔ b = 0#64 := by
  constructor
  · intro h
    apply Classical.byContradiction
    intro hb
    obtain ⟨i, hi, hbit⟩ := exists_bit_of_ne_zero b hb
    have : (⟨i, hi⟩ : Sq) ∈ sqsOf b := by
      unfold sqsOf
      rw [List.mem_filter]; exact ⟨List.mem_finRange _, hbit⟩
    rw [h] at this; cases this
  · intro h; subst h; exact sqsOf_zero

theorem mem_sqsOf (b : BB) (s : Sq) : s ∈ sqsOf b ↔ b.getLsbD s.val = true := by
  unfold sqsOf
  rw [List.mem_filter]
  constructor
  · exact fun h => h.2
  · exact fun h => ⟨List.mem_finRange _, h⟩

theorem sqsOf_length_le (b : BB) : (sqsOf b).length ≤ 64 := by
  unfold sqsOf
  have := List.length_filter_le (fun s : Sq => b.getLsbD s.val) allSq
  simpa [allSq] using this

theorem filter_congr_mem {α : Type} (p q : α → Bool) (l : List α) (h : ∀ a ∈ l, p a = q a) :
    l.filter p = l.filter q := by
  induction l with
  | nil => rfl
  | cons a as ih =>
    have ha := h a (by simp)
    have ih' := ih (fun x hx => h x (by simp [hx]))
    simp only [List.filter_cons, ha, ih']

/-- the squares of `b ≠ 0` are `to_square b` followed by the squares of `b` with that bit xor-ed away:
one step of `Iterator for BitBoard` -/
theorem sqsOf_cons (b : BB) (h : b ≠ 0#64) :
    sqsOf b = BB.toSq b :: sqsOf (b ^^^ BB.ofSq (BB.toSq b)) := by
  obtain ⟨l1, l2, hl⟩ := List.append_of_mem (List.mem_finRange (BB.toSq b))
  have hpw : List.Pairwise (· < ·) (l1 ++ BB.toSq b :: l2) := by
    rw [← hl]; exact List.pairwise_lt_finRange 64
  rw [List.pairwise_append, List.pairwise_cons] at hpw
  obtain ⟨_, ⟨hgt, _⟩, hlt⟩ := hpw
  have hlt' : ∀ x ∈ l1, x.val < (BB.toSq b).val := fun x hx => hlt x hx (BB.toSq b) (by simp)
  have hgt' : ∀ y ∈ l2, (BB.toSq b).val < y.val := fun y hy => hgt y hy
  have e1 : l1.filter (fun s => b.getLsbD s.val) = [] := by
    rw [List.filter_eq_nil_iff]
    intro x hx
    rw [getLsbD_lt_toSq b h _ (hlt' x hx)]; simp
  have e2 : l1.filter (fun s => (b ^^^ BB.ofSq (BB.toSq b)).getLsbD s.val) = [] := by
    rw [List.filter_eq_nil_iff]
    intro x hx
    rw [getLsbD_clearLowest b h, getLsbD_lt_toSq b h _ (hlt' x hx)]; simp
  have e3 : l2.filter (fun s => (b ^^^ BB.ofSq (BB.toSq b)).getLsbD s.val) =
      l2.filter (fun s => b.getLsbD s.val) := by
    apply filter_congr_mem
    intro y hy
    have := hgt' y hy
    rw [getLsbD_clearLowest b h]
    have : y.val ≠ (BB.toSq b).val := by omega
    simp [this]
  have hs1 : b.getLsbD (BB.toSq b).val = true := getLsbD_toSq b h
  have hs2 : (b ^^^ BB.ofSq (BB.toSq b)).getLsbD (BB.toSq b).val = false := by
    rw [getLsbD_clearLowest b h]; simp
  unfold sqsOf allSq
  rw [hl, List.filter_append, List.filter_append, List.filter_cons, List.filter_cons, e1, e2, e3]
  simp only [hs1, hs2, List.nil_append, if_true]
  simp

/-! ### what an entry list denotes -/

/-- the moves from `src` to `d`: one plain move, or the four promotions in `PROMOTION_PIECES` order -/
def expand (promo : Bool) (src d : Sq) : List Move :=
  if promo then promotionPieces.map (fun p => (⟨src, d, some p⟩ : Move)) else [⟨src, d, none⟩]

/-- the moves of one entry that land in `mask`, in yield order -/
def movesUnder (e : Entry) (mask : BB) : List Move :=
  (sqsOf (e.bb &&& mask)).flatMap (expand e.promo e.sq)

/-- the moves of a list of entries that land in `mask`, entry by entry -/
def allUnder (l : List Entry) (mask : BB) : List Move := l.flatMap (movesUnder · mask)

/-- what the generator will still yield under its current mask: the moves under the mask of the
entries from `index` on, without the promotions of the current destination already handed out -/
def under (g : MoveGen) : List Move := (allUnder (g.moves.drop g.index) g.mask).drop g.promoIdx

theorem under_def (g : MoveGen) :
    under g = (allUnder (g.moves.drop g.index) g.mask).drop g.promoIdx := rfl

/-- the state invariant of the iterator (DESIGN Appendix C) -/
structure Inv (g : MoveGen) : Prop where
  promo_lt : g.promoIdx < 4
  before : ∀ e ∈ g.moves.take g.index, e.bb &&& g.mask = 0#64
  part : ∃ mid post, g.moves.drop g.index = mid ++ post ∧
    (∀ e ∈ mid, e.bb &&& g.mask ≠ 0#64) ∧ (∀ e ∈ post, e.bb &&& g.mask = 0#64)
  cursor : 0 < g.promoIdx → ∃ e, g.moves[g.index]? = some e ∧ e.promo = true ∧ e.bb &&& g.mask ≠ 0#64

theorem expand_ne_nil (promo : Bool) (src d : Sq) : expand promo src d ≠ [] := by
  cases promo <;> simp [expand, promotionPieces]

theorem expand_length (promo : Bool) (src d : Sq) :
    (expand promo src d).length = if promo then 4 else 1 := by
  cases promo <;> simp [expand, promotionPieces]

theorem mem_expand {promo : Bool} {src d : Sq} {m : Move} (h : m ∈ expand promo src d) :
    m.src = src ∧ m.dst = d := by
  cases promo
  · simp [expand] at h; subst h; exact ⟨rfl, rfl⟩
  · simp [expand, promotionPieces] at h
    rcases h with h | h | h | h <;> subst h <;> exact ⟨rfl, rfl⟩

theorem movesUnder_eq_nil_iff (e : Entry) (mask : BB) : movesUnder e mask = [] ↔ e.bb &&& mask = 0#64 := by
  unfold movesUnder
  rw [← sqsOf_eq_nil_iff]
  cases h : sqsOf (e.bb &&& mask) with
  | nil => simp
  | cons a as =>
    simp only [List.flatMap_cons, List.append_eq_nil_iff, reduceCtorEq, iff_false, not_and]
    intro h1; exact absurd h1 (expand_ne_nil _ _ _)

theorem movesUnder_congr {e e' : Entry} {m m' : BB} (hs : e.sq = e'.sq) (hp : e.promo = e'.promo)
    (hb : e.bb &&& m = e'.bb &&& m') : movesUnder e m = movesUnder e' m' := by
  unfold movesUnder; rw [hs, hp, hb]

theorem length_flatMap_expand (promo : Bool) (src : Sq) (l : List Sq) :
    (l.flatMap (expand promo src)).length = l.length * (if promo then 4 else 1) := by
  induction l with
  | nil => simp
  | cons a as ih =>
    rw [List.flatMap_cons, List.length_append, ih, expand_length, List.length_cons, Nat.succ_mul]
    omega

theorem movesUnder_length (e : Entry) (mask : BB) :
    (movesUnder e mask).length = if e.promo then (e.bb &&& mask).popcnt * 4 else (e.bb &&& mask).popcnt := by
  unfold movesUnder
  rw [length_flatMap_expand, popcnt_eq_length_sqsOf]
  cases e.promo <;> simp

theorem movesUnder_length_le (e : Entry) (mask : BB) : (movesUnder e mask).length ≤ 256 := by
  unfold movesUnder
  rw [length_flatMap_expand]
  have := sqsOf_length_le (e.bb &&& mask)
  cases e.promo <;> simp <;> omega

theorem allUnder_length_le (l : List Entry) (mask : BB) : (allUnder l mask).length ≤ l.length * 256 := by
  induction l with
  | nil => simp [allUnder]
  | cons a as ih =>
    unfold allUnder at ih ⊢
    rw [List.flatMap_cons, List.length_append, List.length_cons, Nat.succ_mul]
    have := movesUnder_length_le a mask
    omega

theorem allUnder_eq_nil {l : List Entry} {mask : BB} (h : ∀ e ∈ l, e.bb &&& mask = 0#64) :
    allUnder l mask = [] := by
  unfold allUnder
  rw [List.flatMap_eq_nil_iff]
  intro e he
  exact (movesUnder_eq_nil_iff e mask).mpr (h e he)

theorem allUnder_append (l1 l2 : List Entry) (mask : BB) :
    allUnder (l1 ++ l2) mask = allUnder l1 mask ++ allUnder l2 mask := by
  unfold allUnder; exact List.flatMap_append

theorem allUnder_cons (e : Entry) (l : List Entry) (mask : BB) :
    allUnder (e :: l) mask = movesUnder e mask ++ allUnder l mask := by
  unfold allUnder; exact List.flatMap_cons

/-- one step of the destination iteration of an entry -/
theorem and_clear (bb mask : BB) (h : bb &&& mask ≠ 0#64) :
    (bb ^^^ BB.ofSq (bb &&& mask).toSq) &&& mask = (bb &&& mask) ^^^ BB.ofSq (bb &&& mask).toSq := by
  have hs := getLsbD_toSq _ h
  rw [BitVec.getLsbD_and] at hs
  apply BitVec.eq_of_getLsbD_eq
  intro i hi
  simp only [BitVec.getLsbD_and, BitVec.getLsbD_xor, BB.getLsbD_ofSq]
  simp only [Bool.and_eq_true] at hs
  by_cases hi' : i = (bb &&& mask).toSq.val
  · rw [hi', hs.1, hs.2]; simp
  · simp [hi']

theorem movesUnder_step (e : Entry) (mask : BB) (h : e.bb &&& mask ≠ 0#64) :
    movesUnder e mask = expand e.promo e.sq (e.bb &&& mask).toSq ++
      movesUnder { e with bb := e.bb ^^^ BB.ofSq (e.bb &&& mask).toSq } mask := by
  unfold movesUnder
  rw [sqsOf_cons _ h, List.flatMap_cons]
  simp only [and_clear e.bb mask h]

/-- clearing a destination that lies in `A` does not change the part of the entry outside `A` -/
theorem clear_outside (bb A : BB) (h : bb &&& A ≠ 0#64) :
    (bb ^^^ BB.ofSq (bb &&& A).toSq) &&& ~~~A = bb &&& ~~~A := by
  have hs := getLsbD_toSq _ h
  rw [BitVec.getLsbD_and] at hs
  apply BitVec.eq_of_getLsbD_eq
  intro i hi
  simp only [BitVec.getLsbD_and, BitVec.getLsbD_xor, BB.getLsbD_ofSq, BitVec.getLsbD_not]
  simp only [Bool.and_eq_true] at hs
  by_cases hi' : i = (bb &&& A).toSq.val
  · rw [hi', hs.1, hs.2]; simp
  · simp [hi']

/-! ### one call of `next` -/

/-- clear the squares of `A` in an entry -/
def clearE (A : BB) (e : Entry) : Entry := { e with bb := e.bb &&& ~~~A }

theorem split_of_drop {l : List Entry} {i : Nat} {e : Entry} {rest : List Entry}
    (h : l.drop i = e :: rest) :
    l[i]? = some e ∧ l = l.take i ++ e :: rest ∧ (l.take i).length = i := by
  have hlt : i < l.length := by
    apply Classical.byContradiction
    intro hn
    have : l.drop i = [] := List.drop_eq_nil_iff.mpr (by omega)
    rw [this] at h; cases h
  refine ⟨?_, ?_, ?_⟩
  · rw [← List.head?_drop, h]; rfl
  · rw [← h]; exact (List.take_append_drop i l).symm
  · rw [List.length_take]; omega

theorem setEntryBB_of_drop {l : List Entry} {i : Nat} {e : Entry} {rest : List Entry}
    (h : l.drop i = e :: rest) (bb : BB) :
    setEntryBB l i bb = l.take i ++ { e with bb := bb } :: rest := by
  obtain ⟨h1, h2, h3⟩ := split_of_drop h
  have hlt : i < l.length := by
    rcases List.getElem?_eq_some_iff.mp h1 with ⟨hlt, _⟩; exact hlt
  have hget : l[i] = e := by
    rcases List.getElem?_eq_some_iff.mp h1 with ⟨_, hg⟩; exact hg
  have hrest : l.drop (i + 1) = rest := by
    have := List.drop_eq_getElem_cons hlt
    rw [h] at this
    exact (List.cons.inj this).2.symm
  unfold setEntryBB
  rw [List.modify_eq_take_cons_drop hlt, hget, hrest]

theorem clearE_step (e : Entry) (A : BB) (h : e.bb &&& A ≠ 0#64) :
    clearE A { e with bb := e.bb ^^^ BB.ofSq (e.bb &&& A).toSq } = clearE A e := by
  unfold clearE
  simp only [clear_outside e.bb A h]

/-- the effect of finishing a destination: the entry loses it, and the generator moves on to the next
entry when nothing is left under the mask -/
theorem advance (g : MoveGen) (hI : Inv g) (e : Entry) (rest : List Entry)
    (hd : g.moves.drop g.index = e :: rest) (hne : e.bb &&& g.mask ≠ 0#64) (g2 : MoveGen)
    (hg2 : g2 = if (e.bb ^^^ BB.ofSq (e.bb &&& g.mask).toSq) &&& g.mask = 0#64
      then { moves := setEntryBB g.moves g.index (e.bb ^^^ BB.ofSq (e.bb &&& g.mask).toSq),
             promoIdx := 0, mask := g.mask, index := g.index + 1 }
      else { moves := setEntryBB g.moves g.index (e.bb ^^^ BB.ofSq (e.bb &&& g.mask).toSq),
             promoIdx := 0, mask := g.mask, index := g.index }) :
    Inv g2 ∧
    allUnder (g.moves.drop g.index) g.mask = expand e.promo e.sq (e.bb &&& g.mask).toSq ++ under g2 ∧
    g2.mask = g.mask ∧ g2.moves.map (clearE g.mask) = g.moves.map (clearE g.mask) := by
  obtain ⟨_, hbefore, ⟨mid, post, hsplit, hmid, hpost⟩, _⟩ := hI
  obtain ⟨_, hl, hlen⟩ := split_of_drop hd
  have hset := setEntryBB_of_drop hd (e.bb ^^^ BB.ofSq (e.bb &&& g.mask).toSq)
  -- the current entry heads the non-empty block
  rw [hd] at hsplit
  cases mid with
  | nil =>
    simp only [List.nil_append] at hsplit
    exact absurd (hpost e (by rw [← hsplit]; simp)) hne
  | cons e0 mid' =>
    simp only [List.cons_append, List.cons.injEq] at hsplit
    obtain ⟨he0, hrest⟩ := hsplit
    subst he0
    have hstep := movesUnder_step e g.mask hne
    have hcl := clearE_step e g.mask hne
    have hmap : (List.take g.index g.moves ++
        { e with bb := e.bb ^^^ BB.ofSq (e.bb &&& g.mask).toSq } :: rest).map (clearE g.mask) =
        g.moves.map (clearE g.mask) := by
      conv => rhs; rw [hl]
      simp only [List.map_append, List.map_cons, hcl]
    by_cases hb : (e.bb ^^^ BB.ofSq (e.bb &&& g.mask).toSq) &&& g.mask = 0#64
    · rw [if_pos hb] at hg2
      subst hg2
      have hassoc : List.take g.index g.moves ++
          { e with bb := e.bb ^^^ BB.ofSq (e.bb &&& g.mask).toSq } :: rest =
          (List.take g.index g.moves ++ [{ e with bb := e.bb ^^^ BB.ofSq (e.bb &&& g.mask).toSq }]) ++ rest := by
        simp
      have hlen' : (List.take g.index g.moves ++
          [{ e with bb := e.bb ^^^ BB.ofSq (e.bb &&& g.mask).toSq }]).length = g.index + 1 := by
        rw [List.length_append, hlen]; rfl
      refine ⟨⟨by simp, ?_, ⟨mid', post, ?_, ?_, hpost⟩, by simp⟩, ?_, rfl, ?_⟩
      · intro x hx
        simp only [hset] at hx
        rw [hassoc, List.take_left' hlen'] at hx
        rcases List.mem_append.mp hx with hx | hx
        · exact hbefore x hx
        · simp only [List.mem_singleton] at hx; subst hx; exact hb
      · simp only [hset]
        rw [hassoc, List.drop_left' hlen']; exact hrest
      · intro x hx; exact hmid x (by simp [hx])
      · unfold under
        simp only [hset, List.drop_zero]
        rw [hassoc, List.drop_left' hlen', hd, allUnder_cons, hstep,
          (movesUnder_eq_nil_iff _ _).mpr hb, List.append_nil]
      · simp only [hset]; exact hmap
    · rw [if_neg hb] at hg2
      subst hg2
      refine ⟨⟨by simp, ?_, ⟨{ e with bb := e.bb ^^^ BB.ofSq (e.bb &&& g.mask).toSq } :: mid', post,
          ?_, ?_, hpost⟩, by simp⟩, ?_, rfl, ?_⟩
      · intro x hx
        simp only [hset] at hx
        rw [List.take_left' hlen] at hx
        exact hbefore x hx
      · simp only [hset]
        rw [List.drop_left' hlen, hrest]; rfl
      · intro x hx
        rcases List.mem_cons.mp hx with hx | hx
        · subst hx; exact hb
        · exact hmid x (by simp [hx])
      · unfold under
        simp only [hset, List.drop_zero]
        rw [List.drop_left' hlen, hd, allUnder_cons, allUnder_cons, hstep, List.append_assoc]
      · simp only [hset]; exact hmap

/-- what one successful `next` does -/
structure Step (g : MoveGen) (m : Move) (g' : MoveGen) : Prop where
  inv : Inv g'
  under_eq : under g = m :: under g'
  mask_eq : g'.mask = g.mask
  cleared : g'.moves.map (clearE g.mask) = g.moves.map (clearE g.mask)

theorem next_cases (g : MoveGen) (hI : Inv g) :
    (next g = (none, g) ∧ under g = [] ∧ ∀ e ∈ g.moves, e.bb &&& g.mask = 0#64) ∨
    ∃ m g', next g = (some m, g') ∧ Step g m g' := by
  have hI' := hI
  obtain ⟨hpi, hbefore, ⟨mid, post, hsplit, hmid, hpost⟩, hcur⟩ := hI'
  cases hd : g.moves.drop g.index with
  | nil =>
    left
    have hget : g.moves[g.index]? = none := by rw [← List.head?_drop, hd]; rfl
    refine ⟨?_, ?_, ?_⟩
    · unfold next; rw [hget]
    · unfold under; rw [hd]; simp [allUnder]
    · intro x hx
      rw [← List.take_append_drop g.index g.moves, hd, List.append_nil] at hx
      exact hbefore x hx
  | cons e rest =>
    obtain ⟨hget, hl, hlen⟩ := split_of_drop hd
    by_cases he : e.bb &&& g.mask = 0#64
    · left
      have hmidnil : mid = [] := by
        cases mid with
        | nil => rfl
        | cons e0 mid' =>
          rw [hd] at hsplit
          simp only [List.cons_append, List.cons.injEq] at hsplit
          exact absurd he (hsplit.1 ▸ hmid e0 (by simp))
      subst hmidnil
      simp only [List.nil_append] at hsplit
      refine ⟨?_, ?_, ?_⟩
      · unfold next; simp only [hget]; rw [if_pos he]
      · unfold under; rw [hsplit, allUnder_eq_nil hpost]; simp
      · intro x hx
        rw [← List.take_append_drop g.index g.moves, hsplit] at hx
        rcases List.mem_append.mp hx with hx | hx
        · exact hbefore x hx
        · exact hpost x hx
    · right
      cases hp : e.promo with
      | false =>
        have hpi0 : g.promoIdx = 0 := by
          apply Classical.byContradiction
          intro hn
          obtain ⟨e1, h1, h2, _⟩ := hcur (by omega)
          rw [hget] at h1
          cases h1
          rw [hp] at h2; cases h2
        obtain ⟨hinv, hu, hm, hc⟩ := advance g hI e rest hd he _ rfl
        refine ⟨⟨e.sq, (e.bb &&& g.mask).toSq, none⟩, _, ?_, ⟨hinv, ?_, hm, hc⟩⟩
        · unfold next
          simp only [hget, if_neg he, hp, Bool.false_eq_true, if_false]
          obtain ⟨mv, pi, mk, ix⟩ := g
          simp only at hpi0
          subst hpi0
          split <;> rfl
        · rw [under_def g, hpi0, List.drop_zero, hu, hp]
          rfl
      | true =>
        by_cases h3 : g.promoIdx + 1 ≥ 4
        · have hpi3 : g.promoIdx = 3 := by omega
          obtain ⟨hinv, hu, hm, hc⟩ := advance g hI e rest hd he _ rfl
          refine ⟨⟨e.sq, (e.bb &&& g.mask).toSq, some .bishop⟩, _, ?_, ⟨hinv, ?_, hm, hc⟩⟩
          · unfold next
            simp only [hget, if_neg he, hp, if_true, if_pos h3]
            rw [hpi3]
            split <;> rfl
          · rw [under_def g, hpi3, hu, hp]
            simp [expand, promotionPieces]
        · have hstep := movesUnder_step e g.mask he
          refine ⟨⟨e.sq, (e.bb &&& g.mask).toSq, promotionPieces[g.promoIdx]?⟩,
            { g with promoIdx := g.promoIdx + 1 }, ?_, ⟨⟨?_, hbefore, ⟨mid, post, hsplit, hmid, hpost⟩, ?_⟩, ?_, rfl, rfl⟩⟩
          · unfold next
            simp only [hget, if_neg he, hp, if_true, if_neg h3]
          · show g.promoIdx + 1 < 4
            omega
          · intro _
            exact ⟨e, hget, hp, he⟩
          · unfold under
            show List.drop g.promoIdx (allUnder (List.drop g.index g.moves) g.mask) = _ ::
              List.drop (g.promoIdx + 1) (allUnder (List.drop g.index g.moves) g.mask)
            rw [hd, allUnder_cons, hstep, hp]
            have : g.promoIdx = 0 ∨ g.promoIdx = 1 ∨ g.promoIdx = 2 := by omega
            rcases this with h | h | h <;> rw [h] <;> simp [expand, promotionPieces]

theorem inv_next (g : MoveGen) (hI : Inv g) : Inv (next g).2 := by
  rcases next_cases g hI with ⟨h, _, _⟩ | ⟨m, g', h, hs⟩
  · rw [h]; exact hI
  · rw [h]; exact hs.inv

theorem next_spec (g : MoveGen) (hI : Inv g) (m : Move) (g' : MoveGen) (h : next g = (some m, g')) :
    under g = m :: under g' := by
  rcases next_cases g hI with ⟨h', _, _⟩ | ⟨m', g'', h', hs⟩
  · rw [h'] at h; cases h
  · rw [h'] at h; cases h; exact hs.under_eq

theorem next_none_iff (g : MoveGen) (hI : Inv g) : (next g).1 = none ↔ under g = [] := by
  rcases next_cases g hI with ⟨h', hu, _⟩ | ⟨m', g'', h', hs⟩
  · rw [h']; simp [hu]
  · rw [h', hs.under_eq]; simp

/-- `next` never changes the mask -/
theorem next_mask (g : MoveGen) (hI : Inv g) : (next g).2.mask = g.mask := by
  rcases next_cases g hI with ⟨h, _, _⟩ | ⟨m, g', h, hs⟩
  · rw [h]
  · rw [h]; exact hs.mask_eq

/-! ### `len` -/

theorem lenFrom_eq (mask : BB) (mid post : List Entry) (hmid : ∀ e ∈ mid, e.bb &&& mask ≠ 0#64)
    (hpost : ∀ e ∈ post, e.bb &&& mask = 0#64) :
    lenFrom mask (mid ++ post) = (allUnder (mid ++ post) mask).length := by
  induction mid with
  | nil =>
    rw [List.nil_append, allUnder_eq_nil hpost]
    cases post with
    | nil => rfl
    | cons e p =>
      unfold lenFrom
      rw [if_pos (hpost e (by simp))]; rfl
  | cons e mid' ih =>
    have ih' := ih (fun x hx => hmid x (by simp [hx]))
    rw [List.cons_append, allUnder_cons, List.length_append, ← ih', movesUnder_length]
    conv => lhs; unfold lenFrom
    rw [if_neg (hmid e (by simp))]

theorem len_exact (g : MoveGen) (hI : Inv g) : len g = (under g).length := by
  obtain ⟨_, _, ⟨mid, post, hsplit, hmid, hpost⟩, _⟩ := hI
  unfold len under
  rw [List.length_drop, hsplit, lenFrom_eq g.mask mid post hmid hpost]

/-! ### draining -/

theorem clearE_of_empty (A : BB) (e : Entry) (h : e.bb &&& A = 0#64) : clearE A e = e := by
  have : e.bb &&& ~~~A = e.bb := by
    apply BitVec.eq_of_getLsbD_eq
    intro i hi
    have hb : (e.bb &&& A).getLsbD i = false := by rw [h]; simp
    rw [BitVec.getLsbD_and] at hb
    rw [BitVec.getLsbD_and, BitVec.getLsbD_not]
    cases h1 : e.bb.getLsbD i <;> cases h2 : A.getLsbD i <;> simp_all
  unfold clearE
  rw [this]

theorem clearE_and (A : BB) (e : Entry) : (clearE A e).bb &&& A = 0#64 := by
  unfold clearE
  apply BitVec.eq_of_getLsbD_eq
  intro i hi
  simp only [BitVec.getLsbD_and, BitVec.getLsbD_not]
  cases h1 : e.bb.getLsbD i <;> cases h2 : A.getLsbD i <;> simp_all

theorem promoIdx_zero_of_empty (g : MoveGen) (hI : Inv g) (h : ∀ e ∈ g.moves, e.bb &&& g.mask = 0#64) :
    g.promoIdx = 0 := by
  apply Classical.byContradiction
  intro hn
  obtain ⟨e, h1, _, h3⟩ := hI.cursor (by omega)
  exact h3 (h e (List.mem_of_getElem? h1))

/-- the result of running `next` until it returns `None` -/
structure Drained (g : MoveGen) (r : List Move × MoveGen) : Prop where
  yields : r.1 = under g
  done : under r.2 = []
  inv : Inv r.2
  mask_eq : r.2.mask = g.mask
  promo0 : r.2.promoIdx = 0
  moves_eq : r.2.moves = g.moves.map (clearE g.mask)

theorem drainFuel_exact (n : Nat) : ∀ (g : MoveGen), Inv g → (under g).length < n →
    Drained g (drainFuel n g) := by
  induction n with
  | zero => intro g _ h; omega
  | succ n ih =>
    intro g hI hn
    rcases next_cases g hI with ⟨h, hu, hall⟩ | ⟨m, g', h, hs⟩
    · have : drainFuel (n + 1) g = ([], g) := by unfold drainFuel; rw [h]
      rw [this]
      refine ⟨hu.symm, hu, hI, rfl, promoIdx_zero_of_empty g hI hall, ?_⟩
      show g.moves = g.moves.map (clearE g.mask)
      conv => lhs; rw [← List.map_id g.moves]
      apply List.map_congr_left
      intro e he
      exact (clearE_of_empty g.mask e (hall e he)).symm
    · have : drainFuel (n + 1) g = (m :: (drainFuel n g').1, (drainFuel n g').2) := by
        conv => lhs; unfold drainFuel
        rw [h]
      rw [this]
      have hlen : (under g').length < n := by
        have := hs.under_eq
        rw [this, List.length_cons] at hn
        omega
      obtain ⟨h1, h2, h3, h4, h5, h6⟩ := ih g' hs.inv hlen
      refine ⟨?_, h2, h3, ?_, h5, ?_⟩
      · show m :: (drainFuel n g').1 = under g
        rw [h1, hs.under_eq]
      · show (drainFuel n g').2.mask = g.mask
        rw [h4, hs.mask_eq]
      · show (drainFuel n g').2.moves = g.moves.map (clearE g.mask)
        rw [h6, hs.mask_eq, hs.cleared]

theorem under_length_le (g : MoveGen) : (under g).length ≤ g.moves.length * 256 := by
  unfold under
  rw [List.length_drop]
  have h1 := allUnder_length_le (g.moves.drop g.index) g.mask
  rw [List.length_drop] at h1
  have : (g.moves.length - g.index) * 256 ≤ g.moves.length * 256 := Nat.mul_le_mul_right _ (by omega)
  omega

/-- the fuel of `drain` always suffices -/
theorem drain_exact (g : MoveGen) (hI : Inv g) : Drained g (drain g) := by
  unfold drain
  apply drainFuel_exact _ g hI
  have := under_length_le g
  omega

/-! ### the partition loop of `set_iterator_mask` -/

theorem swap_perm (l : List Entry) (i j : Nat) (ei ej : Entry) (hi : l[i]? = some ei)
    (hj : l[j]? = some ej) : ((l.set i ej).set j ei).Perm l := by
  obtain ⟨hil, hig⟩ := List.getElem?_eq_some_iff.mp hi
  obtain ⟨hjl, hjg⟩ := List.getElem?_eq_some_iff.mp hj
  have hjl' : j < (l.set i ej).length := by rw [List.length_set]; exact hjl
  have hj' : (l.set i ej)[j] = ej := by
    rw [List.getElem_set]
    split
    · rfl
    · exact hjg
  rw [List.perm_iff_count]
  intro a
  rw [List.count_set hjl', List.count_set hil, hj', hig]
  have hpos : (ei == a) = true → 0 < List.count a l := by
    intro h
    rw [List.count_pos_iff]
    have : ei = a := by simpa using h
    rw [← this, ← hig]; exact List.getElem_mem hil
  by_cases h1 : (ei == a) = true <;> by_cases h2 : (ej == a) = true <;>
    simp only [h1, h2, if_true, Bool.false_eq_true, if_false]
  · have := hpos h1; omega
  · have := hpos h1; omega
  · omega
  · omega

/-- after the scan, the first `i` entries have a move under the mask and no other entry has one; the
list is a rearrangement of the original -/
theorem partitionLoop_spec (mask : BB) (c : Nat) : ∀ (l : List Entry) (i j : Nat), i < j →
    j + c = l.length →
    (∀ k, k < i → ∀ e, l[k]? = some e → e.bb &&& mask ≠ 0#64) →
    (∀ k, i ≤ k → k < j → ∀ e, l[k]? = some e → e.bb &&& mask = 0#64) →
    (partitionLoop mask l i (List.range' j c)).1.Perm l ∧
    (∀ k, k < (partitionLoop mask l i (List.range' j c)).2 → ∀ e,
      (partitionLoop mask l i (List.range' j c)).1[k]? = some e → e.bb &&& mask ≠ 0#64) ∧
    (∀ k, (partitionLoop mask l i (List.range' j c)).2 ≤ k → ∀ e,
      (partitionLoop mask l i (List.range' j c)).1[k]? = some e → e.bb &&& mask = 0#64) := by
  induction c with
  | zero =>
    intro l i j hij hlen hA hB
    simp only [List.range'_zero, partitionLoop]
    refine ⟨List.Perm.refl _, hA, ?_⟩
    intro k hk e he
    have hkl : k < l.length := (List.getElem?_eq_some_iff.mp he).1
    exact hB k hk (by omega) e he
  | succ c ih =>
    intro l i j hij hlen hA hB
    have hjl : j < l.length := by omega
    have hil : i < l.length := by omega
    have hgj : l[j]? = some l[j] := List.getElem?_eq_getElem hjl
    have hgi : l[i]? = some l[i] := List.getElem?_eq_getElem hil
    have hunf : partitionLoop mask l i (List.range' j (c + 1)) =
        if l[j].bb &&& mask ≠ 0#64 then
          partitionLoop mask ((l.set i l[j]).set j l[i]) (i + 1) (List.range' (j + 1) c)
        else partitionLoop mask l i (List.range' (j + 1) c) := by
      rw [List.range'_succ]
      conv => lhs; unfold partitionLoop
      simp only [hgj, hgi]
    rw [hunf]
    by_cases hne : l[j].bb &&& mask ≠ 0#64
    · rw [if_pos hne]
      have hlen' : j + 1 + c = ((l.set i l[j]).set j l[i]).length := by
        rw [List.length_set, List.length_set]; omega
      have := ih ((l.set i l[j]).set j l[i]) (i + 1) (j + 1) (by omega) hlen' (by
        intro k hk e he
        rw [List.getElem?_set, List.getElem?_set] at he
        have hjk : ¬ j = k := by omega
        rw [if_neg hjk] at he
        by_cases hik : i = k
        · rw [if_pos hik, if_pos hil] at he
          cases he; exact hne
        · rw [if_neg hik] at he
          exact hA k (by omega) e he) (by
        intro k hk1 hk2 e he
        rw [List.getElem?_set, List.getElem?_set] at he
        by_cases hjk : j = k
        · rw [if_pos hjk, if_pos (by rw [List.length_set]; exact hjl)] at he
          cases he
          exact hB i (Nat.le_refl i) hij _ hgi
        · rw [if_neg hjk, if_neg (by omega)] at he
          exact hB k (by omega) (by omega) e he)
      refine ⟨this.1.trans (swap_perm l i j _ _ hgi hgj), this.2⟩
    · rw [if_neg hne]
      have hne' : l[j].bb &&& mask = 0#64 := Classical.not_not.mp hne
      exact ih l i (j + 1) (by omega) (by omega) hA (by
        intro k hk1 hk2 e he
        by_cases hjk : k = j
        · subst hjk
          rw [hgj] at he; cases he; exact hne'
        · exact hB k hk1 (by omega) e he)

theorem takeWhile_spec {α : Type} (p : α → Bool) (l : List α) :
    (∀ k, k < (l.takeWhile p).length → ∀ e, l[k]? = some e → p e = true) ∧
    (∀ e, l[(l.takeWhile p).length]? = some e → p e = false) ∧
    (l.takeWhile p).length ≤ l.length := by
  induction l with
  | nil => simp
  | cons a as ih =>
    by_cases hp : p a = true
    · rw [List.takeWhile_cons_of_pos hp]
      refine ⟨?_, ?_, ?_⟩
      · intro k hk e he
        cases k with
        | zero => simp at he; subst he; exact hp
        | succ k =>
          simp only [List.length_cons] at hk
          simp only [List.getElem?_cons_succ] at he
          exact ih.1 k (by omega) e he
      · intro e he
        simp only [List.length_cons, List.getElem?_cons_succ] at he
        exact ih.2.1 e he
      · simp only [List.length_cons]; have := ih.2.2; omega
    · rw [List.takeWhile_cons_of_neg hp]
      refine ⟨?_, ?_, ?_⟩
      · intro k hk; simp at hk
      · intro e he
        simp at he; subst he
        simpa using hp
      · simp

theorem setIteratorMask_eq (g : MoveGen) (mask : BB) :
    setIteratorMask g mask =
      { g with mask := mask, index := 0,
               moves := (partitionLoop mask g.moves (g.moves.takeWhile fun e => e.bb &&& mask ≠ 0#64).length
                  ((List.range g.moves.length).drop
                    ((g.moves.takeWhile fun e => e.bb &&& mask ≠ 0#64).length + 1))).1 } := rfl

/-- `set_iterator_mask` rearranges the entries so that those with a move under the new mask come first -/
theorem setIteratorMask_spec (g : MoveGen) (mask : BB) :
    (setIteratorMask g mask).moves.Perm g.moves ∧ (setIteratorMask g mask).mask = mask ∧
    (setIteratorMask g mask).index = 0 ∧ (setIteratorMask g mask).promoIdx = g.promoIdx ∧
    ∃ k, (∀ e ∈ (setIteratorMask g mask).moves.take k, e.bb &&& mask ≠ 0#64) ∧
         (∀ e ∈ (setIteratorMask g mask).moves.drop k, e.bb &&& mask = 0#64) := by
  rw [setIteratorMask_eq]
  refine ⟨?_, rfl, rfl, rfl, ?_⟩ <;>
  simp only []
  all_goals
    obtain ⟨hA, hB, hle⟩ := takeWhile_spec (fun e : Entry => decide (e.bb &&& mask ≠ 0#64)) g.moves
    generalize hi : (g.moves.takeWhile fun e => decide (e.bb &&& mask ≠ 0#64)).length = i at hA hB hle ⊢
    have hspec : ∀ (r : List Entry × Nat),
        r = partitionLoop mask g.moves i ((List.range g.moves.length).drop (i + 1)) →
        r.1.Perm g.moves ∧
        (∀ k, k < r.2 → ∀ e, r.1[k]? = some e → e.bb &&& mask ≠ 0#64) ∧
        (∀ k, r.2 ≤ k → ∀ e, r.1[k]? = some e → e.bb &&& mask = 0#64) := by
      intro r hr
      by_cases hlt : i < g.moves.length
      · have hrange : (List.range g.moves.length).drop (i + 1) =
            List.range' (i + 1) (g.moves.length - (i + 1)) := by
          rw [List.range_eq_range', List.drop_range']; simp
        rw [hrange] at hr
        subst hr
        exact partitionLoop_spec mask _ g.moves i (i + 1) (by omega) (by omega)
          (fun k hk e he => by simpa using hA k hk e he)
          (fun k hk1 hk2 e he => by
            have : k = i := by omega
            subst this
            simpa using hB e he)
      · have hrange : (List.range g.moves.length).drop (i + 1) = [] := by
          rw [List.drop_eq_nil_iff, List.length_range]; omega
        rw [hrange] at hr
        subst hr
        simp only [partitionLoop]
        refine ⟨List.Perm.refl _, fun k hk e he => by simpa using hA k hk e he, ?_⟩
        intro k hk e he
        have := (List.getElem?_eq_some_iff.mp he).1
        omega
  · exact (hspec _ rfl).1
  · obtain ⟨_, h2, h3⟩ := hspec _ rfl
    refine ⟨(partitionLoop mask g.moves i ((List.range g.moves.length).drop (i + 1))).2, ?_, ?_⟩
    · intro e he
      obtain ⟨k, hk, hke⟩ := List.mem_take_iff_getElem.mp he
      exact h2 k (by omega) e (by rw [← hke]; exact List.getElem?_eq_getElem _)
    · intro e he
      obtain ⟨k, hk, hke⟩ := List.mem_drop_iff_getElem.mp he
      exact h3 _ (Nat.le_add_right _ k) e (by rw [← hke]; exact List.getElem?_eq_getElem _)

/-! ### permutation helpers -/

theorem flatMap_perm_pointwise {α β : Type} (l : List α) (f g : α → List β)
    (h : ∀ a ∈ l, (f a).Perm (g a)) : (l.flatMap f).Perm (l.flatMap g) := by
  induction l with
  | nil => exact List.Perm.refl _
  | cons a as ih =>
    rw [List.flatMap_cons, List.flatMap_cons]
    exact (h a (by simp)).append (ih (fun x hx => h x (by simp [hx])))

theorem flatMap_append_fn_perm {α β : Type} (l : List α) (f g : α → List β) :
    (l.flatMap (fun a => f a ++ g a)).Perm (l.flatMap f ++ l.flatMap g) := by
  induction l with
  | nil => exact List.Perm.refl _
  | cons a as ih =>
    simp only [List.flatMap_cons, List.append_assoc]
    apply List.Perm.append_left
    exact (List.Perm.append_left _ ih).trans (List.perm_append_comm_assoc _ _ _)

theorem allUnder_perm {l l' : List Entry} (h : l.Perm l') (mask : BB) :
    (allUnder l mask).Perm (allUnder l' mask) := List.Perm.flatMap_right _ h

/-! ### changing the mask -/

theorem under_eq_allUnder (g : MoveGen) (hI : Inv g) (h0 : g.promoIdx = 0) :
    under g = allUnder g.moves g.mask := by
  unfold under
  rw [h0, List.drop_zero]
  conv => rhs; rw [← List.take_append_drop g.index g.moves, allUnder_append]
  rw [allUnder_eq_nil hI.before, List.nil_append]

theorem inv_setMask (g : MoveGen) (h0 : g.promoIdx = 0) (mask : BB) : Inv (setIteratorMask g mask) := by
  obtain ⟨_, hm, hi, hp, k, hk1, hk2⟩ := setIteratorMask_spec g mask
  refine ⟨by rw [hp, h0]; decide, ?_, ?_, ?_⟩
  · rw [hi]; intro e he; simp at he
  · rw [hi, hm, List.drop_zero]
    exact ⟨_, _, (List.take_append_drop k _).symm, hk1, hk2⟩
  · rw [hp, h0]; intro h; exact absurd h (by decide)

theorem under_setMask (g : MoveGen) (h0 : g.promoIdx = 0) (mask : BB) :
    (under (setIteratorMask g mask)).Perm (allUnder g.moves mask) := by
  obtain ⟨hperm, hm, hi, hp, _⟩ := setIteratorMask_spec g mask
  unfold under
  rw [hp, h0, hi, hm, List.drop_zero, List.drop_zero]
  exact allUnder_perm hperm mask

theorem movesUnder_clearE (e : Entry) (A B : BB) :
    movesUnder (clearE A e) B = movesUnder e (B &&& ~~~A) := by
  apply movesUnder_congr (e := clearE A e) (e' := e) rfl rfl
  show (e.bb &&& ~~~A) &&& B = e.bb &&& (B &&& ~~~A)
  rw [BitVec.and_assoc, BitVec.and_comm (~~~A) B]

theorem allUnder_map_clearE (l : List Entry) (A B : BB) :
    allUnder (l.map (clearE A)) B = allUnder l (B &&& ~~~A) := by
  unfold allUnder
  rw [List.flatMap_map]
  simp only [movesUnder_clearE]

theorem sqsOf_union_perm (bb A B : BB) :
    (sqsOf (bb &&& (A ||| B))).Perm (sqsOf (bb &&& A) ++ sqsOf (bb &&& (B &&& ~~~A))) := by
  have h := List.filter_append_perm (fun s : Sq => A.getLsbD s.val) (sqsOf (bb &&& (A ||| B)))
  have h1 : (sqsOf (bb &&& (A ||| B))).filter (fun s : Sq => A.getLsbD s.val) = sqsOf (bb &&& A) := by
    unfold sqsOf
    rw [List.filter_filter]
    apply filter_congr_mem
    intro s _
    simp only [BitVec.getLsbD_and, BitVec.getLsbD_or]
    cases bb.getLsbD s.val <;> cases A.getLsbD s.val <;> cases B.getLsbD s.val <;> rfl
  have h2 : (sqsOf (bb &&& (A ||| B))).filter (fun s : Sq => !A.getLsbD s.val) =
      sqsOf (bb &&& (B &&& ~~~A)) := by
    unfold sqsOf
    rw [List.filter_filter]
    apply filter_congr_mem
    intro s _
    have := s.isLt
    simp only [BitVec.getLsbD_and, BitVec.getLsbD_or, BitVec.getLsbD_not, this, decide_true, Bool.true_and]
    cases bb.getLsbD s.val <;> cases A.getLsbD s.val <;> cases B.getLsbD s.val <;> rfl
  rw [h1, h2] at h
  exact h.symm

theorem movesUnder_union_perm (e : Entry) (A B : BB) :
    (movesUnder e (A ||| B)).Perm (movesUnder e A ++ movesUnder e (B &&& ~~~A)) := by
  unfold movesUnder
  rw [← List.flatMap_append]
  exact List.Perm.flatMap_right _ (sqsOf_union_perm e.bb A B)

theorem allUnder_union_perm (l : List Entry) (A B : BB) :
    (allUnder l (A ||| B)).Perm (allUnder l A ++ allUnder l (B &&& ~~~A)) := by
  unfold allUnder
  exact (flatMap_perm_pointwise l _ _ (fun e _ => movesUnder_union_perm e A B)).trans
    (flatMap_append_fn_perm l _ _)

/-- drain under the current mask `A`, switch to mask `B`, drain again -/
theorem mask_partition (g : MoveGen) (hI : Inv g) (B : BB) :
    (drain g).1 = under g ∧
    (drain (setIteratorMask (drain g).2 B)).1.Perm (allUnder g.moves (B &&& ~~~g.mask)) ∧
    Inv (drain (setIteratorMask (drain g).2 B)).2 ∧
    under (drain (setIteratorMask (drain g).2 B)).2 = [] := by
  obtain ⟨h1, _, _, _, h5, h6⟩ := drain_exact g hI
  have hI2 := inv_setMask (drain g).2 h5 B
  obtain ⟨k1, k2, k3, _, _, _⟩ := drain_exact _ hI2
  refine ⟨h1, ?_, k3, k2⟩
  rw [k1]
  have := under_setMask (drain g).2 h5 B
  rw [h6, allUnder_map_clearE] at this
  exact this

/-- … in total every move into `A ∪ B` exactly once -/
theorem mask_partition_total (g : MoveGen) (hI : Inv g) (h0 : g.promoIdx = 0) (B : BB) :
    ((drain g).1 ++ (drain (setIteratorMask (drain g).2 B)).1).Perm (allUnder g.moves (g.mask ||| B)) := by
  obtain ⟨h1, h2, _, _⟩ := mask_partition g hI B
  rw [h1, under_eq_allUnder g hI h0]
  exact ((List.Perm.refl _).append h2).trans (allUnder_union_perm g.moves g.mask B).symm

/-! ### removals -/

theorem mem_movesUnder {e : Entry} {mask : BB} {x : Move} (h : x ∈ movesUnder e mask) :
    x.src = e.sq ∧ (e.bb &&& mask).getLsbD x.dst.val = true := by
  unfold movesUnder at h
  obtain ⟨d, hd, hx⟩ := List.mem_flatMap.mp h
  obtain ⟨h1, h2⟩ := mem_expand hx
  exact ⟨h1, by rw [h2]; exact (mem_sqsOf _ _).mp hd⟩

theorem filter_flatMap_of_all {α β : Type} (l : List α) (f : α → List β) (p : β → Bool) (q : α → Bool)
    (h : ∀ a, ∀ b ∈ f a, p b = q a) : (l.flatMap f).filter p = (l.filter q).flatMap f := by
  induction l with
  | nil => rfl
  | cons a as ih =>
    rw [List.flatMap_cons, List.filter_append, ih, List.filter_cons]
    cases hq : q a with
    | true =>
      have : (f a).filter p = f a := List.filter_eq_self.mpr (fun b hb => by rw [h a b hb, hq])
      rw [this]; simp
    | false =>
      have : (f a).filter p = [] := List.filter_eq_nil_iff.mpr (fun b hb => by rw [h a b hb, hq]; simp)
      rw [this]; simp

/-- the moves of an entry that avoid the squares of `r` are the moves of the entry with `r` cleared -/
theorem movesUnder_filter_dst (e : Entry) (mask r : BB) :
    (movesUnder e mask).filter (fun x => !r.getLsbD x.dst.val) = movesUnder (clearE r e) mask := by
  rw [movesUnder_clearE]
  unfold movesUnder
  rw [filter_flatMap_of_all _ _ _ (fun d : Sq => !r.getLsbD d.val)
    (fun d x hx => by rw [(mem_expand hx).2])]
  congr 1
  unfold sqsOf
  rw [List.filter_filter]
  apply filter_congr_mem
  intro s _
  have := s.isLt
  simp only [BitVec.getLsbD_and, BitVec.getLsbD_not, this, decide_true, Bool.true_and]
  cases e.bb.getLsbD s.val <;> cases mask.getLsbD s.val <;> cases r.getLsbD s.val <;> rfl

theorem allUnder_filter_dst (l : List Entry) (mask r : BB) :
    (allUnder l mask).filter (fun x => !r.getLsbD x.dst.val) = allUnder (l.map (clearE r)) mask := by
  unfold allUnder
  rw [List.filter_flatMap, List.flatMap_map]
  simp only [movesUnder_filter_dst]

theorem removeMask_eq (g : MoveGen) (r : BB) :
    removeMask g r = setIteratorMask { g with moves := g.moves.map (clearE r) } g.mask := rfl

theorem inv_removeMask (g : MoveGen) (h0 : g.promoIdx = 0) (r : BB) : Inv (removeMask g r) := by
  rw [removeMask_eq]; exact inv_setMask _ (by exact h0) _

theorem removeMask_moves_perm (g : MoveGen) (r : BB) :
    (removeMask g r).moves.Perm (g.moves.map (clearE r)) := by
  rw [removeMask_eq]; exact (setIteratorMask_spec _ _).1

theorem removeMask_mask (g : MoveGen) (r : BB) : (removeMask g r).mask = g.mask := by
  rw [removeMask_eq]; exact (setIteratorMask_spec _ _).2.1

theorem removeMask_promoIdx (g : MoveGen) (r : BB) : (removeMask g r).promoIdx = g.promoIdx := by
  rw [removeMask_eq]; exact (setIteratorMask_spec _ _).2.2.2.1

theorem under_removeMask (g : MoveGen) (hI : Inv g) (h0 : g.promoIdx = 0) (r : BB) :
    (under (removeMask g r)).Perm ((under g).filter fun x => !r.getLsbD x.dst.val) := by
  rw [under_eq_allUnder g hI h0, allUnder_filter_dst, removeMask_eq]
  exact under_setMask _ (by exact h0) _

/-- the entry map of `remove_move` -/
def rmEntry (m : Move) (e : Entry) : Entry :=
  if e.sq = m.src then { e with bb := e.bb &&& ~~~(BB.ofSq m.dst) } else e

theorem removeMove_eq (g : MoveGen) (m : Move) :
    removeMove g m = (setIteratorMask { g with moves := g.moves.map (rmEntry m) } g.mask,
      g.moves.any fun e => e.sq = m.src) := rfl

theorem movesUnder_filter_move (e : Entry) (mask : BB) (m : Move) :
    (movesUnder e mask).filter (fun x => !(decide (x.src = m.src) && decide (x.dst = m.dst))) =
      movesUnder (rmEntry m e) mask := by
  unfold rmEntry
  by_cases hs : e.sq = m.src
  · rw [if_pos hs]
    have := movesUnder_filter_dst e mask (BB.ofSq m.dst)
    unfold clearE at this
    rw [← this]
    apply filter_congr_mem
    intro x hx
    have hsrc := (mem_movesUnder hx).1
    rw [BB.getLsbD_ofSq, hsrc, hs]
    have : (x.dst.val = m.dst.val) ↔ (x.dst = m.dst) := ⟨Fin.ext, fun h => by rw [h]⟩
    simp [this]
  · rw [if_neg hs]
    rw [List.filter_eq_self]
    intro x hx
    have hsrc := (mem_movesUnder hx).1
    have : ¬ x.src = m.src := by rw [hsrc]; exact hs
    simp [this]

theorem allUnder_filter_move (l : List Entry) (mask : BB) (m : Move) :
    (allUnder l mask).filter (fun x => !(decide (x.src = m.src) && decide (x.dst = m.dst))) =
      allUnder (l.map (rmEntry m)) mask := by
  unfold allUnder
  rw [List.filter_flatMap, List.flatMap_map]
  simp only [movesUnder_filter_move]

theorem inv_removeMove (g : MoveGen) (h0 : g.promoIdx = 0) (m : Move) : Inv (removeMove g m).1 := by
  rw [removeMove_eq]; exact inv_setMask _ (by exact h0) _

theorem removeMove_moves_perm (g : MoveGen) (m : Move) :
    (removeMove g m).1.moves.Perm (g.moves.map (rmEntry m)) := by
  rw [removeMove_eq]; exact (setIteratorMask_spec _ _).1

theorem removeMove_mask (g : MoveGen) (m : Move) : (removeMove g m).1.mask = g.mask := by
  rw [removeMove_eq]; exact (setIteratorMask_spec _ _).2.1

theorem removeMove_promoIdx (g : MoveGen) (m : Move) : (removeMove g m).1.promoIdx = g.promoIdx := by
  rw [removeMove_eq]; exact (setIteratorMask_spec _ _).2.2.2.1

theorem under_removeMove (g : MoveGen) (hI : Inv g) (h0 : g.promoIdx = 0) (m : Move) :
    (under (removeMove g m).1).Perm
      ((under g).filter fun x => !(decide (x.src = m.src) && decide (x.dst = m.dst))) := by
  rw [under_eq_allUnder g hI h0, allUnder_filter_move, removeMove_eq]
  exact under_setMask _ (by exact h0) _

theorem removeMove_flag (g : MoveGen) (m : Move) :
    (removeMove g m).2 = true ↔ ∃ e ∈ g.moves, e.sq = m.src := by
  rw [removeMove_eq]
  simp

/-! ### fresh generators -/

theorem inv_fresh (l : List Entry) (h : ∀ e ∈ l, e.bb ≠ 0#64) :
    Inv { moves := l, promoIdx := 0, mask := ~~~0#64, index := 0 } := by
  refine ⟨by simp, by intro e he; simp at he, ⟨l, [], by simp, ?_, by intro e he; cases he⟩,
    by intro h; simp at h⟩
  intro e he
  have : e.bb &&& ~~~0#64 = e.bb := by
    apply BitVec.eq_of_getLsbD_eq
    intro i hi
    simp only [BitVec.getLsbD_and, BitVec.getLsbD_not, BitVec.getLsbD_zero, hi]
    simp
  show e.bb &&& ~~~0#64 ≠ 0#64
  rw [this]; exact h e he

theorem ofSq_ne_zero (s : Sq) : BB.ofSq s ≠ 0#64 := by
  intro h
  have := BB.getLsbD_ofSq s s.val
  rw [h] at this
  simp at this

theorem pushIf_nonempty {l : List Entry} (h : ∀ e ∈ l, e.bb ≠ 0#64) (e : Entry) :
    ∀ x ∈ pushIf l e, x.bb ≠ 0#64 := by
  unfold pushIf
  split
  · intro x hx
    rcases List.mem_append.mp hx with hx | hx
    · exact h x hx
    · simp only [List.mem_singleton] at hx; subst hx; assumption
  · exact h

theorem foldl_nonempty {α : Type} (f : List Entry → α → List Entry)
    (hf : ∀ l a, (∀ e ∈ l, e.bb ≠ 0#64) → ∀ e ∈ f l a, e.bb ≠ 0#64) (xs : List α) :
    ∀ l, (∀ e ∈ l, e.bb ≠ 0#64) → ∀ e ∈ xs.foldl f l, e.bb ≠ 0#64 := by
  induction xs with
  | nil => intro l h; exact h
  | cons a as ih => intro l h; exact ih _ (hf l a h)

theorem legalsGeneric_nonempty (T : Tables) (p : Piece) (c : Bool) (l : List Entry) (b : Board) (mask : BB)
    (h : ∀ e ∈ l, e.bb ≠ 0#64) : ∀ e ∈ legalsGeneric T p c l b mask, e.bb ≠ 0#64 := by
  unfold legalsGeneric
  simp only []
  split
  · exact foldl_nonempty _ (fun l a hl => pushIf_nonempty hl _) _ _
      (foldl_nonempty _ (fun l a hl => pushIf_nonempty hl _) _ _ h)
  · exact foldl_nonempty _ (fun l a hl => pushIf_nonempty hl _) _ _ h

theorem legalsKnight_nonempty (T : Tables) (c : Bool) (l : List Entry) (b : Board) (mask : BB)
    (h : ∀ e ∈ l, e.bb ≠ 0#64) : ∀ e ∈ legalsKnight T c l b mask, e.bb ≠ 0#64 := by
  unfold legalsKnight
  simp only []
  split <;> exact foldl_nonempty _ (fun l a hl => pushIf_nonempty hl _) _ _ h

theorem legalsKing_nonempty (T : Tables) (c : Bool) (l : List Entry) (b : Board) (mask : BB)
    (h : ∀ e ∈ l, e.bb ≠ 0#64) : ∀ e ∈ legalsKing T c l b mask, e.bb ≠ 0#64 := by
  unfold legalsKing
  exact pushIf_nonempty h _

theorem legalsPawn_nonempty (T : Tables) (c : Bool) (l : List Entry) (b : Board) (mask : BB)
    (h : ∀ e ∈ l, e.bb ≠ 0#64) : ∀ e ∈ legalsPawn T c l b mask, e.bb ≠ 0#64 := by
  unfold legalsPawn
  simp only []
  have h1 := foldl_nonempty _ (fun l a hl => pushIf_nonempty hl
      ⟨a, pseudoLegals T .pawn a b.stm b.combined mask &&& checkMask T b c,
        a.getRank = b.stm.seventhRank⟩)
      ((b.pawns &&& b.colorCombined b.stm) &&& ~~~b.pinned).toList l h
  split
  · split
    · exact foldl_nonempty _ (fun l a hl => pushIf_nonempty hl _) _ _ h1
    · exact h1
  · apply foldl_nonempty
    · intro l a hl
      split
      · intro x hx
        rcases List.mem_append.mp hx with hx | hx
        · exact hl x hx
        · simp only [List.mem_singleton] at hx; subst hx; exact ofSq_ne_zero _
      · exact hl
    · split
      · exact foldl_nonempty _ (fun l a hl => pushIf_nonempty hl _) _ _ h1
      · exact h1

theorem enumerate_nonempty (T : Tables) (b : Board) : ∀ e ∈ enumerate T b, e.bb ≠ 0#64 := by
  have h0 : ∀ e ∈ ([] : List Entry), e.bb ≠ 0#64 := by intro e he; cases he
  unfold enumerate
  simp only []
  split
  · exact legalsKing_nonempty _ _ _ _ _ (legalsGeneric_nonempty _ _ _ _ _ _
      (legalsGeneric_nonempty _ _ _ _ _ _ (legalsGeneric_nonempty _ _ _ _ _ _
        (legalsKnight_nonempty _ _ _ _ _ (legalsPawn_nonempty _ _ _ _ _ h0)))))
  · split
    · exact legalsKing_nonempty _ _ _ _ _ (legalsGeneric_nonempty _ _ _ _ _ _
        (legalsGeneric_nonempty _ _ _ _ _ _ (legalsGeneric_nonempty _ _ _ _ _ _
          (legalsKnight_nonempty _ _ _ _ _ (legalsPawn_nonempty _ _ _ _ _ h0)))))
    · exact legalsKing_nonempty _ _ _ _ _ h0

theorem inv_newLegal (T : Tables) (b : Board) : Inv (newLegal T b) :=
  inv_fresh _ (enumerate_nonempty T b)

/-! ### a sequence of masks, each drained -/

/-- for each mask in turn: `set_iterator_mask`, then call `next` until `None`; the yields per mask -/
def runMasks : MoveGen → List BB → List (List Move) × MoveGen
  | g, [] => ([], g)
  | g, B :: Bs =>
    ((drain (setIteratorMask g B)).1 :: (runMasks (drain (setIteratorMask g B)).2 Bs).1,
     (runMasks (drain (setIteratorMask g B)).2 Bs).2)

/-- what a sequence of masks must yield from the entries `l` when the squares `seen` are used up:
each mask gets the moves onto its squares not covered by an earlier mask -/
def seqExpected (l : List Entry) : BB → List BB → List (List Move)
  | _, [] => []
  | seen, B :: Bs => allUnder l (B &&& ~~~seen) :: seqExpected l (seen ||| B) Bs

/-- position-wise permutation of two lists of move lists -/
def PermAll : List (List Move) → List (List Move) → Prop
  | [], [] => True
  | a :: as, b :: bs => a.Perm b ∧ PermAll as bs
  | _, _ => False

theorem PermAll.flatten : ∀ {a b : List (List Move)}, PermAll a b → a.flatten.Perm b.flatten
  | [], [], _ => List.Perm.refl _
  | _ :: _, _ :: _, h => by
    simp only [List.flatten_cons]
    exact h.1.append (PermAll.flatten h.2)
  | [], _ :: _, h => h.elim
  | _ :: _, [], h => h.elim

theorem clearE_clearE (A B : BB) (e : Entry) : clearE B (clearE A e) = clearE (A ||| B) e := by
  unfold clearE
  have : e.bb &&& ~~~A &&& ~~~B = e.bb &&& ~~~(A ||| B) := by
    apply BitVec.eq_of_getLsbD_eq
    intro i hi
    simp only [BitVec.getLsbD_and, BitVec.getLsbD_not, BitVec.getLsbD_or, hi, decide_true, Bool.true_and]
    cases e.bb.getLsbD i <;> cases A.getLsbD i <;> cases B.getLsbD i <;> rfl
  simp only [this]

theorem runMasks_spec : ∀ (Bs : List BB) (g : MoveGen) (l0 : List Entry) (seen : BB),
    g.promoIdx = 0 → g.moves.Perm (l0.map (clearE seen)) →
    PermAll (runMasks g Bs).1 (seqExpected l0 seen Bs) ∧ (runMasks g Bs).2.promoIdx = 0 ∧
    (runMasks g Bs).2.moves.Perm (l0.map (clearE (Bs.foldl (· ||| ·) seen))) := by
  intro Bs
  induction Bs with
  | nil => intro g l0 seen h0 hp; exact ⟨trivial, h0, hp⟩
  | cons B Bs ih =>
    intro g l0 seen h0 hp
    have hI := inv_setMask g h0 B
    obtain ⟨d1, _, _, _, d5, d6⟩ := drain_exact _ hI
    have hmask : (setIteratorMask g B).mask = B := (setIteratorMask_spec g B).2.1
    have hperm : (setIteratorMask g B).moves.Perm g.moves := (setIteratorMask_spec g B).1
    have hmoves : (drain (setIteratorMask g B)).2.moves.Perm (l0.map (clearE (seen ||| B))) := by
      rw [d6, hmask]
      have := ((hperm.trans hp).map (clearE B))
      rw [List.map_map] at this
      have heq : (clearE B ∘ clearE seen) = clearE (seen ||| B) := by
        funext e; exact clearE_clearE seen B e
      rw [heq] at this
      exact this
    obtain ⟨i1, i2, i3⟩ := ih (drain (setIteratorMask g B)).2 l0 (seen ||| B) d5 hmoves
    refine ⟨⟨?_, i1⟩, i2, i3⟩
    show (drain (setIteratorMask g B)).1.Perm (allUnder l0 (B &&& ~~~seen))
    rw [d1, ← allUnder_map_clearE]
    exact (under_setMask g h0 B).trans (allUnder_perm hp B)

theorem seqExpected_flatten (l : List Entry) : ∀ (Bs : List BB) (seen : BB),
    (seqExpected l seen Bs).flatten.Perm (allUnder l (Bs.foldr (· ||| ·) 0#64 &&& ~~~seen)) := by
  intro Bs
  induction Bs with
  | nil =>
    intro seen
    have : (0#64 &&& ~~~seen) = 0#64 := by simp
    simp only [seqExpected, List.flatten_nil, List.foldr_nil, this]
    rw [allUnder_eq_nil (fun e _ => by simp)]
  | cons B Bs ih =>
    intro seen
    simp only [seqExpected, List.flatten_cons, List.foldr_cons]
    have h := allUnder_union_perm l (B &&& ~~~seen) (Bs.foldr (· ||| ·) 0#64 &&& ~~~seen)
    have e1 : (B &&& ~~~seen ||| Bs.foldr (· ||| ·) 0#64 &&& ~~~seen) =
        (B ||| Bs.foldr (· ||| ·) 0#64) &&& ~~~seen := by
      apply BitVec.eq_of_getLsbD_eq
      intro i hi
      simp only [BitVec.getLsbD_and, BitVec.getLsbD_not, BitVec.getLsbD_or, hi, decide_true, Bool.true_and]
      cases B.getLsbD i <;> cases seen.getLsbD i <;> cases (Bs.foldr (· ||| ·) 0#64).getLsbD i <;> rfl
    have e2 : (Bs.foldr (· ||| ·) 0#64 &&& ~~~seen &&& ~~~(B &&& ~~~seen)) =
        Bs.foldr (· ||| ·) 0#64 &&& ~~~(seen ||| B) := by
      apply BitVec.eq_of_getLsbD_eq
      intro i hi
      simp only [BitVec.getLsbD_and, BitVec.getLsbD_not, BitVec.getLsbD_or, hi, decide_true, Bool.true_and]
      cases B.getLsbD i <;> cases seen.getLsbD i <;> cases (Bs.foldr (· ||| ·) 0#64).getLsbD i <;> rfl
    rw [e1, e2] at h
    exact ((List.Perm.refl _).append (ih (seen ||| B))).trans h.symm

theorem clearE_zero (e : Entry) : clearE 0#64 e = e := clearE_of_empty _ _ (by simp)

/-- a generator (not in the middle of a promotion) run through any sequence of masks: the yields of
the `k`-th mask are the moves onto its squares not covered by earlier masks, and in total every
move onto the union of the masks is yielded exactly once -/
theorem runMasks_total (g : MoveGen) (h0 : g.promoIdx = 0) (Bs : List BB) :
    PermAll (runMasks g Bs).1 (seqExpected g.moves 0#64 Bs) ∧
    (runMasks g Bs).1.flatten.Perm (allUnder g.moves (Bs.foldr (· ||| ·) 0#64)) := by
  have hp : g.moves.Perm (g.moves.map (clearE 0#64)) := by
    have : g.moves.map (clearE 0#64) = g.moves := by
      conv => rhs; rw [← List.map_id g.moves]
      exact List.map_congr_left (fun e _ => clearE_zero e)
    rw [this]
  obtain ⟨h1, _, _⟩ := runMasks_spec Bs g g.moves 0#64 h0 hp
  refine ⟨h1, (PermAll.flatten h1).trans ?_⟩
  have := seqExpected_flatten g.moves Bs 0#64
  have e : (Bs.foldr (· ||| ·) 0#64 &&& ~~~0#64) = Bs.foldr (· ||| ·) 0#64 := by
    apply BitVec.eq_of_getLsbD_eq
    intro i hi
    simp only [BitVec.getLsbD_and, BitVec.getLsbD_not, BitVec.getLsbD_zero, hi]
    simp
  rw [e] at this
  exact this

/-! ### reachable states -/

/-- the states of a generator built from the entry list of some board (or any list of non-empty
entries) by the operations in scope -/
inductive Reach : MoveGen → Prop
  | fresh (l : List Entry) : (∀ e ∈ l, e.bb ≠ 0#64) → Reach { moves := l, promoIdx := 0, mask := ~~~0#64, index := 0 }
  | next (g : MoveGen) : Reach g → Reach (next g).2
  | setMask (g : MoveGen) (m : BB) : Reach g → g.promoIdx = 0 → Reach (setIteratorMask g m)
  | removeMask (g : MoveGen) (r : BB) : Reach g → g.promoIdx = 0 → Reach (removeMask g r)
  | removeMove (g : MoveGen) (m : Move) : Reach g → g.promoIdx = 0 → Reach (removeMove g m).1

theorem reach_inv {g : MoveGen} (h : Reach g) : Inv g := by
  induction h with
  | fresh l hl => exact inv_fresh l hl
  | next g _ ih => exact inv_next g ih
  | setMask g m _ h0 _ => exact inv_setMask g h0 m
  | removeMask g r _ h0 _ => exact inv_removeMask g h0 r
  | removeMove g m _ h0 _ => exact inv_removeMove g h0 m

/-! ### the invariant by indices (the wording of DESIGN Appendix C) -/

def InvIdx (g : MoveGen) : Prop :=
  g.promoIdx < 4 ∧
  (∀ i, i < g.index → ∀ e, g.moves[i]? = some e → e.bb &&& g.mask = 0#64) ∧
  (∃ k, g.index ≤ k ∧
    (∀ i, g.index ≤ i → i < k → ∃ e, g.moves[i]? = some e ∧ e.bb &&& g.mask ≠ 0#64) ∧
    (∀ i, k ≤ i → ∀ e, g.moves[i]? = some e → e.bb &&& g.mask = 0#64)) ∧
  (0 < g.promoIdx → ∃ e, g.moves[g.index]? = some e ∧ e.promo = true ∧ e.bb &&& g.mask ≠ 0#64)

theorem inv_iff_invIdx (g : MoveGen) : Inv g ↔ InvIdx g := by
  constructor
  · rintro ⟨h1, h2, ⟨mid, post, hs, hmid, hpost⟩, h4⟩
    refine ⟨h1, ?_, ⟨g.index + mid.length, by omega, ?_, ?_⟩, h4⟩
    · intro i hi e he
      apply h2 e
      rw [List.mem_take_iff_getElem]
      obtain ⟨hl, hg⟩ := List.getElem?_eq_some_iff.mp he
      exact ⟨i, by omega, hg⟩
    · intro i hi1 hi2
      have hlt : i - g.index < mid.length := by omega
      have : g.moves[i]? = some mid[i - g.index] := by
        have h := List.getElem?_drop (xs := g.moves) (i := g.index) (j := i - g.index)
        rw [hs, List.getElem?_append_left hlt, List.getElem?_eq_getElem hlt] at h
        rw [show g.index + (i - g.index) = i by omega] at h
        exact h.symm
      exact ⟨_, this, hmid _ (List.getElem_mem hlt)⟩
    · intro i hi e he
      have h := List.getElem?_drop (xs := g.moves) (i := g.index) (j := i - g.index)
      rw [hs, List.getElem?_append_right (by omega), show g.index + (i - g.index) = i by omega, he] at h
      exact hpost e (List.mem_of_getElem? h)
  · rintro ⟨h1, h2, ⟨k, hk, hA, hB⟩, h4⟩
    refine ⟨h1, ?_, ⟨(g.moves.drop g.index).take (k - g.index), (g.moves.drop g.index).drop (k - g.index),
      (List.take_append_drop _ _).symm, ?_, ?_⟩, h4⟩
    · intro e he
      obtain ⟨i, hi, hg⟩ := List.mem_take_iff_getElem.mp he
      exact h2 i (by omega) e (by rw [← hg]; exact List.getElem?_eq_getElem _)
    · intro e he
      obtain ⟨j, hj, hg⟩ := List.mem_take_iff_getElem.mp he
      rw [List.getElem_drop] at hg
      obtain ⟨e', he', hne⟩ := hA (g.index + j) (by omega) (by omega)
      have : g.moves[g.index + j]? = some e := by rw [← hg]; exact List.getElem?_eq_getElem _
      rw [this] at he'; cases he'; exact hne
    · intro e he
      obtain ⟨j, hj, hg⟩ := List.mem_drop_iff_getElem.mp he
      rw [List.getElem_drop] at hg
      exact hB (g.index + (k - g.index + j)) (by omega) e (by rw [← hg]; exact List.getElem?_eq_getElem _)

/-! ### removed moves stay removed, whatever masks follow -/

theorem removeMask_then_masks (g : MoveGen) (h0 : g.promoIdx = 0) (r : BB) (Bs : List BB) :
    (runMasks (removeMask g r) Bs).1.flatten.Perm
      ((allUnder g.moves (Bs.foldr (· ||| ·) 0#64)).filter fun x => !r.getLsbD x.dst.val) := by
  have h := (runMasks_total (removeMask g r) (by rw [removeMask_promoIdx]; exact h0) Bs).2
  rw [allUnder_filter_dst]
  exact h.trans (allUnder_perm (removeMask_moves_perm g r) _)

theorem removeMove_then_masks (g : MoveGen) (h0 : g.promoIdx = 0) (m : Move) (Bs : List BB) :
    (runMasks (removeMove g m).1 Bs).1.flatten.Perm
      ((allUnder g.moves (Bs.foldr (· ||| ·) 0#64)).filter
        fun x => !(decide (x.src = m.src) && decide (x.dst = m.dst))) := by
  have h := (runMasks_total (removeMove g m).1 (by rw [removeMove_promoIdx]; exact h0) Bs).2
  rw [allUnder_filter_move]
  exact h.trans (allUnder_perm (removeMove_moves_perm g m) _)

theorem and_allOnes (b : BB) : b &&& ~~~0#64 = b := by
  apply BitVec.eq_of_getLsbD_eq
  intro i hi
  simp only [BitVec.getLsbD_and, BitVec.getLsbD_not, BitVec.getLsbD_zero, hi]
  simp

/-- all moves of an entry list: every destination of every entry, promotions fourfold -/
def allMoves (l : List Entry) : List Move := allUnder l (~~~0#64)

theorem mem_allUnder {l : List Entry} {mask : BB} {x : Move} :
    x ∈ allUnder l mask ↔ ∃ e ∈ l, e.sq = x.src ∧ e.bb.getLsbD x.dst.val = true ∧
      mask.getLsbD x.dst.val = true ∧
      (if e.promo then x.promo ∈ promotionPieces.map some else x.promo = none) := by
  unfold allUnder movesUnder
  simp only [List.mem_flatMap, mem_sqsOf, BitVec.getLsbD_and, Bool.and_eq_true]
  constructor
  · rintro ⟨e, he, d, ⟨hd1, hd2⟩, hx⟩
    have h12 := mem_expand hx
    refine ⟨e, he, h12.1.symm, by rw [h12.2]; exact hd1, by rw [h12.2]; exact hd2, ?_⟩
    unfold expand at hx
    cases hp : e.promo <;> rw [hp] at hx <;> simp at hx ⊢
    · rw [hx]
    · obtain ⟨p, hp1, hp2⟩ := hx
      exact ⟨p, hp1, by rw [← hp2]⟩
  · rintro ⟨e, he, h1, h2, h3, h4⟩
    refine ⟨e, he, x.dst, ⟨h2, h3⟩, ?_⟩
    unfold expand
    cases hp : e.promo <;> rw [hp] at h4 <;> simp at h4 ⊢
    · cases x; simp_all
    · obtain ⟨p, hp1, hp2⟩ := h4
      exact ⟨p, hp1, by cases x; simp_all⟩

end Iter
end Chess
