import ChessVerif.Model.MoveGen
import ChessVerif.Proofs.SliderLemmas
/-
Lemmas for C14: the `MoveGen` iterator state machine (`next`, `len`, `set_iterator_mask`,
`remove_mask`, `remove_move`) over *arbitrary* entry lists, masks and states.

Everything lives in `Chess.Iter`.  The bitboard facts of the first section are local versions (the
same facts are proved independently in `Lemmas/BitBoard.lean` for C20; this file does not depend on it).
-/
namespace Chess
namespace Iter

open MoveGen

/-! ### bitboards as ascending square lists (local versions) -/

/-- the squares of a bitboard in ascending order (the specification of bitboard iteration) -/
def sqsOf (b : BB) : List Sq := allSq.filter fun s => b.getLsbD s.val

theorem exists_bit_of_ne_zero (b : BB) (h : b ≠ 0#64) : ∃ i, i < 64 ∧ b.getLsbD i = true := by
  apply Classical.byContradiction
  intro hn
  apply h
  apply BitVec.eq_of_getLsbD_eq
  intro i hi
  cases hb : b.getLsbD i with
  | false => simp
  | true => exact absurd ⟨i, hi, hb⟩ hn

theorem tz_spec (b : BB) (h : b ≠ 0#64) :
    BB.tz b < 64 ∧ b.getLsbD (BB.tz b) = true ∧ ∀ j, j < BB.tz b → b.getLsbD j = false := by
  unfold BB.tz
  cases hf : (List.range 64).find? (fun i => b.getLsbD i) with
  | none =>
    rw [List.find?_range_eq_none] at hf
    obtain ⟨i, hi, hb⟩ := exists_bit_of_ne_zero b h
    have := hf i hi
    simp [hb] at this
  | some k =>
    rw [List.find?_range_eq_some] at hf
    obtain ⟨h1, h2, h3⟩ := hf
    simp only [Option.getD_some]
    refine ⟨List.mem_range.mp h2, h1, ?_⟩
    intro j hj
    have := h3 j hj
    simpa using this

theorem toSq_val (b : BB) (h : b ≠ 0#64) : (BB.toSq b).val = BB.tz b := by
  unfold BB.toSq
  exact Nat.mod_eq_of_lt (tz_spec b h).1

/-- `to_square` of a non-empty bitboard is one of its squares -/
theorem getLsbD_toSq (b : BB) (h : b ≠ 0#64) : b.getLsbD (BB.toSq b).val = true := by
  rw [toSq_val b h]; exact (tz_spec b h).2.1

/-- … and the lowest one -/
theorem getLsbD_lt_toSq (b : BB) (h : b ≠ 0#64) (j : Nat) (hj : j < (BB.toSq b).val) :
    b.getLsbD j = false := by
  rw [toSq_val b h] at hj; exact (tz_spec b h).2.2 j hj

theorem getLsbD_clearLowest (b : BB) (h : b ≠ 0#64) (i : Nat) :
    (b ^^^ BB.ofSq (BB.toSq b)).getLsbD i = (b.getLsbD i && decide (i ≠ (BB.toSq b).val)) := by
  rw [BitVec.getLsbD_xor, BB.getLsbD_ofSq]
  by_cases hi : i = (BB.toSq b).val
  · subst hi; simp [getLsbD_toSq b h]
  · simp [hi]

theorem map_val_allSq : allSq.map (fun s : Sq => s.val) = List.range 64 := by
  apply List.ext_getElem
  · simp [allSq]
  · intro i h1 h2
    simp [allSq]

theorem popcnt_eq_length_sqsOf (b : BB) : b.popcnt = (sqsOf b).length := by
  unfold BB.popcnt sqsOf
  rw [← map_val_allSq, List.filter_map, List.length_map]
  rfl

theorem sqsOf_zero : sqsOf 0#64 = [] := by
  unfold sqsOf
  rw [List.filter_eq_nil_iff]
  intro a _; simp

theorem sqsOf_eq_nil_iff (b : BB) : sqsOf b = [] ↔ b = 0#64 := by
  constructor
  · intro h
    apply Classical.byContradiction
    intro hb
    obtain ⟨i, hi, hbit⟩ := exists_bit_of_ne_zero b hb
    have : (⟨i, hi⟩ : Sq) ∈ sqsOf b := by
      unfold sqsOf
      rw [List.mem_filter]; exact ⟨List.mem_finRange _, hbit⟩
    rw [h] at this; cases this
  · intro h; subst h; exact sqsOf_zero

theorem mem_sqsOf (b : BB) (s : Sq) : s ∈ sqsOf b ↔ b.getLsbD s.val = true := by
  unfold sqsOf
  rw [List.mem_filter]
  constructor
  · exact fun h => h.2
  · exact fun h => ⟨List.mem_finRange _, h⟩

theorem sqsOf_length_le (b : BB) : (sqsOf b).length ≤ 64 := by
  unfold sqsOf
  have := List.length_filter_le (fun s : Sq => b.getLsbD s.val) allSq
  simpa [allSq] using this

theorem filter_congr_mem {α : Type} (p q : α → Bool) (l : List α) (h : ∀ a ∈ l, p a = q a) :
    l.filter p = l.filter q := by
  induction l with
  | nil => rfl
  | cons a as ih =>
    have ha := h a (by simp)
    have ih' := ih (fun x hx => h x (by simp [hx]))
    simp only [List.filter_cons, ha, ih']

/-- the squares of `b ≠ 0` are `to_square b` followed by the squares of `b` with that bit xor-ed away:
one step of `Iterator for BitBoard` -/
theorem sqsOf_cons (b : BB) (h : b ≠ 0#64) :
    sqsOf b = BB.toSq b :: sqsOf (b ^^^ BB.ofSq (BB.toSq b)) := by
  obtain ⟨l1, l2, hl⟩ := List.append_of_mem (List.mem_finRange (BB.toSq b))
  have hpw : List.Pairwise (· < ·) (l1 ++ BB.toSq b :: l2) := by
    rw [← hl]; exact List.pairwise_lt_finRange 64
  rw [List.pairwise_append, List.pairwise_cons] at hpw
  obtain ⟨_, ⟨hgt, _⟩, hlt⟩ := hpw
  have hlt' : ∀ x ∈ l1, x.val < (BB.toSq b).val := fun x hx => hlt x hx (BB.toSq b) (by simp)
  have hgt' : ∀ y ∈ l2, (BB.toSq b).val < y.val := fun y hy => hgt y hy
  have e1 : l1.filter (fun s => b.getLsbD s.val) = [] := by
    rw [List.filter_eq_nil_iff]
    intro x hx
    rw [getLsbD_lt_toSq b h _ (hlt' x hx)]; simp
  have e2 : l1.filter (fun s => (b ^^^ BB.ofSq (BB.toSq b)).getLsbD s.val) = [] := by
    rw [List.filter_eq_nil_iff]
    intro x hx
    rw [getLsbD_clearLowest b h, getLsbD_lt_toSq b h _ (hlt' x hx)]; simp
  have e3 : l2.filter (fun s => (b ^^^ BB.ofSq (BB.toSq b)).getLsbD s.val) =
      l2.filter (fun s => b.getLsbD s.val) := by
    apply filter_congr_mem
    intro y hy
    have := hgt' y hy
    rw [getLsbD_clearLowest b h]
    have : y.val ≠ (BB.toSq b).val := by omega
    simp [this]
  have hs1 : b.getLsbD (BB.toSq b).val = true := getLsbD_toSq b h
  have hs2 : (b ^^^ BB.ofSq (BB.toSq b)).getLsbD (BB.toSq b).val = false := by
    rw [getLsbD_clearLowest b h]; simp
  unfold sqsOf allSq
  rw [hl, List.filter_append, List.filter_append, List.filter_cons, List.filter_cons, e1, e2, e3]
  simp only [hs1, hs2, List.nil_append, if_true]
  simp

end Iter
end Chess
