import ChessVerif.Refine.Abs
/-! xor-fold algebra for the Zobrist hash. -/
namespace Chess

theorem xor_cancel_right {a b c : BB} (h : a ^^^ c = b ^^^ c) : a = b := by
  have := congrArg (· ^^^ c) h
  simpa [BitVec.xor_assoc] using this

theorem xor_cancel_left {a b c : BB} (h : c ^^^ a = c ^^^ b) : a = b := by
  rw [BitVec.xor_comm c a, BitVec.xor_comm c b] at h; exact xor_cancel_right h

theorem xor_eq_zero_iff {a b : BB} : a ^^^ b = 0#64 ↔ a = b := by
  constructor
  · intro h
    have : a ^^^ b = b ^^^ b := by rw [h, BitVec.xor_self]
    exact xor_cancel_right this
  · intro h; rw [h, BitVec.xor_self]

theorem foldl_xor_acc (f : Sq → BB) (l : List Sq) (a x : BB) :
    l.foldl (fun h s => h ^^^ f s) (a ^^^ x) = l.foldl (fun h s => h ^^^ f s) a ^^^ x := by
  induction l generalizing a with
  | nil => rfl
  | cons t ts ih =>
    simp only [List.foldl_cons]
    have : a ^^^ x ^^^ f t = a ^^^ f t ^^^ x := by
      rw [BitVec.xor_assoc, BitVec.xor_comm x, ← BitVec.xor_assoc]
    rw [this, ih]

theorem foldl_xor_congr (f g : Sq → BB) (l : List Sq) (a : BB) (h : ∀ s ∈ l, f s = g s) :
    l.foldl (fun h s => h ^^^ f s) a = l.foldl (fun h s => h ^^^ g s) a := by
  induction l generalizing a with
  | nil => rfl
  | cons t ts ih =>
    simp only [List.foldl_cons]
    rw [h t (by simp)]
    exact ih _ (fun s hs => h s (by simp [hs]))

/-- changing the summand at exactly one square `s0` of a duplicate-free list changes the xor-fold by
`f s0 ^^^ g s0` -/
theorem foldl_xor_update (f g : Sq → BB) (l : List Sq) (a : BB) (s0 : Sq) (hnd : l.Nodup) (hmem : s0 ∈ l)
    (h : ∀ s, s ≠ s0 → f s = g s) :
    l.foldl (fun h s => h ^^^ g s) a = l.foldl (fun h s => h ^^^ f s) a ^^^ f s0 ^^^ g s0 := by
  induction l generalizing a with
  | nil => cases hmem
  | cons t ts ih =>
    simp only [List.foldl_cons]
    rw [List.nodup_cons] at hnd
    by_cases ht : t = s0
    · subst ht
      have hrest : ts.foldl (fun h s => h ^^^ g s) (a ^^^ g t) = ts.foldl (fun h s => h ^^^ f s) (a ^^^ g t) := by
        apply (foldl_xor_congr f g ts _ _).symm
        intro s hs
        apply h
        intro hst; subst hst; exact hnd.1 hs
      rw [hrest, foldl_xor_acc, foldl_xor_acc]
      rw [BitVec.xor_assoc (ts.foldl _ a) (f t) (f t), BitVec.xor_self, BitVec.xor_zero]
    · have hm : s0 ∈ ts := by
        rcases List.mem_cons.mp hmem with h1 | h1
        · exact absurd h1.symm ht
        · exact h1
      rw [← h t ht]
      exact ih _ hnd.2 hm

theorem allSq_nodup : allSq.Nodup := List.nodup_finRange 64
theorem mem_allSq (s : Sq) : s ∈ allSq := List.mem_finRange s

end Chess
