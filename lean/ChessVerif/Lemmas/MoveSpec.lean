import ChessVerif.Lemmas.MakeMoveModel
/-!
Specification-side facts for `make_move_new`: square arithmetic, the bit tests of the model read as
geometry (under `TablesOK`), what `pseudoLegal` implies for each kind of move, and the board of
`apply` case by case.
-/
namespace Chess

/-! ### square arithmetic -/

theorem sq?_eq_some (f r : Int) (q : Sq) : sq? f r = some q ↔ (q.file = f ∧ q.rank = r) := by
  unfold sq? Sq.file Sq.rank
  have hq := q.isLt
  constructor
  · intro h
    split at h
    · injection h with h
      have : q.val = (r * 8 + f).toNat := by rw [← h]
      omega
    · cases h
  · rintro ⟨h1, h2⟩
    rw [dif_pos (by omega)]
    congr 1
    apply Fin.ext
    show (r * 8 + f).toNat = q.val
    omega

theorem sq?_eq_none (f r : Int) : sq? f r = none ↔ ¬(0 ≤ f ∧ f < 8 ∧ 0 ≤ r ∧ r < 8) := by
  unfold sq?
  constructor
  · intro h hh; rw [dif_pos hh] at h; cases h
  · intro h; rw [dif_neg h]

theorem sq_eq_iff (s t : Sq) : s = t ↔ (s.file = t.file ∧ s.rank = t.rank) := by
  unfold Sq.file Sq.rank
  constructor
  · intro h; subst h; exact ⟨rfl, rfl⟩
  · rintro ⟨h1, h2⟩; apply Fin.ext; omega

theorem file_range (s : Sq) : 0 ≤ s.file ∧ s.file < 8 := by unfold Sq.file; omega
theorem rank_range (s : Sq) : 0 ≤ s.rank ∧ s.rank < 8 := by have := s.isLt; unfold Sq.rank; omega

theorem mkSq_file (r f : Fin 8) : (mkSq r f).file = (f.val : Int) := by
  unfold mkSq Sq.file; have := f.isLt; simp only; omega
theorem mkSq_rank (r f : Fin 8) : (mkSq r f).rank = (r.val : Int) := by
  unfold mkSq Sq.rank; have := f.isLt; simp only; omega
theorem getFile_val (s : Sq) : (s.getFile.val : Int) = s.file := rfl
theorem getRank_val (s : Sq) : (s.getRank.val : Int) = s.rank := rfl
theorem fileN_eq (s : Sq) : (s.fileN : Int) = s.file := rfl
theorem rankN_eq (s : Sq) : (s.rankN : Int) = s.rank := rfl

theorem ubackward_file (s : Sq) (c : Color) : (s.ubackward c).file = s.file := by
  cases c <;> simp only [Sq.ubackward, Sq.udown, Sq.uup, mkSq_file, getFile_val]
theorem ubackward_rank (s : Sq) (c : Color) : (s.ubackward c).rank = (s.rank - c.fwd + 8) % 8 := by
  have := rank_range s
  cases c <;> simp only [Sq.ubackward, Sq.udown, Sq.uup, mkSq_rank, rankDown, rankUp, Color.fwd] <;>
    rw [← getRank_val] at * <;> omega

/-! ### reading the model's bit tests -/

theorem getLsbD_setOf (p : Sq → Bool) (s : Sq) : (Geom.setOf p).getLsbD s.val = p s := by
  unfold Geom.setOf
  rw [BB.getLsbD_ofList]
  cases h : p s with
  | true => exact decide_eq_true (List.mem_filter.mpr ⟨mem_allSq s, h⟩)
  | false =>
    apply decide_eq_false
    intro hm
    rw [(List.mem_filter.mp hm).2] at h; cases h

theorem ofSq_and_ne_zero_iff (x : BB) (s : Sq) : (BB.ofSq s &&& x ≠ 0#64) ↔ x.getLsbD s.val = true := by
  rw [BitVec.and_comm]; exact and_ofSq_ne_zero_iff x s

theorem ne_zero_iff_exists_sq (x : BB) : x ≠ 0#64 ↔ ∃ s : Sq, x.getLsbD s.val = true := by
  constructor
  · intro h
    obtain ⟨i, hi, hb⟩ := BB.exists_bit_of_ne_zero x h
    exact ⟨⟨i, hi⟩, hb⟩
  · rintro ⟨s, hs⟩
    exact BB.ne_zero_of_getLsbD x s.val hs

theorem mmDbl_iff {T : Tables} (hT : TablesOK T) (m : Move) :
    mmDbl T m ↔ ((m.src.rank = 1 ∨ m.src.rank = 6) ∧ (m.dst.rank = 3 ∨ m.dst.rank = 4)) := by
  unfold mmDbl
  rw [ofSq_and_ne_zero_iff, ofSq_and_ne_zero_iff, hT.pawnSrcDouble, hT.pawnDstDouble]
  unfold Geom.pawnSrcDouble Geom.pawnDstDouble
  rw [getLsbD_setOf, getLsbD_setOf]
  simp only [Bool.or_eq_true, beq_iff_eq, ← rankN_eq]
  omega

/-- membership of a square in `CASTLE_MOVES` -/
def inCastleMoves (s : Sq) : Prop := (s.rank = 0 ∨ s.rank = 7) ∧ (s.file = 2 ∨ s.file = 4 ∨ s.file = 6)

theorem castleMoves_bit {T : Tables} (hT : TablesOK T) (s : Sq) :
    T.castleMoves.getLsbD s.val = true ↔ inCastleMoves s := by
  rw [hT.castleMoves]
  unfold Geom.castleMoves inCastleMoves
  rw [getLsbD_setOf]
  simp only [Bool.and_eq_true, Bool.or_eq_true, beq_iff_eq, ← rankN_eq, ← fileN_eq]
  omega

theorem xor_and_eq_self_iff (S D : Sq) (hne : S ≠ D) (X : BB) :
    ((BB.ofSq S ^^^ BB.ofSq D) &&& X) = (BB.ofSq S ^^^ BB.ofSq D) ↔
      (X.getLsbD S.val = true ∧ X.getLsbD D.val = true) := by
  have hv : S.val ≠ D.val := fun h => hne (Fin.ext h)
  constructor
  · intro h
    have h1 := congrArg (fun x => x.getLsbD S.val) h
    have h2 := congrArg (fun x => x.getLsbD D.val) h
    simp only [BitVec.getLsbD_and, BitVec.getLsbD_xor, BB.getLsbD_ofSq] at h1 h2
    simp [hv, Ne.symm hv] at h1 h2
    exact ⟨h1, h2⟩
  · rintro ⟨h1, h2⟩
    apply BitVec.eq_of_getLsbD_eq
    intro i _
    simp only [BitVec.getLsbD_and, BitVec.getLsbD_xor, BB.getLsbD_ofSq]
    by_cases hS : i = S.val
    · subst hS; simp [h1]
    · by_cases hD : i = D.val
      · subst hD; simp [h2]
      · simp [hS, hD]

theorem mmCastles_iff {T : Tables} (hT : TablesOK T) (m : Move) (moved : Piece) (hne : m.src ≠ m.dst) :
    mmCastles T m moved = true ↔ (moved = .king ∧ inCastleMoves m.src ∧ inCastleMoves m.dst) := by
  unfold mmCastles
  rw [Bool.and_eq_true, beq_iff_eq, beq_iff_eq, xor_and_eq_self_iff _ _ hne, castleMoves_bit hT, castleMoves_bit hT]

/-- the test of `set_ep`, on a board with consistent bitboards: an `o`-coloured pawn stands beside `D` -/
theorem adjTest_iff {T : Tables} (hT : TablesOK T) {r : Board} (hr : Struct r) (D : Sq) (o : Color) :
    (T.adjFiles D.getFile &&& T.ranks D.getRank &&& r.pawns &&& r.colorCombined o ≠ 0#64) ↔
      ∃ s : Sq, s.rank = D.rank ∧ (s.file - D.file).natAbs = 1 ∧ r.content s = some (.pawn, o) := by
  rw [ne_zero_iff_exists_sq]
  apply exists_congr
  intro s
  rw [hr.content_some_iff, hT.adjFiles, hT.ranks]
  unfold Geom.adjFiles Geom.ranks
  simp only [BitVec.getLsbD_and, getLsbD_setOf, Bool.and_eq_true, beq_iff_eq, getFile_val]
  have h1 : (s.rankN = D.getRank.val) ↔ s.rank = D.rank := by
    rw [← rankN_eq, ← getRank_val]; omega
  rw [h1]
  constructor
  · rintro ⟨⟨⟨a, b⟩, c⟩, d⟩; exact ⟨b, a, c, d⟩
  · rintro ⟨b, a, c, d⟩; exact ⟨⟨⟨a, b⟩, c⟩, d⟩

/-! ### what `pseudoLegal` implies, move kind by move kind -/

theorem color_consts (c : Color) :
    (c = .white ∧ c.other = .black ∧ c.fwd = 1 ∧ c.pawnRank = 1 ∧ c.lastRank = 7 ∧ c.homeRank = 0 ∧ c.other.fwd = -1 ∧ c.other.pawnRank = 6 ∧
      c.other.homeRank = 7 ∧ c.backrank = 0) ∨
    (c = .black ∧ c.other = .white ∧ c.fwd = -1 ∧ c.pawnRank = 6 ∧ c.lastRank = 0 ∧ c.homeRank = 7 ∧ c.other.fwd = 1 ∧ c.other.pawnRank = 1 ∧
      c.other.homeRank = 0 ∧ c.backrank = 7) := by
  cases c
  · left; exact ⟨rfl, rfl, rfl, rfl, rfl, rfl, rfl, rfl, rfl, rfl⟩
  · right; exact ⟨rfl, rfl, rfl, rfl, rfl, rfl, rfl, rfl, rfl, rfl⟩

theorem isEnPassant_pawn {p : Pos} {m : Move} {c' : Color} (hs : p.board m.src = some (.pawn, c')) :
    isEnPassant p m = true ↔ (m.src.file ≠ m.dst.file ∧ p.board m.dst = none) := by
  unfold isEnPassant Pos.empty
  rw [hs]
  simp only [Bool.true_and, Bool.and_eq_true, bne_iff_ne, Option.isNone_iff_eq_none]

theorem isDoubleStep_pawn {p : Pos} {m : Move} {c' : Color} (hs : p.board m.src = some (.pawn, c')) :
    isDoubleStep p m = true ↔ (m.dst.rank - m.src.rank).natAbs = 2 := by
  unfold isDoubleStep
  rw [hs]
  simp only [Bool.true_and, beq_iff_eq]

theorem isCastle_king {p : Pos} {m : Move} {c' : Color} (hs : p.board m.src = some (.king, c')) :
    isCastle p m = true ↔ (m.dst.file - m.src.file).natAbs = 2 := by
  unfold isCastle
  rw [hs]
  simp only [Bool.true_and, beq_iff_eq]

theorem isEnPassant_not_pawn {p : Pos} {m : Move} {pc : Piece} {c' : Color} (hs : p.board m.src = some (pc, c'))
    (hp : pc ≠ .pawn) : isEnPassant p m = false := by
  unfold isEnPassant
  rw [hs]
  cases pc <;> first | exact absurd rfl hp | rfl

theorem isDoubleStep_not_pawn {p : Pos} {m : Move} {pc : Piece} {c' : Color} (hs : p.board m.src = some (pc, c'))
    (hp : pc ≠ .pawn) : isDoubleStep p m = false := by
  unfold isDoubleStep
  rw [hs]
  cases pc <;> first | exact absurd rfl hp | rfl

theorem isCastle_not_king {p : Pos} {m : Move} {pc : Piece} {c' : Color} (hs : p.board m.src = some (pc, c'))
    (hp : pc ≠ .king) : isCastle p m = false := by
  unfold isCastle
  rw [hs]
  cases pc <;> first | exact absurd rfl hp | rfl

/-- the part of `epValid` that `make_move_new` relies on: the marked square holds an enemy pawn on its
fourth rank and the square it passed over is empty -/
def Pos.EpSane (p : Pos) : Prop :=
  ∀ q, p.ep = some q →
    p.board q = some (.pawn, p.stm.other) ∧ q.rank = p.stm.other.pawnRank + 2 * p.stm.other.fwd ∧
    ∀ mid, sq? q.file (q.rank - p.stm.other.fwd) = some mid → p.board mid = none


theorem pseudoLegal_src {p : Pos} {m : Move} (h : pseudoLegal p m = true) :
    ∃ pc, p.board m.src = some (pc, p.stm) ∧ p.colorAt m.dst ≠ some p.stm := by
  unfold pseudoLegal at h
  cases hs : p.board m.src with
  | none => rw [hs] at h; cases h
  | some x =>
    obtain ⟨pc, c'⟩ := x
    rw [hs] at h
    simp only [Bool.and_eq_true, beq_iff_eq, bne_iff_ne] at h
    obtain ⟨⟨h1, h2⟩, _⟩ := h
    subst h1
    exact ⟨pc, rfl, h2⟩

theorem colorAt_eq_some {p : Pos} {s : Sq} {c : Color} : p.colorAt s = some c ↔ ∃ x, p.board s = some (x, c) := by
  unfold Pos.colorAt
  cases p.board s with
  | none => simp
  | some y => obtain ⟨a, b⟩ := y; simp

theorem empty_iff {p : Pos} {s : Sq} : p.empty s = true ↔ p.board s = none := by
  unfold Pos.empty; exact Option.isNone_iff_eq_none

/-- the four kinds of pawn move `pseudoLegal` admits -/
theorem pseudoLegal_pawn {p : Pos} {m : Move} (h : pseudoLegal p m = true)
    (hs : p.board m.src = some (.pawn, p.stm)) :
    (m.dst.rank ≠ p.stm.lastRank → m.promo = none) ∧
    ((m.dst.file - m.src.file = 0 ∧ m.dst.rank - m.src.rank = p.stm.fwd ∧ p.board m.dst = none) ∨
     (m.dst.file - m.src.file = 0 ∧ m.dst.rank - m.src.rank = 2 * p.stm.fwd ∧ m.src.rank = p.stm.pawnRank ∧
        p.board m.dst = none ∧ ∃ x, sq? m.src.file (m.src.rank + p.stm.fwd) = some x ∧ p.board x = none) ∨
     ((m.dst.file - m.src.file).natAbs = 1 ∧ m.dst.rank - m.src.rank = p.stm.fwd ∧
        ∃ x, p.board m.dst = some (x, p.stm.other)) ∨
     ((m.dst.file - m.src.file).natAbs = 1 ∧ m.dst.rank - m.src.rank = p.stm.fwd ∧ p.board m.dst = none ∧
        ∃ q, sq? m.dst.file m.src.rank = some q ∧ p.ep = some q ∧ p.board q = some (.pawn, p.stm.other))) := by
  unfold pseudoLegal at h
  rw [hs] at h
  simp only [Bool.and_eq_true, Bool.or_eq_true, beq_iff_eq, bne_iff_ne, empty_iff, colorAt_eq_some] at h
  obtain ⟨_, hpromo, hk⟩ := h
  refine ⟨?_, ?_⟩
  · intro hr
    rw [if_neg hr] at hpromo
    exact Option.isNone_iff_eq_none.mp hpromo
  · rcases hk with ((⟨⟨a, b⟩, c⟩ | ⟨⟨⟨⟨a, b⟩, c⟩, d⟩, e⟩) | ⟨⟨a, b⟩, c⟩) | ⟨⟨⟨a, b⟩, c⟩, d⟩
    · exact Or.inl ⟨a, b, c⟩
    · refine Or.inr (Or.inl ⟨a, b, c, d, ?_⟩)
      cases hx : sq? m.src.file (m.src.rank + p.stm.fwd) with
      | none => rw [hx] at e; cases e
      | some x => rw [hx] at e; exact ⟨x, rfl, empty_iff.mp e⟩
    · exact Or.inr (Or.inr (Or.inl ⟨a, b, c⟩))
    · refine Or.inr (Or.inr (Or.inr ⟨a, b, c, ?_⟩))
      cases hq : sq? m.dst.file m.src.rank with
      | none => rw [hq] at d; cases d
      | some q =>
        rw [hq] at d
        simp only [Bool.and_eq_true, beq_iff_eq, Pos.has] at d
        exact ⟨q, rfl, d.1, d.2⟩


theorem bool_false_of_not {b : Bool} (h : ¬ b = true) : b = false := by cases b <;> simp_all

/-- a pseudo-legal pawn move: which of the model's branches is taken, and the specification's flags -/
theorem pawn_cases {T : Tables} (hT : TablesOK T) {p : Pos} {m : Move} (h : pseudoLegal p m = true)
    (hs : p.board m.src = some (.pawn, p.stm)) (hep : p.EpSane) :
    (isEnPassant p m = false ∧ isDoubleStep p m = false ∧
      (m.promo = none → ¬ mmDbl T m ∧ some (m.dst.ubackward p.stm) ≠ p.ep)) ∨
    (m.promo = none ∧ mmDbl T m ∧ isEnPassant p m = false ∧ isDoubleStep p m = true) ∨
    (m.promo = none ∧ ¬ mmDbl T m ∧ some (m.dst.ubackward p.stm) = p.ep ∧ isEnPassant p m = true ∧
      isDoubleStep p m = false ∧ sq? m.dst.file m.src.rank = some (m.dst.ubackward p.stm) ∧
      p.board (m.dst.ubackward p.stm) = some (.pawn, p.stm.other) ∧ p.board m.dst = none) := by
  obtain ⟨hpromo, hk⟩ := pseudoLegal_pawn h hs
  have hSf := file_range m.src; have hSr := rank_range m.src
  have hDf := file_range m.dst; have hDr := rank_range m.dst
  have hbf := ubackward_file m.dst p.stm
  have hbr := ubackward_rank m.dst p.stm
  have hcc := color_consts p.stm
  rcases hk with ⟨a, b, c⟩ | ⟨a, b, c, d, _⟩ | ⟨a, b, x, c⟩ | ⟨a, b, c, q, hq, hpe, hbq⟩
  · -- single step
    left
    refine ⟨bool_false_of_not ?_, bool_false_of_not ?_, ?_⟩
    · rw [isEnPassant_pawn hs]; intro hh; omega
    · rw [isDoubleStep_pawn hs]; intro hh; omega
    · intro _
      refine ⟨?_, ?_⟩
      · rw [mmDbl_iff hT]; omega
      · intro he
        have hSq : m.dst.ubackward p.stm = m.src := by
          rw [sq_eq_iff]; omega
        rw [hSq] at he
        have := (hep m.src he.symm).1
        rw [hs] at this
        injection this with this
        injection this with _ this
        exact absurd this.symm (Color.other_ne p.stm)
  · -- double step
    right; left
    refine ⟨?_, ?_, bool_false_of_not ?_, ?_⟩
    · apply hpromo; omega
    · rw [mmDbl_iff hT]; omega
    · rw [isEnPassant_pawn hs]; intro hh; omega
    · rw [isDoubleStep_pawn hs]; omega
  · -- capture
    left
    refine ⟨bool_false_of_not ?_, bool_false_of_not ?_, ?_⟩
    · rw [isEnPassant_pawn hs, c]; intro hh; cases hh.2
    · rw [isDoubleStep_pawn hs]; intro hh; omega
    · intro _
      refine ⟨?_, ?_⟩
      · rw [mmDbl_iff hT]; omega
      · intro he
        obtain ⟨_, hr, hmid⟩ := hep _ he.symm
        have : sq? (m.dst.ubackward p.stm).file ((m.dst.ubackward p.stm).rank - p.stm.other.fwd) = some m.dst := by
          rw [sq?_eq_some]; omega
        have := hmid _ this
        rw [c] at this; cases this
  · -- en passant
    right; right
    rw [sq?_eq_some] at hq
    have hqe : q = m.dst.ubackward p.stm := by rw [sq_eq_iff]; omega
    subst hqe
    obtain ⟨_, hr, _⟩ := hep _ hpe
    refine ⟨?_, ?_, hpe.symm, ?_, bool_false_of_not ?_, ?_, hbq, c⟩
    · apply hpromo; omega
    · rw [mmDbl_iff hT]; omega
    · rw [isEnPassant_pawn hs]; exact ⟨by omega, c⟩
    · rw [isDoubleStep_pawn hs]; intro hh; omega
    · rw [sq?_eq_some]; omega


theorem king_attacks_near {p : Pos} {S D : Sq} {c' : Color} (hs : p.board S = some (.king, c'))
    (h : attacks p S D = true) : (D.file - S.file).natAbs ≤ 1 ∧ (D.rank - S.rank).natAbs ≤ 1 := by
  unfold attacks at h
  rw [hs] at h
  simp only [allDirs, rookDirs, bishopDirs, List.cons_append, List.nil_append, List.any_cons, List.any_nil,
    onRay, step?, Bool.or_false, Bool.or_eq_true, Bool.and_eq_true, beq_iff_eq, decide_eq_true_eq,
    Dir.df, Dir.dr, sq?_eq_some] at h
  omega

theorem pseudoLegal_king {p : Pos} {m : Move} (h : pseudoLegal p m = true)
    (hs : p.board m.src = some (.king, p.stm)) :
    attacks p m.src m.dst = true ∨
    (m.src.rank = p.stm.homeRank ∧ m.src.file = 4 ∧ m.dst.rank = m.src.rank ∧ (m.dst.file - m.src.file).natAbs = 2 ∧
      ∃ r, sq? (if m.dst.file - m.src.file = 2 then 7 else 0) p.stm.homeRank = some r ∧
        p.board r = some (.rook, p.stm) ∧ pathClear p m.src r = true) := by
  unfold pseudoLegal at h
  rw [hs] at h
  simp only [Bool.and_eq_true, Bool.or_eq_true, beq_iff_eq, bne_iff_ne] at h
  obtain ⟨_, _, hk⟩ := h
  rcases hk with hk | ⟨⟨⟨⟨a, b⟩, c⟩, d⟩, _, e⟩
  · exact Or.inl hk
  · refine Or.inr ⟨a, b, by omega, d, ?_⟩
    cases hr : sq? (if m.dst.file - m.src.file = 2 then 7 else 0) p.stm.homeRank with
    | none => rw [hr] at e; cases e
    | some r =>
      rw [hr] at e
      cases hmid : sq? (4 + (m.dst.file - m.src.file) / 2) p.stm.homeRank with
      | none => rw [hmid] at e; cases e
      | some mid =>
        rw [hmid] at e
        simp only [Bool.and_eq_true, Pos.has, beq_iff_eq] at e
        exact ⟨r, rfl, e.1.1.1.1, e.1.1.1.2⟩

theorem pathClear_empty {p : Pos} {a b x : Sq} (h : pathClear p a b = true) (hx : strictlyBetween a x b = true) :
    p.board x = none := by
  unfold pathClear at h
  have := List.all_eq_true.mp h x (mem_allSq x)
  rw [hx] at this
  simpa [empty_iff] using this

theorem backrank_val (c : Color) : (c.backrank.val : Int) = c.homeRank := by cases c <;> rfl

theorem castleRookStart_val (f : Fin 8) : ((Board.castleRookStart f).val : Int) = if (f.val : Int) < 4 then 0 else 7 := by
  unfold Board.castleRookStart
  by_cases h : f.val < 4
  · rw [if_pos h, if_pos (by omega)]; rfl
  · rw [if_neg h, if_neg (by omega)]; rfl

theorem castleRookEnd_val (f : Fin 8) : ((Board.castleRookEnd f).val : Int) = if (f.val : Int) < 4 then 3 else 5 := by
  unfold Board.castleRookEnd
  by_cases h : f.val < 4
  · rw [if_pos h, if_pos (by omega)]; rfl
  · rw [if_neg h, if_neg (by omega)]; rfl

/-- a pseudo-legal king move: the model's castling test agrees with `isCastle`, and what a castling move looks like -/
theorem king_cases {T : Tables} (hT : TablesOK T) {p : Pos} {m : Move} (h : pseudoLegal p m = true)
    (hs : p.board m.src = some (.king, p.stm)) (hne : m.src ≠ m.dst) :
    (isCastle p m = false ∧ mmCastles T m .king = false) ∨
    (isCastle p m = true ∧ mmCastles T m .king = true ∧ p.board m.dst = none ∧
      homeSq p.stm (if m.dst.file > m.src.file then 7 else 0) =
        some (mkSq p.stm.backrank (Board.castleRookStart m.dst.getFile)) ∧
      homeSq p.stm (if m.dst.file > m.src.file then 5 else 3) =
        some (mkSq p.stm.backrank (Board.castleRookEnd m.dst.getFile)) ∧
      p.board (mkSq p.stm.backrank (Board.castleRookStart m.dst.getFile)) = some (.rook, p.stm) ∧
      p.board (mkSq p.stm.backrank (Board.castleRookEnd m.dst.getFile)) = none ∧
      mkSq p.stm.backrank (Board.castleRookStart m.dst.getFile) ≠ m.src ∧
      mkSq p.stm.backrank (Board.castleRookStart m.dst.getFile) ≠ m.dst ∧
      mkSq p.stm.backrank (Board.castleRookEnd m.dst.getFile) ≠ m.src ∧
      mkSq p.stm.backrank (Board.castleRookEnd m.dst.getFile) ≠ m.dst ∧
      mkSq p.stm.backrank (Board.castleRookEnd m.dst.getFile) ≠
        mkSq p.stm.backrank (Board.castleRookStart m.dst.getFile)) := by
  have hSf := file_range m.src; have hSr := rank_range m.src
  have hDf := file_range m.dst; have hDr := rank_range m.dst
  rcases pseudoLegal_king h hs with hk | ⟨a, b, c, d, r, hr, hrook, hpath⟩
  · left
    obtain ⟨n1, n2⟩ := king_attacks_near hs hk
    refine ⟨bool_false_of_not ?_, bool_false_of_not ?_⟩
    · rw [isCastle_king hs]; omega
    · rw [mmCastles_iff hT m .king hne]
      unfold inCastleMoves
      intro hh
      apply hne
      rw [sq_eq_iff]
      omega
  · right
    have f1 := mkSq_file p.stm.backrank (Board.castleRookStart m.dst.getFile)
    have f2 := mkSq_rank p.stm.backrank (Board.castleRookStart m.dst.getFile)
    have f3 := mkSq_file p.stm.backrank (Board.castleRookEnd m.dst.getFile)
    have f4 := mkSq_rank p.stm.backrank (Board.castleRookEnd m.dst.getFile)
    rw [castleRookStart_val, getFile_val] at f1
    rw [castleRookEnd_val, getFile_val] at f3
    rw [backrank_val] at f2 f4
    rw [sq?_eq_some] at hr
    have hrs : r = mkSq p.stm.backrank (Board.castleRookStart m.dst.getFile) := by
      rw [sq_eq_iff]; omega
    subst hrs
    have hcc := color_consts p.stm
    have hD : p.board m.dst = none := by
      apply pathClear_empty hpath
      rcases (by omega : m.dst.file = 6 ∨ m.dst.file = 2) with h6 | h2
      · simp [strictlyBetween, b, a, h6, c, hr.2, f1]
      · simp [strictlyBetween, b, a, h2, c, hr.2, f1]
    have hE : p.board (mkSq p.stm.backrank (Board.castleRookEnd m.dst.getFile)) = none := by
      apply pathClear_empty hpath
      rcases (by omega : m.dst.file = 6 ∨ m.dst.file = 2) with h6 | h2
      · simp [strictlyBetween, b, a, h6, hr.2, f1, f3, f4]
      · simp [strictlyBetween, b, a, h2, hr.2, f1, f3, f4]
    refine ⟨?_, ?_, hD, ?_, ?_, hrook, hE, ?_, ?_, ?_, ?_, ?_⟩
    · rw [isCastle_king hs]; exact d
    · rw [mmCastles_iff hT m .king hne]
      unfold inCastleMoves
      exact ⟨rfl, by omega, by omega⟩
    · unfold homeSq; rw [sq?_eq_some]; omega
    · unfold homeSq; rw [sq?_eq_some]; omega
    · intro e; rw [sq_eq_iff] at e; omega
    · intro e; rw [sq_eq_iff] at e; omega
    · intro e; rw [sq_eq_iff] at e; omega
    · intro e; rw [sq_eq_iff] at e; omega
    · intro e; rw [sq_eq_iff] at e; omega


/-- the man that arrives on the destination -/
def applyMoved (p : Pos) (m : Move) : Option (Piece × Color) :=
  match p.board m.src, m.promo with
  | some (.pawn, c'), some q => some (q, c')
  | x, _ => x

theorem apply_board_plain {p : Pos} {m : Move} (hc : isCastle p m = false) (he : isEnPassant p m = false) (t : Sq) :
    (apply p m).board t = if t = m.dst then applyMoved p m else if t = m.src then none else p.board t := by
  unfold apply applyMoved
  simp only [hc, he, beq_iff_eq]
  simp
  rfl

theorem apply_board_ep {p : Pos} {m : Move} (hc : isCastle p m = false) (he : isEnPassant p m = true)
    {v : Sq} (hv : sq? m.dst.file m.src.rank = some v) (t : Sq) :
    (apply p m).board t = if t = m.dst then applyMoved p m else if t = m.src then none
      else if t = v then none else p.board t := by
  unfold apply applyMoved
  simp only [hc, he, hv, beq_iff_eq]
  simp
  rfl

theorem apply_board_castle {p : Pos} {m : Move} (hc : isCastle p m = true) (he : isEnPassant p m = false)
    {rs re : Sq} (hrs : homeSq p.stm (if m.dst.file > m.src.file then 7 else 0) = some rs)
    (hre : homeSq p.stm (if m.dst.file > m.src.file then 5 else 3) = some re) (t : Sq) :
    (apply p m).board t = if t = m.dst then applyMoved p m else if t = m.src then none
      else if t = rs then none else if t = re then some (.rook, p.stm) else p.board t := by
  unfold apply applyMoved
  simp only [hc, he, hrs, hre, beq_iff_eq]
  simp
  rfl

theorem apply_stm (p : Pos) (m : Move) : (apply p m).stm = p.stm.other := rfl

theorem norm_apply_ep_none {p : Pos} {m : Move} (h : isDoubleStep p m = false) : (norm (apply p m)).ep = none := by
  unfold norm apply
  simp [h]

theorem norm_apply_ep_double {p : Pos} {m : Move} (h : isDoubleStep p m = true) :
    ((∃ s : Sq, s.rank = m.dst.rank ∧ (s.file - m.dst.file).natAbs = 1 ∧
        (apply p m).board s = some (.pawn, p.stm.other)) → (norm (apply p m)).ep = some m.dst) ∧
    ((¬ ∃ s : Sq, s.rank = m.dst.rank ∧ (s.file - m.dst.file).natAbs = 1 ∧
        (apply p m).board s = some (.pawn, p.stm.other)) → (norm (apply p m)).ep = none) := by
  have hep : (apply p m).ep = some m.dst := by unfold apply; simp [h]
  have hany : (allSq.any fun s => s.rank == m.dst.rank && (s.file - m.dst.file).natAbs == 1 &&
      (apply p m).has s .pawn (apply p m).stm) = true ↔
      ∃ s : Sq, s.rank = m.dst.rank ∧ (s.file - m.dst.file).natAbs = 1 ∧
        (apply p m).board s = some (.pawn, p.stm.other) := by
    rw [List.any_eq_true]
    constructor
    · rintro ⟨s, _, hs⟩
      simp only [Bool.and_eq_true, beq_iff_eq, Pos.has, apply_stm] at hs
      exact ⟨s, hs.1.1, hs.1.2, hs.2⟩
    · rintro ⟨s, h1, h2, h3⟩
      refine ⟨s, mem_allSq s, ?_⟩
      simp only [Bool.and_eq_true, beq_iff_eq, Pos.has, apply_stm]
      exact ⟨⟨h1, h2⟩, h3⟩
  constructor
  · intro hex
    unfold norm
    simp only [hep]
    rw [if_pos (hany.mpr hex)]
  · intro hnex
    unfold norm
    simp only [hep]
    rw [if_neg (fun hh => hnex (hany.mp hh))]


/-- castling rights imply king and rook on their home squares (the clause of `Valid`) -/
def Pos.RightsSane (p : Pos) : Prop := ∀ c,
  (p.castleK c = true → (homeSq c 4).any (p.has · .king c) = true ∧ (homeSq c 7).any (p.has · .rook c) = true) ∧
  (p.castleQ c = true → (homeSq c 4).any (p.has · .king c) = true ∧ (homeSq c 0).any (p.has · .rook c) = true)

theorem homeSq_eq (d : Color) (f : Fin 8) : homeSq d (f.val : Int) = some (mkSq d.backrank f) := by
  unfold homeSq
  rw [sq?_eq_some, mkSq_file, mkSq_rank, backrank_val]
  exact ⟨rfl, rfl⟩

theorem homeSq_4 (d : Color) : homeSq d 4 = some (mkSq d.backrank 4) := homeSq_eq d 4
theorem homeSq_7 (d : Color) : homeSq d 7 = some (mkSq d.backrank 7) := homeSq_eq d 7
theorem homeSq_0 (d : Color) : homeSq d 0 = some (mkSq d.backrank 0) := homeSq_eq d 0

theorem mkSq_inj_file (r : Fin 8) {f g : Fin 8} (h : mkSq r f = mkSq r g) : f = g := by
  have := congrArg Fin.val h
  unfold mkSq at this
  simp only at this
  apply Fin.ext; omega

theorem mkSq_ne_file (r : Fin 8) {f g : Fin 8} (h : f ≠ g) : mkSq r f ≠ mkSq r g :=
  fun e => h (mkSq_inj_file r e)

theorem sqToCR_ks (d : Color) (X : Sq) :
    (squareToCastleRights d X).ks = (decide (X = mkSq d.backrank 4) || decide (X = mkSq d.backrank 7)) := by
  have n04 : mkSq d.backrank 0 ≠ mkSq d.backrank 4 := mkSq_ne_file _ (by decide)
  have n07 : mkSq d.backrank 0 ≠ mkSq d.backrank 7 := mkSq_ne_file _ (by decide)
  have n40 : mkSq d.backrank 4 ≠ mkSq d.backrank 0 := mkSq_ne_file _ (by decide)
  have n70 : mkSq d.backrank 7 ≠ mkSq d.backrank 0 := mkSq_ne_file _ (by decide)
  have n74 : mkSq d.backrank 7 ≠ mkSq d.backrank 4 := mkSq_ne_file _ (by decide)
  unfold squareToCastleRights
  by_cases h0 : X = mkSq d.backrank 0
  · subst h0; simp [n04, n07]
  · by_cases h4 : X = mkSq d.backrank 4
    · subst h4; simp [n40]
    · by_cases h7 : X = mkSq d.backrank 7
      · subst h7; simp [n70, n74]
      · simp [h0, h4, h7]

theorem sqToCR_qs (d : Color) (X : Sq) :
    (squareToCastleRights d X).qs = (decide (X = mkSq d.backrank 4) || decide (X = mkSq d.backrank 0)) := by
  have n04 : mkSq d.backrank 0 ≠ mkSq d.backrank 4 := mkSq_ne_file _ (by decide)
  have n40 : mkSq d.backrank 4 ≠ mkSq d.backrank 0 := mkSq_ne_file _ (by decide)
  have n70 : mkSq d.backrank 7 ≠ mkSq d.backrank 0 := mkSq_ne_file _ (by decide)
  have n74 : mkSq d.backrank 7 ≠ mkSq d.backrank 4 := mkSq_ne_file _ (by decide)
  unfold squareToCastleRights
  by_cases h0 : X = mkSq d.backrank 0
  · subst h0; simp [n04]
  · by_cases h4 : X = mkSq d.backrank 4
    · subst h4; simp [n40]
    · by_cases h7 : X = mkSq d.backrank 7
      · subst h7; simp [n70, n74]
      · simp [h0, h4, h7]

theorem has_color {p : Pos} {x : Sq} {pc : Piece} {d : Color} (h : (some x).any (p.has · pc d) = true) :
    p.colorAt x = some d := by
  simp only [Option.any_some, Pos.has, beq_iff_eq] at h
  rw [colorAt_eq_some]; exact ⟨pc, h⟩

/-- the model's rights update (`square_to_castle_rights` of the source for the mover, of the destination
for the opponent) agrees with the specification's (`touched` home squares), when rights imply men at home -/
theorem rights_agree {p : Pos} {m : Move} (hr : p.RightsSane) {pc : Piece}
    (hs : p.board m.src = some (pc, p.stm)) (hd : p.colorAt m.dst ≠ some p.stm) (d : Color) :
    ((⟨p.castleK d, p.castleQ d⟩ : CastleRights).remove
        (squareToCastleRights d (if d = p.stm then m.src else m.dst))).ks = (apply p m).castleK d ∧
    ((⟨p.castleK d, p.castleQ d⟩ : CastleRights).remove
        (squareToCastleRights d (if d = p.stm then m.src else m.dst))).qs = (apply p m).castleQ d := by
  have hsc : p.colorAt m.src = some p.stm := colorAt_eq_some.mpr ⟨pc, hs⟩
  obtain ⟨hK, hQ⟩ := hr d
  have key : ∀ x : Sq, p.colorAt x = some d →
      (decide ((if d = p.stm then m.src else m.dst) = x)) = (decide (x = m.src) || decide (x = m.dst)) := by
    intro x hx
    by_cases hds : d = p.stm
    · rw [if_pos hds]
      have : x ≠ m.dst := by intro e; rw [e, hds] at hx; exact hd hx
      by_cases h1 : x = m.src
      · simp [h1]
      · simp [h1, this, Ne.symm h1]
    · rw [if_neg hds]
      have : x ≠ m.src := by
        intro e; rw [e, hsc] at hx; injection hx with hx; exact hds hx.symm
      by_cases h1 : x = m.dst
      · simp [h1]
      · simp [h1, this, Ne.symm h1]
  have hb : ∀ x y : Sq, (x == y) = decide (x = y) := fun x y => by
    by_cases h : x = y <;> simp [h]
  unfold CastleRights.remove apply
  simp only [sqToCR_ks, sqToCR_qs, homeSq_4, homeSq_7, homeSq_0]
  constructor
  · cases hk : p.castleK d with
    | false => simp
    | true =>
      obtain ⟨k1, k2⟩ := hK hk
      rw [homeSq_4] at k1; rw [homeSq_7] at k2
      have e1 := key _ (has_color k1)
      have e2 := key _ (has_color k2)
      simp only [Bool.true_and, Option.some_beq_some]
      rw [e1, e2]
      simp [hb]
  · cases hk : p.castleQ d with
    | false => simp
    | true =>
      obtain ⟨k1, k2⟩ := hQ hk
      rw [homeSq_4] at k1; rw [homeSq_0] at k2
      have e1 := key _ (has_color k1)
      have e2 := key _ (has_color k2)
      simp only [Bool.true_and, Option.some_beq_some]
      rw [e1, e2]
      simp [hb]


/-! ### `Valid` positions satisfy the two side conditions -/

theorem epValid_epSane {p : Pos} (h : epValid p = true) : p.EpSane := by
  intro q hq
  unfold epValid at h
  rw [hq] at h
  simp only [Bool.and_eq_true, beq_iff_eq, Pos.has] at h
  obtain ⟨⟨h1, h2⟩, h3⟩ := h
  refine ⟨h1, h2, ?_⟩
  intro mid hmid
  rw [hmid] at h3
  cases ho : sq? q.file p.stm.other.pawnRank with
  | none => rw [ho] at h3; cases h3
  | some org =>
    rw [ho] at h3
    simp only [Bool.and_eq_true, empty_iff] at h3
    exact h3.1.1

theorem Valid_epSane {p : Pos} (h : Valid p = true) : p.EpSane := by
  unfold Valid at h
  simp only [Bool.and_eq_true] at h
  exact epValid_epSane h.2

theorem Valid_rightsSane {p : Pos} (h : Valid p = true) : p.RightsSane := by
  unfold Valid at h
  simp only [Bool.and_eq_true, List.all_cons, List.all_nil, Bool.or_eq_true, Bool.not_eq_true',
    Bool.and_true] at h
  obtain ⟨⟨⟨⟨hw, hb⟩, _⟩, _⟩, _⟩ := h
  intro c
  cases c with
  | white =>
    refine ⟨fun hk => ?_, fun hq => ?_⟩
    · rcases hw.1.2 with h1 | h1
      · rw [hk] at h1; cases h1
      · exact h1
    · rcases hw.2 with h1 | h1
      · rw [hq] at h1; cases h1
      · exact h1
  | black =>
    refine ⟨fun hk => ?_, fun hq => ?_⟩
    · rcases hb.1.2 with h1 | h1
      · rw [hk] at h1; cases h1
      · exact h1
    · rcases hb.2 with h1 | h1
      · rw [hq] at h1; cases h1
      · exact h1

end Chess
