import ChessVerif.Lemmas.MakeMoveModel
/-!
Specification-side facts for `make_move_new`: square arithmetic, the bit tests of the model read as
geometry (under `TablesOK`), what `pseudoLegal` implies for each kind of move, and the board of
`apply` case by case.
-/
namespace Chess

/-! ### square arithmetic -/

theorem sq?_eq_some (f r : Int) (q : Sq) : sq? f r = some q ↔ (q.file = f ∧ q.rank = r) := by
  unfold sq? Sq.file Sq.rank
  have hq := q.isLt
  constructor
  · intro h
    split at h
    · injection h with h
      have : q.val = (r * 8 + f).toNat := by rw [← h]
      omega
    · cases h
  · rintro ⟨h1, h2⟩
    rw [dif_pos (by omega)]
    congr 1
    apply Fin.ext
    show (r * 8 + f).toNat = q.val
    omega

theorem sq?_eq_none (f r : Int) : sq? f r = none ↔ ¬(0 ≤ f ∧ f < 8 ∧ 0 ≤ r ∧ r < 8) := by
  unfold sq?
  constructor
  · intro h hh; rw [dif_pos hh] at h; cases h
  · intro h; rw [dif_neg h]

theorem sq_eq_iff (s t : Sq) : s = t ↔ (s.file = t.file ∧ s.rank = t.rank) := by
  unfold Sq.file Sq.rank
  constructor
  · intro h; subst h; exact ⟨rfl, rfl⟩
  · rintro ⟨h1, h2⟩; apply Fin.ext; omega

theorem file_range (s : Sq) : 0 ≤ s.file ∧ s.file < 8 := by unfold Sq.file; omega
theorem rank_range (s : Sq) : 0 ≤ s.rank ∧ s.rank < 8 := by have := s.isLt; unfold Sq.rank; omega

theorem mkSq_file (r f : Fin 8) : (mkSq r f).file = (f.val : Int) := by
  unfold mkSq Sq.file; have := f.isLt; simp only; omega
theorem mkSq_rank (r f : Fin 8) : (mkSq r f).rank = (r.val : Int) := by
  unfold mkSq Sq.rank; have := f.isLt; simp only; omega
theorem getFile_val (s : Sq) : (s.getFile.val : Int) = s.file := rfl
theorem getRank_val (s : Sq) : (s.getRank.val : Int) = s.rank := rfl
theorem fileN_eq (s : Sq) : (s.fileN : Int) = s.file := rfl
theorem rankN_eq (s : Sq) : (s.rankN : Int) = s.rank := rfl

theorem ubackward_file (s : Sq) (c : Color) : (s.ubackward c).file = s.file := by
  cases c <;> simp only [Sq.ubackward, Sq.udown, Sq.uup, mkSq_file, getFile_val]
theorem ubackward_rank (s : Sq) (c : Color) : (s.ubackward c).rank = (s.rank - c.fwd + 8) % 8 := by
  have := rank_range s
  cases c <;> simp only [Sq.ubackward, Sq.udown, Sq.uup, mkSq_rank, rankDown, rankUp, Color.fwd] <;>
    rw [← getRank_val] at * <;> omega

/-! ### reading the model's bit tests -/

theorem getLsbD_setOf (p : Sq → Bool) (s : Sq) : (Geom.setOf p).getLsbD s.val = p s := by
  unfold Geom.setOf
  rw [BB.getLsbD_ofList]
  cases h : p s with
  | true => exact decide_eq_true (List.mem_filter.mpr ⟨mem_allSq s, h⟩)
  | false =>
    apply decide_eq_false
    intro hm
    rw [(List.mem_filter.mp hm).2] at h; cases h

theorem ofSq_and_ne_zero_iff (x : BB) (s : Sq) : (BB.ofSq s &&& x ≠ 0#64) ↔ x.getLsbD s.val = true := by
  rw [BitVec.and_comm]; exact and_ofSq_ne_zero_iff x s

theorem ne_zero_iff_exists_sq (x : BB) : x ≠ 0#64 ↔ ∃ s : Sq, x.getLsbD s.val = true := by
  constructor
  · intro h
    obtain ⟨i, hi, hb⟩ := BB.exists_bit_of_ne_zero x h
    exact ⟨⟨i, hi⟩, hb⟩
  · rintro ⟨s, hs⟩
    exact BB.ne_zero_of_getLsbD x s.val hs

theorem mmDbl_iff {T : Tables} (hT : TablesOK T) (m : Move) :
    mmDbl T m ↔ ((m.src.rank = 1 ∨ m.src.rank = 6) ∧ (m.dst.rank = 3 ∨ m.dst.rank = 4)) := by
  unfold mmDbl
  rw [ofSq_and_ne_zero_iff, ofSq_and_ne_zero_iff, hT.pawnSrcDouble, hT.pawnDstDouble]
  unfold Geom.pawnSrcDouble Geom.pawnDstDouble
  rw [getLsbD_setOf, getLsbD_setOf]
  simp only [Bool.or_eq_true, beq_iff_eq, ← rankN_eq]
  omega

/-- membership of a square in `CASTLE_MOVES` -/
def inCastleMoves (s : Sq) : Prop := (s.rank = 0 ∨ s.rank = 7) ∧ (s.file = 2 ∨ s.file = 4 ∨ s.file = 6)

theorem castleMoves_bit {T : Tables} (hT : TablesOK T) (s : Sq) :
    T.castleMoves.getLsbD s.val = true ↔ inCastleMoves s := by
  rw [hT.castleMoves]
  unfold Geom.castleMoves inCastleMoves
  rw [getLsbD_setOf]
  simp only [Bool.and_eq_true, Bool.or_eq_true, beq_iff_eq, ← rankN_eq, ← fileN_eq]
  omega

theorem xor_and_eq_self_iff (S D : Sq) (hne : S ≠ D) (X : BB) :
    ((BB.ofSq S ^^^ BB.ofSq D) &&& X) = (BB.ofSq S ^^^ BB.ofSq D) ↔
      (X.getLsbD S.val = true ∧ X.getLsbD D.val = true) := by
  have hv : S.val ≠ D.val := fun h => hne (Fin.ext h)
  constructor
  · intro h
    have h1 := congrArg (fun x => x.getLsbD S.val) h
    have h2 := congrArg (fun x => x.getLsbD D.val) h
    simp only [BitVec.getLsbD_and, BitVec.getLsbD_xor, BB.getLsbD_ofSq] at h1 h2
    simp [hv, Ne.symm hv] at h1 h2
    exact ⟨h1, h2⟩
  · rintro ⟨h1, h2⟩
    apply BitVec.eq_of_getLsbD_eq
    intro i _
    simp only [BitVec.getLsbD_and, BitVec.getLsbD_xor, BB.getLsbD_ofSq]
    by_cases hS : i = S.val
    · subst hS; simp [h1]
    · by_cases hD : i = D.val
      · subst hD; simp [h2]
      · simp [hS, hD]

theorem mmCastles_iff {T : Tables} (hT : TablesOK T) (m : Move) (moved : Piece) (hne : m.src ≠ m.dst) :
    mmCastles T m moved = true ↔ (moved = .king ∧ inCastleMoves m.src ∧ inCastleMoves m.dst) := by
  unfold mmCastles
  rw [Bool.and_eq_true, beq_iff_eq, beq_iff_eq, xor_and_eq_self_iff _ _ hne, castleMoves_bit hT, castleMoves_bit hT]

/-- the test of `set_ep`, on a board with consistent bitboards: an `o`-coloured pawn stands beside `D` -/
theorem adjTest_iff {T : Tables} (hT : TablesOK T) {r : Board} (hr : Struct r) (D : Sq) (o : Color) :
    (T.adjFiles D.getFile &&& T.ranks D.getRank &&& r.pawns &&& r.colorCombined o ≠ 0#64) ↔
      ∃ s : Sq, s.rank = D.rank ∧ (s.file - D.file).natAbs = 1 ∧ r.content s = some (.pawn, o) := by
  rw [ne_zero_iff_exists_sq]
  apply exists_congr
  intro s
  rw [hr.content_some_iff, hT.adjFiles, hT.ranks]
  unfold Geom.adjFiles Geom.ranks
  simp only [BitVec.getLsbD_and, getLsbD_setOf, Bool.and_eq_true, beq_iff_eq, getFile_val]
  have h1 : (s.rankN = D.getRank.val) ↔ s.rank = D.rank := by
    rw [← rankN_eq, ← getRank_val]; omega
  rw [h1]
  constructor
  · rintro ⟨⟨⟨a, b⟩, c⟩, d⟩; exact ⟨b, a, c, d⟩
  · rintro ⟨b, a, c, d⟩; exact ⟨⟨⟨a, b⟩, c⟩, d⟩

end Chess
