import ChessVerif.Spec.Accept
import ChessVerif.Spec.WfOracle
import ChessVerif.Props.C07Full
import ChessVerif.Props.C03
import ChessVerif.Lemmas.Final
/-!
# The oracles of the correspondence driver hold of the model's own outputs

* `AcceptP p`: the readable meaning of the acceptance oracle `acceptedOk` (`Spec/Accept.lean`), in the
  vocabulary of `Spec/Rules.lean`; `acceptedOk_none_iff`.
* `AcceptP` of every board accepted by `try_from`, of every valid position, and of its `norm`.
* `wfOk` (`Spec/WfOracle.lean`) of every `Good` board / every board accepted by `try_from`.
-/
namespace Chess
namespace OracleSound

/-- the four "only if" conditions of C07, as a proposition -/
structure AcceptP (p : Pos) : Prop where
  king : ∀ c, count p (· == (.king, c)) = 1
  notInCheck : inCheck p p.stm.other = false
  ck : ∀ c, p.castleK c = true →
    (homeSq c 4).any (p.has · .king c) = true ∧ (homeSq c 7).any (p.has · .rook c) = true
  cq : ∀ c, p.castleQ c = true →
    (homeSq c 4).any (p.has · .king c) = true ∧ (homeSq c 0).any (p.has · .rook c) = true
  ep : ∀ q, p.ep = some q →
    p.has q .pawn p.stm.other = true ∧ q.rank = p.stm.other.pawnRank + 2 * p.stm.other.fwd

/-! ### Boolean clauses of the oracle -/

def kingsB (p : Pos) : Bool := allColors.all fun c => count p (· == (.king, c)) == 1
def rightsB (p : Pos) : Bool := allColors.all fun c =>
  (!(p.castleK c) || ((homeSq c 4).any (p.has · .king c) && (homeSq c 7).any (p.has · .rook c))) &&
  (!(p.castleQ c) || ((homeSq c 4).any (p.has · .king c) && (homeSq c 0).any (p.has · .rook c)))
def epB (p : Pos) : Bool :=
  match p.ep with
  | none => true
  | some q => p.has q .pawn p.stm.other && q.rank == p.stm.other.pawnRank + 2 * p.stm.other.fwd

theorem acceptedOk_none_iff_bools (p : Pos) :
    acceptedOk p = none ↔
      kingsB p = true ∧ inCheck p p.stm.other = false ∧ rightsB p = true ∧ epB p = true := by
  unfold acceptedOk
  change (if (!kingsB p) = true then _ else if _ then _ else if (!rightsB p) = true then _ else _) = none ↔ _
  cases hk : kingsB p
  · simp
  · cases hc : inCheck p p.stm.other
    · cases hr : rightsB p
      · simp
      · unfold epB
        cases he : p.ep with
        | none => simp
        | some q =>
          simp only [Bool.not_true, Bool.false_eq_true, if_false, true_and]
          split <;> simp_all
    · simp

theorem kingsB_iff (p : Pos) : kingsB p = true ↔ ∀ c, count p (· == (.king, c)) = 1 := by
  simp only [kingsB, allColors, List.all_cons, List.all_nil, Bool.and_true, Bool.and_eq_true, beq_iff_eq]
  constructor
  · rintro ⟨h1, h2⟩ c; cases c <;> assumption
  · intro h; exact ⟨h .white, h .black⟩

theorem imp_bool (a b : Bool) : ((!a || b) = true) ↔ (a = true → b = true) := by
  cases a <;> cases b <;> simp

theorem rightsB_iff (p : Pos) : rightsB p = true ↔
    (∀ c, p.castleK c = true →
      (homeSq c 4).any (p.has · .king c) = true ∧ (homeSq c 7).any (p.has · .rook c) = true) ∧
    (∀ c, p.castleQ c = true →
      (homeSq c 4).any (p.has · .king c) = true ∧ (homeSq c 0).any (p.has · .rook c) = true) := by
  simp only [rightsB, allColors, List.all_cons, List.all_nil, Bool.and_true, Bool.and_eq_true, imp_bool]
  constructor
  · rintro ⟨⟨h1, h2⟩, h3, h4⟩
    exact ⟨fun c => by cases c <;> assumption, fun c => by cases c <;> assumption⟩
  · rintro ⟨h1, h2⟩
    exact ⟨⟨h1 .white, h2 .white⟩, h1 .black, h2 .black⟩

theorem epB_iff (p : Pos) : epB p = true ↔
    ∀ q, p.ep = some q →
      p.has q .pawn p.stm.other = true ∧ q.rank = p.stm.other.pawnRank + 2 * p.stm.other.fwd := by
  unfold epB
  cases he : p.ep with
  | none => simp
  | some q =>
    simp only [Bool.and_eq_true, beq_iff_eq, Option.some.injEq]
    constructor
    · rintro h q' rfl; exact h
    · intro h; exact h q rfl

theorem acceptedOk_none_iff (p : Pos) : acceptedOk p = none ↔ AcceptP p := by
  rw [acceptedOk_none_iff_bools, kingsB_iff, rightsB_iff, epB_iff]
  constructor
  · rintro ⟨h1, h2, ⟨h3, h4⟩, h5⟩; exact ⟨h1, h2, h3, h4, h5⟩
  · rintro ⟨h1, h2, h3, h4, h5⟩; exact ⟨h1, h2, ⟨h3, h4⟩, h5⟩

/-! ### the model's `try_from` -/

theorem acceptP_of_tryFrom {T : Tables} (hT : TablesOK T) {bd : Builder} {b : Board}
    (h : Board.tryFrom T bd = some b) : AcceptP b.abs where
  king := Props.C07_one_king_each h
  notInCheck := Props.C07_nonmover_not_in_check hT h
  ck := fun c => (Props.C07_rights_backed hT h c).1
  cq := fun c => (Props.C07_rights_backed hT h c).2
  ep := fun q hq =>
    have := Props.C07_ep_refers_to_pawn h q hq
    ⟨this.1, this.2.2.1⟩

/-! ### valid positions -/

theorem acceptP_of_valid {p : Pos} (hv : Valid p = true) : AcceptP p := by
  have v := (Closure.valid_iff p).mp hv
  refine ⟨v.king, v.notInCheck, v.ck, v.cq, ?_⟩
  intro q hq
  have he := v.ep
  unfold epValid at he
  rw [hq] at he
  simp only [Bool.and_eq_true, beq_iff_eq] at he
  exact ⟨he.1.1, he.1.2⟩

/-- the conditions do not look at the en-passant mark except in the last clause, which holds vacuously
without a mark: dropping the mark (or keeping it) preserves them -/
theorem AcceptP.setEp {p : Pos} (h : AcceptP p) (e : Option Sq) (he : e = p.ep ∨ e = none) :
    AcceptP { p with ep := e } where
  king := h.king
  notInCheck := h.notInCheck
  ck := h.ck
  cq := h.cq
  ep := fun q hq => by
    rcases he with he | he
    · exact h.ep q (he ▸ hq)
    · have hq' : e = some q := hq
      rw [he] at hq'; cases hq'

theorem AcceptP.norm {p : Pos} (h : AcceptP p) : AcceptP (norm p) := by
  unfold Chess.norm
  apply h.setEp
  cases p.ep with
  | none => exact .inl rfl
  | some q =>
    dsimp only
    split
    · exact .inl rfl
    · exact .inr rfl

/-! ### the check/pin/occupancy oracle -/

theorem occConsistent_of_struct {b : Board} (hs : Struct b) : occConsistent b = true := by
  obtain ⟨_, _, _, _, hcc, hcp, hcd, hpd⟩ := Props.C03_occupancy_consistent hs
  unfold occConsistent
  simp only [Bool.and_eq_true, beq_iff_eq, List.all_eq_true, Bool.or_eq_true]
  refine ⟨⟨⟨?_, hcd⟩, hcc.symm⟩, ?_⟩
  · intro x _ y _
    by_cases hxy : x = y
    · exact .inl hxy
    · exact .inr (hpd x y hxy)
  · rw [hcp]
    simp only [allPieces, List.foldl_cons, List.foldl_nil, BitVec.zero_or]

theorem setOf_eq_of_bits {x : BB} {f : Sq → Bool} (h : ∀ s : Sq, x.getLsbD s.val = f s) :
    x = Geom.setOf f := by
  apply BitVec.eq_of_getLsbD_eq
  intro i hi
  have := h ⟨i, hi⟩
  rw [mem_setOf f ⟨i, hi⟩]
  exact this

theorem wfOk_of_exact {b : Board} (hs : Struct b)
    (hc : ∀ x : Sq, b.checkers.getLsbD x.val = checkerSq b.abs x)
    (hp : ∀ y : Sq, (b.pinned &&& b.colorCombined b.stm).getLsbD y.val = pinnedSq b.abs y) :
    wfOk b b.abs = true := by
  unfold wfOk specCheckers specPinnedMine mine
  rw [occConsistent_of_struct hs, ← setOf_eq_of_bits hc, ← setOf_eq_of_bits hp]
  simp

end OracleSound
end Chess
