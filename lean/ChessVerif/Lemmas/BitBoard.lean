import ChessVerif.Proofs.SliderLemmas
import ChessVerif.Spec.Small
/-
Lemmas for C20: a `BitBoard` (`BitVec 64`) behaves as the set of squares whose bits are set.
Everything is proved for all 2^64 values; the only `decide`s range over the 64 squares.
-/
namespace Chess
namespace BB

/-! ### trailing zeros -/

theorem exists_bit_of_ne_zero (b : BB) (h : b ≠ 0#64) : ∃ i, i < 64 ∧ b.getLsbD i = true := by
  apply Classical.byContradiction
  intro hn
  apply h
  apply BitVec.eq_of_getLsbD_eq
  intro i hi
  cases hb : b.getLsbD i with
  | false => simp
  | true => exact absurd ⟨i, hi, hb⟩ hn

theorem tz_spec (b : BB) (h : b ≠ 0#64) :
    tz b < 64 ∧ b.getLsbD (tz b) = true ∧ ∀ j, j < tz b → b.getLsbD j = false := by
  unfold tz
  cases hf : (List.range 64).find? (fun i => b.getLsbD i) with
  | none =>
    rw [List.find?_range_eq_none] at hf
    obtain ⟨i, hi, hb⟩ := exists_bit_of_ne_zero b h
    have := hf i hi
    simp [hb] at this
  | some k =>
    rw [List.find?_range_eq_some] at hf
    obtain ⟨h1, h2, h3⟩ := hf
    simp only [Option.getD_some]
    refine ⟨List.mem_range.mp h2, h1, ?_⟩
    intro j hj
    have := h3 j hj
    simpa using this

theorem tz_lt (b : BB) (h : b ≠ 0#64) : tz b < 64 := (tz_spec b h).1
theorem getLsbD_tz (b : BB) (h : b ≠ 0#64) : b.getLsbD (tz b) = true := (tz_spec b h).2.1
theorem getLsbD_lt_tz (b : BB) (h : b ≠ 0#64) (j : Nat) (hj : j < tz b) : b.getLsbD j = false :=
  (tz_spec b h).2.2 j hj

theorem tz_le_of_getLsbD (b : BB) (i : Nat) (hi : b.getLsbD i = true) : tz b ≤ i := by
  have h : b ≠ 0#64 := by
    intro h0; rw [h0] at hi; simp at hi
  apply Classical.byContradiction
  intro hn
  have := getLsbD_lt_tz b h i (by omega)
  rw [this] at hi; cases hi

theorem tz_zero : tz 0#64 = 64 := by decide

theorem toSq_val (b : BB) (h : b ≠ 0#64) : (toSq b).val = tz b := by
  unfold toSq
  exact Nat.mod_eq_of_lt (tz_lt b h)

theorem ne_zero_of_getLsbD (b : BB) (i : Nat) (hi : b.getLsbD i = true) : b ≠ 0#64 := by
  intro h0; rw [h0] at hi; simp at hi

/-! ### clearing the lowest bit -/

theorem getLsbD_clear (b : BB) (s : Sq) (i : Nat) :
    (b ^^^ ofSq s).getLsbD i = (b.getLsbD i != decide (i = s.val)) := by
  rw [BitVec.getLsbD_xor, getLsbD_ofSq]

theorem getLsbD_clearLowest (b : BB) (h : b ≠ 0#64) (i : Nat) :
    (b ^^^ ofSq (toSq b)).getLsbD i = (b.getLsbD i && decide (i ≠ tz b)) := by
  rw [getLsbD_clear, toSq_val b h]
  by_cases hi : i = tz b
  · subst hi; simp [getLsbD_tz b h]
  · simp [hi]

/-! ### the member list -/

theorem map_val_allSq : allSq.map (fun s : Sq => s.val) = List.range 64 := by
  apply List.ext_getElem
  · simp [allSq]
  · intro i h1 h2
    simp [allSq]

theorem popcnt_eq_length_members (b : BB) :
    b.popcnt = (allSq.filter fun s => b.getLsbD s.val).length := by
  unfold popcnt
  rw [← map_val_allSq, List.filter_map, List.length_map]
  rfl

theorem members_nil_iff (b : BB) : (allSq.filter fun s => b.getLsbD s.val) = [] ↔ b = 0#64 := by
  constructor
  · intro h
    apply Classical.byContradiction
    intro hb
    obtain ⟨i, hi, hbit⟩ := exists_bit_of_ne_zero b hb
    have : (⟨i, hi⟩ : Sq) ∈ allSq.filter fun s => b.getLsbD s.val := by
      rw [List.mem_filter]; exact ⟨List.mem_finRange _, hbit⟩
    rw [h] at this; cases this
  · intro h; subst h
    rw [List.filter_eq_nil_iff]
    intro a _; simp

theorem filter_congr_mem {α : Type} (p q : α → Bool) (l : List α) (h : ∀ a ∈ l, p a = q a) :
    l.filter p = l.filter q := by
  induction l with
  | nil => rfl
  | cons a as ih =>
    have ha := h a (by simp)
    have ih' := ih (fun x hx => h x (by simp [hx]))
    simp only [List.filter_cons, ha, ih']

/-- the members of `b ≠ 0` are its lowest square followed by the members of `b` with that bit cleared -/
theorem members_cons (b : BB) (h : b ≠ 0#64) :
    (allSq.filter fun s => b.getLsbD s.val) =
      toSq b :: (allSq.filter fun s => (b ^^^ ofSq (toSq b)).getLsbD s.val) := by
  have hv := toSq_val b h
  obtain ⟨l1, l2, hl⟩ := List.append_of_mem (List.mem_finRange (toSq b))
  have hpw : List.Pairwise (· < ·) (l1 ++ toSq b :: l2) := by
    rw [← hl]; exact List.pairwise_lt_finRange 64
  rw [List.pairwise_append, List.pairwise_cons] at hpw
  obtain ⟨_, ⟨hgt, _⟩, hlt⟩ := hpw
  have hlt' : ∀ x ∈ l1, x.val < tz b := by
    intro x hx
    have := hlt x hx (toSq b) (by simp)
    rw [← hv]; exact this
  have hgt' : ∀ y ∈ l2, tz b < y.val := by
    intro y hy
    have := hgt y hy
    rw [← hv]; exact this
  have e1 : l1.filter (fun s => b.getLsbD s.val) = [] := by
    rw [List.filter_eq_nil_iff]
    intro x hx
    rw [getLsbD_lt_tz b h _ (hlt' x hx)]; simp
  have e2 : l1.filter (fun s => (b ^^^ ofSq (toSq b)).getLsbD s.val) = [] := by
    rw [List.filter_eq_nil_iff]
    intro x hx
    rw [getLsbD_clearLowest b h, getLsbD_lt_tz b h _ (hlt' x hx)]; simp
  have e3 : l2.filter (fun s => (b ^^^ ofSq (toSq b)).getLsbD s.val) =
      l2.filter (fun s => b.getLsbD s.val) := by
    apply filter_congr_mem
    intro y hy
    have := hgt' y hy
    rw [getLsbD_clearLowest b h]
    have : y.val ≠ tz b := by omega
    simp [this]
  have hs1 : b.getLsbD (toSq b).val = true := by rw [hv]; exact getLsbD_tz b h
  have hs2 : (b ^^^ ofSq (toSq b)).getLsbD (toSq b).val = false := by
    rw [getLsbD_clearLowest b h, hv]; simp
  show (allSq.filter _) = _ :: (allSq.filter _)
  unfold allSq
  rw [hl, List.filter_append, List.filter_append, List.filter_cons, List.filter_cons, e1, e2, e3]
  simp only [hs1, hs2, List.nil_append, if_true]
  simp

theorem popcnt_zero : popcnt 0#64 = 0 := by decide

theorem popcnt_clearLowest (b : BB) (h : b ≠ 0#64) :
    popcnt b = popcnt (b ^^^ ofSq (toSq b)) + 1 := by
  rw [popcnt_eq_length_members, popcnt_eq_length_members, members_cons b h, List.length_cons]

theorem popcnt_le (b : BB) : popcnt b ≤ 64 := by
  unfold popcnt
  have := List.length_filter_le (fun i => b.getLsbD i) (List.range 64)
  simpa using this

theorem iterFuel_exact (n : Nat) : ∀ b : BB, popcnt b ≤ n →
    iterFuel n b = allSq.filter fun s => b.getLsbD s.val := by
  induction n with
  | zero =>
    intro b hb
    have h0 : (allSq.filter fun s => b.getLsbD s.val) = [] := by
      rw [popcnt_eq_length_members] at hb
      exact List.eq_nil_of_length_eq_zero (by omega)
    rw [h0]; rfl
  | succ n ih =>
    intro b hb
    by_cases hz : b = 0#64
    · subst hz
      rw [(members_nil_iff 0#64).mpr rfl]
      simp [iterFuel, next]
    · rw [members_cons b hz]
      have hp := popcnt_clearLowest b hz
      rw [← ih (b ^^^ ofSq (toSq b)) (by omega)]
      simp [iterFuel, next, hz]

theorem toList_exact (b : BB) : b.toList = allSq.filter fun s => b.getLsbD s.val :=
  iterFuel_exact 64 b (popcnt_le b)

/-! ### `to_square` / `from_square` -/

theorem ofSq_ne_zero (s : Sq) : ofSq s ≠ 0#64 :=
  ne_zero_of_getLsbD _ s.val (by rw [getLsbD_ofSq]; simp)

theorem tz_ofSq (s : Sq) : tz (ofSq s) = s.val := by
  have := getLsbD_tz (ofSq s) (ofSq_ne_zero s)
  rw [getLsbD_ofSq] at this
  simpa using this

theorem toSq_ofSq (s : Sq) : toSq (ofSq s) = s := by
  apply Fin.ext
  rw [toSq_val _ (ofSq_ne_zero s), tz_ofSq]

theorem ofSq_toSq (b : BB) (h : b.popcnt = 1) : ofSq (toSq b) = b := by
  have hz : b ≠ 0#64 := by
    intro h0; rw [h0, popcnt_zero] at h; cases h
  have hp := popcnt_clearLowest b hz
  have h0 : popcnt (b ^^^ ofSq (toSq b)) = 0 := by omega
  rw [popcnt_eq_length_members] at h0
  have := (members_nil_iff _).mp (List.eq_nil_of_length_eq_zero h0)
  exact (BitVec.xor_eq_zero_iff.mp this).symm

/-! ### `ofList` -/

theorem getLsbD_foldl_or {α : Type} (f : α → BB) (l : List α) (acc : BB) (i : Nat) :
    (l.foldl (fun a x => a ||| f x) acc).getLsbD i = (acc.getLsbD i || l.any fun x => (f x).getLsbD i) := by
  induction l generalizing acc with
  | nil => simp
  | cons x xs ih =>
    simp only [List.foldl_cons, List.any_cons]
    rw [ih, BitVec.getLsbD_or, Bool.or_assoc]

theorem getLsbD_ofList (l : List Sq) (s : Sq) : (ofList l).getLsbD s.val = decide (s ∈ l) := by
  unfold ofList
  rw [getLsbD_foldl_or]
  simp only [getLsbD_ofSq]
  rw [Bool.eq_iff_iff]
  simp only [BitVec.getLsbD_zero, Bool.false_or, List.any_eq_true, decide_eq_true_eq]
  constructor
  · rintro ⟨x, hx, hxs⟩
    have : s = x := Fin.ext hxs
    rw [this]; exact hx
  · intro hs
    exact ⟨s, hs, rfl⟩

/-! ### `swap_bytes` -/

theorem any_congr_mem {α : Type} (p q : α → Bool) (l : List α) (h : ∀ a ∈ l, p a = q a) :
    l.any p = l.any q := by
  induction l with
  | nil => rfl
  | cons a as ih =>
    have ha := h a (by simp)
    have ih' := ih (fun x hx => h x (by simp [hx]))
    simp only [List.any_cons, ha, ih']

theorem getLsbD_0xFF (k : Nat) : (0xFF#64).getLsbD k = decide (k < 8) := by
  have : (0xFF#64) = BitVec.ofNat 64 (2^8 - 1) := by decide
  rw [this, BitVec.getLsbD_ofNat, Nat.testBit_two_pow_sub_one]
  by_cases hk : k < 8
  · have : k < 64 := by omega
    simp [hk, this]
  · simp [hk]

theorem getLsbD_swapTerm (b : BB) (i j : Nat) (hi : i < 8) (hj : j < 64) :
    (((b >>> (8*i)) &&& 0xFF#64) <<< (8*(7-i))).getLsbD j =
      (decide (j / 8 = 7 - i) && b.getLsbD (8*i + j % 8)) := by
  rw [BitVec.getLsbD_shiftLeft, BitVec.getLsbD_and, BitVec.getLsbD_ushiftRight, getLsbD_0xFF]
  by_cases h : j / 8 = 7 - i
  · have h1 : ¬ j < 8 * (7 - i) := by omega
    have h2 : j - 8 * (7 - i) < 8 := by omega
    have h3 : 8 * i + (j - 8 * (7 - i)) = 8 * i + j % 8 := by omega
    simp [h, hj, h1, h2, h3]
  · by_cases h1 : j < 8 * (7 - i)
    · simp [h, h1]
    · have h2 : ¬ j - 8 * (7 - i) < 8 := by omega
      simp [h, h2]

theorem xor56 : ∀ s : Sq, s.val ^^^ 56 = 8 * (7 - s.val / 8) + s.val % 8 := by decide

theorem getLsbD_swapBytes (b : BB) (s : Sq) :
    (swapBytes b).getLsbD s.val = b.getLsbD (s.val ^^^ 56) := by
  unfold swapBytes
  rw [getLsbD_foldl_or (fun i => ((b >>> (8*i)) &&& 0xFF#64) <<< (8*(7-i))), xor56]
  have hs := s.isLt
  have hany : ((List.range 8).any fun i => (((b >>> (8*i)) &&& 0xFF#64) <<< (8*(7-i))).getLsbD s.val) =
      ((List.range 8).any fun i => (decide (s.val / 8 = 7 - i) && b.getLsbD (8*i + s.val % 8))) := by
    apply any_congr_mem
    intro i hi
    exact getLsbD_swapTerm b i s.val (List.mem_range.mp hi) hs
  rw [hany]
  simp only [BitVec.getLsbD_zero, Bool.false_or]
  rw [Bool.eq_iff_iff, List.any_eq_true]
  constructor
  · rintro ⟨i, hi, h⟩
    have hi' := List.mem_range.mp hi
    simp only [Bool.and_eq_true, decide_eq_true_eq] at h
    have : 7 - s.val / 8 = i := by omega
    rw [this]; exact h.2
  · intro h
    refine ⟨7 - s.val / 8, List.mem_range.mpr (by omega), ?_⟩
    simp only [Bool.and_eq_true, decide_eq_true_eq]
    exact ⟨by omega, h⟩

end BB
end Chess
