import ChessVerif.Lemmas.MoveInv
import ChessVerif.Lemmas.Sane
import ChessVerif.Lemmas.FenBoard
import ChessVerif.Lemmas.Closure
/-!
Bounds on the en-passant mark kept by the library's recording policy `norm`:

* upper bound: a mark survives `norm` only if it was there and a pawn of the side to move stands beside
  it; after `apply` a mark is there only after a double pawn step, and it is the destination square;
* lower bound: whenever an en-passant capture is pseudo-legal in a position, `norm` changes nothing;
* `Board.toBuilder.getEnPassant = Board.ep` under `Pos.EpSane` (the rank clause), so that the decoded FEN
  of a board produced by `make_move_new` carries the board's own ep mark.
-/
namespace Chess

/-! ### `norm` -/

/-- a mark kept by `norm` was there and a pawn of the side to move stands beside it -/
theorem norm_ep_some_beside {P : Pos} {q : Sq} (h : (norm P).ep = some q) :
    P.ep = some q ∧
      ∃ t : Sq, t.rank = q.rank ∧ (t.file - q.file).natAbs = 1 ∧ P.has t .pawn P.stm = true := by
  have hp := norm_ep_some h
  refine ⟨hp, ?_⟩
  unfold norm at h
  simp only [hp] at h
  split at h
  · rename_i hc
    rw [List.any_eq_true] at hc
    obtain ⟨t, _, ht⟩ := hc
    simp only [Bool.and_eq_true, beq_iff_eq] at ht
    exact ⟨t, ht.1.1, ht.1.2, ht.2⟩
  · cases h

/-- a mark with a pawn of the side to move beside it is kept by `norm` -/
theorem norm_ep_of_beside {P : Pos} {q t : Sq} (hq : P.ep = some q) (hr : t.rank = q.rank)
    (hf : (t.file - q.file).natAbs = 1) (hp : P.has t .pawn P.stm = true) : (norm P).ep = some q := by
  have hc : (allSq.any fun s => s.rank == q.rank && (s.file - q.file).natAbs == 1 && P.has s .pawn P.stm) = true := by
    rw [List.any_eq_true]
    refine ⟨t, mem_allSq t, ?_⟩
    simp only [Bool.and_eq_true, beq_iff_eq]
    exact ⟨⟨hr, hf⟩, hp⟩
  unfold norm
  simp only [hq]
  rw [if_pos hc]

/-- `norm` only ever touches the ep mark -/
theorem norm_eq_of_ep {P : Pos} (h : (norm P).ep = P.ep) : norm P = P := by
  obtain ⟨b, s, k, q, e⟩ := P
  unfold norm at h ⊢
  simp only at h ⊢
  rw [h]


theorem apply_ep_eq (p : Pos) (m : Move) :
    (apply p m).ep = if isDoubleStep p m = true then some m.dst else none := rfl

theorem apply_ep_none_of_not_double {p : Pos} {m : Move} (h : isDoubleStep p m = false) :
    (apply p m).ep = none := by
  rw [apply_ep_eq, h]; rfl

theorem norm_ep_none_of_none {P : Pos} (h : P.ep = none) : (norm P).ep = none := by
  cases hn : (norm P).ep with
  | none => rfl
  | some q => rw [norm_ep_some hn] at h; cases h

/-! ### (A) the mark is recorded only after a double step landing beside a pawn of the side to move -/

theorem ep_recorded_only {p : Pos} {m : Move} {s : Sq} (h : (norm (apply p m)).ep = some s) :
    isDoubleStep p m = true ∧ s = m.dst ∧
      ∃ t : Sq, t.rank = s.rank ∧ (t.file - s.file).natAbs = 1 ∧
        (apply p m).has t .pawn (apply p m).stm = true := by
  obtain ⟨he, t, h1, h2, h3⟩ := norm_ep_some_beside h
  obtain ⟨hd, hs⟩ := apply_ep_some he
  exact ⟨hd, hs, t, h1, h2, h3⟩

theorem ep_recorded_iff (p : Pos) (m : Move) (s : Sq) :
    (norm (apply p m)).ep = some s ↔
      (isDoubleStep p m = true ∧ s = m.dst ∧
        ∃ t : Sq, t.rank = s.rank ∧ (t.file - s.file).natAbs = 1 ∧
          (apply p m).has t .pawn (apply p m).stm = true) := by
  constructor
  · exact ep_recorded_only
  · rintro ⟨hd, hs, t, h1, h2, h3⟩
    subst hs
    have he : (apply p m).ep = some m.dst := by rw [apply_ep_eq, if_pos hd]
    exact norm_ep_of_beside he h1 h2 h3

/-- for a pseudo-legal move a double step is the FIDE double push: a pawn of the mover goes two squares
straight ahead from its start rank over an empty square onto an empty square -/
theorem double_step_shape {p : Pos} {m : Move} (hpl : pseudoLegal p m = true) (hd : isDoubleStep p m = true) :
    p.board m.src = some (.pawn, p.stm) ∧ m.promo = none ∧ m.dst.file = m.src.file ∧
      m.src.rank = p.stm.pawnRank ∧ m.dst.rank = p.stm.pawnRank + 2 * p.stm.fwd ∧ p.board m.dst = none := by
  obtain ⟨pc, hsrc, _⟩ := pseudoLegal_src hpl
  obtain ⟨c', hs'⟩ := isDoubleStep_src hd
  rw [hsrc] at hs'
  injection hs' with hs'; injection hs' with hpc _
  subst hpc
  obtain ⟨hpromo, hk⟩ := pseudoLegal_pawn hpl hsrc
  have hdd := (isDoubleStep_pawn hsrc).mp hd
  have hcc := color_consts p.stm
  rcases hk with ⟨a, b, c⟩ | ⟨a, b, c, d, _⟩ | ⟨a, b, _⟩ | ⟨a, b, _⟩
  · omega
  · exact ⟨hsrc, hpromo (by have := rank_range m.dst; omega), by omega, c, by omega, d⟩
  · omega
  · omega

/-- after a pseudo-legal double step the men away from source and destination are those of before -/
theorem apply_board_double {p : Pos} {m : Move} (hpl : pseudoLegal p m = true) (hd : isDoubleStep p m = true)
    (t : Sq) : (apply p m).board t =
      if t = m.dst then some (.pawn, p.stm) else if t = m.src then none else p.board t := by
  obtain ⟨hsrc, hpn, hf, _, _, _⟩ := double_step_shape hpl hd
  have hc := isCastle_not_king hsrc (by decide)
  have he : isEnPassant p m = false :=
    bool_false_of_not (by rw [isEnPassant_pawn hsrc]; intro hh; exact hh.1 hf.symm)
  rw [apply_board_plain hc he, applyMoved_eq hsrc, hpn]

/-- the recorded mark after a pseudo-legal move, in full: the move was the FIDE double push of a pawn of the
mover landing on the marked square, and an enemy pawn (a pawn of the side now to move), which stood there
before the move already, is on the same rank on an adjacent file -/
theorem ep_recorded_shape {p : Pos} {m : Move} {s : Sq} (hpl : pseudoLegal p m = true)
    (h : (norm (apply p m)).ep = some s) :
    s = m.dst ∧ p.board m.src = some (.pawn, p.stm) ∧ m.dst.file = m.src.file ∧
      m.src.rank = p.stm.pawnRank ∧ m.dst.rank = p.stm.pawnRank + 2 * p.stm.fwd ∧
      ∃ t : Sq, t.rank = m.dst.rank ∧ (t.file - m.dst.file).natAbs = 1 ∧
        p.board t = some (.pawn, p.stm.other) ∧ (apply p m).board t = some (.pawn, p.stm.other) := by
  obtain ⟨hd, hs, t, h1, h2, h3⟩ := ep_recorded_only h
  subst hs
  obtain ⟨hsrc, _, hf, hr1, hr2, _⟩ := double_step_shape hpl hd
  have hb := apply_board_double hpl hd t
  have n1 : t ≠ m.dst := by intro e; rw [e] at h2; omega
  have n2 : t ≠ m.src := by intro e; rw [e] at h2; omega
  rw [if_neg n1, if_neg n2] at hb
  unfold Pos.has at h3
  rw [beq_iff_eq, apply_stm] at h3
  exact ⟨rfl, hsrc, hf, hr1, hr2, t, h1, h2, hb ▸ h3, h3⟩

/-! ### (B) the mark is kept whenever an en-passant capture is pseudo-legal -/

/-- a pseudo-legal move that `isEnPassant` classifies as en passant (a pawn changing file onto an empty
square) is the en-passant clause of `pseudoLegal`: the ep mark is the pawn beside the capturer, on the
destination's file.  No hypothesis on the position. -/
theorem ep_capture_facts {q : Pos} {m : Move} (hpl : pseudoLegal q m = true) (he : isEnPassant q m = true) :
    ∃ x : Sq, q.ep = some x ∧ x.rank = m.src.rank ∧ x.file = m.dst.file ∧
      (m.dst.file - m.src.file).natAbs = 1 ∧ m.dst.rank - m.src.rank = q.stm.fwd ∧
      q.board x = some (.pawn, q.stm.other) ∧ q.board m.src = some (.pawn, q.stm) ∧ q.board m.dst = none := by
  obtain ⟨pc, hsrc, _⟩ := pseudoLegal_src hpl
  by_cases hp : pc = .pawn
  · subst hp
    obtain ⟨hne, hde⟩ := (isEnPassant_pawn hsrc).mp he
    obtain ⟨_, hk⟩ := pseudoLegal_pawn hpl hsrc
    rcases hk with ⟨a, _, _⟩ | ⟨a, _⟩ | ⟨_, _, x, c⟩ | ⟨a, b, c, x, hx, hpe, hbx⟩
    · exact absurd (by omega) hne
    · exact absurd (by omega) hne
    · rw [hde] at c; cases c
    · rw [sq?_eq_some] at hx
      exact ⟨x, hpe, hx.2, hx.1, a, b, hbx, hsrc, c⟩
  · rw [isEnPassant_not_pawn hsrc hp] at he; cases he

/-- the recording policy keeps the mark whenever an en-passant capture is pseudo-legal -/
theorem ep_kept_of_pseudoLegal {q : Pos} {m : Move} (hpl : pseudoLegal q m = true)
    (he : isEnPassant q m = true) : (norm q).ep = q.ep ∧ q.ep.isSome = true := by
  obtain ⟨x, hx, hr, hf, hdf, _, _, hs, _⟩ := ep_capture_facts hpl he
  have hp : q.has m.src .pawn q.stm = true := by
    unfold Pos.has; rw [hs]; exact beq_self_eq_true _
  have := norm_ep_of_beside (t := m.src) hx hr.symm (by omega) hp
  rw [this, hx]
  exact ⟨rfl, rfl⟩

theorem norm_eq_of_pseudoLegal_ep {q : Pos} {m : Move} (hpl : pseudoLegal q m = true)
    (he : isEnPassant q m = true) : norm q = q :=
  norm_eq_of_ep (ep_kept_of_pseudoLegal hpl he).1

/-! ### the FEN side: the builder view of a board with a consistent mark -/

/-- `From<&Board> for BoardBuilder` followed by `get_en_passant` gives the board's own ep square back as
soon as that square is on the fourth rank of the side that has just moved (a clause of `Pos.EpSane`) -/
theorem Board.toBuilder_getEnPassant_of_epSane {b : Board} (h : b.abs.EpSane) :
    b.toBuilder.getEnPassant = b.ep := by
  unfold Builder.getEnPassant Board.toBuilder
  simp only
  cases hq : b.ep with
  | none => rfl
  | some q =>
    have hr : q.rank = b.stm.other.pawnRank + 2 * b.stm.other.fwd := (h q hq).2.1
    simp only [Option.map_some]
    rw [← fourthRank_of_spec b.stm.other q hr, sane_mkSq_getRank_getFile]

/-- the position a board's builder view describes is the board's position -/
theorem pos_eq_abs_of_fields {q : Pos} {b : Board} (h2 : ∀ s, q.board s = b.toBuilder.pieces s)
    (h3 : q.stm = b.stm) (h4 : q.castleK .white = b.wcr.ks) (h5 : q.castleQ .white = b.wcr.qs)
    (h6 : q.castleK .black = b.bcr.ks) (h7 : q.castleQ .black = b.bcr.qs) (h8 : q.ep = b.ep) :
    q = b.abs := by
  obtain ⟨qb, qs, qk, qq, qe⟩ := q
  simp only at h2 h3 h4 h5 h6 h7 h8
  have e1 : qb = b.abs.board := funext h2
  have e2 : qk = b.abs.castleK := by
    funext c; cases c
    · exact h4
    · exact h6
  have e3 : qq = b.abs.castleQ := by
    funext c; cases c
    · exact h5
    · exact h7
  subst e1 e2 e3 h3 h8
  rfl

/-- the text of a board whose ep mark is consistent decodes (standard FEN) to the board's position -/
theorem decode_showBoard_of_epSane {b : Board} (h : b.abs.EpSane) :
    Fen.decode (showBoard b) = some b.abs := by
  obtain ⟨q, h1, h2, h3, h4, h5, h6, h7, h8⟩ := decode_showBuilder b.toBuilder
  show Fen.decode (showBuilder b.toBuilder) = some b.abs
  rw [h1, pos_eq_abs_of_fields h2 h3 h4 h5 h6 h7 (h8.trans (Board.toBuilder_getEnPassant_of_epSane h))]

/-! ### the model: `make_move_new` on a valid position -/

/-- the result of `make_move_new` for a pseudo-legal move on a valid position: its position is
`norm (apply …)` and its ep mark is consistent -/
theorem makeMoveNew_abs_valid {T : Tables} (hT : TablesOK T) {b b' : Board} {m : Move} (hc : Core T b)
    (hv : Valid b.abs = true) (hpl : pseudoLegal b.abs m = true) (h : b.makeMoveNew T m = some b') :
    b'.abs = norm (apply b.abs m) ∧ b'.abs.EpSane :=
  have hi := PlayInv.move hT ⟨hc, Valid_epSane hv, Valid_rightsSane hv⟩ hpl h
  ⟨hi.2, hi.1.2.1⟩

/-- the same under the two side conditions of C02 only -/
theorem makeMoveNew_abs_sane {T : Tables} (hT : TablesOK T) {b b' : Board} {m : Move} (hc : Core T b)
    (hep : b.abs.EpSane) (hrs : b.abs.RightsSane) (hpl : pseudoLegal b.abs m = true)
    (h : b.makeMoveNew T m = some b') : b'.abs = norm (apply b.abs m) ∧ b'.abs.EpSane :=
  have hi := PlayInv.move hT ⟨hc, hep, hrs⟩ hpl h
  ⟨hi.2, hi.1.2.1⟩

end Chess
