import ChessVerif.Spec.Plausible
import ChessVerif.Lemmas.GeomBridge5
import ChessVerif.Lemmas.Closure
import ChessVerif.Lemmas.EpBounds
/-!
Helpers for `Props/C01Plausible.lean`:

* `plausible` in propositional form, and the geometric reach predicate `Reach`;
* every kind of movement `pseudoLegal` knows (pawn steps and captures, knight jump, king step, castling,
  slides along rook / bishop / queen directions) stays within `Reach`;
* `pseudoLegal p m → plausible p m`;
* `epPolicy` in propositional form, and `epPolicy q (norm q).ep = none`.
-/
namespace Chess
namespace Plausible

/-- the geometric clause of `plausible`: same file, same rank, same diagonal, or a knight's jump -/
def Reach (a b : Sq) : Prop :=
  (b.file - a.file).natAbs = 0 ∨ (b.rank - a.rank).natAbs = 0 ∨
    (b.file - a.file).natAbs = (b.rank - a.rank).natAbs ∨
    ((b.file - a.file).natAbs = 1 ∧ (b.rank - a.rank).natAbs = 2) ∨
    ((b.file - a.file).natAbs = 2 ∧ (b.rank - a.rank).natAbs = 1)

/-- the promotion clause of `plausible` -/
def PromoOK (o : Option Piece) : Prop := o = none ∨ ∃ q, o = some q ∧ promoPieces.contains q = true

/-- the promotion clause as a Boolean function -/
def promoB (o : Option Piece) : Bool := match o with | none => true | some q => promoPieces.contains q

theorem promoB_iff (o : Option Piece) : promoB o = true ↔ PromoOK o := by
  unfold PromoOK promoB
  cases o with
  | none => simp
  | some q => simp

theorem plausible_eq (p : Pos) (m : Move) : plausible p m =
    (p.colorAt m.src == some p.stm && m.src != m.dst &&
      ((m.dst.file - m.src.file).natAbs == 0 || (m.dst.rank - m.src.rank).natAbs == 0 ||
        (m.dst.file - m.src.file).natAbs == (m.dst.rank - m.src.rank).natAbs ||
        ((m.dst.file - m.src.file).natAbs == 1 && (m.dst.rank - m.src.rank).natAbs == 2) ||
        ((m.dst.file - m.src.file).natAbs == 2 && (m.dst.rank - m.src.rank).natAbs == 1)) &&
      promoB m.promo) := rfl

theorem promoOK_of_isNone {o : Option Piece} (h : o.isNone = true) : PromoOK o := by
  cases o with
  | none => exact Or.inl rfl
  | some q => cases h

/-- `plausible` read as a proposition -/
theorem plausible_iff (p : Pos) (m : Move) : plausible p m = true ↔
    p.colorAt m.src = some p.stm ∧ m.src ≠ m.dst ∧ Reach m.src m.dst ∧ PromoOK m.promo := by
  unfold Reach
  rw [plausible_eq, Bool.and_eq_true, Bool.and_eq_true, Bool.and_eq_true, promoB_iff]
  simp only [Bool.or_eq_true, Bool.and_eq_true, beq_iff_eq, bne_iff_ne, ne_eq]
  constructor
  · rintro ⟨⟨⟨h1, h2⟩, h3⟩, h4⟩
    refine ⟨h1, h2, ?_, h4⟩
    rcases h3 with (((h | h) | h) | h) | h
    · exact Or.inl h
    · exact Or.inr (Or.inl h)
    · exact Or.inr (Or.inr (Or.inl h))
    · exact Or.inr (Or.inr (Or.inr (Or.inl h)))
    · exact Or.inr (Or.inr (Or.inr (Or.inr h)))
  · rintro ⟨h1, h2, h3, h4⟩
    refine ⟨⟨⟨h1, h2⟩, ?_⟩, h4⟩
    rcases h3 with h | h | h | h | h
    · exact Or.inl (Or.inl (Or.inl (Or.inl h)))
    · exact Or.inl (Or.inl (Or.inl (Or.inr h)))
    · exact Or.inl (Or.inl (Or.inr h))
    · exact Or.inl (Or.inr h)
    · exact Or.inr h

theorem colorAt_of_board {p : Pos} {s : Sq} {pc : Piece} {c : Color} (h : p.board s = some (pc, c)) :
    p.colorAt s = some c := by
  unfold Pos.colorAt; rw [h]; rfl

/-! ### geometry: every movement stays within `Reach` -/

/-- a slide along a rook, bishop or queen direction -/
theorem reach_of_aligned_all {a b : Sq} (h : aligned allDirs a b = true) : Reach a b := by
  obtain ⟨_, h⟩ := (aligned_all_iff a b).mp h
  unfold Reach
  omega

theorem reach_of_aligned_rook {a b : Sq} (h : aligned rookDirs a b = true) : Reach a b :=
  reach_of_aligned_all (aligned_allDirs_of_rook h)

theorem reach_of_aligned_bishop {a b : Sq} (h : aligned bishopDirs a b = true) : Reach a b :=
  reach_of_aligned_all (aligned_allDirs_of_bishop h)

/-- sharper: a rook slide keeps the file or the rank -/
theorem rook_slide_coord {a b : Sq} (h : aligned rookDirs a b = true) :
    (b.file - a.file).natAbs = 0 ∨ (b.rank - a.rank).natAbs = 0 := by
  obtain ⟨_, h⟩ := (aligned_rook_iff a b).mp h
  omega

/-- sharper: a bishop slide changes file and rank by the same amount -/
theorem bishop_slide_coord {a b : Sq} (h : aligned bishopDirs a b = true) :
    (b.file - a.file).natAbs = (b.rank - a.rank).natAbs :=
  ((aligned_bishop_iff a b).mp h).2

theorem reach_of_slides {ds : List Dir} (hds : ds = rookDirs ∨ ds = bishopDirs ∨ ds = allDirs) {p : Pos} {a b : Sq}
    (h : slides ds p a b = true) : Reach a b := by
  unfold slides at h
  rw [Bool.and_eq_true] at h
  rcases hds with e | e | e <;> subst e
  · exact reach_of_aligned_rook h.1
  · exact reach_of_aligned_bishop h.1
  · exact reach_of_aligned_all h.1

/-- a king step changes file and rank by at most one, not both by zero -/
theorem king_step_coord {a b : Sq} (h : (allDirs.any fun u => onRay a u 1 b) = true) :
    (b.file - a.file).natAbs ≤ 1 ∧ (b.rank - a.rank).natAbs ≤ 1 ∧
      ¬ ((b.file - a.file).natAbs = 0 ∧ (b.rank - a.rank).natAbs = 0) := by
  rw [List.any_eq_true] at h
  obtain ⟨u, _, hu⟩ := h
  rw [onRay_iff] at hu
  obtain ⟨_, h1, h2⟩ := hu
  cases u <;> simp only [Dir.df, Dir.dr] at h1 h2 <;> omega

theorem reach_of_king_step {a b : Sq} (h : (allDirs.any fun u => onRay a u 1 b) = true) : Reach a b := by
  have := king_step_coord h
  unfold Reach
  omega

theorem reach_of_knight {a b : Sq}
    (h : (((b.file - a.file).natAbs == 1 && (b.rank - a.rank).natAbs == 2) ||
          ((b.file - a.file).natAbs == 2 && (b.rank - a.rank).natAbs == 1)) = true) : Reach a b := by
  simp only [Bool.or_eq_true, Bool.and_eq_true, beq_iff_eq] at h
  unfold Reach
  rcases h with h | h
  · exact Or.inr (Or.inr (Or.inr (Or.inl h)))
  · exact Or.inr (Or.inr (Or.inr (Or.inr h)))

/-- what the man on `a` attacks is within reach of `a` (knight, king, pawn, sliders) -/
theorem reach_of_attacks {p : Pos} {a b : Sq} (h : attacks p a b = true) : Reach a b := by
  unfold attacks at h
  split at h
  · cases h
  · exact reach_of_knight h
  · exact reach_of_king_step h
  · rename_i c _
    simp only [Bool.and_eq_true, beq_iff_eq] at h
    have hc := Closure.fwd_abs c
    unfold Reach
    omega
  · exact reach_of_slides (Or.inr (Or.inl rfl)) h
  · exact reach_of_slides (Or.inl rfl) h
  · exact reach_of_slides (Or.inr (Or.inr rfl)) h

/-! ### the pawn and king clauses of `pseudoLegal` -/

/-- the movement part of the pawn clause (single step, double step, capture, en passant) -/
theorem reach_of_pawn {p : Pos} {m : Move} {c : Color}
    (h : ((m.dst.file - m.src.file == 0 && m.dst.rank - m.src.rank == c.fwd && p.empty m.dst)
      || (m.dst.file - m.src.file == 0 && m.dst.rank - m.src.rank == 2 * c.fwd && m.src.rank == c.pawnRank &&
            p.empty m.dst &&
            (match sq? m.src.file (m.src.rank + c.fwd) with | some x => p.empty x | none => false))
      || ((m.dst.file - m.src.file).natAbs == 1 && m.dst.rank - m.src.rank == c.fwd &&
            p.colorAt m.dst == some c.other)
      || ((m.dst.file - m.src.file).natAbs == 1 && m.dst.rank - m.src.rank == c.fwd && p.empty m.dst &&
            (match sq? m.dst.file m.src.rank with
             | some q => p.ep == some q && p.has q .pawn c.other
             | none => false))) = true) : Reach m.src m.dst := by
  have hc := Closure.fwd_abs c
  simp only [Bool.or_eq_true, Bool.and_eq_true, beq_iff_eq] at h
  unfold Reach
  rcases h with ((h | h) | h) | h
  · have := h.1.1; omega
  · have := h.1.1.1.1; omega
  · have h1 := h.1.1; have h2 := h.1.2; omega
  · have h1 := h.1.1.1; have h2 := h.1.1.2; omega

/-- the promotion part of the pawn clause -/
theorem promoOK_of_pawn {m : Move} {P : Prop} [Decidable P]
    (h : (if P then (match m.promo with | some q => promoPieces.contains q | none => false)
          else m.promo.isNone) = true) : PromoOK m.promo := by
  split at h
  · cases hm : m.promo with
    | none => exact Or.inl rfl
    | some q => rw [hm] at h; exact Or.inr ⟨q, rfl, h⟩
  · exact promoOK_of_isNone h

/-! ### `pseudoLegal → plausible` -/

theorem pseudoLegal_plausible {p : Pos} {m : Move} (h : pseudoLegal p m = true) : plausible p m = true := by
  unfold pseudoLegal at h
  split at h
  · cases h
  · rename_i pc c' hb
    simp only [Bool.and_eq_true, beq_iff_eq, bne_iff_ne] at h
    obtain ⟨⟨hc, hd⟩, h⟩ := h
    subst hc
    have hne : m.src ≠ m.dst := Closure.src_ne_dst hb (Closure.colorAt_ne_iff.mp hd)
    rw [plausible_iff]
    refine ⟨colorAt_of_board hb, hne, ?_⟩
    split at h
    · -- pawn
      rw [Bool.and_eq_true] at h
      exact ⟨reach_of_pawn h.2, promoOK_of_pawn h.1⟩
    · -- king
      rw [Bool.and_eq_true, Bool.or_eq_true] at h
      refine ⟨?_, promoOK_of_isNone h.1⟩
      rcases h.2 with h2 | h2
      · exact reach_of_attacks h2
      · -- castling: same rank
        simp only [Bool.and_eq_true, beq_iff_eq] at h2
        have hr := h2.1.1.1.2
        unfold Reach
        omega
    · rw [Bool.and_eq_true] at h
      exact ⟨reach_of_attacks h.2, promoOK_of_isNone h.1⟩

theorem legal_plausible {p : Pos} {m : Move} (h : legal p m = true) : plausible p m = true :=
  pseudoLegal_plausible (Closure.legal_pseudo h)

theorem mem_legalMoves {p : Pos} {m : Move} (h : m ∈ legalMoves p) : legal p m = true := by
  unfold legalMoves at h
  exact (List.mem_filter.mp h).2

/-- a plausible triple is one of the specification's candidates -/
theorem mem_candidates_of_plausible {p : Pos} {m : Move} (h : plausible p m = true) : m ∈ candidates p := by
  obtain ⟨h1, _, _, h4⟩ := (plausible_iff p m).mp h
  unfold candidates
  simp only [List.mem_flatMap, List.mem_filter, List.mem_map]
  refine ⟨m.src, ⟨mem_allSq _, by rw [h1]; exact beq_self_eq_true _⟩, m.dst, mem_allSq _, m.promo, ?_, rfl⟩
  rcases h4 with h4 | ⟨q, h4, hq⟩
  · rw [h4]; exact List.mem_cons_self
  · rw [h4]
    refine List.mem_cons_of_mem _ (List.mem_map.mpr ⟨q, ?_, rfl⟩)
    simpa using hq

theorem mem_legalMoves_iff (p : Pos) (m : Move) : m ∈ legalMoves p ↔ legal p m = true :=
  ⟨mem_legalMoves, fun h => List.mem_filter.mpr ⟨mem_candidates_of_plausible (legal_plausible h), h⟩⟩

/-! ### `epPolicy` -/

/-- "a legal en-passant capture exists" as the driver evaluates it -/
theorem any_ep_iff (q : Pos) :
    (legalMoves q).any (isEnPassant q) = true ↔ ∃ m ∈ legalMoves q, isEnPassant q m = true := by
  rw [List.any_eq_true]

/-- `epPolicy` read as a proposition -/
theorem epPolicy_none_iff (q : Pos) (r : Option Sq) : epPolicy q r = none ↔
    (r = none ∧ ¬ (q.ep.isSome = true ∧ ∃ m ∈ legalMoves q, isEnPassant q m = true)) ∨
    (∃ s, r = some s ∧ q.ep = some s ∧ (norm q).ep = some s) := by
  unfold epPolicy
  cases r with
  | none =>
    simp only [any_ep_iff, true_and, reduceCtorEq, false_and, exists_false, or_false]
    constructor
    · intro h hc
      rw [if_pos hc] at h
      cases h
    · intro h
      rw [if_neg h]
  | some s =>
    simp only [reduceCtorEq, false_and, false_or, Option.some.injEq]
    constructor
    · intro h
      split at h
      · cases h
      · rename_i h1
        split at h
        · cases h
        · rename_i h2
          simp only [bne_iff_ne, ne_eq, Decidable.not_not] at h1 h2
          exact ⟨s, rfl, h1, h2⟩
    · rintro ⟨s', rfl, h1, h2⟩
      have e1 : (q.ep != some s) = false := by rw [h1]; exact bne_self_eq_false _
      have e2 : ((norm q).ep != some s) = false := by rw [h2]; exact bne_self_eq_false _
      rw [e1, e2]
      rfl

/-- the library's policy `norm` lies within the bounds -/
theorem epPolicy_norm (q : Pos) : epPolicy q (norm q).ep = none := by
  rw [epPolicy_none_iff]
  cases hn : (norm q).ep with
  | none =>
    refine Or.inl ⟨rfl, ?_⟩
    rintro ⟨hs, m, hm, he⟩
    have hk := ep_kept_of_pseudoLegal (Closure.legal_pseudo (mem_legalMoves hm)) he
    rw [hn] at hk
    rw [← hk.1] at hs
    cases hs
  | some s => exact Or.inr ⟨s, rfl, norm_ep_some hn, rfl⟩

end Plausible
end Chess
