import ChessVerif.Lemmas.GeomBridge
import ChessVerif.Lemmas.Core
/-
Pseudo-legal destination sets of the code (`MoveGen.pseudoLegals`) against the specification
(`attacks`, `pseudoLegal`), part 1: the occupancy bridge between the bitboards of a `Struct` board
and its abstraction, and the five non-pawn piece kinds.
-/
namespace Chess
namespace PseudoBits

set_option maxRecDepth 100000

/-! ### 3. occupancy bridge -/

theorem abs_empty (b : Board) (z : Sq) : b.abs.empty z = (b.content z).isNone := rfl
theorem abs_colorAt (b : Board) (z : Sq) : b.abs.colorAt z = (b.content z).map (·.2) := rfl
theorem abs_stm (b : Board) : b.abs.stm = b.stm := rfl

/-- `combined` is the set of non-empty squares of the abstraction -/
theorem occ_bridge {b : Board} (hs : Struct b) (z : Sq) : b.combined.has z = !b.abs.empty z := by
  rw [abs_empty]
  unfold BB.has
  cases hc : b.content z with
  | none => rw [(hs.content_none_iff z).mp hc]; rfl
  | some x =>
    cases hb : b.combined.getLsbD z.val with
    | true => rfl
    | false => rw [(hs.content_none_iff z).mpr hb] at hc; cases hc

theorem empty_iff_combined {b : Board} (hs : Struct b) (z : Sq) :
    b.abs.empty z = true ↔ b.combined.getLsbD z.val = false := by
  have h := occ_bridge hs z
  unfold BB.has at h
  rw [h]; cases b.abs.empty z <;> simp

theorem empty_false_iff_combined {b : Board} (hs : Struct b) (z : Sq) :
    b.abs.empty z = false ↔ b.combined.getLsbD z.val = true := by
  have h := occ_bridge hs z
  unfold BB.has at h
  rw [h]; cases b.abs.empty z <;> simp

/-- the colour boards are the colour of the man on a square -/
theorem colorAt_iff_cbit {b : Board} (hs : Struct b) (d : Sq) (c : Color) :
    b.abs.colorAt d = some c ↔ (b.colorCombined c).getLsbD d.val = true := by
  rw [abs_colorAt]
  constructor
  · intro h
    cases hc : b.content d with
    | none => rw [hc] at h; cases h
    | some x =>
      rcases x with ⟨pc, c'⟩
      rw [hc] at h
      have : c' = c := by simpa using h
      subst this
      exact ((hs.content_some_iff d pc c').mp hc).2
  · intro h
    have hcomb : b.combined.getLsbD d.val = true := by
      rw [hs.comb_color]
      cases c with
      | white => have : b.white.getLsbD d.val = true := h; rw [this]; rfl
      | black => have : b.black.getLsbD d.val = true := h; rw [this]; simp
    cases hc : b.content d with
    | none => rw [(hs.content_none_iff d).mp hc] at hcomb; cases hcomb
    | some x =>
      rcases x with ⟨pc, c'⟩
      have h2 : (b.colorCombined c').getLsbD d.val = true := ((hs.content_some_iff d pc c').mp hc).2
      have : c' = c := by
        cases c <;> cases c'
        · rfl
        · have hw : b.white.getLsbD d.val = true := h
          have hb : b.black.getLsbD d.val = true := h2
          rw [hs.color_disj d.val hw] at hb; cases hb
        · have hw : b.white.getLsbD d.val = true := h2
          have hb : b.black.getLsbD d.val = true := h
          rw [hs.color_disj d.val hw] at hb; cases hb
        · rfl
      subst this
      rfl

/-- the code's destination mask `!color_combined(c)`: the squares not holding a man of colour `c` -/
theorem mask_iff {b : Board} (hs : Struct b) (d : Sq) (c : Color) :
    (~~~(b.colorCombined c)).getLsbD d.val = true ↔ b.abs.colorAt d ≠ some c := by
  rw [BitVec.getLsbD_not, ne_eq, colorAt_iff_cbit hs]
  have : d.val < 64 := d.isLt
  cases (b.colorCombined c).getLsbD d.val <;> simp [this]

/-- an occupied square holds a man of one colour or the other -/
theorem colorAt_other_iff (b : Board) (d : Sq) (c : Color) :
    b.abs.colorAt d = some c.other ↔ (b.abs.empty d = false ∧ b.abs.colorAt d ≠ some c) := by
  rw [abs_colorAt, abs_empty]
  cases b.content d with
  | none => simp
  | some x =>
    rcases x with ⟨pc, c'⟩
    cases c <;> cases c' <;> simp [Color.other]

theorem board_src {b : Board} {src : Sq} {pc : Piece} {c : Color} (h : b.content src = some (pc, c)) :
    b.abs.board src = some (pc, c) := by rw [abs_board]; exact h

/-! ### 1. knight, bishop, rook, queen, king: the destination set is `attacks` minus own men -/

theorem knight_bits {T : Tables} (hT : TablesOK T) {b : Board} (hs : Struct b) {src : Sq} {c : Color}
    (hsrc : b.content src = some (.knight, c)) (d : Sq) :
    (MoveGen.pseudoLegals T .knight src c b.combined (~~~(b.colorCombined c))).getLsbD d.val = true ↔
      (attacks b.abs src d = true ∧ b.abs.colorAt d ≠ some c) := by
  unfold MoveGen.pseudoLegals
  simp only
  rw [BitVec.getLsbD_and, Bool.and_eq_true, mask_iff hs, hT.knight, mem_knight]
  unfold attacks
  rw [board_src hsrc]

theorem bishop_bits {T : Tables} (hT : TablesOK T) {b : Board} (hs : Struct b) {src : Sq} {c : Color}
    (hsrc : b.content src = some (.bishop, c)) (d : Sq) :
    (MoveGen.pseudoLegals T .bishop src c b.combined (~~~(b.colorCombined c))).getLsbD d.val = true ↔
      (attacks b.abs src d = true ∧ b.abs.colorAt d ≠ some c) := by
  unfold MoveGen.pseudoLegals
  simp only
  rw [BitVec.getLsbD_and, Bool.and_eq_true, mask_iff hs, hT.bishopMoves]
  unfold Geom.bishopWalk
  rw [mem_sliderWalk_slides bishopDirs b.abs b.combined (occ_bridge hs)]
  unfold attacks
  rw [board_src hsrc]

theorem rook_bits {T : Tables} (hT : TablesOK T) {b : Board} (hs : Struct b) {src : Sq} {c : Color}
    (hsrc : b.content src = some (.rook, c)) (d : Sq) :
    (MoveGen.pseudoLegals T .rook src c b.combined (~~~(b.colorCombined c))).getLsbD d.val = true ↔
      (attacks b.abs src d = true ∧ b.abs.colorAt d ≠ some c) := by
  unfold MoveGen.pseudoLegals
  simp only
  rw [BitVec.getLsbD_and, Bool.and_eq_true, mask_iff hs, hT.rookMoves]
  unfold Geom.rookWalk
  rw [mem_sliderWalk_slides rookDirs b.abs b.combined (occ_bridge hs)]
  unfold attacks
  rw [board_src hsrc]

theorem queen_bits {T : Tables} (hT : TablesOK T) {b : Board} (hs : Struct b) {src : Sq} {c : Color}
    (hsrc : b.content src = some (.queen, c)) (d : Sq) :
    (MoveGen.pseudoLegals T .queen src c b.combined (~~~(b.colorCombined c))).getLsbD d.val = true ↔
      (attacks b.abs src d = true ∧ b.abs.colorAt d ≠ some c) := by
  unfold MoveGen.pseudoLegals
  simp only
  rw [BitVec.getLsbD_and, Bool.and_eq_true, mask_iff hs, hT.rookMoves, hT.bishopMoves,
    rookWalk_xor_bishopWalk, ← sliderWalk_allDirs,
    mem_sliderWalk_slides allDirs b.abs b.combined (occ_bridge hs)]
  unfold attacks
  rw [board_src hsrc]

theorem king_bits {T : Tables} (hT : TablesOK T) {b : Board} (hs : Struct b) {src : Sq} {c : Color}
    (hsrc : b.content src = some (.king, c)) (d : Sq) :
    (MoveGen.pseudoLegals T .king src c b.combined (~~~(b.colorCombined c))).getLsbD d.val = true ↔
      (attacks b.abs src d = true ∧ b.abs.colorAt d ≠ some c) := by
  unfold MoveGen.pseudoLegals
  simp only
  rw [BitVec.getLsbD_and, Bool.and_eq_true, mask_iff hs, hT.king, mem_king_spec]
  unfold attacks
  rw [board_src hsrc]

/-- all five non-pawn kinds at once -/
theorem piece_bits {T : Tables} (hT : TablesOK T) {b : Board} (hs : Struct b) {src : Sq} {pc : Piece}
    {c : Color} (hpc : pc ≠ .pawn) (hsrc : b.content src = some (pc, c)) (d : Sq) :
    (MoveGen.pseudoLegals T pc src c b.combined (~~~(b.colorCombined c))).getLsbD d.val = true ↔
      (attacks b.abs src d = true ∧ b.abs.colorAt d ≠ some c) := by
  cases pc with
  | pawn => exact absurd rfl hpc
  | knight => exact knight_bits hT hs hsrc d
  | bishop => exact bishop_bits hT hs hsrc d
  | rook => exact rook_bits hT hs hsrc d
  | queen => exact queen_bits hT hs hsrc d
  | king => exact king_bits hT hs hsrc d

/-- the specification's pseudo-legality of a man that is neither pawn nor king -/
theorem pseudoLegal_piece {p : Pos} {src : Sq} {pc : Piece} (hp : pc ≠ .pawn) (hk : pc ≠ .king)
    (hsrc : p.board src = some (pc, p.stm)) (d : Sq) (q : Option Piece) :
    pseudoLegal p ⟨src, d, q⟩ = true ↔ (q = none ∧ attacks p src d = true ∧ p.colorAt d ≠ some p.stm) := by
  unfold pseudoLegal
  simp only [hsrc]
  cases pc with
  | pawn => exact absurd rfl hp
  | king => exact absurd rfl hk
  | knight | bishop | rook | queen =>
    simp only [beq_self_eq_true, Bool.true_and, Bool.and_eq_true, bne_iff_ne, ne_eq,
      Option.isNone_iff_eq_none]
    constructor
    · rintro ⟨h1, h2, h3⟩; exact ⟨h2, h3, h1⟩
    · rintro ⟨h1, h2, h3⟩; exact ⟨h3, h1, h2⟩

theorem isEnPassant_piece {p : Pos} {src : Sq} {pc : Piece} {c : Color} (hp : pc ≠ .pawn)
    (hsrc : p.board src = some (pc, c)) (d : Sq) (q : Option Piece) :
    isEnPassant p ⟨src, d, q⟩ = false := by
  unfold isEnPassant
  simp only [hsrc]
  cases pc with
  | pawn => exact absurd rfl hp
  | _ => rfl

/-- knight, bishop, rook, queen of the side to move: bit `d` of the code's set iff the plain move
`src → d` is pseudo-legal in the specification -/
theorem piece_bits_pseudoLegal {T : Tables} (hT : TablesOK T) {b : Board} (hs : Struct b) {src : Sq}
    {pc : Piece} (hp : pc ≠ .pawn) (hk : pc ≠ .king) (hsrc : b.content src = some (pc, b.stm)) (d : Sq) :
    (MoveGen.pseudoLegals T pc src b.stm b.combined (~~~(b.colorCombined b.stm))).getLsbD d.val = true ↔
      pseudoLegal b.abs ⟨src, d, none⟩ = true := by
  rw [piece_bits hT hs hp hsrc, pseudoLegal_piece hp hk (board_src hsrc)]
  simp only [true_and, abs_stm]

theorem attacks_king_file_le {p : Pos} {a b : Sq} {c : Color} (hk : p.board a = some (.king, c))
    (h : attacks p a b = true) : (b.file - a.file).natAbs ≤ 1 := by
  unfold attacks at h
  rw [hk] at h
  simp only at h
  rw [← mem_king_spec, mem_king] at h
  simp only [Bool.and_eq_true, decide_eq_true_eq] at h
  exact h.1.2

/-- the specification's pseudo-legality of a king move that is not a castling move: a king step -/
theorem pseudoLegal_king_step {p : Pos} {src : Sq} (hsrc : p.board src = some (.king, p.stm)) (d : Sq)
    (q : Option Piece) :
    (pseudoLegal p ⟨src, d, q⟩ = true ∧ isCastle p ⟨src, d, q⟩ = false) ↔
      (q = none ∧ attacks p src d = true ∧ p.colorAt d ≠ some p.stm) := by
  unfold pseudoLegal isCastle
  simp only [hsrc, beq_self_eq_true, Bool.true_and, Bool.and_eq_true, bne_iff_ne, ne_eq,
    Option.isNone_iff_eq_none, Bool.or_eq_true, beq_eq_false_iff_ne]
  constructor
  · rintro ⟨⟨h1, h2, h3 | h3⟩, h4⟩
    · exact ⟨h2, h3, h1⟩
    · exfalso
      simp only [beq_iff_eq] at h3
      exact h4 h3.1.2
  · rintro ⟨h1, h2, h3⟩
    refine ⟨⟨h3, h1, Or.inl h2⟩, ?_⟩
    have := attacks_king_file_le hsrc h2
    omega

/-- the king of the side to move: bit `d` of the code's set iff `src → d` is a pseudo-legal king step -/
theorem king_bits_pseudoLegal {T : Tables} (hT : TablesOK T) {b : Board} (hs : Struct b) {src : Sq}
    (hsrc : b.content src = some (.king, b.stm)) (d : Sq) :
    (MoveGen.pseudoLegals T .king src b.stm b.combined (~~~(b.colorCombined b.stm))).getLsbD d.val = true ↔
      (pseudoLegal b.abs ⟨src, d, none⟩ = true ∧ isCastle b.abs ⟨src, d, none⟩ = false) := by
  rw [king_bits hT hs hsrc, pseudoLegal_king_step (board_src hsrc)]
  simp only [true_and, abs_stm]

end PseudoBits
end Chess
